import WebpVerif.Drv.C12
import WebpVerif.Drv.C13
import WebpVerif.Drv.C15
import WebpVerif.Drv.Anim
import WebpVerif.Drv.Container
import WebpVerif.Drv.EncHuff
import WebpVerif.Drv.Alpha
import WebpVerif.Drv.ReadImage
import WebpVerif.Drv.BitReader
import WebpVerif.Drv.Lossless
import WebpVerif.Drv.Enc
import WebpVerif.Drv.Vp8K
import WebpVerif.Drv.LLoop
import WebpVerif.Drv.Huf
import WebpVerif.Drv.Vp8Ctx
import WebpVerif.Drv.Vp8Mode
import WebpVerif.Drv.Vp8Border
import WebpVerif.Drv.Vp8Pred
import WebpVerif.Drv.Vp8Quant
import WebpVerif.Drv.Vp8LF
import WebpVerif.Drv.Vp8Resid
import WebpVerif.Drv.Vp8Intra
import WebpVerif.Drv.Vp8Header
import WebpVerif.Drv.Vp8Frame
import WebpVerif.Drv.Vp8Coef

/-! Line protocol driver: one request per line on stdin, one reply per line on stdout.
    Unknown or malformed requests answer `bad-op` (never a default value). -/

def handlers : List (List String → Option String) :=
  [DrvC12.handle, DrvC13.handle, DrvC15.handle, DrvAnim.handle, DrvContainer.handle, DrvEncHuff.handle, DrvAlpha.handle, DrvReadImage.handle, DrvBitReader.handle, DrvLossless.handle, DrvEnc.handle, DrvVp8K.handle, DrvLLoop.handle, DrvHuf.handle, DrvVp8Ctx.handle, DrvVp8Mode.handle, DrvVp8Border.handle, DrvVp8Pred.handle, DrvVp8Coef.handle, DrvVp8Quant.handle, DrvVp8LF.handle, DrvVp8Resid.handle, DrvVp8Intra.handle, DrvVp8Header.handle, DrvVp8Frame.handle]

def dispatch (args : List String) : String :=
  match handlers.findSome? (fun h => h args) with
  | some r => r
  | none => "bad-op"

partial def loop (hin hout : IO.FS.Stream) : IO Unit := do
  let line ← hin.getLine
  if line.isEmpty then return ()
  let args := (line.trimAscii.toString.splitOn " ").filter (· ≠ "")
  hout.putStrLn (dispatch args)
  hout.flush
  loop hin hout

def main : IO Unit := do
  loop (← IO.getStdin) (← IO.getStdout)
