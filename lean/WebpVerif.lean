import WebpVerif.Props.C12
