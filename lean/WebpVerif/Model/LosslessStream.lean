import WebpVerif.Spec.LosslessP
import WebpVerif.Model.CodeRead
/-
The stream structure of the lossless specification (`VP8LP`: header, transform section,
entropy-coded images with colour cache and meta prefix image, pixel loop, inverse transforms) with
the entropy layer as a parameter: a *code reader* takes the alphabet size and the stream and
returns the symbol decoder of the prefix code it read and the rest of the stream.  Two instances:
`specRC` (the specification's `ReadCode` + canonical decoder - then this is `VP8LP.decodeBits`,
`LStreamProof.spec_instance`) and `crateRC` (the models of the crate's `read_huffman_code` and
`HuffmanTree`).  `C01.entropy_layer_in_stream` proves that both decode every stream alike.
-/
namespace LStream
open VP8LP Prefix

/-- a code reader: alphabet size → stream → (symbol decoder of the code read, rest of the stream) -/
abbrev RC := Nat → List Nat → Option (Dec × List Nat)

def specRC : RC := fun a bits =>
  match readCodeL a bits with
  | none => none
  | some (lens, rest) => some (specDec lens, rest)

def crateRC : RC := fun a bits =>
  match CodeRead.readCode a bits with
  | none => none
  | some (t, rest) => some (fun bs => Huff.readSym t bs, rest)

def readGroupR (rc : RC) : List Nat → Array Dec → List Nat → Option (Array Dec × List Nat)
  | [], acc, bits => some (acc, bits)
  | a :: alph, acc, bits =>
    match rc a bits with
    | none => none
    | some (d, bits) => readGroupR rc alph (acc.push d) bits

def readGroupsR (rc : RC) (cacheBits : Nat) : Nat → Array (Array Dec) → List Nat → Option (Array (Array Dec) × List Nat)
  | 0, acc, bits => some (acc, bits)
  | k + 1, acc, bits =>
    match readGroupR rc (alphabets cacheBits) #[] bits with
    | none => none
    | some (g, bits) => readGroupsR rc cacheBits k (acc.push g) bits

def readPixelsR (rc : RC) (xsize ysize cacheBits prefixBits : Nat) (entropy : Array Nat) (numGroups : Nat)
    (bits : List Nat) : Option (List Nat × List Nat) :=
  match readGroupsR rc cacheBits numGroups #[] bits with
  | none => none
  | some (groups, bits) =>
    let c : Img := { xsize := xsize, n := xsize * ysize, cacheBits := cacheBits, prefixBits := prefixBits,
                     entropy := entropy, groups := groups }
    match loop c (xsize * ysize) 0 [] (Array.replicate (if cacheBits = 0 then 0 else 2 ^ cacheBits) 0) bits with
    | none => none
    | some (rev, bits) => some (rev.reverse, bits)

def readSubR (rc : RC) (xsize ysize : Nat) (bits : List Nat) : Option (List Nat × List Nat) :=
  match readCacheBits bits with
  | none => none
  | some (cacheBits, bits) => readPixelsR rc xsize ysize cacheBits 0 #[] 1 bits

def readMainR (rc : RC) (xsize ysize : Nat) (bits : List Nat) : Option (List Nat × List Nat) :=
  match readCacheBits bits with
  | none => none
  | some (cacheBits, bits) =>
    match readBitsL 1 bits with
    | none => none
    | some (hasMeta, bits) =>
      if hasMeta = 1 then
        match readBitsL 3 bits with
        | none => none
        | some (pb, bits) =>
          match readSubR rc (VP8L.subSize xsize (pb + 2)) (VP8L.subSize ysize (pb + 2)) bits with
          | none => none
          | some (img, bits) =>
            let entropy := (img.map fun p => (p / 256) % 65536).toArray
            readPixelsR rc xsize ysize cacheBits (pb + 2) entropy (entropy.foldl max 0 + 1) bits
      else readPixelsR rc xsize ysize cacheBits 0 #[] 1 bits

def readTransformsR (rc : RC) (h : Nat) : Nat → Nat → List Nat → List T → List Nat → Option (Nat × List T × List Nat)
  | 0, _, _, _, _ => none
  | fuel + 1, xsize, seen, ts, bits =>
    match readBitsL 1 bits with
    | none => none
    | some (present, bits) =>
      if present = 0 then some (xsize, ts, bits)
      else
        match readBitsL 2 bits with
        | none => none
        | some (ty, bits) =>
          if seen.contains ty then none
          else if ty = 0 ∨ ty = 1 then
            match readBitsL 3 bits with
            | none => none
            | some (sb, bits) =>
              match readSubR rc (VP8L.subSize xsize (sb + 2)) (VP8L.subSize h (sb + 2)) bits with
              | none => none
              | some (img, bits) =>
                readTransformsR rc h fuel xsize (ty :: seen)
                  ((if ty = 0 then T.predictor (sb + 2) img.toArray else T.color (sb + 2) img.toArray) :: ts) bits
          else if ty = 2 then readTransformsR rc h fuel xsize (ty :: seen) (T.subtractGreen :: ts) bits
          else
            match readBitsL 8 bits with
            | none => none
            | some (n1, bits) =>
              match readSubR rc (n1 + 1) 1 bits with
              | none => none
              | some (tab, bits) =>
                readTransformsR rc h fuel (VP8L.subSize xsize (VP8L.indexBits (n1 + 1))) (ty :: seen)
                  (T.colorIndexing (match tab with
                                    | [] => #[]
                                    | p :: rest => (p :: undiff rest p).toArray) :: ts) bits

def decodeBitsR (rc : RC) (bits : List Nat) : Option (Nat × Nat × List Nat) :=
  match readBitsL 8 bits with
  | none => none
  | some (sig, bits) =>
    if sig ≠ 0x2f then none else
    match readBitsL 14 bits with
    | none => none
    | some (w1, bits) =>
    match readBitsL 14 bits with
    | none => none
    | some (h1, bits) =>
    match readBitsL 1 bits with
    | none => none
    | some (_alpha, bits) =>
    match readBitsL 3 bits with
    | none => none
    | some (ver, bits) =>
      if ver ≠ 0 then none else
      match readTransformsR rc (h1 + 1) 5 (w1 + 1) [] [] bits with
      | none => none
      | some (xsize, ts, bits) =>
        match readMainR rc xsize (h1 + 1) bits with
        | none => none
        | some (img, _) => some (w1 + 1, h1 + 1, applyT (w1 + 1) (h1 + 1) ts xsize img)

/-- the whole VP8L decoder with the crate's entropy layer (code reader + `HuffmanTree`) -/
def decodeCrate (bytes : List Nat) : Option (Nat × Nat × List Nat) := decodeBitsR crateRC (bitsOfBytes bytes)

end LStream
