/-
Model of `build_huffman_tree` of /repo/src/encoder.rs (import-free).

Phase 1  the Huffman merge loop over std's `BinaryHeap` (max-heap; `Item`'s order is reversed on
         the frequency only, so the heap top is a least-frequent item).  The heap is transcribed
         from std 1.95 (`from_vec` rebuild, `pop` = swap with last + `sift_down_to_bottom` +
         `sift_up`, `PeekMut` drop = `sift_down`), with element swaps in place of std's `Hole`
         (same resulting array), so that the model reproduces the implementation's tie-breaking.
         Items carry the subtree built so far instead of the code's node index into
         `internal_nodes` (a data refinement: the index is never compared).
Phase 2  depth walk → `lengths`.
Phase 3  length limiting (`counts`, `total`, the move-a-leaf loop) and reassignment by
         ascending frequency.  The order of equal frequencies under `sort_unstable_by_key` is
         unspecified: the model uses a stable sort and `admitsReassign` characterises every
         admissible result.
Phase 4  canonical code assignment with bit reversal and the final `assert_eq!`.
-/
namespace EncHuff

inductive Tree where
  | leaf (sym : Nat)
  | node (l r : Tree)
deriving Repr, Inhabited

structure Item where
  freq : Nat
  tree : Tree
deriving Repr, Inhabited

/-- `a <= b` in `Item`'s (reversed) order -/
@[inline] def le (a b : Item) : Bool := b.freq ≤ a.freq
/-- `a < b` in `Item`'s order -/
@[inline] def lt (a b : Item) : Bool := b.freq < a.freq

abbrev Heap := Array Item

/-- `sift_down_range(pos, end)` -/
def siftDownRange (h : Heap) (pos endd : Nat) : Nat → Heap
  | 0 => h
  | fuel + 1 =>
    let child := 2 * pos + 1
    if child + 2 ≤ endd then
      let child := if le h[child]! h[child + 1]! then child + 1 else child
      if le h[child]! h[pos]! then h          -- `hole.element() >= hole.get(child)`: in order, stop
      else siftDownRange (h.swapIfInBounds pos child) child endd fuel
    else if child + 1 = endd ∧ lt h[pos]! h[child]! then h.swapIfInBounds pos child
    else h

/-- `sift_up(start, pos)` -/
def siftUp (h : Heap) (start pos : Nat) : Nat → Heap
  | 0 => h
  | fuel + 1 =>
    if pos > start then
      let parent := (pos - 1) / 2
      if le h[pos]! h[parent]! then h else siftUp (h.swapIfInBounds pos parent) start parent fuel
    else h

/-- the descent of `sift_down_to_bottom`: returns the array and the final hole position -/
def descend (h : Heap) (pos endd : Nat) : Nat → Heap × Nat
  | 0 => (h, pos)
  | fuel + 1 =>
    let child := 2 * pos + 1
    if child + 2 ≤ endd then
      let child := if le h[child]! h[child + 1]! then child + 1 else child
      descend (h.swapIfInBounds pos child) child endd fuel
    else if child + 1 = endd then (h.swapIfInBounds pos child, child)
    else (h, pos)

/-- `sift_down_to_bottom(0)` -/
def siftDownToBottom (h : Heap) : Heap :=
  let (h', pos) := descend h 0 h.size h.size
  siftUp h' 0 pos h.size

/-- `BinaryHeap::from(vec)`: `rebuild` -/
def rebuild (h : Heap) : Heap :=
  (List.range (h.size / 2)).reverse.foldl (fun h n => siftDownRange h n h.size h.size) h

/-- `pop()`: the removed top and the remaining heap -/
def pop (h : Heap) : Option (Item × Heap) :=
  if h.size = 0 then none
  else
    let last := h[h.size - 1]!
    let rest := h.pop
    if rest.size = 0 then some (last, rest)
    else
      let top := rest[0]!
      some (top, siftDownToBottom (rest.set! 0 last))

/-- `*peek_mut() = item` followed by the drop of the `PeekMut` (sift_down(0)) -/
def replaceTop (h : Heap) (it : Item) : Heap :=
  let h := h.set! 0 it
  siftDownRange h 0 h.size h.size

/-- the merge loop `while nodes.len() > 1` -/
def mergeLoop (h : Heap) : Nat → Heap
  | 0 => h
  | fuel + 1 =>
    if h.size > 1 then
      match pop h with
      | none => h
      | some (a, h') =>
        let b := h'[0]!
        mergeLoop (replaceTop h' { freq := a.freq + b.freq, tree := .node a.tree b.tree }) fuel
    else h

/-- depth of every leaf (the explicit-stack walk of the code visits each node once) -/
def depths : Tree → Nat → List (Nat × Nat)
  | .leaf s, d => [(s, d)]
  | .node l r, d => depths l (d + 1) ++ depths r (d + 1)

def setLengths (n : Nat) (ds : List (Nat × Nat)) : Array Nat :=
  ds.foldl (fun a (s, d) => a.setIfInBounds s (d % 256)) (Array.replicate n 0)   -- `depth as u8`

/-- phases 1–2: the lengths before limiting -/
def treeLengths (freqs : List Nat) : Array Nat :=
  let items : Heap := ((List.range freqs.length).zip freqs).filterMap (fun (i, f) =>
      if f > 0 then some { freq := f, tree := .leaf i } else none) |>.toArray
  let h := mergeLoop (rebuild items) items.size
  match h[0]? with
  | some root => setLengths freqs.length (depths root.tree 0)
  | none => Array.replicate freqs.length 0

/-- `counts[length.min(limit)] += 1` over all symbols (index 0 counts the unused ones) -/
def countLengths (lengths : Array Nat) (limit : Nat) : Array Nat :=
  lengths.foldl (fun c l => c.modify (min l limit) (· + 1)) (Array.replicate 16 0)

/-- `total = Σ_{i=1..limit} counts[i] << (limit - i)` -/
def totalOf (counts : Array Nat) (limit : Nat) : Nat :=
  ((List.range limit).map fun k => counts[k + 1]! <<< (limit - (k + 1))).sum

/-- deepest non-empty level strictly below `limit` (the inner `while counts[i] == 0 { i -= 1 }`);
    `none` models the index underflow `0 - 1` (a panic) -/
def findLevel (counts : Array Nat) : Nat → Option Nat
  | 0 => if counts[0]! ≠ 0 then some 0 else none
  | i + 1 => if counts[i + 1]! ≠ 0 then some (i + 1) else findLevel counts i

/-- the move-a-leaf loop `while total > 1 << limit` -/
def limitLoop (counts : Array Nat) (limit : Nat) (total : Nat) : Nat → Option (Array Nat)
  | 0 => if total > 2 ^ limit then none else some counts
  | fuel + 1 =>
    if total > 2 ^ limit then
      match findLevel counts (limit - 1) with
      | none => none
      | some i =>
        if counts[limit]! = 0 then none else      -- `counts[limit] -= 1` would underflow
        let c := counts.modify i (· - 1)
        let c := c.modify limit (· - 1)
        let c := c.modify (i + 1) (· + 2)
        limitLoop c limit (total - 1) fuel
    else some counts

/-- stable insertion sort of `(index, frequency)` by frequency -/
def insertByFreq (x : Nat × Nat) : List (Nat × Nat) → List (Nat × Nat)
  | [] => [x]
  | y :: ys => if x.2 < y.2 then x :: y :: ys else y :: insertByFreq x ys
def sortByFreq (l : List (Nat × Nat)) : List (Nat × Nat) := l.foldl (fun acc x => insertByFreq x acc) []

/-- the reassignment loop: in ascending frequency, hand out the longest lengths first -/
def reassign : List (Nat × Nat) → Nat → Array Nat → Array Nat → Nat → Option (Array Nat)
  | [], _, _, lengths, _ => some lengths
  | (i, f) :: rest, len, counts, lengths, fuel =>
    if f > 0 then
      -- `while counts[len] == 0 { len -= 1 }`
      let rec down (len : Nat) : Nat → Option Nat
        | 0 => none
        | k + 1 => if counts[len]! ≠ 0 then some len else if len = 0 then none else down (len - 1) k
      match down len 17 with
      | none => none
      | some len => reassign rest len (counts.modify len (· - 1)) (lengths.setIfInBounds i len) fuel
    else reassign rest len counts lengths fuel

/-- phase 3 -/
def limitLengths (freqs : List Nat) (lengths : Array Nat) (limit : Nat) : Option (Array Nat) :=
  let maxLen := lengths.foldl max 0
  if maxLen > limit then
    let counts := countLengths lengths limit
    match limitLoop counts limit (totalOf counts limit) (lengths.size * 16 + 16) with
    | none => none
    | some counts =>
      reassign (sortByFreq ((List.range freqs.length).zip freqs)) limit counts lengths 0
  else some lengths

/-- `(code as u16).reverse_bits() >> (16 - len)` -/
def reverseBits16 (x : Nat) : Nat :=
  (List.range 16).foldl (fun acc k => acc + (x / 2 ^ k % 2) * 2 ^ (15 - k)) 0
def codeWord (code len : Nat) : Nat := reverseBits16 (code % 65536) / 2 ^ (16 - len)

/-- phase 4: the code assignment loops; returns the codes and the final value of `code` -/
def assignCodes (lengths : Array Nat) (limit : Nat) : Array Nat × Nat :=
  (List.range limit).foldl (fun (acc : Array Nat × Nat) k =>
    let len := k + 1
    let (codes, code) := (List.range lengths.size).foldl (fun (acc : Array Nat × Nat) i =>
      if lengths[i]! = len then (acc.1.setIfInBounds i (codeWord acc.2 len), acc.2 + 1) else acc) acc
    (codes, code * 2)) (Array.replicate lengths.size 0, 0)

inductive Result where
  | single                                  -- returns false: lengths and codes all zero
  | built (lengths codes : Array Nat)       -- returns true
  | panic (why : String)
deriving Repr

/-- `build_huffman_tree` -/
def build (freqs : List Nat) (limit : Nat) : Result :=
  if (freqs.filter (· > 0)).length ≤ 1 then .single
  else
    match limitLengths freqs (treeLengths freqs) limit with
    | none => .panic "index underflow in length limiting"
    | some lengths =>
      let (codes, final) := assignCodes lengths limit
      if final ≠ 2 * 2 ^ limit then .panic "assert_eq!(code, 2 << length_limit)"
      else .built lengths codes

/-- every result `sort_unstable_by_key` may lead to in phase 3: same multiset of lengths per
    level as the model's, unused symbols 0, and a less frequent symbol never gets a shorter code -/
def admitsReassign (freqs : List Nat) (model impl : Array Nat) : Bool :=
  impl.size == model.size &&
  (List.range 16).all (fun l => (impl.toList.filter (· == l)).length == (model.toList.filter (· == l)).length) &&
  (List.range freqs.length).all (fun i => (freqs[i]! == 0) == (impl[i]! == 0)) &&
  (List.range freqs.length).all (fun i => (List.range freqs.length).all fun j =>
    !(freqs[i]! < freqs[j]! && freqs[i]! > 0) || impl[i]! ≥ impl[j]!)

end EncHuff
