/-
Model of the alpha-plane reconstruction for lossy images (import-free):
`extended.rs::get_alpha_predictor`, the info byte decoding of `read_alpha_chunk`, and the
sequential in-place loop of `decoder.rs` (`read_image` / `read_frame`) that writes
`predictor.wrapping_add(delta)` into byte `4·index + 3` of the interleaved RGBA buffer and reads
earlier alphas back from that same buffer.
-/
namespace Alpha

/-- filtering method field: 0 none, 1 horizontal, 2 vertical, 3 gradient -/
abbrev Filter := Nat

inductive HeaderErr where | invalidPreprocessing | invalidCompression
deriving DecidableEq, Repr

/-- info byte of the ALPH chunk: (filtering method, lossless compression?) or the error the code
    returns; the reserved top two bits are ignored, the preprocessing field is validated only -/
def header (b : Nat) : Except HeaderErr (Filter × Bool) :=
  let pre := b / 16 % 4
  let filt := b / 4 % 4
  let comp := b % 4
  if pre > 1 then .error .invalidPreprocessing
  else if comp > 1 then .error .invalidCompression
  else .ok (filt, comp == 1)

def clamp255 (v : Int) : Nat := (min (max v 0) 255).toNat

/-- alpha byte of pixel `index` in the interleaved buffer (`image_slice[index * 4 + 3]`) -/
def alphaAt (buf : Array Nat) (index : Nat) : Nat := buf[index * 4 + 3]!

/-- `get_alpha_predictor(x, y, width, filtering_method, image_slice)` -/
def predictor (x y width : Nat) (f : Filter) (buf : Array Nat) : Nat :=
  if f = 0 then 0
  else if f = 1 then
    if x = 0 ∧ y = 0 then 0
    else if x = 0 then alphaAt buf ((y - 1) * width + x)
    else alphaAt buf (y * width + x - 1)
  else if f = 2 then
    if x = 0 ∧ y = 0 then 0
    else if y = 0 then alphaAt buf (y * width + x - 1)
    else alphaAt buf ((y - 1) * width + x)
  else
    if x = 0 ∧ y = 0 then clamp255 0
    else if x = 0 then
      let v := alphaAt buf ((y - 1) * width + x)
      clamp255 ((v : Int) + v - v)
    else if y = 0 then
      let v := alphaAt buf (y * width + x - 1)
      clamp255 ((v : Int) + v - v)
    else
      let left := alphaAt buf (y * width + x - 1)
      let top := alphaAt buf ((y - 1) * width + x)
      let topLeft := alphaAt buf ((y - 1) * width + x - 1)
      clamp255 ((left : Int) + top - topLeft)

/-- the loop `for y in 0..h { for x in 0..w { buf[4i+3] = pred.wrapping_add(data[i]) } }`,
    as a fold over the raster index -/
def unfilterInto (width : Nat) (f : Filter) (data : Array Nat) (n : Nat) (buf : Array Nat) : Array Nat :=
  (List.range n).foldl (fun buf i =>
    buf.setIfInBounds (i * 4 + 3) ((predictor (i % width) (i / width) width f buf + data[i]!) % 256)) buf

/-- the alpha plane that ends up in the buffer -/
def alphaPlane (buf : Array Nat) (n : Nat) : List Nat := (List.range n).map (alphaAt buf)

end Alpha
