/-
Model of the container part of /repo/src/encoder.rs (`chunk_size`, `write_chunk`,
`WebPEncoder::encode` after `encode_frame` has produced the VP8L payload) — import-free.
The output is modelled as the list of `write_all` arguments, in order (also used by C10);
the file is their concatenation.
-/
namespace EncContainer

def le32 (n : Nat) : List Nat := [n % 256, n / 256 % 256, n / 65536 % 256, n / 16777216 % 256]

def fourcc (s : String) : List Nat := s.toList.map (·.toNat)

/-- `chunk_size(inner_bytes)`: payload rounded up to even, plus the 8-byte header, in u32 -/
def chunkSize (n : Nat) : Nat := (if n % 2 = 1 then (n + 1) % 2 ^ 32 else n % 2 ^ 32) + 8

/-- `write_chunk`: the sequence of `write_all` calls -/
def writeChunk (name data : List Nat) : List (List Nat) :=
  [name, le32 (data.length % 2 ^ 32), data] ++ (if data.length % 2 = 1 then [[0]] else [])

/-- the flags byte of the VP8X chunk -/
def flagsOf (icc exif xmp : List Nat) (alphaColor : Bool) : Nat :=
  (if !xmp.isEmpty then 4 else 0) + (if !exif.isEmpty then 8 else 0) +
  (if alphaColor then 16 else 0) + (if !icc.isEmpty then 32 else 0)

def vp8xPayload (icc exif xmp : List Nat) (w h : Nat) (alphaColor : Bool) : List Nat :=
  [flagsOf icc exif xmp alphaColor, 0, 0, 0] ++ (le32 (w - 1)).take 3 ++ (le32 (h - 1)).take 3

/-- `WebPEncoder::encode` after `encode_frame`: every `write_all` argument in order.
    `vp8x` is built in a local `Vec` first (its four `write_all`s are not on the sink). -/
def encodeWrites (frame icc exif xmp : List Nat) (w h : Nat) (alphaColor : Bool) : List (List Nat) :=
  if icc.isEmpty && exif.isEmpty && xmp.isEmpty then
    [fourcc "RIFF", le32 ((chunkSize frame.length + 4) % 2 ^ 32), fourcc "WEBP"] ++ writeChunk (fourcc "VP8L") frame
  else
    let total := 22 + chunkSize frame.length
      + (if !icc.isEmpty then chunkSize icc.length else 0)
      + (if !exif.isEmpty then chunkSize exif.length else 0)
      + (if !xmp.isEmpty then chunkSize xmp.length else 0)
    [fourcc "RIFF", le32 (total % 2 ^ 32), fourcc "WEBP"]
      ++ writeChunk (fourcc "VP8X") (vp8xPayload icc exif xmp w h alphaColor)
      ++ (if !icc.isEmpty then writeChunk (fourcc "ICCP") icc else [])
      ++ writeChunk (fourcc "VP8L") frame
      ++ (if !exif.isEmpty then writeChunk (fourcc "EXIF") exif else [])
      ++ (if !xmp.isEmpty then writeChunk (fourcc "XMP ") xmp else [])

def encode (frame icc exif xmp : List Nat) (w h : Nat) (alphaColor : Bool) : List Nat :=
  (encodeWrites frame icc exif xmp w h alphaColor).flatten

end EncContainer
