/-
Model of the YUV→RGB writers of /repo/src/vp8.rs: `mulhi`, `clip`, `Frame::fill_rgb_row`,
`Frame::fill_rgba_row`, `Frame::fill_rgb`, `Frame::fill_rgba` (import-free).
Samples and bytes are `Nat < 256`; rows and buffers are lists.
-/
namespace Yuv

/-- `mulhi(v, coeff) = ((v as u32 * coeff as u32) >> 8) as i32` -/
def mulhi (v coeff : Nat) : Int := ((v * coeff) >>> 8 : Nat)

/-- `clip(v) = (v >> 6).max(0).min(255) as u8` -/
def clip (v : Int) : Nat := (min (max (v >>> 6) 0) 255).toNat

def r (y v : Nat) : Nat := clip (mulhi y 19077 + mulhi v 26149 - 14234)
def g (y u v : Nat) : Nat := clip (mulhi y 19077 - mulhi u 6419 - mulhi v 13320 + 8708)
def b (y u : Nat) : Nat := clip (mulhi y 19077 + mulhi u 33050 - 17685)

/-- colour `c` (0 = R, 1 = G, 2 = B) of one pixel -/
def rgb (c y u v : Nat) : Nat := if c = 0 then r y v else if c = 1 then g y u v else b y u

/-- `fill_rgb_row`: two pixels per step sharing one chroma sample, then the odd tail.
    Domain of the model: `rgb.length = 3 * ys.length` (what `fill_rgb` passes). -/
def fillRgbRow : List Nat → List Nat → List Nat → List Nat → List Nat
  | y0 :: y1 :: ys, u :: us, v :: vs, _ :: _ :: _ :: _ :: _ :: _ :: out =>
      r y0 v :: g y0 u v :: b y0 u :: r y1 v :: g y1 u v :: b y1 u :: fillRgbRow ys us vs out
  | [y], u :: _, v :: _, _ :: _ :: _ :: out => r y v :: g y u v :: b y u :: out
  | _, _, _, out => out

/-- `fill_rgba_row`: as above with stride 4; the alpha byte keeps what the buffer held. -/
def fillRgbaRow : List Nat → List Nat → List Nat → List Nat → List Nat
  | y0 :: y1 :: ys, u :: us, v :: vs, _ :: _ :: _ :: a0 :: _ :: _ :: _ :: a1 :: out =>
      r y0 v :: g y0 u v :: b y0 u :: a0 :: r y1 v :: g y1 u v :: b y1 u :: a1 :: fillRgbaRow ys us vs out
  | [y], u :: _, v :: _, _ :: _ :: _ :: out => r y v :: g y u v :: b y u :: out
  | _, _, _, out => out

/-- rows of `fill_rgb`/`fill_rgba`: row `y` reads luma `[y*w, (y+1)*w)` and chroma from
    `cw * (y / 2)` onwards, and rewrites `bpp * w` bytes of the buffer. -/
def fillRows (rowFn : List Nat → List Nat → List Nat → List Nat → List Nat)
    (bpp w cw : Nat) (ybuf ubuf vbuf : List Nat) : Nat → Nat → List Nat → List Nat
  | 0, _, buf => buf
  | n + 1, y, buf =>
      rowFn ((ybuf.drop (y * w)).take w) (ubuf.drop (cw * (y / 2))) (vbuf.drop (cw * (y / 2)))
          (buf.take (bpp * w))
        ++ fillRows rowFn bpp w cw ybuf ubuf vbuf n (y + 1) (buf.drop (bpp * w))

/-- `Frame::fill_rgb` (rows = `buf.len() / (3·width)` as `chunks_exact_mut` yields them) -/
def fillRgb (w : Nat) (ybuf ubuf vbuf buf : List Nat) : List Nat :=
  fillRows fillRgbRow 3 w ((w + 1) / 2) ybuf ubuf vbuf (buf.length / (3 * w)) 0 buf

/-- `Frame::fill_rgba` -/
def fillRgba (w : Nat) (ybuf ubuf vbuf buf : List Nat) : List Nat :=
  fillRows fillRgbaRow 4 w ((w + 1) / 2) ybuf ubuf vbuf (buf.length / (4 * w)) 0 buf

end Yuv
