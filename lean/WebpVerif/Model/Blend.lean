/-
Model of /repo/src/alpha_blending.rs (import-free: core Lean only).

`do_alpha_blending(buffer, canvas)` = `blendPixel src dst` on pixels given as four
naturals (r, g, b, a), each < 256.  u32 arithmetic is modelled over `Nat`; the places where
the Rust code truncates (`as u8`, the top byte of `blend_a << 24`) are explicit `% 256`,
and `Lemmas/Blend.lean` proves that no u32 product overflows and that the two
`debug_assert!`s of the Rust code hold (so `Nat` and `u32` agree, also in a checked build).
-/
namespace Blend

/-- `div_by_255` -/
def div255 (v : Nat) : Nat := (((v + 128) >>> 8) + v + 128) >>> 8

/-- the unscaled numerator of `blend_channel_nonpremult` -/
def unscaled (s sa d dfa : Nat) : Nat := s * sa + d * dfa

/-- `blend_channel_nonpremult` given the two alpha factors and the scale -/
def blendChannel (s sa d dfa scale : Nat) : Nat :=
  ((unscaled s sa d dfa * scale) >>> 24) % 256

/-- `dst_factor_a` of `blend_pixel_nonpremult` -/
def dstFactor (sa da : Nat) : Nat := div255 (da * (255 - sa))

/-- `scale` of `blend_pixel_nonpremult` -/
def scaleOf (sa da : Nat) : Nat := 2 ^ 24 / (sa + dstFactor sa da)

/-- one colour channel of `blend_pixel_nonpremult` for 0 < sa < 255 -/
def chan (s sa d da : Nat) : Nat :=
  blendChannel s sa d (dstFactor sa da % 256) (scaleOf sa da)

structure Px where
  r : Nat
  g : Nat
  b : Nat
  a : Nat
deriving DecidableEq, Repr

/-- `blend_pixel_nonpremult` (= `do_alpha_blending` up to the byte packing), as in the
    pinned tree: the only special case is a fully transparent source. -/
def blendPixel (src dst : Px) : Px :=
  if src.a = 0 then dst
  else
    { r := chan src.r src.a dst.r dst.a
      g := chan src.g src.a dst.g dst.a
      b := chan src.b src.a dst.b dst.a
      a := (src.a + dstFactor src.a dst.a) % 256 }

/-- The repaired function (early return for an opaque source, as libwebp does at its call
    site).  This is *not* what /repo does today: see known finding KF-C12-opaque. -/
def blendPixelFixed (src dst : Px) : Px :=
  if src.a = 255 then src else blendPixel src dst

/-- one colour channel of the whole function, all cases (used by the exhaustive tie) -/
def chanFull (s sa d da : Nat) : Nat :=
  if sa = 0 then d else chan s sa d da

def alphaFull (sa da : Nat) : Nat :=
  if sa = 0 then da else (sa + dstFactor sa da) % 256

def chanFullFixed (s sa d da : Nat) : Nat :=
  if sa = 255 then s else chanFull s sa d da

def alphaFullFixed (sa da : Nat) : Nat :=
  if sa = 255 then 255 else alphaFull sa da

end Blend
