import WebpVerif.Model.Vp8Coef
import WebpVerif.Model.Vp8Kernels
/-
Model of `Vp8Decoder::read_residual_data` of /repo/src/vp8.rs for one macroblock: which blocks are
read, in which order, as which plane type, with which context and which pair of dequantisation
factors; the Y2 block and its inverse WHT spread over the DC positions of the sixteen luma blocks;
the inverse DCT of every block that has a token or a DC value; the non-zero flag; the context flags
of the macroblock above and to the left afterwards.  On top of Vp8Coef (tokens) and Vp8K (transforms).
-/
namespace Vp8Resid
open Arith

/-- `read_coefficients` into a block that may already hold a DC value (position 0 is skipped for plane 0) -/
def readInto (d : Dec) (probs : Nat → Nat → List Nat) (plane complexity : Nat) (dcq acq : Int) (block0 : Array Int) :
    Option (Dec × Array Int × Option Bool) :=
  let first := if plane = 0 then 1 else 0
  match Vp8Coef.loop probs dcq acq (16 - first) first { d := d, block := block0, complexity := complexity, skip := false, has := false } with
  | none => none
  | some s => some (s.d, s.block, if isPastEof s.d then none else some s.has)

structure St where
  d : Dec
  blocks : Array Int      -- 384 values
  nonZero : Bool
  top : Array Nat         -- 9 context flags of the macroblock above
  left : Array Nat        -- 9 context flags of the macroblock to the left

inductive Res where
  | stuck | err | ok (s : St)

/-- one block: `(plane, block index, top flag index, left flag index, dcq, acq)` -/
def blockStep (probs : Nat → Nat → Nat → List Nat) (s : St) (job : Nat × Nat × Nat × Nat × Int × Int) : Res :=
  let (plane, i, ti, li, dcq, acq) := job
  let complexity := s.top.getD ti 0 + s.left.getD li 0
  match readInto s.d (probs plane) plane complexity dcq acq (s.blocks.extract (16 * i) (16 * i + 16)) with
  | none => .stuck
  | some (_, _, none) => .err
  | some (d, blk, some n) =>
    let live := n || blk.getD 0 0 != 0
    let blk := if live then Vp8K.idct blk else blk
    let blocks := (List.range 16).foldl (fun b k => b.setIfInBounds (16 * i + k) (blk.getD k 0)) s.blocks
    .ok { d := d, blocks := blocks, nonZero := s.nonZero || live, top := s.top.setIfInBounds ti n.toNat, left := s.left.setIfInBounds li n.toNat }

def runJobs (probs : Nat → Nat → Nat → List Nat) : St → List (Nat × Nat × Nat × Nat × Int × Int) → Res
  | s, [] => .ok s
  | s, j :: js =>
    match blockStep probs s j with
    | .ok s => runJobs probs s js
    | r => r

/-- the 24 block jobs after the optional Y2 block; `q` = ydc, yac, y2dc, y2ac, uvdc, uvac -/
def jobs (plane : Nat) (q : Array Int) : List (Nat × Nat × Nat × Nat × Int × Int) :=
  ((List.range 16).map fun k => (plane, k, k % 4 + 1, k / 4 + 1, q.getD 0 0, q.getD 1 0)) ++
  ((List.range 4).map fun k => (2, 16 + k, k % 2 + 5, k / 2 + 5, q.getD 4 0, q.getD 5 0)) ++
  ((List.range 4).map fun k => (2, 20 + k, k % 2 + 7, k / 2 + 7, q.getD 4 0, q.getD 5 0))

def readResidual (d : Dec) (probs : Nat → Nat → Nat → List Nat) (bpred : Bool) (top left : Array Nat) (q : Array Int) : Res :=
  let s0 : St := { d := d, blocks := Array.replicate 384 0, nonZero := false, top := top, left := left }
  if bpred then runJobs probs s0 (jobs 3 q)
  else
    let complexity := top.getD 0 0 + left.getD 0 0
    match readInto d (probs 1) 1 complexity (q.getD 2 0) (q.getD 3 0) (Array.replicate 16 0) with
    | none => .stuck
    | some (_, _, none) => .err
    | some (d, blk, some n) =>
      let w := Vp8K.iwht blk
      let blocks := (List.range 16).foldl (fun b k => b.setIfInBounds (16 * k) (w.getD k 0)) s0.blocks
      runJobs probs { s0 with d := d, blocks := blocks, top := top.setIfInBounds 0 n.toNat, left := left.setIfInBounds 0 n.toNat } (jobs 0 q)

end Vp8Resid
