/-
Shared helpers for the executable side of the models (import-free).
Bytes are `Nat < 256`; byte strings are `Array Nat`; hex is lowercase.
-/
namespace Util

def hexDigit (c : Char) : Option Nat :=
  if '0' ≤ c ∧ c ≤ '9' then some (c.toNat - '0'.toNat)
  else if 'a' ≤ c ∧ c ≤ 'f' then some (c.toNat - 'a'.toNat + 10)
  else if 'A' ≤ c ∧ c ≤ 'F' then some (c.toNat - 'A'.toNat + 10)
  else none

/-- parse a hex string ("-" = empty) into bytes; `none` on a malformed string -/
def parseHex (s : String) : Option (Array Nat) :=
  if s == "-" then some #[] else
  let rec go (cs : List Char) (acc : Array Nat) : Option (Array Nat) :=
    match cs with
    | [] => some acc
    | [_] => none
    | a :: b :: rest =>
      match hexDigit a, hexDigit b with
      | some x, some y => go rest (acc.push (x * 16 + y))
      | _, _ => none
  go s.toList #[]

def hexChar (n : Nat) : Char :=
  if n < 10 then Char.ofNat ('0'.toNat + n) else Char.ofNat ('a'.toNat + n - 10)

def toHex (bs : Array Nat) : String :=
  if bs.isEmpty then "-" else
  String.ofList (bs.foldr (fun b acc => hexChar (b / 16 % 16) :: hexChar (b % 16) :: acc) [])

/-- FNV-1a, 64 bit -/
@[inline] def fnvInit : UInt64 := 0xcbf29ce484222325
@[inline] def fnvByte (h : UInt64) (b : Nat) : UInt64 := (h ^^^ (UInt64.ofNat b)) * 0x100000001b3
def fnvBytes (h : UInt64) (bs : Array Nat) : UInt64 := bs.foldl fnvByte h
/-- mix a natural number of any size, little-endian 8 bytes (values < 2^64) -/
def fnvNat (h : UInt64) (n : Nat) : UInt64 := Id.run do
  let mut h := h
  let mut v := n
  for _ in [0:8] do
    h := fnvByte h (v % 256)
    v := v / 256
  return h

def parseNats (s : String) : Option (List Nat) :=
  if s == "-" then some [] else (s.splitOn ",").mapM (·.toNat?)

def parseInt (s : String) : Option Int :=
  if s.startsWith "-" then (s.drop 1).toNat?.map (fun n => - (n : Int)) else s.toNat?.map (fun n => (n : Int))

def joinNats (l : List Nat) : String :=
  if l.isEmpty then "-" else ",".intercalate (l.map toString)

end Util
