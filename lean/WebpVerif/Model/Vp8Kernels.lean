import WebpVerif.Gen.Tables
/-
Model of the VP8 reconstruction kernels: /repo/src/transform.rs (`idct4x4`, `iwht4x4`) and
/repo/src/loop_filter.rs (`simple_segment`, `subblock_filter`, `macroblock_filter` and their
helpers).  `i32`/`i64` are `Int`; `(x) as i32` after an i64 computation is explicit two's-complement
truncation (`toI32`).  Pixels are bytes `Nat < 256`; `pixels` is addressed as in the code with
`point` and `stride`.
-/
namespace Vp8K

def toI32 (v : Int) : Int := ((v + 2 ^ 31) % 2 ^ 32) - 2 ^ 31

def CONST1 : Int := Gen.Tables.CONST1
def CONST2 : Int := Gen.Tables.CONST2

/-- `>>` on signed integers: arithmetic shift = floor division -/
def sar (v : Int) (k : Nat) : Int := Int.fdiv v (2 ^ k)

/-- `idct4x4` -/
def idct (blk : Array Int) : Array Int := Id.run do
  let mut b := blk
  for i in [0:4] do
    let a1 := b[i]! + b[8 + i]!
    let b1 := b[i]! - b[8 + i]!
    let t1 := sar (b[4 + i]! * CONST2) 16
    let t2 := b[12 + i]! + sar (b[12 + i]! * CONST1) 16
    let c1 := t1 - t2
    let t1 := b[4 + i]! + sar (b[4 + i]! * CONST1) 16
    let t2 := sar (b[12 + i]! * CONST2) 16
    let d1 := t1 + t2
    b := (((b.set! i (toI32 (a1 + d1))).set! (4 + i) (toI32 (b1 + c1))).set! (12 + i) (toI32 (a1 - d1))).set! (8 + i) (toI32 (b1 - c1))
  for i in [0:4] do
    let a1 := b[4 * i]! + b[4 * i + 2]!
    let b1 := b[4 * i]! - b[4 * i + 2]!
    let t1 := sar (b[4 * i + 1]! * CONST2) 16
    let t2 := b[4 * i + 3]! + sar (b[4 * i + 3]! * CONST1) 16
    let c1 := t1 - t2
    let t1 := b[4 * i + 1]! + sar (b[4 * i + 1]! * CONST1) 16
    let t2 := sar (b[4 * i + 3]! * CONST2) 16
    let d1 := t1 + t2
    b := (((b.set! (4 * i) (toI32 (sar (a1 + d1 + 4) 3))).set! (4 * i + 3) (toI32 (sar (a1 - d1 + 4) 3))).set! (4 * i + 1) (toI32 (sar (b1 + c1 + 4) 3))).set! (4 * i + 2) (toI32 (sar (b1 - c1 + 4) 3))
  return b

/-- `iwht4x4` (i32 arithmetic; the model does not wrap: coefficients are far from 2^31) -/
def iwht (blk : Array Int) : Array Int := Id.run do
  let mut b := blk
  for i in [0:4] do
    let a1 := b[i]! + b[12 + i]!
    let b1 := b[4 + i]! + b[8 + i]!
    let c1 := b[4 + i]! - b[8 + i]!
    let d1 := b[i]! - b[12 + i]!
    b := (((b.set! i (a1 + b1)).set! (4 + i) (c1 + d1)).set! (8 + i) (a1 - b1)).set! (12 + i) (d1 - c1)
  for i in [0:4] do
    let a1 := b[4 * i]! + b[4 * i + 3]!
    let b1 := b[4 * i + 1]! + b[4 * i + 2]!
    let c1 := b[4 * i + 1]! - b[4 * i + 2]!
    let d1 := b[4 * i]! - b[4 * i + 3]!
    let a2 := a1 + b1
    let b2 := c1 + d1
    let c2 := a1 - b1
    let d2 := d1 - c1
    b := (((b.set! (4 * i) (sar (a2 + 3) 3)).set! (4 * i + 1) (sar (b2 + 3) 3)).set! (4 * i + 2) (sar (c2 + 3) 3)).set! (4 * i + 3) (sar (d2 + 3) 3)
  return b

/-! ### loop filter -/

def c (v : Int) : Int := max (-128) (min v 127)
def u2s (v : Nat) : Int := (v : Int) - 128
def s2u (v : Int) : Nat := (c v + 128).toNat
def diff (a b : Nat) : Nat := if a > b then a - b else b - a

/-- the eight pixels across an edge: p3 p2 p1 p0 | q0 q1 q2 q3 -/
structure Edge where
  p3 : Nat
  p2 : Nat
  p1 : Nat
  p0 : Nat
  q0 : Nat
  q1 : Nat
  q2 : Nat
  q3 : Nat
deriving Repr, DecidableEq

/-- `common_adjust(use_outer_taps, ..)`: returns the new p0, q0 and the adjustment `a` -/
def commonAdjust (outer : Bool) (e : Edge) : Nat × Nat × Int :=
  let p1 := u2s e.p1; let p0 := u2s e.p0; let q0 := u2s e.q0; let q1 := u2s e.q1
  let o := if outer then c (p1 - q1) else 0
  let a := c (o + 3 * (q0 - p0))
  let b := sar (c (a + 3)) 3
  let a := sar (c (a + 4)) 3
  (s2u (p0 + b), s2u (q0 - a), a)

def simpleThreshold (limit : Int) (e : Edge) : Bool :=
  ((diff e.p0 e.q0 : Int) * 2 + (diff e.p1 e.q1 : Int) / 2) ≤ limit

def shouldFilter (interior edge : Nat) (e : Edge) : Bool :=
  simpleThreshold edge e && diff e.p3 e.p2 ≤ interior && diff e.p2 e.p1 ≤ interior && diff e.p1 e.p0 ≤ interior
    && diff e.q3 e.q2 ≤ interior && diff e.q2 e.q1 ≤ interior && diff e.q1 e.q0 ≤ interior

def highEdgeVariance (thresh : Nat) (e : Edge) : Bool := diff e.p1 e.p0 > thresh || diff e.q1 e.q0 > thresh

/-- `simple_segment` -/
def simple (edgeLimit : Nat) (e : Edge) : Edge :=
  if simpleThreshold edgeLimit e then
    { e with p0 := (commonAdjust true e).1, q0 := (commonAdjust true e).2.1 }
  else e

/-- `subblock_filter` (RFC 6386 section 15.3: the adjustment is ADDED to p1, subtracted from q1) -/
def subblock (hev interior edgeLimit : Nat) (e : Edge) : Edge :=
  if shouldFilter interior edgeLimit e then
    if !highEdgeVariance hev e then
      { e with p0 := (commonAdjust false e).1, q0 := (commonAdjust false e).2.1,
               q1 := s2u (u2s e.q1 - sar ((commonAdjust false e).2.2 + 1) 1),
               p1 := s2u (u2s e.p1 + sar ((commonAdjust false e).2.2 + 1) 1) }
    else { e with p0 := (commonAdjust true e).1, q0 := (commonAdjust true e).2.1 }
  else e

/-- `macroblock_filter` -/
def macroblock (hev interior edgeLimit : Nat) (e : Edge) : Edge :=
  if shouldFilter interior edgeLimit e then
    if !highEdgeVariance hev e then
      let w := c (c (u2s e.p1 - u2s e.q1) + 3 * (u2s e.q0 - u2s e.p0))
      let a27 := c (sar (27 * w + 63) 7)
      let a18 := c (sar (18 * w + 63) 7)
      let a9 := c (sar (9 * w + 63) 7)
      { e with q0 := s2u (u2s e.q0 - a27), p0 := s2u (u2s e.p0 + a27),
               q1 := s2u (u2s e.q1 - a18), p1 := s2u (u2s e.p1 + a18),
               q2 := s2u (u2s e.q2 - a9), p2 := s2u (u2s e.p2 + a9) }
    else { e with p0 := (commonAdjust true e).1, q0 := (commonAdjust true e).2.1 }
  else e

end Vp8K

namespace Vp8K

def clamp63 (v : Int) : Int := max 0 (min v 63)

/-- `Vp8Decoder::calculate_filter_parameters` for a key frame: (filter level, interior limit,
    hev threshold).  `segLevel` is the macroblock's segment value, `ref0`/`mode0` are
    `ref_delta[0]` / `mode_delta[0]` (0 unless the header enabled and set them). -/
def filterParams (frameLevel sharp : Nat) (segEn segDelta : Bool) (segLevel ref0 mode0 : Int) (bpred : Bool) :
    Nat × Nat × Nat :=
  let l0 : Int := if segEn then (if segDelta then (frameLevel : Int) + segLevel else segLevel) else frameLevel
  let l1 := clamp63 l0
  let l2 := l1 + ref0 + (if bpred then mode0 else 0)
  let level := (clamp63 l2).toNat
  let il := if sharp > 0 then min (level >>> (if sharp > 4 then 2 else 1)) (9 - sharp) else level
  let il := if il = 0 then 1 else il
  let hev := if level ≥ 40 then 2 else if level ≥ 15 then 1 else 0
  (level, il, hev)

/-- the two edge limits `loop_filter` derives (u8 arithmetic in the code) -/
def mbEdgeLimit (level interior : Nat) : Nat := (level + 2) * 2 + interior
def subEdgeLimit (level interior : Nat) : Nat := level * 2 + interior

end Vp8K
