import WebpVerif.Gen.Tables
import WebpVerif.Model.Arith
/-
Model of the value part of `Vp8Decoder::read_quantization_indices` of /repo/src/vp8.rs: the six
dequantisation factors of a segment from the frame's base index `yac_abs`, the five deltas and the
segment header state (the reads themselves are `read_literal(7)` and five
`read_optional_signed_value(4)` of the boolean decoder, C15).  Tables and constants regenerated.
-/
namespace Vp8Quant

def clamp127 (v : Int) : Nat := (min (max v 0) 127).toNat

def dcQuant (index : Int) : Nat := Gen.Tables.DC_QUANT.getD (clamp127 index) 0
def acQuant (index : Int) : Nat := Gen.Tables.AC_QUANT.getD (clamp127 index) 0

/-- `base`: the segment's quantiser index before the per-plane deltas -/
def baseIndex (segmentsEnabled deltaValues : Bool) (level : Int) (yacAbs : Nat) : Int :=
  if segmentsEnabled then (if deltaValues then level + yacAbs else level) else yacAbs

/-- ydc, yac, y2dc, y2ac, uvdc, uvac -/
def factors (segmentsEnabled deltaValues : Bool) (level : Int) (yacAbs : Nat) (ydc y2dc y2ac uvdc uvac : Int) : List Nat :=
  let base := baseIndex segmentsEnabled deltaValues level yacAbs
  let y2acF := acQuant (base + y2ac) * Gen.Tables.Y2AC_NUM / Gen.Tables.Y2AC_DEN
  let uvdcF := dcQuant (base + uvdc)
  [dcQuant (base + ydc), acQuant base, dcQuant (base + y2dc) * Gen.Tables.Y2DC_MUL,
   if y2acF < Gen.Tables.Y2AC_MIN then Gen.Tables.Y2AC_MIN else y2acF,
   if uvdcF > Gen.Tables.UVDC_MAX then Gen.Tables.UVDC_MAX else uvdcF, acQuant (base + uvac)]

/-- `read_quantization_indices`: the six header reads in the code's order, then the factors of
    segments 0..3 (only segment 0 when segments are off; the others keep their initial zeros);
    `none` = the error of `check` (the partition ended inside the reads) -/
def readQuant (d : Arith.Dec) (segmentsEnabled deltaValues : Bool) (levels : List Int) : Arith.Dec × Option (List (List Nat)) :=
  let yacAbs := Arith.readLiteral d 7
  let ydc := Arith.readOptionalSigned yacAbs.2 4
  let y2dc := Arith.readOptionalSigned ydc.2 4
  let y2ac := Arith.readOptionalSigned y2dc.2 4
  let uvdc := Arith.readOptionalSigned y2ac.2 4
  let uvac := Arith.readOptionalSigned uvdc.2 4
  let n := if segmentsEnabled then 4 else 1
  let segs := (List.range 4).map fun i =>
    if i < n then factors segmentsEnabled deltaValues (levels.getD i 0) yacAbs.1 ydc.1 y2dc.1 y2ac.1 uvdc.1 uvac.1
    else [0, 0, 0, 0, 0, 0]
  (uvac.2, if Arith.isPastEof uvac.2 then none else some segs)

end Vp8Quant
