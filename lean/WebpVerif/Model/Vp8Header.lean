import WebpVerif.Model.Vp8Quant
/-
Model of the first-partition part of `Vp8Decoder::read_frame_header` of /repo/src/vp8.rs for a key
frame: colour space and clamping bits, segment header (`read_segment_updates`), filter type /
level / sharpness, loop-filter deltas (`read_loop_filter_adjustments`), partition count,
quantiser indices and factors (`read_quantization_indices`, Model/Vp8Quant.lean), the refresh bit,
the token probability updates (`update_token_probabilities`) and the skip probability; with the
places where the code checks that the partition has not run out.  Reads: the boolean decoder of
C15 (Model/Arith.lean).  Tables regenerated.
-/
namespace Vp8Header
open Arith

structure Hdr where
  pixelType : Nat
  segEnabled : Bool
  updateMap : Bool
  deltaValues : Bool
  quantLevel : List Int      -- 4
  lfLevel : List Int         -- 4
  treeProbs : List Nat       -- 3
  filterSimple : Bool
  filterLevel : Nat
  sharpness : Nat
  refDelta : List Int        -- 4
  modeDelta : List Int       -- 4
  partsLog2 : Nat
  factors : List (List Nat)  -- 4 x 6
  tokenProbs : List Nat      -- 4 * 8 * 3 * 11
  skipProb : Option Nat
  rest : Dec                 -- the first partition's decoder after the header

/-- `n` optional signed values of `bits` bits -/
def readSigneds (bits : Nat) : Nat → Dec → List Int × Dec
  | 0, d => ([], d)
  | n + 1, d =>
    let r := readOptionalSigned d bits
    let rest := readSigneds bits n r.2
    (r.1 :: rest.1, rest.2)

/-- the three optional tree probabilities of the segment map -/
def readTreeProbs : Nat → Dec → List Nat × Dec
  | 0, d => ([], d)
  | n + 1, d =>
    let u := readFlag d
    let p := if u.1 then readLiteral u.2 8 else (255, u.2)
    let rest := readTreeProbs n p.2
    (p.1 :: rest.1, rest.2)

/-- `update_token_probabilities`: for every table entry one flag read with the update probability,
    then 8 bits if set -/
def updateProbs : List Nat → List Nat → Dec → List Nat × Dec
  | up :: ups, cur :: curs, d =>
    let f := readBool d up
    let v := if f.1 then readLiteral f.2 8 else (cur, f.2)
    let rest := updateProbs ups curs v.2
    (v.1 :: rest.1, rest.2)
  | _, _, d => ([], d)

def flat4 (t : List (List (List (List Nat)))) : List Nat := (t.map fun a => (a.map fun b => b.flatten).flatten).flatten

/-- `none` = an error return (`ColorSpaceInvalid`, or one of the `check`s found the partition exhausted) -/
def parse (data : List Nat) : Option Hdr :=
  let d := init data
  let cs := readLiteral d 1
  let pt := readLiteral cs.2 1
  if cs.1 != 0 then none else
  let se := readFlag pt.2
  -- read_segment_updates
  let segR : Option (Bool × Bool × List Int × List Int × List Nat × Dec) :=
    if !se.1 then some (false, false, [0, 0, 0, 0], [0, 0, 0, 0], [255, 255, 255], se.2)
    else
      let um := readFlag se.2
      let ud := readFlag um.2
      let (dv, ql, ll, d1) :=
        if ud.1 then
          let mode := readFlag ud.2
          let q := readSigneds 7 4 mode.2
          let l := readSigneds 6 4 q.2
          (!mode.1, q.1, l.1, l.2)
        else (false, [0, 0, 0, 0], [0, 0, 0, 0], ud.2)
      let tp := if um.1 then readTreeProbs 3 d1 else ([255, 255, 255], d1)
      if isPastEof tp.2 then none else some (um.1, dv, ql, ll, tp.1, tp.2)
  match segR with
  | none => none
  | some (updateMap, dv, ql, ll, tps, d2) =>
    let ft := readFlag d2
    let fl := readLiteral ft.2 6
    let sh := readLiteral fl.2 3
    let adj := readFlag sh.2
    let adjR : Option (List Int × List Int × Dec) :=
      if !adj.1 then some ([0, 0, 0, 0], [0, 0, 0, 0], adj.2)
      else
        let upd := readFlag adj.2
        let r := if upd.1 then
            let a := readSigneds 6 4 upd.2
            let b := readSigneds 6 4 a.2
            (a.1, b.1, b.2)
          else ([0, 0, 0, 0], [0, 0, 0, 0], upd.2)
        if isPastEof r.2.2 then none else some r
    match adjR with
    | none => none
    | some (rd, md, d3) =>
      let np := readLiteral d3 2
      if isPastEof np.2 then none else
      -- quantiser levels are stored as i8
      let q := Vp8Quant.readQuant np.2 se.1 dv ql
      match q.2 with
      | none => none
      | some factors =>
        let refresh := readLiteral q.1 1
        let tp := updateProbs (flat4 Gen.Tables.COEFF_UPDATE_PROBS) (flat4 Gen.Tables.COEFF_PROBS) refresh.2
        if isPastEof tp.2 then none else
        let ns := readLiteral tp.2 1
        let sp := if ns.1 = 1 then (let r := readLiteral ns.2 8; (some r.1, r.2)) else (none, ns.2)
        if isPastEof sp.2 then none else
        some { pixelType := pt.1, segEnabled := se.1, updateMap := updateMap, deltaValues := dv, quantLevel := ql, lfLevel := ll,
               treeProbs := tps, filterSimple := ft.1, filterLevel := fl.1, sharpness := sh.1, refDelta := rd, modeDelta := md,
               partsLog2 := np.1, factors := factors, tokenProbs := tp.1, skipProb := sp.1, rest := sp.2 }

end Vp8Header
