import WebpVerif.Model.Vp8Pred
/-
Model of `intra_predict_luma` and `intra_predict_chroma` of /repo/src/vp8.rs for one macroblock:
the prediction workspace with its border (`create_border_luma`; chroma borders taken from the
frame planes), the choice of predictor from the macroblock's modes (16x16 modes, B_PRED with one
mode and one residue block per sub-block in raster order, chroma modes on both planes),
`add_residue` with its clamp to 0..255, the luma borders kept for the next macroblocks and the copy
of the reconstructed samples into the frame planes.  Predictor bodies: Model/Vp8Pred.lean.
-/
namespace Vp8Intra

def clampByte (v : Int) : Nat := (min (max v 0) 255).toNat

/-- `add_residue(pblock, rblock, y0, x0, stride)` -/
def addResidue (ws : Array Nat) (rb : Array Int) (y0 x0 stride : Nat) : Array Nat :=
  (List.range 16).foldl (fun ws k =>
    let pos := (y0 + k / 4) * stride + x0 + k % 4
    ws.setIfInBounds pos (clampByte (rb.getD k 0 + ws.getD pos 0))) ws

/-- `create_border_luma(mbx, mby, mbw, top, left)`: the 17 x 21 workspace -/
def lumaWs (mbx mby mbw : Nat) (top left : Array Nat) : Array Nat :=
  let stride := 21
  let ws : Array Nat := Array.replicate (17 * 21) 0
  -- A: the row above, 16 + 4 above-right
  let ws := (List.range 20).foldl (fun ws i =>
    let v := if mby = 0 then 127
      else if i < 16 then top.getD (mbx * 16 + i) 0
      else if mbx = mbw - 1 then top.getD (mbx * 16 + 15) 0
      else top.getD (mbx * 16 + i) 0
    ws.setIfInBounds (1 + i) v) ws
  -- the above-right pixels again next to rows 4, 8, 12
  let ws := (List.range 4).foldl (fun ws i =>
    ((ws.setIfInBounds (4 * stride + 17 + i) (ws.getD (17 + i) 0)).setIfInBounds (8 * stride + 17 + i) (ws.getD (17 + i) 0)).setIfInBounds
      (12 * stride + 17 + i) (ws.getD (17 + i) 0)) ws
  -- L
  let ws := (List.range 16).foldl (fun ws i => ws.setIfInBounds ((i + 1) * stride) (if mbx = 0 then 129 else left.getD (i + 1) 0)) ws
  -- P
  ws.setIfInBounds 0 (if mby = 0 then 127 else if mbx = 0 then 129 else left.getD 0 0)

def block (res : Array Int) (i : Nat) : Array Int := res.extract (16 * i) (16 * i + 16)

/-- the luma workspace after prediction and residue; `lumaMode`: 0 DC, 1 V, 2 H, 3 TM, 4 B -/
def lumaRecon (mbx mby : Nat) (lumaMode : Nat) (bmodes : Array Nat) (res : Array Int) (ws : Array Nat) : Array Nat :=
  if lumaMode = 4 then
    (List.range 16).foldl (fun ws i =>
      let y0 := (i / 4) * 4 + 1
      let x0 := (i % 4) * 4 + 1
      addResidue (Vp8Pred.predict (bmodes.getD i 0) ws 4 x0 y0 21 true true) (block res i) y0 x0 21) ws
  else
    let ws := match lumaMode with
      | 1 => Vp8Pred.predict 10 ws 16 1 1 21 true true
      | 2 => Vp8Pred.predict 11 ws 16 1 1 21 true true
      | 3 => Vp8Pred.predict 1 ws 16 1 1 21 true true
      | _ => Vp8Pred.predict 12 ws 16 1 1 21 (mby != 0) (mbx != 0)
    (List.range 16).foldl (fun ws i => addResidue ws (block res i) (1 + (i / 4) * 4) (1 + (i % 4) * 4) 21) ws

/-- the 9 x 9 chroma workspace with its border from the plane -/
def chromaWs (mbx mby w : Nat) (buf : Array Nat) : Array Nat :=
  let ws : Array Nat := Array.replicate 81 0
  let ws := (List.range 8).foldl (fun ws y =>
    ws.setIfInBounds ((y + 1) * 9) (if mbx = 0 then 129 else buf.getD ((mby * 8 + y) * w + ((mbx - 1) * 8 + 7)) 0)) ws
  let ws := (List.range 8).foldl (fun ws x =>
    ws.setIfInBounds (x + 1) (if mby = 0 then 127 else buf.getD (((mby - 1) * 8 + 7) * w + (mbx * 8 + x)) 0)) ws
  ws.setIfInBounds 0 (if mby = 0 then 127 else if mbx = 0 then 129 else buf.getD (((mby - 1) * 8 + 7) * w + (mbx - 1) * 8 + 7) 0)

/-- `chromaMode`: 0 DC, 1 V, 2 H, 3 TM; `first` = index of the plane's first residue block (16 / 20) -/
def chromaRecon (mbx mby chromaMode first : Nat) (res : Array Int) (ws : Array Nat) : Array Nat :=
  let ws := match chromaMode with
    | 1 => Vp8Pred.predict 10 ws 8 1 1 9 true true
    | 2 => Vp8Pred.predict 11 ws 8 1 1 9 true true
    | 3 => Vp8Pred.predict 1 ws 8 1 1 9 true true
    | _ => Vp8Pred.predict 12 ws 8 1 1 9 (mby != 0) (mbx != 0)
  (List.range 4).foldl (fun ws i => addResidue ws (block res (first + i)) (1 + (i / 2) * 4) (1 + (i % 2) * 4) 9) ws

/-- copy the `n x n` samples of a workspace into a plane of width `w` at macroblock (mbx, mby) -/
def store (buf : Array Nat) (w mbx mby n stride : Nat) (ws : Array Nat) : Array Nat :=
  (List.range (n * n)).foldl (fun b k => b.setIfInBounds ((mby * n + k / n) * w + mbx * n + k % n) (ws.getD ((1 + k / n) * stride + 1 + k % n) 0)) buf

structure Out where
  y : Array Nat
  u : Array Nat
  v : Array Nat
  top : Array Nat
  left : Array Nat

def predictMb (mbw mbx mby lumaMode chromaMode : Nat) (bmodes : Array Nat) (res : Array Int) (top left y u v : Array Nat) : Out :=
  let ws := lumaRecon mbx mby lumaMode bmodes res (lumaWs mbx mby mbw top left)
  let left' := (List.range 16).foldl (fun l i => l.setIfInBounds (i + 1) (ws.getD ((i + 1) * 21 + 16) 0)) (left.setIfInBounds 0 (ws.getD 16 0))
  let top' := (List.range 16).foldl (fun t i => t.setIfInBounds (mbx * 16 + i) (ws.getD (16 * 21 + 1 + i) 0)) top
  let cw := mbw * 8
  let uws := chromaRecon mbx mby chromaMode 16 res (chromaWs mbx mby cw u)
  let vws := chromaRecon mbx mby chromaMode 20 res (chromaWs mbx mby cw v)
  { y := store y (mbw * 16) mbx mby 16 21 ws, u := store u cw mbx mby 8 9 uws, v := store v cw mbx mby 8 9 vws, top := top', left := left' }

end Vp8Intra
