/-
Model of the intra predictors of /repo/src/vp8.rs on the prediction workspace (a row-major byte
array with `stride` bytes per row; the block to predict has its top-left pixel at column `x0`,
row `y0`, the row above and the column to the left hold the neighbouring pixels).  Import-free.
The model is pointwise: the new workspace as a function of the old one - which bytes a predictor
overwrites (including the bytes `predict_vpred` / `predict_hpred` write beyond the block, up to the
end of the row) and with what.  The values are transcribed predictor by predictor from the code.
-/
namespace Vp8Pred

def avg3 (l t r : Nat) : Nat := (l + 2 * t + r + 2) / 4
def avg2 (t r : Nat) : Nat := (t + r + 1) / 2

/-- the neighbourhood of a 4x4 block as the code reads it -/
structure Nb where
  p : Nat            -- top-left
  t : Nat → Nat      -- row above, 8 pixels
  l : Nat → Nat      -- column to the left, 4 pixels

def nbOf (a : Array Nat) (x0 y0 stride : Nat) : Nb :=
  { p := a[(y0 - 1) * stride + x0 - 1]!
    t := fun k => a[(y0 - 1) * stride + x0 + k]!
    l := fun k => a[(y0 + k) * stride + x0 - 1]! }

def at4 (rows : List (List Nat)) (r c : Nat) : Nat := (rows.getD r []).getD c 0

/-- `predict_bvepred` -/
def bve (n : Nb) (_r c : Nat) : Nat :=
  [avg3 n.p (n.t 0) (n.t 1), avg3 (n.t 0) (n.t 1) (n.t 2), avg3 (n.t 1) (n.t 2) (n.t 3), avg3 (n.t 2) (n.t 3) (n.t 4)].getD c 0

/-- `predict_bhepred` -/
def bhe (n : Nb) (r _c : Nat) : Nat :=
  [avg3 n.p (n.l 0) (n.l 1), avg3 (n.l 0) (n.l 1) (n.l 2), avg3 (n.l 1) (n.l 2) (n.l 3), avg3 (n.l 2) (n.l 3) (n.l 3)].getD r 0

/-- `predict_bdcpred` -/
def bdc (n : Nb) (_r _c : Nat) : Nat :=
  (4 + n.t 0 + n.t 1 + n.t 2 + n.t 3 + n.l 0 + n.l 1 + n.l 2 + n.l 3) / 8

/-- `predict_bldpred`: row `i` takes `avgs[i..=i+3]` -/
def bld (n : Nb) (r c : Nat) : Nat :=
  [avg3 (n.t 0) (n.t 1) (n.t 2), avg3 (n.t 1) (n.t 2) (n.t 3), avg3 (n.t 2) (n.t 3) (n.t 4), avg3 (n.t 3) (n.t 4) (n.t 5),
   avg3 (n.t 4) (n.t 5) (n.t 6), avg3 (n.t 5) (n.t 6) (n.t 7), avg3 (n.t 6) (n.t 7) (n.t 7)].getD (r + c) 0

/-- `edge_pixels`: e0..e8 = l3 l2 l1 l0 p t0 t1 t2 t3 -/
def edge (n : Nb) (k : Nat) : Nat := [n.l 3, n.l 2, n.l 1, n.l 0, n.p, n.t 0, n.t 1, n.t 2, n.t 3].getD k 0

/-- `predict_brdpred`: row `i` takes `avgs[3-i..7-i]` -/
def brd (n : Nb) (r c : Nat) : Nat :=
  let e := edge n
  [avg3 (e 0) (e 1) (e 2), avg3 (e 1) (e 2) (e 3), avg3 (e 2) (e 3) (e 4), avg3 (e 3) (e 4) (e 5),
   avg3 (e 4) (e 5) (e 6), avg3 (e 5) (e 6) (e 7), avg3 (e 6) (e 7) (e 8)].getD (3 - r + c) 0

/-- `predict_bvrpred` (sixteen explicit assignments) -/
def bvr (n : Nb) (r c : Nat) : Nat :=
  let e := edge n
  at4 [[avg2 (e 4) (e 5), avg2 (e 5) (e 6), avg2 (e 6) (e 7), avg2 (e 7) (e 8)],
       [avg3 (e 3) (e 4) (e 5), avg3 (e 4) (e 5) (e 6), avg3 (e 5) (e 6) (e 7), avg3 (e 6) (e 7) (e 8)],
       [avg3 (e 2) (e 3) (e 4), avg2 (e 4) (e 5), avg2 (e 5) (e 6), avg2 (e 6) (e 7)],
       [avg3 (e 1) (e 2) (e 3), avg3 (e 3) (e 4) (e 5), avg3 (e 4) (e 5) (e 6), avg3 (e 5) (e 6) (e 7)]] r c

/-- `predict_bvlpred` -/
def bvl (n : Nb) (r c : Nat) : Nat :=
  let a := n.t
  at4 [[avg2 (a 0) (a 1), avg2 (a 1) (a 2), avg2 (a 2) (a 3), avg2 (a 3) (a 4)],
       [avg3 (a 0) (a 1) (a 2), avg3 (a 1) (a 2) (a 3), avg3 (a 2) (a 3) (a 4), avg3 (a 3) (a 4) (a 5)],
       [avg2 (a 1) (a 2), avg2 (a 2) (a 3), avg2 (a 3) (a 4), avg3 (a 4) (a 5) (a 6)],
       [avg3 (a 1) (a 2) (a 3), avg3 (a 2) (a 3) (a 4), avg3 (a 3) (a 4) (a 5), avg3 (a 5) (a 6) (a 7)]] r c

/-- `predict_bhdpred` -/
def bhd (n : Nb) (r c : Nat) : Nat :=
  let e := edge n
  at4 [[avg2 (e 3) (e 4), avg3 (e 3) (e 4) (e 5), avg3 (e 4) (e 5) (e 6), avg3 (e 5) (e 6) (e 7)],
       [avg2 (e 2) (e 3), avg3 (e 2) (e 3) (e 4), avg2 (e 3) (e 4), avg3 (e 3) (e 4) (e 5)],
       [avg2 (e 1) (e 2), avg3 (e 1) (e 2) (e 3), avg2 (e 2) (e 3), avg3 (e 2) (e 3) (e 4)],
       [avg2 (e 0) (e 1), avg3 (e 0) (e 1) (e 2), avg2 (e 1) (e 2), avg3 (e 1) (e 2) (e 3)]] r c

/-- `predict_bhupred` -/
def bhu (n : Nb) (r c : Nat) : Nat :=
  let l := n.l
  at4 [[avg2 (l 0) (l 1), avg3 (l 0) (l 1) (l 2), avg2 (l 1) (l 2), avg3 (l 1) (l 2) (l 3)],
       [avg2 (l 1) (l 2), avg3 (l 1) (l 2) (l 3), avg2 (l 2) (l 3), avg3 (l 2) (l 3) (l 3)],
       [avg2 (l 2) (l 3), avg3 (l 2) (l 3) (l 3), l 3, l 3],
       [l 3, l 3, l 3, l 3]] r c

/-- `(left_minus_p + above).max(0).min(255)` of `predict_tmpred` -/
def tmVal (l t p : Nat) : Nat := (min (max ((l : Int) - p + t) 0) 255).toNat

/-- the block value of the sub-block predictor `kind` (the numbering of the hook `vp8_predict`) -/
def block4 (kind : Nat) (n : Nb) (r c : Nat) : Nat :=
  match kind with
  | 0 => bdc n r c
  | 2 => bve n r c
  | 3 => bhe n r c
  | 4 => bld n r c
  | 5 => brd n r c
  | 6 => bvr n r c
  | 7 => bvl n r c
  | 8 => bhd n r c
  | _ => bhu n r c

/-- `predict_dcpred`'s value -/
def dcVal (a : Array Nat) (size stride : Nat) (above left : Bool) : Nat :=
  let shf0 := if size = 8 then 2 else 3
  let sumL := if left then ((List.range size).map fun y => a[(y + 1) * stride]!).sum else 0
  let sumA := if above then ((List.range size).map fun x => a[1 + x]!).sum else 0
  let shf := shf0 + (if left then 1 else 0) + (if above then 1 else 0)
  if !left && !above then 128 else ((sumL + sumA + 2 ^ (shf - 1)) / 2 ^ shf) % 256

/-- the workspace after predictor `kind` (see the hook for the numbering) -/
def predict (kind : Nat) (a : Array Nat) (size x0 y0 stride : Nat) (above left : Bool) : Array Nat :=
  ((List.range a.size).map fun i =>
    let row := i / stride
    let col := i % stride
    if kind = 1 then
      -- TrueMotion of `size`: rows y0.., columns x0.. of the block
      if y0 ≤ row ∧ row < y0 + size ∧ x0 ≤ col ∧ col < x0 + size then
        tmVal a[row * stride + x0 - 1]! a[(y0 - 1) * stride + col]! a[(y0 - 1) * stride + x0 - 1]!
      else a[i]!
    else if kind = 10 then
      -- vertical: every full row from y0 on (at most `size`), columns 1.. as far as the slice of the
      -- rows above reaches, receives `a[x0 + k]`
      if y0 ≤ row ∧ row < y0 + size ∧ (row + 1) * stride ≤ a.size ∧ 1 ≤ col ∧ col - 1 < stride * y0 - x0 then a[x0 + (col - 1)]!
      else a[i]!
    else if kind = 11 then
      -- horizontal: the rest of the row from x0 on receives the pixel to the left of the block
      if y0 ≤ row ∧ row < y0 + size ∧ (row + 1) * stride ≤ a.size ∧ x0 ≤ col then a[row * stride + x0 - 1]!
      else a[i]!
    else if kind ≥ 12 then
      if 1 ≤ row ∧ row < 1 + size ∧ 1 ≤ col ∧ col < 1 + size then dcVal a size stride above left else a[i]!
    else
      if y0 ≤ row ∧ row < y0 + 4 ∧ x0 ≤ col ∧ col < x0 + 4 then block4 kind (nbOf a x0 y0 stride) (row - y0) (col - x0)
      else a[i]!).toArray

end Vp8Pred
