import WebpVerif.Model.EncHuff
/-
Model of `HuffmanTree` (/repo/src/huffman.rs): `build_implicit` (histogram, special cases,
`next_codes`, the validity test, the primary table with replicated entries, the secondary trees
of `Branch(offset)` / `Leaf` / `Empty` nodes in one vector) and `read_symbol` with its slow path.
Mathlib-free.  Integers are naturals; the u16/u32 casts are the identity on the values that reach
them for length vectors that pass the validity test (`curr_code` stays below 2^17).
-/
namespace Huff
open EncHuff (codeWord)

inductive Node where
  | branch (off : Nat)
  | leaf (sym : Nat)
  | empty
deriving DecidableEq, Repr

structure HT where
  tree : Array Node
  table : Array Nat          -- entry = length·2^16 + value (value = symbol, or node index + 1)
  mask : Nat
deriving Repr

inductive Built where
  | err
  | single (sym : Nat)
  | ok (t : HT)
deriving Repr

instance : Inhabited Node := ⟨.empty⟩

/-- `code_length_hist[len]` -/
def hist (ls : List Nat) (len : Nat) : Nat := (ls.filter (fun l => l ≠ 0 ∧ l = len)).length

/-- the `next_codes` loop: `(next_codes, curr_code)` after the lengths `1..=m` -/
def nextCodes (ls : List Nat) : Nat → Array Nat × Nat
  | 0 => (Array.replicate 16 0, 0)
  | m + 1 =>
    let (nc, cur) := nextCodes ls m
    (nc.setIfInBounds (m + 1) (cur % 65536), (cur + hist ls (m + 1)) * 2)

structure St where
  next : Array Nat
  tree : Array Node
  table : Array Nat

/-- `while j < table_size { table[j] = entry; j += 1 << length }` -/
def fillTable (table : Array Nat) (entry step : Nat) : Nat → Nat → Array Nat
  | 0, _ => table
  | fuel + 1, j => if j < table.size then fillTable (table.setIfInBounds j entry) entry step fuel (j + step) else table

/-- the depth loop of a long code: walks (and extends) the secondary tree; `none` = HuffmanError -/
def walkInsert (code : Nat) : Nat → Array Node → Nat → Option (Array Node × Nat)
  | 0, tree, node => some (tree, node)
  | d + 1, tree, node =>
    match tree[node]! with
    | .empty =>
      let off := tree.size - node
      let tree := ((tree.setIfInBounds node (.branch off)).push .empty).push .empty
      walkInsert code d tree (node + off + (code / 2 ^ d % 2))
    | .leaf _ => none
    | .branch off => walkInsert code d tree (node + off + (code / 2 ^ d % 2))

/-- one iteration of the symbol loop -/
def insertSym (tb mask : Nat) (st : St) (symbol length : Nat) : Option St :=
  if length = 0 then some st else
  let code := st.next[length]!
  let next := st.next.setIfInBounds length ((code + 1) % 65536)
  if length ≤ tb then
    let j := codeWord code length
    some { next := next, tree := st.tree, table := fillTable st.table (length * 65536 + symbol) (2 ^ length) st.table.size j }
  else
    let idx := codeWord code length % (mask + 1)
    let tv := st.table[idx]!
    let (tree, table, node) :=
      if tv = 0 then (st.tree.push .empty, st.table.setIfInBounds idx (st.tree.size + 1), st.tree.size)
      else (st.tree, st.table, tv - 1)
    match walkInsert code (length - tb) tree node with
    | none => none
    | some (tree, node) =>
      match tree[node]! with
      | .empty => some { next := next, tree := tree.setIfInBounds node (.leaf symbol), table := table }
      | _ => none

def insertAll (tb mask : Nat) (ls : List Nat) : Nat → St → Option St
  | 0, st => some st
  | k + 1, st =>
    match insertAll tb mask ls k st with
    | none => none
    | some st => insertSym tb mask st k (ls.getD k 0)

/-- `build_implicit` (lengths at most 15, as the callers guarantee) -/
def build (ls : List Nat) : Built :=
  let num := (ls.filter (· ≠ 0)).length
  if num = 0 then .err
  else if num = 1 then .single (ls.findIdx (· ≠ 0))
  else
    let maxLen := ls.foldl max 0
    let (next, cur) := nextCodes ls maxLen
    if cur ≠ 2 * 2 ^ maxLen then .err else
    let tb := min maxLen 10
    let size := 2 ^ tb
    match insertAll tb (size - 1) ls ls.length { next := next, tree := #[], table := Array.replicate size 0 } with
    | none => .err
    | some st => .ok { tree := st.tree, table := st.table, mask := size - 1 }

/-- `read_symbol_slowpath`: returns (symbol, depth) -/
def slow (tree : Array Node) : Nat → Nat → Nat → Nat → Option (Nat × Nat)
  | 0, _, _, _ => none
  | fuel + 1, v, index, depth =>
    match tree[index]! with
    | .branch off => slow tree fuel (v / 2) (index + off + v % 2) (depth + 1)
    | .leaf s => some (s, depth)
    | .empty => none

/-- `read_symbol` on the 16 bits `v = peek_full() as u16`: (symbol, number of bits to consume),
    `none` = HuffmanError -/
def look (t : HT) (v : Nat) : Option (Nat × Nat) :=
  let e := t.table[v % (t.mask + 1)]!
  if e / 65536 ≠ 0 then some (e % 65536, e / 65536)
  else slow t.tree 16 (v / 1024) (e % 65536 - 1) 10

/-- value of a bit list, first bit least significant -/
def lsbVal : List Nat → Nat
  | [] => 0
  | b :: bs => b + 2 * lsbVal bs

/-- the 16-bit peek of a bit list (stream order, zero padded) -/
def peek16 (bits : List Nat) : Nat := lsbVal (bits.take 16)

/-- `read_symbol` on a bit list: the symbol and the rest; `none` = error (HuffmanError, or
    BitStreamError from `consume` when fewer bits are left than the code word needs) -/
def readSym (b : Built) (bits : List Nat) : Option (Nat × List Nat) :=
  match b with
  | .err => none
  | .single s => some (s, bits)
  | .ok t =>
    match look t (peek16 bits) with
    | none => none
    | some (s, n) => if bits.length < n then none else some (s, bits.drop n)

end Huff
