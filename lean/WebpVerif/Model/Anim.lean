import WebpVerif.Model.Blend
/-
Model of the animation compositing of /repo/src/extended.rs (`composite_frame`) and of the
animation state machine of /repo/src/decoder.rs (`read_frame` from the point where the frame's
pixels have been decoded, `read_image` on an animated file, `reset_animation`).

The canvas (`Vec<u8>`, RGBA) is modelled as an array of pixels indexed `y * canvas_width + x`:
every access of the code is a whole 4-byte pixel at byte offset `4 * index`.  A decoded frame is
an array of pixels too; for a frame without alpha (a lossy frame without ALPH chunk) the code
writes alpha 255 itself, which the model does in `framePx`.

Domain: the geometry `read_frame` lets through (frame and previous rectangle inside the canvas);
outside it the model answers `none`.  Inside it, `none` would mean an out-of-bounds panic and
`Props/C06.lean` proves it never happens.
-/
namespace Anim
open Blend

structure Rect where
  x : Nat
  y : Nat
  w : Nat
  h : Nat
deriving DecidableEq, Repr

def Rect.inside (r : Rect) (cw ch : Nat) : Bool := r.x + r.w ≤ cw && r.y + r.h ≤ ch

/-- apply `f x old` to the `n` pixels starting at flat index `base` -/
def rowMap (c : Array Px) (base n : Nat) (f : Nat → Px → Px) : Array Px :=
  (List.range n).foldl (fun c x => c.modify (base + x) (f x)) c

/-- apply `f x y old` to every pixel of rectangle `r` of a canvas of width `cw` -/
def rectMap (c : Array Px) (cw : Nat) (r : Rect) (f : Nat → Nat → Px → Px) : Array Px :=
  (List.range r.h).foldl (fun c y => rowMap c ((r.y + y) * cw + r.x) r.w (fun x => f x y)) c

/-- pixel `(x, y)` of a decoded frame of width `fw`; frames without alpha are opaque -/
def framePx (frame : Array Px) (fw : Nat) (hasAlpha : Bool) (x y : Nat) : Px :=
  let p := frame.getD (y * fw + x) ⟨0, 0, 0, 0⟩
  if hasAlpha then p else { p with a := 255 }

/-- `composite_frame` (repaired disposal: always the previous rectangle, always whole pixels) -/
def compositeFrame (canvas : Array Px) (cw ch : Nat) (clear : Option Px)
    (frame : Array Px) (fr : Rect) (hasAlpha useBlend : Bool) (prev : Rect) : Option (Array Px) :=
  if !(fr.inside cw ch && prev.inside cw ch && canvas.size == cw * ch && frame.size == fr.w * fr.h) then none
  else
    let fullSize := fr.x == 0 && fr.y == 0 && fr.w == cw && fr.h == ch
    if fullSize && !useBlend then
      some (rectMap canvas cw fr (fun x y _ => framePx frame fr.w hasAlpha x y))
    else
      let c1 := match clear with
        | some color => rectMap canvas cw prev (fun _ _ _ => color)
        | none => canvas
      if hasAlpha && useBlend then
        some (rectMap c1 cw fr (fun x y old => blendPixel (framePx frame fr.w true x y) old))
      else
        some (rectMap c1 cw fr (fun x y _ => framePx frame fr.w hasAlpha x y))

/-- one frame of the file as `read_frame` sees it after decoding its payload -/
structure Frame where
  rect : Rect
  duration : Nat
  useBlend : Bool
  dispose : Bool
  hasAlpha : Bool
  pixels : Array Px
deriving Repr

/-- the animated file as far as playback is concerned -/
structure File where
  cw : Nat
  ch : Nat
  bgFile : List Nat       -- the four background bytes of the ANIM chunk, in file order (B, G, R, A)
  hasAlpha : Bool         -- the container's alpha flag: output is RGBA, else RGB
  frames : List Frame
deriving Repr

/-- background colour as the decoder uses it (R, G, B, A): the container stores B, G, R, A -/
def File.bg (f : File) : Px :=
  ⟨f.bgFile.getD 2 0, f.bgFile.getD 1 0, f.bgFile.getD 0 0, f.bgFile.getD 3 0⟩

/-- `AnimationState` (without the file position) -/
structure State where
  nextFrame : Nat
  disposeNext : Bool
  prev : Rect
  canvas : Option (Array Px)
deriving Repr

def State.default : State := { nextFrame := 0, disposeNext := true, prev := ⟨0, 0, 0, 0⟩, canvas := none }

inductive Out where
  | frame (duration : Nat) (buf : List Nat)
  | noMoreFrames
  | error (what : String)
  | unit
deriving Repr, DecidableEq

/-- the output buffer: the canvas as RGBA, or with alpha dropped when the container flag is clear -/
def render (hasAlpha : Bool) (c : Array Px) : List Nat :=
  c.toList.flatMap fun p => if hasAlpha then [p.r, p.g, p.b, p.a] else [p.r, p.g, p.b]

/-- the canvas a `read_frame` call starts from: the carried one, or a fresh one filled with the
    background colour -/
def startCanvas (f : File) (st : State) : Array Px :=
  match st.canvas with
  | some c => c
  | none => Array.replicate (f.cw * f.ch) f.bg

/-- `clear_color`: restore the previous rectangle iff the previous frame asked for disposal -/
def clearOf (f : File) (st : State) : Option Px := if st.disposeNext then some f.bg else none

/-- `read_frame` -/
def readFrame (f : File) (st : State) : Out × State :=
  if st.nextFrame ≥ f.frames.length then (.noMoreFrames, st) else
  match f.frames[st.nextFrame]? with
  | none => (.noMoreFrames, st)
  | some fr =>
    if fr.rect.w > 16384 || fr.rect.h > 16384 then (.error "ImageTooLarge", st)
    else if fr.rect.x + fr.rect.w > f.cw || fr.rect.y + fr.rect.h > f.ch then (.error "FrameOutsideImage", st)
    else
      match compositeFrame (startCanvas f st) f.cw f.ch (clearOf f st) fr.pixels fr.rect fr.hasAlpha fr.useBlend st.prev with
      | none => (.error "panic", st)
      | some c =>
        (.frame fr.duration (render f.hasAlpha c),
         { nextFrame := st.nextFrame + 1, disposeNext := fr.dispose, prev := fr.rect, canvas := some c })

/-- `reset_animation` (repaired: back to the initial state) -/
def reset (_ : State) : State := State.default

/-- `read_image` on an animated file: the first frame from a fresh state; playback state restored -/
def readImage (f : File) (st : State) : Out × State :=
  ((readFrame f State.default).1, st)

inductive Op where
  | readFrame | reset | readImage
deriving Repr, DecidableEq

def step (f : File) (st : State) : Op → Out × State
  | .readFrame => readFrame f st
  | .reset => (.unit, reset st)
  | .readImage => readImage f st

def run (f : File) : State → List Op → List Out
  | _, [] => []
  | st, op :: ops => (step f st op).1 :: run f (step f st op).2 ops

end Anim
