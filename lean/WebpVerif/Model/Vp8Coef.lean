import WebpVerif.Model.Arith
import WebpVerif.Gen.Tables
/-
Model of `Vp8Decoder::read_coefficients` of /repo/src/vp8.rs on top of the model of the boolean
decoder (`Arith`, C15): the token loop over the positions `first..16` with the band / context
selection of the probabilities, the token tree entered at node `skip` (no end-of-block test
after a zero), the `DCT_0` / literal / category arms with the extra bits of `PROB_DCT_CAT`, the
context update, the sign flag, dequantisation with `dcq` / `acq` at the zigzag position, the
`has_coefficients` flag and the final `check`.  Tables are the regenerated ones.
-/
namespace Vp8Coef
open Arith

/-- `read_with_tree_with_first_node(tree, tree[start])` -/
def readTreeFrom (d : Dec) (tree : Array Node) (start : Nat) : Option (Nat × Dec) :=
  match tree[start]? with
  | none => none
  | some first =>
    match fastReadTree d.chunks tree (tree.size + 1) d.state first with
    | none => none
    | some r =>
      match commitIfValid d r.2 r.1 with
      | some r => some r
      | none => coldReadTree tree (tree.size + 1) d start

/-- the extra bits of a category token: one `read_bool` per non-zero probability -/
def readExtra : List Nat → Dec → Nat → Nat × Dec
  | [], d, extra => (extra, d)
  | t :: ts, d, extra =>
    if t = 0 then (extra, d)
    else
      let r := readBool d t
      readExtra ts r.2 (extra + extra + r.1.toNat)

/-- the state of the token loop -/
structure St where
  d : Dec
  block : Array Int
  complexity : Nat
  skip : Bool
  has : Bool

/-- one position `i` of the loop: `none` = a tree read failed (excluded for the crate's tree),
    `inl` = end of block, `inr` = go on -/
def stepAt (probs : Nat → Nat → List Nat) (dcq acq : Int) (i : Nat) (s : St) : Option (St ⊕ St) :=
  let band := Gen.Tables.COEFF_BANDS.getD i 0
  let tree := (treeNodesFrom Gen.Tables.DCT_TOKEN_TREE (probs band s.complexity)).toArray
  match readTreeFrom s.d tree (if s.skip then 1 else 0) with
  | none => none
  | some (token, d) =>
    if token = 11 then some (.inl { s with d := d })
    else if token = 0 then some (.inr { s with d := d, skip := true, has := true, complexity := 0 })
    else
      let (absValue, d) :=
        if token ≤ 4 then (token, d)
        else
          let r := readExtra (Gen.Tables.PROB_DCT_CAT.getD (token - 5) []) d 0
          (Gen.Tables.DCT_CAT_BASE.getD (token - 5) 0 + r.1, r.2)
      let complexity := if absValue = 0 then 0 else if absValue = 1 then 1 else 2
      let f := readFlag d
      let v : Int := if f.1 then -(absValue : Int) else absValue
      let zz := Gen.Tables.ZIGZAG.getD i 0
      some (.inr { d := f.2, block := s.block.setIfInBounds zz (v * (if zz > 0 then acq else dcq)), complexity := complexity,
                   skip := false, has := true })

def loop (probs : Nat → Nat → List Nat) (dcq acq : Int) : Nat → Nat → St → Option St
  | 0, _, s => some s
  | n + 1, i, s =>
    match stepAt probs dcq acq i s with
    | none => none
    | some (.inl s) => some s
    | some (.inr s) => loop probs dcq acq n (i + 1) s

/-- `read_coefficients`: the decoder afterwards, the block, and `Ok(has_coefficients)` or the error
    of `check` (`none` in the third component) -/
def readCoefficients (d : Dec) (probs : Nat → Nat → List Nat) (plane complexity : Nat) (dcq acq : Int) :
    Option (Dec × Array Int × Option Bool) :=
  let first := if plane = 0 then 1 else 0
  match loop probs dcq acq (16 - first) first { d := d, block := Array.replicate 16 0, complexity := complexity, skip := false, has := false } with
  | none => none
  | some s => some (s.d, s.block, if isPastEof s.d then none else some s.has)

end Vp8Coef
