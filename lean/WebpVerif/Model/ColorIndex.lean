/-
Model of `apply_color_indexing_transform` (/repo/src/lossless_transform.rs), the in-place inverse
colour-indexing transform (import-free).  Pixels are numbers (one value per four bytes); `green`
extracts the index byte.  For palettes of up to 16 colours the packed index image occupies the
first `iw·h` pixels of the `w·h` buffer and is expanded in place, last row first and right to
left; every expanded group of `2^wb` pixels is copied over positions that were read before.
-/
namespace CIdx

def green (p : Nat) : Nat := p / 256 % 256

/-- pixel `j` of the pre-computed table entry for the index byte `i` -/
def entry (pal : Array Nat) (tsize bpe : Nat) (i j : Nat) : Nat :=
  let k := i / 2 ^ (j * bpe) % 2 ^ bpe
  if k < tsize then pal[k]! else 0

/-- `image_data[out..][..n].copy_from_slice(&table[i][..n])` in pixels -/
def writeRun (d : Array Nat) (out n : Nat) (f : Nat → Nat) : Array Nat :=
  (List.range n).foldl (fun d t => d.setIfInBounds (out + t) (f t)) d

/-- `for x in (0..index_image_width).rev()` on row `y`; the first argument counts the columns left -/
def rowLoop (pal : Array Nat) (tsize bpe P w iw y : Nat) : Nat → Array Nat → Array Nat
  | 0, d => d
  | x + 1, d =>
    let i := green d[y * iw + x]!
    let n := if x = iw - 1 then w - P * (iw - 1) else P
    rowLoop pal tsize bpe P w iw y x (writeRun d (y * w + x * P) n (entry pal tsize bpe i))

/-- `for y in (0..height).rev()` -/
def run (pal : Array Nat) (tsize bpe P w iw : Nat) : Nat → Array Nat → Array Nat
  | 0, d => d
  | y + 1, d => run pal tsize bpe P w iw y (rowLoop pal tsize bpe P w iw y iw d)

/-- `apply_color_indexing_transform(image_data, width, height, table_size, table_data)` -/
def apply (pal : Array Nat) (tsize w h : Nat) (d : Array Nat) : Array Nat :=
  if tsize > 16 then d.map fun p => if green p < tsize then pal[green p]! else 0
  else
    let wb := if tsize ≤ 2 then 3 else if tsize ≤ 4 then 2 else 1
    let P := 2 ^ wb
    run pal tsize (8 / P) P w ((w + P - 1) / P) h d

end CIdx
