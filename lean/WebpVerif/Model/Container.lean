/-
Model of the container parsing of /repo/src/decoder.rs (`read_chunk_header`, `read_data`,
`read_chunk`, the accessors, `output_buffer_size`) and /repo/src/extended.rs
(`read_extended_header`, `read_3_bytes`) — import-free.

The reader `R: BufRead + Seek` is a byte list with a position (the contract of `Cursor`):
`read_exact` of `n` bytes succeeds iff `pos + n ≤ len`; seeking to any non-negative position
succeeds; a relative seek to a negative position is an `InvalidInput` I/O error.
`HashMap<WebPRiffChunk, Range<u64>>` is an association list; `entry(k).or_insert(v)` keeps the
first binding.  u64 positions never approach 2^64 (sizes are 32-bit, files finite) and are `Nat`.
-/
namespace Container

inductive Err where
  | ioEof                       -- IoError(UnexpectedEof)
  | ioOther                     -- any other IoError (e.g. negative seek)
  | chunkHeaderInvalid (cc : List Nat)
  | webpSignatureInvalid
  | chunkMissing
  | unsupportedFeature
  | vp8MagicInvalid
  | inconsistentImageSizes
  | losslessSignatureInvalid
  | versionNumberInvalid
  | imageTooLarge
  | invalidChunkSize
  | memoryLimitExceeded
deriving DecidableEq, Repr

structure Reader where
  data : List Nat
  pos : Nat
deriving Repr

abbrev M (α : Type) := Reader → Except Err (α × Reader)

def readExact (n : Nat) : M (List Nat) := fun r =>
  if r.pos + n ≤ r.data.length then .ok ((r.data.drop r.pos).take n, { r with pos := r.pos + n })
  else .error .ioEof

def le (bs : List Nat) : Nat := bs.foldr (fun b acc => b + 256 * acc) 0

def readU8 : M Nat := fun r => match readExact 1 r with
  | .ok (bs, r) => .ok (le bs, r) | .error e => .error e
def readLE (n : Nat) : M Nat := fun r => match readExact n r with
  | .ok (bs, r) => .ok (le bs, r) | .error e => .error e

def seekTo (p : Nat) : M Unit := fun r => .ok ((), { r with pos := p })
def seekRel (off : Int) : M Unit := fun r =>
  if (r.pos : Int) + off < 0 then .error .ioOther else .ok ((), { r with pos := ((r.pos : Int) + off).toNat })

def fourccOf (s : String) : List Nat := s.toList.map (·.toNat)
def RIFF := fourccOf "RIFF"
def WEBP := fourccOf "WEBP"
def VP8 := fourccOf "VP8 "
def VP8L := fourccOf "VP8L"
def VP8X := fourccOf "VP8X"
def ANIM := fourccOf "ANIM"
def ANMF := fourccOf "ANMF"
def ALPH := fourccOf "ALPH"
def ICCP := fourccOf "ICCP"
def EXIF := fourccOf "EXIF"
def XMP := fourccOf "XMP "
def known : List (List Nat) := [RIFF, WEBP, VP8, VP8L, VP8X, ANIM, ANMF, ALPH, ICCP, EXIF, XMP]

/-- `read_chunk_header`: (fourcc, size, size rounded up to even — saturating in u32) -/
def readChunkHeader : M (List Nat × Nat × Nat) := fun r =>
  match readExact 4 r with
  | .error e => .error e
  | .ok (cc, r) =>
    match readLE 4 r with
    | .error e => .error e
    | .ok (size, r) => .ok ((cc, size, min (size + size % 2) (2 ^ 32 - 1)), r)

abbrev Chunks := List (List Nat × Nat × Nat)     -- fourcc ↦ (start, end)

def Chunks.get? (c : Chunks) (k : List Nat) : Option (Nat × Nat) := (c.find? (·.1 == k)).map (·.2)
def Chunks.orInsert (c : Chunks) (k : List Nat) (v : Nat × Nat) : Chunks :=
  if (c.get? k).isSome then c else c ++ [(k, v)]
def Chunks.has (c : Chunks) (k : List Nat) : Bool := (c.get? k).isSome

structure Info where
  width : Nat
  height : Nat
  extended : Bool
  animation : Bool
  isLossy : Bool
  hasAlpha : Bool
  numFrames : Nat
  loopCount : Nat              -- 0 = forever (only meaningful when animated); default Times(1)
  loopDuration : Nat
  background : List Nat         -- the four ANIM bytes as the decoder stores them (R,G,B,A)
  chunks : Chunks
  nextFrameStart : Nat
deriving Repr

/-- state of the VP8X scan loop -/
structure Scan where
  position : Nat
  chunks : Chunks
  numFrames : Nat
  loopDuration : Nat
  isLossy : Bool
deriving Repr

/-- one iteration of the VP8X scan loop; `none` = the loop `break`s (EOF while reading a header) -/
def scanStep (s : Scan) : M (Option Scan) := fun r =>
  match readChunkHeader r with
  | .error .ioEof => .ok (none, r)
  | .error e => .error e
  | .ok ((cc, size, rounded), r) =>
    let range := (s.position + 8, s.position + 8 + size)
    let chunks := if known.contains cc then s.chunks.orInsert cc range else s.chunks
    let s' := { s with position := s.position + 8 + rounded, chunks := chunks }
    if cc == ANMF then
      if size < 24 then .error .invalidChunkSize else
      match seekRel 12 r with
      | .error e => .error e
      | .ok (_, r) =>
        match readLE 4 r with
        | .error e => .error e
        | .ok (d, r) =>
          let s' := { s' with numFrames := s.numFrames + 1, loopDuration := (s.loopDuration + d % 2 ^ 24) % 2 ^ 64 }
          if !s.isLossy then
            match readChunkHeader r with
            | .error e => .error e
            | .ok ((sub, _, _), r) =>
              let s' := { s' with isLossy := sub == VP8 || sub == ALPH }
              match seekRel ((rounded : Int) - 24) r with
              | .error e => .error e
              | .ok (_, r) => .ok (some s', r)
          else
            match seekRel ((rounded : Int) - 16) r with
            | .error e => .error e
            | .ok (_, r) => .ok (some s', r)
    else
      match seekRel rounded r with
      | .error e => .error e
      | .ok (_, r) => .ok (some s', r)

/-- the scan loop `while position < max_position`; fuel = an upper bound on the iterations
    (every iteration advances `position` by at least 8) -/
def scanLoop (maxPosition : Nat) : Nat → Scan → M Scan
  | 0, s => fun r => .ok (s, r)
  | fuel + 1, s => fun r =>
    if s.position < maxPosition then
      match scanStep s r with
      | .error e => .error e
      | .ok (none, r) => .ok (s, r)
      | .ok (some s', r) => scanLoop maxPosition fuel s' r
    else .ok (s, r)

/-- `read_chunk`: the size test comes before any allocation or I/O -/
def readChunk (chunks : Chunks) (k : List Nat) (maxSize : Nat) : M (Option (List Nat)) := fun r =>
  match chunks.get? k with
  | none => .ok (none, r)
  | some (s, e) =>
    if e - s > maxSize then .error .memoryLimitExceeded else
    match readExact (e - s) { r with pos := s } with
    | .error err => .error err
    | .ok (bs, r) => .ok (some bs, r)

/-- registration of the first frame's sub-chunks (at most two) -/
def firstFrameSubchunks (rangeStart rangeEnd : Nat) (chunks : Chunks) : M Chunks := fun r =>
  let position := rangeStart + 16
  match readChunkHeader { r with pos := position } with
  | .error e => .error e
  | .ok ((cc, size, rounded), r) =>
    let chunks := chunks.orInsert cc (position + 8, position + 8 + size)
    let position := position + 8 + rounded
    if position + 8 > rangeEnd then .ok (chunks, r) else
    match readChunkHeader { r with pos := position } with
    | .error e => .error e
    | .ok ((cc, size, _), r) => .ok (chunks.orInsert cc (position + 8, position + 8 + size), r)

def emptyInfo : Info :=
  { width := 0, height := 0, extended := false, animation := false, isLossy := false, hasAlpha := false,
    numFrames := 0, loopCount := 1, loopDuration := 0, background := [0, 0, 0, 0], chunks := [], nextFrameStart := 0 }

/-- the `VP8L` arm of `read_data`: signature byte, then the 32-bit header word -/
def vp8lInfo (start size : Nat) : M Info := fun r =>
  match readU8 r with
  | .error e => .error e
  | .ok (sig, r) =>
  if sig != 0x2f then .error .losslessSignatureInvalid else
  match readLE 4 r with
  | .error e => .error e
  | .ok (header, r) =>
  if header / 2 ^ 29 != 0 then .error .versionNumberInvalid else
  .ok ({ emptyInfo with width := header % 2 ^ 14 + 1, height := header / 2 ^ 14 % 2 ^ 14 + 1,
                        hasAlpha := header / 2 ^ 28 % 2 == 1, chunks := [(VP8L, (start, start + size))] }, r)

/-- `read_data` (= `WebPDecoder::new`) -/
def readData : M Info := fun r =>
  match readChunkHeader r with
  | .error e => .error e
  | .ok ((cc, riffSize, _), r) =>
  if cc != RIFF then .error (.chunkHeaderInvalid RIFF) else
  match readExact 4 r with
  | .error e => .error e
  | .ok (sig, r) =>
  if sig != WEBP then .error .webpSignatureInvalid else
  match readChunkHeader r with
  | .error e => .error e
  | .ok ((chunk, size, rounded), r) =>
  let start := r.pos
  if chunk == VP8 then
    match readLE 3 r with
    | .error e => .error e
    | .ok (tag, r) =>
    if tag % 2 != 0 then .error .unsupportedFeature else
    match readExact 3 r with
    | .error e => .error e
    | .ok (magic, r) =>
    if magic != [0x9d, 0x01, 0x2a] then .error .vp8MagicInvalid else
    match readLE 2 r with
    | .error e => .error e
    | .ok (w, r) =>
    match readLE 2 r with
    | .error e => .error e
    | .ok (h, r) =>
    if w % 2 ^ 14 = 0 || h % 2 ^ 14 = 0 then .error .inconsistentImageSizes else
    .ok ({ emptyInfo with width := w % 2 ^ 14, height := h % 2 ^ 14, isLossy := true,
                          chunks := [(VP8, (start, start + size))] }, r)
  else if chunk == VP8L then
    vp8lInfo start size r
  else if chunk == VP8X then
    match readU8 r with
    | .error e => .error e
    | .ok (flags, r) =>
    match readLE 3 r with
    | .error e => .error e
    | .ok (_, r) =>
    match readLE 3 r with
    | .error e => .error e
    | .ok (w1, r) =>
    match readLE 3 r with
    | .error e => .error e
    | .ok (h1, r) =>
    let cw := w1 + 1
    let ch := h1 + 1
    if cw * ch ≥ 2 ^ 32 then .error .imageTooLarge else
    let icc : Bool := flags / 32 % 2 == 1
    let alpha : Bool := flags / 16 % 2 == 1
    let exif : Bool := flags / 8 % 2 == 1
    let xmp : Bool := flags / 4 % 2 == 1
    let animation : Bool := flags / 2 % 2 == 1
    let position := start + rounded
    let maxPosition := position + (riffSize - 12)
    match scanLoop maxPosition (r.data.length + 1) { position := position, chunks := [], numFrames := 0, loopDuration := 0, isLossy := false } { r with pos := position } with
    | .error e => .error e
    | .ok (s, r) =>
    let chunks := s.chunks
    let isLossy := s.isLossy || chunks.has VP8
    if (animation && (!chunks.has ANIM || !chunks.has ANMF)) || (icc && !chunks.has ICCP)
        || (exif && !chunks.has EXIF) || (xmp && !chunks.has XMP)
        || (!animation && (chunks.has VP8 == chunks.has VP8L)) then .error .chunkMissing else
    let base : Info :=
      { width := cw, height := ch, extended := true, animation := animation, isLossy := isLossy,
        hasAlpha := alpha, numFrames := s.numFrames, loopCount := 1, loopDuration := s.loopDuration,
        background := [0, 0, 0, 0], chunks := chunks, nextFrameStart := 0 }
    -- ANIM chunk
    let animR : Except Err (Info × Reader) :=
      if animation then
        match readChunk chunks ANIM 6 r with
        | .error .memoryLimitExceeded => .error .invalidChunkSize
        | .error e => .error e
        | .ok (none, _) => .error .chunkMissing
        | .ok (some bs, r) =>
          if bs.length < 6 then .error .ioEof else
          .ok ({ base with background := [bs.getD 2 0, bs.getD 1 0, bs.getD 0 0, bs.getD 3 0],
                           loopCount := bs.getD 4 0 + 256 * bs.getD 5 0,
                           nextFrameStart := ((chunks.get? ANMF).map (·.1)).getD 8 - 8 }, r)
      else .ok (base, r)
    match animR with
    | .error e => .error e
    | .ok (info, r) =>
    match chunks.get? ANMF with
    | none => .ok (info, r)
    | some (s0, e0) =>
      match firstFrameSubchunks s0 e0 info.chunks r with
      | .error e => .error e
      | .ok (chunks', r) => .ok ({ info with chunks := chunks' }, r)
  else .error (.chunkHeaderInvalid chunk)

/-- `output_buffer_size` (on a 64-bit target the products cannot overflow `usize`) -/
def outputBufferSize (i : Info) : Nat := i.width * i.height * (if i.hasAlpha then 4 else 3)

def openFile (bytes : List Nat) : Except Err Info :=
  match readData { data := bytes, pos := 0 } with
  | .ok (i, _) => .ok i
  | .error e => .error e

/-- a metadata accessor (`icc_profile`, `exif_metadata`, `xmp_metadata`) with a memory limit -/
def metadata (bytes : List Nat) (i : Info) (k : List Nat) (limit : Nat) : Except Err (Option (List Nat)) :=
  match readChunk i.chunks k limit { data := bytes, pos := 0 } with
  | .ok (v, _) => .ok v
  | .error e => .error e

end Container
