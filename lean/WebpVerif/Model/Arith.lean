/-
Model of /repo/src/vp8_arithmetic_decoder.rs (import-free).

`Dec` = `ArithmeticDecoder`: 4-byte chunks, the 0..3 trailing bytes, the register `State`.
The u64 `value` register is a `Nat` kept below 2^64 by explicit truncation wherever the Rust
code shifts left (Rust checks the shift *amount*, never lost high bits).  `range` is u32,
`bit_count` i32, `final_bytes_remaining` i8 — all far from their limits (see the invariant
theorems), so they are plain `Nat`/`Int`.
-/
namespace Arith

structure State where
  chunkIndex : Nat
  value : Nat
  range : Nat
  bitCount : Int
deriving DecidableEq, Repr

structure Dec where
  chunks : Array Nat          -- each chunk as its big-endian u32 value
  state : State
  finalBytes : List Nat       -- always 3 entries
  finalBytesRemaining : Int
deriving Repr

def EOF : Int := -14   -- FINAL_BYTES_REMAINING_EOF = -0xE

def u64 (n : Nat) : Nat := n % 2 ^ 64

def be32 (b0 b1 b2 b3 : Nat) : Nat := ((b0 * 256 + b1) * 256 + b2) * 256 + b3

/-- full 4-byte chunks of `data` (as big-endian numbers) and the 0..3 trailing bytes -/
def splitChunks : List Nat → Array Nat → Array Nat × List Nat
  | b0 :: b1 :: b2 :: b3 :: rest, acc => splitChunks rest (acc.push (be32 b0 b1 b2 b3))
  | tail, acc => (acc, tail)

def initState : State := { chunkIndex := 0, value := 0, range := 255, bitCount := -8 }

/-- `ArithmeticDecoder::new` (no data: every read is past the end) -/
def new : Dec := { chunks := #[], state := initState, finalBytes := [0, 0, 0], finalBytesRemaining := EOF }

/-- `init(buf, len)` as `Vp8Decoder` calls it: `buf` = `data` zero-padded to whole chunks -/
def init (data : List Nat) : Dec :=
  let (chunks, tail) := splitChunks data #[]
  { chunks := chunks, state := initState,
    finalBytes := (tail ++ [0, 0, 0]).take 3,
    finalBytesRemaining := tail.length }

def isPastEof (d : Dec) : Bool := d.finalBytesRemaining == EOF

/-- `load_from_final_bytes` -/
def loadFromFinalBytes (d : Dec) : Dec :=
  if d.finalBytesRemaining ≥ 1 then
    let byte := d.finalBytes.headD 0
    { d with finalBytesRemaining := d.finalBytesRemaining - 1,
             finalBytes := d.finalBytes.tail ++ [byte],
             state := { d.state with value := u64 (d.state.value <<< 8) ||| byte,
                                     bitCount := d.state.bitCount + 8 } }
  else if d.finalBytesRemaining = 0 then
    { d with finalBytesRemaining := -1,
             state := { d.state with value := u64 (d.state.value <<< 8),
                                     bitCount := d.state.bitCount + 8 } }
  else { d with finalBytesRemaining := EOF }

/-- `range.leading_zeros().saturating_sub(24)` for a u32 `range` -/
def normShift (range : Nat) : Nat :=
  if range ≥ 256 then 0
  else if range ≥ 128 then 0 else if range ≥ 64 then 1 else if range ≥ 32 then 2
  else if range ≥ 16 then 3 else if range ≥ 8 then 4 else if range ≥ 4 then 5
  else if range ≥ 2 then 6 else if range ≥ 1 then 7 else 8

/-- the decision and renormalisation shared by every bit read, given `split` -/
def decide (s : State) (split : Nat) (rangeIfTrue : Nat) : Bool × State :=
  if s.value ≥ split <<< s.bitCount.toNat then
    (true, { chunkIndex := s.chunkIndex, value := s.value - split <<< s.bitCount.toNat,
             range := rangeIfTrue <<< normShift rangeIfTrue, bitCount := s.bitCount - (normShift rangeIfTrue : Int) })
  else
    (false, { chunkIndex := s.chunkIndex, value := s.value,
              range := split <<< normShift split, bitCount := s.bitCount - (normShift split : Int) })

def splitOf (range prob : Nat) : Nat := 1 + (((range - 1) * prob) >>> 8)

/-- the part of `cold_read_bit` after the loading step -/
def coldDecide (d : Dec) (prob : Nat) : Bool × Dec :=
  let r := decide d.state (splitOf d.state.range prob) (d.state.range - splitOf d.state.range prob)
  (r.1, { d with state := r.2 })

/-- `cold_read_bit` -/
def coldReadBit (d : Dec) (prob : Nat) : Bool × Dec :=
  if d.state.bitCount < 0 then
    match d.chunks[d.state.chunkIndex]? with
    | some v =>
      coldDecide { d with state := { d.state with chunkIndex := d.state.chunkIndex + 1,
                                                   value := u64 (d.state.value <<< 32) ||| v,
                                                   bitCount := d.state.bitCount + 32 } } prob
    | none =>
      let d := loadFromFinalBytes d
      if isPastEof d then (false, d)   -- `BitResult::err()`: the default value
      else coldDecide d prob
  else coldDecide d prob

/-- the chunk load of the `fast_` functions: missing chunks read as zero, index still advances -/
def fastLoad (chunks : Array Nat) (s : State) : State :=
  if s.bitCount < 0 then
    { s with chunkIndex := s.chunkIndex + 1,
             value := u64 (s.value <<< 32) ||| (chunks[s.chunkIndex]?.getD 0),
             bitCount := s.bitCount + 32 }
  else s

/-- `fast_read_bit` -/
def fastReadBit (chunks : Array Nat) (s : State) (prob : Nat) : Bool × State :=
  decide (fastLoad chunks s) (splitOf (fastLoad chunks s).range prob)
    ((fastLoad chunks s).range - splitOf (fastLoad chunks s).range prob)

/-- `fast_read_flag`: `split = range - range / 2`, true branch keeps `range / 2` -/
def fastReadFlag (chunks : Array Nat) (s : State) : Bool × State :=
  decide (fastLoad chunks s) ((fastLoad chunks s).range - (fastLoad chunks s).range / 2)
    ((fastLoad chunks s).range / 2)

/-- `commit_if_valid` -/
def commitIfValid (d : Dec) (s : State) (v : α) : Option (α × Dec) :=
  if s.chunkIndex ≤ d.chunks.size then some (v, { d with state := s }) else none

def u8 (n : Nat) : Nat := n % 256

/-- `fast_read_literal` / `cold_read_literal` bodies: `v = (v << 1) + b` in u8 -/
def fastReadLiteral (chunks : Array Nat) : Nat → State → Nat → Nat × State
  | 0, s, v => (v, s)
  | n + 1, s, v =>
    let r := fastReadFlag chunks s
    fastReadLiteral chunks n r.2 (u8 (v <<< 1) + r.1.toNat)

def coldReadLiteral : Nat → Dec → Nat → Nat × Dec
  | 0, d, v => (v, d)
  | n + 1, d, v =>
    let r := coldReadBit d 128
    coldReadLiteral n r.2 (u8 (v <<< 1) + r.1.toNat)

/-- a tree node as built by `tree_nodes_from` -/
structure Node where
  left : Nat
  right : Nat
  prob : Nat
deriving Repr, DecidableEq

/-- `TreeNode::prepare_branch` -/
def prepareBranch (t : Int) : Nat := if t > 0 then t.toNat / 2 else 128 ||| (-t).toNat

/-- `tree_nodes_from` -/
def treeNodesFrom : List Int → List Nat → List Node
  | l :: r :: ts, p :: ps => { left := prepareBranch l, right := prepareBranch r, prob := p } :: treeNodesFrom ts ps
  | _, _ => []

/-- `value_from_branch` -/
def valueFromBranch (t : Nat) : Nat := t % 128

/-- `fast_read_with_tree` (fuel = an upper bound on the depth; the crate's trees are acyclic) -/
def fastReadTree (chunks : Array Nat) (tree : Array Node) : Nat → State → Node → Option (Nat × State)
  | 0, _, _ => none
  | fuel + 1, s, node =>
    let r := fastReadBit chunks s node.prob
    match tree[if r.1 then node.right else node.left]? with
    | none => some (valueFromBranch (if r.1 then node.right else node.left), r.2)
    | some nx => fastReadTree chunks tree fuel r.2 nx

/-- `cold_read_with_tree` -/
def coldReadTree (tree : Array Node) : Nat → Dec → Nat → Option (Nat × Dec)
  | 0, _, _ => none
  | fuel + 1, d, index =>
    match tree[index]? with
    | none => none   -- `tree[index]` would panic; unreachable: indices come from `< tree.len()` tests
    | some node =>
      let r := coldReadBit d node.prob
      if (if r.1 then node.right else node.left) < tree.size
      then coldReadTree tree fuel r.2 (if r.1 then node.right else node.left)
      else some (valueFromBranch (if r.1 then node.right else node.left), r.2)

/-- the public entry points: speculative fast path, else the cold path -/
def readBool (d : Dec) (prob : Nat) : Bool × Dec :=
  let f := fastReadBit d.chunks d.state prob
  match commitIfValid d f.2 f.1 with
  | some r => r
  | none => coldReadBit d prob

def readFlag (d : Dec) : Bool × Dec :=
  let f := fastReadFlag d.chunks d.state
  match commitIfValid d f.2 f.1 with
  | some r => r
  | none => coldReadBit d 128

def readLiteral (d : Dec) (n : Nat) : Nat × Dec :=
  let f := fastReadLiteral d.chunks n d.state 0
  match commitIfValid d f.2 f.1 with
  | some r => r
  | none => coldReadLiteral n d 0

def signedOf (sign : Bool) (mag : Nat) : Int := if sign then -(mag : Int) else mag

def fastReadSigned (chunks : Array Nat) (s : State) (n : Nat) : Int × State :=
  let f := fastReadFlag chunks s
  if !f.1 then (0, f.2) else
  let m := fastReadLiteral chunks n f.2 0
  let g := fastReadFlag chunks m.2
  (signedOf g.1 m.1, g.2)

def coldReadSigned (d : Dec) (n : Nat) : Int × Dec :=
  let f := coldReadBit d 128
  if !f.1 then (0, f.2) else
  let m := coldReadLiteral n f.2 0
  let g := coldReadBit m.2 128
  (signedOf g.1 m.1, g.2)

def readOptionalSigned (d : Dec) (n : Nat) : Int × Dec :=
  let f := fastReadSigned d.chunks d.state n
  match commitIfValid d f.2 f.1 with
  | some r => r
  | none => coldReadSigned d n

/-- `read_with_tree`; `none` only if the fuel (tree size + 1) runs out or an index is invalid,
    which the tree lemmas exclude for the crate's trees -/
def readWithTree (d : Dec) (tree : Array Node) : Option (Nat × Dec) :=
  match tree[0]? with
  | none => none
  | some first =>
    match fastReadTree d.chunks tree (tree.size + 1) d.state first with
    | none => none
    | some r =>
      match commitIfValid d r.2 r.1 with
      | some r => some r
      | none => coldReadTree tree (tree.size + 1) d 0

/-- one request of a read program -/
inductive Req where
  | bool (p : Nat) | flag | literal (n : Nat) | signed (n : Nat) | tree (t : List Int) (probs : List Nat)
deriving Repr

/-- answer to one request: the value (as an integer) -/
def step (d : Dec) : Req → Option (Int × Dec)
  | .bool p => let (b, d) := readBool d p; some (b.toNat, d)
  | .flag => let (b, d) := readFlag d; some (b.toNat, d)
  | .literal n => let (v, d) := readLiteral d n; some (v, d)
  | .signed n => let (v, d) := readOptionalSigned d n; some (v, d)
  | .tree t ps => (readWithTree d (treeNodesFrom t ps).toArray).map fun (v, d) => ((v : Int), d)

/-- run a program; after every request also report `is_past_eof` (what `check` tests) -/
def run (d : Dec) : List Req → List (Int × Bool)
  | [] => []
  | r :: rs =>
    match step d r with
    | none => []
    | some (v, d) => (v, isPastEof d) :: run d rs

end Arith
