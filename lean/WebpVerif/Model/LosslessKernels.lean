import WebpVerif.Gen.Tables
/-
Models of the leaf kernels of /repo/src/lossless.rs and /repo/src/lossless_transform.rs
(import-free apart from the regenerated tables): LZ77 prefix decoding, the distance map, the
colour cache hash, and the per-channel bodies of the 14 predictors, the colour transform and
subtract-green.  Bytes are `Nat < 256`; `i16`/`i32` intermediates are `Int`.
-/
namespace LK

/-- `get_copy_distance(prefix_code)` given the `extra_bits` read: (extra bit count, value) -/
def copyExtraBits (prefixCode : Nat) : Nat := if prefixCode < 4 then 0 else (prefixCode - 2) / 2
def copyValue (prefixCode bits : Nat) : Nat :=
  if prefixCode < 4 then prefixCode + 1
  else (2 + prefixCode % 2) * 2 ^ ((prefixCode - 2) / 2) + bits + 1

/-- `plane_code_to_distance(xsize, plane_code)` with the crate's `DISTANCE_MAP` -/
def planeCodeToDistance (xsize planeCode : Nat) : Nat :=
  if planeCode > 120 then planeCode - 120
  else
    let e := Gen.Tables.DISTANCE_MAP.getD (planeCode - 1) []
    let dist : Int := e.getD 0 0 + e.getD 1 0 * xsize
    if dist < 1 then 1 else dist.toNat

/-- `ColorCache::insert` index: `(0x1e35a7bd * (r<<16 | g<<8 | b | a<<24)) >> (32 - bits)` in u32 -/
def cacheIndex (r g b a bits : Nat) : Nat :=
  ((0x1e35a7bd * (r * 2 ^ 16 + g * 2 ^ 8 + b + a * 2 ^ 24)) % 2 ^ 32) / 2 ^ (32 - bits)

/-- `average2` -/
def average2 (a b : Nat) : Nat := (a + b) / 2
/-- `clamp_add_subtract_full(a, b, c)`: `(a + b - c).max(0).min(255) as u8` -/
def clampAddSubFull (a b c : Nat) : Nat := (min (max ((a : Int) + b - c) 0) 255).toNat
/-- `clamp_add_subtract_half(a, b)`: `(a + (a - b) / 2).max(0).min(255)`, i16 division truncates -/
def clampAddSubHalf (a b : Nat) : Nat := (min (max ((a : Int) + Int.tdiv ((a : Int) - b) 2) 0) 255).toNat
/-- the operand the code passes for predictor 13: `(prev + t) / 2` in i16 -/
def half13 (prev t : Nat) : Nat := (prev + t) / 2

/-- predictor 11 (select): `predict_left < predict_top` decides, summed over the four channels -/
def selectLeft (l t tl : List Nat) : Bool :=
  let pl := ((List.range 4).map fun i => (((l.getD i 0 : Int) + t.getD i 0 - tl.getD i 0) - l.getD i 0).natAbs).sum
  let pt := ((List.range 4).map fun i => (((l.getD i 0 : Int) + t.getD i 0 - tl.getD i 0) - t.getD i 0).natAbs).sum
  pl < pt

/-- `color_transform_delta(t, c) = ((t as i8 as i32) * (c as i8 as i32)) as u32 >> 5`, and its use:
    `temp += delta; pixel = temp & 0xff` — only the low 8 bits of the (wrapping) sum matter -/
def toI8 (v : Nat) : Int := if v < 128 then v else (v : Int) - 256
def colorDeltaU32 (t c : Nat) : Nat := ((toI8 t * toI8 c) % 2 ^ 32).toNat / 32
def addDelta (x t c : Nat) : Nat := (x + colorDeltaU32 t c) % 256

/-- subtract-green inverse: `wrapping_add` -/
def addGreen (x g : Nat) : Nat := (x + g) % 256

end LK
