/-
Model of the pixel loop of `LosslessDecoder::decode_image_data` (/repo/src/lossless.rs) at the
level of decoded symbols (import-free).

The entropy decoding (`HuffmanTree::read_symbol`, `get_copy_distance`, `plane_code_to_distance`)
is abstracted: the loop consumes a list of *operations* - what the green symbol and its
companions decode to.  Everything else follows the code: the block bookkeeping
(`next_block_start`, the group lookup per block), the single-symbol fast path that fills the rest
of the block, literals, backward references with their three copy strategies (run fill for
distance 1, 16-byte `copy_within` chunks stepping by `min(dist·4, 16)` bytes, byte loop near the
end of the image), the colour cache with its insertion points (none for distance-1 copies, one per
fast-path fill), the speculative second cache symbol, and the two bounds tests.

Pixels are natural numbers (the four bytes as one ARGB value); `data` is the pixel buffer.
-/
namespace LLoop

/-- what one decoded green symbol (with its companions) means -/
inductive Op where
  | lit (v : Nat)                 -- green < 256: a literal pixel
  | back (len dist : Nat)         -- 256 ≤ green < 280: copy `len` pixels from `dist` pixels back
  | cache (k : Nat)               -- green ≥ 280: colour-cache entry `k`
deriving Repr, DecidableEq

/-- `ColorCache::insert` key: `(0x1e35a7bd * argb) >> (32 - bits)` in u32 -/
def hashOf (bits v : Nat) : Nat := (0x1e35a7bd * v) % 2 ^ 32 / 2 ^ (32 - bits)

structure Cfg where
  width : Nat
  height : Nat
  bits : Nat                       -- `huffman_info.bits` (0 = one group)
  mask : Nat                       -- `huffman_info.mask` = 2^bits − 1 (0 when bits = 0)
  xsize : Nat                      -- width of the meta image
  image : Array Nat                -- meta image: group index per block
  single : Array (Option Nat)      -- per group: the pixel if all four codes are single-symbol and green < 256
  cacheBits : Nat                  -- 0 = no colour cache

structure St where
  data : Array Nat
  index : Nat
  cache : Array Nat
  nbs : Nat                        -- `next_block_start`
  group : Nat                      -- the current `tree`
deriving Repr

def insert (c : Cfg) (cache : Array Nat) (v : Nat) : Array Nat :=
  if c.cacheBits = 0 then cache else cache.setIfInBounds (hashOf c.cacheBits v) v

/-- `get_huff_index` -/
def huffIndex (c : Cfg) (x y : Nat) : Nat :=
  if c.bits = 0 then 0 else c.image[(y >>> c.bits) * c.xsize + (x >>> c.bits)]!

/-- `for i in 0..n { data[index + i] = value }` -/
def fill (d : Array Nat) (start n v : Nat) : Array Nat :=
  (List.range n).foldl (fun d i => d.setIfInBounds (start + i) v) d

/-- `data.copy_within(src..src+16, dst)` in pixels: four pixels, read before written (memmove) -/
def copy4 (d : Array Nat) (src dst : Nat) : Array Nat :=
  (((d.setIfInBounds dst d[src]!).setIfInBounds (dst + 1) d[src + 1]!).setIfInBounds (dst + 2) d[src + 2]!).setIfInBounds
    (dst + 3) d[src + 3]!

/-- the chunk loop `for i in (0..length*4).step_by((dist*4).min(16)).skip(1)`: offsets
    `k·s` pixels for `k = 1, 2, …` while `k·s < len`, `s = min(dist, 4)` -/
def chunkLoop (index dist s len : Nat) : Nat → Nat → Array Nat → Array Nat
  | 0, _, d => d
  | fuel + 1, k, d =>
    if k * s < len then chunkLoop index dist s len fuel (k + 1) (copy4 d (index - dist + k * s) (index + k * s)) else d

/-- the byte loop near the end of the image, pixel by pixel in ascending order -/
def slowCopy (d : Array Nat) (index dist : Nat) : Nat → Array Nat
  | 0 => d
  | len + 1 => (slowCopy d index dist len).setIfInBounds (index + len) (slowCopy d index dist len)[index + len - dist]!

/-- the copy of a backward reference with `dist ≥ 2` -/
def copyFar (d : Array Nat) (n index dist len : Nat) : Array Nat :=
  if index + len + 3 ≤ n then
    let d1 := copy4 d (index - dist) index
    if len > 4 ∨ dist < 4 then chunkLoop index dist (min dist 4) len len 1 d1 else d1
  else slowCopy d index dist len

/-- inserting the pixels `data[index .. index+len)` into the cache, in order -/
def insertRange (c : Cfg) (cache d : Array Nat) (index len : Nat) : Array Nat :=
  (List.range len).foldl (fun ca i => insert c ca d[index + i]!) cache

inductive Res where
  | ok (d : Array Nat)
  | bitstreamError
  | outOfOps                      -- the op list ended early (the bit stream would be read further)
  | panic (why : String)
deriving Repr, DecidableEq

/-- one iteration that reads symbols (the part of the loop body after the fast-path test);
    `k` is the rest of the loop -/
def opStep (c : Cfg) (k : St → List Op → Res) (s : St) (nbs group : Nat) (ops : List Op) : Res :=
  let n := c.width * c.height
  match ops with
  | [] => .outOfOps
  | .lit v :: rest =>
    k { data := s.data.setIfInBounds s.index v, index := s.index + 1, cache := insert c s.cache v, nbs := nbs, group := group } rest
  | .back len dist :: rest =>
    if s.index < dist ∨ n - s.index < len then .bitstreamError else
    if dist = 1 then
      k { data := fill s.data s.index len s.data[s.index - 1]!, index := s.index + len, cache := s.cache, nbs := nbs, group := group } rest
    else
      k { data := copyFar s.data n s.index dist len, index := s.index + len,
          cache := insertRange c s.cache (copyFar s.data n s.index dist len) s.index len, nbs := nbs, group := group } rest
  | .cache k1 :: rest =>
    if c.cacheBits = 0 then .bitstreamError else
    if k1 ≥ s.cache.size then .panic "cache index" else
    -- the speculative second cache symbol of the same block
    match rest with
    | .cache k2 :: rest2 =>
      if s.index + 1 < nbs then
        if k2 ≥ (insert c s.cache s.cache[k1]!).size then .panic "cache index" else
        k { data := (s.data.setIfInBounds s.index s.cache[k1]!).setIfInBounds (s.index + 1) (insert c s.cache s.cache[k1]!)[k2]!,
            index := s.index + 1 + 1,
            cache := insert c (insert c s.cache s.cache[k1]!) (insert c s.cache s.cache[k1]!)[k2]!, nbs := nbs, group := group } rest2
      else k { data := s.data.setIfInBounds s.index s.cache[k1]!, index := s.index + 1, cache := insert c s.cache s.cache[k1]!, nbs := nbs, group := group } rest
    | _ => k { data := s.data.setIfInBounds s.index s.cache[k1]!, index := s.index + 1, cache := insert c s.cache s.cache[k1]!, nbs := nbs, group := group } rest

/-- the single-symbol fast path: no bits are read, the rest of the block is filled -/
def fastStep (c : Cfg) (k : St → List Op → Res) (s : St) (nbs group v : Nat) (ops : List Op) : Res :=
  let n := c.width * c.height
  let cnt := if c.bits = 0 then n else nbs - s.index
  if s.index + cnt > s.data.size then .panic "fast path: slice out of range" else
  k { data := fill s.data s.index cnt v, index := s.index + cnt, cache := insert c s.cache v, nbs := nbs, group := group } (ops.drop cnt)

def nbsOf (c : Cfg) (index : Nat) : Nat := min (index % c.width ||| c.mask) (c.width - 1) + index / c.width * c.width + 1

/-- the loop `while index < num_values`; fuel = an upper bound on the iterations -/
def run (c : Cfg) : Nat → St → List Op → Res
  | 0, _, _ => .panic "fuel"
  | fuel + 1, s, ops =>
    if s.index < c.width * c.height then
      if s.index ≥ s.nbs then
        -- a new block: look the group up; all four codes single-symbol => fast path
        match (c.single[huffIndex c (s.index % c.width) (s.index / c.width)]?).join with
        | some v => fastStep c (run c fuel) s (nbsOf c s.index) (huffIndex c (s.index % c.width) (s.index / c.width)) v ops
        | none => opStep c (run c fuel) s (nbsOf c s.index) (huffIndex c (s.index % c.width) (s.index / c.width)) ops
      else opStep c (run c fuel) s s.nbs s.group ops
    else .ok s.data

def initSt (c : Cfg) (init : Array Nat) : St :=
  { data := init, index := 0, cache := Array.replicate (if c.cacheBits = 0 then 0 else 2 ^ c.cacheBits) 0, nbs := 0, group := huffIndex c 0 0 }

/-- `decode_image_data` on a buffer with arbitrary previous contents -/
def decode (c : Cfg) (init : Array Nat) (ops : List Op) : Res :=
  run c (c.width * c.height + 1) (initSt c init) ops

/-! ### the specification: one pixel at a time (lossless specification, section 5.2) -/

/-- LZ77 replicating copy -/
def specCopy (c : Cfg) (d cache : Array Nat) (index dist : Nat) : Nat → Array Nat × Array Nat
  | 0 => (d, cache)
  | len + 1 =>
    let r := specCopy c d cache index dist len
    let v := r.1[index + len - dist]!
    (r.1.setIfInBounds (index + len) v, insert c r.2 v)

def specRun (c : Cfg) : List Op → Array Nat → Nat → Array Nat → Res
  | [], d, index, _ => if index < c.width * c.height then .outOfOps else .ok d
  | op :: rest, d, index, cache =>
    let n := c.width * c.height
    if index ≥ n then .ok d else
    match op with
    | .lit v => specRun c rest (d.setIfInBounds index v) (index + 1) (insert c cache v)
    | .back len dist =>
      if index < dist ∨ n - index < len then .bitstreamError else
      let r := specCopy c d cache index dist len
      specRun c rest r.1 (index + len) r.2
    | .cache k =>
      if c.cacheBits = 0 then .bitstreamError else
      if k ≥ cache.size then .panic "cache index" else
      specRun c rest (d.setIfInBounds index cache[k]!) (index + 1) (insert c cache cache[k]!)

def specDecode (c : Cfg) (init : Array Nat) (ops : List Op) : Res :=
  specRun c ops init 0 (Array.replicate (if c.cacheBits = 0 then 0 else 2 ^ c.cacheBits) 0)

/-! ### consistency of an operation list with the single-symbol groups

In a group whose four codes are single-symbol (green < 256) every symbol decodes to that one
literal.  `cons` states this for an operation list along the decoder's walk (same block
bookkeeping as `run`), plus the ranges the entropy decoding guarantees (`len ≥ 1`, `dist ≥ 1`). -/

def consOps (c : Cfg) (k : Nat → Nat → List Op → Bool) (index nbs : Nat) (ops : List Op) : Bool :=
  let n := c.width * c.height
  match ops with
  | [] => true
  | .lit _ :: rest => k (index + 1) nbs rest
  | .back len dist :: rest =>
    decide (1 ≤ len) && decide (1 ≤ dist) && (if index < dist ∨ n - index < len then true else k (index + len) nbs rest)
  | .cache _ :: rest => k (index + 1) nbs rest

def cons (c : Cfg) : Nat → Nat → Nat → List Op → Bool
  | 0, _, _, _ => true
  | fuel + 1, index, nbs0, ops =>
    let n := c.width * c.height
    if index < n then
      if index ≥ nbs0 then
        match (c.single[huffIndex c (index % c.width) (index / c.width)]?).join with
        | some v =>
          let cnt := if c.bits = 0 then n else nbsOf c index - index
          decide (1 ≤ cnt) && decide (index + cnt ≤ n) && (ops.take cnt == List.replicate cnt (.lit v)) &&
            cons c fuel (index + cnt) (nbsOf c index) (ops.drop cnt)
        | none => consOps c (cons c fuel) index (nbsOf c index) ops
      else consOps c (cons c fuel) index nbs0 ops
    else true

end LLoop
