/-
Model of the non-zero CONTEXT bookkeeping of VP8 coefficient decoding (/repo/src/vp8.rs:
`decode_frame_` - the reset of `left` per macroblock row and the zeroing for skipped macroblocks -
and `read_residual_data` - the `top[mbx].complexity` / `left.complexity` arrays of nine flags:
index 0 = Y2, 1..4 = the four luma columns / rows, 5,6 = U, 7,8 = V).  Import-free.

The decoded "has non-zero coefficients" results `n` of `read_coefficients` are inputs (functions of
the block position); the model computes the `complexity` argument passed to each call.
-/
namespace Vp8Ctx

structure Frame where
  W : Nat                              -- macroblock columns
  H : Nat                              -- macroblock rows
  hasY2 : Nat → Nat → Bool             -- mbx mby: luma_mode != B
  skipped : Nat → Nat → Bool           -- mbx mby: coeffs_skipped
  nY2 : Nat → Nat → Bool               -- mbx mby: result of the Y2 block
  nY : Nat → Nat → Bool                -- luma block column, row (frame-wide): result of that block
  nU : Nat → Nat → Bool                -- chroma block column, row
  nV : Nat → Nat → Bool

def b2n (b : Bool) : Nat := if b then 1 else 0

/-- the nine flags as a total map -/
abbrev Flags := Nat → Bool

def upd (f : Flags) (k : Nat) (v : Bool) : Flags := fun i => if i = k then v else f i

/-- one emitted call: which block, and the `complexity` passed -/
structure Call where
  mbx : Nat
  mby : Nat
  kind : Nat          -- 0 = Y2, 1 = Y, 2 = U, 3 = V
  x : Nat
  y : Nat
  ctx : Nat
deriving Repr, DecidableEq

structure St where
  top : Nat → Flags                    -- per macroblock column
  left : Flags
  out : List Call                      -- calls so far, newest first

/-- the `x` loop of one block row: `n` blocks, flags at `base + x`; `nz x` = the result of block x -/
def rowLoop (mbx mby kind base y : Nat) (nz : Nat → Bool) : Nat → Nat → Flags → Bool → List Call → Flags × Bool × List Call
  | 0, _, t, l, out => (t, l, out)
  | k + 1, x, t, l, out =>
    let c : Call := ⟨mbx, mby, kind, x, y, b2n (t (base + x)) + b2n l⟩
    rowLoop mbx mby kind base y nz k (x + 1) (upd t (base + x) (nz x)) (nz x) (c :: out)

/-- the `y` loop over `n` block rows of `n` blocks; `nz x y` = the result of block (x, y) -/
def gridLoop (mbx mby kind base n : Nat) (nz : Nat → Nat → Bool) : Nat → Nat → Flags → Flags → List Call → Flags × Flags × List Call
  | 0, _, t, lf, out => (t, lf, out)
  | k + 1, y, t, lf, out =>
    let (t', l', out') := rowLoop mbx mby kind base y (fun x => nz x y) n 0 t (lf (base + y)) out
    gridLoop mbx mby kind base n nz k (y + 1) t' (upd lf (base + y) l') out'

/-- one macroblock of `decode_frame_` -/
def mbStep (f : Frame) (mbx mby : Nat) (s : St) : St :=
  let t := s.top mbx
  let lf := s.left
  if f.skipped mbx mby then
    let (t, lf) := if f.hasY2 mbx mby then (upd t 0 false, upd lf 0 false) else (t, lf)
    let t := fun i => if 1 ≤ i ∧ i < 9 then false else t i
    let lf := fun i => if 1 ≤ i ∧ i < 9 then false else lf i
    { top := fun c => if c = mbx then t else s.top c, left := lf, out := s.out }
  else
    let (t, lf, out) :=
      if f.hasY2 mbx mby then
        let c : Call := ⟨mbx, mby, 0, 0, 0, b2n (t 0) + b2n (lf 0)⟩
        (upd t 0 (f.nY2 mbx mby), upd lf 0 (f.nY2 mbx mby), c :: s.out)
      else (t, lf, s.out)
    let (t, lf, out) := gridLoop mbx mby 1 1 4 (fun x y => f.nY (4 * mbx + x) (4 * mby + y)) 4 0 t lf out
    let (t, lf, out) := gridLoop mbx mby 2 5 2 (fun x y => f.nU (2 * mbx + x) (2 * mby + y)) 2 0 t lf out
    let (t, lf, out) := gridLoop mbx mby 3 7 2 (fun x y => f.nV (2 * mbx + x) (2 * mby + y)) 2 0 t lf out
    { top := fun c => if c = mbx then t else s.top c, left := lf, out := out }

/-- the macroblocks `mbx..` of one row -/
def rowMbs (f : Frame) (mby : Nat) : Nat → Nat → St → St
  | 0, _, s => s
  | k + 1, mbx, s => rowMbs f mby k (mbx + 1) (mbStep f mbx mby s)

/-- the rows `mby..`: `self.left = MacroBlock::default()` at the start of each -/
def rows (f : Frame) : Nat → Nat → St → St
  | 0, _, s => s
  | k + 1, mby, s => rows f k (mby + 1) (rowMbs f mby f.W 0 { s with left := fun _ => false })

/-- every call of the frame with its context, in decoding order -/
def run (f : Frame) : List Call :=
  (rows f f.H 0 { top := fun _ _ => false, left := fun _ => false, out := [] }).out.reverse

/-! ### the rule of RFC 6386 section 13.3: the context of a block is the number of its left and
    above neighbours (within the plane, across macroblock borders; outside the frame counts 0) that
    have a non-zero coefficient; a macroblock without coefficients (skipped) counts as all-zero;
    for Y2 the neighbours are the nearest macroblocks to the left / above that HAVE a Y2 block -/

def nzY (f : Frame) (bx by' : Nat) : Bool := if f.skipped (bx / 4) (by' / 4) then false else f.nY bx by'
def nzU (f : Frame) (bx by' : Nat) : Bool := if f.skipped (bx / 2) (by' / 2) then false else f.nU bx by'
def nzV (f : Frame) (bx by' : Nat) : Bool := if f.skipped (bx / 2) (by' / 2) then false else f.nV bx by'
def y2val (f : Frame) (mbx mby : Nat) : Bool := if f.skipped mbx mby then false else f.nY2 mbx mby

def lastLeft (f : Frame) (mby : Nat) : Nat → Bool
  | 0 => false
  | k + 1 => if f.hasY2 k mby then y2val f k mby else lastLeft f mby k

def lastAbove (f : Frame) (mbx : Nat) : Nat → Bool
  | 0 => false
  | k + 1 => if f.hasY2 mbx k then y2val f mbx k else lastAbove f mbx k

def nb (nz : Nat → Nat → Bool) (bx by' : Nat) : Nat :=
  (if bx = 0 then 0 else b2n (nz (bx - 1) by')) + (if by' = 0 then 0 else b2n (nz bx (by' - 1)))

/-- the context the specification assigns to a call -/
def specCtx (f : Frame) (c : Call) : Nat :=
  match c.kind with
  | 0 => b2n (lastAbove f c.mbx c.mby) + b2n (lastLeft f c.mby c.mbx)
  | 1 => nb (nzY f) (4 * c.mbx + c.x) (4 * c.mby + c.y)
  | 2 => nb (nzU f) (2 * c.mbx + c.x) (2 * c.mby + c.y)
  | _ => nb (nzV f) (2 * c.mbx + c.x) (2 * c.mby + c.y)

end Vp8Ctx
