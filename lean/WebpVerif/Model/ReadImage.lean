import WebpVerif.Model.Anim
import WebpVerif.Model.Alpha
import WebpVerif.Model.Yuv
/-
Model of the still-image dispatch of `WebPDecoder::read_image` (decoder.rs) — import-free
(imports only other models).  The payload decoders are taken at their contract: a VP8L stream
decodes to an RGBA image that is a function of the stream alone (C01), a VP8 keyframe to planes
(C02), an ALPH body to (filter, deltas) (C05); what is modelled here is everything around them:
the buffer-size test, the three paths, the alpha-dropping copy, the missing-ALPH case, and the
animated branch through `Anim.readFrame` from a fresh state.
-/
namespace ReadImage
open Blend

inductive Payload where
  /-- decoded VP8L image (RGBA bytes) and the alpha bit of its own header -/
  | lossless (rgba : List Nat) (alphaBit : Bool)
  /-- decoded VP8 planes, and the decoded ALPH chunk if the file has one -/
  | lossy (ybuf ubuf vbuf : List Nat) (alph : Option (Nat × Array Nat))
deriving Repr

structure Still where
  w : Nat
  h : Nat
  payload : Payload
deriving Repr

inductive Wrapping where
  | simple
  | extended (alphaFlag : Bool)
  | anim1 (alphaFlag : Bool) (bgFile : List Nat)   -- one full-canvas frame, no blending
deriving Repr

inductive Err where | imageTooLarge | other (what : String)
deriving Repr, DecidableEq

def hasAlpha (wr : Wrapping) (s : Still) : Bool :=
  match wr, s.payload with
  | .simple, .lossless _ a => a
  | .simple, .lossy .. => false
  | .extended a, _ => a
  | .anim1 a _, _ => a

def outputBufferSize (wr : Wrapping) (s : Still) : Nat := s.w * s.h * (if hasAlpha wr s then 4 else 3)

def dropAlpha : List Nat → List Nat
  | r :: g :: b :: _ :: rest => r :: g :: b :: dropAlpha rest
  | _ => []

def setAlpha255 : List Nat → List Nat
  | r :: g :: b :: _ :: rest => r :: g :: b :: 255 :: setAlpha255 rest
  | l => l

/-- frame pixels as `read_frame` hands them to `composite_frame` -/
def framePixels (s : Still) : Bool × Array Px :=
  match s.payload with
  | .lossless rgba _ =>
    (true, (List.range (s.w * s.h)).toArray.map fun i => ⟨rgba.getD (4*i) 0, rgba.getD (4*i+1) 0, rgba.getD (4*i+2) 0, rgba.getD (4*i+3) 0⟩)
  | .lossy y u v none =>
    let rgb := Yuv.fillRgb s.w y u v (List.replicate (3 * s.w * s.h) 0)
    (false, (List.range (s.w * s.h)).toArray.map fun i => ⟨rgb.getD (3*i) 0, rgb.getD (3*i+1) 0, rgb.getD (3*i+2) 0, 255⟩)
  | .lossy y u v (some (f, d)) =>
    let rgba := (Alpha.unfilterInto s.w f d (s.w * s.h) (Yuv.fillRgba s.w y u v (List.replicate (4 * s.w * s.h) 0)).toArray).toList
    (true, (List.range (s.w * s.h)).toArray.map fun i => ⟨rgba.getD (4*i) 0, rgba.getD (4*i+1) 0, rgba.getD (4*i+2) 0, rgba.getD (4*i+3) 0⟩)

/-- `read_image(buf)`: the new contents of the buffer, or the error (buffer then untouched) -/
def readImage (wr : Wrapping) (s : Still) (buf : List Nat) : Except Err (List Nat) :=
  if buf.length ≠ outputBufferSize wr s then .error .imageTooLarge
  else
    match wr with
    | .anim1 a bg =>
      let (fa, px) := framePixels s
      let frame : Anim.Frame := Anim.Frame.mk ⟨0, 0, s.w, s.h⟩ 0 false false fa px
      let file : Anim.File := Anim.File.mk s.w s.h bg a [frame]
      match (Anim.readFrame file Anim.State.default).1 with
      | .frame _ out => .ok out
      | _ => .error (.other "read_frame failed")
    | _ =>
      match s.payload with
      | .lossless rgba _ =>
        if hasAlpha wr s then .ok rgba                  -- decoded straight into `buf`
        else .ok (dropAlpha rgba)                        -- decoded into a scratch Vec, alpha dropped
      | .lossy y u v alph =>
        if hasAlpha wr s then
          let rgba := Yuv.fillRgba s.w y u v buf
          match alph with
          | some (f, d) => .ok (Alpha.unfilterInto s.w f d (s.w * s.h) rgba.toArray).toList
          | none => .ok (setAlpha255 rgba)               -- alpha flag without ALPH chunk: opaque
        else .ok (Yuv.fillRgb s.w y u v buf)

end ReadImage
