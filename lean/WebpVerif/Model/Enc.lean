import WebpVerif.Model.EncHuff
/-
Model of `encode_frame` of /repo/src/encoder.rs (imports only the Huffman model): pixel
expansion per colour type, subtract-green, the predictor transform, run detection with
`length_to_symbol`, frequency counting (with the seeded zeros), `write_huffman_tree`
(single-symbol shortcut, code-length code with limit 7, single-code-length shortcut,
max_symbol field), the packed multi-code `write_bits`, and `BitWriter` with its 64-bit buffer.
-/
namespace Enc
open EncHuff

/-- `BitWriter`: 64-bit buffer, bytes flushed 8 at a time -/
structure BW where
  out : Array Nat
  buffer : Nat
  nbits : Nat
deriving Repr

def BW.empty : BW := { out := #[], buffer := 0, nbits := 0 }

def le8 (v : Nat) : List Nat := (List.range 8).map fun i => (v / 256 ^ i) % 256

/-- `write_bits(bits, nbits)` -/
def BW.write (w : BW) (bits n : Nat) : BW :=
  let buffer := (w.buffer ||| (bits <<< w.nbits)) % 2 ^ 64
  let nb := w.nbits + n
  if nb ≥ 64 then
    let out := (le8 buffer).foldl Array.push w.out
    let nb' := nb - 64
    -- `bits.checked_shr(nbits - self.nbits).unwrap_or(0)`: the bits that did not fit
    let shift := n - nb'
    { out := out, buffer := if shift ≥ 64 then 0 else bits >>> shift, nbits := nb' }
  else { w with buffer := buffer, nbits := nb }

/-- `flush()` -/
def BW.flush (w : BW) : Array Nat :=
  let w := if w.nbits % 8 ≠ 0 then w.write 0 (8 - w.nbits % 8) else w
  ((le8 w.buffer).take (w.nbits / 8)).foldl Array.push w.out

/-- `write_single_entry_huffman_tree(symbol)` -/
def writeSingle (w : BW) (symbol : Nat) : BW :=
  let w := w.write 1 2
  if symbol ≤ 1 then (w.write 0 1).write symbol 1 else (w.write 1 1).write symbol 8

def codeLengthOrder : List Nat := [17, 18, 0, 1, 2, 3, 4, 5, 16, 6, 7, 8, 9, 10, 11, 12, 13, 14, 15]

/-- `write_huffman_tree`: returns the writer and the (lengths, codes) the pixels are coded with -/
def writeHuffmanTree (w : BW) (freqs : List Nat) : BW × Array Nat × Array Nat :=
  let zeros := Array.replicate freqs.length 0
  match build freqs 15 with
  | .single | .panic _ =>
    let idx := freqs.findIdx (· > 0)
    let symbol := if idx < freqs.length then idx else 0      -- `.position(..).unwrap_or(0)`
    (writeSingle w (symbol % 256), zeros, zeros)                -- `symbol as u8`
  | .built lengths codes =>
    let clFreq : List Nat := (List.range 16).map fun l => (lengths.toList.filter (· == l)).length
    let (single, clLen, clCode) := match build clFreq 7 with
      | .built l c => (false, l, c)
      | _ => (true, Array.replicate 16 0, Array.replicate 16 0)
    let w := (w.write 0 1).write (19 - 4) 4
    let w := codeLengthOrder.foldl (fun w i =>
      if i > 15 ∨ clFreq.getD i 0 = 0 then w.write 0 3
      else if single then w.write 1 3
      else w.write clLen[i]! 3) w
    let w := if freqs.length = 256 then ((w.write 1 1).write 3 3).write 254 8 else w.write 0 1
    let w := if single then w else lengths.foldl (fun w len => w.write clCode[len]! clLen[len]!) w
    (w, lengths, codes)

/-- `length_to_symbol(len)` for `len ≥ 5`: (prefix symbol, extra bit count) -/
def lengthToSymbol (len : Nat) : Nat × Nat :=
  let l := len - 1
  let hb := Nat.log2 l
  let second := (l / 2 ^ (hb - 1)) % 2
  (2 * hb + second, hb - 1)

/-- expand the input to RGBA pixels -/
def expand (color : Nat) (data : List Nat) : List (List Nat) :=
  match color with
  | 0 => data.map fun p => [p, p, p, 255]                       -- L8
  | 1 => (List.range (data.length / 2)).map fun i => [data.getD (2*i) 0, data.getD (2*i) 0, data.getD (2*i) 0, data.getD (2*i+1) 0]   -- La8
  | 2 => (List.range (data.length / 3)).map fun i => [data.getD (3*i) 0, data.getD (3*i+1) 0, data.getD (3*i+2) 0, 255]            -- Rgb8
  | _ => (List.range (data.length / 4)).map fun i => [data.getD (4*i) 0, data.getD (4*i+1) 0, data.getD (4*i+2) 0, data.getD (4*i+3) 0]

def sub8 (a b : Nat) : Nat := (a + 256 - b % 256) % 256

/-- subtract green -/
def subGreen (p : List Nat) : List Nat := [sub8 (p.getD 0 0) (p.getD 1 0), p.getD 1 0, sub8 (p.getD 2 0) (p.getD 1 0), p.getD 3 0]

/-- the predictor transform as the encoder applies it: rows ≥ 1 predicted from the pixel above,
    row 0 from the pixel to the left, pixel 0's alpha from 255 -/
def predictForward (w : Nat) (px : Array (List Nat)) : Array (List Nat) :=
  (List.range px.size).toArray.map fun i =>
    let p := px[i]!
    if i ≥ w then (List.range 4).map fun c => sub8 (p.getD c 0) ((px[i - w]!).getD c 0)
    else if i ≥ 1 then (List.range 4).map fun c => sub8 (p.getD c 0) ((px[i - 1]!).getD c 0)
    else [p.getD 0 0, p.getD 1 0, p.getD 2 0, sub8 (p.getD 3 0) 255]

/-- tokens: a pixel followed by the length of the run of identical pixels after it (0..4096) -/
def tokenize : List (List Nat) → Nat → List (List Nat × Nat)
  | [], _ => []
  | p :: rest, fuel =>
    match fuel with
    | 0 => []
    | fuel + 1 =>
      let run := (rest.takeWhile (· == p)).length.min 4096
      (p, run) :: tokenize (rest.drop run) fuel

def runSymbol (run : Nat) : Nat := if run ≤ 4 then 256 + run - 1 else 256 + (lengthToSymbol run).1

/-- a sequence of `write_bits` calls -/
def writeFields (w : BW) (ws : List (Nat × Nat)) : BW := ws.foldl (fun w x => w.write x.1 x.2) w

/-- the header, the transform section and the three "no" bits that follow it (no further
    transform, no colour cache, no meta prefix image) -/
def writeHeader (w : BW) (width height : Nat) (isAlpha usePredictor : Bool) : BW :=
  let w := (((w.write 0x2f 8).write (width - 1) 14).write (height - 1) 14)
  let w := (w.write (if isAlpha then 1 else 0) 1).write 0 3
  let w := w.write 0b101 3
  let w := if usePredictor then
      let w := (w.write 0b111001 6).write 0 1
      let w := writeSingle w 2
      (List.range 4).foldl (fun w _ => writeSingle w 0) w
    else w
  ((w.write 0 1).write 0 1).write 0 1

/-- the pixels as they are entropy coded: expanded, green subtracted, predicted -/
def residuals (data : List Nat) (width color : Nat) (usePredictor : Bool) : List (List Nat) :=
  let px := (expand color data).map subGreen
  if usePredictor then (predictForward width px.toArray).toList else px

def addAt (a : Array Nat) (i : Nat) : Array Nat := a.modify i (· + 1)

/-- the four histograms (red, green+lengths, blue, alpha) before any pixel is counted -/
def initFreqs (color : Nat) : Array Nat × Array Nat × Array Nat × Array Nat :=
  let f0 := if color ≤ 1 then addAt (Array.replicate 256 0) 0 else Array.replicate 256 0
  (f0, Array.replicate 280 0, f0,
    if color = 0 ∨ color = 2 then addAt (Array.replicate 256 0) 0 else Array.replicate 256 0)

def countTok (isColor isAlpha : Bool) (acc : Array Nat × Array Nat × Array Nat × Array Nat) (t : List Nat × Nat) :
    Array Nat × Array Nat × Array Nat × Array Nat :=
  let p := t.1
  let f0 := if isColor then addAt acc.1 (p.getD 0 0) else acc.1
  let f1 := addAt acc.2.1 (p.getD 1 0)
  let f2 := if isColor then addAt acc.2.2.1 (p.getD 2 0) else acc.2.2.1
  let f3 := if isAlpha then addAt acc.2.2.2 (p.getD 3 0) else acc.2.2.2
  let f1 := if t.2 > 0 then addAt f1 (runSymbol t.2) else f1
  (f0, f1, f2, f3)

/-- code lengths and code words of the four pixel alphabets -/
structure Tabs where
  l0 : Array Nat
  c0 : Array Nat
  l1 : Array Nat
  c1 : Array Nat
  l2 : Array Nat
  c2 : Array Nat
  l3 : Array Nat
  c3 : Array Nat

/-- the five prefix codes: green, red, blue, alpha, distance -/
def writeTrees (w : BW) (color : Nat) (usePredictor : Bool) (f : Array Nat × Array Nat × Array Nat × Array Nat) : BW × Tabs :=
  let z := Array.replicate 256 0
  let t1 := writeHuffmanTree w f.2.1.toList
  let t02 : BW × Array Nat × Array Nat × Array Nat × Array Nat :=
    if color ≥ 2 then
      let t0 := writeHuffmanTree t1.1 f.1.toList
      let t2 := writeHuffmanTree t0.1 f.2.2.1.toList
      (t2.1, t0.2.1, t0.2.2, t2.2.1, t2.2.2)
    else (writeSingle (writeSingle t1.1 0) 0, z, z, z, z)
  let t3 : BW × Array Nat × Array Nat :=
    if color = 1 ∨ color = 3 then writeHuffmanTree t02.1 f.2.2.2.toList
    else (writeSingle t02.1 (if usePredictor then 0 else 255), z, z)
  (writeSingle t3.1 1,
    { l0 := t02.2.1, c0 := t02.2.2.1, l1 := t1.2.1, c1 := t1.2.2, l2 := t02.2.2.2.1, c2 := t02.2.2.2.2, l3 := t3.2.1, c3 := t3.2.2 })

/-- the literal of a token as the one packed `write_bits(bits, nbits)` call the encoder makes -/
def litField (color : Nat) (tb : Tabs) (p : List Nat) : Nat × Nat :=
  let g := p.getD 1 0
  let r := p.getD 0 0
  let b := p.getD 2 0
  let a := p.getD 3 0
  let len1 := tb.l1[g]!
  match color with
  | 0 => (tb.c1[g]!, len1)
  | 1 => (tb.c1[g]! ||| (tb.c3[a]! <<< len1), len1 + tb.l3[a]!)
  | 2 => (tb.c1[g]! ||| (tb.c0[r]! <<< len1) ||| (tb.c2[b]! <<< (len1 + tb.l0[r]!)), len1 + tb.l0[r]! + tb.l2[b]!)
  | _ => (tb.c1[g]! ||| (tb.c0[r]! <<< len1) ||| (tb.c2[b]! <<< (len1 + tb.l0[r]!)) ||| (tb.c3[a]! <<< (len1 + tb.l0[r]! + tb.l2[b]!)),
          len1 + tb.l0[r]! + tb.l2[b]! + tb.l3[a]!)

/-- one token: the literal (one packed `write_bits` for all its code words), then the run -/
def writeTok (color : Nat) (tb : Tabs) (w : BW) (t : List Nat × Nat) : BW :=
  let w := w.write (litField color tb t.1).1 (litField color tb t.1).2
  if t.2 = 0 then w
  else if t.2 ≤ 4 then w.write tb.c1[256 + t.2 - 1]! tb.l1[256 + t.2 - 1]!
  else
    (w.write tb.c1[256 + (lengthToSymbol t.2).1]! tb.l1[256 + (lengthToSymbol t.2).1]!).write
      ((t.2 - 1) % 2 ^ (lengthToSymbol t.2).2) (lengthToSymbol t.2).2

/-- `encode_frame`: the VP8L payload, or `none` for `InvalidDimensions` -/
def encodeFrame (data : List Nat) (width height color : Nat) (usePredictor : Bool) : Option (Array Nat) :=
  if width = 0 ∨ width > 16384 ∨ height = 0 ∨ height > 16384 then none else
  let w := writeHeader BW.empty width height (color = 1 ∨ color = 3) usePredictor
  let px := residuals data width color usePredictor
  let toks := tokenize px px.length
  let f := toks.foldl (countTok (color ≥ 2) (color = 1 ∨ color = 3)) (initFreqs color)
  let wt := writeTrees w color usePredictor f
  some (toks.foldl (writeTok color wt.2) wt.1).flush

end Enc
