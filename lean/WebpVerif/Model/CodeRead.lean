import WebpVerif.Model.Huffman
import WebpVerif.Gen.Tables
/-
Model of `LosslessDecoder::read_huffman_code` and `read_huffman_code_lengths` of
/repo/src/lossless.rs, over the stream of bits the bit reader delivers (that the real `BitReader`
delivers exactly the stream's bits under every refill schedule is C10 / `C01.read_bits_is_stream_window`;
`HuffmanTree` is the model of Model/Huffman.lean).  Mirrors the code: simple codes build a
single-node or two-node tree directly; normal codes read the code-length code into a
19-entry vector in `CODE_LENGTH_CODE_ORDER`, build its tree, read `max_symbol`, run the symbol
loop over a preallocated zero vector with the repeat codes 16 / 17 / 18, and hand the result to
`build_implicit`.
-/
namespace CodeRead
open Huff

/-- `read_bits(n)`: `none` = `BitStreamError` at the end of the data -/
def readBits (n : Nat) (bits : List Nat) : Option (Nat × List Nat) :=
  if bits.length < n then none else some (lsbVal (bits.take n), bits.drop n)

/-- `HuffmanTree::build_two_node(zero, one)` -/
def twoNode (zero one : Nat) : Built :=
  .ok { tree := #[.leaf zero, .leaf one, .empty], table := #[65536 + zero, 65536 + one], mask := 1 }

/-- `while repeat > 0 { code_lengths[symbol] = length; symbol += 1 }` -/
def fillRun (cl : Array Nat) (symbol : Nat) : Nat → Nat → Array Nat
  | 0, _ => cl
  | rep + 1, v => fillRun (cl.setIfInBounds symbol v) (symbol + 1) rep v

/-- one iteration of the symbol loop of `read_huffman_code_lengths`: `none` = error,
    `inl` = the loop ends (all symbols assigned or `max_symbol` used up), `inr` = next state
    (symbol, max_symbol, prev_code_len, code_lengths, stream) -/
def lengthsStep (table : Built) (numSymbols symbol maxSymbol prev : Nat) (cl : Array Nat) (bits : List Nat) :
    Option ((Array Nat × List Nat) ⊕ (Nat × Nat × Nat × Array Nat × List Nat)) :=
  if symbol < numSymbols then
    if maxSymbol = 0 then some (.inl (cl, bits))
    else
      match readSym table bits with
      | none => none
      | some (codeLen, bits) =>
        if codeLen < 16 then
          some (.inr (symbol + 1, maxSymbol - 1, if codeLen ≠ 0 then codeLen else prev, cl.setIfInBounds symbol codeLen, bits))
        else if codeLen - 16 > 2 then none
        else
          match readBits (if codeLen - 16 = 0 then 2 else if codeLen - 16 = 1 then 3 else 7) bits with
          | none => none
          | some (r, bits) =>
            if symbol + (r + (if codeLen - 16 = 2 then 11 else 3)) > numSymbols then none
            else
              some (.inr (symbol + (r + (if codeLen - 16 = 2 then 11 else 3)), maxSymbol - 1, prev,
                fillRun cl symbol (r + (if codeLen - 16 = 2 then 11 else 3)) (if codeLen = 16 then prev else 0), bits))
  else some (.inl (cl, bits))

/-- the symbol loop; every iteration advances `symbol`, so `num_symbols + 1` steps of fuel always
    suffice -/
def lengthsLoop (table : Built) (numSymbols : Nat) : Nat → Nat → Nat → Nat → Array Nat → List Nat → Option (Array Nat × List Nat)
  | 0, _, _, _, _, _ => none
  | fuel + 1, symbol, maxSymbol, prev, cl, bits =>
    match lengthsStep table numSymbols symbol maxSymbol prev cl bits with
    | none => none
    | some (.inl r) => some r
    | some (.inr (symbol, maxSymbol, prev, cl, bits)) => lengthsLoop table numSymbols fuel symbol maxSymbol prev cl bits

/-- `read_huffman_code_lengths` after the code-length code's tree `table` has been built -/
def readCodeLengthsWith (table : Built) (numSymbols : Nat) (bits : List Nat) : Option (List Nat × List Nat) :=
  match readBits 1 bits with
  | none => none
  | some (useMax, bits) =>
    let maxSym : Option (Nat × List Nat) :=
      if useMax = 1 then
        match readBits 3 bits with
        | none => none
        | some (n3, bits) =>
          match readBits (2 + 2 * n3) bits with
          | none => none
          | some (mm2, bits) => if mm2 > numSymbols - 2 then none else some (2 + mm2, bits)
      else some (numSymbols, bits)
    match maxSym with
    | none => none
    | some (maxSymbol, bits) =>
      match lengthsLoop table numSymbols (numSymbols + 1) 0 maxSymbol 8 (Array.replicate numSymbols 0) bits with
      | none => none
      | some (cl, bits) => some (cl.toList, bits)

/-- `read_huffman_code_lengths(code_length_code_lengths, num_symbols)` -/
def readCodeLengths (clcl : List Nat) (numSymbols : Nat) (bits : List Nat) : Option (List Nat × List Nat) :=
  match build clcl with
  | .err => none
  | table => readCodeLengthsWith table numSymbols bits

/-- the code-length code: `num` three-bit lengths stored at `CODE_LENGTH_CODE_ORDER[i]` -/
def readClcl : List Nat → List Nat → List Nat → Option (List Nat × List Nat)
  | [], clcl, bits => some (clcl, bits)
  | pos :: order, clcl, bits =>
    match readBits 3 bits with
    | none => none
    | some (l, bits) => readClcl order (clcl.set pos l) bits

/-- `read_huffman_code(alphabet_size)`: the tree and the rest of the stream; `none` = any error -/
def readCode (alphabet : Nat) (bits : List Nat) : Option (Built × List Nat) :=
  match readBits 1 bits with
  | none => none
  | some (simple, bits) =>
    if simple = 1 then
      match readBits 1 bits with
      | none => none
      | some (n1, bits) =>
      match readBits 1 bits with
      | none => none
      | some (first8, bits) =>
      match readBits (1 + 7 * first8) bits with
      | none => none
      | some (zero, bits) =>
        if zero ≥ alphabet then none
        else if n1 + 1 = 1 then some (.single zero, bits)
        else
          match readBits 8 bits with
          | none => none
          | some (one, bits) =>
            if one ≥ alphabet then none
            else if zero < one then some (twoNode zero one, bits)
            else if zero > one then some (twoNode one zero, bits)
            else some (.single zero, bits)
    else
      match readBits 4 bits with
      | none => none
      | some (n4, bits) =>
        match readClcl (Gen.Tables.CODE_LENGTH_CODE_ORDER.take (4 + n4)) (List.replicate Gen.Tables.CODE_LENGTH_CODES 0) bits with
        | none => none
        | some (clcl, bits) =>
          match readCodeLengths clcl alphabet bits with
          | none => none
          | some (lens, bits) =>
            match build lens with
            | .err => none
            | t => some (t, bits)

end CodeRead
