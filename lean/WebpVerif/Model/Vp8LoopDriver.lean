import WebpVerif.Model.Vp8Kernels
/-
Model of the loop-filter driver `Vp8Decoder::loop_filter` of /repo/src/vp8.rs on the three
macroblock-aligned planes of a key frame: for every macroblock in raster order the left macroblock
edge (unless in the first column), the inner vertical edges at x = 4, 8, 12 (luma) / 4 (chroma) when
the macroblock is B_PRED or has a non-zero coefficient, the top macroblock edge (unless in the first
row), the inner horizontal edges; every edge over the whole macroblock (16 / 8 positions); the
simple filter touches luma only.  Kernels and parameters: Model/Vp8Kernels.lean.
-/
namespace Vp8LF
open Vp8K

/-- the eight pixels across the edge at `point` (= q0), `stride` apart -/
def edgeAt (buf : Array Nat) (point stride : Nat) : Edge :=
  { p3 := buf.getD (point - 4 * stride) 0, p2 := buf.getD (point - 3 * stride) 0, p1 := buf.getD (point - 2 * stride) 0,
    p0 := buf.getD (point - stride) 0, q0 := buf.getD point 0, q1 := buf.getD (point + stride) 0,
    q2 := buf.getD (point + 2 * stride) 0, q3 := buf.getD (point + 3 * stride) 0 }

/-- write back the six pixels a filter may change -/
def putEdge (buf : Array Nat) (point stride : Nat) (e : Edge) : Array Nat :=
  (((((buf.setIfInBounds (point - 3 * stride) e.p2).setIfInBounds (point - 2 * stride) e.p1).setIfInBounds (point - stride) e.p0).setIfInBounds
    point e.q0).setIfInBounds (point + stride) e.q1).setIfInBounds (point + 2 * stride) e.q2

def applyAt (f : Edge → Edge) (buf : Array Nat) (point stride : Nat) : Array Nat :=
  putEdge buf point stride (f (edgeAt buf point stride))

/-- a vertical edge (filtering across columns) at column `x0`, rows `y0 .. y0+n-1` of a plane of width `w` -/
def vEdge (f : Edge → Edge) (buf : Array Nat) (w x0 y0 n : Nat) : Array Nat :=
  (List.range n).foldl (fun b i => applyAt f b ((y0 + i) * w + x0) 1) buf

/-- a horizontal edge at row `y0`, columns `x0 .. x0+n-1` -/
def hEdge (f : Edge → Edge) (buf : Array Nat) (w x0 y0 n : Nat) : Array Nat :=
  (List.range n).foldl (fun b i => applyAt f b (y0 * w + x0 + i) w) buf

structure Planes where
  y : Array Nat
  u : Array Nat
  v : Array Nat

/-- one macroblock; `W` = aligned luma width, `CW` = aligned chroma width -/
def filterMb (isSimple : Bool) (level interior hev : Nat) (inner : Bool) (W CW mbx mby : Nat) (p : Planes) : Planes :=
  if level = 0 then p else
  let mbLim := mbEdgeLimit level interior
  let subLim := subEdgeLimit level interior
  if isSimple then
    let y := p.y
    let y := if mbx > 0 then vEdge (simple mbLim) y W (mbx * 16) (mby * 16) 16 else y
    let y := if inner then [4, 8, 12].foldl (fun y x => vEdge (simple subLim) y W (mbx * 16 + x) (mby * 16) 16) y else y
    let y := if mby > 0 then hEdge (simple mbLim) y W (mbx * 16) (mby * 16) 16 else y
    let y := if inner then [4, 8, 12].foldl (fun y r => hEdge (simple subLim) y W (mbx * 16) (mby * 16 + r) 16) y else y
    { p with y := y }
  else
    let mbF := macroblock hev interior mbLim
    let subF := subblock hev interior subLim
    let p := if mbx > 0 then
      { y := vEdge mbF p.y W (mbx * 16) (mby * 16) 16, u := vEdge mbF p.u CW (mbx * 8) (mby * 8) 8, v := vEdge mbF p.v CW (mbx * 8) (mby * 8) 8 } else p
    let p := if inner then
      { y := [4, 8, 12].foldl (fun y x => vEdge subF y W (mbx * 16 + x) (mby * 16) 16) p.y,
        u := vEdge subF p.u CW (mbx * 8 + 4) (mby * 8) 8, v := vEdge subF p.v CW (mbx * 8 + 4) (mby * 8) 8 } else p
    let p := if mby > 0 then
      { y := hEdge mbF p.y W (mbx * 16) (mby * 16) 16, u := hEdge mbF p.u CW (mbx * 8) (mby * 8) 8, v := hEdge mbF p.v CW (mbx * 8) (mby * 8) 8 } else p
    if inner then
      { y := [4, 8, 12].foldl (fun y r => hEdge subF y W (mbx * 16) (mby * 16 + r) 16) p.y,
        u := hEdge subF p.u CW (mbx * 8) (mby * 8 + 4) 8, v := hEdge subF p.v CW (mbx * 8) (mby * 8 + 4) 8 }
    else p

/-- the whole frame: macroblocks in raster order; `mbs k` = (B_PRED?, non-zero coefficients?) of
    macroblock `k`; no segments, no deltas: the parameters come from the frame level and sharpness -/
def filterFrame (isSimple : Bool) (sharp frameLevel mbw mbh : Nat) (mbs : Nat → Bool × Bool) (p : Planes) : Planes :=
  (List.range (mbw * mbh)).foldl (fun p k =>
    let (bpred, nz) := mbs k
    let (level, interior, hev) := filterParams frameLevel sharp false false 0 0 0 bpred
    filterMb isSimple level interior hev (bpred || nz) (mbw * 16) (mbw * 8) (k % mbw) (k / mbw) p) p

/-- the displayed part of a plane: `w × h` out of rows of `stride` -/
def crop (buf : Array Nat) (stride w h : Nat) : List Nat :=
  (List.range (w * h)).map fun i => buf.getD ((i / w) * stride + i % w) 0

end Vp8LF
