import WebpVerif.Model.LosslessKernels
/-
Models of the three remaining inverse-transform drivers of /repo/src/lossless_transform.rs on the
RGBA byte buffer (`apply_color_indexing_transform` is Model/ColorIndex.lean):

* `applySubGreen`, `applyColor`: pointwise models (byte `i` of the buffer after the call as a
  function of the buffer before it; the chunk iterators of the code visit every pixel once and a
  pixel's new value depends on that pixel only);
* `applyPredictor`: the code's own processing order - pixel 0, the rest of the first row with
  predictor 1, the first column of every row with predictor 2, then row by row and block by block
  the fourteen `apply_predictor_transform_N` loops, each a left-to-right pass that reads the
  already finished neighbours from the buffer (`prev` of the code = the pixel just written).
-/
namespace LTr
open LK

def subSize (size bits : Nat) : Nat := (size + 2 ^ bits - 1) / 2 ^ bits   -- `subsample_size`

/-! ### subtract green -/

def subGreenAt (a : Array Nat) (i : Nat) : Nat :=
  if (i % 4 = 0 ∨ i % 4 = 2) ∧ i / 4 * 4 + 4 ≤ a.size then addGreen (a.getD i 0) (a.getD (i / 4 * 4 + 1) 0)
  else a.getD i 0

def applySubGreen (a : Array Nat) : Array Nat := Array.ofFn (n := a.size) fun i => subGreenAt a i

/-! ### colour transform -/

def colorAt (w bits : Nat) (data a : Array Nat) (i : Nat) : Nat :=
  let p := i / 4
  let bi := ((p / w) / 2 ^ bits) * subSize w bits + (p % w) / 2 ^ bits
  let redToBlue := data.getD (4 * bi) 0
  let greenToBlue := data.getD (4 * bi + 1) 0
  let greenToRed := data.getD (4 * bi + 2) 0
  let green := a.getD (4 * p + 1) 0
  let tempRed := a.getD (4 * p) 0 + colorDeltaU32 greenToRed green
  let tempBlue := a.getD (4 * p + 2) 0 + colorDeltaU32 greenToBlue green + colorDeltaU32 redToBlue (tempRed % 256)
  if i % 4 = 0 then tempRed % 256 else if i % 4 = 2 then tempBlue % 256 else a.getD i 0

/-- rows are `chunks_exact_mut(width * 4)`: a trailing partial row is not visited -/
def applyColor (w bits : Nat) (data a : Array Nat) : Array Nat :=
  Array.ofFn (n := a.size) fun i => if i / (4 * w) * (4 * w) + 4 * w ≤ a.size then colorAt w bits data a i else a.getD i 0

/-! ### predictor transform -/

def px (a : Array Nat) (p : Nat) : List Nat := [a.getD (4 * p) 0, a.getD (4 * p + 1) 0, a.getD (4 * p + 2) 0, a.getD (4 * p + 3) 0]

def setPx (a : Array Nat) (p : Nat) (v : List Nat) : Array Nat :=
  (((a.setIfInBounds (4 * p) (v.getD 0 0)).setIfInBounds (4 * p + 1) (v.getD 1 0)).setIfInBounds (4 * p + 2) (v.getD 2 0)).setIfInBounds (4 * p + 3) (v.getD 3 0)

def chans (f : Nat → Nat) : List Nat := [f 0, f 1, f 2, f 3]

/-- the value predictor `m` adds to a pixel, per channel, from the left, top, top-right and top-left
    pixels (4 bytes each); modes 14 and 15 leave the pixel as it is (`_ => {}`) -/
def predPx (m : Nat) (L T TR TL : List Nat) : List Nat :=
  let l := fun c => L.getD c 0
  let t := fun c => T.getD c 0
  let tr := fun c => TR.getD c 0
  let tl := fun c => TL.getD c 0
  match m with
  | 0 => [0, 0, 0, 255]
  | 1 => chans l | 2 => chans t | 3 => chans tr | 4 => chans tl
  | 5 => chans fun c => average2 (average2 (l c) (tr c)) (t c)
  | 6 => chans fun c => average2 (l c) (tl c)
  | 7 => chans fun c => average2 (l c) (t c)
  | 8 => chans fun c => average2 (tl c) (t c)
  | 9 => chans fun c => average2 (t c) (tr c)
  | 10 => chans fun c => average2 (average2 (l c) (tl c)) (average2 (t c) (tr c))
  | 11 => if selectLeft (chans l) (chans t) (chans tl) then chans l else chans t
  | 12 => chans fun c => clampAddSubFull (l c) (t c) (tl c)
  | 13 => chans fun c => clampAddSubHalf (half13 (l c) (t c)) (tl c)
  | _ => [0, 0, 0, 0]

/-- one pixel of an `apply_predictor_transform_N` loop: `wrapping_add` of the prediction -/
def stepPx (m w : Nat) (a : Array Nat) (p : Nat) : Array Nat :=
  let pr := predPx m (px a (p - 1)) (px a (p - w)) (px a (p - w + 1)) (px a (p - w - 1))
  setPx a p (chans fun c => (a.getD (4 * p + c) 0 + pr.getD c 0) % 256)

/-- the pixels `x0 .. x1-1` of row `y`, left to right -/
def span (m w y : Nat) (a : Array Nat) (x0 x1 : Nat) : Array Nat :=
  (List.range' x0 (x1 - x0)).foldl (fun a x => stepPx m w a (y * w + x)) a

def rowBlocks (w bits : Nat) (data : Array Nat) (a : Array Nat) (y : Nat) : Array Nat :=
  (List.range (subSize w bits)).foldl (fun a bx =>
    let m := data.getD (((y / 2 ^ bits) * subSize w bits + bx) * 4 + 1) 0
    span m w y a (max (bx * 2 ^ bits) 1) (min ((bx + 1) * 2 ^ bits) w)) a

def applyPredictor (w h bits : Nat) (data a : Array Nat) : Array Nat :=
  let a := a.setIfInBounds 3 ((a.getD 3 0 + 255) % 256)
  let a := span 1 w 0 a 1 w
  let a := (List.range' 1 (h - 1)).foldl (fun a y => stepPx 2 w a (y * w)) a
  (List.range' 1 (h - 1)).foldl (rowBlocks w bits data) a

end LTr
