/-
Model of the sub-block MODE context bookkeeping of VP8 key frames (/repo/src/vp8.rs
`read_macroblock_header`: `top[mbx].bpred[12..16]` = the modes of the bottom sub-block row of the
macroblock above, `left.bpred[0..4]` = the modes of the right sub-block column of the macroblock
to the left; a macroblock that is not B_PRED stores the sub-block mode its 16x16 mode implies;
`left` is reset at every row start).  Import-free.
-/
namespace Vp8Mode

structure Frame where
  W : Nat
  H : Nat
  dc : Nat                             -- the default mode (B_DC_PRED)
  isB : Nat → Nat → Bool               -- mbx mby: luma_mode == B
  implied : Nat → Nat → Nat            -- mbx mby: the sub-block mode a 16x16 mode implies
  sub : Nat → Nat → Nat                -- sub-block column, row (frame-wide): the mode read for it

abbrev Row := Nat → Nat

def upd (f : Row) (k v : Nat) : Row := fun i => if i = k then v else f i

structure Call where
  mbx : Nat
  mby : Nat
  x : Nat
  y : Nat
  top : Nat
  left : Nat
deriving Repr, DecidableEq

structure St where
  top : Nat → Row
  left : Row
  out : List Call

def rowLoop (mbx mby y : Nat) (md : Nat → Nat) : Nat → Nat → Row → Nat → List Call → Row × Nat × List Call
  | 0, _, t, l, out => (t, l, out)
  | k + 1, x, t, l, out =>
    rowLoop mbx mby y md k (x + 1) (upd t x (md x)) (md x) (⟨mbx, mby, x, y, t x, l⟩ :: out)

def gridLoop (mbx mby : Nat) (md : Nat → Nat → Nat) : Nat → Nat → Row → Row → List Call → Row × Row × List Call
  | 0, _, t, lf, out => (t, lf, out)
  | k + 1, y, t, lf, out =>
    let (t', l', out') := rowLoop mbx mby y (fun x => md x y) 4 0 t (lf y) out
    gridLoop mbx mby md k (y + 1) t' (upd lf y l') out'

def mbStep (f : Frame) (mbx mby : Nat) (s : St) : St :=
  if f.isB mbx mby then
    let (t, lf, out) := gridLoop mbx mby (fun x y => f.sub (4 * mbx + x) (4 * mby + y)) 4 0 (s.top mbx) s.left s.out
    { top := fun c => if c = mbx then t else s.top c, left := lf, out := out }
  else
    let m := f.implied mbx mby
    { top := fun c => if c = mbx then (fun i => if i < 4 then m else s.top mbx i) else s.top c,
      left := fun i => if i < 4 then m else s.left i, out := s.out }

def rowMbs (f : Frame) (mby : Nat) : Nat → Nat → St → St
  | 0, _, s => s
  | k + 1, mbx, s => rowMbs f mby k (mbx + 1) (mbStep f mbx mby s)

def rows (f : Frame) : Nat → Nat → St → St
  | 0, _, s => s
  | k + 1, mby, s => rows f k (mby + 1) (rowMbs f mby f.W 0 { s with left := fun _ => f.dc })

def run (f : Frame) : List Call :=
  (rows f f.H 0 { top := fun _ _ => f.dc, left := fun _ => f.dc, out := [] }).out.reverse

/-! ### RFC 6386 section 11.3: the contexts of a sub-block mode are the modes of the sub-blocks
    above and to the left, across macroblock borders; a macroblock with a 16x16 mode counts as
    sixteen sub-blocks of the implied mode; outside the frame B_DC_PRED -/

def modeAt (f : Frame) (bx by' : Nat) : Nat :=
  if f.isB (bx / 4) (by' / 4) then f.sub bx by' else f.implied (bx / 4) (by' / 4)

def specTop (f : Frame) (c : Call) : Nat :=
  if 4 * c.mby + c.y = 0 then f.dc else modeAt f (4 * c.mbx + c.x) (4 * c.mby + c.y - 1)

def specLeft (f : Frame) (c : Call) : Nat :=
  if 4 * c.mbx + c.x = 0 then f.dc else modeAt f (4 * c.mbx + c.x - 1) (4 * c.mby + c.y)

end Vp8Mode
