import WebpVerif.Model.Vp8Header
import WebpVerif.Model.Vp8Resid
import WebpVerif.Model.Vp8Intra
import WebpVerif.Model.Vp8LoopDriver
/-
The whole key-frame decoder `Vp8Decoder::decode_frame_` of /repo/src/vp8.rs, composed from the
models of its parts: frame tag and dimensions, first partition header (Vp8Header), token partitions,
and for every macroblock in raster order the macroblock header (segment id, skip flag, luma mode,
sub-block modes with their contexts, chroma mode), the residual data (Vp8Resid) or the context
reset of a skipped macroblock, the reconstruction (Vp8Intra); then the loop filter over all
macroblocks (Vp8LF with the parameters of Vp8K.filterParams) and the crop to the display size.
-/
namespace Vp8Frame
open Arith

structure Mb where
  lumaMode : Nat
  chromaMode : Nat
  bmodes : Array Nat
  segment : Nat
  skipped : Bool
  nonZero : Bool

structure St where
  p0 : Dec
  parts : Array Dec
  topCtx : Array (Array Nat)     -- per macroblock column: 9 complexity flags
  leftCtx : Array Nat
  topB : Array (Array Nat)       -- per macroblock column: the 4 sub-block modes of its bottom row
  leftB : Array Nat
  topBorder : Array Nat
  leftBorder : Array Nat
  y : Array Nat
  u : Array Nat
  v : Array Nat
  mbs : Array Mb

def tree (t : List Int) (probs : List Nat) : Array Node := (treeNodesFrom t probs).toArray

/-- the sixteen sub-block modes, each read with the probabilities selected by the modes above and to the left -/
def readBModes : Nat → Nat → Dec → Array Nat → Array Nat → Array Nat → Option (Dec × Array Nat × Array Nat × Array Nat)
  | 0, _, d, topB, leftB, acc => some (d, topB, leftB, acc)
  | n + 1, i, d, topB, leftB, acc =>
    let (x, y) := (i % 4, i / 4)
    let probs := (Gen.Tables.KEYFRAME_BPRED_MODE_PROBS.getD (topB.getD x 0) []).getD (leftB.getD y 0) []
    match readWithTree d (tree Gen.Tables.KEYFRAME_BPRED_MODE_TREE probs) with
    | none => none
    | some (m, d) => readBModes n (i + 1) d (topB.setIfInBounds x m) (leftB.setIfInBounds y m) (acc.setIfInBounds i m)

def implied (lumaMode : Nat) : Nat := match lumaMode with | 1 => 2 | 2 => 3 | 3 => 1 | _ => 0

/-- `read_macroblock_header`: `none` = error -/
def readMbHeader (h : Vp8Header.Hdr) (d : Dec) (topB leftB : Array Nat) : Option (Dec × Mb × Array Nat × Array Nat) :=
  let seg : Option (Nat × Dec) :=
    if h.segEnabled && h.updateMap then readWithTree d (tree Gen.Tables.SEGMENT_ID_TREE h.treeProbs) else some (0, d)
  match seg with
  | none => none
  | some (segment, d) =>
    let sk := match h.skipProb with | some p => readBool d p | none => (false, d)
    match readWithTree sk.2 (tree Gen.Tables.KEYFRAME_YMODE_TREE Gen.Tables.KEYFRAME_YMODE_PROBS) with
    | none => none
    | some (lm, d) =>
      let bm : Option (Dec × Array Nat × Array Nat × Array Nat) :=
        if lm = 4 then readBModes 16 0 d topB leftB (Array.replicate 16 0)
        else
          let m := implied lm
          some (d, Array.replicate 4 m, Array.replicate 4 m, Array.replicate 16 m)
      match bm with
      | none => none
      | some (d, topB, leftB, bmodes) =>
        match readWithTree d (tree Gen.Tables.KEYFRAME_UV_MODE_TREE Gen.Tables.KEYFRAME_UV_MODE_PROBS) with
        | none => none
        | some (cm, d) =>
          if isPastEof d then none
          else some (d, { lumaMode := lm, chromaMode := cm, bmodes := bmodes, segment := segment, skipped := sk.1, nonZero := false }, topB, leftB)

def probsOf (tp : Array Nat) (plane band ctx : Nat) : List Nat :=
  (List.range 11).map fun t => tp.getD (((plane * 8 + band) * 3 + ctx) * 11 + t) 0

/-- one macroblock -/
def mbStep (h : Vp8Header.Hdr) (tp : Array Nat) (mbw nparts mbx mby : Nat) (s : St) : Option St :=
  match readMbHeader h s.p0 (s.topB.getD mbx #[]) s.leftB with
  | none => none
  | some (p0, mb, topB, leftB) =>
    let pi := mby % nparts
    let q : Array Int := ((h.factors.getD mb.segment []).map fun (v : Nat) => (v : Int)).toArray
    let res : Option (Array Int × Bool × Array Nat × Array Nat × Dec) :=
      if !mb.skipped then
        match Vp8Resid.readResidual (s.parts.getD pi Arith.new) (probsOf tp) (mb.lumaMode = 4) (s.topCtx.getD mbx #[]) s.leftCtx q with
        | .ok r => some (r.blocks, r.nonZero, r.top, r.left, r.d)
        | _ => none
      else
        let clear := fun (c : Array Nat) => (List.range 9).foldl (fun c i => if i = 0 ∧ mb.lumaMode = 4 then c else c.setIfInBounds i 0) c
        some (Array.replicate 384 0, false, clear (s.topCtx.getD mbx #[]), clear s.leftCtx, s.parts.getD pi Arith.new)
    match res with
    | none => none
    | some (blocks, nz, topC, leftC, pd) =>
      let o := Vp8Intra.predictMb mbw mbx mby mb.lumaMode mb.chromaMode mb.bmodes blocks s.topBorder s.leftBorder s.y s.u s.v
      some { s with p0 := p0, parts := s.parts.setIfInBounds pi pd, topCtx := s.topCtx.setIfInBounds mbx topC, leftCtx := leftC,
                    topB := s.topB.setIfInBounds mbx topB, leftB := leftB, topBorder := o.top, leftBorder := o.left,
                    y := o.y, u := o.u, v := o.v, mbs := s.mbs.push { mb with nonZero := nz } }

def rowLoop (h : Vp8Header.Hdr) (tp : Array Nat) (mbw nparts mby : Nat) : Nat → Nat → St → Option St
  | 0, _, s => some s
  | n + 1, mbx, s =>
    match mbStep h tp mbw nparts mbx mby s with
    | none => none
    | some s => rowLoop h tp mbw nparts mby n (mbx + 1) s

def frameLoop (h : Vp8Header.Hdr) (tp : Array Nat) (mbw nparts : Nat) : Nat → Nat → St → Option St
  | 0, _, s => some s
  | n + 1, mby, s =>
    match rowLoop h tp mbw nparts mby mbw 0 { s with leftCtx := Array.replicate 9 0, leftB := Array.replicate 4 0 } with
    | none => none
    | some s => frameLoop h tp mbw nparts n (mby + 1) { s with leftBorder := Array.replicate 17 129 }

/-- split the data behind the first partition into the token partitions -/
def splitParts (n : Nat) (rest : List Nat) : Option (Array Dec) :=
  let sizes := (List.range (n - 1)).map fun i => rest.getD (3 * i) 0 + 256 * rest.getD (3 * i + 1) 0 + 65536 * rest.getD (3 * i + 2) 0
  if rest.length < 3 * (n - 1) then none else
  let body := rest.drop (3 * (n - 1))
  let rec go (sizes : List Nat) (body : List Nat) (acc : Array Dec) : Option (Array Dec) :=
    match sizes with
    | [] => some (acc.push (Arith.init body))
    | sz :: more => if body.length < sz then none else go more (body.drop sz) (acc.push (Arith.init (body.take sz)))
  go sizes body #[]

/-- the decoded planes cropped to the display size: `none` = the frame is rejected -/
def decode (frame : List Nat) : Option (Nat × Nat × List Nat × List Nat × List Nat) :=
  if frame.length < 10 then none else
  let tag := frame.getD 0 0 + 256 * frame.getD 1 0 + 65536 * frame.getD 2 0
  if tag % 2 != 0 then none else
  if (frame.getD 3 0, frame.getD 4 0, frame.getD 5 0) != (0x9d, 0x01, 0x2a) then none else
  let p0size := tag / 32
  let w := (frame.getD 6 0 + 256 * frame.getD 7 0) % 16384
  let hgt := (frame.getD 8 0 + 256 * frame.getD 9 0) % 16384
  let body := frame.drop 10
  if body.length < p0size then none else
  match Vp8Header.parse (body.take p0size) with
  | none => none
  | some h =>
    let nparts := 2 ^ h.partsLog2
    match splitParts nparts (body.drop p0size) with
    | none => none
    | some parts =>
      let (mbw, mbh) := ((w + 15) / 16, (hgt + 15) / 16)
      let tp := h.tokenProbs.toArray
      let s0 : St := { p0 := h.rest, parts := parts, topCtx := Array.replicate mbw (Array.replicate 9 0), leftCtx := Array.replicate 9 0,
                       topB := Array.replicate mbw (Array.replicate 4 0), leftB := Array.replicate 4 0,
                       topBorder := Array.replicate (mbw * 16 + 20) 127, leftBorder := Array.replicate 17 129,
                       y := Array.replicate (mbw * 16 * mbh * 16) 0, u := Array.replicate (mbw * 8 * mbh * 8) 0, v := Array.replicate (mbw * 8 * mbh * 8) 0,
                       mbs := #[] }
      match frameLoop h tp mbw nparts mbh 0 s0 with
      | none => none
      | some s =>
        let planes : Vp8LF.Planes := { y := s.y, u := s.u, v := s.v }
        let planes :=
          if h.filterLevel = 0 then planes
          else (List.range (mbw * mbh)).foldl (fun p k =>
            let mb := s.mbs.getD k { lumaMode := 0, chromaMode := 0, bmodes := #[], segment := 0, skipped := false, nonZero := false }
            let (level, interior, hev) := Vp8K.filterParams h.filterLevel h.sharpness h.segEnabled h.deltaValues (h.lfLevel.getD mb.segment 0)
              (h.refDelta.getD 0 0) (h.modeDelta.getD 0 0) (mb.lumaMode = 4)
            Vp8LF.filterMb h.filterSimple level interior hev (mb.lumaMode = 4 || mb.nonZero) (mbw * 16) (mbw * 8) (k % mbw) (k / mbw) p) planes
        let (cw, ch) := ((w + 1) / 2, (hgt + 1) / 2)
        some (w, hgt, Vp8LF.crop planes.y (mbw * 16) w hgt, Vp8LF.crop planes.u (mbw * 8) cw ch, Vp8LF.crop planes.v (mbw * 8) cw ch)

end Vp8Frame
