/-
Model of the luma BORDER bookkeeping of VP8 intra prediction (/repo/src/vp8.rs `top_border`,
`left_border`, `create_border_luma`, the updates at the end of `intra_predict_luma`, the reset of
`left_border` per macroblock row).  Import-free.

The reconstructed (unfiltered) macroblocks are inputs; the model computes the 37 border pixels each
macroblock is predicted from: corner, 16 above, 4 above-right, 16 left.
-/
namespace Vp8Border

structure Frame where
  W : Nat
  H : Nat
  R : Nat → Nat → Nat → Nat → Nat      -- mbx mby x y: reconstructed pixel (x, y) of macroblock (mbx, mby)

structure Border where
  mbx : Nat
  mby : Nat
  corner : Nat
  above : Nat → Nat                     -- 0..16
  aboveRight : Nat → Nat                -- 0..4
  left : Nat → Nat                      -- 0..16

structure St where
  top : Nat → Nat                       -- `top_border`
  left : Nat → Nat                      -- `left_border` (index 0 = the corner for the next macroblock)
  out : List Border

/-- `create_border_luma` -/
def border (f : Frame) (mbx mby : Nat) (s : St) : Border :=
  { mbx := mbx, mby := mby,
    corner := if mby = 0 then 127 else if mbx = 0 then 129 else s.left 0,
    above := fun i => if mby = 0 then 127 else s.top (16 * mbx + i),
    aboveRight := fun i => if mby = 0 then 127 else if mbx = f.W - 1 then s.top (16 * mbx + 15) else s.top (16 * mbx + 16 + i),
    left := fun i => if mbx = 0 then 129 else s.left (i + 1) }

/-- one macroblock: predict from the border, then store the new right column, bottom row and the
    corner for the next macroblock (`ws[16]`, the last above pixel of the workspace) -/
def mbStep (f : Frame) (mbx mby : Nat) (s : St) : St :=
  let b := border f mbx mby s
  { top := fun j => if 16 * mbx ≤ j ∧ j < 16 * mbx + 16 then f.R mbx mby (j - 16 * mbx) 15 else s.top j,
    left := fun i => if i = 0 then b.above 15 else if i < 17 then f.R mbx mby 15 (i - 1) else s.left i,
    out := b :: s.out }

def rowMbs (f : Frame) (mby : Nat) : Nat → Nat → St → St
  | 0, _, s => s
  | k + 1, mbx, s => rowMbs f mby k (mbx + 1) (mbStep f mbx mby s)

/-- rows: `left_border = vec![129; 17]` after every row (and before the first) -/
def rows (f : Frame) : Nat → Nat → St → St
  | 0, _, s => s
  | k + 1, mby, s => rows f k (mby + 1) (rowMbs f mby f.W 0 { s with left := fun _ => 129 })

def run (f : Frame) : List Border :=
  (rows f f.H 0 { top := fun _ => 127, left := fun _ => 129, out := [] }).out.reverse

/-! ### RFC 6386 section 12.2 / 12.3: a macroblock is predicted from the row of (unfiltered)
    pixels above it, the column to its left and the pixel above-left; outside the frame the row
    above is 127 and the column to the left 129; the four pixels above-right come from the
    macroblock above-right, and for the last macroblock of a row repeat the last pixel above -/

/-- the reconstructed frame on the macroblock-aligned grid -/
def P (f : Frame) (x y : Nat) : Nat := f.R (x / 16) (y / 16) (x % 16) (y % 16)

def specCorner (f : Frame) (mbx mby : Nat) : Nat :=
  if mby = 0 then 127 else if mbx = 0 then 129 else P f (16 * mbx - 1) (16 * mby - 1)
def specAbove (f : Frame) (mbx mby i : Nat) : Nat :=
  if mby = 0 then 127 else P f (16 * mbx + i) (16 * mby - 1)
def specAboveRight (f : Frame) (mbx mby i : Nat) : Nat :=
  if mby = 0 then 127 else if mbx = f.W - 1 then P f (16 * mbx + 15) (16 * mby - 1) else P f (16 * mbx + 16 + i) (16 * mby - 1)
def specLeft (f : Frame) (mbx mby i : Nat) : Nat :=
  if mbx = 0 then 129 else P f (16 * mbx - 1) (16 * mby + i)

def Good (f : Frame) (b : Border) : Prop :=
  b.corner = specCorner f b.mbx b.mby ∧ (∀ i, i < 16 → b.above i = specAbove f b.mbx b.mby i) ∧
  (∀ i, i < 4 → b.aboveRight i = specAboveRight f b.mbx b.mby i) ∧ (∀ i, i < 16 → b.left i = specLeft f b.mbx b.mby i)

end Vp8Border
