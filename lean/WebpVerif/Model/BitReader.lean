/-
Model of `lossless::BitReader` (lossless.rs) over a `BufRead` whose `fill_buf` exposes, at byte
position `p`, the next `min (expose p) (len − p)` bytes (`expose p ≥ 1`: a conforming `fill_buf`
returns a non-empty slice unless at end of input).  Import-free.

`buffer` is the u64 reservoir (a `Nat` kept below 2^64 by explicit truncation of the one shift
that can lose bits), `nbits` the number of valid low bits, `pos` the bytes consumed from the
underlying reader.
-/
namespace BitReader

structure BR where
  buffer : Nat
  nbits : Nat
  pos : Nat
deriving Repr, DecidableEq

def init : BR := { buffer := 0, nbits := 0, pos := 0 }

def le64 (bs : List Nat) : Nat := bs.foldr (fun b acc => b + 256 * acc) 0

/-- the byte-at-a-time path: `while !buf.is_empty() && nbits < 56` -/
def fillSlow (data : List Nat) : Nat → BR → BR
  | 0, br => br
  | fuel + 1, br =>
    if br.pos < data.length ∧ br.nbits < 56 then
      fillSlow data fuel { buffer := br.buffer ||| (data.getD br.pos 0 <<< br.nbits),
                           nbits := br.nbits + 8, pos := br.pos + 1 }
    else br

/-- `fill()` -/
def fill (data : List Nat) (expose : Nat → Nat) (br : BR) : BR :=
  let avail := min (expose br.pos) (data.length - br.pos)
  if avail ≥ 8 then
    let lookahead := le64 ((data.drop br.pos).take 8)
    { buffer := (br.buffer ||| (lookahead <<< br.nbits)) % 2 ^ 64
      nbits := br.nbits ||| 56
      pos := br.pos + (63 - br.nbits) / 8 }
  else fillSlow data 8 br

/-- `peek(num)` -/
def peek (br : BR) (num : Nat) : Nat := br.buffer % 2 ^ num
/-- `peek_full() as u16` -/
def peekFull16 (br : BR) : Nat := br.buffer % 2 ^ 16

/-- `consume(num)`: `none` = `BitStreamError` -/
def consume (br : BR) (num : Nat) : Option BR :=
  if br.nbits < num then none else some { br with buffer := br.buffer >>> num, nbits := br.nbits - num }

/-- `read_bits(num)` for `num ≤ 32` -/
def readBits (data : List Nat) (expose : Nat → Nat) (br : BR) (num : Nat) : Option (Nat × BR) :=
  let br := if br.nbits < num then fill data expose br else br
  match consume br num with
  | none => none
  | some br' => some (peek br num, br')

inductive Op where
  | read (n : Nat) | fill | peekConsume (n : Nat) | peekFull
deriving Repr

/-- run a script; each entry is `some value` or `none` for an error (the run stops there) -/
def run (data : List Nat) (expose : Nat → Nat) : BR → List Op → List (Option Nat)
  | _, [] => []
  | br, op :: ops =>
    match op with
    | .read n =>
      match readBits data expose br n with
      | none => [none]
      | some (v, br') => some v :: run data expose br' ops
    | .fill => some 0 :: run data expose (fill data expose br) ops
    | .peekConsume n =>
      match consume br n with
      | none => [none]
      | some br' => some (peek br n) :: run data expose br' ops
    | .peekFull => some (peekFull16 br) :: run data expose br ops

/-- the bit stream as a number: bit `i` of the stream is bit `i` of this (LSB-first packing) -/
def streamNat (data : List Nat) : Nat := le64 data

end BitReader
