/-
Specification: the boolean entropy decoder of RFC 6386 section 7.3 (import-free), transcribed:

   init:  value = first 2 bytes (big-endian), input += 2, range = 255, bit_count = 0
   bool_read(prob): split = 1 + (((range - 1) * prob) >> 8);  SPLIT = split << 8
                    if value >= SPLIT { 1; range -= split; value -= SPLIT } else { 0; range = split }
                    while range < 128 { value <<= 1; range <<= 1;
                                        if ++bit_count == 8 { bit_count = 0; value |= next_byte } }
   next_byte = 0 once the input is exhausted ("as if the buffer were followed by zeros").
   read_literal(n): n flags MSB first;  read_tree: i = 0; while (i = t[i + read(p[i>>1])]) > 0; -i
   optional signed: flag ? (L(n), sign) : 0.

`value` is an unbounded natural number here (the RFC's `bool_value` width is not normative).
`pos` counts the bytes fetched so far, including fetches past the end.
-/
namespace BoolDec

structure St where
  data : List Nat
  pos : Nat
  value : Nat
  range : Nat
  bitCount : Nat
  need : Nat       -- ghost: number of leading bytes the decisions made so far depend on
deriving Repr

def byteAt (data : List Nat) (i : Nat) : Nat := data.getD i 0

def init (data : List Nat) : St :=
  { data := data, pos := 2, value := byteAt data 0 * 256 + byteAt data 1, range := 255, bitCount := 0, need := 0 }

/-- the renormalisation loop (at most 7 iterations since range ≥ 1) -/
def renorm : Nat → St → St
  | 0, s => s
  | fuel + 1, s =>
    if s.range < 128 then
      let v := s.value * 2
      let bc := s.bitCount + 1
      if bc = 8 then
        renorm fuel { s with value := v + byteAt s.data s.pos, pos := s.pos + 1, range := s.range * 2, bitCount := 0 }
      else renorm fuel { s with value := v, range := s.range * 2, bitCount := bc }
    else s

/-- A decision taken after `T = 8·(pos−2) + bitCount` shifts looks at stream bits `[T, T+8)`,
    i.e. at bytes up to index `⌈T/8⌉`: it needs the first `⌈T/8⌉ + 1` bytes. -/
def neededAtDecision (s : St) : Nat := if s.bitCount = 0 then s.pos - 1 else s.pos

def readBool (s : St) (prob : Nat) : Bool × St :=
  let s := { s with need := max s.need (neededAtDecision s) }
  let split := 1 + (((s.range - 1) * prob) / 256)
  let SPLIT := split * 256
  if s.value ≥ SPLIT then (true, renorm 8 { s with range := s.range - split, value := s.value - SPLIT })
  else (false, renorm 8 { s with range := split })

def readFlag (s : St) : Bool × St := readBool s 128

def readLiteral : Nat → St → Nat → Nat × St
  | 0, s, v => (v, s)
  | n + 1, s, v => let (b, s) := readFlag s; readLiteral n s (v * 2 + b.toNat)

def readSigned (s : St) (n : Nat) : Int × St :=
  let (flag, s) := readFlag s
  if !flag then (0, s) else
  let (mag, s) := readLiteral n s 0
  let (sign, s) := readFlag s
  (if sign then -(mag : Int) else mag, s)

/-- RFC tree walk over an `i8`-style tree: positive entries are indices, others negated leaves -/
def readTree (tree : List Int) (probs : List Nat) : Nat → St → Nat → Option (Nat × St)
  | 0, _, _ => none
  | fuel + 1, s, i =>
    let (b, s) := readBool s (probs.getD (i / 2) 0)
    match tree[i + b.toNat]? with
    | none => none
    | some t => if t > 0 then readTree tree probs fuel s t.toNat else some ((-t).toNat, s)

/-- "the requests consumed more than one byte beyond the data": some decision so far depended on
    byte index `len + 1` or later (one byte of zero padding is tolerated, as in libwebp) -/
def exhausted (s : St) : Bool := s.need > s.data.length + 1

inductive Req where
  | bool (p : Nat) | flag | literal (n : Nat) | signed (n : Nat) | tree (t : List Int) (probs : List Nat)

def step (s : St) : Req → Option (Int × St)
  | .bool p => let (b, s) := readBool s p; some (b.toNat, s)
  | .flag => let (b, s) := readFlag s; some (b.toNat, s)
  | .literal n => let (v, s) := readLiteral n s 0; some (v, s)
  | .signed n => let (v, s) := readSigned s n; some (v, s)
  | .tree t ps => (readTree t ps (t.length + 1) s 0).map fun (v, s) => ((v : Int), s)

def run (s : St) : List Req → List (Int × Bool)
  | [] => []
  | r :: rs =>
    match step s r with
    | none => []
    | some (v, s) => (v, exhausted s) :: run s rs

/-- The comparison the property makes between two runs: same value after every request until the
    first request after which either side reports exhaustion; there the reports must agree (the
    value read while running out of data is meaningless and everything after it is discarded). -/
def agreeUntilExhausted : List (Int × Bool) → List (Int × Bool) → Bool
  | [], [] => true
  | (v, e) :: r, (v', e') :: r' =>
    if e || e' then e == e' else v == v' && agreeUntilExhausted r r'
  | _, _ => false

end BoolDec
