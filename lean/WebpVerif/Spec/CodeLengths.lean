import WebpVerif.Spec.Prefix
import WebpVerif.Gen.Libwebp
/-
Reading one prefix code from a bit stream (WebP lossless specification, "Decoding and building the
prefix codes"), as a structurally recursive function on bit lists - the proof-friendly twin of
`VP8L.readCode` (Spec/Lossless.lean), with which it is compared on generated codes in every run.
-/
namespace Prefix

/-- value of a bit list, first bit least significant -/
def bitsVal : List Nat → Nat
  | [] => 0
  | b :: bs => b + 2 * bitsVal bs

/-- `ReadBits(n)` -/
def readBitsL (n : Nat) (bits : List Nat) : Option (Nat × List Nat) :=
  if bits.length < n then none else some (bitsVal (bits.take n), bits.drop n)

def clOrder : List Nat := Gen.Libwebp.kCodeLengthCodeOrder

/-- the `num` three-bit code-length-code lengths, stored at the positions `kCodeLengthCodeOrder` gives -/
def readClLens : List Nat → List Nat → List Nat → Option (List Nat × List Nat)
  | [], cl, bits => some (cl, bits)
  | pos :: order, cl, bits =>
    match readBitsL 3 bits with
    | none => none
    | some (l, bits) => readClLens order (cl.set pos l) bits

/-- the code-length symbols: literal lengths 0..15, 16 = repeat the previous non-zero length 3..6
    times, 17 / 18 = 3..10 / 11..138 zeros; at most `tokens` symbols are read -/
def readLens (alphabet : Nat) (cl : List Nat) : Nat → Nat → Nat → List Nat → List Nat → Option (List Nat × List Nat)
  | 0, _, _, lens, bits => some (lens ++ List.replicate (alphabet - lens.length) 0, bits)
  | tokens + 1, prev, fuel, lens, bits =>
    if lens.length ≥ alphabet then some (lens, bits) else
    match fuel with
    | 0 => none
    | fuel + 1 =>
      match decodeSymbol cl bits with
      | none => none
      | some (code, bits) =>
        if code < 16 then readLens alphabet cl tokens (if code ≠ 0 then code else prev) fuel (lens ++ [code]) bits
        else
          let extra := if code = 16 then 2 else if code = 17 then 3 else 7
          let off := if code = 16 then 3 else if code = 17 then 3 else 11
          match readBitsL extra bits with
          | none => none
          | some (r, bits) =>
            if lens.length + (r + off) > alphabet then none
            else readLens alphabet cl tokens prev fuel (lens ++ List.replicate (r + off) (if code = 16 then prev else 0)) bits

/-- one prefix code for an alphabet of `alphabet` symbols: the code lengths and the rest of the stream -/
def readCodeL (alphabet : Nat) (bits : List Nat) : Option (List Nat × List Nat) :=
  match readBitsL 1 bits with
  | none => none
  | some (simple, bits) =>
    if simple = 1 then
      match readBitsL 1 bits with
      | none => none
      | some (nsym1, bits) =>
      match readBitsL 1 bits with
      | none => none
      | some (first8, bits) =>
      match readBitsL (if first8 = 1 then 8 else 1) bits with
      | none => none
      | some (s0, bits) =>
        if s0 ≥ alphabet then none else
        let c := (List.replicate alphabet 0).set s0 1
        if nsym1 = 0 then some (c, bits)
        else
          match readBitsL 8 bits with
          | none => none
          | some (s1, bits) => if s1 ≥ alphabet then none else some (c.set s1 1, bits)
    else
      match readBitsL 4 bits with
      | none => none
      | some (n4, bits) =>
      match readClLens (clOrder.take (4 + n4)) (List.replicate 19 0) bits with
      | none => none
      | some (cl, bits) =>
        if !validLengths cl then none else
        match readBitsL 1 bits with
        | none => none
        | some (useMax, bits) =>
          let readMax : Option (Nat × List Nat) :=
            if useMax = 1 then
              match readBitsL 3 bits with
              | none => none
              | some (n3, bits) =>
                match readBitsL (2 + 2 * n3) bits with
                | none => none
                | some (ms, bits) => if 2 + ms > alphabet then none else some (2 + ms, bits)
            else some (alphabet, bits)
          match readMax with
          | none => none
          | some (maxSymbol, bits) =>
            match readLens alphabet cl maxSymbol 8 (alphabet + 1) [] bits with
            | none => none
            | some (lens, bits) => if validLengths lens then some (lens, bits) else none

end Prefix
