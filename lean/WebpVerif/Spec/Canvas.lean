import WebpVerif.Model.Anim
/-
Specification of animation playback (container specification, "Assembling the canvas"):
a per-pixel fold over the frame history, and an abstract playback cursor.

canvas₀ = background everywhere.  For frame k: first, if frame k−1 asked for disposal, its
rectangle (only it) is restored to the background; then frame k is drawn at its offset:
overwrite, or alpha-blend per pixel when the frame has alpha and asks for blending.  A frame
without alpha is opaque.  The background colour is stored as Blue, Green, Red, Alpha.

`blend` is a parameter: the property's clauses about it (opaque replaces exactly, transparent
leaves unchanged, bounded otherwise) are C12's.
-/
namespace Canvas
open Anim Blend

def inRect (r : Rect) (x y : Nat) : Bool := r.x ≤ x && x < r.x + r.w && r.y ≤ y && y < r.y + r.h

/-- what one compositing step does to pixel `(x, y)` -/
def stepPx (blend : Px → Px → Px) (bg : Px) (dispose : Bool) (prev : Rect) (fr : Frame)
    (old : Px) (x y : Nat) : Px :=
  let base := if dispose && inRect prev x y then bg else old
  if inRect fr.rect x y then
    let p := framePx fr.pixels fr.rect.w fr.hasAlpha (x - fr.rect.x) (y - fr.rect.y)
    if fr.hasAlpha && fr.useBlend then blend p base else p
  else base

/-- pixel `(x, y)` of the canvas after drawing frames `0 .. k-1` (a fold over the history);
    `frames` is given in reverse playback order internally by recursion on the list -/
def canvasPx (blend : Px → Px → Px) (bg : Px) : List Frame → Nat → Nat → Px
  | [], _, _ => bg
  | fr :: earlier, x, y =>
    -- `fr` is the latest frame, `earlier` the frames before it, latest first
    let (dispose, prev) := match earlier with
      | [] => (false, (⟨0, 0, 0, 0⟩ : Rect))
      | p :: _ => (p.dispose, p.rect)
    stepPx blend bg dispose prev fr (canvasPx blend bg earlier x y) x y

/-- the k-th delivered buffer (k = 1 is the first frame) -/
def frameBuf (blend : Px → Px → Px) (f : File) (k : Nat) : List Nat :=
  let hist := (f.frames.take k).reverse
  ((List.range (f.cw * f.ch)).flatMap fun i =>
    let p := canvasPx blend f.bg hist (i % f.cw) (i / f.cw)
    if f.hasAlpha then [p.r, p.g, p.b, p.a] else [p.r, p.g, p.b])

/-- abstract player: a cursor into the frame list -/
def stepSpec (blend : Px → Px → Px) (f : File) (c : Nat) : Op → Out × Nat
  | .readFrame =>
    match f.frames[c]? with
    | none => (.noMoreFrames, c)
    | some fr => (.frame fr.duration (frameBuf blend f (c + 1)), c + 1)
  | .reset => (.unit, 0)
  | .readImage =>
    match f.frames[0]? with
    | none => (.noMoreFrames, c)
    | some fr => (.frame fr.duration (frameBuf blend f 1), c)

def runSpec (blend : Px → Px → Px) (f : File) : Nat → List Op → List Out
  | _, [] => []
  | c, op :: ops => (stepSpec blend f c op).1 :: runSpec blend f (stepSpec blend f c op).2 ops

/-- well-formed animation: every frame inside the canvas, sizes within the format's limits,
    pixel arrays of the right size -/
def File.valid (f : File) : Bool :=
  f.cw > 0 && f.ch > 0 && f.frames.all fun fr =>
    fr.rect.inside f.cw f.ch && fr.rect.w ≤ 16384 && fr.rect.h ≤ 16384 && fr.rect.w > 0 && fr.rect.h > 0 &&
    fr.pixels.size == fr.rect.w * fr.rect.h

end Canvas
