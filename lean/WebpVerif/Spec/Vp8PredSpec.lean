/-
Reference intra predictors of VP8 (RFC 6386 section 12), transcribed from libwebp's C reference
implementations in `src/dsp/dec.c` (offline copy in libwebp-sys' vendor directory): `VE4_C`,
`HE4_C`, `DC4_C`, `RD4_C`, `LD4_C`, `VR4_C`, `VL4_C`, `HU4_C`, `HD4_C`, `TrueMotion`, `VE16_C`,
`HE16_C`, `DC16*_C`, `DC8uv*_C` - in their own notation: `X` = top-left, `A..H` = the row above,
`I..L` = the column to the left, `DST(x, y)` = column `x`, row `y` of the block.  Import-free.
-/
namespace Vp8PredSpec

def AVG3 (a b c : Nat) : Nat := (a + 2 * b + c + 2) / 4
def AVG2 (a b : Nat) : Nat := (a + b + 1) / 2

structure N where
  X : Nat
  A : Nat
  B : Nat
  C : Nat
  D : Nat
  E : Nat
  F : Nat
  G : Nat
  H : Nat
  I : Nat
  J : Nat
  K : Nat
  L : Nat

/-- a list of `DST(x, y) = … = value` statements; the value assigned to `DST(x, y)` -/
def dst (stmts : List (List (Nat × Nat) × Nat)) (x y : Nat) : Nat :=
  match stmts.find? (fun s => s.1.contains (x, y)) with
  | some s => s.2
  | none => 0

def VE4 (n : N) (x _y : Nat) : Nat :=
  [AVG3 n.X n.A n.B, AVG3 n.A n.B n.C, AVG3 n.B n.C n.D, AVG3 n.C n.D n.E].getD x 0

def HE4 (n : N) (_x y : Nat) : Nat :=
  [AVG3 n.X n.I n.J, AVG3 n.I n.J n.K, AVG3 n.J n.K n.L, AVG3 n.K n.L n.L].getD y 0

def DC4 (n : N) (_x _y : Nat) : Nat := (4 + (n.A + n.I) + (n.B + n.J) + (n.C + n.K) + (n.D + n.L)) / 8

def RD4 (n : N) : Nat → Nat → Nat := dst
  [([(0, 3)], AVG3 n.J n.K n.L),
   ([(1, 3), (0, 2)], AVG3 n.I n.J n.K),
   ([(2, 3), (1, 2), (0, 1)], AVG3 n.X n.I n.J),
   ([(3, 3), (2, 2), (1, 1), (0, 0)], AVG3 n.A n.X n.I),
   ([(3, 2), (2, 1), (1, 0)], AVG3 n.B n.A n.X),
   ([(3, 1), (2, 0)], AVG3 n.C n.B n.A),
   ([(3, 0)], AVG3 n.D n.C n.B)]

def LD4 (n : N) : Nat → Nat → Nat := dst
  [([(0, 0)], AVG3 n.A n.B n.C),
   ([(1, 0), (0, 1)], AVG3 n.B n.C n.D),
   ([(2, 0), (1, 1), (0, 2)], AVG3 n.C n.D n.E),
   ([(3, 0), (2, 1), (1, 2), (0, 3)], AVG3 n.D n.E n.F),
   ([(3, 1), (2, 2), (1, 3)], AVG3 n.E n.F n.G),
   ([(3, 2), (2, 3)], AVG3 n.F n.G n.H),
   ([(3, 3)], AVG3 n.G n.H n.H)]

def VR4 (n : N) : Nat → Nat → Nat := dst
  [([(0, 0), (1, 2)], AVG2 n.X n.A),
   ([(1, 0), (2, 2)], AVG2 n.A n.B),
   ([(2, 0), (3, 2)], AVG2 n.B n.C),
   ([(3, 0)], AVG2 n.C n.D),
   ([(0, 3)], AVG3 n.K n.J n.I),
   ([(0, 2)], AVG3 n.J n.I n.X),
   ([(0, 1), (1, 3)], AVG3 n.I n.X n.A),
   ([(1, 1), (2, 3)], AVG3 n.X n.A n.B),
   ([(2, 1), (3, 3)], AVG3 n.A n.B n.C),
   ([(3, 1)], AVG3 n.B n.C n.D)]

def VL4 (n : N) : Nat → Nat → Nat := dst
  [([(0, 0)], AVG2 n.A n.B),
   ([(1, 0), (0, 2)], AVG2 n.B n.C),
   ([(2, 0), (1, 2)], AVG2 n.C n.D),
   ([(3, 0), (2, 2)], AVG2 n.D n.E),
   ([(0, 1)], AVG3 n.A n.B n.C),
   ([(1, 1), (0, 3)], AVG3 n.B n.C n.D),
   ([(2, 1), (1, 3)], AVG3 n.C n.D n.E),
   ([(3, 1), (2, 3)], AVG3 n.D n.E n.F),
   ([(3, 2)], AVG3 n.E n.F n.G),
   ([(3, 3)], AVG3 n.F n.G n.H)]

def HU4 (n : N) : Nat → Nat → Nat := dst
  [([(0, 0)], AVG2 n.I n.J),
   ([(2, 0), (0, 1)], AVG2 n.J n.K),
   ([(2, 1), (0, 2)], AVG2 n.K n.L),
   ([(1, 0)], AVG3 n.I n.J n.K),
   ([(3, 0), (1, 1)], AVG3 n.J n.K n.L),
   ([(3, 1), (1, 2)], AVG3 n.K n.L n.L),
   ([(3, 2), (2, 2), (0, 3), (1, 3), (2, 3), (3, 3)], n.L)]

def HD4 (n : N) : Nat → Nat → Nat := dst
  [([(0, 0), (2, 1)], AVG2 n.I n.X),
   ([(0, 1), (2, 2)], AVG2 n.J n.I),
   ([(0, 2), (2, 3)], AVG2 n.K n.J),
   ([(0, 3)], AVG2 n.L n.K),
   ([(3, 0)], AVG3 n.A n.B n.C),
   ([(2, 0)], AVG3 n.X n.A n.B),
   ([(1, 0), (3, 1)], AVG3 n.I n.X n.A),
   ([(1, 1), (3, 2)], AVG3 n.J n.I n.X),
   ([(1, 2), (3, 3)], AVG3 n.K n.J n.I),
   ([(1, 3)], AVG3 n.L n.K n.J)]

/-- `VP8kclip1[v]`: clip to 0..255 -/
def clip1 (v : Int) : Nat := if v < 0 then 0 else if v > 255 then 255 else v.toNat

/-- `TrueMotion`: `dst[x] = clip1[top[x] + left[y] − topleft]` -/
def TM (topleft : Nat) (top left : Nat → Nat) (x y : Nat) : Nat := clip1 ((top x : Int) + left y - topleft)

/-- the four DC variants of a `size × size` block (`size` = 16: `DC16*_C`, 8: `DC8uv*_C`) -/
def DC (size : Nat) (top left : Nat → Nat) (hasTop hasLeft : Bool) : Nat :=
  let st := ((List.range size).map top).sum
  let sl := ((List.range size).map left).sum
  if hasTop && hasLeft then (size + (st + sl)) / (2 * size)
  else if hasTop then (size / 2 + st) / size
  else if hasLeft then (size / 2 + sl) / size
  else 0x80

end Vp8PredSpec
