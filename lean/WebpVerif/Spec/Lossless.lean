import WebpVerif.Gen.Libwebp
/-
Specification: a VP8L decoder read top to bottom from "WebP Lossless Bitstream Specification"
(present offline in libwebp-sys' vendor/doc).  Written for clarity, not speed: bits are read one
request at a time from a bit position; prefix codes are decoded bit by bit against the canonical
code derived from the lengths; the colour cache receives EVERY decoded pixel; transforms are
applied per pixel in the reverse order of their appearance.

Pixels are ARGB values `a·2^24 + r·2^16 + g·2^8 + b`.  `decode` returns `none` for a stream that
is not valid (truncated, incomplete/over-subscribed code, out-of-range reference, …).
Where the specification text is silent the choices follow libwebp and are marked (*).
The distance map is taken from libwebp's `kCodeToPlane` (regenerated), not from the crate.
-/
namespace VP8L

structure Bits where
  data : Array Nat
  pos : Nat        -- bit position
deriving Repr

/-- `ReadBits(n)`, LSB first; `none` past the end of the data -/
def readBits (b : Bits) (n : Nat) : Option (Nat × Bits) :=
  if b.pos + n > 8 * b.data.size then none
  else
    let v := (List.range n).foldl (fun acc i =>
      let p := b.pos + i
      acc + ((b.data[p / 8]! / 2 ^ (p % 8)) % 2) * 2 ^ i) 0
    some (v, { b with pos := b.pos + n })

/-! ### prefix codes -/

/-- a prefix code as its code lengths (index = symbol) -/
abbrev Code := Array Nat

def maxLen (c : Code) : Nat := c.foldl max 0
def numUsed (c : Code) : Nat := (c.toList.filter (· ≠ 0)).length

/-- Kraft sum scaled by 2^15 -/
def kraft15 (c : Code) : Nat := c.foldl (fun acc l => if l = 0 then acc else acc + 2 ^ (15 - l)) 0

/-- a code is valid if it has exactly one symbol, or is complete (Kraft equality) -/
def Code.valid (c : Code) : Bool := maxLen c ≤ 15 && (numUsed c == 1 || (numUsed c ≥ 2 && kraft15 c == 2 ^ 15))

/-- canonical first code word of each length: `next_code` -/
def nextCodes (c : Code) : Array Nat := Id.run do
  let mut cnt := Array.replicate 17 0
  for l in c do
    if l ≠ 0 then cnt := cnt.modify l (· + 1)
  let mut next := Array.replicate 17 0
  let mut code := 0
  for len in [1:16] do
    code := (code + cnt[len - 1]!) * 2
    next := next.set! len code
  return next

/-- symbols of each length in increasing order get consecutive code words; decode bit by bit
    (code words are transmitted MSB first) -/
def readSymbol (c : Code) (b : Bits) : Option (Nat × Bits) :=
  if numUsed c == 1 then
    -- (*) a code with a single symbol uses zero bits
    some ((c.toList.findIdx (· ≠ 0)), b)
  else
    let next := nextCodes c
    let rec go (len code : Nat) (b : Bits) (fuel : Nat) : Option (Nat × Bits) :=
      match fuel with
      | 0 => none
      | fuel + 1 =>
        match readBits b 1 with
        | none => none
        | some (bit, b) =>
          let code := code * 2 + bit
          let len := len + 1
          -- symbols with this length, in order
          let first := next[len]!
          let syms := (List.range c.size).filter (fun s => c[s]! == len)
          if first ≤ code ∧ code - first < syms.length then some (syms[code - first]!, b)
          else go len code b fuel
    go 0 0 b 15

def codeLengthOrder : List Nat := Gen.Libwebp.kCodeLengthCodeOrder

/-- read one prefix code for an alphabet of `alphabet` symbols -/
def readCode (b : Bits) (alphabet : Nat) : Option (Code × Bits) := do
  let (simple, b) ← readBits b 1
  if simple = 1 then
    let (nsym1, b) ← readBits b 1
    let (first8, b) ← readBits b 1
    let (s0, b) ← readBits b (if first8 = 1 then 8 else 1)
    if s0 ≥ alphabet then none else
    let c : Code := (Array.replicate alphabet 0).set! s0 1
    if nsym1 = 0 then
      some (c, b)
    else
      let (s1, b) ← readBits b 8
      if s1 ≥ alphabet then none else
      -- (*) both symbols get length 1; the same symbol twice is a one-symbol code
      some (c.set! s1 1, b)
  else
    let (n4, b) ← readBits b 4
    let num := 4 + n4
    let mut cl : Code := Array.replicate 19 0
    let mut b := b
    for i in [0:num] do
      let (l, b') ← readBits b 3
      b := b'
      cl := cl.set! (codeLengthOrder[i]!) l
    if !cl.valid then none else
    let (useMax, b') ← readBits b 1
    b := b'
    let mut maxSymbol := alphabet
    if useMax = 1 then
      let (n3, b') ← readBits b 3
      let lengthNbits := 2 + 2 * n3
      let (ms, b'') ← readBits b' lengthNbits
      b := b''
      maxSymbol := 2 + ms
      if maxSymbol > alphabet then none
    let mut lengths : Code := Array.replicate alphabet 0
    let mut sym := 0
    let mut prev := 8
    let mut tokens := maxSymbol
    let mut fuel := alphabet + 1
    while sym < alphabet ∧ tokens > 0 ∧ fuel > 0 do
      fuel := fuel - 1
      tokens := tokens - 1
      let (code, b') ← readSymbol cl b
      b := b'
      if code < 16 then
        lengths := lengths.set! sym code
        sym := sym + 1
        if code ≠ 0 then prev := code
      else
        let (extraBits, off) := if code = 16 then (2, 3) else if code = 17 then (3, 3) else (7, 11)
        let (r, b') ← readBits b extraBits
        b := b'
        let rep := r + off
        if sym + rep > alphabet then none
        let v := if code = 16 then prev else 0
        for _ in [0:rep] do
          lengths := lengths.set! sym v
          sym := sym + 1
    if !lengths.valid then none else
    some (lengths, b)

/-! ### LZ77 prefix coding and the distance map -/

def prefixValue (b : Bits) (sym : Nat) : Option (Nat × Bits) :=
  if sym < 4 then some (sym + 1, b)
  else
    let extra := (sym - 2) / 2
    let offset := (2 + sym % 2) * 2 ^ extra
    match readBits b extra with
    | none => none
    | some (v, b) => some (offset + v + 1, b)

/-- distance code → pixel distance; codes 1..120 address a neighbourhood through the map -/
def distanceOf (xsize code : Nat) : Nat :=
  if code > 120 then code - 120
  else
    let plane := Gen.Libwebp.kCodeToPlane.getD (code - 1) 0
    let yoff : Int := ((plane / 16 : Nat) : Int)
    let xoff : Int := 8 - ((plane % 16 : Nat) : Int)
    let d : Int := xoff + yoff * xsize
    if d < 1 then 1 else d.toNat

/-! ### entropy-coded images -/

def cacheIndex (argb bits : Nat) : Nat := ((0x1e35a7bd * argb) % 2 ^ 32) / 2 ^ (32 - bits)

structure Group where
  codes : Array Code    -- green+len+cache, red, blue, alpha, distance
deriving Repr, Inhabited

def subSize (size bits : Nat) : Nat := (size + 2 ^ bits - 1) / 2 ^ bits

mutual
/-- an entropy-coded image of `xsize × ysize` ARGB pixels; `isArgb` = the main (spatially coded)
    image, which may carry a meta prefix image -/
partial def readImage (b : Bits) (xsize ysize : Nat) (isArgb : Bool) : Option (Array Nat × Bits) := do
  -- colour cache
  let (hasCache, b) ← readBits b 1
  let mut b := b
  let mut cacheBits := 0
  if hasCache = 1 then
    let (cb, b') ← readBits b 4
    b := b'
    if cb < 1 ∨ cb > 11 then none
    cacheBits := cb
  -- meta prefix codes
  let mut prefixBits := 0
  let mut entropy : Array Nat := #[]
  let mut numGroups := 1
  if isArgb then
    let (hasMeta, b') ← readBits b 1
    b := b'
    if hasMeta = 1 then
      let (pb, b') ← readBits b 3
      b := b'
      prefixBits := pb + 2
      let (img, b') ← readImage b (subSize xsize prefixBits) (subSize ysize prefixBits) false
      b := b'
      entropy := img.map fun p => (p / 256) % 65536
      numGroups := entropy.foldl max 0 + 1
  -- the groups
  let alph := [256 + 24 + (if cacheBits = 0 then 0 else 2 ^ cacheBits), 256, 256, 256, 40]
  let mut groups : Array Group := #[]
  for _ in [0:numGroups] do
    let mut codes : Array Code := #[]
    for a in alph do
      let (c, b') ← readCode b a
      b := b'
      codes := codes.push c
    groups := groups.push { codes := codes }
  -- pixels
  let n := xsize * ysize
  let mut px : Array Nat := Array.mkEmpty n
  let mut cache : Array Nat := Array.replicate (if cacheBits = 0 then 0 else 2 ^ cacheBits) 0
  let mut fuel := n + 1
  while px.size < n ∧ fuel > 0 do
    fuel := fuel - 1
    let i := px.size
    let (x, y) := (i % xsize, i / xsize)
    let g := if prefixBits = 0 then groups[0]! else
      groups[entropy[(y / 2 ^ prefixBits) * subSize xsize prefixBits + x / 2 ^ prefixBits]!]!
    let (s, b') ← readSymbol g.codes[0]! b
    b := b'
    if s < 256 then
      let (r, b') ← readSymbol g.codes[1]! b
      let (bl, b'') ← readSymbol g.codes[2]! b'
      let (a, b''') ← readSymbol g.codes[3]! b''
      b := b'''
      let p := a * 2 ^ 24 + r * 2 ^ 16 + s * 2 ^ 8 + bl
      px := px.push p
      if cacheBits ≠ 0 then cache := cache.set! (cacheIndex p cacheBits) p
    else if s < 256 + 24 then
      let (len, b') ← prefixValue b (s - 256)
      let (ds, b'') ← readSymbol g.codes[4]! b'
      let (dcode, b''') ← prefixValue b'' ds
      b := b'''
      let dist := distanceOf xsize dcode
      if dist > i ∨ i + len > n then none
      for _ in [0:len] do
        let p := px[px.size - dist]!
        px := px.push p
        if cacheBits ≠ 0 then cache := cache.set! (cacheIndex p cacheBits) p
    else
      if cacheBits = 0 then none
      let k := s - (256 + 24)
      if k ≥ cache.size then none
      let p := cache[k]!
      px := px.push p
      -- every decoded pixel goes into the cache, including one that came out of it
      cache := cache.set! (cacheIndex p cacheBits) p
  if px.size ≠ n then none else
  some (px, b)
end

/-! ### transforms -/

inductive Transform where
  | predictor (bits : Nat) (data : Array Nat)
  | color (bits : Nat) (data : Array Nat)
  | subtractGreen
  | colorIndexing (table : Array Nat)
deriving Repr

def ch (p k : Nat) : Nat := (p / 2 ^ (8 * k)) % 256     -- k: 0 = blue, 1 = green, 2 = red, 3 = alpha
def mk (a r g b : Nat) : Nat := a * 2 ^ 24 + r * 2 ^ 16 + g * 2 ^ 8 + b

/-- apply `f` per channel -/
def perCh (f : Nat → Nat) : Nat := mk (f 3 % 256) (f 2 % 256) (f 1 % 256) (f 0 % 256)
def addPx (p q : Nat) : Nat := perCh fun k => ch p k + ch q k
def avg2 (p q : Nat) : Nat := perCh fun k => (ch p k + ch q k) / 2
def clamp (v : Int) : Nat := if v < 0 then 0 else if v > 255 then 255 else v.toNat
def select (L T TL : Nat) : Nat :=
  let pa := fun k => ((ch L k : Int) + ch T k - ch TL k)
  let dL := ((List.range 4).map fun k => (pa k - ch L k).natAbs).sum   -- Manhattan distance to L
  let dT := ((List.range 4).map fun k => (pa k - ch T k).natAbs).sum
  if dL < dT then L else T
def clampAddSubFull (a b c : Nat) : Nat := perCh fun k => clamp ((ch a k : Int) + ch b k - ch c k)
/-- `Clamp(a + (a − b) / 2)` with C's truncating division -/
def clampAddSubHalf (a b : Nat) : Nat := perCh fun k => clamp ((ch a k : Int) + Int.tdiv ((ch a k : Int) - ch b k) 2)

/-- the 14 predictors, from the left (L), top (T), top-right (TR), top-left (TL) neighbours -/
def predict (mode L T TR TL : Nat) : Nat :=
  match mode with
  | 0 => 0xff000000
  | 1 => L | 2 => T | 3 => TR | 4 => TL
  | 5 => avg2 (avg2 L TR) T
  | 6 => avg2 L TL | 7 => avg2 L T | 8 => avg2 TL T | 9 => avg2 T TR
  | 10 => avg2 (avg2 L TL) (avg2 T TR)
  | 11 => select L T TL
  | 12 => clampAddSubFull L T TL
  | 13 => clampAddSubHalf (avg2 L T) TL
  | _ => 0xff000000   -- (*) modes 14, 15 are not defined by the specification; libwebp uses mode 0

def inversePredictor (bits : Nat) (data : Array Nat) (w h : Nat) (img : Array Nat) : Array Nat := Id.run do
  let mut out := img
  for i in [0:w * h] do
    let (x, y) := (i % w, i / w)
    let pred :=
      if x = 0 ∧ y = 0 then 0xff000000
      else if y = 0 then out[i - 1]!
      else if x = 0 then out[i - w]!
      else
        let mode := ch (data[(y / 2 ^ bits) * subSize w bits + x / 2 ^ bits]!) 1
        -- the top-right of the rightmost pixel is the leftmost pixel of the current row
        let tr := if x = w - 1 then out[i - w + 1]! else out[i - w + 1]!
        predict mode out[i - 1]! out[i - w]! tr out[i - w - 1]!
    out := out.set! i (addPx out[i]! pred)
  return out

def toInt8 (v : Nat) : Int := if v < 128 then v else (v : Int) - 256
/-- arithmetic shift right by 5 of the signed product -/
def colorDeltaFloor (t c : Nat) : Int := Int.fdiv (toInt8 t * toInt8 c) 32

def inverseColor (bits : Nat) (data : Array Nat) (w h : Nat) (img : Array Nat) : Array Nat := Id.run do
  let mut out := img
  for i in [0:w * h] do
    let (x, y) := (i % w, i / w)
    let e := data[(y / 2 ^ bits) * subSize w bits + x / 2 ^ bits]!
    let (g2r, g2b, r2b) := (ch e 0, ch e 1, ch e 2)
    let p := out[i]!
    let g := ch p 1
    let r := ((ch p 2 : Int) + colorDeltaFloor g2r g) % 256
    let bl0 := ((ch p 0 : Int) + colorDeltaFloor g2b g) % 256
    let bl := (bl0 + colorDeltaFloor r2b r.toNat) % 256
    out := out.set! i (mk (ch p 3) r.toNat g bl.toNat)
  return out

def inverseSubGreen (img : Array Nat) : Array Nat :=
  img.map fun p => mk (ch p 3) ((ch p 2 + ch p 1) % 256) (ch p 1) ((ch p 0 + ch p 1) % 256)

def indexBits (tableSize : Nat) : Nat :=
  if tableSize ≤ 2 then 3 else if tableSize ≤ 4 then 2 else if tableSize ≤ 16 then 1 else 0

def inverseIndexing (table : Array Nat) (w h : Nat) (img : Array Nat) : Array Nat := Id.run do
  let wb := indexBits table.size
  let pw := subSize w wb
  let bpp := 8 / 2 ^ wb
  let mut out := Array.mkEmpty (w * h)
  for i in [0:w * h] do
    let (x, y) := (i % w, i / w)
    let packed := ch (img[y * pw + x / 2 ^ wb]!) 1
    let idx := (packed / 2 ^ (bpp * (x % 2 ^ wb))) % 2 ^ bpp
    -- (*) an index beyond the table is transparent black
    out := out.push (table.getD idx 0)
  return out

/-- the whole stream: signature, size, transforms, image, inverse transforms -/
def decode (bytes : Array Nat) : Option (Nat × Nat × Array Nat) := do
  let b : Bits := { data := bytes, pos := 0 }
  let (sig, b) ← readBits b 8
  if sig ≠ 0x2f then none
  let (w1, b) ← readBits b 14
  let (h1, b) ← readBits b 14
  let (_alpha, b) ← readBits b 1
  let (ver, b) ← readBits b 3
  if ver ≠ 0 then none
  let (w, h) := (w1 + 1, h1 + 1)
  let mut b := b
  let mut xsize := w
  let mut ts : List Transform := []
  let mut seen : List Nat := []
  let mut fuel := 5
  let mut more := true
  while more ∧ fuel > 0 do
    fuel := fuel - 1
    let (present, b') ← readBits b 1
    b := b'
    if present = 0 then more := false
    else
      let (ty, b') ← readBits b 2
      b := b'
      if seen.contains ty then none
      seen := ty :: seen
      if ty = 0 ∨ ty = 1 then
        let (sb, b') ← readBits b 3
        let bits := sb + 2
        let (img, b'') ← readImage b' (subSize xsize bits) (subSize h bits) false
        b := b''
        ts := (if ty = 0 then Transform.predictor bits img else Transform.color bits img) :: ts
      else if ty = 2 then ts := Transform.subtractGreen :: ts
      else
        let (n1, b') ← readBits b 8
        let n := n1 + 1
        let (tab, b'') ← readImage b' n 1 false
        b := b''
        -- the table is difference-coded per channel
        let table := Id.run do
          let mut t := tab
          for i in [1:n] do t := t.set! i (addPx t[i]! t[i - 1]!)
          return t
        ts := Transform.colorIndexing table :: ts
        xsize := subSize xsize (indexBits n)
  let (img, _) ← readImage b xsize h true
  -- `ts` is in reverse order of appearance already; track the width through colour indexing
  let mut cur := img
  let mut curW := xsize
  for t in ts do
    match t with
    | .predictor bits data => cur := inversePredictor bits data curW h cur
    | .color bits data => cur := inverseColor bits data curW h cur
    | .subtractGreen => cur := inverseSubGreen cur
    | .colorIndexing table =>
      cur := inverseIndexing table w h cur
      curW := w
  some (w, h, cur)

/-- RGBA bytes of an ARGB image -/
def toRgba (img : Array Nat) : Array Nat :=
  img.foldl (fun acc p => (((acc.push (ch p 2)).push (ch p 1)).push (ch p 0)).push (ch p 3)) (Array.mkEmpty (4 * img.size))

end VP8L
