import WebpVerif.Gen.Libwebp
/-
Specification: libwebp's BT.601 fixed-point conversion, `src/dsp/yuv.h`
(`MultHi`, `VP8Clip8`, `VP8YUVToR/G/B`) with the constants REGENERATED from that header.
`(v & ~YUV_MASK2) == 0` on a two's-complement `int` is read as `0 ≤ v ≤ YUV_MASK2`
(all bits outside the low 14 are clear iff the value is a non-negative number below 2^14).
-/
namespace YuvSpec
open Gen.Libwebp

def multHi (v coeff : Nat) : Int := ((v * coeff : Nat) : Int) / 256

def yuvMask2 : Int := (256 * 2 ^ YUV_FIX2 : Nat) - 1

def clip8 (v : Int) : Int :=
  if 0 ≤ v ∧ v ≤ yuvMask2 then v / (2 ^ YUV_FIX2 : Nat) else if v < 0 then 0 else 255

def toR (y v : Nat) : Int := clip8 (multHi y kYScale + multHi v kVToR + kRCst)
def toG (y u v : Nat) : Int := clip8 (multHi y kYScale - multHi u kUToG - multHi v kVToG + kGCst)
def toB (y u : Nat) : Int := clip8 (multHi y kYScale + multHi u kUToB + kBCst)

def rgb (c y u v : Nat) : Int := if c = 0 then toR y v else if c = 1 then toG y u v else toB y u

end YuvSpec
