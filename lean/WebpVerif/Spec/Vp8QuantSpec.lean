import WebpVerif.Gen.Libwebp
/-
Reference dequantisation factors (RFC 6386 sections 9.6 and 14.1), transcribed from libwebp's
`VP8ParseQuant` (`src/dec/quant_dec.c`): `clip(q + delta, M)` indexes `kDcTable` / `kAcTable`
(regenerated from the C source).
-/
namespace Vp8QuantSpec

def clip (v : Int) (M : Nat) : Nat := if v < 0 then 0 else if v > M then M else v.toNat

/-- `q` of segment `i` -/
def q (useSegment absoluteDelta : Bool) (quantizer : Int) (baseQ0 : Nat) : Int :=
  if useSegment then (if !absoluteDelta then quantizer + baseQ0 else quantizer) else baseQ0

/-- y1_mat[0], y1_mat[1], y2_mat[0], y2_mat[1], uv_mat[0], uv_mat[1] -/
def matrices (useSegment absoluteDelta : Bool) (quantizer : Int) (baseQ0 : Nat) (dqy1dc dqy2dc dqy2ac dquvdc dquvac : Int) : List Nat :=
  let q := q useSegment absoluteDelta quantizer baseQ0
  let y2ac := (Gen.Libwebp.kAcTable.getD (clip (q + dqy2ac) 127) 0 * Gen.Libwebp.y2acMul) >>> Gen.Libwebp.y2acShift
  [Gen.Libwebp.kDcTable.getD (clip (q + dqy1dc) 127) 0, Gen.Libwebp.kAcTable.getD (clip (q + 0) 127) 0,
   Gen.Libwebp.kDcTable.getD (clip (q + dqy2dc) 127) 0 * 2, if y2ac < 8 then 8 else y2ac,
   Gen.Libwebp.kDcTable.getD (clip (q + dquvdc) Gen.Libwebp.uvdcClip) 0, Gen.Libwebp.kAcTable.getD (clip (q + dquvac) 127) 0]

end Vp8QuantSpec
