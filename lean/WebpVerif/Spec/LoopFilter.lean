/-
RFC 6386 section 15 (loop filter), transcribed from the reference code given in the RFC text:
`c`, `u2s`, `s2u`, `common_adjust` (15.2), `simple_segment` (15.2), `filter_yes`, `hev`,
`subblock_filter`, `MBfilter` (15.3), and the per-macroblock parameter computation of
sections 9.6 / 15.1 as in the RFC's reference decoder.  The RFC works on `int8` values obtained
with `u2s`; `>>` on negative values "is assumed to propagate the sign bit" (floor division).
Import-free.
-/
namespace RFC.LF

abbrev Pixel := Nat

/-- `c(v)`: clamp to the int8 range -/
def c (v : Int) : Int := if v < -128 then -128 else if v < 128 then v else 127
def u2s (v : Pixel) : Int := (v : Int) - 128
def s2u (v : Int) : Pixel := (c v + 128).toNat
def abs (v : Int) : Int := if v < 0 then -v else v

/-- the eight pixels across an edge in the RFC's naming -/
structure Seg where
  P3 : Pixel
  P2 : Pixel
  P1 : Pixel
  P0 : Pixel
  Q0 : Pixel
  Q1 : Pixel
  Q2 : Pixel
  Q3 : Pixel
deriving DecidableEq, Repr

/-- `common_adjust`: new P0, new Q0, returned `a` -/
def commonAdjust (useOuterTaps : Bool) (s : Seg) : Pixel × Pixel × Int :=
  let p1 := u2s s.P1
  let p0 := u2s s.P0
  let q0 := u2s s.Q0
  let q1 := u2s s.Q1
  let a := c ((if useOuterTaps then c (p1 - q1) else 0) + 3 * (q0 - p0))
  let b := (c (a + 3)) / 8
  let a := (c (a + 4)) / 8
  (s2u (p0 + b), s2u (q0 - a), a)

/-- `simple_segment` (on pixel values) -/
def simpleSegment (edgeLimit : Nat) (s : Seg) : Seg :=
  if abs ((s.P0 : Int) - s.Q0) * 2 + abs ((s.P1 : Int) - s.Q1) / 2 ≤ edgeLimit then
    let r := commonAdjust true s
    { s with P0 := r.1, Q0 := r.2.1 }
  else s

/-- `filter_yes(I, E, p3..q3)` on int8 values -/
def filterYes (I E : Nat) (s : Seg) : Bool :=
  let p3 := u2s s.P3; let p2 := u2s s.P2; let p1 := u2s s.P1; let p0 := u2s s.P0
  let q0 := u2s s.Q0; let q1 := u2s s.Q1; let q2 := u2s s.Q2; let q3 := u2s s.Q3
  decide (abs (p0 - q0) * 2 + abs (p1 - q1) / 2 ≤ E)
    && decide (abs (p3 - p2) ≤ I) && decide (abs (p2 - p1) ≤ I) && decide (abs (p1 - p0) ≤ I)
    && decide (abs (q3 - q2) ≤ I) && decide (abs (q2 - q1) ≤ I) && decide (abs (q1 - q0) ≤ I)

/-- `hev(threshold, p1, p0, q0, q1)` -/
def hev (t : Nat) (s : Seg) : Bool :=
  decide (abs (u2s s.P1 - u2s s.P0) > t) || decide (abs (u2s s.Q1 - u2s s.Q0) > t)

/-- `subblock_filter` -/
def subblockFilter (hevT I E : Nat) (s : Seg) : Seg :=
  if filterYes I E s then
    let hv := hev hevT s
    let r := commonAdjust hv s
    let a := (r.2.2 + 1) / 2
    if !hv then { s with P0 := r.1, Q0 := r.2.1, Q1 := s2u (u2s s.Q1 - a), P1 := s2u (u2s s.P1 + a) }
    else { s with P0 := r.1, Q0 := r.2.1 }
  else s

/-- `MBfilter` -/
def mbFilter (hevT I E : Nat) (s : Seg) : Seg :=
  if filterYes I E s then
    if !hev hevT s then
      let p2 := u2s s.P2; let p1 := u2s s.P1; let p0 := u2s s.P0
      let q0 := u2s s.Q0; let q1 := u2s s.Q1; let q2 := u2s s.Q2
      let w := c (c (p1 - q1) + 3 * (q0 - p0))
      let a27 := c ((27 * w + 63) / 128)
      let a18 := c ((18 * w + 63) / 128)
      let a9 := c ((9 * w + 63) / 128)
      { s with Q0 := s2u (q0 - a27), P0 := s2u (p0 + a27), Q1 := s2u (q1 - a18), P1 := s2u (p1 + a18),
               Q2 := s2u (q2 - a9), P2 := s2u (p2 + a9) }
    else
      let r := commonAdjust true s
      { s with P0 := r.1, Q0 := r.2.1 }
  else s

/-- Per-macroblock filter level of a key frame as in the RFC's reference decoder
    (`calculate_filter_parameters`): segment override or adjustment, clamp to 0..63, then - if
    the delta feature is enabled - the delta of the intra reference frame and, for B_PRED, mode
    delta 0, clamp again. -/
def level (frameLevel : Nat) (segEnabled segAbs : Bool) (segLevel : Int) (deltaEnabled : Bool)
    (refDelta0 modeDelta0 : Int) (bpred : Bool) : Int :=
  let l : Int := frameLevel
  let l := if segEnabled then (if segAbs then segLevel else l + segLevel) else l
  let l := if l > 63 then 63 else if l < 0 then 0 else l
  if deltaEnabled then
    let l := l + refDelta0
    let l := if bpred then l + modeDelta0 else l
    if l > 63 then 63 else if l < 0 then 0 else l
  else l

/-- interior limit (section 15.2/15.3 text) -/
def interiorLimit (level sharpness : Nat) : Nat :=
  let i := level
  let i := if sharpness > 0 then
      let i := if sharpness > 4 then i / 4 else i / 2
      if i > 9 - sharpness then 9 - sharpness else i
    else i
  if i = 0 then 1 else i

/-- high-edge-variance threshold for key frames (section 15.3) -/
def hevThreshold (level : Nat) : Nat := if level ≥ 40 then 2 else if level ≥ 15 then 1 else 0

end RFC.LF
