import WebpVerif.Model.Vp8LoopDriver
/-
The reference order of the loop filter (RFC 6386 section 15.2), transcribed from libwebp:
`DoFilter` of `src/dec/frame_dec.c` and the loops of `src/dsp/dec.c` it calls (`FilterLoop26`,
`FilterLoop24`, `VFilter16`, `HFilter16`, `VFilter16i`, `HFilter16i`, `VFilter8`, `HFilter8`,
`VFilter8i`, `HFilter8i`, `SimpleVFilter16`, `SimpleHFilter16`, `SimpleVFilter16i`,
`SimpleHFilter16i`), in libwebp's own pointer style: `p` is an offset into a plane, `hstride` the
distance between the samples across the edge, `vstride` the step along the edge.  What one call
does to the eight samples across the edge (`NeedsFilter2` / `Hev` / `DoFilter2|4|6`) is the kernel
of RFC 6386 section 15, `Vp8K.simple` / `subblock` / `macroblock` (C02.simple_eq etc.).
-/
namespace LibwebpLF
open Vp8K Vp8LF

/-- `FilterLoop26` / `FilterLoop24` / the loops of the simple filters: `size` positions along the edge -/
def filterLoop (f : Edge → Edge) (buf : Array Nat) (p hstride vstride size : Nat) : Array Nat :=
  (List.range size).foldl (fun b i => applyAt f b (p + i * vstride) hstride) buf

def vFilter16 (f : Edge → Edge) (buf : Array Nat) (p stride : Nat) := filterLoop f buf p stride 1 16
def hFilter16 (f : Edge → Edge) (buf : Array Nat) (p stride : Nat) := filterLoop f buf p 1 stride 16
/-- `for (k = 3; k > 0; --k) { p += 4 * stride; FilterLoop24(p, stride, 1, 16, ..); }` -/
def vFilter16i (f : Edge → Edge) (buf : Array Nat) (p stride : Nat) : Array Nat :=
  let buf := filterLoop f buf (p + 4 * stride) stride 1 16
  let buf := filterLoop f buf (p + 4 * stride + 4 * stride) stride 1 16
  filterLoop f buf (p + 4 * stride + 4 * stride + 4 * stride) stride 1 16
/-- `for (k = 3; k > 0; --k) { p += 4; FilterLoop24(p, 1, stride, 16, ..); }` -/
def hFilter16i (f : Edge → Edge) (buf : Array Nat) (p stride : Nat) : Array Nat :=
  let buf := filterLoop f buf (p + 4) 1 stride 16
  let buf := filterLoop f buf (p + 4 + 4) 1 stride 16
  filterLoop f buf (p + 4 + 4 + 4) 1 stride 16
def vFilter8 (f : Edge → Edge) (buf : Array Nat) (p stride : Nat) := filterLoop f buf p stride 1 8
def hFilter8 (f : Edge → Edge) (buf : Array Nat) (p stride : Nat) := filterLoop f buf p 1 stride 8
def vFilter8i (f : Edge → Edge) (buf : Array Nat) (p stride : Nat) := filterLoop f buf (p + 4 * stride) stride 1 8
def hFilter8i (f : Edge → Edge) (buf : Array Nat) (p stride : Nat) := filterLoop f buf (p + 4) 1 stride 8

/-- `DoFilter(dec, mb_x, mb_y)`; `limit = 2 * level + ilevel` (`f_limit_`, 0 when the level is 0),
    `limit + 4` on macroblock edges; planes addressed from the top-left sample of the macroblock -/
def doFilter (isSimple : Bool) (level ilevel hev : Nat) (inner : Bool) (yBps uvBps mbX mbY : Nat) (p : Planes) : Planes :=
  let limit := 2 * level + ilevel
  if level = 0 then p else
  let yDst := mbY * 16 * yBps + mbX * 16
  if isSimple then
    let y := p.y
    let y := if mbX > 0 then hFilter16 (simple (limit + 4)) y yDst yBps else y
    let y := if inner then hFilter16i (simple limit) y yDst yBps else y
    let y := if mbY > 0 then vFilter16 (simple (limit + 4)) y yDst yBps else y
    let y := if inner then vFilter16i (simple limit) y yDst yBps else y
    { p with y := y }
  else
    let uvDst := mbY * 8 * uvBps + mbX * 8
    let p := if mbX > 0 then
      { y := hFilter16 (macroblock hev ilevel (limit + 4)) p.y yDst yBps, u := hFilter8 (macroblock hev ilevel (limit + 4)) p.u uvDst uvBps,
        v := hFilter8 (macroblock hev ilevel (limit + 4)) p.v uvDst uvBps } else p
    let p := if inner then
      { y := hFilter16i (subblock hev ilevel limit) p.y yDst yBps, u := hFilter8i (subblock hev ilevel limit) p.u uvDst uvBps,
        v := hFilter8i (subblock hev ilevel limit) p.v uvDst uvBps } else p
    let p := if mbY > 0 then
      { y := vFilter16 (macroblock hev ilevel (limit + 4)) p.y yDst yBps, u := vFilter8 (macroblock hev ilevel (limit + 4)) p.u uvDst uvBps,
        v := vFilter8 (macroblock hev ilevel (limit + 4)) p.v uvDst uvBps } else p
    if inner then
      { y := vFilter16i (subblock hev ilevel limit) p.y yDst yBps, u := vFilter8i (subblock hev ilevel limit) p.u uvDst uvBps,
        v := vFilter8i (subblock hev ilevel limit) p.v uvDst uvBps }
    else p

end LibwebpLF
