/-
Specification of the ALPH chunk's filtering (container specification, "Alpha"):

  for each pixel, predictor + delta modulo 256, where with A = left, B = top, C = top-left
     method 0: 0      method 1 (horizontal): A      method 2 (vertical): B
     method 3 (gradient): clip(A + B − C) to [0, 255]
  "The top-left value at location (0, 0) uses 0 as predictor value.
   For horizontal or gradient filtering methods, the left-most pixels at location (0, y) are
   predicted using the location (0, y−1) just above.
   For vertical or gradient filtering methods, the top-most pixels at location (x, 0) are
   predicted using the location (x−1, 0) on the left."

Defined by recursion on the raster index over the already reconstructed prefix (planar, no
interleaving).  Import-free.
-/
namespace AlphaSpec

def clip (v : Int) : Nat := (min (max v 0) 255).toNat

/-- predictor of pixel `i = y·w + x` from the reconstructed values `prev` of pixels `0..i-1` -/
def pred (w : Nat) (method : Nat) (prev : List Nat) (i : Nat) : Nat :=
  let x := i % w
  let y := i / w
  let A := prev.getD (i - 1) 0
  let B := prev.getD (i - w) 0
  let C := prev.getD (i - w - 1) 0
  if x = 0 ∧ y = 0 then 0
  else if method = 0 then 0
  else if method = 1 then (if x = 0 then B else A)
  else if method = 2 then (if y = 0 then A else B)
  else (if x = 0 then B else if y = 0 then A else clip ((A : Int) + B - C))

/-- reconstruct the first `n` alpha values from the deltas -/
def reconstruct (w : Nat) (method : Nat) (deltas : List Nat) : Nat → List Nat
  | 0 => []
  | n + 1 =>
    let prev := reconstruct w method deltas n
    prev ++ [(pred w method prev n + deltas.getD n 0) % 256]

end AlphaSpec
