/-
Specification of the RIFF/WebP container layout (container specification, "RIFF header",
"chunk"): a demultiplexer that accepts exactly the byte strings of the form

   'RIFF' size32 'WEBP' chunk*      with  size32 = total length − 8
   chunk = fourcc size32 payload pad      pad = one zero byte iff the payload length is odd

and returns the chunk list.  Import-free.
-/
namespace Riff

def le (bs : List Nat) : Nat := bs.foldr (fun b acc => b + 256 * acc) 0

/-- parse a sequence of chunks covering the whole input exactly -/
def parseChunks : Nat → List Nat → Option (List (List Nat × List Nat))
  | _, [] => some []
  | 0, _ :: _ => none
  | fuel + 1, bytes =>
    if bytes.length < 8 then none else
    let cc := bytes.take 4
    let size := le ((bytes.drop 4).take 4)
    let body := bytes.drop 8
    if body.length < size + size % 2 then none else
    if size % 2 = 1 ∧ body[size]? ≠ some 0 then none else
    match parseChunks fuel (body.drop (size + size % 2)) with
    | none => none
    | some rest => some ((cc, body.take size) :: rest)

structure Parsed where
  riffSize : Nat
  chunks : List (List Nat × List Nat)
deriving DecidableEq, Repr

def ascii (s : String) : List Nat := s.toList.map (·.toNat)

def demux (bytes : List Nat) : Option Parsed :=
  if bytes.take 4 ≠ ascii "RIFF" then none else
  if (bytes.drop 8).take 4 ≠ ascii "WEBP" then none else
  let size := le ((bytes.drop 4).take 4)
  if size + 8 ≠ bytes.length then none else
  match parseChunks bytes.length (bytes.drop 12) with
  | none => none
  | some cs => some { riffSize := size, chunks := cs }

end Riff
