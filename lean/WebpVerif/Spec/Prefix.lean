/-
Specification of canonical prefix codes (WebP lossless specification, "Normal code length code":
codes are assigned from the lengths as in RFC 1951): `bl_count`, `next_code`, then symbols in
increasing order take consecutive code words of their length.  Import-free.
-/
namespace Prefix

/-- Kraft sum scaled by `2^L`: Σ over symbols with non-zero length of `2^(L − len)` -/
def kraft (lengths : List Nat) (L : Nat) : Nat :=
  (lengths.filter (· ≠ 0)).foldl (fun acc l => acc + 2 ^ (L - l)) 0

/-- complete: the code words exhaust the code space exactly (Kraft equality) -/
def Complete (lengths : List Nat) (L : Nat) : Prop :=
  (∀ l ∈ lengths, l ≤ L) ∧ kraft lengths L = 2 ^ L

def blCount (lengths : List Nat) (l : Nat) : Nat := (lengths.filter (· == l)).length

/-- `next_code[len]`: first code word of length `len` -/
def nextCode (lengths : List Nat) : Nat → Nat
  | 0 => 0
  | len + 1 => (nextCode lengths len + (if len = 0 then 0 else blCount lengths len)) * 2

/-- canonical code word (MSB-first value) of symbol `i`: `next_code[len]` plus the number of
    smaller symbols of the same length; symbols of length 0 have no code word -/
def canonicalCode (lengths : List Nat) (i : Nat) : Option Nat :=
  match lengths[i]? with
  | none => none
  | some 0 => none
  | some len => some (nextCode lengths len + ((lengths.take i).filter (· == len)).length)

/-- the bit-reversed code word as it is written LSB-first into the stream -/
def reverseBits (code len : Nat) : Nat :=
  (List.range len).foldl (fun acc k => acc + (code / 2 ^ k % 2) * 2 ^ (len - 1 - k)) 0

end Prefix
