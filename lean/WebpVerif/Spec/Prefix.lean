/-
Specification of canonical prefix codes (WebP lossless specification, "Normal code length code":
codes are assigned from the lengths as in RFC 1951): `bl_count`, `next_code`, then symbols in
increasing order take consecutive code words of their length.  Import-free.
-/
namespace Prefix

/-- Kraft sum scaled by `2^L`: Σ over symbols with non-zero length of `2^(L − len)` -/
def kraft (lengths : List Nat) (L : Nat) : Nat :=
  (lengths.filter (· ≠ 0)).foldl (fun acc l => acc + 2 ^ (L - l)) 0

/-- complete: the code words exhaust the code space exactly (Kraft equality) -/
def Complete (lengths : List Nat) (L : Nat) : Prop :=
  (∀ l ∈ lengths, l ≤ L) ∧ kraft lengths L = 2 ^ L

def blCount (lengths : List Nat) (l : Nat) : Nat := (lengths.filter (· == l)).length

/-- `next_code[len]`: first code word of length `len` -/
def nextCode (lengths : List Nat) : Nat → Nat
  | 0 => 0
  | len + 1 => (nextCode lengths len + (if len = 0 then 0 else blCount lengths len)) * 2

/-- canonical code word (MSB-first value) of symbol `i`: `next_code[len]` plus the number of
    smaller symbols of the same length; symbols of length 0 have no code word -/
def canonicalCode (lengths : List Nat) (i : Nat) : Option Nat :=
  match lengths[i]? with
  | none => none
  | some 0 => none
  | some len => some (nextCode lengths len + ((lengths.take i).filter (· == len)).length)

/-- the bit-reversed code word as it is written LSB-first into the stream -/
def reverseBits (code len : Nat) : Nat :=
  (List.range len).foldl (fun acc k => acc + (code / 2 ^ k % 2) * 2 ^ (len - 1 - k)) 0

/-! ### decoding: one symbol from a stream of bits (code words are matched MSB first)

A proof-friendly statement of "read bits until they form the code word of a symbol": after each
bit the accumulated value is looked up among the canonical code words of that length. -/

/-- least `s < n` with `p s` -/
def findSym (p : Nat → Bool) : Nat → Option Nat
  | 0 => none
  | n + 1 =>
    match findSym p n with
    | some s => some s
    | none => if p n then some n else none

/-- the symbol whose canonical code word is `code` with `len` bits, if any -/
def symbolOf (lengths : List Nat) (len code : Nat) : Option Nat :=
  findSym (fun s => lengths.getD s 0 == len && canonicalCode lengths s == some code) lengths.length

/-- decode one symbol; `len`/`code` = bits accumulated so far; returns the symbol and the rest -/
def decodeSym (lengths : List Nat) : Nat → Nat → Nat → List Nat → Option (Nat × List Nat)
  | 0, _, _, _ => none
  | fuel + 1, len, code, bits =>
    match bits with
    | [] => none
    | b :: rest =>
      match symbolOf lengths (len + 1) (2 * code + b) with
      | some s => some (s, rest)
      | none => decodeSym lengths fuel (len + 1) (2 * code + b) rest

/-- the bits of a code word, most significant first -/
def msbBits (code len : Nat) : List Nat := (List.range len).map fun k => code / 2 ^ (len - 1 - k) % 2

/-- a whole symbol decoder as the lossless specification defines it: a code with one used symbol
    consumes no bits; otherwise bits are read until they match (at most 15) -/
def decodeSymbol (lengths : List Nat) (bits : List Nat) : Option (Nat × List Nat) :=
  if (lengths.filter (· ≠ 0)).length = 1 then some (lengths.findIdx (· ≠ 0), bits)
  else decodeSym lengths 15 0 0 bits

/-- the lengths a decoder accepts: none above 15, and one used symbol or a complete code -/
def validLengths (lengths : List Nat) : Bool :=
  lengths.all (· ≤ 15) &&
    ((lengths.filter (· ≠ 0)).length == 1 || (decide ((lengths.filter (· ≠ 0)).length ≥ 2) && kraft lengths 15 == 2 ^ 15))

/-! ### the same decoder with the canonical code words computed once (for execution;
    `decodeSymT_eq` in Lemmas/PrefixFree.lean proves it equal to `decodeSym`) -/

def codeTable (lengths : List Nat) : Array (Option Nat) :=
  ((List.range lengths.length).map (canonicalCode lengths)).toArray

def symbolOfT (la : Array Nat) (tab : Array (Option Nat)) (len code : Nat) : Option Nat :=
  findSym (fun s => la.getD s 0 == len && tab.getD s none == some code) la.size

def decodeSymT (la : Array Nat) (tab : Array (Option Nat)) : Nat → Nat → Nat → List Nat → Option (Nat × List Nat)
  | 0, _, _, _ => none
  | fuel + 1, len, code, bits =>
    match bits with
    | [] => none
    | b :: rest =>
      match symbolOfT la tab (len + 1) (2 * code + b) with
      | some s => some (s, rest)
      | none => decodeSymT la tab fuel (len + 1) (2 * code + b) rest

end Prefix
