import WebpVerif.Gen.Libwebp
/-
Reference decoding of one DCT coefficient token (RFC 6386 section 13), transcribed from libwebp's
`GetCoeffsFast` / `GetLargeValue` (`src/dec/vp8_dec.c`, offline copy): explicit bit tests on the
eleven probabilities `p[0..10]` of the current band and context instead of a tree walk; the
end-of-block test `p[0]` is skipped right after a zero coefficient; categories 3..6 read their
extra bits with the probabilities of `kCat3` .. `kCat6` (regenerated from the C source).
Generic in the bit source: `bit s prob` returns the next boolean and the new state.
-/
namespace Vp8Tokens

/-- what one token stands for -/
inductive Tok where
  | eob
  | zero
  | value (v : Nat)
deriving DecidableEq, Repr

variable {S : Type}

/-- `for (tab = kCat3456[cat]; *tab; ++tab) v += v + VP8GetBit(br, *tab)` -/
def catBits (bit : S → Nat → Bool × S) : List Nat → S → Nat → Nat × S
  | [], s, v => (v, s)
  | t :: ts, s, v =>
    if t = 0 then (v, s)
    else
      let r := bit s t
      catBits bit ts r.2 (v + v + r.1.toNat)

def kCat3456 (cat : Nat) : List Nat :=
  match cat with
  | 0 => Gen.Libwebp.kCat3
  | 1 => Gen.Libwebp.kCat4
  | 2 => Gen.Libwebp.kCat5
  | _ => Gen.Libwebp.kCat6

/-- `GetLargeValue(br, p)` -/
def getLargeValue (bit : S → Nat → Bool × S) (p : Nat → Nat) (s : S) : Nat × S :=
  let r3 := bit s (p 3)
  if !r3.1 then
    let r4 := bit r3.2 (p 4)
    if !r4.1 then (2, r4.2)
    else
      let r5 := bit r4.2 (p 5)
      (3 + r5.1.toNat, r5.2)
  else
    let r6 := bit r3.2 (p 6)
    if !r6.1 then
      let r7 := bit r6.2 (p 7)
      if !r7.1 then
        let r := bit r7.2 159
        (5 + r.1.toNat, r.2)
      else
        let ra := bit r7.2 165
        let rb := bit ra.2 145
        (7 + 2 * ra.1.toNat + rb.1.toNat, rb.2)
    else
      let r8 := bit r6.2 (p 8)
      let r9 := bit r8.2 (p (9 + r8.1.toNat))
      let cat := 2 * r8.1.toNat + r9.1.toNat
      let rv := catBits bit (kCat3456 cat) r9.2 0
      (rv.1 + 3 + 8 * 2 ^ cat, rv.2)

/-- one coefficient position of `GetCoeffs`: end of block (not tested after a zero), zero, one, or
    a larger value -/
def token (bit : S → Nat → Bool × S) (p : Nat → Nat) (afterZero : Bool) (s : S) : Tok × S :=
  let r0 := if afterZero then (true, s) else bit s (p 0)
  if !r0.1 then (.eob, r0.2)
  else
    let r1 := bit r0.2 (p 1)
    if !r1.1 then (.zero, r1.2)
    else
      let r2 := bit r1.2 (p 2)
      if !r2.1 then (.value 1, r2.2)
      else
        let rv := getLargeValue bit p r2.2
        (.value rv.1, rv.2)

end Vp8Tokens
