import WebpVerif.Spec.Lossless
import WebpVerif.Spec.CodeLengths
/-
The proof-friendly twin of the executable specification `VP8L.decode` (Spec/Lossless.lean): the
same WebP lossless bitstream specification, written as structurally recursive functions over a
list of bits (no `partial`, no mutable loops) so that theorems can be proved about it.  It shares
the arithmetic kernels (`VP8L.predict`, `addPx`, `distanceOf`, `cacheIndex`, …) with
`VP8L.decode`, reads prefix codes with `Prefix.readCodeL` and decodes symbols with
`Prefix.decodeSymbol` (through the parameter `mk`, so that the compiled driver can use the
table-based decoder proved equal to it).  On every run the driver compares it with `VP8L.decode`
(and through that with libwebp and the crate) on every generated stream.

Pixels decoded so far are kept newest first (`rev`), so that the pixel `dist` back is
`rev[dist − 1]` and the neighbours of the predictor transform are `rev[0]` (left), `rev[w − 1]`
(top), `rev[w − 2]` (top right), `rev[w]` (top left).
-/
namespace VP8LP
open Prefix

/-- the symbol decoder of one prefix code -/
abbrev Dec := List Nat → Option (Nat × List Nat)

/-- the specification's symbol decoder for a code given by its lengths -/
def specDec (lengths : List Nat) : Dec := fun bits => decodeSymbol lengths bits

/-- all bits of a byte string, LSB first -/
def bitsOfBytes (bytes : List Nat) : List Nat :=
  bytes.flatMap fun b => (List.range 8).map fun k => b / 2 ^ k % 2

/-- LZ77 prefix coding of lengths and distance codes -/
def prefixValue (sym : Nat) (bits : List Nat) : Option (Nat × List Nat) :=
  if sym < 4 then some (sym + 1, bits)
  else
    match readBitsL ((sym - 2) / 2) bits with
    | none => none
    | some (v, bits) => some ((2 + sym % 2) * 2 ^ ((sym - 2) / 2) + v + 1, bits)

def cacheInsert (cacheBits : Nat) (cache : Array Nat) (p : Nat) : Array Nat :=
  if cacheBits = 0 then cache else cache.setIfInBounds (VP8L.cacheIndex p cacheBits) p

/-- copy `len` pixels from `dist` back, one at a time (overlapping copies repeat), each entering
    the colour cache -/
def copyBack (cacheBits dist : Nat) : Nat → List Nat → Array Nat → List Nat × Array Nat
  | 0, rev, cache => (rev, cache)
  | len + 1, rev, cache =>
    let p := rev.getD (dist - 1) 0
    copyBack cacheBits dist len (p :: rev) (cacheInsert cacheBits cache p)

/-- what the pixel loop of an entropy-coded image needs -/
structure Img where
  xsize : Nat
  n : Nat                      -- number of pixels
  cacheBits : Nat
  prefixBits : Nat             -- 0 = one group
  entropy : Array Nat          -- group index per block
  groups : Array (Array Dec)   -- per group: green+length+cache, red, blue, alpha, distance

def noDec : Dec := fun _ => none

def Img.group (c : Img) (i : Nat) : Array Dec :=
  if c.prefixBits = 0 then c.groups.getD 0 #[]
  else
    let x := i % c.xsize
    let y := i / c.xsize
    c.groups.getD (c.entropy.getD ((y / 2 ^ c.prefixBits) * VP8L.subSize c.xsize c.prefixBits + x / 2 ^ c.prefixBits) 0) #[]

/-- one step of the pixel loop at pixel index `i` with the group `g` selected for that pixel (`rev`
    holds the `i` pixels decoded so far): the new state, or `none` for an invalid stream -/
def stepG (g : Array Dec) (xsize n cacheBits : Nat) (i : Nat) (rev : List Nat) (cache : Array Nat) (bits : List Nat) :
    Option (Nat × List Nat × Array Nat × List Nat) :=
  match (g.getD 0 noDec) bits with
  | none => none
  | some (s, bits) =>
    if s < 256 then
      match (g.getD 1 noDec) bits with
      | none => none
      | some (r, bits) =>
      match (g.getD 2 noDec) bits with
      | none => none
      | some (bl, bits) =>
      match (g.getD 3 noDec) bits with
      | none => none
      | some (a, bits) =>
        let p := a * 2 ^ 24 + r * 2 ^ 16 + s * 2 ^ 8 + bl
        some (i + 1, p :: rev, cacheInsert cacheBits cache p, bits)
    else if s < 256 + 24 then
      match prefixValue (s - 256) bits with
      | none => none
      | some (len, bits) =>
      match (g.getD 4 noDec) bits with
      | none => none
      | some (ds, bits) =>
      match prefixValue ds bits with
      | none => none
      | some (dcode, bits) =>
        let dist := VP8L.distanceOf xsize dcode
        if dist > i ∨ i + len > n then none
        else
          let (rev, cache) := copyBack cacheBits dist len rev cache
          some (i + len, rev, cache, bits)
    else
      if cacheBits = 0 then none
      else if s - (256 + 24) ≥ cache.size then none
      else
        let p := cache.getD (s - (256 + 24)) 0
        some (i + 1, p :: rev, cacheInsert cacheBits cache p, bits)

/-- one step of the pixel loop of the image `c` -/
def step (c : Img) (i : Nat) (rev : List Nat) (cache : Array Nat) (bits : List Nat) :
    Option (Nat × List Nat × Array Nat × List Nat) :=
  stepG (c.group i) c.xsize c.n c.cacheBits i rev cache bits

/-- the pixel loop: until `n` pixels are there; every step produces at least one pixel, so `n`
    steps of fuel always suffice -/
def loop (c : Img) : Nat → Nat → List Nat → Array Nat → List Nat → Option (List Nat × List Nat)
  | fuel, i, rev, cache, bits =>
    if i ≥ c.n then (if i = c.n then some (rev, bits) else none)
    else
      match fuel with
      | 0 => none
      | fuel + 1 =>
        match step c i rev cache bits with
        | none => none
        | some (i, rev, cache, bits) => loop c fuel i rev cache bits

/-- `1..11` colour cache bits, or 0 for "no cache" -/
def readCacheBits (bits : List Nat) : Option (Nat × List Nat) :=
  match readBitsL 1 bits with
  | none => none
  | some (hasCache, bits) =>
    if hasCache = 1 then
      match readBitsL 4 bits with
      | none => none
      | some (cb, bits) => if cb < 1 ∨ cb > 11 then none else some (cb, bits)
    else some (0, bits)

/-- the prefix codes of one group, for the given alphabet sizes -/
def readGroup (mk : List Nat → Dec) : List Nat → Array Dec → List Nat → Option (Array Dec × List Nat)
  | [], acc, bits => some (acc, bits)
  | a :: alph, acc, bits =>
    match readCodeL a bits with
    | none => none
    | some (lens, bits) => readGroup mk alph (acc.push (mk lens)) bits

def alphabets (cacheBits : Nat) : List Nat :=
  [256 + 24 + (if cacheBits = 0 then 0 else 2 ^ cacheBits), 256, 256, 256, 40]

def readGroups (mk : List Nat → Dec) (cacheBits : Nat) : Nat → Array (Array Dec) → List Nat → Option (Array (Array Dec) × List Nat)
  | 0, acc, bits => some (acc, bits)
  | k + 1, acc, bits =>
    match readGroup mk (alphabets cacheBits) #[] bits with
    | none => none
    | some (g, bits) => readGroups mk cacheBits k (acc.push g) bits

/-- the pixels of an entropy-coded image once cache size and meta prefix image are known -/
def readPixels (mk : List Nat → Dec) (xsize ysize cacheBits prefixBits : Nat) (entropy : Array Nat) (numGroups : Nat)
    (bits : List Nat) : Option (List Nat × List Nat) :=
  match readGroups mk cacheBits numGroups #[] bits with
  | none => none
  | some (groups, bits) =>
    let c : Img := { xsize := xsize, n := xsize * ysize, cacheBits := cacheBits, prefixBits := prefixBits,
                     entropy := entropy, groups := groups }
    match loop c (xsize * ysize) 0 [] (Array.replicate (if cacheBits = 0 then 0 else 2 ^ cacheBits) 0) bits with
    | none => none
    | some (rev, bits) => some (rev.reverse, bits)

/-- an entropy-coded sub-image (transform data, colour table, meta prefix image): no meta codes -/
def readSub (mk : List Nat → Dec) (xsize ysize : Nat) (bits : List Nat) : Option (List Nat × List Nat) :=
  match readCacheBits bits with
  | none => none
  | some (cacheBits, bits) => readPixels mk xsize ysize cacheBits 0 #[] 1 bits

/-- the main (spatially coded) image, which may carry a meta prefix image -/
def readMain (mk : List Nat → Dec) (xsize ysize : Nat) (bits : List Nat) : Option (List Nat × List Nat) :=
  match readCacheBits bits with
  | none => none
  | some (cacheBits, bits) =>
    match readBitsL 1 bits with
    | none => none
    | some (hasMeta, bits) =>
      if hasMeta = 1 then
        match readBitsL 3 bits with
        | none => none
        | some (pb, bits) =>
          match readSub mk (VP8L.subSize xsize (pb + 2)) (VP8L.subSize ysize (pb + 2)) bits with
          | none => none
          | some (img, bits) =>
            let entropy := (img.map fun p => (p / 256) % 65536).toArray
            readPixels mk xsize ysize cacheBits (pb + 2) entropy (entropy.foldl max 0 + 1) bits
      else readPixels mk xsize ysize cacheBits 0 #[] 1 bits

/-! ### transforms -/

inductive T where
  | predictor (bits : Nat) (data : Array Nat)
  | color (bits : Nat) (data : Array Nat)
  | subtractGreen
  | colorIndexing (table : Array Nat)

/-- the prediction for pixel `i` from the pixels reconstructed so far (newest first) -/
def predAt (bits : Nat) (data : Array Nat) (w i : Nat) (rev : List Nat) : Nat :=
  let x := i % w
  let y := i / w
  if x = 0 ∧ y = 0 then 0xff000000
  else if y = 0 then rev.getD 0 0
  else if x = 0 then rev.getD (w - 1) 0
  else
    VP8L.predict (VP8L.ch (data.getD ((y / 2 ^ bits) * VP8L.subSize w bits + x / 2 ^ bits) 0) 1)
      (rev.getD 0 0) (rev.getD (w - 1) 0) (rev.getD (w - 2) 0) (rev.getD w 0)

def invPredictor (bits : Nat) (data : Array Nat) (w : Nat) : List Nat → Nat → List Nat → List Nat
  | [], _, rev => rev.reverse
  | p :: rest, i, rev => invPredictor bits data w rest (i + 1) (VP8L.addPx p (predAt bits data w i rev) :: rev)

def invColorPx (e p : Nat) : Nat :=
  let g := VP8L.ch p 1
  let r := ((VP8L.ch p 2 : Int) + VP8L.colorDeltaFloor (VP8L.ch e 0) g) % 256
  let bl0 := ((VP8L.ch p 0 : Int) + VP8L.colorDeltaFloor (VP8L.ch e 1) g) % 256
  let bl := (bl0 + VP8L.colorDeltaFloor (VP8L.ch e 2) r.toNat) % 256
  VP8L.mk (VP8L.ch p 3) r.toNat g bl.toNat

def invColor (bits : Nat) (data : Array Nat) (w : Nat) : List Nat → Nat → List Nat
  | [], _ => []
  | p :: rest, i =>
    invColorPx (data.getD (((i / w) / 2 ^ bits) * VP8L.subSize w bits + (i % w) / 2 ^ bits) 0) p ::
      invColor bits data w rest (i + 1)

def invSubGreenPx (p : Nat) : Nat :=
  VP8L.mk (VP8L.ch p 3) ((VP8L.ch p 2 + VP8L.ch p 1) % 256) (VP8L.ch p 1) ((VP8L.ch p 0 + VP8L.ch p 1) % 256)

def invIndexing (table : Array Nat) (w h : Nat) (img : Array Nat) : List Nat :=
  let wb := VP8L.indexBits table.size
  let pw := VP8L.subSize w wb
  let bpp := 8 / 2 ^ wb
  (List.range (w * h)).map fun i =>
    let x := i % w
    let y := i / w
    let packed := VP8L.ch (img.getD (y * pw + x / 2 ^ wb) 0) 1
    table.getD ((packed / 2 ^ (bpp * (x % 2 ^ wb))) % 2 ^ bpp) 0

/-- the colour table is difference-coded -/
def undiff : List Nat → Nat → List Nat
  | [], _ => []
  | p :: rest, prev => VP8L.addPx p prev :: undiff rest (VP8L.addPx p prev)

/-- apply the inverse transforms, last transform of the stream first; `curW` = current row width -/
def applyT (w h : Nat) : List T → Nat → List Nat → List Nat
  | [], _, cur => cur
  | .predictor bits data :: ts, curW, cur => applyT w h ts curW (invPredictor bits data curW cur 0 [])
  | .color bits data :: ts, curW, cur => applyT w h ts curW (invColor bits data curW cur 0)
  | .subtractGreen :: ts, curW, cur => applyT w h ts curW (cur.map invSubGreenPx)
  | .colorIndexing table :: ts, _, cur => applyT w h ts w (invIndexing table w h cur.toArray)

/-- the transform section: at most one transform of each kind -/
def readTransforms (mk : List Nat → Dec) (h : Nat) : Nat → Nat → List Nat → List T → List Nat → Option (Nat × List T × List Nat)
  | 0, _, _, _, _ => none
  | fuel + 1, xsize, seen, ts, bits =>
    match readBitsL 1 bits with
    | none => none
    | some (present, bits) =>
      if present = 0 then some (xsize, ts, bits)
      else
        match readBitsL 2 bits with
        | none => none
        | some (ty, bits) =>
          if seen.contains ty then none
          else if ty = 0 ∨ ty = 1 then
            match readBitsL 3 bits with
            | none => none
            | some (sb, bits) =>
              match readSub mk (VP8L.subSize xsize (sb + 2)) (VP8L.subSize h (sb + 2)) bits with
              | none => none
              | some (img, bits) =>
                readTransforms mk h fuel xsize (ty :: seen)
                  ((if ty = 0 then T.predictor (sb + 2) img.toArray else T.color (sb + 2) img.toArray) :: ts) bits
          else if ty = 2 then readTransforms mk h fuel xsize (ty :: seen) (T.subtractGreen :: ts) bits
          else
            match readBitsL 8 bits with
            | none => none
            | some (n1, bits) =>
              match readSub mk (n1 + 1) 1 bits with
              | none => none
              | some (tab, bits) =>
                readTransforms mk h fuel (VP8L.subSize xsize (VP8L.indexBits (n1 + 1))) (ty :: seen)
                  (T.colorIndexing (match tab with
                                    | [] => #[]
                                    | p :: rest => (p :: undiff rest p).toArray) :: ts) bits

/-- the whole stream from its bits: signature, size, transforms, image, inverse transforms -/
def decodeBits (mk : List Nat → Dec) (bits : List Nat) : Option (Nat × Nat × List Nat) :=
  match readBitsL 8 bits with
  | none => none
  | some (sig, bits) =>
    if sig ≠ 0x2f then none else
    match readBitsL 14 bits with
    | none => none
    | some (w1, bits) =>
    match readBitsL 14 bits with
    | none => none
    | some (h1, bits) =>
    match readBitsL 1 bits with
    | none => none
    | some (_alpha, bits) =>
    match readBitsL 3 bits with
    | none => none
    | some (ver, bits) =>
      if ver ≠ 0 then none else
      match readTransforms mk (h1 + 1) 5 (w1 + 1) [] [] bits with
      | none => none
      | some (xsize, ts, bits) =>
        match readMain mk xsize (h1 + 1) bits with
        | none => none
        | some (img, _) => some (w1 + 1, h1 + 1, applyT (w1 + 1) (h1 + 1) ts xsize img)

/-- **the specification**: the image a VP8L byte string stands for (ARGB pixels in raster order) -/
def decode (bytes : List Nat) : Option (Nat × Nat × List Nat) := decodeBits specDec (bitsOfBytes bytes)

/-! ### the same with the canonical code words computed once per code (for execution) -/

def tableDec (lengths : List Nat) : Dec :=
  if (lengths.filter (· ≠ 0)).length = 1 then
    let s := lengths.findIdx (· ≠ 0)
    fun bits => some (s, bits)
  else
    let la := lengths.toArray
    let tab := codeTable lengths
    fun bits => decodeSymT la tab 15 0 0 bits

def decodeFast (bytes : List Nat) : Option (Nat × Nat × List Nat) := decodeBits tableDec (bitsOfBytes bytes)

end VP8LP
