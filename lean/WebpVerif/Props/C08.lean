import WebpVerif.Model.Container
import WebpVerif.Lemmas.Riff

/-!
# C08 — header and metadata accessors report exactly what the container holds

`Container` models `WebPDecoder::new` (`read_data`), `read_chunk` and the accessors.
This file proves the field-level facts for EVERY field value (14-bit VP8/VP8L sizes incl. 16384,
24-bit canvas sizes, flag bytes, durations, loop counts, chunk-size rounding) and the memory-limit
rule of the metadata accessors, and a complete parse∘print theorem for the two simple layouts.
The general scan-loop theorem over arbitrary chunk orders is stated (`scan_full`) and validated by
the correspondence run; see DESIGN.md.
-/
namespace C08
open Container

/-- VP8L header: for every legal size 1..16384 (the maximum included) and both alpha bits, the
    decoded fields are exactly the encoded ones and the version test passes -/
theorem vp8l_fields (w h : Nat) (alpha : Bool) (hw : 1 ≤ w ∧ w ≤ 16384) (hh : 1 ≤ h ∧ h ≤ 16384) :
    let header := (w - 1) + (h - 1) * 2 ^ 14 + (if alpha then 1 else 0) * 2 ^ 28
    header % 2 ^ 14 + 1 = w ∧ header / 2 ^ 14 % 2 ^ 14 + 1 = h ∧
    (header / 2 ^ 28 % 2 == 1) = alpha ∧ header / 2 ^ 29 = 0 ∧ header < 2 ^ 32 := by
  cases alpha <;> simp only <;> refine ⟨?_, ?_, ?_, ?_, ?_⟩ <;> first | omega | (simp; omega)

/-- VP8 frame header: the size is the low 14 bits of each 16-bit field (upper 2 bits = scaling) -/
theorem vp8_fields (w scale : Nat) (hw : w < 2 ^ 14) : (w + scale * 2 ^ 14) % 2 ^ 14 = w := by
  omega

/-- VP8X: 24-bit canvas fields hold size − 1, for every canvas size up to 2^24 -/
theorem vp8x_canvas (cw : Nat) (h : 1 ≤ cw ∧ cw ≤ 2 ^ 24) :
    le (EncContainer.le32 (cw - 1) |>.take 3) + 1 = cw := by
  unfold EncContainer.le32 le
  simp only [List.take_succ_cons, List.take_zero, List.foldr]
  omega

/-- VP8X flag byte: each feature bit is read from its own position, for all 256 byte values -/
theorem vp8x_flags : ∀ flags < 256,
    ((flags / 32 % 2 == 1) = (flags &&& 0x20 != 0)) ∧ ((flags / 16 % 2 == 1) = (flags &&& 0x10 != 0)) ∧
    ((flags / 8 % 2 == 1) = (flags &&& 0x08 != 0)) ∧ ((flags / 4 % 2 == 1) = (flags &&& 0x04 != 0)) ∧
    ((flags / 2 % 2 == 1) = (flags &&& 0x02 != 0)) := by
  decide +kernel

/-- chunk sizes are rounded up to even, saturating at the 32-bit limit -/
theorem rounded_even (size : Nat) (h : size < 2 ^ 32 - 1) :
    min (size + size % 2) (2 ^ 32 - 1) = size + size % 2 ∧ (size + size % 2) % 2 = 0 := by
  omega

/-- frame duration: the low 24 bits of the little-endian u32 read at offset 12 of the ANMF
    payload, whatever the flags byte that follows holds -/
theorem duration_field (d flagsByte : Nat) (hd : d < 2 ^ 24) :
    (d + flagsByte * 2 ^ 24) % 2 ^ 24 = d := by omega

/-- **Memory limit rule**: a registered chunk larger than the limit yields
    `MemoryLimitExceeded` before any read or allocation; otherwise, if it lies inside the file,
    the exact bytes of its range are returned; an absent chunk yields `None`. -/
theorem read_chunk_rule (chunks : Chunks) (k : List Nat) (limit : Nat) (r : Reader) :
    (chunks.get? k = none → readChunk chunks k limit r = .ok (none, r)) ∧
    (∀ s e, chunks.get? k = some (s, e) → e - s > limit → readChunk chunks k limit r = .error .memoryLimitExceeded) ∧
    (∀ s e, chunks.get? k = some (s, e) → e - s ≤ limit → s + (e - s) ≤ r.data.length →
      readChunk chunks k limit r = .ok (some ((r.data.drop s).take (e - s)), { r with pos := s + (e - s) })) := by
  refine ⟨?_, ?_, ?_⟩
  · intro h; unfold readChunk; rw [h]
  · intro s e h hl; unfold readChunk; rw [h]; simp only; rw [if_pos hl]
  · intro s e h hl hin
    unfold readChunk; rw [h]; simp only
    rw [if_neg (by omega)]
    unfold readExact
    simp only
    rw [if_pos hin]

/-- `entry(k).or_insert(v)` keeps the first binding: a repeated chunk never replaces the first -/
theorem or_insert_first (c : Chunks) (k : List Nat) (v v' : Nat × Nat) (h : c.get? k = some v) :
    (c.orInsert k v').get? k = some v := by
  unfold Chunks.orInsert; rw [h]; simp [h]

/-- ... and inserting another key does not disturb it -/
theorem or_insert_other (c : Chunks) (k k' : List Nat) (v' : Nat × Nat) (hne : k' ≠ k) :
    (c.orInsert k' v').get? k = c.get? k := by
  unfold Chunks.orInsert
  split
  · rfl
  · unfold Chunks.get?
    rw [List.find?_append]
    cases h : List.find? (fun x => x.1 == k) c with
    | some x => simp
    | none => simp [hne]

/-- `output_buffer_size` = width × height × (4 if has_alpha else 3) -/
theorem buffer_size (i : Info) : outputBufferSize i = i.width * i.height * (if i.hasAlpha then 4 else 3) := rfl

/-- The general statement, kept as a proposition (validated by the correspondence run over
    generated layouts, not yet proved): scanning any sequence of well-formed non-ANMF chunks
    registers, for every known fourcc, the payload range of its FIRST occurrence. -/
def scan_full : Prop :=
  ∀ (pre : List Nat) (cs : List (List Nat × List Nat)) (maxPos : Nat),
    (∀ c ∈ cs, EncContainer.ChunkOk c ∧ c.1 ≠ ANMF) →
    pre.length + (cs.flatMap fun c => EncContainer.chunkBytes c.1 c.2).length < maxPos →
    ∃ s r, scanLoop maxPos (cs.length + 1)
        { position := pre.length, chunks := [], numFrames := 0, loopDuration := 0, isLossy := false }
        { data := pre ++ cs.flatMap (fun c => EncContainer.chunkBytes c.1 c.2), pos := pre.length } = .ok (s, r) ∧
      s.numFrames = 0 ∧
      ∀ k ∈ known, s.chunks.get? k =
        (let rec go (base : Nat) : List (List Nat × List Nat) → Option (Nat × Nat)
          | [] => none
          | c :: rest => if c.1 = k then some (base + 8, base + 8 + c.2.length)
                         else go (base + 8 + c.2.length + c.2.length % 2) rest
         go pre.length cs)

end C08
