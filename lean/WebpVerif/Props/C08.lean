import WebpVerif.Model.Container
import WebpVerif.Lemmas.OpenFile
import WebpVerif.Lemmas.ScanAnim
import WebpVerif.Lemmas.Riff
import WebpVerif.Lemmas.OpenSimple

/-!
# C08 — header and metadata accessors report exactly what the container holds

`Container` models `WebPDecoder::new` (`read_data`), `read_chunk` and the accessors.
This file proves the field-level facts for EVERY field value (14-bit VP8/VP8L sizes incl. 16384,
24-bit canvas sizes, flag bytes, durations, loop counts, chunk-size rounding) and the memory-limit
rule of the metadata accessors, and a complete parse∘print theorem for the two simple layouts.
The scan loop over arbitrary chunk orders (`scan_full`), the whole-file theorem for extended
stills (`open_extended_still`) and the exactness of the metadata accessors (`metadata_exact`) are
proved in Lemmas/Scan.lean and Lemmas/OpenFile.lean; the whole-file theorem for animated files
(`open_animated`: frame count, loop duration, loop count, background, lossy-ness) in Lemmas/ScanAnim.lean.
-/
namespace C08
open Container

/-- VP8L header: for every legal size 1..16384 (the maximum included) and both alpha bits, the
    decoded fields are exactly the encoded ones and the version test passes -/
theorem vp8l_fields (w h : Nat) (alpha : Bool) (hw : 1 ≤ w ∧ w ≤ 16384) (hh : 1 ≤ h ∧ h ≤ 16384) :
    let header := (w - 1) + (h - 1) * 2 ^ 14 + (if alpha then 1 else 0) * 2 ^ 28
    header % 2 ^ 14 + 1 = w ∧ header / 2 ^ 14 % 2 ^ 14 + 1 = h ∧
    (header / 2 ^ 28 % 2 == 1) = alpha ∧ header / 2 ^ 29 = 0 ∧ header < 2 ^ 32 := by
  cases alpha <;> simp only <;> refine ⟨?_, ?_, ?_, ?_, ?_⟩ <;> first | omega | (simp; omega)

/-- VP8 frame header: the size is the low 14 bits of each 16-bit field (upper 2 bits = scaling) -/
theorem vp8_fields (w scale : Nat) (hw : w < 2 ^ 14) : (w + scale * 2 ^ 14) % 2 ^ 14 = w := by
  omega

/-- VP8X: 24-bit canvas fields hold size − 1, for every canvas size up to 2^24 -/
theorem vp8x_canvas (cw : Nat) (h : 1 ≤ cw ∧ cw ≤ 2 ^ 24) :
    le (EncContainer.le32 (cw - 1) |>.take 3) + 1 = cw := by
  unfold EncContainer.le32 le
  simp only [List.take_succ_cons, List.take_zero, List.foldr]
  omega

/-- VP8X flag byte: each feature bit is read from its own position, for all 256 byte values -/
theorem vp8x_flags : ∀ flags < 256,
    ((flags / 32 % 2 == 1) = (flags &&& 0x20 != 0)) ∧ ((flags / 16 % 2 == 1) = (flags &&& 0x10 != 0)) ∧
    ((flags / 8 % 2 == 1) = (flags &&& 0x08 != 0)) ∧ ((flags / 4 % 2 == 1) = (flags &&& 0x04 != 0)) ∧
    ((flags / 2 % 2 == 1) = (flags &&& 0x02 != 0)) := by
  decide +kernel

/-- chunk sizes are rounded up to even, saturating at the 32-bit limit -/
theorem rounded_even (size : Nat) (h : size < 2 ^ 32 - 1) :
    min (size + size % 2) (2 ^ 32 - 1) = size + size % 2 ∧ (size + size % 2) % 2 = 0 := by
  omega

/-- frame duration: the low 24 bits of the little-endian u32 read at offset 12 of the ANMF
    payload, whatever the flags byte that follows holds -/
theorem duration_field (d flagsByte : Nat) (hd : d < 2 ^ 24) :
    (d + flagsByte * 2 ^ 24) % 2 ^ 24 = d := by omega

/-- **Memory limit rule**: a registered chunk larger than the limit yields
    `MemoryLimitExceeded` before any read or allocation; otherwise, if it lies inside the file,
    the exact bytes of its range are returned; an absent chunk yields `None`. -/
theorem read_chunk_rule (chunks : Chunks) (k : List Nat) (limit : Nat) (r : Reader) :
    (chunks.get? k = none → readChunk chunks k limit r = .ok (none, r)) ∧
    (∀ s e, chunks.get? k = some (s, e) → e - s > limit → readChunk chunks k limit r = .error .memoryLimitExceeded) ∧
    (∀ s e, chunks.get? k = some (s, e) → e - s ≤ limit → s + (e - s) ≤ r.data.length →
      readChunk chunks k limit r = .ok (some ((r.data.drop s).take (e - s)), { r with pos := s + (e - s) })) := by
  refine ⟨?_, ?_, ?_⟩
  · intro h; unfold readChunk; rw [h]
  · intro s e h hl; unfold readChunk; rw [h]; simp only; rw [if_pos hl]
  · intro s e h hl hin
    unfold readChunk; rw [h]; simp only
    rw [if_neg (by omega)]
    unfold readExact
    simp only
    rw [if_pos hin]

/-- `entry(k).or_insert(v)` keeps the first binding: a repeated chunk never replaces the first -/
theorem or_insert_first (c : Chunks) (k : List Nat) (v v' : Nat × Nat) (h : c.get? k = some v) :
    (c.orInsert k v').get? k = some v := by
  unfold Chunks.orInsert; rw [h]; simp [h]

/-- ... and inserting another key does not disturb it -/
theorem or_insert_other (c : Chunks) (k k' : List Nat) (v' : Nat × Nat) (hne : k' ≠ k) :
    (c.orInsert k' v').get? k = c.get? k := by
  unfold Chunks.orInsert
  split
  · rfl
  · unfold Chunks.get?
    rw [List.find?_append]
    cases h : List.find? (fun x => x.1 == k) c with
    | some x => simp
    | none => simp [hne]

/-- `output_buffer_size` = width × height × (4 if has_alpha else 3) -/
theorem buffer_size (i : Info) : outputBufferSize i = i.width * i.height * (if i.hasAlpha then 4 else 3) := rfl

/-- **Scan loop, any chunk order**: scanning any sequence of well-formed non-ANMF chunks - known
    ones in any order and multiplicity, unknown ones anywhere, odd sizes padded - terminates
    without error and registers, for every known fourcc, the payload range of its FIRST occurrence. -/
theorem scan_full (pre : List Nat) (cs : List (List Nat × List Nat)) (maxPos : Nat)
    (hall : ∀ c ∈ cs, EncContainer.ChunkOk c ∧ c.1 ≠ ANMF)
    (hmax : pre.length + (ScanProof.layout cs).length < maxPos) :
    ∃ s r, scanLoop maxPos (cs.length + 1)
        { position := pre.length, chunks := [], numFrames := 0, loopDuration := 0, isLossy := false }
        { data := pre ++ ScanProof.layout cs, pos := pre.length } = .ok (s, r) ∧
      s.numFrames = 0 ∧ ∀ k ∈ known, s.chunks.get? k = ScanProof.firstRange k pre.length cs := by
  obtain ⟨s, r, e1, e2, _, _, e5⟩ := ScanProof.scanLoop_spec maxPos cs pre
    { position := pre.length, chunks := [], numFrames := 0, loopDuration := 0, isLossy := false } (cs.length + 1)
    hall hmax (Nat.le_refl _) rfl
  exact ⟨s, r, e1, e2, fun k hk => by rw [e5 k hk]; rfl⟩

/-- **Whole file, extended still**: `WebPDecoder::new` on RIFF header + VP8X chunk (any flags
    byte without the animation bit, any reserved bytes, any canvas up to 2^24 per side) + ANY
    sequence of further chunks that contains what the flags promise and exactly one kind of image
    chunk succeeds and reports the canvas size, the alpha flag, lossy-ness, and for every known
    fourcc the payload range of its first occurrence. -/
theorem open_extended_still (flags r0 r1 r2 cw ch : Nat) (cs : List (List Nat × List Nat))
    (hfl : flags < 256) (hr : r0 < 256 ∧ r1 < 256 ∧ r2 < 256)
    (hcw : 1 ≤ cw ∧ cw ≤ 2 ^ 24) (hch : 1 ≤ ch ∧ ch ≤ 2 ^ 24) (hprod : cw * ch < 2 ^ 32)
    (hall : ∀ c ∈ cs, EncContainer.ChunkOk c ∧ c.1 ≠ ANMF)
    (hsize : 22 + (ScanProof.layout cs).length < 2 ^ 32)
    (hanim : flags / 2 % 2 = 0)
    (hicc : flags / 32 % 2 = 1 → ScanProof.has ICCP cs = true) (hexif : flags / 8 % 2 = 1 → ScanProof.has EXIF cs = true)
    (hxmp : flags / 4 % 2 = 1 → ScanProof.has XMP cs = true) (hone : ScanProof.has VP8 cs ≠ ScanProof.has VP8L cs) :
    ∃ info, openFile (ScanProof.extendedFile flags r0 r1 r2 cw ch cs) = .ok info ∧
      info.width = cw ∧ info.height = ch ∧ info.extended = true ∧ info.animation = false ∧
      info.isLossy = ScanProof.has VP8 cs ∧ info.hasAlpha = (flags / 16 % 2 == 1) ∧ info.numFrames = 0 ∧ info.loopCount = 1 ∧
      ∀ k ∈ known, info.chunks.get? k = ScanProof.firstRange k 30 cs :=
  ScanProof.open_extended flags r0 r1 r2 cw ch cs hfl hr hcw hch hprod hall hsize hanim hicc hexif hxmp hone

/-- **Metadata accessors on such a file** return exactly the payload of the first chunk of that
    name, `MemoryLimitExceeded` iff it is larger than the limit, `None` iff no such chunk exists. -/
theorem metadata_exact (flags r0 r1 r2 cw ch : Nat) (cs : List (List Nat × List Nat)) (info : Info) (k : List Nat) (limit : Nat)
    (hall : ∀ c ∈ cs, EncContainer.ChunkOk c) (hinfo : info.chunks.get? k = ScanProof.firstRange k 30 cs) :
    (ScanProof.firstRange k 30 cs = none → metadata (ScanProof.extendedFile flags r0 r1 r2 cw ch cs) info k limit = .ok none) ∧
    (∀ a b, ScanProof.firstRange k 30 cs = some (a, b) → ∃ c ∈ cs, c.1 = k ∧
      (c.2.length > limit → metadata (ScanProof.extendedFile flags r0 r1 r2 cw ch cs) info k limit = .error .memoryLimitExceeded) ∧
      (c.2.length ≤ limit → metadata (ScanProof.extendedFile flags r0 r1 r2 cw ch cs) info k limit = .ok (some c.2))) :=
  ScanProof.metadata_exact flags r0 r1 r2 cw ch cs info k limit hall hinfo

/-- non-vacuity: a concrete extended file with an unknown chunk, an EXIF chunk of odd size, a
    VP8L chunk and a second EXIF chunk meets the hypotheses; the first EXIF wins -/
example : ScanProof.firstRange EXIF 30 [(fourccOf "JUNK", [1, 2, 3]), (EXIF, [9]), (VP8L, [0x2f, 0, 0, 0, 0]), (EXIF, [7, 7])]
    = some (50, 51) := by decide

/-- **Whole file, animated.** `WebPDecoder::new` on RIFF header + VP8X with the animation bit +
    ANY sequence of ordinary chunks and ANMF frames (each frame: 16 header bytes, the header of
    its first sub-chunk, anything after) containing at least one frame, an ANIM chunk of 6 bytes
    somewhere and what the flags promise, succeeds and reports: the canvas size, the alpha flag,
    `num_frames` = the number of ANMF chunks, `loop_duration` = the sum of the frames' 24-bit
    durations (whatever the flag byte that shares the 32-bit word holds), lossy-ness = some frame
    starts with a VP8 or ALPH sub-chunk, and `loop_count` / background colour (B,G,R,A stored,
    R,G,B,A reported) from the FIRST ANIM chunk - whatever the order of the chunks. -/
theorem open_animated (flags r0 r1 r2 cw ch : Nat) (items : List ScanProof.Item)
    (hfl : flags < 256) (hr : r0 < 256 ∧ r1 < 256 ∧ r2 < 256)
    (hcw : 1 ≤ cw ∧ cw ≤ 2 ^ 24) (hch : 1 ≤ ch ∧ ch ≤ 2 ^ 24) (hprod : cw * ch < 2 ^ 32)
    (hall : ∀ it ∈ items, it.Ok)
    (hsize : 22 + (ScanProof.layout (ScanProof.chunksOf items)).length < 2 ^ 32)
    (hanim : flags / 2 % 2 = 1) (hframes : 0 < ScanProof.numFrames items)
    (hanimc : ScanProof.has ANIM (ScanProof.chunksOf items) = true)
    (hanim6 : ∀ c ∈ ScanProof.chunksOf items, c.1 = ANIM → c.2.length = 6)
    (hicc : flags / 32 % 2 = 1 → ScanProof.has ICCP (ScanProof.chunksOf items) = true)
    (hexif : flags / 8 % 2 = 1 → ScanProof.has EXIF (ScanProof.chunksOf items) = true)
    (hxmp : flags / 4 % 2 = 1 → ScanProof.has XMP (ScanProof.chunksOf items) = true) :
    ∃ info bs, openFile (ScanProof.extendedFile flags r0 r1 r2 cw ch (ScanProof.chunksOf items)) = .ok info ∧
      (∃ c ∈ ScanProof.chunksOf items, c.1 = ANIM ∧ c.2 = bs) ∧
      info.width = cw ∧ info.height = ch ∧ info.extended = true ∧ info.animation = true ∧
      info.hasAlpha = (flags / 16 % 2 == 1) ∧ info.numFrames = ScanProof.numFrames items ∧
      info.loopDuration = ScanProof.durSum items % 2 ^ 64 ∧
      info.isLossy = (ScanProof.anyLossy items || ScanProof.has VP8 (ScanProof.chunksOf items)) ∧
      info.loopCount = bs.getD 4 0 + 256 * bs.getD 5 0 ∧
      info.background = [bs.getD 2 0, bs.getD 1 0, bs.getD 0 0, bs.getD 3 0] ∧
      -- the chunk table after the first frame's sub-chunks were registered: every known name
      -- that is not one of the (at most two) sub-chunk names of the first frame is still bound
      -- to its first top-level occurrence, so `metadata_exact` applies to animated files too
      (∀ s0 e0, ScanProof.firstRange ANMF 30 (ScanProof.chunksOf items) = some (s0, e0) →
        ∀ k ∈ known, (∀ n ∈ ScanProof.frameSubNames (ScanProof.extendedFile flags r0 r1 r2 cw ch (ScanProof.chunksOf items)) s0 e0, n ≠ k) →
          info.chunks.get? k = ScanProof.firstRange k 30 (ScanProof.chunksOf items)) :=
  ScanProof.open_animated flags r0 r1 r2 cw ch items hfl hr hcw hch hprod hall hsize hanim hframes hanimc hanim6 hicc hexif hxmp

/-- **Whole file, simple lossless layout**: RIFF header + one `VP8L` chunk.  For EVERY size
    1..16384 per side and both alpha bits - whatever the declared RIFF and chunk sizes and
    whatever follows the five header bytes - `WebPDecoder::new` succeeds and reports exactly that
    width, height and alpha bit, not lossy, not animated, and the payload range of the chunk. -/
theorem open_simple_lossless (riffSize plen w h : Nat) (alpha : Bool) (body : List Nat)
    (hrs : riffSize < 2 ^ 32) (hpl : plen < 2 ^ 32) (hw : 1 ≤ w ∧ w ≤ 16384) (hh : 1 ≤ h ∧ h ≤ 16384) :
    openFile (ScanProof.simpleLossless riffSize plen w h alpha body) =
      .ok { emptyInfo with width := w, height := h, hasAlpha := alpha, chunks := [(VP8L, (20, 20 + plen))] } :=
  ScanProof.open_simple_lossless riffSize plen w h alpha body hrs hpl hw hh

/-- **Whole file, simple lossy layout**: RIFF header + one `VP8 ` chunk holding a key frame (first
    tag byte even), the start code and the two 16-bit size fields.  For EVERY 14-bit size 1..16383
    and every value of the 2-bit scale fields, the accessors report exactly the 14-bit sizes,
    lossy, no alpha, not animated. -/
theorem open_simple_lossy (riffSize plen t0 t1 t2 w sx h sy : Nat) (body : List Nat)
    (hrs : riffSize < 2 ^ 32) (hpl : plen < 2 ^ 32) (ht : t0 < 256 ∧ t1 < 256 ∧ t2 < 256) (hkey : t0 % 2 = 0)
    (hw : 1 ≤ w ∧ w < 2 ^ 14) (hh : 1 ≤ h ∧ h < 2 ^ 14) (hsx : sx < 4) (hsy : sy < 4) :
    openFile (ScanProof.simpleLossy riffSize plen t0 t1 t2 w sx h sy body) =
      .ok { emptyInfo with width := w, height := h, isLossy := true, chunks := [(VP8, (20, 20 + plen))] } :=
  ScanProof.open_simple_lossy riffSize plen t0 t1 t2 w sx h sy body hrs hpl ht hkey hw hh hsx hsy

-- non-vacuity: a 16384 x 1 lossless header with alpha
example : (openFile (ScanProof.simpleLossless 18 6 16384 1 true [0])).toOption.map
    (fun i => (i.width, i.height, i.hasAlpha, i.isLossy)) = some (16384, 1, true, false) := by decide +kernel

-- non-vacuity of the sub-chunk hypothesis: a frame with an ALPH chunk (odd size 3, padded) and a
-- VP8 chunk registers exactly the names ALPH and VP8 - even though the ALPH payload starts with
-- the bytes of the name "XMP " (the regression of /repo fix a1f51e1)
example : ScanProof.frameSubNames
    (List.replicate 30 0 ++ (ANMF ++ [44, 0, 0, 0] ++ List.replicate 16 0 ++ ALPH ++ [5, 0, 0, 0] ++ [88, 77, 80, 32, 9, 0] ++
      VP8 ++ [2, 0, 0, 0] ++ [1, 2])) 38 82 = [ALPH, VP8] := by decide

end C08
