import WebpVerif.Model.Vp8Coef
import WebpVerif.Lemmas.Arith
import WebpVerif.Lemmas.ArithRfc
import WebpVerif.Spec.BoolDec
import WebpVerif.Gen.Tables

/-!
# C15 — the boolean entropy decoder returns the RFC 6386 bit sequence on every path

`Arith` models `vp8_arithmetic_decoder.rs` (4-byte chunk loads, speculative fast path with
rollback, cold path with the 0..3 trailing bytes and one byte of zero padding).
`BoolDec` is the RFC 6386 §7.3 decoder.

Proved here, for every decoder state / byte string / request:
* path independence: each public read equals the cold (fallback) path, whether or not the
  speculative path commits — so the optimisation is unobservable;
* the register invariant (`128 ≤ range ≤ 255`, `−8 ≤ bit_count ≤ 31`) holds initially and after
  every read, hence every shift amount is legal and every `debug_assert!` holds (C03);
* flags are `read_bool(128)`;
* exhaustion is sticky and leaves the decoder untouched.
The refinement to `BoolDec` itself (`refines_rfc_full`) is proved (`refines_rfc`): both decoders
are finite-precision views of one ideal decoder (Lemmas/ArithRfc.lean).
-/
namespace C15
open Arith

theorem flag_is_bool128 (r : Nat) (h : 1 ≤ r) : r - r / 2 = splitOf r 128 ∧ r - splitOf r 128 = r / 2 :=
  flag_split r h

theorem init_well_formed (data : List Nat) : WF (init data) := init_wf data

/-- `read_bool` = cold path, on every state -/
theorem read_bool_path_independent (d : Dec) (p : Nat) (hp : p < 256) (h : WF d) :
    readBool d p = coldReadBit d p := by
  unfold readBool commitIfValid
  by_cases hc : (fastReadBit d.chunks d.state p).2.chunkIndex ≤ d.chunks.size
  · simp only [hc, if_true]; rw [fast_agrees_bit d p hp h.1 hc]; rfl
  · simp only [hc, if_false]

/-- `read_flag` = cold path = `read_bool(128)` -/
theorem read_flag_path_independent (d : Dec) (h : WF d) : readFlag d = coldReadBit d 128 := by
  unfold readFlag commitIfValid
  by_cases hc : (fastReadFlag d.chunks d.state).2.chunkIndex ≤ d.chunks.size
  · simp only [hc, if_true]; rw [fast_agrees_flag d h.1 hc]; rfl
  · simp only [hc, if_false]

theorem read_literal_path_independent (d : Dec) (n : Nat) (h : WF d) :
    readLiteral d n = coldReadLiteral n d 0 := by
  unfold readLiteral commitIfValid
  by_cases hc : (fastReadLiteral d.chunks n d.state 0).2.chunkIndex ≤ d.chunks.size
  · simp only [hc, if_true]; rw [fast_agrees_literal n d 0 h.1 hc]; rfl
  · simp only [hc, if_false]

theorem read_signed_path_independent (d : Dec) (n : Nat) (h : WF d) :
    readOptionalSigned d n = coldReadSigned d n := by
  unfold readOptionalSigned commitIfValid
  by_cases hc : (fastReadSigned d.chunks d.state n).2.chunkIndex ≤ d.chunks.size
  · simp only [hc, if_true]; rw [fast_agrees_signed d n h.1 hc]; rfl
  · simp only [hc, if_false]

/-- tree-coded reads: if the speculative walk finishes, the public result is the cold walk's -/
theorem read_tree_path_independent (d : Dec) (tree : Array Node)
    (hall : ∀ (k : Nat) (nd : Node), tree[k]? = some nd → nd.prob < 256) (h : WF d)
    (first : Node) (hfirst : tree[0]? = some first) (r : Nat × State)
    (hfast : fastReadTree d.chunks tree (tree.size + 1) d.state first = some r) :
    readWithTree d tree = coldReadTree tree (tree.size + 1) d 0 := by
  unfold readWithTree commitIfValid
  rw [hfirst]; simp only [hfast]
  by_cases hc : r.2.chunkIndex ≤ d.chunks.size
  · simp only [hc, if_true]; rw [fast_agrees_tree tree hall (tree.size + 1) d 0 first hfirst h.1 r hfast hc]; rfl
  · simp only [hc, if_false]

/-- `read_with_tree_with_first_node` (the coefficient-token reads of vp8.rs enter the token tree at
    node 1 after a zero token): the same path independence from EVERY start node -/
theorem read_tree_from_node_path_independent (d : Dec) (tree : Array Node)
    (hall : ∀ (k : Nat) (nd : Node), tree[k]? = some nd → nd.prob < 256) (h : WF d)
    (start : Nat) (first : Node) (hfirst : tree[start]? = some first) (r : Nat × State)
    (hfast : fastReadTree d.chunks tree (tree.size + 1) d.state first = some r) :
    Vp8Coef.readTreeFrom d tree start = coldReadTree tree (tree.size + 1) d start := by
  unfold Vp8Coef.readTreeFrom commitIfValid
  rw [hfirst]; simp only [hfast]
  by_cases hc : r.2.chunkIndex ≤ d.chunks.size
  · simp only [hc, if_true]; rw [fast_agrees_tree tree hall (tree.size + 1) d start first hfirst h.1 r hfast hc]; rfl
  · simp only [hc, if_false]

/-- every read keeps the decoder well-formed (⇒ shift amounts in 0..=31, asserts hold) -/
theorem read_bool_wf (d : Dec) (p : Nat) (hp : p < 256) (h : WF d) : WF (readBool d p).2 := by
  rw [read_bool_path_independent d p hp h]; exact coldReadBit_wf d p hp h

theorem read_flag_wf (d : Dec) (h : WF d) : WF (readFlag d).2 := by
  rw [read_flag_path_independent d h]; exact coldReadBit_wf d 128 (by omega) h

theorem cold_literal_wf (n : Nat) (d : Dec) (v : Nat) (h : WF d) : WF (coldReadLiteral n d v).2 := by
  induction n generalizing d v with
  | zero => exact h
  | succ n ih => unfold coldReadLiteral; exact ih _ _ (coldReadBit_wf d 128 (by omega) h)

theorem read_literal_wf (d : Dec) (n : Nat) (h : WF d) : WF (readLiteral d n).2 := by
  rw [read_literal_path_independent d n h]; exact cold_literal_wf n d 0 h

theorem read_signed_wf (d : Dec) (n : Nat) (h : WF d) : WF (readOptionalSigned d n).2 := by
  rw [read_signed_path_independent d n h]
  unfold coldReadSigned
  have h1 := coldReadBit_wf d 128 (by omega) h
  simp only
  by_cases hf : (!(coldReadBit d 128).1) = true
  · rw [if_pos hf]; exact h1
  · rw [if_neg hf]; exact coldReadBit_wf _ 128 (by omega) (cold_literal_wf n _ 0 h1)

/-- exhaustion is sticky and side-effect free -/
theorem exhaustion_sticky (d : Dec) (p : Nat) (hp : p < 256) (h : WF d) (he : isPastEof d = true) :
    readBool d p = (false, d) := by
  rw [read_bool_path_independent d p hp h]
  exact eof_sticky d p h (by simpa [isPastEof] using he)

/-- the four trees the decoder walks have byte probabilities and valid shape: every branch
    target is either a node index or a leaf (≥ 128) -/
theorem crate_trees_ok :
    (∀ nd ∈ treeNodesFrom Gen.Tables.KEYFRAME_YMODE_TREE Gen.Tables.KEYFRAME_YMODE_PROBS, nd.prob < 256 ∧ (nd.left < 4 ∨ 128 ≤ nd.left) ∧ (nd.right < 4 ∨ 128 ≤ nd.right)) ∧
    (∀ nd ∈ treeNodesFrom Gen.Tables.KEYFRAME_UV_MODE_TREE Gen.Tables.KEYFRAME_UV_MODE_PROBS, nd.prob < 256 ∧ (nd.left < 3 ∨ 128 ≤ nd.left) ∧ (nd.right < 3 ∨ 128 ≤ nd.right)) ∧
    (∀ nd ∈ treeNodesFrom Gen.Tables.SEGMENT_ID_TREE [255, 255, 255], nd.prob < 256 ∧ (nd.left < 3 ∨ 128 ≤ nd.left) ∧ (nd.right < 3 ∨ 128 ≤ nd.right)) ∧
    (∀ ps ∈ Gen.Tables.KEYFRAME_BPRED_MODE_PROBS, ∀ qs ∈ ps,
      ∀ nd ∈ treeNodesFrom Gen.Tables.KEYFRAME_BPRED_MODE_TREE qs, nd.prob < 256 ∧ (nd.left < 9 ∨ 128 ≤ nd.left) ∧ (nd.right < 9 ∨ 128 ≤ nd.right)) := by
  decide +kernel

/-- The property at full strength (proved below as `refines_rfc`): on every byte string whose
    first byte is not 0xFF and every request program, the model's answers equal the RFC decoder's
    until exhaustion, and exhaustion is reported after the same request. -/
def toSpec : Arith.Req → BoolDec.Req
  | .bool p => .bool p | .flag => .flag | .literal n => .literal n | .signed n => .signed n
  | .tree t ps => .tree t ps

/-- the five tree shapes of the decoder: key-frame luma modes, chroma modes, segment ids, sub-block
    modes and DCT tokens -/
def crateTrees : List (List Int) :=
  [Gen.Tables.KEYFRAME_YMODE_TREE, Gen.Tables.KEYFRAME_UV_MODE_TREE, Gen.Tables.SEGMENT_ID_TREE,
   Gen.Tables.KEYFRAME_BPRED_MODE_TREE, Gen.Tables.DCT_TOKEN_TREE]

/-- the requests the theorem quantifies over: any probability for single bits, literals and
    signed values of up to 8 bits, and each of the decoder's five tree shapes with ANY node
    probabilities (the fixed tables of the mode trees and every value the per-frame probability
    updates of the token tree can produce) -/
def ReqOk : Arith.Req → Prop
  | .bool p => p < 256 | .flag => True | .literal n => n ≤ 8 | .signed n => n ≤ 8
  | .tree t ps => t ∈ crateTrees ∧ ps.length = t.length / 2 ∧ ∀ p ∈ ps, p < 256

def refines_rfc_full : Prop :=
  ∀ (data : List Nat) (reqs : List Arith.Req),
    (∀ b ∈ data, b < 256) → data.head? ≠ some 255 → (∀ r ∈ reqs, ReqOk r) →
    BoolDec.agreeUntilExhausted (Arith.run (Arith.init data) reqs)
      (BoolDec.run (BoolDec.init data) (reqs.map toSpec)) = true

/-- the structural part of `treeGood` (everything but the probabilities) -/
def shapeGood (t : List Int) : Bool :=
  t.length % 2 == 0 && decide (t.length / 2 ≤ 128) && decide (0 < t.length) &&
  (List.range t.length).all (fun i => ArithRfc.entryGood t.length i (t.getD i 0))

theorem crate_shapes_good : ∀ t ∈ crateTrees, shapeGood t = true := by decide +kernel

/-- the decoder's five tree shapes have, with any node probabilities, the RFC shape the walk
    lemmas need -/
theorem reqok_tree_good (t : List Int) (ps : List Nat) (h : ReqOk (.tree t ps)) : ArithRfc.treeGood t ps = true := by
  obtain ⟨ht, hl, hp⟩ := h
  have hs := crate_shapes_good t ht
  unfold shapeGood at hs
  unfold ArithRfc.treeGood
  simp only [Bool.and_eq_true, beq_iff_eq, decide_eq_true_eq, List.all_eq_true] at hs ⊢
  obtain ⟨⟨⟨h1, h2⟩, h3⟩, h4⟩ := hs
  exact ⟨⟨⟨⟨⟨h1, by omega⟩, h2⟩, h3⟩, h4⟩, fun p hpp => by simpa using hp p hpp⟩

open ArithRfc in
theorem step_sim (data : List Nat) (hb : ∀ b ∈ data, b < 256) (r : Arith.Req) (hok : ReqOk r)
    (d : Dec) (s : BoolDec.St) (h : Sim data d s) :
    ∃ v d' v' s', Arith.step d r = some (v, d') ∧ BoolDec.step s (toSpec r) = some (v', s') ∧ Sim data d' s' ∧
      (isPastEof d' = false → v = v') := by
  have hwf : WF d := h.2.1
  cases r with
  | bool p =>
    have hp : p < 256 := hok
    obtain ⟨a, b, _⟩ := sim_bit data hb d s p hp h
    refine ⟨_, _, _, _, rfl, rfl, ?_, ?_⟩
    · show Sim data (readBool d p).2 (BoolDec.readBool s p).2
      rw [read_bool_path_independent d p hp hwf]; exact a
    · show isPastEof (readBool d p).2 = false → (((readBool d p).1.toNat : Nat) : Int) = (((BoolDec.readBool s p).1.toNat : Nat) : Int)
      rw [read_bool_path_independent d p hp hwf]
      intro he; rw [(b he).2]
  | flag =>
    obtain ⟨a, b, _⟩ := sim_bit data hb d s 128 (by omega) h
    refine ⟨_, _, _, _, rfl, rfl, ?_, ?_⟩
    · show Sim data (readFlag d).2 (BoolDec.readFlag s).2
      rw [read_flag_path_independent d hwf]; exact a
    · show isPastEof (readFlag d).2 = false → (((readFlag d).1.toNat : Nat) : Int) = (((BoolDec.readFlag s).1.toNat : Nat) : Int)
      rw [read_flag_path_independent d hwf]
      intro he; rw [(b he).2]; rfl
  | literal n =>
    have hn : n ≤ 8 := hok
    obtain ⟨a, b⟩ := sim_literal data hb n d s 0 0 0 h (by decide) (by omega) (fun _ => rfl)
    refine ⟨_, _, _, _, rfl, rfl, ?_, ?_⟩
    · show Sim data (readLiteral d n).2 (BoolDec.readLiteral n s 0).2
      rw [read_literal_path_independent d n hwf]; exact a
    · show isPastEof (readLiteral d n).2 = false → (((readLiteral d n).1 : Nat) : Int) = (((BoolDec.readLiteral n s 0).1 : Nat) : Int)
      rw [read_literal_path_independent d n hwf]
      intro he; rw [(b he).2]
  | signed n =>
    have hn : n ≤ 8 := hok
    obtain ⟨a, b⟩ := sim_signed data hb n hn d s h
    refine ⟨_, _, _, _, rfl, rfl, ?_, ?_⟩
    · show Sim data (readOptionalSigned d n).2 (BoolDec.readSigned s n).2
      rw [read_signed_path_independent d n hwf]; exact a
    · show isPastEof (readOptionalSigned d n).2 = false → (readOptionalSigned d n).1 = (BoolDec.readSigned s n).1
      rw [read_signed_path_independent d n hwf]
      exact b
  | tree t ps =>
    have f := treeFacts t ps (reqok_tree_good t ps hok)
    have hall : ∀ (k : Nat) (nd : Node), (nodesOf t ps)[k]? = some nd → nd.prob < 256 := by
      intro k nd hk
      have hlt : k < t.length / 2 := by
        rw [← f.size]
        by_contra hge
        rw [Array.getElem?_eq_none (Nat.not_lt.mp hge)] at hk
        exact absurd hk (by simp)
      rw [f.node k hlt] at hk
      rw [← Option.some.inj hk]
      exact f.prob k hlt
    have hfirst := f.node 0 f.pos
    obtain ⟨r, hfast⟩ := fast_tree_total t ps f d.chunks (t.length / 2) ((nodesOf t ps).size + 1) 0 d.state _
      (by omega) (by rw [f.size]; omega) f.pos hfirst
    have hpi := read_tree_path_independent d (nodesOf t ps) hall hwf _ hfirst r hfast
    obtain ⟨v, d', v', s', e1, e2, e3, e4⟩ := tree_sim t ps f data hb (t.length / 2) ((nodesOf t ps).size + 1) (t.length + 1) 0 d s
      (by omega) (by rw [f.size]; omega) (by omega) f.pos h
    refine ⟨(v : Int), d', (v' : Int), s', ?_, ?_, e3, fun he => by rw [e4 he]⟩
    · show (readWithTree d (nodesOf t ps)).map (fun (x : Nat × Dec) => ((x.1 : Int), x.2)) = some ((v : Int), d')
      rw [hpi, e1]; rfl
    · show (BoolDec.readTree t ps (t.length + 1) s 0).map (fun (x : Nat × BoolDec.St) => ((x.1 : Int), x.2)) = some ((v' : Int), s')
      rw [show (0 : Nat) = 2 * 0 from rfl, e2]; rfl

open ArithRfc in
theorem run_sim (data : List Nat) (hb : ∀ b ∈ data, b < 256) (reqs : List Arith.Req) :
    ∀ (d : Dec) (s : BoolDec.St), Sim data d s → (∀ r ∈ reqs, ReqOk r) →
      BoolDec.agreeUntilExhausted (Arith.run d reqs) (BoolDec.run s (reqs.map toSpec)) = true := by
  induction reqs with
  | nil => intro d s _ _; rfl
  | cons r rs ih =>
    intro d s h hall
    have hok := hall r (List.mem_cons_self ..)
    obtain ⟨v, d', v', s', e1, e2, hs, hv⟩ := step_sim data hb r hok d s h
    have hfl := sim_flags data d' s' hs
    simp only [List.map_cons, Arith.run, BoolDec.run, e1, e2, BoolDec.agreeUntilExhausted]
    rw [← hfl]
    cases he : isPastEof d' with
    | true => simp
    | false =>
      simp only [Bool.or_self, Bool.false_eq_true, if_false, Bool.and_eq_true, beq_iff_eq]
      exact ⟨hv he, ih d' s' hs (fun r hr => hall r (List.mem_cons_of_mem _ hr))⟩

/-- **Coefficient-token reads.**  `read_with_tree_with_first_node` on the DCT token tree with ANY
    node probabilities, entered at the root or - after a zero token, where an end-of-block is
    impossible - at node 1 (tree index 2, as RFC 6386 section 13.2 prescribes): the value and the
    decoder state it leaves simulate the RFC's `treed_read` from that index, on every path (speculative
    or fallback) and up to exhaustion -/
theorem token_read_refines_rfc (data : List Nat) (hb : ∀ b ∈ data, b < 256) (ps : List Nat) (hl : ps.length = 11)
    (hp : ∀ p ∈ ps, p < 256) (start : Nat) (hs : start < 11) (d : Dec) (s : BoolDec.St) (h : ArithRfc.Sim data d s) :
    ∃ v d' v' s', Vp8Coef.readTreeFrom d (ArithRfc.nodesOf Gen.Tables.DCT_TOKEN_TREE ps) start = some (v, d') ∧
      BoolDec.readTree Gen.Tables.DCT_TOKEN_TREE ps 12 s (2 * start) = some (v', s') ∧ ArithRfc.Sim data d' s' ∧
      (isPastEof d' = false → v = v') := by
  have hgood : ArithRfc.treeGood Gen.Tables.DCT_TOKEN_TREE ps = true :=
    reqok_tree_good _ _ ⟨by decide, by rw [hl]; decide, hp⟩
  have f := ArithRfc.treeFacts _ _ hgood
  have hlen : Gen.Tables.DCT_TOKEN_TREE.length / 2 = 11 := by decide
  have hsz : (ArithRfc.nodesOf Gen.Tables.DCT_TOKEN_TREE ps).size = 11 := by rw [f.size, hlen]
  have hnode := f.node start (by rw [hlen]; exact hs)
  obtain ⟨r, hfast⟩ := ArithRfc.fast_tree_total _ _ f d.chunks 11 12 start d.state _ (by rw [hlen]; omega) (by omega)
    (by rw [hlen]; exact hs) hnode
  have hall : ∀ (k : Nat) (nd : Node), (ArithRfc.nodesOf Gen.Tables.DCT_TOKEN_TREE ps)[k]? = some nd → nd.prob < 256 := by
    intro k nd hk
    have hk' : k < 11 := by
      have := (Array.getElem?_eq_some_iff.mp hk).1
      rw [hsz] at this; exact this
    rw [f.node k (by rw [hlen]; exact hk')] at hk
    injection hk with hk
    rw [← hk]
    exact f.prob k (by rw [hlen]; exact hk')
  have hpi := read_tree_from_node_path_independent d _ hall h.2.1 start _ hnode r (by rw [hsz]; exact hfast)
  rw [hsz] at hpi
  obtain ⟨v, d', v', s', h1, h2, h3, h4⟩ := ArithRfc.tree_sim _ _ f data hb 11 12 12 start d s (by rw [hlen]; omega) (by omega) (by omega)
    (by rw [hlen]; exact hs) h
  exact ⟨v, d', v', s', by rw [hpi]; exact h1, h2, h3, h4⟩

/-- **Refinement to RFC 6386 section 7.3 (the property at full strength).** For every byte
    string whose first byte is not 0xFF and every program of requests - booleans with any byte
    probability, flags, literals and optional signed values of up to 8 bits, and reads with any
    of the decoder's four trees under their (100 + 3) probability vectors - the crate's decoder
    (chunked 64-bit register, speculative fast path with rollback, cold path, trailing bytes, one
    tolerated pad byte) returns exactly the values of the RFC's decoder after every request until
    the data is exhausted, and reports exhaustion after exactly the request at which the RFC
    decoder's decisions first depend on more than one byte past the end. -/
theorem refines_rfc : refines_rfc_full := by
  intro data reqs hb h255 hok
  exact run_sim data hb reqs _ _ (ArithRfc.sim_init data hb h255) hok

-- non-vacuity / regression: the crate's own unit-test vectors, through model and specification
example : (Arith.run (Arith.init [0x68, 0x65, 0x6c]) [.flag, .bool 10, .bool 250, .literal 1, .literal 3, .literal 8, .literal 8]).map (·.1)
    = [0, 1, 0, 1, 5, 64, 185] := by decide
example : (BoolDec.run (BoolDec.init [0x68, 0x65, 0x6c]) [.flag, .bool 10, .bool 250, .literal 1, .literal 3, .literal 8, .literal 8]).map (·.1)
    = [0, 1, 0, 1, 5, 64, 185] := by decide
example : WF (Arith.init [0x68, 0x65, 0x6c, 0x6c, 0x6f]) := init_wf _

end C15
