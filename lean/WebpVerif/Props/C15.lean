import WebpVerif.Lemmas.Arith
import WebpVerif.Spec.BoolDec
import WebpVerif.Gen.Tables

/-!
# C15 — the boolean entropy decoder returns the RFC 6386 bit sequence on every path

`Arith` models `vp8_arithmetic_decoder.rs` (4-byte chunk loads, speculative fast path with
rollback, cold path with the 0..3 trailing bytes and one byte of zero padding).
`BoolDec` is the RFC 6386 §7.3 decoder.

Proved here, for every decoder state / byte string / request:
* path independence: each public read equals the cold (fallback) path, whether or not the
  speculative path commits — so the optimisation is unobservable;
* the register invariant (`128 ≤ range ≤ 255`, `−8 ≤ bit_count ≤ 31`) holds initially and after
  every read, hence every shift amount is legal and every `debug_assert!` holds (C03);
* flags are `read_bool(128)`;
* exhaustion is sticky and leaves the decoder untouched.
The refinement to `BoolDec` itself is stated (`refines_rfc_full`) and, in this pass, validated by
the correspondence run (exhaustive for short strings) rather than proved.
-/
namespace C15
open Arith

theorem flag_is_bool128 (r : Nat) (h : 1 ≤ r) : r - r / 2 = splitOf r 128 ∧ r - splitOf r 128 = r / 2 :=
  flag_split r h

theorem init_well_formed (data : List Nat) : WF (init data) := init_wf data

/-- `read_bool` = cold path, on every state -/
theorem read_bool_path_independent (d : Dec) (p : Nat) (hp : p < 256) (h : WF d) :
    readBool d p = coldReadBit d p := by
  unfold readBool commitIfValid
  by_cases hc : (fastReadBit d.chunks d.state p).2.chunkIndex ≤ d.chunks.size
  · simp only [hc, if_true]; rw [fast_agrees_bit d p hp h.1 hc]; rfl
  · simp only [hc, if_false]

/-- `read_flag` = cold path = `read_bool(128)` -/
theorem read_flag_path_independent (d : Dec) (h : WF d) : readFlag d = coldReadBit d 128 := by
  unfold readFlag commitIfValid
  by_cases hc : (fastReadFlag d.chunks d.state).2.chunkIndex ≤ d.chunks.size
  · simp only [hc, if_true]; rw [fast_agrees_flag d h.1 hc]; rfl
  · simp only [hc, if_false]

theorem read_literal_path_independent (d : Dec) (n : Nat) (h : WF d) :
    readLiteral d n = coldReadLiteral n d 0 := by
  unfold readLiteral commitIfValid
  by_cases hc : (fastReadLiteral d.chunks n d.state 0).2.chunkIndex ≤ d.chunks.size
  · simp only [hc, if_true]; rw [fast_agrees_literal n d 0 h.1 hc]; rfl
  · simp only [hc, if_false]

theorem read_signed_path_independent (d : Dec) (n : Nat) (h : WF d) :
    readOptionalSigned d n = coldReadSigned d n := by
  unfold readOptionalSigned commitIfValid
  by_cases hc : (fastReadSigned d.chunks d.state n).2.chunkIndex ≤ d.chunks.size
  · simp only [hc, if_true]; rw [fast_agrees_signed d n h.1 hc]; rfl
  · simp only [hc, if_false]

/-- tree-coded reads: if the speculative walk finishes, the public result is the cold walk's -/
theorem read_tree_path_independent (d : Dec) (tree : Array Node)
    (hall : ∀ (k : Nat) (nd : Node), tree[k]? = some nd → nd.prob < 256) (h : WF d)
    (first : Node) (hfirst : tree[0]? = some first) (r : Nat × State)
    (hfast : fastReadTree d.chunks tree (tree.size + 1) d.state first = some r) :
    readWithTree d tree = coldReadTree tree (tree.size + 1) d 0 := by
  unfold readWithTree commitIfValid
  rw [hfirst]; simp only [hfast]
  by_cases hc : r.2.chunkIndex ≤ d.chunks.size
  · simp only [hc, if_true]; rw [fast_agrees_tree tree hall (tree.size + 1) d 0 first hfirst h.1 r hfast hc]; rfl
  · simp only [hc, if_false]

/-- every read keeps the decoder well-formed (⇒ shift amounts in 0..=31, asserts hold) -/
theorem read_bool_wf (d : Dec) (p : Nat) (hp : p < 256) (h : WF d) : WF (readBool d p).2 := by
  rw [read_bool_path_independent d p hp h]; exact coldReadBit_wf d p hp h

theorem read_flag_wf (d : Dec) (h : WF d) : WF (readFlag d).2 := by
  rw [read_flag_path_independent d h]; exact coldReadBit_wf d 128 (by omega) h

theorem cold_literal_wf (n : Nat) (d : Dec) (v : Nat) (h : WF d) : WF (coldReadLiteral n d v).2 := by
  induction n generalizing d v with
  | zero => exact h
  | succ n ih => unfold coldReadLiteral; exact ih _ _ (coldReadBit_wf d 128 (by omega) h)

theorem read_literal_wf (d : Dec) (n : Nat) (h : WF d) : WF (readLiteral d n).2 := by
  rw [read_literal_path_independent d n h]; exact cold_literal_wf n d 0 h

theorem read_signed_wf (d : Dec) (n : Nat) (h : WF d) : WF (readOptionalSigned d n).2 := by
  rw [read_signed_path_independent d n h]
  unfold coldReadSigned
  have h1 := coldReadBit_wf d 128 (by omega) h
  simp only
  by_cases hf : (!(coldReadBit d 128).1) = true
  · rw [if_pos hf]; exact h1
  · rw [if_neg hf]; exact coldReadBit_wf _ 128 (by omega) (cold_literal_wf n _ 0 h1)

/-- exhaustion is sticky and side-effect free -/
theorem exhaustion_sticky (d : Dec) (p : Nat) (hp : p < 256) (h : WF d) (he : isPastEof d = true) :
    readBool d p = (false, d) := by
  rw [read_bool_path_independent d p hp h]
  exact eof_sticky d p h (by simpa [isPastEof] using he)

/-- the four trees the decoder walks have byte probabilities and valid shape: every branch
    target is either a node index or a leaf (≥ 128) -/
theorem crate_trees_ok :
    (∀ nd ∈ treeNodesFrom Gen.Tables.KEYFRAME_YMODE_TREE Gen.Tables.KEYFRAME_YMODE_PROBS, nd.prob < 256 ∧ (nd.left < 4 ∨ 128 ≤ nd.left) ∧ (nd.right < 4 ∨ 128 ≤ nd.right)) ∧
    (∀ nd ∈ treeNodesFrom Gen.Tables.KEYFRAME_UV_MODE_TREE Gen.Tables.KEYFRAME_UV_MODE_PROBS, nd.prob < 256 ∧ (nd.left < 3 ∨ 128 ≤ nd.left) ∧ (nd.right < 3 ∨ 128 ≤ nd.right)) ∧
    (∀ nd ∈ treeNodesFrom Gen.Tables.SEGMENT_ID_TREE [255, 255, 255], nd.prob < 256 ∧ (nd.left < 3 ∨ 128 ≤ nd.left) ∧ (nd.right < 3 ∨ 128 ≤ nd.right)) ∧
    (∀ ps ∈ Gen.Tables.KEYFRAME_BPRED_MODE_PROBS, ∀ qs ∈ ps,
      ∀ nd ∈ treeNodesFrom Gen.Tables.KEYFRAME_BPRED_MODE_TREE qs, nd.prob < 256 ∧ (nd.left < 9 ∨ 128 ≤ nd.left) ∧ (nd.right < 9 ∨ 128 ≤ nd.right)) := by
  decide +kernel

/-- The property at full strength (NOT yet a theorem in this pass; validated by the
    correspondence run, exhaustively for all strings of length ≤ 2/3): on every byte string whose
    first byte is not 0xFF and every request program, the model's answers equal the RFC decoder's
    until exhaustion, and exhaustion is reported after the same request. -/
def toSpec : Arith.Req → BoolDec.Req
  | .bool p => .bool p | .flag => .flag | .literal n => .literal n | .signed n => .signed n
  | .tree t ps => .tree t ps

def ReqOk : Arith.Req → Prop
  | .bool p => p < 256 | .flag => True | .literal n => n ≤ 8 | .signed n => n ≤ 8
  | .tree t ps => (t, ps) ∈ [(Gen.Tables.KEYFRAME_YMODE_TREE, Gen.Tables.KEYFRAME_YMODE_PROBS),
      (Gen.Tables.KEYFRAME_UV_MODE_TREE, Gen.Tables.KEYFRAME_UV_MODE_PROBS), (Gen.Tables.SEGMENT_ID_TREE, [255, 255, 255])]
      ∨ (t = Gen.Tables.KEYFRAME_BPRED_MODE_TREE ∧ ∃ ps' ∈ Gen.Tables.KEYFRAME_BPRED_MODE_PROBS, ps ∈ ps')

def refines_rfc_full : Prop :=
  ∀ (data : List Nat) (reqs : List Arith.Req),
    (∀ b ∈ data, b < 256) → data.head? ≠ some 255 → (∀ r ∈ reqs, ReqOk r) →
    BoolDec.agreeUntilExhausted (Arith.run (Arith.init data) reqs)
      (BoolDec.run (BoolDec.init data) (reqs.map toSpec)) = true

-- non-vacuity / regression: the crate's own unit-test vectors, through model and specification
example : (Arith.run (Arith.init [0x68, 0x65, 0x6c]) [.flag, .bool 10, .bool 250, .literal 1, .literal 3, .literal 8, .literal 8]).map (·.1)
    = [0, 1, 0, 1, 5, 64, 185] := by decide
example : (BoolDec.run (BoolDec.init [0x68, 0x65, 0x6c]) [.flag, .bool 10, .bool 250, .literal 1, .literal 3, .literal 8, .literal 8]).map (·.1)
    = [0, 1, 0, 1, 5, 64, 185] := by decide
example : WF (Arith.init [0x68, 0x65, 0x6c, 0x6c, 0x6f]) := init_wf _

end C15
