import WebpVerif.Lemmas.BitReader
import WebpVerif.Model.EncContainer

/-!
# C10 — results independent of reader chunking; I/O faults surface as errors

Theorem part.  `BitReader` models `lossless::BitReader` over a `BufRead` that exposes an
arbitrary non-empty prefix of the remaining bytes at each `fill_buf` (the `expose` schedule).
The two refill paths — one unaligned 8-byte look-ahead, or one byte at a time — are proved to
leave the same position and bit count, and the reservoir is proved to hold a valid window of the
stream in both (stale look-ahead bits above `nbits` are real upcoming bits, so OR-ing them again
is idempotent).  Hence every `read_bits` / `fill` / `peek`+`consume` script returns the same
values and fails at the same request under EVERY pair of schedules.

What is not a theorem (checked by enumeration on every run, see the evidence): that `std`'s
`read_exact`/`Take`/`Seek` honour their contracts, that the Rust code has a `?` at every I/O
call, and the behaviour of the whole decoder over chunking readers with a fault injected at
every I/O call index.
-/
namespace C10
open BitReader

/-- `nbits | 56` equals what the byte-at-a-time path reaches: both refill paths agree -/
theorem fill_paths_agree : ∀ n < 64, n ||| 56 = n + 8 * ((63 - n) / 8) := or56

/-- position and bit count after `fill` are the same for every schedule -/
theorem fill_schedule_independent (data : List Nat) (e1 e2 : Nat → Nat) (br : BR) (h : br.nbits ≤ 63) :
    (fill data e1 br).pos = (fill data e2 br).pos ∧ (fill data e1 br).nbits = (fill data e2 br).nbits := by
  obtain ⟨a1, a2⟩ := fill_shape data e1 br h
  obtain ⟨b1, b2⟩ := fill_shape data e2 br h
  exact ⟨by rw [a1, b1], by rw [a2, b2]⟩

/-- scripts of the requests whose results the decoder relies on (everything but the raw
    `peek_full`, whose bits above `nbits` are look-ahead) -/
def noPeekFull : List Op → Bool
  | [] => true
  | .peekFull :: _ => false
  | _ :: ops => noPeekFull ops

/-- **Schedule independence.**  For every byte string, every pair of `fill_buf` schedules and
    every script, started from states that agree on position and bit count and satisfy the window
    invariant (in particular from the initial state), the two runs return the same values and the
    same error, request by request. -/
theorem schedule_independent_from (data : List Nat) (hb : ∀ b ∈ data, b < 256) (e1 e2 : Nat → Nat)
    (ops : List Op) (hops : noPeekFull ops = true) :
    ∀ (a b : BR), Same a b → Inv data a → Inv data b → run data e1 a ops = run data e2 b ops := by
  induction ops with
  | nil => intro a b _ _ _; rfl
  | cons op ops ih =>
    intro a b hab ia ib
    cases op with
    | read n =>
      have hops' : noPeekFull ops = true := by simpa [noPeekFull] using hops
      simp only [run]
      rcases readBits_same data hb e1 e2 a b n hab ia ib with ⟨h1, h2⟩ | ⟨v, a', b', h1, h2, hs, ia', ib'⟩
      · rw [h1, h2]
      · rw [h1, h2]; simp only; rw [ih hops' a' b' hs ia' ib']
    | fill =>
      have hops' : noPeekFull ops = true := by simpa [noPeekFull] using hops
      simp only [run]
      rw [ih hops' _ _ (fill_same data e1 e2 a b hab ia.2.2.1) (fill_inv data hb e1 a ia) (fill_inv data hb e2 b ib)]
    | peekConsume n =>
      have hops' : noPeekFull ops = true := by simpa [noPeekFull] using hops
      simp only [run]
      by_cases hlt : a.nbits < n
      · have hltb : b.nbits < n := by rw [← hab.2]; exact hlt
        simp [consume, hlt, hltb]
      · have hltb : ¬ b.nbits < n := by rw [← hab.2]; exact hlt
        have ca : consume a n = some { a with buffer := a.buffer >>> n, nbits := a.nbits - n } := by
          unfold consume; rw [if_neg hlt]
        have cb : consume b n = some { b with buffer := b.buffer >>> n, nbits := b.nbits - n } := by
          unfold consume; rw [if_neg hltb]
        obtain ⟨ia2, pa, na, _⟩ := consume_inv data a _ n ia ca
        obtain ⟨ib2, pb, nb, _⟩ := consume_inv data b _ n ib cb
        rw [ca, cb]
        simp only
        have hv : peek a n = peek b n := by
          rw [peek_value data a n ia (by omega), peek_value data b n ib (by omega), hab.1, hab.2]
        rw [hv, ih hops' _ _ ⟨by rw [pa, pb, hab.1], by rw [na, nb, hab.2]⟩ ia2 ib2]
    | peekFull => simp [noPeekFull] at hops

theorem schedule_independent (data : List Nat) (hb : ∀ b ∈ data, b < 256) (e1 e2 : Nat → Nat)
    (ops : List Op) (hops : noPeekFull ops = true) :
    run data e1 init ops = run data e2 init ops :=
  schedule_independent_from data hb e1 e2 ops hops init init ⟨rfl, rfl⟩ (inv_init data) (inv_init data)

/-- and the values returned are the stream's bits: `read_bits(n)` on a reader holding at least
    `n` bits returns bits `[bitpos, bitpos + n)` of the byte string (LSB-first) -/
theorem read_bits_value (data : List Nat) (br : BR) (n : Nat) (h : Inv data br) (hn : n ≤ br.nbits) :
    peek br n = (le64 data >>> (8 * br.pos - br.nbits)) % 2 ^ n := peek_value data br n h hn

/-! ### the encoder's sink -/

/-- `write_all` calls against a sink that fails at call `failAt` (if any): the `?` chain -/
def runWrites : List (List Nat) → Nat → Option Nat → Except Unit (List Nat)
  | [], _, _ => .ok []
  | w :: ws, k, failAt =>
    if failAt = some k then .error ()
    else match runWrites ws (k + 1) failAt with
      | .ok rest => .ok (w ++ rest)
      | .error e => .error e

/-- without a fault the sink receives exactly the file: the concatenation of the writes, however
    the sink splits each `write_all` internally -/
theorem writes_concat (ws : List (List Nat)) (k : Nat) : runWrites ws k none = .ok ws.flatten := by
  induction ws generalizing k with
  | nil => rfl
  | cons w ws ih => simp [runWrites, ih]

/-- a failing call makes the whole encode fail -/
theorem first_fault_propagates (ws : List (List Nat)) (k j : Nat) (h : k ≤ j) (hj : j < k + ws.length) :
    runWrites ws k (some j) = .error () := by
  induction ws generalizing k with
  | nil => simp at hj; omega
  | cons w ws ih =>
    unfold runWrites
    by_cases hk : j = k
    · subst hk; simp
    · have : ¬ (some j = some k) := by simpa using hk
      rw [if_neg this, ih (k + 1) (by omega) (by simp at hj; omega)]

theorem encode_is_concat (frame icc exif xmp : List Nat) (w h : Nat) (a : Bool) :
    runWrites (EncContainer.encodeWrites frame icc exif xmp w h a) 0 none =
      .ok (EncContainer.encode frame icc exif xmp w h a) := writes_concat _ 0

-- non-vacuity: the crate's own bit reader test vector, under two very different schedules
example : run [0x9C, 0x41, 0xE1] (fun _ => 1) init [.read 3, .read 2, .read 6, .read 10, .read 3] =
    [some 4, some 3, some 12, some 40, some 7] := by decide
example : run [0x9C, 0x41, 0xE1] (fun _ => 1) init [.read 3, .read 2, .read 6, .read 10, .read 3] =
    run [0x9C, 0x41, 0xE1] (fun _ => 1000) init [.read 3, .read 2, .read 6, .read 10, .read 3] :=
  schedule_independent _ (by decide) _ _ _ rfl

end C10
