import WebpVerif.Lemmas.Yuv
import WebpVerif.Gen.Tables

/-!
# C13 — YUV→RGB conversion equals libwebp's for every sample triple

`YuvSpec` is libwebp's `yuv.h` arithmetic with constants regenerated from that header on every
run; `Yuv` is the model of the crate's writers; `Gen.Tables.YUV_*` are the literals re-extracted
from `/repo/src/vp8.rs` on every run.
-/
namespace C13
open Yuv

/-- the literals found in the two Rust writers are the ones the model uses (and both writers
    use the same ones); re-checked against the regenerated tables on every run -/
theorem consts_from_code :
    Gen.Tables.YUV_FILL_RGB_ROW_MULHI_Y = [19077] ∧ Gen.Tables.YUV_FILL_RGB_ROW_MULHI_U = [33050, 6419] ∧
    Gen.Tables.YUV_FILL_RGB_ROW_MULHI_V = [13320, 26149] ∧ Gen.Tables.YUV_FILL_RGB_ROW_OFFSETS = [8708, -14234, -17685] ∧
    Gen.Tables.YUV_FILL_RGBA_ROW_MULHI_Y = [19077] ∧ Gen.Tables.YUV_FILL_RGBA_ROW_MULHI_U = [33050, 6419] ∧
    Gen.Tables.YUV_FILL_RGBA_ROW_MULHI_V = [13320, 26149] ∧ Gen.Tables.YUV_FILL_RGBA_ROW_OFFSETS = [8708, -14234, -17685] ∧
    Gen.Tables.YUV_FIX2 = 6 := by decide

/-- kernel: for EVERY (Y, U, V) — not only bytes — each colour equals libwebp's -/
theorem rgb_kernel (c y u v : Nat) : (rgb c y u v : Int) = YuvSpec.rgb c y u v := by
  unfold rgb YuvSpec.rgb
  split
  · exact r_eq y v
  · split
    · exact g_eq y u v
    · exact b_eq y u

/-- the kernel produces bytes -/
theorem rgb_byte (c y u v : Nat) : rgb c y u v < 256 := by
  have h : ∀ z : Int, clip z < 256 := by intro z; unfold clip; omega
  unfold rgb r g b; split
  · exact h _
  · split <;> exact h _

/-- three-channel row writer: pixel `x` (first of a pair, second of a pair, or the odd tail)
    gets the kernel of luma `x` and chroma `x/2`; the row keeps its length -/
theorem row_rgb (ys us vs out : List Nat) (hlen : out.length = 3 * ys.length)
    (hu : (ys.length + 1) / 2 ≤ us.length) (hv : (ys.length + 1) / 2 ≤ vs.length) :
    (fillRgbRow ys us vs out).length = out.length ∧
    ∀ x c, x < ys.length → c < 3 →
      (fillRgbRow ys us vs out)[3 * x + c]? =
        some (rgb c (ys.getD x 0) (us.getD (x / 2) 0) (vs.getD (x / 2) 0)) :=
  ⟨fillRgbRow_length _ _ _ _, fun x c hx hc => fillRgbRow_get ys us vs out hlen hu hv x c hx hc⟩

/-- four-channel row writer: same colours, and the alpha byte is left as found -/
theorem row_rgba (ys us vs out : List Nat) (hlen : out.length = 4 * ys.length)
    (hu : (ys.length + 1) / 2 ≤ us.length) (hv : (ys.length + 1) / 2 ≤ vs.length) :
    (fillRgbaRow ys us vs out).length = out.length ∧
    ∀ x, x < ys.length →
      (∀ c, c < 3 → (fillRgbaRow ys us vs out)[4 * x + c]? =
        some (rgb c (ys.getD x 0) (us.getD (x / 2) 0) (vs.getD (x / 2) 0))) ∧
      (fillRgbaRow ys us vs out)[4 * x + 3]? = out[4 * x + 3]? := by
  refine ⟨fillRgbaRow_length _ _ _ _, fun x hx => ⟨fun c hc => ?_, ?_⟩⟩
  · have := fillRgbaRow_get ys us vs out hlen hu hv x c hx (by omega)
    rw [this]; simp; omega
  · have := fillRgbaRow_get ys us vs out hlen hu hv x 3 hx (by omega)
    rw [this]; simp

private theorem geom (w h x y : Nat) (hx : x < w) (hy : y < h) :
    (y + 1) * w ≤ w * h ∧ ((w + 1) / 2) * (y / 2) + (w + 1) / 2 ≤ ((w + 1) / 2) * ((h + 1) / 2) := by
  constructor
  · calc (y + 1) * w ≤ h * w := Nat.mul_le_mul (by omega) (Nat.le_refl _)
      _ = w * h := Nat.mul_comm _ _
  · calc ((w + 1) / 2) * (y / 2) + (w + 1) / 2 = ((w + 1) / 2) * (y / 2 + 1) := by rw [Nat.mul_succ]
      _ ≤ ((w + 1) / 2) * ((h + 1) / 2) := Nat.mul_le_mul (Nat.le_refl _) (by omega)

/-- `fill_rgb`: pixel (x, y) of the output is the kernel of luma (x, y) and chroma (x/2, y/2),
    for every width and height (any parity, 1-pixel rows/columns included) -/
theorem frame_rgb (w h : Nat) (ybuf ubuf vbuf buf : List Nat)
    (hyl : ybuf.length = w * h) (hul : ubuf.length = ((w + 1) / 2) * ((h + 1) / 2))
    (hvl : vbuf.length = ((w + 1) / 2) * ((h + 1) / 2)) (hbl : buf.length = 3 * w * h)
    (x y c : Nat) (hx : x < w) (hy : y < h) (hc : c < 3) :
    (fillRgb w ybuf ubuf vbuf buf)[(y * w + x) * 3 + c]? =
      some (rgb c (ybuf.getD (y * w + x) 0) (ubuf.getD (((w + 1) / 2) * (y / 2) + x / 2) 0)
        (vbuf.getD (((w + 1) / 2) * (y / 2) + x / 2) 0)) := by
  obtain ⟨g1, g2⟩ := geom w h x y hx hy
  have hw : 0 < 3 * w := by omega
  have hrows : buf.length / (3 * w) = h := by
    rw [hbl]; exact Nat.mul_div_cancel_left h hw
  have hidx : (y * w + x) * 3 + c = y * (3 * w) + (3 * x + c) := by
    rw [Nat.add_mul, Nat.mul_assoc, Nat.mul_comm w 3, Nat.mul_comm x 3]; omega
  unfold fillRgb
  rw [hrows, hidx, fillRows_get fillRgbRow fillRgbRow_length 3 w _ ybuf ubuf vbuf h 0 buf hbl y hy (3 * x + c) (by omega)]
  simp only [Nat.zero_add]
  have hys : ((ybuf.drop (y * w)).take w).length = w := by
    rw [List.length_take, List.length_drop]; rw [Nat.succ_mul] at g1; omega
  have hus : (w + 1) / 2 ≤ (ubuf.drop (((w + 1) / 2) * (y / 2))).length := by
    rw [List.length_drop]; omega
  have hvs : (w + 1) / 2 ≤ (vbuf.drop (((w + 1) / 2) * (y / 2))).length := by
    rw [List.length_drop]; omega
  have hos : ((buf.drop (y * (3 * w))).take (3 * w)).length = 3 * ((ybuf.drop (y * w)).take w).length := by
    rw [hys, List.length_take, List.length_drop, hbl]
    have : y * (3 * w) + 3 * w ≤ 3 * w * h := by
      calc y * (3 * w) + 3 * w = (y + 1) * (3 * w) := by rw [Nat.add_mul, Nat.one_mul]
        _ ≤ h * (3 * w) := Nat.mul_le_mul (by omega) (Nat.le_refl _)
        _ = 3 * w * h := Nat.mul_comm _ _
    omega
  rw [fillRgbRow_get _ _ _ _ hos (by rw [hys]; exact hus) (by rw [hys]; exact hvs) x c (by rw [hys]; exact hx) hc]
  rw [getD_drop_take _ _ _ _ hx, getD_drop, getD_drop]

/-- `fill_rgba`: same colours; the alpha byte of every pixel is whatever the buffer held -/
theorem frame_rgba (w h : Nat) (ybuf ubuf vbuf buf : List Nat)
    (hyl : ybuf.length = w * h) (hul : ubuf.length = ((w + 1) / 2) * ((h + 1) / 2))
    (hvl : vbuf.length = ((w + 1) / 2) * ((h + 1) / 2)) (hbl : buf.length = 4 * w * h)
    (x y c : Nat) (hx : x < w) (hy : y < h) (hc : c < 4) :
    (fillRgba w ybuf ubuf vbuf buf)[(y * w + x) * 4 + c]? =
      if c = 3 then buf[(y * w + x) * 4 + 3]?
      else some (rgb c (ybuf.getD (y * w + x) 0) (ubuf.getD (((w + 1) / 2) * (y / 2) + x / 2) 0)
        (vbuf.getD (((w + 1) / 2) * (y / 2) + x / 2) 0)) := by
  obtain ⟨g1, g2⟩ := geom w h x y hx hy
  have hw : 0 < 4 * w := by omega
  have hrows : buf.length / (4 * w) = h := by
    rw [hbl]; exact Nat.mul_div_cancel_left h hw
  have hidx : ∀ c, (y * w + x) * 4 + c = y * (4 * w) + (4 * x + c) := by
    intro c; rw [Nat.add_mul, Nat.mul_assoc, Nat.mul_comm w 4, Nat.mul_comm x 4]; omega
  unfold fillRgba
  rw [hrows, hidx c, fillRows_get fillRgbaRow fillRgbaRow_length 4 w _ ybuf ubuf vbuf h 0 buf hbl y hy (4 * x + c) (by omega)]
  simp only [Nat.zero_add]
  have hys : ((ybuf.drop (y * w)).take w).length = w := by
    rw [List.length_take, List.length_drop]; rw [Nat.succ_mul] at g1; omega
  have hus : (w + 1) / 2 ≤ (ubuf.drop (((w + 1) / 2) * (y / 2))).length := by
    rw [List.length_drop]; omega
  have hvs : (w + 1) / 2 ≤ (vbuf.drop (((w + 1) / 2) * (y / 2))).length := by
    rw [List.length_drop]; omega
  have hbnd : y * (4 * w) + 4 * w ≤ 4 * w * h := by
    calc y * (4 * w) + 4 * w = (y + 1) * (4 * w) := by rw [Nat.add_mul, Nat.one_mul]
      _ ≤ h * (4 * w) := Nat.mul_le_mul (by omega) (Nat.le_refl _)
      _ = 4 * w * h := Nat.mul_comm _ _
  have hos : ((buf.drop (y * (4 * w))).take (4 * w)).length = 4 * ((ybuf.drop (y * w)).take w).length := by
    rw [hys, List.length_take, List.length_drop, hbl]; omega
  rw [fillRgbaRow_get _ _ _ _ hos (by rw [hys]; exact hus) (by rw [hys]; exact hvs) x c (by rw [hys]; exact hx) hc]
  rw [getD_drop_take _ _ _ _ hx, getD_drop, getD_drop]
  split
  · rw [hidx 3, List.getElem?_take, if_pos (by omega), List.getElem?_drop]
  · rfl

-- non-vacuity: a 3×3 frame (odd width and height, so pair / pair-second / tail all occur)
example : fillRgb 3 [16, 128, 235, 81, 145, 41, 210, 170, 106] [90, 240, 54, 34] [240, 110, 34, 128]
    (List.replicate 27 7) =
    [179, 0, 0, 255, 54, 54, 226, 226, 255, 254, 0, 0, 255, 74, 74, 0, 0, 255, 76, 255, 77, 29, 255, 30, 105, 142, 0] := by
  decide
example : (fillRgba 2 [81, 145] [90] [240] [1, 2, 3, 4, 5, 6, 7, 8]) = [254, 0, 0, 4, 255, 74, 74, 8] := by decide

end C13
