import WebpVerif.Lemmas.EncHuff
import WebpVerif.Lemmas.EncHuffCodes
import WebpVerif.Lemmas.EncHuffTree
import WebpVerif.Lemmas.EncHuffLimit
import WebpVerif.Lemmas.EncHuffDepth
import WebpVerif.Lemmas.CodeBits
import WebpVerif.Lemmas.HuffTotal
import WebpVerif.Props.C01

/-!
# C14 — encoder prefix codes are complete, length-limited and canonical for any histogram

`EncHuff.build` models `build_huffman_tree` (heap-based merge with std's tie-breaking, depth
walk, length limiting, canonical code assignment with the final `assert_eq!`).
-/
namespace C14
open EncHuff

def isSingle : Result → Bool | .single => true | _ => false
def outputOf : Result → Option (List Nat × List Nat) | .built l c => some (l.toList, c.toList) | _ => none

/-- fewer than two used symbols are signalled (the caller then writes a single-symbol code) -/
theorem lt2_signalled (freqs : List Nat) (limit : Nat) (h : (freqs.filter (· > 0)).length ≤ 1) :
    build freqs limit = .single := by
  unfold build; rw [if_pos h]

/-- ... and two or more are not -/
theorem ge2_not_single (freqs : List Nat) (limit : Nat) (h : 2 ≤ (freqs.filter (· > 0)).length) :
    isSingle (build freqs limit) = false := by
  unfold build; rw [if_neg (by omega)]
  cases limitLengths freqs (treeLengths freqs) limit with
  | none => rfl
  | some lengths =>
    simp only
    by_cases hf : (assignCodes lengths limit).2 ≠ 2 * 2 ^ limit
    · rw [if_pos hf]; rfl
    · rw [if_neg hf]; rfl

/-- **Kraft equality of the unlimited code**: the leaf depths of ANY binary tree — whatever
    the heap's tie-breaking produced — sum to exactly one: `Σ 2^(L − depth) = 2^L`. -/
theorem tree_kraft (t : Tree) (L : Nat) (h : ∀ p ∈ depths t 0, p.2 ≤ L) :
    kraftOf (depths t 0) L = 2 ^ L := by
  have := depths_kraft t 0 L h; simpa using this

/-- every symbol of a tree with at least two leaves gets a length ≥ 1 -/
theorem tree_lengths_pos (l r : Tree) : ∀ p ∈ depths (.node l r) 0, 1 ≤ p.2 := depths_pos l r

/-- one iteration of the limiting loop lowers the scaled Kraft sum by exactly one, so the loop
    ends with equality, never below it -/
theorem limit_move (limit i : Nat) (hi : i + 1 ≤ limit) :
    2 ^ (limit - i) + 2 ^ (limit - limit) = 2 * 2 ^ (limit - (i + 1)) + 1 :=
  move_lowers_by_one limit i hi

/-- **Final assert ⇔ Kraft equality**: for lengths within the limit, the value `code` that the
    closing `assert_eq!(code, 2 << length_limit)` tests is exactly twice the scaled Kraft sum; so
    the assert passes iff the lengths form a complete code -/
theorem final_assert_is_kraft (lengths : Array Nat) (limit : Nat) (h : ∀ l ∈ lengths.toList, l ≤ limit) :
    (assignCodes lengths limit).2 = 2 * Prefix.kraft lengths.toList limit ∧
    ((assignCodes lengths limit).2 = 2 * 2 ^ limit ↔ Prefix.kraft lengths.toList limit = 2 ^ limit) := by
  have e := final_eq_kraft lengths limit h
  exact ⟨e, by rw [e]; omega⟩

/-- **Canonical code words**: for lengths within the limit whose Kraft sum does not exceed the
    code space, every used symbol receives the lossless specification's canonical code word
    (`next_code[len]` + rank among equal lengths), bit-reversed for the LSB-first stream; all
    lengths and limits up to 16 -/
theorem codes_canonical (lengths : Array Nat) (limit : Nat) (hlim : limit ≤ 16)
    (hall : ∀ l ∈ lengths.toList, l ≤ limit) (hk : Prefix.kraft lengths.toList limit ≤ 2 ^ limit) :
    ∀ j, j < lengths.size → lengths[j]! ≠ 0 →
      some (assignCodes lengths limit).1[j]! =
        (Prefix.canonicalCode lengths.toList j).map (fun c => Prefix.reverseBits c lengths[j]!) :=
  assign_canonical lengths limit hlim hall hk

/-- **The code words are a prefix code a decoder reads back**: for lengths within the limit
    whose Kraft sum does not exceed the code space, the code word handed out for ANY used symbol
    `j`, taken in the order its bits enter the stream (LSB first) and followed by ANY
    continuation, is decoded by the specification's bit-by-bit canonical decoder to exactly `j`,
    consuming exactly that code word.  Rests on: canonical code words are prefix-free
    (`Prefix.prefix_free`: a symbol earlier in (length, index) order owns the code space strictly
    below the later one), and the bit-reversed word LSB first is the canonical word MSB first. -/
theorem codes_decodable (lengths : Array Nat) (limit : Nat) (hlim : limit ≤ 15)
    (hall : ∀ l ∈ lengths.toList, l ≤ limit) (hk : Prefix.kraft lengths.toList limit ≤ 2 ^ limit) :
    ∀ j, j < lengths.size → lengths[j]! ≠ 0 → ∀ rest : List Nat,
      Prefix.decodeSym lengths.toList 15 0 0
        (Prefix.lsbBits (assignCodes lengths limit).1[j]! lengths[j]! ++ rest) = some (j, rest) := by
  intro j hj hne rest
  have hcan := codes_canonical lengths limit (by omega) hall hk j hj hne
  have hget : lengths.toList[j]? = some lengths[j]! := by
    rw [Array.getElem!_eq_getD, Array.getD_eq_getD_getElem?, Array.getElem?_eq_getElem hj]
    simp [hj]
  have hgd : lengths.toList.getD j 0 = lengths[j]! := by rw [List.getD_eq_getElem?_getD, hget]; rfl
  have hle : lengths[j]! ≤ limit := by
    apply hall
    rw [Array.getElem!_eq_getD, Array.getD_eq_getD_getElem?, Array.getElem?_eq_getElem hj]
    simp
  have hk' : kraftUpTo lengths limit ≤ 2 ^ limit := by rw [kraftUpTo_kk, ← kraft_kk _ _ hall]; exact hk
  have hlt := code_lt lengths limit lengths[j]! j hk' (by omega) hle hj rfl
  -- the canonical code word of j
  have hc : Prefix.canonicalCode lengths.toList j =
      some (nc lengths lengths[j]! + cnt lengths lengths[j]! j) := by
    unfold Prefix.canonicalCode
    rw [hget]
    obtain ⟨m, hm⟩ : ∃ m, lengths[j]! = m + 1 := ⟨lengths[j]! - 1, by omega⟩
    simp only [hm]
    rw [← hm, ← nc_nextCode, ← cnt_take lengths _ j (by omega)]
  rw [hc, Option.map_some] at hcan
  have hcode : (assignCodes lengths limit).1[j]! =
      Prefix.reverseBits (nc lengths lengths[j]! + cnt lengths lengths[j]! j) lengths[j]! := (Option.some.inj hcan)
  rw [hcode, Prefix.lsb_reverse_eq_msb]
  have hfin := Prefix.decodeSym_canonical lengths.toList j _ 15 hc (by rw [hgd]; exact hlt) (by rw [hgd]; omega) rest
  rw [hgd] at hfin
  exact hfin

-- non-vacuity: the code of the example below, symbol 3 (length 3, code word 011 reversed = 110b)
example : Prefix.decodeSym [1, 0, 2, 3, 3] 15 0 0 (Prefix.lsbBits 3 3 ++ [1, 0, 1]) = some (3, [1, 0, 1]) := by decide

theorem kk_above (ls : List Nat) (L : Nat) (hall : ∀ l ∈ ls, l ≤ L) : ∀ d, kk ls (L + d) = kk ls L * 2 ^ d := by
  intro d
  induction d with
  | zero => simp
  | succ d ih =>
    rw [← Nat.add_assoc, kk_succ, ih, Huff.blCount_zero_above ls L _ hall (by omega), Nat.pow_succ]
    ring

/-- **The decoder of this crate reads the encoder's code words.**  For lengths within the limit
    that form a complete code with at least two used symbols (what `build_huffman_tree` returns,
    `full_upto_256`), the model of `HuffmanTree` (C01: `build_implicit` + `read_symbol`) built
    from those lengths reads the code word handed out for ANY used symbol `j`, followed by any
    bits, as exactly `j`, consuming exactly that word. -/
theorem codes_read_by_huffman_tree (lengths : Array Nat) (limit : Nat) (hlim : limit ≤ 15)
    (hall : ∀ l ∈ lengths.toList, l ≤ limit) (hk : Prefix.kraft lengths.toList limit = 2 ^ limit)
    (h2 : 2 ≤ (lengths.toList.filter (· ≠ 0)).length) (hn : lengths.size ≤ 5000) :
    ∀ j, j < lengths.size → lengths[j]! ≠ 0 → ∀ rest : List Nat, (∀ b ∈ rest, b < 2) →
      Huff.readSym (Huff.build lengths.toList) (Prefix.lsbBits (assignCodes lengths limit).1[j]! lengths[j]! ++ rest) =
        some (j, rest) := by
  intro j hj hne rest hrest
  have hall15 : ∀ l ∈ lengths.toList, l ≤ 15 := fun l hl => by have := hall l hl; omega
  have hk15 : Prefix.kraft lengths.toList 15 = 2 ^ 15 := by
    rw [kraft_kk _ _ hall15, show 15 = limit + (15 - limit) by omega, kk_above _ _ hall, ← kraft_kk _ _ hall, hk, ← Nat.pow_add]
  have hv : Prefix.validLengths lengths.toList = true := by
    unfold Prefix.validLengths
    have a1 : lengths.toList.all (· ≤ 15) = true := by rw [List.all_eq_true]; intro l hl; simpa using hall15 l hl
    have a2 : ((lengths.toList.filter (· ≠ 0)).length == 1) = false := by rw [beq_eq_false_iff_ne]; omega
    have a3 : decide ((lengths.toList.filter (· ≠ 0)).length ≥ 2) = true := decide_eq_true h2
    rw [a1, a2, a3, hk15]; rfl
  have hbits : ∀ b ∈ Prefix.lsbBits (assignCodes lengths limit).1[j]! lengths[j]! ++ rest, b < 2 := by
    intro b hb
    rcases List.mem_append.mp hb with h | h
    · unfold Prefix.lsbBits at h
      obtain ⟨i, _, rfl⟩ := List.mem_map.mp h
      exact Nat.mod_lt _ (by decide)
    · exact hrest b h
  have hspec := (C01.huffman_tree_is_spec lengths.toList hall15 (by simpa using hn)).2 hv _ hbits
  rw [hspec]
  unfold Prefix.decodeSymbol
  rw [if_neg (by omega)]
  exact codes_decodable lengths limit hlim hall (by rw [hk]) j hj hne rest

/-- **The property for every histogram whose Huffman tree needs no limiting** (the common case:
    depth within the limit): `build_huffman_tree` - std's heap with whatever tie-breaking, the
    merge loop, the depth walk, the code assignment, the closing assert - returns lengths that are
    0 exactly for the unused symbols and within 1..limit for the used ones, satisfy the Kraft
    equality, and carry the specification's canonical bit-reversed code words.  Proved through:
    every heap operation is a permutation; the merge loop ends with one tree over exactly the used
    symbols; the depth walk; Kraft equality of any tree; phase 4. -/
theorem full_when_no_limiting (freqs : List Nat) (limit : Nat) (hlim : limit ≤ 16)
    (h2 : 2 ≤ (freqs.filter (· > 0)).length) (h256 : (freqs.filter (· > 0)).length ≤ 256)
    (hmax : (treeLengths freqs).foldl max 0 ≤ limit) :
    ∃ lengths codes, build freqs limit = .built lengths codes ∧ lengths.size = freqs.length ∧
      (∀ i, i < freqs.length → (freqs[i]! = 0 → lengths[i]! = 0) ∧ (freqs[i]! > 0 → 1 ≤ lengths[i]! ∧ lengths[i]! ≤ limit)) ∧
      Prefix.kraft lengths.toList limit = 2 ^ limit ∧
      (∀ i, i < freqs.length → lengths[i]! ≠ 0 →
        some codes[i]! = (Prefix.canonicalCode lengths.toList i).map fun c => Prefix.reverseBits c lengths[i]!) :=
  by
    have hcnt := used_count freqs
    obtain ⟨t, hperm, hlen⟩ := treeLengths_spec freqs (by rw [itemsOf_length, hcnt]; omega)
    have hdepth : ∀ p ∈ depths t 0, p.2 < 256 := by
      intro p hp
      have := depth_lt_leaves t 0 p hp
      rw [hperm.length_eq, hcnt] at this
      omega
    exact build_unlimited freqs limit hlim h2 t hperm hlen hdepth hmax

-- the hypotheses are satisfiable: a concrete histogram
example : 2 ≤ ([5, 0, 3, 1, 1].filter (· > 0)).length ∧ ([5, 0, 3, 1, 1].filter (· > 0)).length ≤ 256 ∧
    (treeLengths [5, 0, 3, 1, 1]).foldl max 0 ≤ 15 := by decide

/-- **The property for every histogram with at most 256 used symbols** - both without and with
    length limiting: for every frequency vector (any alphabet size within the code space, any
    limit 1..15) with 2..256 used symbols, `build_huffman_tree` returns lengths that are 0 exactly
    for the unused symbols, within 1..limit for the used ones, satisfy the Kraft equality, and
    carry the specification's canonical bit-reversed code words; no index underflow in the limiting
    loop or the reassignment, and the closing assert passes.  Proof: heap operations are
    permutations (so the result does not depend on std's tie-breaking); the merge loop ends with one
    tree over exactly the used symbols; clipping a tree's depths at the limit exceeds the code
    space by at most (leaves at the limit level) − 1; each limiting move lowers the excess by one
    and keeps that slack, so `counts[limit]` never underflows and an occupied level below the limit
    always exists; the reassignment hands out exactly the level counts; phase 4. -/
theorem full_upto_256 (freqs : List Nat) (limit : Nat) (h1 : 1 ≤ limit) (h15 : limit ≤ 15)
    (h2 : 2 ≤ (freqs.filter (· > 0)).length) (h256 : (freqs.filter (· > 0)).length ≤ 256)
    (hspace : freqs.length ≤ 2 ^ limit) :
    ∃ lengths codes, build freqs limit = .built lengths codes ∧ lengths.size = freqs.length ∧
      (∀ i, i < freqs.length → (freqs[i]! = 0 → lengths[i]! = 0) ∧ (freqs[i]! > 0 → 1 ≤ lengths[i]! ∧ lengths[i]! ≤ limit)) ∧
      Prefix.kraft lengths.toList limit = 2 ^ limit ∧
      (∀ i, i < freqs.length → lengths[i]! ≠ 0 →
        some codes[i]! = (Prefix.canonicalCode lengths.toList i).map fun c => Prefix.reverseBits c lengths[i]!) :=
  build_full freqs limit h1 h15 h2 h256 hspace

-- the limiting case is exercised: a Fibonacci histogram at limit 3
example : (treeLengths [1, 1, 2, 3, 5, 8, 13, 21]).foldl max 0 > 3 ∧ [1, 1, 2, 3, 5, 8, 13, 21].length ≤ 2 ^ 3 := by decide

/-- **The property at full strength**: for EVERY frequency vector whose frequencies sum to less
    than 2^32 (they are pixel counts of an image of at most 2^28 pixels), any alphabet size within
    the code space and any limit 1..15, with two or more used symbols - no bound on their number.
    Beyond `full_upto_256` this needs the `depth as u8` cast of the depth walk to be exact, i.e. the
    tree to be shallower than 256: std's `BinaryHeap` (transcribed: `rebuild`, `pop` =
    `sift_down_to_bottom` + `sift_up`, the `PeekMut` replacement = `sift_down`) keeps the heap
    order, so the merge loop always merges two items of least frequency; then every node weighs at
    least as much as the children of its sibling, the weight grows like the Fibonacci numbers
    along every path, and a total below 2^32 allows depth 46 at most. -/
theorem full (freqs : List Nat) (limit : Nat) (hspace : freqs.length ≤ 2 ^ limit) (h15 : limit ≤ 15) (h1 : 1 ≤ limit)
    (hsum : freqs.sum < 2 ^ 32) (h2 : 2 ≤ (freqs.filter (· > 0)).length) :
    ∃ lengths codes, build freqs limit = .built lengths codes ∧ lengths.size = freqs.length ∧
      (∀ i, i < freqs.length → (freqs[i]! = 0 → lengths[i]! = 0) ∧ (freqs[i]! > 0 → 1 ≤ lengths[i]! ∧ lengths[i]! ≤ limit)) ∧
      Prefix.kraft lengths.toList limit = 2 ^ limit ∧
      (∀ i, i < freqs.length → lengths[i]! ≠ 0 →
        some codes[i]! = (Prefix.canonicalCode lengths.toList i).map fun c => Prefix.reverseBits c lengths[i]!) :=
  build_full_all freqs limit h1 h15 h2 hsum hspace

/-- the heap really pops minima: `pop` returns an item of least frequency and leaves a heap -/
theorem heap_pops_minimum (h : Heap) (a : Item) (h' : Heap) (mh : MinHeap h) (hp : pop h = some (a, h')) :
    MinHeap h' ∧ ∀ j, j < h.size → a.freq ≤ fq h j :=
  pop_heap h a h' mh hp

-- non-vacuity and regression: concrete histograms through the model, limit reached / not reached
example : outputOf (build [5, 0, 3, 1, 1] 15) = some ([1, 0, 2, 3, 3], [0, 0, 1, 3, 7]) := by decide
example : (outputOf (build [1, 1, 2, 3, 5, 8, 13, 21] 3)).map (·.1) = some [3, 3, 3, 3, 3, 3, 3, 3] := by decide
example : kraftOf (depths (.node (.leaf 0) (.node (.leaf 1) (.leaf 2))) 0) 2 = 2 ^ 2 := by decide

end C14
