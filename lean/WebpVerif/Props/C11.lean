import WebpVerif.Model.ReadImage
import WebpVerif.Props.C05
import WebpVerif.Lemmas.LLoopInit
import WebpVerif.Props.C01

/-!
# C11 — output buffers: size checked, every byte written, all wrappings agree

`ReadImage.readImage` models the dispatch of `WebPDecoder::read_image` around the payload
decoders (taken at their contracts, see the model file).  Proved here, for every still, wrapping,
buffer length and buffer content:
* the size formula and the rejection of every other buffer length (no buffer is produced: the
  caller's buffer is untouched);
* on the lossless paths the result does not depend on what the buffer held, and the
  three-channel output is the four-channel output with alpha dropped;
* on the lossy paths every colour byte is written: pixel (x,y) of the RGB output and of the RGBA
  output carry the same three bytes, whatever the two buffers held before; with the alpha flag set
  and no ALPH chunk the image is opaque.
The byte-level statement for the in-place VP8L decoder (every byte of `buf` overwritten by
`decode_frame`) belongs to C01's model and is, in this pass, covered by the correspondence run
with poisoned buffers.
-/
namespace C11
open ReadImage

theorem size_formula (wr : Wrapping) (s : Still) :
    outputBufferSize wr s = s.w * s.h * (if hasAlpha wr s then 4 else 3) := rfl

/-- any other buffer length is rejected, before anything is decoded or written -/
theorem wrong_len_rejected (wr : Wrapping) (s : Still) (buf : List Nat)
    (h : buf.length ≠ outputBufferSize wr s) : readImage wr s buf = .error .imageTooLarge := by
  unfold readImage; rw [if_pos h]

/-- lossless stills (simple or extended): the result is a function of the file alone -/
theorem lossless_init_independent (wr : Wrapping) (w h : Nat) (rgba : List Nat) (ab : Bool) (b1 b2 : List Nat)
    (hwr : match wr with | .anim1 .. => False | _ => True)
    (h1 : b1.length = b2.length) :
    readImage wr ⟨w, h, .lossless rgba ab⟩ b1 = readImage wr ⟨w, h, .lossless rgba ab⟩ b2 := by
  cases wr with
  | anim1 a bg => exact absurd hwr (by simp)
  | simple => unfold readImage; rw [h1]
  | extended a => unfold readImage; rw [h1]

/-- lossless: three-channel output = four-channel output with alpha dropped, for both settings
    of the container flag and whatever the buffers held -/
theorem lossless_rgb_is_rgba_without_alpha (w h : Nat) (rgba : List Nat) (ab : Bool) (b3 b4 : List Nat)
    (h3 : b3.length = w * h * 3) (h4 : b4.length = w * h * 4) :
    ∃ out4, readImage (.extended true) ⟨w, h, .lossless rgba ab⟩ b4 = .ok out4 ∧
      readImage (.extended false) ⟨w, h, .lossless rgba ab⟩ b3 = .ok (dropAlpha out4) := by
  refine ⟨rgba, ?_, ?_⟩
  · unfold readImage outputBufferSize hasAlpha; simp [h4]
  · unfold readImage outputBufferSize hasAlpha; simp [h3]

/-- simple and extended wrapping of a lossless payload agree when the container flag repeats the
    stream's own alpha bit -/
theorem lossless_simple_eq_extended (w h : Nat) (rgba : List Nat) (ab : Bool) (buf : List Nat) :
    readImage .simple ⟨w, h, .lossless rgba ab⟩ buf = readImage (.extended ab) ⟨w, h, .lossless rgba ab⟩ buf := by
  unfold readImage outputBufferSize hasAlpha; rfl

/-- **Lossy stills: every colour byte is written, and RGB = RGBA without alpha, pixel by pixel**:
    whatever the three-byte and four-byte buffers held, pixel (x, y) gets the same colour bytes in
    both outputs (those of C13's kernel), with or without an ALPH chunk -/
theorem lossy_rgb_rgba_agree (w h : Nat) (ybuf ubuf vbuf : List Nat) (alph : Option (Nat × Array Nat))
    (b3 b4 : List Nat) (hw : 0 < w)
    (hyl : ybuf.length = w * h) (hul : ubuf.length = ((w + 1) / 2) * ((h + 1) / 2))
    (hvl : vbuf.length = ((w + 1) / 2) * ((h + 1) / 2))
    (h3 : b3.length = w * h * 3) (h4 : b4.length = w * h * 4)
    (x y c : Nat) (hx : x < w) (hy : y < h) (hc : c < 3) :
    ∃ out3 out4, readImage (.extended false) ⟨w, h, .lossy ybuf ubuf vbuf alph⟩ b3 = .ok out3 ∧
      readImage (.extended true) ⟨w, h, .lossy ybuf ubuf vbuf alph⟩ b4 = .ok out4 ∧
      out3[(y * w + x) * 3 + c]? = out4[(y * w + x) * 4 + c]? ∧
      out3[(y * w + x) * 3 + c]? = some (Yuv.rgb c (ybuf.getD (y * w + x) 0)
        (ubuf.getD (((w + 1) / 2) * (y / 2) + x / 2) 0) (vbuf.getD (((w + 1) / 2) * (y / 2) + x / 2) 0)) := by
  have h3' : b3.length = 3 * w * h := by rw [h3, Nat.mul_comm, Nat.mul_assoc]
  have h4' : b4.length = 4 * w * h := by rw [h4, Nat.mul_comm, Nat.mul_assoc]
  have hrgb := C13.frame_rgb w h ybuf ubuf vbuf b3 hyl hul hvl h3' x y c hx hy hc
  have hrgba := C13.frame_rgba w h ybuf ubuf vbuf b4 hyl hul hvl h4' x y c hx hy (by omega)
  rw [if_neg (by omega)] at hrgba
  have hne : ¬ ((y * w + x) * 4 + c) % 4 = 3 := by omega
  cases alph with
  | none =>
    refine ⟨_, setAlpha255 (Yuv.fillRgba w ybuf ubuf vbuf b4), ?_, ?_, ?_, hrgb⟩
    · unfold readImage outputBufferSize hasAlpha; simp [h3]
    · unfold readImage outputBufferSize hasAlpha; simp [h4]
    · rw [hrgb]
      -- setAlpha255 keeps the colour bytes
      have keep : ∀ (l : List Nat) (j : Nat), j % 4 ≠ 3 → (setAlpha255 l)[j]? = l[j]? := by
        intro l
        induction l using setAlpha255.induct with
        | case1 r g b a rest ih =>
          intro j hj
          unfold setAlpha255
          match j with
          | 0 => rfl
          | 1 => rfl
          | 2 => rfl
          | 3 => omega
          | j + 4 => simp only [List.getElem?_cons_succ]; exact ih j (by omega)
        | case2 l h =>
          intro j _
          have : setAlpha255 l = l := by
            unfold setAlpha255
            split
            · rename_i r g b a rest; exact absurd rfl (h r g b a rest)
            · rfl
          rw [this]
      rw [keep _ _ hne, hrgba]
  | some fd =>
    obtain ⟨f, d⟩ := fd
    refine ⟨_, (Alpha.unfilterInto w f d (w * h) (Yuv.fillRgba w ybuf ubuf vbuf b4).toArray).toList, ?_, ?_, ?_, hrgb⟩
    · unfold readImage outputBufferSize hasAlpha; simp [h3]
    · unfold readImage outputBufferSize hasAlpha; simp [h4]
    · rw [hrgb, Array.getElem?_toList, C05.alpha_loop_keeps_colour _ _ _ _ _ _ hne]
      simpa using hrgba.symm

/-- alpha flag set but no ALPH chunk: every alpha byte of the output is 255 -/
theorem missing_alph_is_opaque (l : List Nat) (i : Nat) (h : 4 * i + 3 < l.length) :
    (setAlpha255 l)[4 * i + 3]? = some 255 := by
  induction l using setAlpha255.induct generalizing i with
  | case1 r g b a rest ih =>
    unfold setAlpha255
    match i with
    | 0 => rfl
    | i + 1 =>
      have : 4 * (i + 1) + 3 = (4 * i + 3) + 4 := by omega
      rw [this]; simp only [List.getElem?_cons_succ]
      exact ih i (by simp at h; omega)
  | case2 l hl =>
    exfalso
    match l, hl with
    | [], _ => simp at h
    | [_], _ => simp at h
    | [_, _], _ => simp at h; omega
    | [_, _, _], _ => simp at h
    | a :: b :: c :: d :: rest, hl => exact hl a b c d rest rfl

-- non-vacuity
example : readImage (.extended false) ⟨1, 1, .lossless [9, 8, 7, 6] true⟩ [0, 0, 0] = .ok [9, 8, 7] := by decide
example : readImage (.extended true) ⟨1, 1, .lossless [9, 8, 7, 6] true⟩ [0, 0, 0] = .error .imageTooLarge := by decide

/-- **The in-place lossless pixel loop does not depend on the previous buffer contents**: for
    every image size, group layout, colour-cache size and operation list consistent with the
    single-symbol groups, two buffers with different old contents come out identical (same pixels
    or the same rejection) - including the chunked copies that read and scribble beyond the pixels
    decoded so far.  Corollary of `C01.loop_refines_spec`. -/
theorem lossless_loop_init_independent (c : LLoop.Cfg) (h32 : c.cacheBits ≤ 32) (hw : 0 < c.width)
    (init1 init2 : Array Nat) (ops : List LLoop.Op)
    (h1 : init1.size = c.width * c.height) (h2 : init2.size = c.width * c.height)
    (hcons : LLoop.cons c (c.width * c.height + 1) 0 0 ops = true) :
    LLoop.decode c init1 ops = LLoop.decode c init2 ops :=
  LLoop.decode_init_independent c h32 hw init1 init2 ops h1 h2 hcons


/-! ### the in-place inverse transforms -/

/-- **The in-place colour-indexing transform does not depend on the stale part of the buffer.**
    `apply_color_indexing_transform` expands the packed index image - the first `⌈w/2^wb⌉·h` pixels
    of the `w·h` buffer - inside the same buffer; the rest of the buffer holds whatever was there.
    Two buffers that agree on the packed part give the same pixels, for every palette of 1..16
    colours, width, height and stale contents.  Corollary of `C01.color_indexing_in_place`. -/
theorem color_indexing_init_independent (pal : Array Nat) (w h : Nat) (d d' : Array Nat) (hts : 1 ≤ pal.size ∧ pal.size ≤ 16)
    (hw : 1 ≤ w) (hsz : d.size = w * h) (hsz' : d'.size = w * h)
    (hagree : ∀ i, i < VP8L.subSize w (VP8L.indexBits pal.size) * h → d[i]! = d'[i]!)
    (x y : Nat) (hx : x < w) (hy : y < h) :
    (CIdx.apply pal pal.size w h d)[y * w + x]! = (CIdx.apply pal pal.size w h d')[y * w + x]! := by
  rw [C01.color_indexing_in_place pal w h d hts hw hsz x y hx hy, C01.color_indexing_in_place pal w h d' hts hw hsz' x y hx hy]
  unfold C01.specIndexPixel
  simp only []
  have hB : 0 < 2 ^ VP8L.indexBits pal.size := Nat.two_pow_pos _
  have hlt : x / 2 ^ VP8L.indexBits pal.size < VP8L.subSize w (VP8L.indexBits pal.size) := by
    unfold VP8L.subSize
    rw [Nat.div_lt_iff_lt_mul hB]
    have := Nat.div_add_mod (w + 2 ^ VP8L.indexBits pal.size - 1) (2 ^ VP8L.indexBits pal.size)
    have := Nat.mod_lt (w + 2 ^ VP8L.indexBits pal.size - 1) hB
    rw [Nat.mul_comm]
    omega
  have hidx : y * VP8L.subSize w (VP8L.indexBits pal.size) + x / 2 ^ VP8L.indexBits pal.size < VP8L.subSize w (VP8L.indexBits pal.size) * h := by
    have : (y + 1) * VP8L.subSize w (VP8L.indexBits pal.size) ≤ h * VP8L.subSize w (VP8L.indexBits pal.size) := Nat.mul_le_mul_right _ hy
    rw [Nat.succ_mul] at this
    rw [Nat.mul_comm _ h]; omega
  rw [hagree _ hidx]

/-- **The other three in-place inverse transforms are functions of the pixels alone.**  The buffer
    the predictor, colour and subtract-green drivers work on was written completely by the pixel
    loop (`lossless_loop_init_independent`); what they leave in it is the specification's pure
    function of those pixels (`C01.predictor_transform_is_spec`, `color_transform_is_spec`,
    `subtract_green_is_spec`) - nothing else (no scratch space, no earlier contents) enters. -/
theorem inverse_transforms_are_functions_of_the_pixels (a d : Array Nat) (w h bits : Nat) (hw : 0 < w) (hh : 0 < h)
    (hs : a.size = 4 * (w * h)) (hb : LTrProof.Bytes a) (hd : LTrProof.Bytes d) (hd4 : d.size % 4 = 0)
    (hmode : ∀ k, d.getD (4 * k + 1) 0 < 14) :
    LTrProof.pixels (LTr.applyPredictor w h bits d a) = VP8LP.invPredictor bits (LTrProof.pixels d).toArray w (LTrProof.pixels a) 0 [] ∧
    LTrProof.pixels (LTr.applyColor w bits d a) = VP8LP.invColor bits (LTrProof.pixels d).toArray w (LTrProof.pixels a) 0 ∧
    LTrProof.pixels (LTr.applySubGreen a) = (LTrProof.pixels a).map VP8LP.invSubGreenPx :=
  ⟨C01.predictor_transform_is_spec a d w h bits hw hh hs hb hd hd4 hmode,
   C01.color_transform_is_spec w h bits d a hb hd hd4 (by rw [hs, Nat.mul_assoc]) hw,
   C01.subtract_green_is_spec a hb (by omega)⟩

end C11
