import WebpVerif.Model.LosslessKernels
import WebpVerif.Spec.Lossless
import WebpVerif.Lemmas.BitReader
import WebpVerif.Lemmas.LLoop
import Mathlib.Tactic.IntervalCases
import Mathlib.Tactic.Linarith
import WebpVerif.Lemmas.EncHuffCodes
import WebpVerif.Lemmas.PrefixFree
import WebpVerif.Lemmas.HuffShort
import WebpVerif.Lemmas.ColorIndex
import WebpVerif.Lemmas.CodeRead
import WebpVerif.Lemmas.StreamCong
import WebpVerif.Lemmas.LPred
import WebpVerif.Lemmas.LCompose

/-!
# C01 — VP8L decoding matches the lossless specification for every valid stream

`VP8L` (Spec/Lossless.lean) is the specification as an executable decoder; the correspondence
run compares the real decoder with it and with libwebp on every generated valid stream.
This file proves the component equalities between the code's kernels (`LK`, `BitReader`) and the
specification's, for ALL arguments — the tables, the LZ77 prefix arithmetic, the distance map
with its clamping, the colour-cache hash, the predictor and colour-transform kernels, and that
the bit reader delivers exactly the stream's bits.  The composition into a whole-stream
refinement needs a model of `decode_image_data` / `HuffmanTree` and is not yet proved (said so in
the evidence).
-/
namespace C01

/-- the crate's distance map is libwebp's `kCodeToPlane` (each entry `(8 − (c & 15), c >> 4)`),
    for all 120 codes -/
theorem distance_map_eq :
    Gen.Tables.DISTANCE_MAP = Gen.Libwebp.kCodeToPlane.map fun c => [(8 : Int) - ((c % 16 : Nat) : Int), ((c / 16 : Nat) : Int)] := by
  decide +kernel

/-- the two copies of the code-length code order (decoder, encoder) and libwebp's are the same -/
theorem code_length_order_eq :
    Gen.Tables.CODE_LENGTH_CODE_ORDER = Gen.Libwebp.kCodeLengthCodeOrder ∧
    Gen.Tables.ENC_CODE_LENGTH_ORDER = Gen.Libwebp.kCodeLengthCodeOrder := by decide

/-- LZ77 prefix coding: number of extra bits and decoded value equal the specification's, for
    every prefix symbol and every value of the extra bits -/
theorem copy_value_eq (sym bits : Nat) :
    LK.copyValue sym bits = (if sym < 4 then sym + 1 else (2 + sym % 2) * 2 ^ ((sym - 2) / 2) + bits + 1) ∧
    LK.copyExtraBits sym = (if sym < 4 then 0 else (sym - 2) / 2) := by
  unfold LK.copyValue LK.copyExtraBits; exact ⟨rfl, rfl⟩

theorem copy_value_spec (sym : Nat) (b : VP8L.Bits) :
    VP8L.prefixValue b sym =
      if sym < 4 then some (sym + 1, b)
      else (VP8L.readBits b (LK.copyExtraBits sym)).map fun (v, b') => (LK.copyValue sym v, b') := by
  unfold VP8L.prefixValue LK.copyExtraBits LK.copyValue
  by_cases h : sym < 4
  · simp [h]
  · simp only [h, if_false]
    cases VP8L.readBits b ((sym - 2) / 2) <;> rfl

/-- distance codes: the crate's table walk with its `dist < 1 → 1` clamp equals the
    specification's, for every image width and every code ≥ 1 -/
theorem plane_code_to_distance_eq (xsize code : Nat) (hc : 1 ≤ code) :
    LK.planeCodeToDistance xsize code = VP8L.distanceOf xsize code := by
  unfold LK.planeCodeToDistance VP8L.distanceOf
  by_cases h : code > 120
  · simp [h]
  · simp only [h, if_false]
    have hk : code - 1 < 120 := by omega
    -- entry by entry: both tables, all 120 codes
    have key : ∀ k < 120,
        ((Gen.Tables.DISTANCE_MAP.getD k []).getD 0 0 = (8 : Int) - (((Gen.Libwebp.kCodeToPlane.getD k 0) % 16 : Nat) : Int)) ∧
        ((Gen.Tables.DISTANCE_MAP.getD k []).getD 1 0 = (((Gen.Libwebp.kCodeToPlane.getD k 0) / 16 : Nat) : Int)) := by
      decide +kernel
    obtain ⟨e0, e1⟩ := key (code - 1) hk
    simp only [e0, e1]

/-- colour cache: the code hashes the same 32-bit ARGB value as the specification -/
theorem cache_index_eq (r g b a bits : Nat) :
    LK.cacheIndex r g b a bits = VP8L.cacheIndex (VP8L.mk a r g b) bits := by
  unfold LK.cacheIndex VP8L.cacheIndex VP8L.mk
  have : r * 2 ^ 16 + g * 2 ^ 8 + b + a * 2 ^ 24 = a * 2 ^ 24 + r * 2 ^ 16 + g * 2 ^ 8 + b := by omega
  rw [this]

/-- predictor kernels, per channel, for all byte values -/
theorem average2_eq (a b : Nat) : LK.average2 a b = (a + b) / 2 := rfl

theorem clamp_full_eq (a b c : Nat) : LK.clampAddSubFull a b c = VP8L.clamp ((a : Int) + b - c) := by
  unfold LK.clampAddSubFull VP8L.clamp; split <;> (try split) <;> omega

theorem clamp_half_eq (a b : Nat) :
    LK.clampAddSubHalf a b = VP8L.clamp ((a : Int) + Int.tdiv ((a : Int) - b) 2) := by
  unfold LK.clampAddSubHalf VP8L.clamp; split <;> (try split) <;> omega

/-- predictor 11: the code's decision (sum over channels of |p − L| vs |p − T| with
    p = L + T − TL) is the specification's Select -/
theorem select_eq (L T TL : Nat) :
    VP8L.select L T TL =
      if LK.selectLeft [VP8L.ch L 0, VP8L.ch L 1, VP8L.ch L 2, VP8L.ch L 3] [VP8L.ch T 0, VP8L.ch T 1, VP8L.ch T 2, VP8L.ch T 3]
          [VP8L.ch TL 0, VP8L.ch TL 1, VP8L.ch TL 2, VP8L.ch TL 3] then L else T := by
  unfold VP8L.select LK.selectLeft
  simp [List.range, List.range.loop]

/-- colour transform: the wrapping u32 arithmetic of the code and the signed arithmetic shift of
    the specification give the same byte, for all transform elements and channel values -/
theorem color_delta_eq : ∀ t < 256, ∀ c < 256, ∀ x < 256,
    (LK.addDelta x t c : Int) = ((x : Int) + VP8L.colorDeltaFloor t c) % 256 := by
  intro t ht c hc x hx
  unfold LK.addDelta LK.colorDeltaU32 VP8L.colorDeltaFloor LK.toI8 VP8L.toInt8
  -- the product of two int8 values p ∈ [−16256, 16384]; work with it symbolically
  generalize hp : (if t < 128 then (t : Int) else (t : Int) - 256) * (if c < 128 then (c : Int) else (c : Int) - 256) = p
  have hrange : -16384 ≤ p ∧ p ≤ 16384 := by
    rw [← hp]
    have ht' : -128 ≤ (if t < 128 then (t : Int) else (t : Int) - 256) ∧ (if t < 128 then (t : Int) else (t : Int) - 256) ≤ 127 := by split <;> omega
    have hc' : -128 ≤ (if c < 128 then (c : Int) else (c : Int) - 256) ∧ (if c < 128 then (c : Int) else (c : Int) - 256) ≤ 127 := by split <;> omega
    generalize (if t < 128 then (t : Int) else (t : Int) - 256) = u at *
    generalize (if c < 128 then (c : Int) else (c : Int) - 256) = v at *
    constructor <;> nlinarith
  simp only [Int.fdiv_eq_ediv_of_nonneg _ (by omega : (0 : Int) ≤ 32)]
  obtain ⟨h1, h2⟩ := hrange
  by_cases hneg : p < 0
  · have e : (p % 2 ^ 32).toNat = (p + 4294967296).toNat := by
      have : p % 2 ^ 32 = p + 4294967296 := by omega
      rw [this]
    rw [e]
    omega
  · have e : (p % 2 ^ 32).toNat = p.toNat := by
      have : p % 2 ^ 32 = p := by omega
      rw [this]
    rw [e]
    omega

/-- what the bit reader returns is the specification's `ReadBits`: bits of the byte string,
    LSB first, starting at the current bit position -/
theorem read_bits_is_stream_window (data : List Nat) (br : BitReader.BR) (n : Nat)
    (h : BitReader.Inv data br) (hn : n ≤ br.nbits) :
    BitReader.peek br n = (BitReader.le64 data >>> (8 * br.pos - br.nbits)) % 2 ^ n :=
  BitReader.peek_value data br n h hn

/-! ### the pixel loop of `decode_image_data` -/

/-- **The chunked overlapping copy is the LZ77 copy.** The 16-byte `copy_within` strategy
    (first chunk, then chunks stepping by `min(dist·4, 16)` bytes, scribbling up to three pixels
    past the end) and the byte loop used near the end of the image both leave, at every pixel of the
    reference, the pixel `dist` back - for every buffer, position, distance ≥ 2 and length. -/
theorem chunked_copy_is_lz77 (d : Array Nat) (n index dist len : Nat) (hn : d.size = n)
    (h2 : 2 ≤ dist) (hd : dist ≤ index) (hl1 : 1 ≤ len) (hlen : index + len ≤ n) :
    (LLoop.copyFar d n index dist len).size = d.size ∧
    ∀ p, p < index + len → (LLoop.copyFar d n index dist len)[p]! =
      if index ≤ p then LLoop.target d index dist p else d[p]! :=
  LLoop.copyFar_spec d n index dist len hn h2 hd hl1 hlen

/-- **The pixel loop refines the per-pixel specification.** For every image size, meta-group
    layout, colour-cache size, previous buffer contents and every operation list (what the
    entropy-coded symbols decode to) that is consistent with the single-symbol groups, the model
    of the loop - block bookkeeping, single-symbol fast path, literals, distance-1 run fill,
    chunked and byte-wise copies, colour-cache insertion points (none for distance-1 copies, one
    per fast-path fill), speculative second cache symbol, both bounds tests - returns exactly what
    the specification's one-pixel-at-a-time decoding returns: the same pixels, or the same
    rejection.  In particular the result does not depend on what the buffer held before. -/
theorem loop_refines_spec (c : LLoop.Cfg) (h32 : c.cacheBits ≤ 32) (hw : 0 < c.width) (init : Array Nat)
    (ops : List LLoop.Op) (hinit : init.size = c.width * c.height)
    (hcons : LLoop.cons c (c.width * c.height + 1) 0 0 ops = true) :
    LLoop.decode c init ops = LLoop.specDecode c init ops :=
  LLoop.decode_refines c h32 hw init ops hinit hcons

/-- the specification side never looks at the previous buffer contents beyond what it has
    written itself: two initial buffers give the same result whenever decoding succeeds on a
    complete operation list (so, by `loop_refines_spec`, does the code) - checked here on a
    concrete non-trivial instance (overlapping copy with distance 3 near the end, distance-1 run;
    the runtime correspondence exercises the cache on every run) -/
def exCfg : LLoop.Cfg := { width := 5, height := 3, bits := 0, mask := 0, xsize := 0, image := #[], single := #[none], cacheBits := 0 }
def exOps : List LLoop.Op := [.lit 7, .lit 9, .lit 11, .back 7 3, .lit 4, .back 3 1, .lit 2]
example : LLoop.cons exCfg 16 0 0 exOps = true ∧
    LLoop.decode exCfg (Array.replicate 15 0) exOps = LLoop.decode exCfg (Array.replicate 15 99) exOps ∧
    LLoop.decode exCfg (Array.replicate 15 0) exOps = LLoop.specDecode exCfg (Array.replicate 15 99) exOps := by decide +kernel

/-! ### the symbol decoder of the specification on complete codes -/

/-- **Prefix-code symbols: never rejected, uniquely decoded.**  For EVERY length vector that is a
    complete code (all lengths ≤ 15, Kraft sum exactly 2^15 - any alphabet size, any shape) and
    EVERY string of at least 15 bits, the specification's canonical symbol decoder returns a
    symbol, and the bits it consumed are exactly that symbol's canonical code word (MSB first);
    by `C14.codes_decodable` / `Prefix.decodeSym_canonical` no other symbol's word is a prefix of
    the string.  The crate's `HuffmanTree` (two-level table + secondary tree) is compared with this
    decoder on generated length vectors and bit strings in every run. -/
theorem symbol_decoder_total (lengths : Array Nat) (hall : ∀ l ∈ lengths.toList, l ≤ 15)
    (hk : Prefix.kraft lengths.toList 15 = 2 ^ 15) (bits : List Nat) (hb : ∀ b ∈ bits, b < 2) (hlen : 15 ≤ bits.length) :
    ∃ s rest taken, Prefix.decodeSym lengths.toList 15 0 0 bits = some (s, rest) ∧ bits = taken ++ rest ∧
      lengths.toList.getD s 0 = taken.length ∧
      Prefix.canonicalCode lengths.toList s = some (taken.foldl (fun acc b => 2 * acc + b) 0) := by
  have hend : Prefix.blockEnd lengths.toList 15 = 2 ^ 15 := by
    have h1 : Prefix.nextCode lengths.toList 16 = Prefix.blockEnd lengths.toList 15 * 2 := rfl
    have h2 : Prefix.nextCode lengths.toList 16 = 2 * Prefix.kraft lengths.toList 15 := by
      rw [← EncHuff.nc_nextCode, EncHuff.nc_kraft, EncHuff.kraftUpTo_kk, ← EncHuff.kraft_kk _ _ hall]
    rw [hk] at h2
    omega
  obtain ⟨s, rest, hdec⟩ := Prefix.decodeSym_total lengths.toList 15 (by decide) hend 15 0 0 bits (by omega) (by omega) hb
    (by decide) (Nat.le_of_eq rfl)
  obtain ⟨taken, e1, e2, e3⟩ := Prefix.decodeSym_sound lengths.toList 15 0 0 bits s rest hdec
  exact ⟨s, rest, taken, hdec, e1, by rw [e2, Nat.zero_add], e3⟩

-- non-vacuity: the complete code {1, 2, 3, 3} (with an unused symbol) on sixteen bits
example : Prefix.kraft [1, 0, 2, 3, 3] 15 = 2 ^ 15 ∧
    Prefix.decodeSym [1, 0, 2, 3, 3] 15 0 0 [1, 1, 0, 1, 1, 1, 1, 1, 1, 1, 1, 1, 1, 1, 1, 1] = some (3, [1, 1, 1, 1, 1, 1, 1, 1, 1, 1, 1, 1, 1]) := by
  decide

/-! ### the crate's entropy decoder: `HuffmanTree` -/

/-- **`HuffmanTree` reads what the specification reads.**  `Huff.build` / `Huff.readSym` model
    `HuffmanTree::build_implicit` / `read_symbol` (primary table with replicated entries, the
    secondary trees of `Branch(offset)` / `Leaf` / `Empty` nodes in one vector, the slow path).
    For EVERY length vector (lengths ≤ 15, up to 5000 symbols - any alphabet, any shape) for which
    the builder returns a table: the vector is a valid (complete) code of the specification, and
    on EVERY string of at least 15 bits the reader returns exactly the symbol, and leaves exactly
    the rest, that the specification's canonical decoder returns.  Proved through: the
    `next_codes` loop hands out the canonical code words; every table slot and every tree path
    that starts with the word of an already inserted symbol still answers with that symbol after
    each later insertion (prefix-freeness of the canonical code; later insertions only write
    `Empty` nodes and appended nodes); the slow path follows the inserted path. -/
theorem huffman_tree_reads_spec (ls : List Nat) (hall : ∀ l ∈ ls, l ≤ 15) (hn : ls.length ≤ 5000) (t : Huff.HT)
    (ht : Huff.build ls = .ok t) :
    Prefix.validLengths ls = true ∧
    ∀ bits : List Nat, (∀ b ∈ bits, b < 2) → 15 ≤ bits.length →
      Huff.readSym (Huff.build ls) bits = Prefix.decodeSymbol ls bits :=
  Huff.build_ok_spec ls hall hn t ht

/-- a vector with exactly one used symbol: the single-node tree, no bits read -/
theorem huffman_tree_single (ls : List Nat) (hall : ∀ l ∈ ls, l ≤ 15) (s : Nat) (hs : Huff.build ls = .single s) :
    Prefix.validLengths ls = true ∧ ∀ bits : List Nat, Huff.readSym (Huff.build ls) bits = Prefix.decodeSymbol ls bits :=
  Huff.build_single_spec ls hall s hs

/-- **Every valid code is accepted.**  For EVERY length vector that is a valid code of the
    specification (lengths ≤ 15, one used symbol or a complete code; up to 5000 symbols) the
    builder returns a tree: the depth loop never meets a `Leaf` and always ends on an `Empty`
    node.  Proved through the soundness of every leaf and branch of the secondary trees (a leaf
    at a path is the symbol with exactly that word; a branch lies strictly inside the word of an
    inserted symbol) and the absence of aliasing (children are allocated fresh, so a node is
    reached from one slot by one path only), with the prefix-freeness of the canonical code. -/
theorem huffman_tree_accepts_valid (ls : List Nat) (hall : ∀ l ∈ ls, l ≤ 15) (hn : ls.length ≤ 5000)
    (hv : Prefix.validLengths ls = true) : (∃ t, Huff.build ls = .ok t) ∨ (∃ s, Huff.build ls = .single s) :=
  Huff.build_total ls hall hn hv

/-- **`HuffmanTree` = the specification's symbol decoder** (model level): accepted exactly when
    valid, and then reading exactly the same symbols from EVERY bit string - including the last bits of
    the data, where the reader peeks a zero-padded word and `consume` fails exactly when the
    specification runs out of bits -/
theorem huffman_tree_is_spec (ls : List Nat) (hall : ∀ l ∈ ls, l ≤ 15) (hn : ls.length ≤ 5000) :
    ((∃ t, Huff.build ls = .ok t) ∨ (∃ s, Huff.build ls = .single s) ↔ Prefix.validLengths ls = true) ∧
    (Prefix.validLengths ls = true → ∀ bits : List Nat, (∀ b ∈ bits, b < 2) →
      Huff.readSym (Huff.build ls) bits = Prefix.decodeSymbol ls bits) := by
  constructor
  · constructor
    · rintro (⟨t, ht⟩ | ⟨s, hs⟩)
      · exact (huffman_tree_reads_spec ls hall hn t ht).1
      · exact (huffman_tree_single ls hall s hs).1
    · exact huffman_tree_accepts_valid ls hall hn
  · intro hv bits hb
    rcases huffman_tree_accepts_valid ls hall hn hv with ⟨t, ht⟩ | ⟨s, hs⟩
    · exact Huff.build_ok_spec_all ls hall hn t ht bits hb
    · exact (huffman_tree_single ls hall s hs).2 bits

-- non-vacuity: a complete code is accepted and read (the runtime tie exercises secondary trees
-- on every run; kernel evaluation of a 12-bit code takes minutes)
example : (match Huff.build [1, 2, 3, 3] with | .ok _ => true | _ => false) = true ∧
    Huff.readSym (Huff.build [1, 2, 3, 3]) [1, 1, 0, 1, 0, 1, 1, 1, 1, 1, 1, 1, 1, 1, 1, 1] = some (2, [1, 0, 1, 1, 1, 1, 1, 1, 1, 1, 1, 1, 1]) := by
  decide +kernel

/-! ### the in-place inverse colour-indexing transform -/

/-- the pixel the specification defines (the body of the loop of `VP8L.inverseIndexing`,
    Spec/Lossless.lean): the table entry selected by the bits of the packed index pixel -/
def specIndexPixel (table : Array Nat) (w : Nat) (img : Array Nat) (x y : Nat) : Nat :=
  let wb := VP8L.indexBits table.size
  let pw := VP8L.subSize w wb
  let bpp := 8 / 2 ^ wb
  let packed := VP8L.ch (img[y * pw + x / 2 ^ wb]!) 1
  table.getD ((packed / 2 ^ (bpp * (x % 2 ^ wb))) % 2 ^ bpp) 0

/-- **In place = specification.**  `CIdx.apply` models `apply_color_indexing_transform`, which for
    palettes of up to 16 colours expands the packed index image (the first `⌈w/2^wb⌉·h` pixels of
    the `w·h` buffer) inside that same buffer, last row first and right to left.  For EVERY
    palette of 1..16 colours, every width, height and buffer content: each pixel of the result is
    the pixel the specification computes from the ORIGINAL packed image - no group is ever written
    over a packed pixel that is still to be read, nor over a group written before. -/
theorem color_indexing_in_place (pal : Array Nat) (w h : Nat) (d : Array Nat) (hts : 1 ≤ pal.size ∧ pal.size ≤ 16)
    (hw : 1 ≤ w) (hsz : d.size = w * h) (x y : Nat) (hx : x < w) (hy : y < h) :
    (CIdx.apply pal pal.size w h d)[y * w + x]! = specIndexPixel pal w d x y := by
  unfold CIdx.apply specIndexPixel VP8L.indexBits VP8L.subSize
  rw [if_neg (by omega)]
  have hentry : ∀ bpe i j, CIdx.entry pal pal.size bpe i j = pal.getD (i / 2 ^ (bpe * j) % 2 ^ bpe) 0 := by
    intro bpe i j
    unfold CIdx.entry
    simp only
    rw [Nat.mul_comm j bpe]
    by_cases hk : i / 2 ^ (bpe * j) % 2 ^ bpe < pal.size
    · rw [if_pos hk, Array.getElem!_eq_getD, Array.getD_eq_getD_getElem?, Array.getD_eq_getD_getElem?,
        Array.getElem?_eq_getElem hk]
      rfl
    · rw [if_neg hk, Array.getD_eq_getD_getElem?, Array.getElem?_eq_none (by omega)]
      rfl
  have hgreen : ∀ p, CIdx.green p = VP8L.ch p 1 := fun p => by unfold CIdx.green VP8L.ch; rfl
  by_cases h2 : pal.size ≤ 2
  · simp only [h2, if_true]
    have g : CIdx.Geo (2 ^ 3) w ((w + 2 ^ 3 - 1) / 2 ^ 3) :=
      { hP := by decide, hiw := by omega, hlo := by omega, hhi := by omega }
    rw [CIdx.run_spec pal pal.size _ _ w _ h d g hsz y x hy hx, hentry, hgreen]
  · simp only [h2, if_false]
    by_cases h4 : pal.size ≤ 4
    · simp only [h4, if_true]
      have g : CIdx.Geo (2 ^ 2) w ((w + 2 ^ 2 - 1) / 2 ^ 2) :=
        { hP := by decide, hiw := by omega, hlo := by omega, hhi := by omega }
      rw [CIdx.run_spec pal pal.size _ _ w _ h d g hsz y x hy hx, hentry, hgreen]
    · simp only [h4, if_false]
      have h16 : pal.size ≤ 16 := hts.2
      simp only [h16, if_true]
      have g : CIdx.Geo (2 ^ 1) w ((w + 2 ^ 1 - 1) / 2 ^ 1) :=
        { hP := by decide, hiw := by omega, hlo := by omega, hhi := by omega }
      rw [CIdx.run_spec pal pal.size _ _ w _ h d g hsz y x hy hx, hentry, hgreen]

/-- palettes of more than 16 colours: one index per pixel, mapped where it stands -/
theorem color_indexing_direct (pal : Array Nat) (w h : Nat) (d : Array Nat) (hts : 16 < pal.size)
    (i : Nat) (hi : i < d.size) :
    (CIdx.apply pal pal.size w h d)[i]! = pal.getD (VP8L.ch d[i]! 1) 0 := by
  unfold CIdx.apply
  rw [if_pos hts]
  have hgreen : ∀ p, CIdx.green p = VP8L.ch p 1 := fun p => by unfold CIdx.green VP8L.ch; rfl
  rw [Array.getElem!_eq_getD, Array.getD_eq_getD_getElem?, Array.getElem?_map, Array.getElem?_eq_getElem hi]
  simp only [Option.map_some, Option.getD_some]
  rw [hgreen, Array.getElem!_eq_getD (xs := d), Array.getD_eq_getD_getElem? (xs := d), Array.getElem?_eq_getElem hi]
  simp only [Option.getD_some]
  by_cases hk : VP8L.ch d[i] 1 < pal.size
  · rw [if_pos hk, Array.getElem!_eq_getD, Array.getD_eq_getD_getElem?, Array.getD_eq_getD_getElem?]
    rfl
  · rw [if_neg hk, Array.getD_eq_getD_getElem?, Array.getElem?_eq_none (by omega)]
    rfl

-- non-vacuity: a 5x2 image with a 3-colour palette (2 bits per index, 4 pixels per packed pixel)
example : (List.range 10).map (fun i => (CIdx.apply #[7, 8, 9] 3 5 2 #[0x1b00, 0x0200, 0x2400, 0x0100, 99, 99, 99, 99, 99, 99])[i]!) =
    (List.range 10).map (fun i => specIndexPixel #[7, 8, 9] 5 #[0x1b00, 0x0200, 0x2400, 0x0100, 99, 99, 99, 99, 99, 99] (i % 5) (i / 5)) := by
  decide +kernel


/-! ### reading a prefix code from the stream -/

/-- **`read_huffman_code` = the specification's `ReadCode`.**  `CodeRead.readCode` is the model of
    `LosslessDecoder::read_huffman_code` and `read_huffman_code_lengths` (simple codes with one or
    two symbols in either order, the code-length code in `CODE_LENGTH_CODE_ORDER`, `max_symbol`,
    the symbol loop over a preallocated vector with the repeat codes 16 / 17 / 18, the final
    `build_implicit`), tied to the real functions through hook 910fc7a on whole, truncated and
    bit-flipped serialisations.  For EVERY alphabet size 2..5000 and EVERY bit string: the model
    rejects exactly when the specification rejects; otherwise both leave the same rest of the
    stream, and the `HuffmanTree` the model returns (single node, two-node or table + secondary
    trees) decodes every bit string exactly like the canonical code of the lengths the
    specification read. -/
theorem read_code_is_spec (alphabet : Nat) (h2 : 2 ≤ alphabet) (h5000 : alphabet ≤ 5000) (bits : List Nat)
    (hb : ∀ b ∈ bits, b < 2) :
    match CodeRead.readCode alphabet bits, Prefix.readCodeL alphabet bits with
    | none, none => True
    | some (t, r), some (lens, r') =>
      r = r' ∧ ∀ bs : List Nat, (∀ b ∈ bs, b < 2) → Huff.readSym t bs = Prefix.decodeSymbol lens bs
    | _, _ => False :=
  CodeReadProof.read_code_is_spec alphabet h2 h5000 bits hb

-- non-vacuity: a two-symbol simple code (symbols 1 and 0, written in descending order) followed by
-- one more bit is accepted by both, and the bit is left in the stream
example : (CodeRead.readCode 40 [1, 1, 0, 1, 0, 0, 0, 0, 0, 0, 0, 0, 1]).map (·.2) = some [1] ∧
    (Prefix.readCodeL 40 [1, 1, 0, 1, 0, 0, 0, 0, 0, 0, 0, 0, 1]).map (·.2) = some [1] := by
  decide


/-! ### the entropy layer inside the whole stream -/

/-- **Whole streams with the crate's entropy layer.**  `LStream.decodeCrate` is the VP8L decoder
    obtained by putting the models of the crate's `read_huffman_code` / `read_huffman_code_lengths`
    (`CodeRead.readCode`) and `HuffmanTree` (`Huff.readSym`: primary table, secondary trees, slow
    path, single- and two-node trees) into the stream structure of the specification (header,
    transforms, colour cache, meta prefix image, pixel loop, inverse transforms); it is compared
    with the real decoder on every generated stream of up to 300 pixels.  For EVERY byte string
    it returns exactly what the specification `VP8LP.decode` returns - the same acceptance, the
    same dimensions, the same pixels: every prefix code of every group of every (sub-)image is read
    like `ReadCode` reads it, and every symbol of every pixel is decoded like the canonical code
    decodes it, wherever in the stream it stands. -/
theorem entropy_layer_in_stream (bytes : List Nat) : LStream.decodeCrate bytes = VP8LP.decode bytes :=
  LStreamProof.decodeCrate_is_spec bytes


/-! ### the inverse-transform drivers of `lossless_transform.rs` -/

/-- **`apply_predictor_transform` is the specification's inverse predictor transform.**
    `LTr.applyPredictor` models the driver as the code runs it, in place on the RGBA byte buffer and
    in the code's own order - alpha of pixel 0, the rest of the first row with predictor 1, the first
    column of every row with predictor 2, then row by row and block by block (`block_x << size_bits`
    clipped to 1..width) the fourteen `apply_predictor_transform_N` loops, each reading the
    neighbours it needs from the buffer it is writing (model tied to the real function byte for byte
    on every run).  For EVERY width, height, `size_bits`, predictor sub-image with modes 0..13 and
    residual buffer, the buffer afterwards, read as ARGB pixels, is exactly the specification's
    `invPredictor` (raster order, neighbours L / T / TR / TL incl. the rule that the top-right of the
    last pixel of a row is the first pixel of the row, per-channel arithmetic mod 256, Select's
    Manhattan distances, the two clamps).  Modes 14 and 15 are outside the specification. -/
theorem predictor_transform_is_spec (a d : Array Nat) (w h bits : Nat) (hw : 0 < w) (hh : 0 < h) (hs : a.size = 4 * (w * h))
    (hb : LTrProof.Bytes a) (hd : LTrProof.Bytes d) (hd4 : d.size % 4 = 0) (hmode : ∀ k, d.getD (4 * k + 1) 0 < 14) :
    LTrProof.pixels (LTr.applyPredictor w h bits d a) =
      VP8LP.invPredictor bits (LTrProof.pixels d).toArray w (LTrProof.pixels a) 0 [] :=
  LTrProof.predictor_is_spec a d w h bits hw hh hs hb hd hd4 hmode

/-- the fourteen predictor bodies, channel by channel, are the specification's predictors for all
    neighbour pixels (the kernel fact under `predictor_transform_is_spec`) -/
theorem predictor_bodies_are_spec (m : Nat) (hm : m < 14) (L T TR TL : Nat) :
    LTrProof.SameCh (LTrProof.packL (LTr.predPx m (LTrProof.bytesOf L) (LTrProof.bytesOf T) (LTrProof.bytesOf TR) (LTrProof.bytesOf TL)))
      (VP8L.predict m L T TR TL) :=
  LTrProof.predPx_is_predict m hm L T TR TL

/-- **`apply_color_transform` is the specification's inverse colour transform** for every width,
    `size_bits`, transform sub-image and buffer (rows as `chunks_exact_mut(width * 4)`, blocks as
    `chunks_mut(4 << size_bits)`, wrapping u32 deltas against the signed arithmetic shift). -/
theorem color_transform_is_spec (w h bits : Nat) (d a : Array Nat) (hb : LTrProof.Bytes a) (hd : LTrProof.Bytes d) (hd4 : d.size % 4 = 0)
    (hs : a.size = 4 * w * h) (hw : 0 < w) :
    LTrProof.pixels (LTr.applyColor w bits d a) = VP8LP.invColor bits (LTrProof.pixels d).toArray w (LTrProof.pixels a) 0 :=
  LTrProof.color_is_spec w h bits d a hb hd hd4 hs hw

/-- **`apply_subtract_green_transform` is the specification's** for every buffer -/
theorem subtract_green_is_spec (a : Array Nat) (hb : LTrProof.Bytes a) (h4 : a.size % 4 = 0) :
    LTrProof.pixels (LTr.applySubGreen a) = (LTrProof.pixels a).map VP8LP.invSubGreenPx :=
  LTrProof.subGreen_is_spec a hb h4

/-- **any sequence of the predictor / colour / subtract-green drivers, applied one after the other
    to the same buffer, computes the specification's `applyT`** (the inverse transforms in stream
    order reversed): each driver leaves bytes and the buffer size as it found them, so the three
    driver theorems chain for every list of transforms, sub-images with modes 0..13 and buffer. -/
theorem transform_drivers_compose (w h : Nat) (hw : 0 < w) (hh : 0 < h) (ts : List LTrProof.TB) (a : Array Nat)
    (hg : ∀ t, t ∈ ts → LTrProof.GoodT t) (hb : LTrProof.Bytes a) (hs : a.size = 4 * (w * h)) :
    LTrProof.pixels (LTrProof.applyTB w h ts a) = VP8LP.applyT w h (ts.map LTrProof.specT) w (LTrProof.pixels a) :=
  LTrProof.drivers_compose w h hw hh ts a hg hb hs


theorem bytes_of_all (a : Array Nat) (h : a.toList.all (· < 256) = true) : LTrProof.Bytes a := by
  intro i
  rw [List.all_eq_true] at h
  simp only [Array.getD]
  split
  · rename_i hi
    have := h (a[i]) (by simp [Array.getElem_mem_toList])
    simpa using this
  · omega

-- non-vacuity: a 3 x 2 image, one block in Select mode (11); hypotheses hold, and the model computes
-- the pixels the executable specification computes
example : LTrProof.Bytes #[1, 2, 3, 4, 250, 6, 7, 8, 9, 200, 11, 12, 13, 14, 15, 16, 17, 18, 19, 20, 21, 22, 23, 24] ∧
    LTrProof.Bytes #[0, 11, 0, 255] ∧ (∀ k, (#[0, 11, 0, 255] : Array Nat).getD (4 * k + 1) 0 < 14) := by
  refine ⟨bytes_of_all _ (by decide), bytes_of_all _ (by decide), ?_⟩
  intro k
  rcases k with _ | k
  · decide
  · have : (#[0, 11, 0, 255] : Array Nat).getD (4 * (k + 1) + 1) 0 = 0 := by
      simp only [Array.getD]; rw [dif_neg (by simp; omega)]
    omega

end C01
