import WebpVerif.Lemmas.Blend

/-!
# C12 — alpha blending is exact at the extremes and tightly bounded elsewhere

All statements quantify over every source / destination pixel with byte-valued components
(that is all 2^32 (s, sa, d, da) tuples per channel; the three colour channels are computed
independently by `Blend.chan`).  Nothing here is enumeration: the bounds are arithmetic.
-/
namespace C12
open Blend

def Byte (p : Px) : Prop := p.r < 256 ∧ p.g < 256 ∧ p.b < 256 ∧ p.a < 256

/-- The opaque clause of the property, at full strength, for the function the code implements.
    It is FALSE of the pinned tree (see `opaque_full_false`); it is kept as a proposition. -/
def opaque_full : Prop :=
  ∀ src dst : Px, Byte src → Byte dst → src.a = 255 → blendPixel src dst = src

/-- kernel-checked witness that the pinned tree violates the opaque clause (known finding
    KF-C12-opaque; replayed against the real code by the check) -/
theorem opaque_full_false : ¬ opaque_full := by
  intro h
  have := h ⟨100, 150, 200, 255⟩ ⟨7, 9, 11, 200⟩ (by simp [Byte]) (by simp [Byte]) rfl
  revert this; decide

/-- exact size of the deviation: with an opaque source every channel comes back as `s − 1`
    (0 stays 0) and alpha 255, whatever the destination -/
theorem blend_opaque_partial (src dst : Px) (hs : Byte src) (hd : Byte dst) (h : src.a = 255) :
    blendPixel src dst = ⟨src.r - 1, src.g - 1, src.b - 1, 255⟩ := by
  obtain ⟨h1, h2, h3, -⟩ := hs
  obtain ⟨-, -, -, hda⟩ := hd
  have key : ∀ s d da, s < 256 → da < 256 → chan s 255 d da = s - 1 := by
    intro s d da hs hda
    have hdf : dstFactor 255 da = 0 := by
      have := dstFactor_le 255 da hda; omega
    unfold chan blendChannel unscaled scaleOf
    rw [hdf]
    have e1 : (2:Nat) ^ 24 / (255 + 0) = 65793 := by decide
    have e2 : (s * 255 + d * (0 % 256)) * 65793 = s * 16777215 := by
      simp only [Nat.zero_mod, Nat.mul_zero, Nat.add_zero]; omega
    rw [e1, e2]
    simp only [Nat.shiftRight_eq_div_pow, Nat.reducePow]
    interval_cases s <;> rfl
  have hdf : dstFactor 255 dst.a = 0 := by
    have := dstFactor_le 255 dst.a hda; omega
  unfold blendPixel
  simp [h, key _ _ _ h1 hda, key _ _ _ h2 hda, key _ _ _ h3 hda, hdf]

/-- the repaired function satisfies the opaque clause for every pixel pair -/
theorem blend_opaque_fixed (src dst : Px) (h : src.a = 255) : blendPixelFixed src dst = src := by
  unfold blendPixelFixed; simp [h]

/-- and differs from the code only there -/
theorem fixed_eq_off_opaque (src dst : Px) (h : src.a ≠ 255) :
    blendPixelFixed src dst = blendPixel src dst := by
  unfold blendPixelFixed; simp [h]

/-- fully transparent source leaves the destination unchanged -/
theorem blend_transparent (src dst : Px) (h : src.a = 0) : blendPixel src dst = dst := by
  unfold blendPixel; simp [h]

/-- result alpha: `255·ra` is within 127 (< 255, i.e. `ra` within 1) of `255·(sa + da·(255−sa)/255)` -/
theorem blend_alpha_bound (src dst : Px) (hs : Byte src) (hd : Byte dst)
    (h0 : src.a ≠ 0) :
    let ra := (blendPixel src dst).a
    let A' := 255 * src.a + dst.a * (255 - src.a)
    255 * ra ≤ A' + 127 ∧ A' ≤ 255 * ra + 127 ∧ ra < 256 := by
  intro ra A'
  obtain ⟨-, -, -, hsa⟩ := hs
  obtain ⟨-, -, -, hda⟩ := hd
  have hra : ra = src.a + dstFactor src.a dst.a := by
    show (blendPixel src dst).a = _
    unfold blendPixel; simp only [h0, if_false]
    have := dstFactor_le src.a dst.a hda
    apply Nat.mod_eq_of_lt; omega
  have := dstFactor_err src.a dst.a hda
  have := dstFactor_le src.a dst.a hda
  rw [hra]; show _ ≤ 255 * src.a + dst.a * (255 - src.a) + 127 ∧ 255 * src.a + dst.a * (255 - src.a) ≤ _ ∧ _
  omega

/-- every colour channel of `blendPixel` for a source alpha strictly between 0 and 255 is `chan` -/
theorem blend_channels (src dst : Px) (h0 : src.a ≠ 0) :
    (blendPixel src dst).r = chan src.r src.a dst.r dst.a ∧
    (blendPixel src dst).g = chan src.g src.a dst.g dst.a ∧
    (blendPixel src dst).b = chan src.b src.a dst.b dst.a := by
  unfold blendPixel; simp [h0]

/-- each colour channel lies in `[min s d − 1, max s d + 1]` (in fact `≤ max s d`); this and the
    two theorems below hold for EVERY non-zero source alpha, 255 included -/
theorem blend_channel_range (s sa d da : Nat) (hs : s < 256) (hsa : 1 ≤ sa) (hsa2 : sa < 256)
    (hd : d < 256) (hda : da < 256) :
    min s d ≤ chan s sa d da + 1 ∧ chan s sa d da ≤ max s d + 1 := by
  have := chan_range s sa d da hs hsa hsa2 hd hda
  omega

/-- weighted by result alpha, each channel is within 2 code values of the exact 'over' colour:
    `|r·A' − N'| ≤ 2·255·255` with `A' = 255·(exact alpha)`, `N' = 255·(exact premultiplied colour)` -/
theorem blend_channel_weighted_error (s sa d da : Nat) (hs : s < 256) (hsa : 1 ≤ sa)
    (hsa2 : sa < 256) (hd : d < 256) (hda : da < 256) :
    let A' : Int := 255 * sa + da * (255 - sa : Nat)
    let N' : Int := 255 * s * sa + d * da * (255 - sa : Nat)
    let r : Int := chan s sa d da
    r * A' - N' ≤ 2 * 255 * 255 ∧ N' - r * A' ≤ 2 * 255 * 255 :=
  chan_weighted_error s sa d da hs hsa hsa2 hd hda

/-- the u32 product of `blend_channel_nonpremult` never overflows and both `debug_assert!`s hold
    (also the C03 obligation for this file) -/
theorem blend_no_overflow (s sa d da : Nat) (hs : s < 256) (hsa : 1 ≤ sa) (hsa2 : sa < 256)
    (hd : d < 256) (hda : da < 256) :
    unscaled s sa d (dstFactor sa da) * scaleOf sa da < 2 ^ 32 ∧ sa + dstFactor sa da < 256 := by
  obtain ⟨-, hb2, -, -, -, -, hov, -⟩ := chan_facts s sa d da hs hsa hsa2 hd hda
  exact ⟨hov, by omega⟩

/-- `chanFull` (what tie 2 enumerates) is the per-channel view of `blendPixel` -/
theorem chanFull_is_blendPixel (src dst : Px) :
    (blendPixel src dst).r = chanFull src.r src.a dst.r dst.a ∧
    (blendPixel src dst).g = chanFull src.g src.a dst.g dst.a ∧
    (blendPixel src dst).b = chanFull src.b src.a dst.b dst.a ∧
    (blendPixel src dst).a = alphaFull src.a dst.a := by
  unfold blendPixel chanFull alphaFull
  by_cases h0 : src.a = 0 <;> simp [h0]

-- non-vacuity: concrete pixels meet the hypotheses, and the functions compute non-trivially
example : Byte ⟨100, 150, 200, 128⟩ ∧ Byte ⟨7, 9, 11, 200⟩ := by simp [Byte]
example : blendPixel ⟨100, 150, 200, 128⟩ ⟨7, 9, 11, 200⟩ = ⟨59, 88, 117, 228⟩ := by decide
example : blendPixel ⟨100, 150, 200, 255⟩ ⟨7, 9, 11, 200⟩ = ⟨99, 149, 199, 255⟩ := by decide
example : blendPixelFixed ⟨100, 150, 200, 255⟩ ⟨7, 9, 11, 200⟩ = ⟨100, 150, 200, 255⟩ := by decide

end C12
