import WebpVerif.Model.Enc
import WebpVerif.Model.LosslessKernels
import WebpVerif.Spec.Lossless
import WebpVerif.Lemmas.BitWriter
import WebpVerif.Lemmas.BitReader
import WebpVerif.Lemmas.EncLoop
import WebpVerif.Lemmas.EncMain
import WebpVerif.Lemmas.StreamCong

/-!
# C04 — the lossless encoder round-trips every image exactly

`Enc.encodeFrame` models `encode_frame` completely (tie 2 is byte-exact).  Proved here, for all
inputs: dimension rejection; each stage of the pixel pipeline is inverted by the specification's
inverse (subtract-green, the encoder's predictor scheme, run tokens, the run-length prefix
coding for every run 5..4096); run tokens reproduce the pixel sequence.  The bit-level
composition (prefix codes written, serialised trees read back) rests on C14 and is validated by
execution: the Lean specification decoder, this crate's decoder and libwebp all return the input
for every generated image.
-/
namespace C04
open Enc

/-- dimensions of 0 or above 16384 are rejected; everything else is encoded -/
theorem reject_dims (data : List Nat) (w h color : Nat) (pred : Bool) :
    (encodeFrame data w h color pred).isNone = true ↔ (w = 0 ∨ w > 16384 ∨ h = 0 ∨ h > 16384) := by
  unfold encodeFrame
  by_cases hd : w = 0 ∨ w > 16384 ∨ h = 0 ∨ h > 16384
  · simp [hd]
  · rw [if_neg hd]; simp [hd]

/-- subtract-green is undone by the specification's add-green, for all channel values -/
theorem subgreen_inv (r g b : Nat) (hr : r < 256) (hb : b < 256) :
    LK.addGreen (sub8 r g) g = r ∧ LK.addGreen (sub8 b g) g = b := by
  unfold LK.addGreen sub8; omega

/-- the encoder's predictor scheme (left neighbour in row 0, top neighbour below, 255 for the
    first alpha) is undone by adding the same prediction back, per channel -/
theorem predictor_inv (p q : Nat) (hp : p < 256) : (sub8 p q + q) % 256 = p := by
  unfold sub8; omega

/-- run-length prefix coding: for EVERY run length 5..4096 the (symbol, extra bits) the encoder
    writes decode, by the specification's LZ77 prefix rule, to that length; the symbol is a
    legal length prefix (< 24) -/
def lenOk (len : Nat) : Bool :=
  len < 5 || len > 4096 || ((lengthToSymbol len).1 < 24 && LK.copyExtraBits (lengthToSymbol len).1 == (lengthToSymbol len).2 &&
    LK.copyValue (lengthToSymbol len).1 ((len - 1) % 2 ^ (lengthToSymbol len).2) == len)

theorem lenOk_all : ∀ k < 17, ∀ j < 256, lenOk (256 * k + j) = true := by decide +kernel

theorem length_symbol_inv (len : Nat) (h : len < 4097) (h5 : 5 ≤ len) :
    (lengthToSymbol len).1 < 24 ∧ LK.copyExtraBits (lengthToSymbol len).1 = (lengthToSymbol len).2 ∧
    LK.copyValue (lengthToSymbol len).1 ((len - 1) % 2 ^ (lengthToSymbol len).2) = len := by
  have := lenOk_all (len / 256) (by omega) (len % 256) (Nat.mod_lt _ (by omega))
  rw [Nat.div_add_mod] at this
  unfold lenOk at this
  have h5' : ¬ len < 5 := by omega
  have h6' : ¬ len > 4096 := by omega
  simp only [h5', h6', decide_false, Bool.false_or, Bool.and_eq_true, decide_eq_true_eq, beq_iff_eq] at this
  exact ⟨this.1.1, this.1.2, this.2⟩

/-- short runs 1..4 use symbols 256..259, which decode to 1..4 -/
theorem short_run_symbols (run : Nat) (h1 : 1 ≤ run) (h4 : run ≤ 4) :
    runSymbol run = 256 + run - 1 ∧ LK.copyValue (run - 1) 0 = run := by
  obtain rfl | rfl | rfl | rfl : run = 1 ∨ run = 2 ∨ run = 3 ∨ run = 4 := by omega
  all_goals decide

/-- expanding the tokens gives back the pixels -/
def expandTokens : List (List Nat × Nat) → List (List Nat)
  | [] => []
  | (p, run) :: rest => p :: (List.replicate run p ++ expandTokens rest)

theorem takeWhile_eq_replicate (p : List Nat) (l : List (List Nat)) (n : Nat)
    (h : n ≤ (l.takeWhile (· == p)).length) : l.take n = List.replicate n p := by
  induction l generalizing n with
  | nil => simp at h; subst h; rfl
  | cons a l ih =>
    match n with
    | 0 => rfl
    | n + 1 =>
      by_cases ha : (a == p) = true
      · simp only [List.takeWhile_cons, ha, if_true, List.length_cons] at h
        have := ih n (by omega)
        have hap : a = p := by simpa using ha
        simp [List.take_succ_cons, List.replicate_succ, this, hap]
      · simp [List.takeWhile_cons, ha] at h

/-- **Run tokens are lossless**: tokenising any pixel sequence (with enough fuel) and expanding
    the tokens returns the sequence; runs are at most 4096 long -/
theorem tokens_inv (px : List (List Nat)) : ∀ fuel, px.length ≤ fuel →
    expandTokens (tokenize px fuel) = px ∧ ∀ t ∈ tokenize px fuel, t.2 ≤ 4096 := by
  intro fuel
  induction fuel generalizing px with
  | zero =>
    intro h
    have : px = [] := List.eq_nil_of_length_eq_zero (by omega)
    subst this; simp [tokenize, expandTokens]
  | succ fuel ih =>
    intro h
    cases px with
    | nil => simp [tokenize, expandTokens]
    | cons p rest =>
      unfold tokenize
      simp only
      generalize hrun : (rest.takeWhile (· == p)).length.min 4096 = run
      have hle : run ≤ (rest.takeWhile (· == p)).length := by rw [← hrun]; exact Nat.min_le_left _ _
      have hlen : run ≤ rest.length := Nat.le_trans hle (List.takeWhile_sublist _).length_le
      obtain ⟨e1, e2⟩ := ih (rest.drop run) (by rw [List.length_drop]; simp at h; omega)
      constructor
      · unfold expandTokens
        rw [e1, ← takeWhile_eq_replicate p rest run hle, List.take_append_drop]
      · intro t ht
        simp only [List.mem_cons] at ht
        rcases ht with rfl | ht
        · simp only; rw [← hrun]; exact Nat.min_le_right _ _
        · exact e2 t ht

-- non-vacuity / regression: a whole tiny image through the model and the specification decoder
example : tokenize [[1, 2, 3, 4], [1, 2, 3, 4], [1, 2, 3, 4], [9, 9, 9, 9]] 4 = [([1, 2, 3, 4], 2), ([9, 9, 9, 9], 0)] := by decide
example : lengthToSymbol 4096 = (23, 10) := by decide

/-! ### bit level: what `BitWriter` writes is what the decoder's bit reader reads -/

/-- **The bit writer emits exactly the written fields.** For every sequence of
    `write_bits(bits, n)` calls (`n ≤ 64`, `bits < 2^n`) followed by `flush()`, the output bytes
    are the little-endian bytes of the number whose binary digits are the fields in order, LSB
    first, zero-padded to a whole number of bytes - whatever the interplay of the 64-bit buffer,
    the 8-byte flushes and fields straddling a word boundary (incl. the `checked_shr` corner when
    the buffer was empty) -/
theorem writer_emits_fields (ws : List (Nat × Nat)) (hv : BitWriterProof.Valid ws) :
    BitReader.le64 (BitWriterProof.output ws).toList = (BitWriterProof.streamOf ws).1 ∧
    (BitWriterProof.output ws).size = ((BitWriterProof.streamOf ws).2 + 7) / 8 :=
  BitWriterProof.output_spec ws hv

/-- **Write/read link.** Whatever was written as the field `(bits, n)` after the fields `pre`
    is what the specification's `ReadBits(n)` - and, by `C01.read_bits_is_stream_window`, this
    crate's bit reader under every refill schedule - returns at that bit position of the output -/
theorem written_field_is_read_back (pre post : List (Nat × Nat)) (bits n : Nat)
    (hv : BitWriterProof.Valid (pre ++ (bits, n) :: post)) :
    (BitReader.le64 (BitWriterProof.output (pre ++ (bits, n) :: post)).toList >>> (BitWriterProof.streamOf pre).2) % 2 ^ n = bits := by
  have e : BitReader.le64 (BitWriterProof.output (pre ++ (bits, n) :: post)).toList =
      (BitWriterProof.streamOf (pre ++ (bits, n) :: post)).1 := (BitWriterProof.output_spec _ hv).1
  rw [e]
  exact BitWriterProof.field_window pre post bits n hv

/-- non-vacuity: fields that straddle the 64-bit buffer boundary -/
example : BitWriterProof.output [(0x2f, 8), (5, 14), (9, 14), (1, 1), (0, 3), (0x1ffffffffff, 41), (3, 2)] =
    #[0x2f, 5, 64, 2, 16, 255, 255, 255, 255, 255, 7] := by decide

/-! ### symbol level: the decoder's pixel loop inverts the encoder's run tokens -/

/-- the only distance the encoder uses: its distance code is the single symbol 1, which the
    decoder turns (prefix value 2, plane code 2 = one pixel to the left) into distance 1, for
    every image width -/
theorem run_distance_is_one (xsize : Nat) :
    LK.copyExtraBits 1 = 0 ∧ LK.planeCodeToDistance xsize (LK.copyValue 1 0) = 1 := by
  refine ⟨by decide, ?_⟩
  have e : LK.copyValue 1 0 = 2 := by decide
  rw [e]
  unfold LK.planeCodeToDistance
  rw [if_neg (by decide)]
  have e2 : Gen.Tables.DISTANCE_MAP.getD (2 - 1) [] = [1, 0] := by decide
  simp only [e2]
  simp

theorem expandV_map (f : List Nat → Nat) : ∀ toks : List (List Nat × Nat),
    EncLoop.expandV (toks.map fun t => (f t.1, t.2)) = (expandTokens toks).map f := by
  intro toks
  induction toks with
  | nil => rfl
  | cons t rest ih =>
    obtain ⟨p, run⟩ := t
    simp only [List.map_cons, EncLoop.expandV, expandTokens, ih, List.map_append, List.map_replicate]

/-- **Encoder tokens through the decoder's pixel loop.**  For every pixel sequence `px` of a
    `w × h` image (after the forward transforms) and every packing `f` of a pixel into a number:
    the operations the encoder's tokens stand for (a literal, then - for a run - a backward
    reference of that length with distance 1), fed to the model of `decode_image_data`'s pixel
    loop (proved equal to the specification decoder in C01 and tied to the code there), yield
    exactly `px`, whatever the output buffer held before.  Together with `length_symbol_inv`,
    `short_run_symbols` and `run_distance_is_one` (symbols ↔ operations) and the inverse
    transform theorems this is the round trip at the symbol level; the bit level is
    `written_field_is_read_back` plus the prefix-code tables (C14, execution). -/
theorem pixel_loop_decodes_tokens (f : List Nat → Nat) (px : List (List Nat)) (w h : Nat) (hw : 0 < w)
    (hlen : px.length = w * h) (init : Array Nat) (hinit : init.size = w * h) :
    LLoop.decode (EncLoop.cfgEnc w h) init
        (EncLoop.opsOf ((tokenize px px.length).map fun t => (f t.1, t.2))) = .ok (px.map f).toArray := by
  have e := expandV_map f (tokenize px px.length)
  rw [(tokens_inv px px.length (Nat.le_refl _)).1] at e
  rw [EncLoop.decode_tokens w h hw _ init hinit (by rw [e, List.length_map, hlen]), e]

-- non-vacuity: a 3x2 image with a run, through the model of the real loop
example : LLoop.decode (EncLoop.cfgEnc 3 2) (Array.replicate 6 77)
    (EncLoop.opsOf ((tokenize [[1], [1], [1], [1], [2], [3]] 6).map fun t => (t.1.getD 0 0, t.2))) = .ok #[1, 1, 1, 1, 2, 3] := by
  decide +kernel


/-! ### bit level, whole frame: the specification decoder inverts the encoder -/

/-- **Round trip of every image through the specification decoder** (the headline statement of the
    property, at the level of bytes).  For every width and height in 1..16384, each of the four
    colour types (0 = L8, 1 = La8, 2 = Rgb8, 3 = Rgba8), with or without the predictor transform,
    and every input of `w·h·bytes_per_pixel` bytes: the model of `encode_frame` (byte-exact tie to
    the real function on every run) succeeds, and `VP8LP.decode` - the WebP lossless specification
    as a total function on byte strings (tied on every run to the executable specification
    `VP8L.decode`, to libwebp and to this crate's decoder) - applied to the bytes it produces
    returns exactly the same dimensions and the input pixels (grey expanded to RGB, missing alpha
    255), as ARGB values.  No hypothesis on the pixel values, sizes or histograms: the proof goes
    through the header, the transform section with the predictor's sub-image, the five prefix
    codes as `write_huffman_tree` serialises them (C14's theorem for every histogram, the
    code-length code, `max_symbol`), the packed multi-code writes of the 64-bit `BitWriter`, the
    LZ77 run tokens, and the inverse predictor and subtract-green transforms. -/
theorem encode_roundtrip (data : List Nat) (w h color : Nat) (pred : Bool)
    (hw : 1 ≤ w ∧ w ≤ 16384) (hh : 1 ≤ h ∧ h ≤ 16384) (hc : color ≤ 3) (hd : ∀ b ∈ data, b < 256)
    (hlen : data.length = w * h * EncRT.bytesPer color) :
    ∃ out, encodeFrame data w h color pred = some out ∧
      VP8LP.decode out.toList = some (w, h, (expand color data).map EncRT.pack) :=
  EncRT.encode_decodes data w h color pred hw.1 hw.2 hh.1 hh.2 hc hd hlen

/-- **… and through the crate's own entropy layer.**  The same round trip with the decoder that uses
    the models of this crate's `read_huffman_code` and `HuffmanTree` inside the stream structure
    (`LStream.decodeCrate`, compared with the real decoder on every run; `C01.entropy_layer_in_stream`):
    every image the encoder writes is read back exactly -/
theorem encode_roundtrip_crate_entropy (data : List Nat) (w h color : Nat) (pred : Bool)
    (hw : 1 ≤ w ∧ w ≤ 16384) (hh : 1 ≤ h ∧ h ≤ 16384) (hc : color ≤ 3) (hd : ∀ b ∈ data, b < 256)
    (hlen : data.length = w * h * EncRT.bytesPer color) :
    ∃ out, encodeFrame data w h color pred = some out ∧
      LStream.decodeCrate out.toList = some (w, h, (expand color data).map EncRT.pack) := by
  obtain ⟨out, h1, h2⟩ := encode_roundtrip data w h color pred hw hh hc hd hlen
  exact ⟨out, h1, by rw [LStreamProof.decodeCrate_is_spec]; exact h2⟩

/-- the pixel value the theorem speaks of is the ARGB number of the specification -/
theorem pack_is_argb (r g b a : Nat) : EncRT.pack [r, g, b, a] = VP8L.mk a r g b := rfl

/-- the decoder the driver executes (`VP8LP.decodeFast`, canonical code words tabulated once per
    code) is the specification `VP8LP.decode` -/
theorem decodeFast_is_decode : VP8LP.decodeFast = VP8LP.decode := by
  have e : VP8LP.tableDec = VP8LP.specDec := by
    funext lengths bits
    unfold VP8LP.tableDec VP8LP.specDec Prefix.decodeSymbol
    by_cases h1 : (lengths.filter (· ≠ 0)).length = 1
    · simp only [h1, if_true]
    · simp only [h1, if_false]
      exact Prefix.decodeSymT_eq lengths 15 0 0 bits
  funext bytes
  unfold VP8LP.decodeFast VP8LP.decode
  rw [e]

-- non-vacuity: the hypotheses are met by a concrete 2x2 Rgba8 image (and by every other image)
example : ∃ out, encodeFrame [10, 20, 30, 255, 10, 20, 30, 255, 10, 20, 30, 255, 40, 50, 60, 70] 2 2 3 true = some out ∧
    VP8LP.decode out.toList =
      some (2, 2, [VP8L.mk 255 10 20 30, VP8L.mk 255 10 20 30, VP8L.mk 255 10 20 30, VP8L.mk 70 40 50 60]) :=
  encode_roundtrip _ 2 2 3 true (by decide) (by decide) (by decide) (by decide) (by decide)

end C04
