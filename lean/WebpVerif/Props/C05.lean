import WebpVerif.Lemmas.Alpha
import WebpVerif.Props.C13
import WebpVerif.Lemmas.Anim

/-!
# C05 — lossy stills: RGB(A) conversion and the alpha plane are exact

RGB: `C13` (every pixel is libwebp's BT.601 kernel of luma (x,y) and chroma (x/2,y/2), for every
width/height parity).  Alpha: `Alpha` models the ALPH info byte, `get_alpha_predictor` and the
sequential in-place loop over the interleaved RGBA buffer; `AlphaSpec` is the container
specification's filtering rule.  The payloads themselves (VP8 planes, VP8L-compressed alpha) are
C02's and C01's subject.
-/
namespace C05
open Alpha AlphaSpec

/-- ALPH info byte, all 256 values: filter = bits 2-3, compression = bits 0-1 (0 raw, 1 lossless,
    else rejected), pre-processing = bits 4-5 (0/1 accepted, else rejected), top bits ignored -/
theorem alph_header : ∀ b < 256,
    header b = (if b / 16 % 4 > 1 then .error .invalidPreprocessing
                else if b % 4 > 1 then .error .invalidCompression
                else .ok (b / 4 % 4, b % 4 == 1)) := by
  decide +kernel

/-- **The alpha plane equals the specified reconstruction**, for every width ≥ 1, height, all
    four prediction filters and all delta planes (raster-order induction; 1-pixel rows/columns are
    ordinary instances) -/
theorem alpha_plane_eq (w h : Nat) (hw : 0 < w) (f : Nat) (data : Array Nat) (buf : Array Nat)
    (hbuf : buf.size = 4 * (w * h)) :
    alphaPlane (unfilterInto w f data (w * h) buf) (w * h) = reconstruct w f data.toList (w * h) := by
  obtain ⟨_, hget⟩ := unfilter_spec w hw f data buf (w * h) (by omega)
  apply List.ext_getElem?
  intro i
  by_cases hi : i < w * h
  · unfold alphaPlane
    rw [List.getElem?_map, List.getElem?_range hi, Option.map_some, hget i hi]
    rw [List.getD_eq_getElem?_getD, List.getElem?_eq_getElem (by rw [reconstruct_length]; exact hi)]
    simp
  · unfold alphaPlane
    rw [List.getElem?_eq_none (by simp; omega), List.getElem?_eq_none (by rw [reconstruct_length]; omega)]

/-- the alpha loop touches nothing but alpha bytes: every byte whose index is not ≡ 3 (mod 4)
    keeps the value the colour conversion wrote -/
theorem alpha_loop_keeps_colour (w f : Nat) (data buf : Array Nat) (n j : Nat) (hj : j % 4 ≠ 3) :
    (unfilterInto w f data n buf)[j]? = buf[j]? := by
  unfold unfilterInto
  induction n with
  | zero => rfl
  | succ n ih =>
    rw [List.range_succ, List.foldl_append]
    simp only [List.foldl_cons, List.foldl_nil]
    rw [Array.getElem?_setIfInBounds]
    have : ¬ (n * 4 + 3 = j) := by omega
    rw [if_neg this]; exact ih

/-- **Lossy still with alpha, every pixel**: after `fill_rgba` and the alpha loop, pixel (x, y) of
    the output holds libwebp's conversion of luma (x,y) / chroma (x/2,y/2) in its colour bytes and
    the specified alpha reconstruction in its alpha byte — for every width and height parity. -/
theorem still_rgba (w h : Nat) (hw : 0 < w) (ybuf ubuf vbuf buf : List Nat) (f : Nat) (data : Array Nat)
    (hyl : ybuf.length = w * h) (hul : ubuf.length = ((w + 1) / 2) * ((h + 1) / 2))
    (hvl : vbuf.length = ((w + 1) / 2) * ((h + 1) / 2)) (hbl : buf.length = 4 * w * h)
    (x y : Nat) (hx : x < w) (hy : y < h) :
    let out := unfilterInto w f data (w * h) (Yuv.fillRgba w ybuf ubuf vbuf buf).toArray
    (∀ c, c < 3 → out[(y * w + x) * 4 + c]? =
        some (Yuv.rgb c (ybuf.getD (y * w + x) 0) (ubuf.getD (((w + 1) / 2) * (y / 2) + x / 2) 0)
          (vbuf.getD (((w + 1) / 2) * (y / 2) + x / 2) 0))) ∧
    alphaAt out (y * w + x) = (reconstruct w f data.toList (w * h)).getD (y * w + x) 0 := by
  intro out
  have hlen : (Yuv.fillRgba w ybuf ubuf vbuf buf).length = 4 * w * h := by
    unfold Yuv.fillRgba
    have hrows : buf.length / (4 * w) = h := by rw [hbl]; exact Nat.mul_div_cancel_left h (by omega)
    rw [hrows]
    have : ∀ (n y0 : Nat) (b : List Nat), b.length = 4 * w * n →
        (Yuv.fillRows Yuv.fillRgbaRow 4 w ((w + 1) / 2) ybuf ubuf vbuf n y0 b).length = b.length := by
      intro n
      induction n with
      | zero => intro y0 b _; rfl
      | succ n ih =>
        intro y0 b hb
        unfold Yuv.fillRows
        rw [List.length_append, Yuv.fillRgbaRow_length, ih _ _ (by rw [List.length_drop, hb, Nat.mul_succ]; omega)]
        rw [List.length_take, List.length_drop, hb, Nat.mul_succ]; omega
    rw [this h 0 buf hbl, hbl]
  refine ⟨?_, ?_⟩
  · intro c hc
    show (unfilterInto w f data (w * h) _)[(y * w + x) * 4 + c]? = _
    rw [alpha_loop_keeps_colour _ _ _ _ _ _ (by omega)]
    have := C13.frame_rgba w h ybuf ubuf vbuf buf hyl hul hvl hbl x y c hx hy (by omega)
    rw [if_neg (by omega)] at this
    simpa using this
  · have hflat := Anim.flat_lt w h x y hx hy
    obtain ⟨_, hget⟩ := unfilter_spec w hw f data (Yuv.fillRgba w ybuf ubuf vbuf buf).toArray (w * h)
      (by rw [List.size_toArray, hlen]
          have : w * h * 4 = 4 * w * h := by rw [Nat.mul_comm, Nat.mul_assoc]
          omega)
    exact hget _ hflat

-- non-vacuity: a 3x2 plane through every filter, model against specification
example : alphaPlane (unfilterInto 3 3 #[10, 20, 250, 7, 200, 9] 6 (Array.replicate 24 0)) 6 =
    reconstruct 3 3 [10, 20, 250, 7, 200, 9] 6 := by decide
example : reconstruct 3 1 [10, 20, 250, 7, 200, 9] 6 = [10, 30, 24, 17, 217, 226] := by decide

end C05
