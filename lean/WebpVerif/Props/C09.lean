import WebpVerif.Lemmas.Riff

/-!
# C09 — encoder output is a well-formed container carrying the supplied metadata

`EncContainer.encode` models `WebPEncoder::encode` after `encode_frame` (the sequence of
`write_all` calls, concatenated); `Riff.demux` is the container grammar as a demultiplexer.
For every VP8L payload, every ICC/EXIF/XMP payload (empty = not supplied), every legal size and
both colour kinds — under the single hypothesis that the file stays below the format's 4 GiB
limit — the output demultiplexes to exactly the expected chunk list.
-/
namespace C09
open EncContainer Riff

/-- the chunk list the container specification requires: VP8X, ICCP, image, EXIF, XMP -/
def expectedChunks (frame icc exif xmp : List Nat) (w h : Nat) (alphaColor : Bool) : List (List Nat × List Nat) :=
  if icc.isEmpty && exif.isEmpty && xmp.isEmpty then [(fourcc "VP8L", frame)]
  else
    [(fourcc "VP8X", vp8xPayload icc exif xmp w h alphaColor)]
      ++ (if !icc.isEmpty then [(fourcc "ICCP", icc)] else [])
      ++ [(fourcc "VP8L", frame)]
      ++ (if !exif.isEmpty then [(fourcc "EXIF", exif)] else [])
      ++ (if !xmp.isEmpty then [(fourcc "XMP ", xmp)] else [])

def Small (frame icc exif xmp : List Nat) : Prop :=
  frame.length + icc.length + exif.length + xmp.length + 100 < 2 ^ 32

theorem expected_ok (frame icc exif xmp : List Nat) (w h : Nat) (a : Bool) (hs : Small frame icc exif xmp) :
    ∀ c ∈ expectedChunks frame icc exif xmp w h a, ChunkOk c := by
  unfold Small at hs
  intro c hc
  unfold expectedChunks at hc
  have hv : (vp8xPayload icc exif xmp w h a).length = 10 := by simp [vp8xPayload, le32]
  split at hc
  · simp only [List.mem_singleton] at hc; subst hc; exact ⟨rfl, by simp only; omega⟩
  · simp only [List.mem_append, List.mem_singleton, List.mem_ite_nil_right] at hc
    rcases hc with (((rfl | ⟨_, rfl⟩) | rfl) | ⟨_, rfl⟩) | ⟨_, rfl⟩
    · exact ⟨rfl, by simp only [hv]; omega⟩
    · exact ⟨rfl, by simp only; omega⟩
    · exact ⟨rfl, by simp only; omega⟩
    · exact ⟨rfl, by simp only; omega⟩
    · exact ⟨rfl, by simp only; omega⟩

/-- total of the `chunk_size`s, as the encoder adds them up -/
def totalOf (frame icc exif xmp : List Nat) : Nat :=
  if icc.isEmpty && exif.isEmpty && xmp.isEmpty then chunkSize frame.length + 4
  else 22 + chunkSize frame.length
      + (if !icc.isEmpty then chunkSize icc.length else 0)
      + (if !exif.isEmpty then chunkSize exif.length else 0)
      + (if !xmp.isEmpty then chunkSize xmp.length else 0)

/-- layout: header, then exactly the expected chunks, each as `write_chunk` prints it -/
theorem encode_layout (frame icc exif xmp : List Nat) (w h : Nat) (a : Bool) :
    encode frame icc exif xmp w h a =
      fourcc "RIFF" ++ le32 (totalOf frame icc exif xmp % 2 ^ 32) ++ fourcc "WEBP" ++
        (expectedChunks frame icc exif xmp w h a).flatMap (fun c => chunkBytes c.1 c.2) := by
  unfold encode encodeWrites expectedChunks totalOf chunkBytes
  by_cases h0 : (icc.isEmpty && exif.isEmpty && xmp.isEmpty) = true
  · simp [h0]
  · simp only [h0, if_false]
    by_cases h1 : icc.isEmpty <;> by_cases h2 : exif.isEmpty <;> by_cases h3 : xmp.isEmpty <;>
      simp [h1, h2, h3, List.flatMap_append]

theorem chunkSize_small (n : Nat) (h : n + 1 < 2 ^ 32) : chunkSize n = n + n % 2 + 8 := by
  unfold chunkSize; split <;> omega

/-- **RIFF size = file length − 8**, and the file demultiplexes to the expected chunk list:
    every supplied payload comes back byte for byte, in the order VP8X, ICCP, VP8L, EXIF, XMP -/
theorem demux_encode (frame icc exif xmp : List Nat) (w h : Nat) (a : Bool)
    (hs : Small frame icc exif xmp) :
    demux (encode frame icc exif xmp w h a) =
      some { riffSize := (encode frame icc exif xmp w h a).length - 8,
             chunks := expectedChunks frame icc exif xmp w h a } := by
  have hok := expected_ok frame icc exif xmp w h a hs
  have hlay := encode_layout frame icc exif xmp w h a
  -- length of the chunk part equals totalOf − 4
  have hlen : ((expectedChunks frame icc exif xmp w h a).flatMap (fun c => chunkBytes c.1 c.2)).length + 4
      = totalOf frame icc exif xmp := by
    unfold Small at hs
    have hv : (vp8xPayload icc exif xmp w h a).length = 10 := by simp [vp8xPayload, le32]
    have cl : ∀ (n d : List Nat), n.length = 4 → d.length + 1 < 2 ^ 32 → (chunkBytes n d).length = d.length + d.length % 2 + 8 := by
      intro n d hn hd; rw [chunkBytes_length n d hn hd, chunkSize_small _ hd]
    unfold expectedChunks totalOf
    by_cases h0 : (icc.isEmpty && exif.isEmpty && xmp.isEmpty) = true
    · simp only [h0, if_true, List.flatMap_cons, List.flatMap_nil, List.append_nil]
      rw [cl _ _ rfl (by omega), chunkSize_small _ (by omega)]
    · simp only [h0, if_false]
      by_cases h1 : icc.isEmpty <;> by_cases h2 : exif.isEmpty <;> by_cases h3 : xmp.isEmpty <;>
        simp only [h1, h2, h3, Bool.not_true, Bool.not_false, if_true, if_false, Bool.false_eq_true,
          List.flatMap_append, List.flatMap_cons, List.flatMap_nil, List.append_nil, List.length_append,
          List.nil_append, List.length_nil] <;>
        (repeat rw [cl _ _ rfl (by first | omega | (rw [hv]; omega))]) <;>
        (repeat rw [chunkSize_small _ (by omega)]) <;> (try rw [hv]) <;> omega
  have htot : totalOf frame icc exif xmp < 2 ^ 32 := by
    unfold Small at hs
    unfold totalOf
    split
    · rw [chunkSize_small _ (by omega)]; omega
    · repeat rw [chunkSize_small _ (by omega)]
      split <;> split <;> split <;> omega
  have hmod : totalOf frame icc exif xmp % 2 ^ 32 = totalOf frame icc exif xmp := Nat.mod_eq_of_lt htot
  have hfile : (encode frame icc exif xmp w h a).length = totalOf frame icc exif xmp + 8 := by
    rw [hlay]; simp only [List.length_append, le32_length]
    have : (fourcc "RIFF").length = 4 := rfl
    have : (fourcc "WEBP").length = 4 := rfl
    omega
  unfold demux
  rw [hfile]
  rw [hlay, hmod]
  have t1 : (fourcc "RIFF" ++ le32 (totalOf frame icc exif xmp) ++ fourcc "WEBP" ++
      (expectedChunks frame icc exif xmp w h a).flatMap (fun c => chunkBytes c.1 c.2)).take 4 = ascii "RIFF" := by
    simp [List.append_assoc, List.take_append_of_le_length, fourcc, ascii]
  have t2 : ((fourcc "RIFF" ++ le32 (totalOf frame icc exif xmp) ++ fourcc "WEBP" ++
      (expectedChunks frame icc exif xmp w h a).flatMap (fun c => chunkBytes c.1 c.2)).drop 8).take 4 = ascii "WEBP" := by
    simp [List.append_assoc, fourcc, ascii, le32, List.take_append_of_le_length]
  have t3 : le (((fourcc "RIFF" ++ le32 (totalOf frame icc exif xmp) ++ fourcc "WEBP" ++
      (expectedChunks frame icc exif xmp w h a).flatMap (fun c => chunkBytes c.1 c.2)).drop 4).take 4) =
      totalOf frame icc exif xmp := by
    have : ((fourcc "RIFF" ++ le32 (totalOf frame icc exif xmp) ++ fourcc "WEBP" ++
      (expectedChunks frame icc exif xmp w h a).flatMap (fun c => chunkBytes c.1 c.2)).drop 4).take 4 =
        le32 (totalOf frame icc exif xmp) := by
      simp [List.append_assoc, fourcc, le32, List.take_append_of_le_length]
    rw [this]; exact le_le32 _ htot
  have t4 : (fourcc "RIFF" ++ le32 (totalOf frame icc exif xmp) ++ fourcc "WEBP" ++
      (expectedChunks frame icc exif xmp w h a).flatMap (fun c => chunkBytes c.1 c.2)).drop 12 =
      (expectedChunks frame icc exif xmp w h a).flatMap (fun c => chunkBytes c.1 c.2) := by
    simp [List.append_assoc, fourcc, le32]
  rw [t1, t2, t3, t4]
  simp only [ne_eq, not_true_eq_false, if_false]
  have hcount : (expectedChunks frame icc exif xmp w h a).length ≤ totalOf frame icc exif xmp + 8 := by
    have : (expectedChunks frame icc exif xmp w h a).length ≤ 5 := by
      unfold expectedChunks; split
      · simp
      · simp only [List.length_append, List.length_cons, List.length_nil]
        split <;> split <;> split <;> simp
    omega
  rw [parseChunks_list _ hok _ hcount]
  simp

/-- every chunk is padded to an even length -/
theorem chunks_even (name data : List Nat) (hn : name.length = 4) : (chunkBytes name data).length % 2 = 0 := by
  rw [chunkBytes_eq]
  by_cases h : data.length % 2 = 1
  · simp only [h, if_true, List.length_append, hn, le32_length, List.length_cons, List.length_nil]; omega
  · simp only [h, if_false, List.length_append, hn, le32_length, List.length_nil]; omega

/-- VP8X flags: bit 2 ⇔ XMP, bit 3 ⇔ EXIF, bit 4 ⇔ alpha colour type, bit 5 ⇔ ICC; nothing else -/
theorem flags_exact (icc exif xmp : List Nat) (a : Bool) :
    let f := flagsOf icc exif xmp a
    (f / 4 % 2 = 1 ↔ xmp ≠ []) ∧ (f / 8 % 2 = 1 ↔ exif ≠ []) ∧ (f / 16 % 2 = 1 ↔ a = true) ∧
    (f / 32 % 2 = 1 ↔ icc ≠ []) ∧ f % 4 = 0 ∧ f < 64 := by
  unfold flagsOf
  cases icc <;> cases exif <;> cases xmp <;> cases a <;> simp

/-- the canvas size written in the VP8X chunk is the image size (24-bit fields hold `w−1`, `h−1`) -/
theorem canvas_exact (icc exif xmp : List Nat) (w h : Nat) (a : Bool) (hw : 1 ≤ w ∧ w ≤ 16384) (hh : 1 ≤ h ∧ h ≤ 16384) :
    let p := vp8xPayload icc exif xmp w h a
    le ((p.drop 4).take 3) + 1 = w ∧ le ((p.drop 7).take 3) + 1 = h := by
  unfold vp8xPayload le32 le
  simp only [List.cons_append, List.nil_append, List.drop_succ_cons, List.drop_zero, List.take_succ_cons, List.take_zero, List.foldr]
  omega

-- non-vacuity
example : Small [1, 2, 3] [] [9] [] := by unfold Small; decide
example : demux (encode [47, 0, 0] [] [9] [] 1 1 false) =
    some { riffSize := 44, chunks := [(fourcc "VP8X", [8, 0, 0, 0, 0, 0, 0, 0, 0, 0]), (fourcc "VP8L", [47, 0, 0]), (fourcc "EXIF", [9])] } := by decide

end C09
