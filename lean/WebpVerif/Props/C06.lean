import WebpVerif.Lemmas.Anim
import WebpVerif.Lemmas.Blend

/-!
# C06 — animation frames follow the container's canvas compositing model

`Anim` models `composite_frame` and the `read_frame` state machine; `Canvas` is the
specification: a per-pixel fold over the frame history (`canvasPx`), parametric in the blend
function.  The theorems below instantiate it with the blend function the code uses
(`Blend.blendPixel`); the property's clauses about the blend itself are C12's, and the one that
fails there (opaque source, known finding) is restated here as `opaque_replaces_full` /
`opaque_replaces_false`.
-/
namespace C06
open Anim Canvas Blend

/-- a valid animation as `read_frame` accepts it -/
def Valid (f : File) : Prop := 0 < f.cw ∧ ∀ g ∈ f.frames, FrameOk f g

/-- one compositing step equals the specification per pixel; no index out of bounds;
    only the previous rectangle is restored (all canvas sizes, rectangles, flags, contents) -/
theorem composite_eq_spec (canvas : Array Px) (cw ch : Nat) (clear : Option Px)
    (frame : Array Px) (fr : Rect) (hasAlpha useBlend : Bool) (prev : Rect)
    (hfr : fr.inside cw ch = true) (hprev : prev.inside cw ch = true)
    (hc : canvas.size = cw * ch) (hf : frame.size = fr.w * fr.h) :
    ∃ c', compositeFrame canvas cw ch clear frame fr hasAlpha useBlend prev = some c' ∧
      c'.size = cw * ch ∧
      ∀ x y, x < cw → y < ch →
        c'[y * cw + x]? = some (stepPx blendPixel (clear.getD ⟨0, 0, 0, 0⟩) clear.isSome prev
          (asFrame frame fr hasAlpha useBlend) (canvas.getD (y * cw + x) ⟨0, 0, 0, 0⟩) x y) :=
  compositeFrame_spec canvas cw ch clear frame fr hasAlpha useBlend prev hfr hprev hc hf

/-- state after `k` `read_frame` calls on a fresh decoder -/
def after (f : File) : Nat → State
  | 0 => State.default
  | k + 1 => (readFrame f (after f k)).2

/-- **The k-th successful `read_frame` returns the canvas fold and that frame's duration**, for
    every valid animation and every k — by induction over the frame history. -/
theorem read_frame_fold (f : File) (hv : Valid f) (k : Nat) (fr : Frame) (hfr : f.frames[k]? = some fr) :
    StateAt f k (after f k) ∧
    (readFrame f (after f k)).1 = .frame fr.duration (frameBuf blendPixel f (k + 1)) := by
  have hstate : ∀ j, j ≤ k → StateAt f j (after f j) := by
    intro j
    induction j with
    | zero => intro _; exact stateAt_default f
    | succ j ih =>
      intro hj
      have hjlt : j < f.frames.length := by
        have : k < f.frames.length := by
          by_contra hge; simp [Nat.not_lt.mp hge] at hfr
        omega
      obtain ⟨c, h1, h2⟩ := readFrame_step f j (after f j) f.frames[j] (ih (by omega)) (by simp [hjlt]) hv.2
      show StateAt f (j + 1) (readFrame f (after f j)).2
      rw [h1]; exact h2
  refine ⟨hstate k (Nat.le_refl _), ?_⟩
  obtain ⟨c, h1, h2⟩ := readFrame_step f k (after f k) fr (hstate k (Nat.le_refl _)) hfr hv.2
  rw [h1]
  obtain ⟨_, _, hpos⟩ := h2
  obtain ⟨c', last, hc, hsz, _, _, _, hget⟩ := hpos (by omega)
  simp only [Option.some.injEq] at hc
  subst hc
  have := render_eq f.hasAlpha c f.cw f.ch hv.1 hsz (canvasPx blendPixel f.bg (hist f (k + 1))) hget
  simp only
  rw [this]
  unfold frameBuf hist
  congr 1

/-- after the last frame `read_frame` reports `NoMoreFrames` and changes nothing -/
theorem no_more_frames (f : File) (st : State) (h : st.nextFrame ≥ f.frames.length) :
    readFrame f st = (.noMoreFrames, st) := by
  unfold readFrame; rw [if_pos h]

/-- the background colour is read in the container's Blue, Green, Red, Alpha order -/
theorem bg_order (f : File) (b g r a : Nat) (h : f.bgFile = [b, g, r, a]) : f.bg = ⟨r, g, b, a⟩ := by
  unfold File.bg; rw [h]; rfl

/-- fully transparent source pixels leave the canvas pixel unchanged (with the code's blend) -/
theorem transparent_leaves (src dst : Px) (h : src.a = 0) : blendPixel src dst = dst := by
  unfold blendPixel; simp [h]

/-- a frame without alpha is drawn opaque, by overwrite, whatever its blend flag says -/
theorem opaque_frame_overwrites (bg : Px) (d : Bool) (prev : Rect) (fr : Frame) (old : Px) (x y : Nat)
    (hna : fr.hasAlpha = false) (hin : inRect fr.rect x y = true) :
    stepPx blendPixel bg d prev fr old x y =
      { (fr.pixels.getD ((y - fr.rect.y) * fr.rect.w + (x - fr.rect.x)) ⟨0, 0, 0, 0⟩) with a := 255 } := by
  unfold stepPx framePx; simp [hna, hin]

/-- "Opaque source pixels replace the canvas pixel exactly", for the code's blend function.
    FALSE of the pinned tree (known finding KF-C06-opaque-blend = KF-C12-opaque). -/
def opaque_replaces_full : Prop := ∀ src dst : Px, src.r < 256 → src.g < 256 → src.b < 256 → src.a = 255 → blendPixel src dst = src

theorem opaque_replaces_false : ¬ opaque_replaces_full := by
  intro h
  have := h ⟨100, 150, 200, 255⟩ ⟨7, 9, 11, 200⟩ (by decide) (by decide) (by decide) rfl
  revert this; decide

/-- with the repaired blend function the clause holds, and the repaired function differs from the
    code's only for an opaque source -/
theorem opaque_replaces_fixed (src dst : Px) (h : src.a = 255) : blendPixelFixed src dst = src := by
  unfold blendPixelFixed; simp [h]

-- non-vacuity: a concrete valid animation (two frames, the second blended onto a disposed first)
def demo : File :=
  { cw := 2, ch := 2, bgFile := [1, 2, 3, 4], hasAlpha := true,
    frames := [
      { rect := ⟨0, 0, 1, 1⟩, duration := 100, useBlend := true, dispose := true, hasAlpha := true,
        pixels := #[⟨255, 238, 221, 204⟩] },
      { rect := ⟨0, 0, 2, 2⟩, duration := 50, useBlend := false, dispose := false, hasAlpha := false,
        pixels := #[⟨1, 2, 3, 255⟩, ⟨4, 5, 6, 255⟩, ⟨7, 8, 9, 255⟩, ⟨16, 17, 18, 255⟩] }] }

example : Valid demo := by
  refine ⟨by decide, ?_⟩
  intro g hg
  simp only [demo, List.mem_cons, List.not_mem_nil, or_false] at hg
  rcases hg with rfl | rfl <;> exact ⟨by decide, by decide, by decide, by decide⟩

example : (run demo State.default [.readFrame, .readFrame, .readFrame]).length = 3 := by decide

end C06
