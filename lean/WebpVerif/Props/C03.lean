import WebpVerif.Props.C12
import WebpVerif.Props.C15
import WebpVerif.Props.C06
import WebpVerif.Props.C10
import WebpVerif.Model.Container
import WebpVerif.Lemmas.HuffShort
import WebpVerif.Lemmas.LLoop

/-!
# C03 — no byte string makes decoding panic, overflow, hang or index out of bounds

What is a theorem here: for the components that have a model, the arithmetic and indexing
obligations a checked build enforces (the models are total functions; where the Rust code could
panic the model has an explicit failure value and the theorems exclude it):
* alpha blending: the u32 product and both `debug_assert!`s (C12);
* boolean decoder: register invariant ⇒ every shift amount is in range, asserts hold, exhaustion is
  sticky (C15);
* lossless bit reader: `nbits ≤ 63` is invariant ⇒ `debug_assert!(nbits < 64)` and the shifts (C10);
* animation: the geometry checks of `read_frame` imply that `composite_frame` never indexes out of
  bounds (C06), and the canvas size is computed without overflow;
* prefix-code validation: the canonical-code counter stays far below 2^32;
* container scan: every iteration consumes at least 8 input bytes (⇒ at most ⌈len/8⌉ iterations).
What is only monitored (corruption stream in a checked build, with a time budget): VP8
reconstruction indices, lossless transforms' slice arithmetic, `decode_image_data`, allocation.
-/
namespace C03

/-- blending never overflows u32 and its assertions hold, for every pixel pair -/
theorem blend_safe (s sa d da : Nat) (hs : s < 256) (hsa : 1 ≤ sa) (hsa2 : sa < 256) (hd : d < 256) (hda : da < 256) :
    Blend.unscaled s sa d (Blend.dstFactor sa da) * Blend.scaleOf sa da < 2 ^ 32 ∧ sa + Blend.dstFactor sa da < 256 :=
  C12.blend_no_overflow s sa d da hs hsa hsa2 hd hda

/-- boolean decoder: after any public read the register invariant holds again (so the next
    `split << bit_count` has a shift amount in 0..=31 and `range` is in 128..=255) -/
theorem arith_safe (d : Arith.Dec) (p : Nat) (hp : p < 256) (h : Arith.WF d) :
    Arith.WF (Arith.readBool d p).2 ∧ Arith.WF (Arith.readFlag d).2 ∧
    (∀ n, Arith.WF (Arith.readLiteral d n).2) ∧ (∀ n, Arith.WF (Arith.readOptionalSigned d n).2) :=
  ⟨C15.read_bool_wf d p hp h, C15.read_flag_wf d h, fun n => C15.read_literal_wf d n h, fun n => C15.read_signed_wf d n h⟩

/-- lossless bit reader: `fill` keeps `nbits ≤ 63` (its `debug_assert!`) and a valid window, for
    every schedule, from any state reached from the initial one -/
theorem bitreader_safe (data : List Nat) (hb : ∀ b ∈ data, b < 256) (expose : Nat → Nat) (br : BitReader.BR)
    (h : BitReader.Inv data br) : BitReader.Inv data (BitReader.fill data expose br) :=
  BitReader.fill_inv data hb expose br h

/-- the two geometry checks of `read_frame` are exactly "the frame lies inside the canvas" -/
theorem read_frame_geometry_ok (x y w h cw ch : Nat) (h1 : ¬ (x + w > cw ∨ y + h > ch)) :
    (Anim.Rect.mk x y w h).inside cw ch = true := by
  unfold Anim.Rect.inside; simp; omega

/-- ... and then `composite_frame` returns (no slice index out of bounds), for every canvas,
    frame content and flag combination -/
theorem composite_no_oob (canvas : Array Blend.Px) (cw ch : Nat) (clear : Option Blend.Px)
    (frame : Array Blend.Px) (fr prev : Anim.Rect) (ha bl : Bool)
    (hfr : fr.inside cw ch = true) (hprev : prev.inside cw ch = true)
    (hc : canvas.size = cw * ch) (hf : frame.size = fr.w * fr.h) :
    (Anim.compositeFrame canvas cw ch clear frame fr ha bl prev).isSome = true := by
  obtain ⟨c', h, _, _⟩ := C06.composite_eq_spec canvas cw ch clear frame fr ha bl prev hfr hprev hc hf
  rw [h]; rfl

/-- the canvas allocation: 24-bit canvas sides times 4 bytes fit a 64-bit `usize` by far -/
theorem canvas_size_fits (cw ch : Nat) (hw : cw ≤ 2 ^ 24) (hh : ch ≤ 2 ^ 24) : cw * ch * 4 < 2 ^ 64 := by
  have : cw * ch ≤ 2 ^ 24 * 2 ^ 24 := Nat.mul_le_mul hw hh
  omega

/-- the canonical-code counter of `build_implicit` (`curr_code = (curr_code + hist[len]) << 1`) -/
def codeCounter (hist : Nat → Nat) : Nat → Nat
  | 0 => 0
  | k + 1 => (codeCounter hist k + hist (k + 1)) * 2

/-- with at most 2328 symbols (the largest alphabet: 280 + 2^11 cache entries) the counter stays
    below 2^32 for all 15 lengths, whatever the lengths are — so the u32 never overflows -/
theorem code_counter_bound (hist : Nat → Nat) (hh : ∀ l, hist l ≤ 2328) (k : Nat) (hk : k ≤ 15) :
    codeCounter hist k < 2 ^ 32 := by
  have key : ∀ k, codeCounter hist k + 2 * 2328 ≤ 2328 * 2 ^ (k + 1) := by
    intro k
    induction k with
    | zero => simp [codeCounter]
    | succ k ih =>
      unfold codeCounter
      have := hh (k + 1)
      have e : 2328 * 2 ^ (k + 1 + 1) = 2 * (2328 * 2 ^ (k + 1)) := by
        have : 2 ^ (k + 1 + 1) = 2 ^ (k + 1) * 2 := Nat.pow_succ 2 (k + 1)
        rw [this]; omega
      omega
  have h1 := key k
  have h2 : 2328 * 2 ^ (k + 1) ≤ 2328 * 2 ^ 16 := Nat.mul_le_mul_left _ (Nat.pow_le_pow_right (by omega) (by omega))
  omega

/-- reading a chunk header consumes exactly 8 bytes -/
theorem header_consumes_8 (r r' : Container.Reader) (x : List Nat × Nat × Nat)
    (h : Container.readChunkHeader r = .ok (x, r')) : r'.pos = r.pos + 8 ∧ r'.data = r.data := by
  unfold Container.readChunkHeader Container.readExact Container.readLE Container.readExact at h
  by_cases h1 : r.pos + 4 ≤ r.data.length
  · simp only [h1, if_true] at h
    by_cases h2 : r.pos + 4 + 4 ≤ r.data.length
    · simp only [h2, if_true] at h
      simp only [Except.ok.injEq, Prod.mk.injEq] at h
      obtain ⟨_, rfl⟩ := h
      exact ⟨by show r.pos + 4 + 4 = r.pos + 8; omega, rfl⟩
    · simp only [h2, if_false] at h; cases h
  · simp only [h1, if_false] at h; cases h

/-! ### the VP8L pixel loop and the entropy decoder never fail by accident -/

theorem specCopy_cache_size (c : LLoop.Cfg) (d cache : Array Nat) (index dist : Nat) :
    ∀ len, (LLoop.specCopy c d cache index dist len).2.size = cache.size := by
  intro len
  induction len with
  | zero => rfl
  | succ len ih =>
    show (LLoop.insert c (LLoop.specCopy c d cache index dist len).2 _).size = cache.size
    rw [LLoop.insert_size, ih]

def isPanic : LLoop.Res → Bool
  | .panic _ => true
  | _ => false

theorem specRun_no_panic (c : LLoop.Cfg) : ∀ (ops : List LLoop.Op) (d : Array Nat) (index : Nat) (cache : Array Nat),
    (c.cacheBits ≠ 0 → cache.size = 2 ^ c.cacheBits) →
    (∀ k, LLoop.Op.cache k ∈ ops → k < 2 ^ c.cacheBits) →
    isPanic (LLoop.specRun c ops d index cache) = false := by
  intro ops
  induction ops with
  | nil => intro d index cache _ _; rw [LLoop.specRun]; split <;> rfl
  | cons op rest ih =>
    intro d index cache hsz hk
    have hk' : ∀ k, LLoop.Op.cache k ∈ rest → k < 2 ^ c.cacheBits := fun k hm => hk k (List.mem_cons_of_mem _ hm)
    cases op with
    | lit v =>
      rw [LLoop.specRun]
      try simp only
      split
      · rfl
      · exact ih _ _ _ (fun hb => by rw [LLoop.insert_size]; exact hsz hb) hk'
    | back len dist =>
      rw [LLoop.specRun]
      try simp only
      split
      · rfl
      · split
        · rfl
        · exact ih _ _ _ (fun hb => by rw [specCopy_cache_size]; exact hsz hb) hk'
    | cache k =>
      rw [LLoop.specRun]
      try simp only
      split
      · rfl
      · split
        · rfl
        · rename_i hb
          have hlt := hk k List.mem_cons_self
          rw [if_neg (by rw [hsz hb]; omega)]
          exact ih _ _ _ (fun hb' => by rw [LLoop.insert_size]; exact hsz hb') hk'

/-- **The pixel loop of `decode_image_data` has no failing index.**  For every image size, group
    layout, colour-cache size and every operation list an entropy decoder can produce (cache
    symbols below the cache size; single-symbol groups consistent), the model of the loop - the
    fast path's slice, the cache lookups, the three copy strategies - never reaches one of its
    out-of-range cases: it returns pixels, `BitStreamError`, or asks for more symbols. -/
theorem pixel_loop_never_panics (c : LLoop.Cfg) (h32 : c.cacheBits ≤ 32) (hw : 0 < c.width) (init : Array Nat)
    (ops : List LLoop.Op) (hinit : init.size = c.width * c.height)
    (hcons : LLoop.cons c (c.width * c.height + 1) 0 0 ops = true)
    (hk : ∀ k, LLoop.Op.cache k ∈ ops → k < 2 ^ c.cacheBits) :
    isPanic (LLoop.decode c init ops) = false := by
  rw [LLoop.decode_refines c h32 hw init ops hinit hcons]
  unfold LLoop.specDecode
  apply specRun_no_panic c ops init 0 _ _ hk
  intro hb
  rw [Array.size_replicate, if_neg hb]

/-- **`read_symbol` never fails on a valid code while bits remain**: no `Empty` node, no index
    outside the table or the tree vector is ever reached (the model answers such an access with
    an error, which this theorem excludes) - for every valid length vector and every string of at
    least 15 bits -/
theorem huffman_read_never_fails (ls : List Nat) (hall : ∀ l ∈ ls, l ≤ 15) (hn : ls.length ≤ 5000)
    (hv : Prefix.validLengths ls = true) (bits : List Nat) (hb : ∀ b ∈ bits, b < 2) (hlen : 15 ≤ bits.length) :
    (Huff.readSym (Huff.build ls) bits).isSome = true := by
  rcases Huff.build_total ls hall hn hv with ⟨t, ht⟩ | ⟨s, hs⟩
  · obtain ⟨hgood, hnum, L, hL1, hL15, hmax, hend⟩ := Huff.build_good ls hall hn t ht
    rw [ht, Huff.readSym_good t ls hgood hall L hL1 hL15 hend bits hb (by omega)]
    obtain ⟨s, rest, hdec⟩ := Prefix.decodeSym_total ls L hL1 hend 15 0 0 bits (by omega) (by omega) hb (by decide) (Nat.le_of_eq rfl)
    rw [hdec]; rfl
  · rw [hs]; rfl

end C03
