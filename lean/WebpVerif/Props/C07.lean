import WebpVerif.Props.C06

/-!
# C07 — animation playback is independent of the history of API calls

The abstract player of `Canvas.runSpec` has one piece of state, a cursor: `read_frame` delivers
the frame under the cursor (its buffer is the canvas fold, a function of the cursor alone) and
advances; `reset_animation` sets the cursor to 0; `read_image` delivers the first frame and does
not move the cursor; at the end `read_frame` reports `NoMoreFrames`.  The theorem: for every valid
animation and EVERY finite sequence of calls, the model of the decoder returns exactly what the
abstract player returns.
-/
namespace C07
open Anim Canvas Blend C06

/-- one call: same output, and the decoder state stays the state "after `c` frames" -/
theorem step_refines (f : File) (hv : Valid f) (c : Nat) (st : State) (hc : c ≤ f.frames.length)
    (hst : StateAt f c st) (op : Op) :
    (step f st op).1 = (stepSpec blendPixel f c op).1 ∧
    StateAt f (stepSpec blendPixel f c op).2 (step f st op).2 ∧
    (stepSpec blendPixel f c op).2 ≤ f.frames.length := by
  -- what a `read_frame` from the state after `k < n` frames returns
  have frameOut : ∀ (k : Nat) (s : State) (fr : Frame), StateAt f k s → f.frames[k]? = some fr →
      (readFrame f s).1 = .frame fr.duration (frameBuf blendPixel f (k + 1)) ∧ StateAt f (k + 1) (readFrame f s).2 := by
    intro k s fr hs hfr
    obtain ⟨cv, h1, h2⟩ := readFrame_step f k s fr hs hfr hv.2
    rw [h1]
    refine ⟨?_, h2⟩
    obtain ⟨_, _, hpos⟩ := h2
    obtain ⟨c', last, hcv, hsz, _, _, _, hget⟩ := hpos (by omega)
    simp only [Option.some.injEq] at hcv
    subst hcv
    have := render_eq f.hasAlpha cv f.cw f.ch hv.1 hsz (canvasPx blendPixel f.bg (hist f (k + 1))) hget
    simp only
    rw [this]
    unfold frameBuf hist
    congr 1
  cases op with
  | readFrame =>
    unfold step stepSpec
    cases hfr : f.frames[c]? with
    | none =>
      have hge : f.frames.length ≤ c := by
        by_contra hlt; simp [Nat.lt_of_not_le hlt] at hfr
      have : st.nextFrame ≥ f.frames.length := by rw [hst.1]; exact hge
      rw [no_more_frames f st this]
      exact ⟨rfl, hst, hc⟩
    | some fr =>
      have hlt : c < f.frames.length := by
        by_contra hge; simp [Nat.not_lt.mp hge] at hfr
      obtain ⟨h1, h2⟩ := frameOut c st fr hst hfr
      exact ⟨h1, h2, hlt⟩
  | reset =>
    unfold step stepSpec reset
    exact ⟨rfl, stateAt_default f, Nat.zero_le _⟩
  | readImage =>
    unfold step stepSpec readImage
    cases hfr : f.frames[0]? with
    | none =>
      have hlen : f.frames.length = 0 := by
        by_contra hne
        have : 0 < f.frames.length := Nat.pos_of_ne_zero hne
        simp [this] at hfr
      have : State.default.nextFrame ≥ f.frames.length := by rw [hlen]; exact Nat.zero_le _
      rw [no_more_frames f State.default this]
      exact ⟨rfl, hst, hc⟩
    | some fr =>
      obtain ⟨h1, _⟩ := frameOut 0 State.default fr (stateAt_default f) hfr
      exact ⟨h1, hst, hc⟩

/-- **Trace refinement.**  Every sequence of `read_frame` / `reset_animation` / `read_image` calls
    on a decoder in the state "after `c` frames" returns what the abstract player returns from
    cursor `c`. -/
theorem trace_refines_from (f : File) (hv : Valid f) (ops : List Op) :
    ∀ (c : Nat) (st : State), c ≤ f.frames.length → StateAt f c st →
      run f st ops = runSpec blendPixel f c ops := by
  induction ops with
  | nil => intro c st _ _; rfl
  | cons op ops ih =>
    intro c st hc hst
    obtain ⟨h1, h2, h3⟩ := step_refines f hv c st hc hst op
    unfold run runSpec
    rw [h1, ih _ _ h3 h2]

/-- from a fresh decoder -/
theorem trace_refines (f : File) (hv : Valid f) (ops : List Op) :
    run f State.default ops = runSpec blendPixel f 0 ops :=
  trace_refines_from f hv ops 0 State.default (Nat.zero_le _) (stateAt_default f)

/-- corollary: the i-th frame delivered after a reset is the i-th frame of a fresh decoder,
    whatever was called before the reset -/
theorem after_reset_like_fresh (f : File) (hv : Valid f) (before after : List Op) (c : Nat) (st : State)
    (hc : c ≤ f.frames.length) (hst : StateAt f c st) :
    (run f st (before ++ [.reset] ++ after)).drop (before.length + 1) = run f State.default after := by
  rw [trace_refines_from f hv _ c st hc hst, trace_refines f hv after]
  have key : ∀ (ops : List Op) (c : Nat), (runSpec blendPixel f c (ops ++ [.reset] ++ after)).drop (ops.length + 1) =
      runSpec blendPixel f 0 after := by
    intro ops
    induction ops with
    | nil => intro c; simp [runSpec, stepSpec]
    | cons o os ih => intro c; simp only [List.cons_append, List.length_cons, runSpec]; exact ih _
  exact key before c

/-- corollary: `read_image` never moves the playback position -/
theorem read_image_keeps_position (f : File) (c : Nat) :
    (stepSpec blendPixel f c .readImage).2 = c := by
  unfold stepSpec; cases f.frames[0]? <;> rfl

-- non-vacuity: the theorem applies to the demo animation, on a history with every kind of call
example : run C06.demo State.default [.readFrame, .readImage, .readFrame, .readFrame, .reset, .readFrame] =
    runSpec blendPixel C06.demo 0 [.readFrame, .readImage, .readFrame, .readFrame, .reset, .readFrame] := by decide

end C07
