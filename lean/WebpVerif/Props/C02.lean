import WebpVerif.Model.Vp8Kernels
import WebpVerif.Spec.LoopFilter
import WebpVerif.Gen.Libwebp
import WebpVerif.Lemmas.Vp8Ctx
import WebpVerif.Lemmas.Vp8Mode
import WebpVerif.Lemmas.Vp8Border
import WebpVerif.Lemmas.Vp8Pred
import WebpVerif.Lemmas.Vp8Coef
import WebpVerif.Lemmas.Vp8Tok
import WebpVerif.Model.Vp8Quant
import WebpVerif.Spec.Vp8QuantSpec
import WebpVerif.Lemmas.Vp8LF
import WebpVerif.Lemmas.Vp8Intra
import WebpVerif.Lemmas.Vp8Frame

/-!
# C02 — VP8 key-frame reconstruction is bit-exact

The whole-frame statement is decided by execution on every run (libwebp-encoded and synthetic
random-symbol key frames, planes compared with libwebp sample for sample).  This file proves,
for ALL arguments, what the frame comparison can only sample:

* every constant table of the decoder equals the reference decoder's (regenerated from both
  sources on every run);
* the quantiser set-up rules (`* 155 / 100`, floor 8, cap 132) equal the reference rules on the
  whole index range;
* the three loop-filter kernels equal RFC 6386 section 15's reference code on every 8-pixel
  segment and every parameter value (u8 `abs_diff` against signed `abs`, arithmetic shifts,
  clamps), and always produce bytes;
* the per-macroblock filter parameters equal the RFC's computation for every header, fit their
  u8 arithmetic, and equal libwebp's whenever the intermediate clamp is inactive.
-/
namespace C02
open Vp8K

/-! ### tables (tie 1b) -/

theorem coeff_tables_eq :
    Gen.Tables.COEFF_PROBS = Gen.Libwebp.CoeffsProba0 ∧
    Gen.Tables.COEFF_UPDATE_PROBS = Gen.Libwebp.CoeffsUpdateProba := by
  refine ⟨?_, ?_⟩ <;> decide +kernel

theorem small_tables_eq :
    Gen.Tables.DC_QUANT = Gen.Libwebp.kDcTable ∧ Gen.Tables.AC_QUANT = Gen.Libwebp.kAcTable ∧
    Gen.Tables.ZIGZAG = Gen.Libwebp.kZigzag ∧ Gen.Tables.COEFF_BANDS = Gen.Libwebp.kBands.take 16 ∧
    Gen.Tables.PROB_DCT_CAT.map (fun r => r.takeWhile (· ≠ 0)) =
      [Gen.Libwebp.kCat1, Gen.Libwebp.kCat2, Gen.Libwebp.kCat3, Gen.Libwebp.kCat4, Gen.Libwebp.kCat5,
        Gen.Libwebp.kCat6].map (fun r => r.takeWhile (· ≠ 0)) ∧
    Gen.Tables.DCT_CAT_BASE = [5, 7, 3 + 8 * 2 ^ 0, 3 + 8 * 2 ^ 1, 3 + 8 * 2 ^ 2, 3 + 8 * 2 ^ 3] ∧
    Gen.Tables.CONST1 = Gen.Libwebp.kC1minus65536 ∧ Gen.Tables.CONST2 = Gen.Libwebp.kC2 := by
  decide +kernel

/-- quantiser set-up: the code's `ac * 155 / 100` floored at 8 is the reference
    `(ac * 101581) >> 16` floored at 8, and capping the chroma DC factor at 132 is the reference
    index clip at 117 - for every one of the 128 indices -/
theorem quant_rules_eq : ∀ i < 128,
    max Gen.Tables.Y2AC_MIN (Gen.Tables.AC_QUANT.getD i 0 * Gen.Tables.Y2AC_NUM / Gen.Tables.Y2AC_DEN) =
      max 8 ((Gen.Libwebp.kAcTable.getD i 0 * Gen.Libwebp.y2acMul) >>> Gen.Libwebp.y2acShift) ∧
    min (Gen.Tables.DC_QUANT.getD i 0) Gen.Tables.UVDC_MAX =
      Gen.Libwebp.kDcTable.getD (min i Gen.Libwebp.uvdcClip) 0 ∧
    Gen.Tables.Y2DC_MUL = 2 := by
  decide +kernel


theorem clamp127_clip (v : Int) : Vp8Quant.clamp127 v = Vp8QuantSpec.clip v 127 ∧ Vp8Quant.clamp127 v < 128 := by
  unfold Vp8Quant.clamp127 Vp8QuantSpec.clip; constructor <;> (try split) <;> (try split) <;> omega

theorem clip117 (v : Int) : Vp8QuantSpec.clip v Gen.Libwebp.uvdcClip = min (Vp8Quant.clamp127 v) Gen.Libwebp.uvdcClip := by
  show Vp8QuantSpec.clip v 117 = min (Vp8Quant.clamp127 v) 117
  unfold Vp8Quant.clamp127 Vp8QuantSpec.clip; (split <;> try split) <;> omega

/-- **the dequantisation factors are the reference's.** For every header state (segments on or
    off, delta or absolute levels), every level, base index and delta - no range hypothesis at
    all - the six factors `read_quantization_indices` stores are the six matrix entries
    libwebp's `VP8ParseQuant` computes. -/
theorem quant_factors_are_reference (se dv : Bool) (level : Int) (yacAbs : Nat) (ydc y2dc y2ac uvdc uvac : Int) :
    Vp8Quant.factors se dv level yacAbs ydc y2dc y2ac uvdc uvac =
      Vp8QuantSpec.matrices se (!dv) level yacAbs ydc y2dc y2ac uvdc uvac := by
  have hb : Vp8Quant.baseIndex se dv level yacAbs = Vp8QuantSpec.q se (!dv) level yacAbs := by
    unfold Vp8Quant.baseIndex Vp8QuantSpec.q; cases se <;> cases dv <;> simp
  unfold Vp8Quant.factors Vp8QuantSpec.matrices
  simp only [hb]
  generalize Vp8QuantSpec.q se (!dv) level yacAbs = q
  unfold Vp8Quant.dcQuant Vp8Quant.acQuant
  have h1 := (small_tables_eq).1
  have h2 := (small_tables_eq).2.1
  have e1 := quant_rules_eq _ (clamp127_clip (q + y2ac)).2
  have e2 := quant_rules_eq _ (clamp127_clip (q + uvdc)).2
  simp only [← (clamp127_clip _).1, Int.add_zero, ← h1, ← h2] at e1 e2 ⊢
  have hm := e1.2.2
  rw [hm] at *
  congr 1; congr 1; congr 1; congr 1
  · have := e1.1; rw [Nat.max_def, Nat.max_def] at this
    split <;> split <;> split at this <;> split at this <;> omega
  · congr 1
    have := e2.2.1; rw [Nat.min_def] at this
    rw [clip117, ← this]; split <;> split <;> omega

/-- non-vacuity / sanity: segment with delta level -3 on base index 40, deltas 2 -15 15 -7 0 -/
example : Vp8Quant.factors true true (-3) 40 2 (-15) 15 (-7) 0 = [36, 41, 44, 86, 27, 41] := by decide +kernel
/-- the y2ac floor and the uvdc cap are both reachable -/
example : Vp8Quant.factors false false 0 0 0 0 0 0 0 = [4, 4, 8, 8, 4, 4] ∧
    Vp8Quant.factors false false 0 127 0 0 0 0 0 = [157, 284, 314, 440, 132, 284] := by decide +kernel


/-! ### the loop-filter driver -/

/-- **the loop-filter driver visits the edges as the reference decoder does.** `Vp8LF.filterMb`
    models one call of `Vp8Decoder::loop_filter` (tied to the real function over whole frames
    through hook 73798e6: every display-size residue mod 16, both filter types, every sharpness,
    levels 1..63, random B_PRED / coefficient flags; displayed samples compared): for every filter
    type, level, interior limit, hev threshold, inner-edge flag, plane strides, macroblock position
    and plane contents it equals `LibwebpLF.doFilter`, the transcription of libwebp's `DoFilter`
    with the loops of `dsp/dec.c` in libwebp's own pointer arithmetic (left macroblock edge unless
    in column 0, three inner vertical luma edges and one chroma edge, top macroblock edge unless in
    row 0, inner horizontal edges; 16 / 8 positions per edge; `limit + 4` on macroblock edges; luma
    only for the simple filter). -/
theorem filter_driver_is_reference (isSimple : Bool) (level il hev : Nat) (inner : Bool) (W CW mbx mby : Nat) (p : Vp8LF.Planes) :
    Vp8LF.filterMb isSimple level il hev inner W CW mbx mby p = LibwebpLF.doFilter isSimple level il hev inner W CW mbx mby p :=
  Vp8LFProof.filterMb_is_doFilter isSimple level il hev inner W CW mbx mby p


/-- the whole frame: macroblocks in raster order, each filtered as the reference decoder's
    `DoFilter` does with the parameters of `C02.filter_params_eq` -/
theorem filter_frame_is_reference (isSimple : Bool) (sharp frameLevel mbw mbh : Nat) (mbs : Nat → Bool × Bool) (p : Vp8LF.Planes) :
    Vp8LF.filterFrame isSimple sharp frameLevel mbw mbh mbs p =
      (List.range (mbw * mbh)).foldl (fun p k =>
        LibwebpLF.doFilter isSimple (Vp8K.filterParams frameLevel sharp false false 0 0 0 (mbs k).1).1
          (Vp8K.filterParams frameLevel sharp false false 0 0 0 (mbs k).1).2.1 (Vp8K.filterParams frameLevel sharp false false 0 0 0 (mbs k).1).2.2
          ((mbs k).1 || (mbs k).2) (mbw * 16) (mbw * 8) (k % mbw) (k / mbw) p) p := by
  unfold Vp8LF.filterFrame
  simp only [Vp8LFProof.filterMb_is_doFilter]


/-! ### whole frames -/

/-- **plane sizes of every accepted key frame.**  `Vp8Frame.decode` is the complete model of the
    key-frame decoder (compared with the real decoder on whole frames in every run): whenever it
    accepts a frame, the luma plane has `w x h` samples and both chroma planes
    `ceil(w/2) x ceil(h/2)`, with `w`, `h` the 14-bit size fields of the frame header - for every
    byte string. -/
theorem frame_plane_sizes (frame : List Nat) (w h : Nat) (y u v : List Nat) (hd : Vp8Frame.decode frame = some (w, h, y, u, v)) :
    w = (frame.getD 6 0 + 256 * frame.getD 7 0) % 16384 ∧ h = (frame.getD 8 0 + 256 * frame.getD 9 0) % 16384 ∧
    y.length = w * h ∧ u.length = ((w + 1) / 2) * ((h + 1) / 2) ∧ v.length = ((w + 1) / 2) * ((h + 1) / 2) :=
  Vp8FrameProof.plane_sizes frame w h y u v hd


/-- the macroblock loop of the whole-frame model decodes exactly `rows x mbw` macroblocks, one per
    position in raster order (so the loop-filter stage, which looks macroblock `k` up in that list,
    finds every one) -/
theorem frame_visits_every_macroblock (h : Vp8Header.Hdr) (tp : Array Nat) (mbw nparts rows mby : Nat) (s s' : Vp8Frame.St)
    (e : Vp8Frame.frameLoop h tp mbw nparts rows mby s = some s') : s'.mbs.size = s.mbs.size + rows * mbw :=
  Vp8FrameProof.frameLoop_size h tp mbw nparts rows mby s s' e

/-! ### residue addition -/

/-- **`add_residue` is `clamp(prediction + residue)`.** For every workspace, residue block (any
    integers), block position and stride that leaves room for the block: each of the sixteen
    samples of the block becomes the sum of the predicted sample and its residue clamped to 0..255
    (RFC 6386 section 14.5), and every other sample of the workspace - borders, other blocks - is
    left as it was.  `Vp8Intra.addResidue` is the model of `add_residue` inside `Vp8Intra.predictMb`,
    tied to `intra_predict_luma` / `intra_predict_chroma` through hook 0765b56. -/
theorem add_residue_is_clamp (ws : Array Nat) (rb : Array Int) (y0 x0 stride : Nat) (hs : x0 + 4 ≤ stride) :
    (Vp8Intra.addResidue ws rb y0 x0 stride).size = ws.size ∧
    (∀ k, k < 16 → Vp8IntraProof.cell y0 x0 stride k < ws.size →
      ((Vp8Intra.addResidue ws rb y0 x0 stride).getD (Vp8IntraProof.cell y0 x0 stride k) 0 : Int) =
        (let v := rb.getD k 0 + (ws.getD (Vp8IntraProof.cell y0 x0 stride k) 0 : Int); if v < 0 then 0 else if v > 255 then 255 else v)) ∧
    (∀ q, (∀ k, k < 16 → Vp8IntraProof.cell y0 x0 stride k ≠ q) → (Vp8Intra.addResidue ws rb y0 x0 stride).getD q 0 = ws.getD q 0) := by
  obtain ⟨h1, h2, h3⟩ := Vp8IntraProof.addResidue_spec ws rb y0 x0 stride hs
  refine ⟨h1, ?_, h3⟩
  intro k hk hlt
  rw [h2 k hk hlt]
  exact Vp8IntraProof.clampByte_spec _


/-- **a 16x16-predicted luma macroblock is `clamp(prediction + residue)` sample by sample.**  For
    every workspace with its border, every 16x16 mode (DC with either availability, V, H, TM), every
    residue (any 384 integers) and every sample (r, c) of the macroblock: what `intra_predict_luma`
    leaves in the workspace (model `Vp8Intra.lumaRecon`, tied through hook 0765b56) is the predicted
    sample - the reference predictor's, by `vertical_horizontal_are_reference` / `truemotion_is_reference`
    / `dc_is_reference` - plus the residue of the sample's 4x4 block at its raster position, clamped
    to 0..255: the sixteen `add_residue` calls neither miss nor touch twice any sample. -/
theorem luma16_is_prediction_plus_residue (mbx mby lumaMode : Nat) (hm : lumaMode ≠ 4) (bmodes : Array Nat) (res : Array Int) (ws : Array Nat)
    (hres : res.size = 384) (hws : ws.size = 357) (r c : Nat) (hr : r < 16) (hc : c < 16) :
    (Vp8Intra.lumaRecon mbx mby lumaMode bmodes res ws).getD (Vp8IntraProof.at16 r c) 0 =
      Vp8Intra.clampByte (res.getD (16 * ((r / 4) * 4 + c / 4) + 4 * (r % 4) + c % 4) 0 +
        ((match lumaMode with
          | 1 => Vp8Pred.predict 10 ws 16 1 1 21 true true
          | 2 => Vp8Pred.predict 11 ws 16 1 1 21 true true
          | 3 => Vp8Pred.predict 1 ws 16 1 1 21 true true
          | _ => Vp8Pred.predict 12 ws 16 1 1 21 (mby != 0) (mbx != 0)).getD (Vp8IntraProof.at16 r c) 0 : Nat)) :=
  Vp8IntraProof.luma16_recon mbx mby lumaMode hm bmodes res ws hres hws r c hr hc


/-- **the chroma planes likewise**: every sample of the 8x8 U (first block 16) and V (first block 20)
    part of a macroblock is the predicted sample plus the residue of its 4x4 block, clamped, for
    every workspace, chroma mode and residue (model `Vp8Intra.chromaRecon`, tied through hook 0765b56). -/
theorem chroma_is_prediction_plus_residue (mbx mby chromaMode first : Nat) (hf : first ≤ 20) (res : Array Int) (ws : Array Nat)
    (hres : res.size = 384) (hws : ws.size = 81) (r c : Nat) (hr : r < 8) (hc : c < 8) :
    (Vp8Intra.chromaRecon mbx mby chromaMode first res ws).getD (Vp8IntraProof.at8 r c) 0 =
      Vp8Intra.clampByte (res.getD (16 * (first + ((r / 4) * 2 + c / 4)) + 4 * (r % 4) + c % 4) 0 +
        ((match chromaMode with
          | 1 => Vp8Pred.predict 10 ws 8 1 1 9 true true
          | 2 => Vp8Pred.predict 11 ws 8 1 1 9 true true
          | 3 => Vp8Pred.predict 1 ws 8 1 1 9 true true
          | _ => Vp8Pred.predict 12 ws 8 1 1 9 (mby != 0) (mbx != 0)).getD (Vp8IntraProof.at8 r c) 0 : Nat)) :=
  Vp8IntraProof.chroma_recon mbx mby chromaMode first hf res ws hres hws r c hr hc

/-! ### loop-filter kernels = RFC 6386 section 15 -/

def seg (e : Edge) : RFC.LF.Seg := ⟨e.p3, e.p2, e.p1, e.p0, e.q0, e.q1, e.q2, e.q3⟩
def edge (s : RFC.LF.Seg) : Edge := ⟨s.P3, s.P2, s.P1, s.P0, s.Q0, s.Q1, s.Q2, s.Q3⟩

theorem c_eq (v : Int) : Vp8K.c v = RFC.LF.c v := by
  unfold Vp8K.c RFC.LF.c; split <;> (try split) <;> omega

theorem sar_eq (v : Int) (k : Nat) : sar v k = v / 2 ^ k := by
  unfold sar; exact Int.fdiv_eq_ediv_of_nonneg v (Int.pow_nonneg (by decide))

theorem s2u_eq (v : Int) : Vp8K.s2u v = RFC.LF.s2u v := by
  unfold Vp8K.s2u RFC.LF.s2u; rw [c_eq]

theorem s2u_byte (v : Int) : Vp8K.s2u v < 256 := by
  unfold Vp8K.s2u Vp8K.c; omega

/-- u8 `abs_diff` is the RFC's `abs` of the difference of the int8 values -/
theorem diff_eq (a b : Nat) : (diff a b : Int) = RFC.LF.abs (RFC.LF.u2s a - RFC.LF.u2s b) := by
  unfold diff RFC.LF.abs RFC.LF.u2s; split <;> split <;> omega

theorem diff_eq_raw (a b : Nat) : (diff a b : Int) = RFC.LF.abs ((a : Int) - b) := by
  unfold diff RFC.LF.abs; split <;> split <;> omega

theorem commonAdjust_eq (o : Bool) (e : Edge) :
    Vp8K.commonAdjust o e = RFC.LF.commonAdjust o (seg e) := by
  unfold Vp8K.commonAdjust RFC.LF.commonAdjust seg
  simp only [sar_eq, c_eq, s2u_eq]
  rfl

theorem simpleThreshold_eq (limit : Nat) (e : Edge) :
    simpleThreshold limit e =
      decide (RFC.LF.abs ((e.p0 : Int) - e.q0) * 2 + RFC.LF.abs ((e.p1 : Int) - e.q1) / 2 ≤ limit) := by
  unfold simpleThreshold; rw [diff_eq_raw, diff_eq_raw]

theorem simpleThreshold_eq_s (limit : Nat) (e : Edge) :
    simpleThreshold limit e =
      decide (RFC.LF.abs (RFC.LF.u2s e.p0 - RFC.LF.u2s e.q0) * 2 + RFC.LF.abs (RFC.LF.u2s e.p1 - RFC.LF.u2s e.q1) / 2 ≤ limit) := by
  unfold simpleThreshold; rw [diff_eq, diff_eq]

/-- `simple_segment` equals the RFC's for every segment and limit -/
theorem simple_eq_rfc (limit : Nat) (e : Edge) :
    simple limit e = edge (RFC.LF.simpleSegment limit (seg e)) := by
  unfold simple RFC.LF.simpleSegment
  rw [simpleThreshold_eq]
  by_cases h : RFC.LF.abs ((e.p0 : Int) - e.q0) * 2 + RFC.LF.abs ((e.p1 : Int) - e.q1) / 2 ≤ limit
  · have h' : RFC.LF.abs (((seg e).P0 : Int) - (seg e).Q0) * 2 + RFC.LF.abs (((seg e).P1 : Int) - (seg e).Q1) / 2 ≤ limit := h
    simp only [h, h', decide_true, if_true, commonAdjust_eq]
    rfl
  · have h' : ¬ RFC.LF.abs (((seg e).P0 : Int) - (seg e).Q0) * 2 + RFC.LF.abs (((seg e).P1 : Int) - (seg e).Q1) / 2 ≤ limit := h
    simp only [h, h', decide_false, if_false]
    rfl

theorem natLe_eq (a b : Nat) (x : Int) (h : (a : Int) = x) : decide (a ≤ b) = decide (x ≤ (b : Int)) := by
  subst h; simp

theorem shouldFilter_eq (I E : Nat) (e : Edge) : shouldFilter I E e = RFC.LF.filterYes I E (seg e) := by
  unfold shouldFilter RFC.LF.filterYes
  rw [simpleThreshold_eq_s]
  simp only [natLe_eq _ _ _ (diff_eq _ _)]
  rfl

theorem hev_eq (t : Nat) (e : Edge) : highEdgeVariance t e = RFC.LF.hev t (seg e) := by
  unfold highEdgeVariance RFC.LF.hev
  have k : ∀ a b : Nat, decide (diff a b > t) = decide (RFC.LF.abs (RFC.LF.u2s a - RFC.LF.u2s b) > (t : Int)) := by
    intro a b; rw [← diff_eq]; simp
  simp only [k]
  rfl

/-- `subblock_filter` equals the RFC's for every segment and parameter triple -/
theorem subblock_eq_rfc (h I E : Nat) (e : Edge) :
    subblock h I E e = edge (RFC.LF.subblockFilter h I E (seg e)) := by
  unfold subblock RFC.LF.subblockFilter
  rw [shouldFilter_eq, hev_eq]
  cases RFC.LF.filterYes I E (seg e) <;> cases hh : RFC.LF.hev h (seg e) <;>
    simp only [if_true, if_false, Bool.false_eq_true, Bool.not_true, Bool.not_false, commonAdjust_eq, sar_eq, s2u_eq] <;> rfl

/-- `macroblock_filter` equals the RFC's `MBfilter` for every segment and parameter triple -/
theorem macroblock_eq_rfc (h I E : Nat) (e : Edge) :
    macroblock h I E e = edge (RFC.LF.mbFilter h I E (seg e)) := by
  unfold macroblock RFC.LF.mbFilter
  rw [shouldFilter_eq, hev_eq]
  cases RFC.LF.filterYes I E (seg e) <;> cases hh : RFC.LF.hev h (seg e) <;>
    simp only [if_true, if_false, Bool.false_eq_true, Bool.not_true, Bool.not_false, commonAdjust_eq, sar_eq, s2u_eq, c_eq] <;> rfl

/-- libwebp tests `4*|p0-q0| + |p1-q1| <= 2*t+1`; the same decision as the RFC's -/
theorem simple_threshold_libwebp (a b t : Nat) : (2 * a + b / 2 ≤ t) ↔ (4 * a + b ≤ 2 * t + 1) := by omega

/-! ### per-macroblock filter parameters -/

/-- the code's level is the RFC reference decoder's for every header (deltas are 0 unless enabled) -/
theorem level_eq_rfc (frameLevel sharp : Nat) (segEn segDelta : Bool) (segLevel ref0 mode0 : Int) (bpred en : Bool)
    (hen : en = false → ref0 = 0 ∧ mode0 = 0) :
    ((filterParams frameLevel sharp segEn segDelta segLevel ref0 mode0 bpred).1 : Int) =
      RFC.LF.level frameLevel segEn (!segDelta) segLevel en ref0 mode0 bpred := by
  unfold filterParams RFC.LF.level clamp63
  cases en
  · obtain ⟨h1, h2⟩ := hen rfl
    subst h1 h2
    cases segEn <;> cases segDelta <;> cases bpred <;> simp <;> omega
  · cases segEn <;> cases segDelta <;> cases bpred <;> simp <;> omega

theorem il_eq (L sharp : Nat) (_hs : sharp ≤ 7) :
    (if (if sharp > 0 then min (L >>> (if sharp > 4 then 2 else 1)) (9 - sharp) else L) = 0 then 1
      else (if sharp > 0 then min (L >>> (if sharp > 4 then 2 else 1)) (9 - sharp) else L)) =
    RFC.LF.interiorLimit L sharp := by
  simp only [RFC.LF.interiorLimit, Nat.shiftRight_eq_div_pow, Nat.min_def]
  by_cases h0 : sharp > 0
  · by_cases h4 : sharp > 4
    · simp only [h0, h4, if_true]; (repeat' split) <;> omega
    · simp only [h0, h4, if_true, if_false]; (repeat' split) <;> omega
  · simp [h0]

theorem interior_eq_rfc (frameLevel sharp : Nat) (segEn segDelta : Bool) (segLevel ref0 mode0 : Int) (bpred : Bool)
    (hs : sharp ≤ 7) :
    let r := filterParams frameLevel sharp segEn segDelta segLevel ref0 mode0 bpred
    r.2.1 = RFC.LF.interiorLimit r.1 sharp ∧ r.2.2 = RFC.LF.hevThreshold r.1 :=
  ⟨il_eq _ sharp hs, rfl⟩

theorem range_aux (L sharp : Nat) (hl : L ≤ 63) :
    L ≤ 63 ∧
    1 ≤ (if (if sharp > 0 then min (L >>> (if sharp > 4 then 2 else 1)) (9 - sharp) else L) = 0 then 1
      else (if sharp > 0 then min (L >>> (if sharp > 4 then 2 else 1)) (9 - sharp) else L)) ∧
    (if (if sharp > 0 then min (L >>> (if sharp > 4 then 2 else 1)) (9 - sharp) else L) = 0 then 1
      else (if sharp > 0 then min (L >>> (if sharp > 4 then 2 else 1)) (9 - sharp) else L)) ≤ 63 ∧
    (if L ≥ 40 then 2 else if L ≥ 15 then 1 else 0) ≤ 2 ∧
    mbEdgeLimit L (if (if sharp > 0 then min (L >>> (if sharp > 4 then 2 else 1)) (9 - sharp) else L) = 0 then 1
      else (if sharp > 0 then min (L >>> (if sharp > 4 then 2 else 1)) (9 - sharp) else L)) ≤ 193 ∧
    subEdgeLimit L (if (if sharp > 0 then min (L >>> (if sharp > 4 then 2 else 1)) (9 - sharp) else L) = 0 then 1
      else (if sharp > 0 then min (L >>> (if sharp > 4 then 2 else 1)) (9 - sharp) else L)) ≤ 189 := by
  have hsh : L >>> (if sharp > 4 then 2 else 1) ≤ L := Nat.shiftRight_le _ _
  generalize L >>> (if sharp > 4 then 2 else 1) = S at hsh
  simp only [mbEdgeLimit, subEdgeLimit, Nat.min_def]
  refine ⟨hl, ?_, ?_, ?_, ?_, ?_⟩ <;> (repeat' split) <;> omega

theorem level_le (v : Int) : (clamp63 v).toNat ≤ 63 := by unfold clamp63; omega

/-- ranges: level 0..63, interior limit 1..63, hev threshold 0..2; both edge limits fit a u8
    (`(filter_level + 2) * 2 + interior_limit` is computed in u8 in `loop_filter`) -/
theorem params_range (frameLevel sharp : Nat) (segEn segDelta : Bool) (segLevel ref0 mode0 : Int) (bpred : Bool) :
    let r := filterParams frameLevel sharp segEn segDelta segLevel ref0 mode0 bpred
    r.1 ≤ 63 ∧ 1 ≤ r.2.1 ∧ r.2.1 ≤ 63 ∧ r.2.2 ≤ 2 ∧ mbEdgeLimit r.1 r.2.1 ≤ 193 ∧ subEdgeLimit r.1 r.2.1 ≤ 189 :=
  range_aux _ sharp (level_le _)

/-- libwebp's level (no clamp between the segment step and the deltas) -/
def libwebpLevel (frameLevel : Nat) (segEn segDelta : Bool) (segLevel ref0 mode0 : Int) (bpred : Bool) : Int :=
  let base : Int := if segEn then (if segDelta then segLevel + frameLevel else segLevel) else frameLevel
  let l := base + ref0 + (if bpred then mode0 else 0)
  if l < 0 then 0 else if l > 63 then 63 else l

/-- whenever the segment-adjusted level is already inside 0..63, the code, the RFC and libwebp
    agree on the level (otherwise the RFC's clamp order, which the code follows, is normative) -/
theorem level_eq_libwebp (frameLevel sharp : Nat) (segEn segDelta : Bool) (segLevel ref0 mode0 : Int) (bpred : Bool)
    (hb : 0 ≤ (if segEn then (if segDelta then (frameLevel : Int) + segLevel else segLevel) else frameLevel) ∧
          (if segEn then (if segDelta then (frameLevel : Int) + segLevel else segLevel) else (frameLevel : Int)) ≤ 63) :
    ((filterParams frameLevel sharp segEn segDelta segLevel ref0 mode0 bpred).1 : Int) =
      libwebpLevel frameLevel segEn segDelta segLevel ref0 mode0 bpred := by
  unfold filterParams libwebpLevel clamp63
  cases segEn <;> cases segDelta <;> cases bpred <;> simp at hb ⊢ <;> omega

/-- libwebp filters macroblock edges with `f_limit + 4` and inner edges with
    `f_limit = 2 * level + ilevel` -/
theorem edge_limits_libwebp (l i : Nat) : subEdgeLimit l i = 2 * l + i ∧ mbEdgeLimit l i = (2 * l + i) + 4 := by
  unfold subEdgeLimit mbEdgeLimit; omega

/-! ### the kernels produce bytes -/

theorem commonAdjust_bytes (o : Bool) (e : Edge) :
    (Vp8K.commonAdjust o e).1 < 256 ∧ (Vp8K.commonAdjust o e).2.1 < 256 := by
  unfold Vp8K.commonAdjust; exact ⟨s2u_byte _, s2u_byte _⟩

def edgeBytes (e : Edge) : Prop :=
  e.p3 < 256 ∧ e.p2 < 256 ∧ e.p1 < 256 ∧ e.p0 < 256 ∧ e.q0 < 256 ∧ e.q1 < 256 ∧ e.q2 < 256 ∧ e.q3 < 256

theorem simple_bytes (l : Nat) (e : Edge) (h : edgeBytes e) : edgeBytes (simple l e) := by
  unfold simple; split
  · obtain ⟨h1, h2, h3, h4, h5, h6, h7, h8⟩ := h
    exact ⟨h1, h2, h3, (commonAdjust_bytes true e).1, (commonAdjust_bytes true e).2, h6, h7, h8⟩
  · exact h

theorem subblock_bytes (hv i l : Nat) (e : Edge) (h : edgeBytes e) : edgeBytes (subblock hv i l e) := by
  obtain ⟨h1, h2, h3, h4, h5, h6, h7, h8⟩ := h
  unfold subblock; split
  · split
    · exact ⟨h1, h2, s2u_byte _, (commonAdjust_bytes _ e).1, (commonAdjust_bytes _ e).2, s2u_byte _, h7, h8⟩
    · exact ⟨h1, h2, h3, (commonAdjust_bytes _ e).1, (commonAdjust_bytes _ e).2, h6, h7, h8⟩
  · exact ⟨h1, h2, h3, h4, h5, h6, h7, h8⟩

theorem macroblock_bytes (hv i l : Nat) (e : Edge) (h : edgeBytes e) : edgeBytes (macroblock hv i l e) := by
  obtain ⟨h1, h2, h3, h4, h5, h6, h7, h8⟩ := h
  unfold macroblock; split
  · split
    · exact ⟨h1, s2u_byte _, s2u_byte _, s2u_byte _, s2u_byte _, s2u_byte _, s2u_byte _, h8⟩
    · exact ⟨h1, h2, h3, (commonAdjust_bytes _ e).1, (commonAdjust_bytes _ e).2, h6, h7, h8⟩
  · exact ⟨h1, h2, h3, h4, h5, h6, h7, h8⟩

/-- non-vacuity: a concrete edge that all three kernels change -/
example : simple 60 ⟨10, 10, 10, 10, 30, 30, 30, 30⟩ ≠ ⟨10, 10, 10, 10, 30, 30, 30, 30⟩ ∧
    subblock 1 20 60 ⟨10, 10, 10, 10, 30, 30, 30, 30⟩ ≠ ⟨10, 10, 10, 10, 30, 30, 30, 30⟩ ∧
    macroblock 1 20 60 ⟨10, 10, 10, 10, 30, 30, 30, 30⟩ ≠ ⟨10, 10, 10, 10, 30, 30, 30, 30⟩ := by decide

/-! ### coefficient contexts -/

/-- **The context bookkeeping of coefficient decoding is the RFC rule.**  `Vp8Ctx.run` models what
    `decode_frame_` / `read_residual_data` do with the `top[mbx].complexity` and `left.complexity`
    arrays (nine flags per macroblock column and for the left neighbour: Y2, four luma, two U, two
    V; `left` cleared at every row start; all but - for B_PRED macroblocks - the Y2 flag zeroed for
    macroblocks without coefficients; every flag overwritten by the result of the block just
    read).  For EVERY frame size, every assignment of Y2 / skip flags to macroblocks and every
    pattern of block results, the context passed to each `read_coefficients` call is the one
    RFC 6386 section 13.3 defines geometrically: the number of the block's left and above
    neighbours in its plane (across macroblock borders, 0 outside the frame, skipped macroblocks
    counting as empty) that have a non-zero coefficient, and for a Y2 block the nearest
    macroblocks to the left in the row / above in the column that HAVE a Y2 block. -/
theorem coefficient_contexts_are_rfc (f : Vp8Ctx.Frame) : ∀ c ∈ Vp8Ctx.run f, c.ctx = Vp8Ctx.specCtx f c :=
  Vp8Ctx.run_spec f

-- non-vacuity: a 2x1 frame; the second macroblock has no Y2 and sees the first one's flags
def exFrame : Vp8Ctx.Frame :=
  ⟨2, 1, fun x _ => x == 0, fun _ _ => false, fun _ _ => true, fun bx _ => bx < 4, fun _ _ => false, fun _ _ => true⟩
example : (Vp8Ctx.run exFrame).length = 49 ∧ ((Vp8Ctx.run exFrame).map (·.ctx)).take 10 = [0, 0, 1, 1, 1, 1, 2, 2, 2, 1] ∧
    (((Vp8Ctx.run exFrame).map (·.ctx)).drop 25).take 5 = [1, 0, 0, 0, 1] := by decide

/-- **The sub-block mode contexts are the RFC rule.**  `Vp8Mode.run` models what
    `read_macroblock_header` does with `top[mbx].bpred[12..16]` and `left.bpred[0..4]` (the modes
    of the bottom row of the macroblock above and of the right column of the macroblock to the
    left, overwritten sub-block by sub-block while a B_PRED macroblock is read, set to the implied
    mode by a macroblock with a 16x16 mode, `left` reset at every row start).  For EVERY frame
    size, every assignment of B_PRED / 16x16 modes and every pattern of sub-block modes, the two
    contexts that select the probabilities of each sub-block mode read are the modes of the
    sub-blocks above and to the left as RFC 6386 section 11.3 defines them (across macroblock
    borders; a 16x16 macroblock counts as sixteen sub-blocks of its implied mode; B_DC_PRED
    outside the frame). -/
theorem subblock_mode_contexts_are_rfc (f : Vp8Mode.Frame) :
    ∀ c ∈ Vp8Mode.run f, c.top = Vp8Mode.specTop f c ∧ c.left = Vp8Mode.specLeft f c :=
  Vp8Mode.run_spec f

-- non-vacuity: a 16x16 macroblock (implied mode 2) to the left of a B_PRED macroblock
def exModes : Vp8Mode.Frame := ⟨2, 1, 0, fun x _ => x == 1, fun _ _ => 2, fun bx by' => (bx + by') % 10⟩
example : ((Vp8Mode.run exModes).map fun c => (c.top, c.left)).take 6 = [(0, 2), (0, 4), (0, 5), (0, 6), (4, 2), (5, 5)] := by decide

/-- **The luma prediction borders are the RFC rule.**  `Vp8Border.run` models `top_border`,
    `left_border` and `create_border_luma`: the buffers are overwritten with the bottom row and
    the right column of every reconstructed macroblock, `left_border[0]` keeps the last pixel above
    the macroblock just done (the next macroblock's corner, saved before the row above is
    overwritten), `left_border` is reset to 129 after every row.  For EVERY frame size and every
    reconstruction, the 37 border pixels each macroblock is predicted from - corner, sixteen above,
    four above-right, sixteen left - are the neighbouring (unfiltered) pixels of the reconstructed
    frame as RFC 6386 section 12 defines them: 127 above the first row, 129 left of the first
    column (and for its corner below the first row), the above-right pixels from the macroblock
    above-right, and in the last column the last pixel above repeated. -/
theorem luma_borders_are_rfc (f : Vp8Border.Frame) : ∀ b ∈ Vp8Border.run f, Vp8Border.Good f b :=
  Vp8Border.run_spec f

-- non-vacuity: a 2x2 frame; the last macroblock's corner is the bottom-right pixel of the first
def exBorders : Vp8Border.Frame := ⟨2, 2, fun mbx mby x y => 10 * mbx + 100 * mby + x + y⟩
example : ((Vp8Border.run exBorders).map fun b => (b.corner, b.above 0, b.aboveRight 3, b.left 15)) =
    [(127, 127, 127, 129), (127, 127, 127, 30), (129, 15, 28, 129), (30, 25, 40, 130)] := by decide


/-! ### intra prediction

`Vp8Pred.predict` is the model of the fourteen predictor functions of vp8.rs on the prediction
workspace (tied to the real functions on random workspaces, offsets and strides through hook
5cd911b, byte for byte over the whole workspace).  The reference is libwebp's C implementation of
the RFC 6386 section 12 predictors (`Vp8PredSpec`, transcribed from `src/dsp/dec.c`). -/

/-- **The ten sub-block predictors** (B_DC, B_VE, B_HE, B_LD, B_RD, B_VR, B_VL, B_HD, B_HU by the
    hook's numbering 0, 2..9): at every block position of every workspace, every pixel of the 4x4
    block receives exactly the reference predictor's value for the thirteen neighbouring pixels
    found in the workspace -/
theorem subblock_predictors_are_reference (kind : Nat) (hk : kind = 0 ∨ (2 ≤ kind ∧ kind ≤ 9)) (a : Array Nat)
    (size x0 y0 stride : Nat) (ab lf : Bool) (hs : x0 + 4 ≤ stride) (hsz : (y0 + 4) * stride ≤ a.size)
    (r c : Nat) (hr : r < 4) (hc : c < 4) :
    (Vp8Pred.predict kind a size x0 y0 stride ab lf)[(y0 + r) * stride + x0 + c]! =
      Vp8PredProof.ref4 kind (Vp8PredProof.refN (Vp8Pred.nbOf a x0 y0 stride)) c r :=
  Vp8PredProof.predict_subblock kind hk a size x0 y0 stride ab lf hs hsz r c hr hc

/-- **TrueMotion** for every block size (4x4 sub-blocks, 8x8 chroma, 16x16 luma), position and
    workspace: `clip(top[x] + left[y] − topleft)` -/
theorem truemotion_is_reference (a : Array Nat) (size x0 y0 stride : Nat) (ab lf : Bool) (hx : 1 ≤ x0) (hy : 1 ≤ y0)
    (hs : x0 + size ≤ stride) (hsz : (y0 + size) * stride ≤ a.size) (r c : Nat) (hr : r < size) (hc : c < size) :
    (Vp8Pred.predict 1 a size x0 y0 stride ab lf)[(y0 + r) * stride + x0 + c]! =
      Vp8PredSpec.TM a[(y0 - 1) * stride + x0 - 1]! (fun x => a[(y0 - 1) * stride + x0 + x]!)
        (fun y => a[(y0 + y) * stride + x0 - 1]!) c r :=
  Vp8PredProof.predict_tm 1 rfl a size x0 y0 stride ab lf hx hy hs hsz r c hr hc

/-- **vertical and horizontal prediction** of a `size × size` block as the decoder calls them
    (block at row 1, column 1 of its workspace): the pixel above resp. to the left -/
theorem vertical_horizontal_are_reference (a : Array Nat) (size stride : Nat) (ab lf : Bool)
    (hs : 1 + size ≤ stride) (hsz : (1 + size) * stride ≤ a.size) (r c : Nat) (hr : r < size) (hc : c < size) :
    (Vp8Pred.predict 10 a size 1 1 stride ab lf)[(1 + r) * stride + 1 + c]! = a[1 + c]! ∧
    (Vp8Pred.predict 11 a size 1 1 stride ab lf)[(1 + r) * stride + 1 + c]! = a[(1 + r) * stride]! :=
  ⟨Vp8PredProof.predict_v 10 rfl a size stride ab lf hs hsz r c hr hc,
   Vp8PredProof.predict_h 11 rfl a size stride ab lf hs hsz r c hr hc⟩

/-- **DC prediction** of the 16x16 luma and 8x8 chroma blocks for each of the four availability
    cases (frame corner, top row, left column, interior): the block is filled with the reference's
    `DC16*` / `DC8uv*` value -/
theorem dc_is_reference (a : Array Nat) (hbytes : ∀ i : Nat, a[i]! < 256) (size : Nat) (h816 : size = 8 ∨ size = 16)
    (x0 y0 stride : Nat) (ab lf : Bool) (hs : 1 + size ≤ stride) (hsz : (1 + size) * stride ≤ a.size)
    (r c : Nat) (hr : r < size) (hc : c < size) :
    (Vp8Pred.predict 12 a size x0 y0 stride ab lf)[(1 + r) * stride + 1 + c]! =
      Vp8PredSpec.DC size (fun x => a[1 + x]!) (fun y => a[(y + 1) * stride]!) ab lf := by
  rw [Vp8PredProof.predict_dc 12 (by decide) a size x0 y0 stride ab lf hs hsz r c hr hc]
  exact Vp8PredProof.dcVal_ref a hbytes size h816 stride ab lf

-- non-vacuity: the luma workspace (21 x 17) meets the hypotheses at sub-block (3, 3)
example : (13 : Nat) + 4 ≤ 21 ∧ (13 + 4) * 21 ≤ (Array.replicate (21 * 17) 0).size := by
  rw [Array.size_replicate]; decide


/-! ### token decoding

`Vp8Coef.readCoefficients` is the model of `Vp8Decoder::read_coefficients` on top of the boolean
decoder model of C15 (band / context selection, the token tree entered at node `skip`, the
category extra bits, sign, dequantisation at the zigzag position, `has_coefficients`, the final
`check`), tied to the real function through hook 99a8eca on random and biased partitions, default
and random probability tables, all planes and contexts, several calls per partition. -/

/-- **No coefficient overflows.**  For every partition, probability table, plane, starting context
    and quantiser pair: every value `read_coefficients` leaves in the block is at most 2114
    quantiser steps in magnitude (the largest token value is 67 + 2^11 − 1 = 2114, inside i16;
    with i16 quantisers the product stays below 2^27, inside i32) -/
theorem coefficients_are_bounded (d : Arith.Dec) (probs : Nat → Nat → List Nat) (plane complexity : Nat) (dcq acq : Int) (Q : Nat)
    (hd : dcq.natAbs ≤ Q) (ha : acq.natAbs ≤ Q) (d' : Arith.Dec) (block : Array Int) (r : Option Bool)
    (h : Vp8Coef.readCoefficients d probs plane complexity dcq acq = some (d', block, r)) :
    ∀ z : Nat, (block[z]?.getD 0).natAbs ≤ 2114 * Q :=
  Vp8CoefProof.coefficients_bounded d probs plane complexity dcq acq Q hd ha d' block r h


/-- **Token decoding = the reference.**  One position of the token loop of `read_coefficients`
    (`Vp8Coef.stepAt`: the walk over `DCT_TOKEN_TREE` entered at the root or - after a zero token -
    at node 1, the literal tokens, the six categories with their extra bits from `PROB_DCT_CAT` and
    bases from `DCT_CAT_BASE`) decodes, for EVERY well-formed decoder state, every probability
    table, position, context and quantiser pair, exactly the token libwebp's `GetCoeffs` /
    `GetLargeValue` decode with explicit bit tests on `p[0..10]`, the constants 159 / 165 / 145 and
    the tables `kCat3..kCat6` (`Vp8Tokens.token`, transcribed from `src/dec/vp8_dec.c`), using the
    same public bit reads - and then does with it what `applyTok` says (stop; note the zero; or
    read the sign, dequantise and store at the zigzag position, next context min(v, 2)) -/
theorem token_decoding_is_reference (probs : Nat → Nat → List Nat)
    (hprobs : ∀ band ctx, (probs band ctx).length = 11 ∧ ∀ p ∈ probs band ctx, p < 256)
    (dcq acq : Int) (i : Nat) (s : Vp8Coef.St) (hwf : Arith.WF s.d) :
    Vp8Coef.stepAt probs dcq acq i s =
      some (Vp8TokProof.applyTok dcq acq i s
        (Vp8Tokens.token Vp8TokProof.pub (fun k => (probs (Gen.Tables.COEFF_BANDS.getD i 0) s.complexity).getD k 0) s.skip s.d)) :=
  Vp8TokProof.stepAt_is_reference probs hprobs dcq acq i s hwf

end C02
