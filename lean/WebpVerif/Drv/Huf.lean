import WebpVerif.Spec.Prefix
import WebpVerif.Spec.Lossless
import WebpVerif.Spec.CodeLengths
import WebpVerif.Model.Huffman
import WebpVerif.Model.CodeRead
import WebpVerif.Model.Util
namespace DrvHuf
open Util Prefix

/-- bits of a byte string in stream order (LSB of each byte first) -/
def bitsOf (bs : Array Nat) : List Nat :=
  bs.toList.flatMap fun b => (List.range 8).map fun k => b / 2 ^ k % 2

/-- decode up to `n` symbols; returns the symbols and whether the data ran out -/
def decodeMany (ls : List Nat) (la : Array Nat) (tab : Array (Option Nat)) (single : Bool) (idx : Nat) :
    Nat → List Nat → List Nat → List Nat × Bool
  | 0, _, acc => (acc.reverse, true)
  | n + 1, bits, acc =>
    if single then decodeMany ls la tab single idx n bits (idx :: acc)
    else
      match decodeSymT la tab 15 0 0 bits with
      | some (s, rest) => decodeMany ls la tab single idx n rest (s :: acc)
      | none => (acc.reverse, false)

/-- the executable specification decoder's own symbol reader (`VP8L.readSymbol`, used by the
    whole-stream correspondences) on the same input -/
def decodeManySpec (c : VP8L.Code) : Nat → VP8L.Bits → List Nat → List Nat × Bool
  | 0, _, acc => (acc.reverse, true)
  | n + 1, b, acc =>
    match VP8L.readSymbol c b with
    | some (s, b') => decodeManySpec c n b' (s :: acc)
    | none => (acc.reverse, false)

/-- the model of the crate's `HuffmanTree` on the same input -/
def decodeManyModel (b : Huff.Built) : Nat → List Nat → List Nat → List Nat × Bool
  | 0, _, acc => (acc.reverse, true)
  | n + 1, bits, acc =>
    match Huff.readSym b bits with
    | some (s, rest) => decodeManyModel b n rest (s :: acc)
    | none => (acc.reverse, false)

def modelReply (ls : List Nat) (n : Nat) (bytes : Array Nat) : String :=
  match Huff.build ls with
  | .err => "invalid"
  | b =>
    let (syms, ok) := decodeManyModel b n (bitsOf bytes) []
    s!"syms={joinNats syms} end={if ok then "ok" else "eof"}"

/-- the specification part of the reply (`Prefix.decodeSymbol`, with the canonical code words
    computed once) -/
def specReply (n : Nat) (ls : List Nat) (bytes : Array Nat) : String :=
  if !validLengths ls then (if VP8L.Code.valid ls.toArray then "SPEC-MISMATCH validity" else "invalid") else
  let single := (ls.filter (· ≠ 0)).length = 1
  let (syms, ok) := decodeMany ls ls.toArray (codeTable ls) single (ls.findIdx (· ≠ 0)) n (bitsOf bytes) []
  -- cross-check inside Lean: the proof-friendly decoder and the executable specification agree
  let (syms2, ok2) := decodeManySpec ls.toArray n { data := bytes, pos := 0 } []
  if VP8L.Code.valid ls.toArray ≠ true ∨ syms2 ≠ syms ∨ ok2 ≠ ok then
    s!"SPEC-MISMATCH prefix={joinNats syms}/{ok} lossless={joinNats syms2}/{ok2}"
  else s!"syms={joinNats syms} end={if ok then "ok" else "eof"}"

/-- `hufdec n lengths hexbytes` → `<specification> ;; <model of HuffmanTree>` -/
def handle (args : List String) : Option String :=
  match args with
  | ["hufdec", n, lengths, hex] => do
    let n ← n.toNat?; let ls ← parseNats lengths
    let bytes ← if hex == "-" then some #[] else parseHex hex
    some (specReply n ls bytes ++ " ;; " ++ modelReply ls n bytes)
  | ["rcl", alphabet, hex] => do
    -- one serialised prefix code: the executable specification's reader against its
    -- proof-friendly twin (for which C04.code_lengths_parse_back is proved)
    let alphabet ← alphabet.toNat?
    let bytes ← if hex == "-" then some #[] else parseHex hex
    let a := VP8L.readCode { data := bytes, pos := 0 } alphabet
    let b := readCodeL alphabet (bitsOf bytes)
    let sa := match a with | none => "none" | some (c, bb) => s!"{joinNats c.toList} used={bb.pos}"
    let sb := match b with | none => "none" | some (c, rest) => s!"{joinNats c} used={8 * bytes.size - rest.length}"
    some (if sa == sb then "agree " ++ sa else "DIFFER spec=" ++ sa ++ " twin=" ++ sb)
  | ["coderead", alphabet, n, hex] => do
    -- `read_huffman_code(alphabet)` then `n` symbol reads from the same position:
    -- `<specification (ReadCode + canonical decoder)> ;; <model of the crate's code reader + HuffmanTree>`
    let alphabet ← alphabet.toNat?; let n ← n.toNat?
    let bytes ← if hex == "-" then some #[] else parseHex hex
    let bits := bitsOf bytes
    let spec := match readCodeL alphabet bits with
      | none => "err"
      | some (ls, rest) =>
        let single := (ls.filter (· ≠ 0)).length = 1
        let (syms, ok) := decodeMany ls ls.toArray (codeTable ls) single (ls.findIdx (· ≠ 0)) n rest []
        s!"ok single={if single then 1 else 0} syms={joinNats syms} end={if ok then "ok" else "err"}"
    let model := match CodeRead.readCode alphabet bits with
      | none => "err"
      | some (t, rest) =>
        let single := match t with | .single _ => true | _ => false
        let (syms, ok) := decodeManyModel t n rest []
        s!"ok single={if single then 1 else 0} syms={joinNats syms} end={if ok then "ok" else "err"}"
    some (spec ++ " ;; " ++ model)
  | _ => none

end DrvHuf
