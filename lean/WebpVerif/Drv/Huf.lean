import WebpVerif.Spec.Prefix
import WebpVerif.Model.Util
namespace DrvHuf
open Util Prefix

/-- bits of a byte string in stream order (LSB of each byte first) -/
def bitsOf (bs : Array Nat) : List Nat :=
  bs.toList.flatMap fun b => (List.range 8).map fun k => b / 2 ^ k % 2

/-- decode up to `n` symbols; returns the symbols and whether the data ran out -/
def decodeMany (ls : List Nat) (la : Array Nat) (tab : Array (Option Nat)) (single : Bool) (idx : Nat) :
    Nat → List Nat → List Nat → List Nat × Bool
  | 0, _, acc => (acc.reverse, true)
  | n + 1, bits, acc =>
    if single then decodeMany ls la tab single idx n bits (idx :: acc)
    else
      match decodeSymT la tab 15 0 0 bits with
      | some (s, rest) => decodeMany ls la tab single idx n rest (s :: acc)
      | none => (acc.reverse, false)

/-- `hufdec n lengths hexbytes`: the specification's symbol decoder (`Prefix.decodeSymbol`, with
    the canonical code words computed once) on a byte string -/
def handle (args : List String) : Option String :=
  match args with
  | ["hufdec", n, lengths, hex] => do
    let n ← n.toNat?; let ls ← parseNats lengths
    let bytes ← if hex == "-" then some #[] else parseHex hex
    if !validLengths ls then some "invalid" else
    let single := (ls.filter (· ≠ 0)).length = 1
    let (syms, ok) := decodeMany ls ls.toArray (codeTable ls) single (ls.findIdx (· ≠ 0)) n (bitsOf bytes) []
    some (s!"syms={joinNats syms} end={if ok then "ok" else "eof"}")
  | _ => none

end DrvHuf
