import WebpVerif.Model.LosslessTransforms
import WebpVerif.Spec.Lossless
import WebpVerif.Spec.LosslessP
import WebpVerif.Model.LosslessStream
import WebpVerif.Model.Util
import WebpVerif.Model.ColorIndex
namespace DrvLossless
open Util

def handle (args : List String) : Option String :=
  match args with
  | ["vp8lcrate", stream] => do
      -- the stream model with the crate's entropy layer (CodeRead.readCode + Huff.readSym)
      let bytes ← parseHex stream
      match LStream.decodeCrate bytes.toList with
      | none => some "invalid"
      | some (w, h, img) =>
        let rgba := VP8L.toRgba img.toArray
        some (s!"ok {w} {h} " ++ toString (rgba.foldl fnvByte fnvInit).toNat ++ "/" ++ toString rgba.size)
  | ["vp8lspecp", stream] => do
      -- the proof-friendly twin of the specification (the one the theorems are about)
      let bytes ← parseHex stream
      match VP8LP.decodeFast bytes.toList with
      | none => some "invalid"
      | some (w, h, img) =>
        let rgba := VP8L.toRgba img.toArray
        some (s!"ok {w} {h} " ++ toString (rgba.foldl fnvByte fnvInit).toNat ++ "/" ++ toString rgba.size)
  | [cmd, stream] =>
    if cmd != "vp8lspec" && cmd != "vp8lspecfull" then none else do
      let bytes ← parseHex stream
      match VP8L.decode bytes with
      | none => some "invalid"
      | some (w, h, img) =>
        let rgba := VP8L.toRgba img
        some (s!"ok {w} {h} " ++ (if cmd == "vp8lspecfull" then toHex rgba
          else toString (rgba.foldl fnvByte fnvInit).toNat ++ "/" ++ toString rgba.size))
  | ["vp8ltransform", kind, p1, w, h, data, img] => do
      -- inverse transforms on RGBA byte images (the crate's layout): kind = predictor|color (p1 =
      -- size bits, data = sub-image RGBA) | subgreen | index (data = colour table RGBA)
      let p1 ← p1.toNat?; let w ← w.toNat?; let h ← h.toNat?
      let d ← parseHex data; let im ← parseHex img
      let toArgb := fun (bs : Array Nat) => (List.range (bs.size / 4)).toArray.map fun i =>
        VP8L.mk bs[4*i+3]! bs[4*i]! bs[4*i+1]! bs[4*i+2]!
      let out := match kind with
        | "predictor" => VP8L.inversePredictor p1 (toArgb d) w h (toArgb im)
        | "color" => VP8L.inverseColor p1 (toArgb d) w h (toArgb im)
        | "subgreen" => VP8L.inverseSubGreen (toArgb im)
        | _ => VP8L.inverseIndexing (toArgb d) w h (toArgb im)
      some (toHex (VP8L.toRgba out))
  | ["ltr", kind, bits, w, h, data, img] => do
      -- the models of the transform drivers themselves (Model/LosslessTransforms.lean), on bytes
      let bits ← bits.toNat?; let w ← w.toNat?; let h ← h.toNat?
      let d ← if data == "-" then some #[] else parseHex data
      let im ← parseHex img
      match kind with
      | "predictor" => some (toHex (LTr.applyPredictor w h bits d im))
      | "color" => some (toHex (LTr.applyColor w bits d im))
      | "subgreen" => some (toHex (LTr.applySubGreen im))
      | _ => none
  | ["cidx", w, h, table, img] => do
      -- the in-place model of apply_color_indexing_transform on the whole w*h buffer
      let w ← w.toNat?; let h ← h.toNat?
      let t ← parseHex table; let im ← parseHex img
      let toArgb := fun (bs : Array Nat) => (List.range (bs.size / 4)).toArray.map fun i =>
        VP8L.mk bs[4*i+3]! bs[4*i]! bs[4*i+1]! bs[4*i+2]!
      some (toHex (VP8L.toRgba (CIdx.apply (toArgb t) (t.size / 4) w h (toArgb im))))
  | _ => none

end DrvLossless
