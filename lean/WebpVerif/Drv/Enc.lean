import WebpVerif.Model.Enc
import WebpVerif.Spec.Lossless
import WebpVerif.Spec.LosslessP
import WebpVerif.Model.Util
namespace DrvEnc
open Util

/-- `encframe <color 0..3> <pred 0|1> <w> <h> <datahex>` → `ok <payloadhex> S=<roundtrip verdict>` -/
def handle (args : List String) : Option String :=
  match args with
  | ["encframe", color, pred, w, h, data] => do
      let color ← color.toNat?; let w ← w.toNat?; let h ← h.toNat?
      let d ← parseHex data
      match Enc.encodeFrame d.toList w h color (pred == "1") with
      | none => some "InvalidDimensions"
      | some payload =>
        -- the specification decoder applied to the model's output must give back the input
        let expected := ((Enc.expand color d.toList).foldl (fun acc p => acc ++ p) []).toArray
        let verdict := match VP8L.decode payload with
          | none => "spec-rejects"
          | some (w', h', img) =>
            if w' = w ∧ h' = h ∧ VP8L.toRgba img == expected then
              -- the specification the round-trip theorem is about (C04.encode_roundtrip) must say the same
              if w * h ≤ 300 then
                match VP8LP.decodeFast payload.toList with
                | some (w2, h2, img2) => if w2 = w ∧ h2 = h ∧ img2 == img.toList then "roundtrip-ok" else "twin-differs"
                | none => "twin-rejects"
              else "roundtrip-ok"
            else "roundtrip-differs"
        some ("ok " ++ toHex payload ++ " S=" ++ verdict)
  | ["lengthtosymbol", len] => do
      let len ← len.toNat?
      let (s, e) := Enc.lengthToSymbol len
      some s!"{s} {e}"
  | _ => none

end DrvEnc
