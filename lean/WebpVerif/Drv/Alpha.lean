import WebpVerif.Model.Alpha
import WebpVerif.Spec.AlphaSpec
import WebpVerif.Model.Util
namespace DrvAlpha
open Util

def handle (args : List String) : Option String :=
  match args with
  | ["alphaunfilter", w, h, f, deltas] => do
      let w ← w.toNat?; let h ← h.toNat?; let f ← f.toNat?
      let d ← parseHex deltas
      if w = 0 then none else
      let n := w * h
      -- the colour bytes of the buffer are irrelevant; fill them with a pattern
      let buf := Array.ofFn (n := 4 * n) fun i => (i.val * 37 + 11) % 256
      let m := Alpha.alphaPlane (Alpha.unfilterInto w f d n buf) n
      let s := AlphaSpec.reconstruct w f d.toList n
      some ("M=" ++ toHex m.toArray ++ " S=" ++ toHex s.toArray)
  | ["alphheader", b] => do
      let b ← b.toNat?
      match Alpha.header b with
      | .ok (f, c) => some s!"ok {f} {if c then 1 else 0}"
      | .error .invalidPreprocessing => some "err InvalidAlphaPreprocessing"
      | .error .invalidCompression => some "err InvalidCompressionMethod"
  | _ => none

end DrvAlpha
