import WebpVerif.Model.Yuv
import WebpVerif.Model.Util
namespace DrvC13
open Yuv Util

/-- digest over all (v, u) of the three colours for one luma value: 65536 pixels -/
def yuvBlock (y : Nat) : UInt64 := Id.run do
  let mut h := fnvInit
  for v in [0:256] do
    for u in [0:256] do
      h := fnvByte h (r y v)
      h := fnvByte h (g y u v)
      h := fnvByte h (b y u)
  return h

def handle (args : List String) : Option String :=
  match args with
  | ["yuvblock", y] => do
      let y ← y.toNat?
      if y < 256 then some (toString (yuvBlock y).toNat) else none
  | ["yuvpx", y, u, v] => do
      let y ← y.toNat?; let u ← u.toNat?; let v ← v.toNat?
      some (toHex #[r y v, g y u v, b y u])
  | ["yuvframe", mode, w, yb, ub, vb, buf] => do
      let w ← w.toNat?
      let yb ← parseHex yb; let ub ← parseHex ub; let vb ← parseHex vb; let buf ← parseHex buf
      if w = 0 then none else
      let out := if mode == "rgba" then fillRgba w yb.toList ub.toList vb.toList buf.toList
                 else fillRgb w yb.toList ub.toList vb.toList buf.toList
      some (toHex out.toArray)
  | _ => none

end DrvC13
