import WebpVerif.Model.BitReader
import WebpVerif.Model.Util
namespace DrvBitReader
open Util BitReader

def parseOp (s : String) : Option Op :=
  match s.toList with
  | 'r' :: r => (String.ofList r).toNat?.map Op.read
  | ['f'] => some Op.fill
  | 'p' :: r => (String.ofList r).toNat?.map Op.peekConsume
  | ['u'] => some Op.peekFull
  | _ => none

/-- `bitreader <datahex> <schedule csv, cycled per fill_buf position index> <ops csv>` -/
def handle (args : List String) : Option String :=
  match args with
  | ["bitreader", data, sched, ops] => do
      let d ← parseHex data
      let sc ← parseNats sched
      let ops ← (if ops == "-" then some [] else (ops.splitOn ",").mapM parseOp)
      -- the harness' reader exposes sched[k mod len] bytes at the k-th fill_buf call; the model's
      -- `expose` is a function of the byte position, so the harness uses position-keyed schedules:
      -- expose p = sched[p mod len]
      let expose := fun p => if sc.isEmpty then 1000000 else sc.getD (p % sc.length) 1
      let out := run d.toList expose init ops
      some (if out.isEmpty then "-" else ",".intercalate (out.map fun o => match o with | some v => toString v | none => "E"))
  | _ => none

end DrvBitReader
