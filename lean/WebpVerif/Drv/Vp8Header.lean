import WebpVerif.Model.Vp8Header
import WebpVerif.Model.Util
namespace DrvVp8Header
open Util

def ints (l : List Int) : String := ",".intercalate (l.map toString)
def nats (l : List Nat) : String := ",".intercalate (l.map toString)
def b (x : Bool) : String := if x then "1" else "0"

/-- `vp8hdr <first partition hex>` → `err` or the flat field list and the token probabilities in hex -/
def handle (args : List String) : Option String :=
  match args with
  | ["vp8hdr", data] => do
      let data ← if data == "-" then some #[] else parseHex data
      match Vp8Header.parse data.toList with
      | none => some "err"
      | some h =>
        some (s!"{h.pixelType},{b h.segEnabled},{b h.updateMap},{b h.deltaValues},{ints h.quantLevel},{ints h.lfLevel},{nats h.treeProbs}," ++
          s!"{b h.filterSimple},{h.filterLevel},{h.sharpness},{ints h.refDelta},{ints h.modeDelta},{2 ^ h.partsLog2}," ++
          s!"{",".intercalate (h.factors.map nats)},{match h.skipProb with | some p => toString p | none => "-1"} {toHex h.tokenProbs.toArray}")
  | _ => none

end DrvVp8Header
