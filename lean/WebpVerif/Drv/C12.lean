import WebpVerif.Model.Blend
import WebpVerif.Model.Util
namespace DrvC12
open Blend Util

/-- digest over all (da, s, d) for one source alpha: 2^24 channel evaluations + 256 alphas -/
def blendRow (sa : Nat) : UInt64 := Id.run do
  let mut h := fnvInit
  for da in [0:256] do
    h := fnvByte h (alphaFull sa da)
    for s in [0:256] do
      for d in [0:256] do
        h := fnvByte h (chanFull s sa d da)
  return h

/-- digest over all (s, d) for one (sa, da) -/
def blendBlock (sa da : Nat) : UInt64 := Id.run do
  let mut h := fnvInit
  h := fnvByte h (alphaFull sa da)
  for s in [0:256] do
    for d in [0:256] do
      h := fnvByte h (chanFull s sa d da)
  return h

def blendRowFixed (sa : Nat) : UInt64 := Id.run do
  let mut h := fnvInit
  for da in [0:256] do
    h := fnvByte h (alphaFullFixed sa da)
    for s in [0:256] do
      for d in [0:256] do
        h := fnvByte h (chanFullFixed s sa d da)
  return h

def handle (args : List String) : Option String :=
  match args with
  | ["blendrow", sa] => do
      let sa ← sa.toNat?
      if sa < 256 then some (toString (blendRow sa).toNat) else none
  | ["blendrowfixed", sa] => do
      let sa ← sa.toNat?
      if sa < 256 then some (toString (blendRowFixed sa).toNat) else none
  | ["blendfixed", src, dst] => do
      let s ← parseHex src; let d ← parseHex dst
      if s.size = 4 ∧ d.size = 4 then
        let r := blendPixelFixed ⟨s[0]!, s[1]!, s[2]!, s[3]!⟩ ⟨d[0]!, d[1]!, d[2]!, d[3]!⟩
        some (toHex #[r.r, r.g, r.b, r.a])
      else none
  | ["blendblock", sa, da] => do
      let sa ← sa.toNat?; let da ← da.toNat?
      if sa < 256 ∧ da < 256 then some (toString (blendBlock sa da).toNat) else none
  | ["blend", src, dst] => do
      let s ← parseHex src; let d ← parseHex dst
      if s.size = 4 ∧ d.size = 4 then
        let r := blendPixel ⟨s[0]!, s[1]!, s[2]!, s[3]!⟩ ⟨d[0]!, d[1]!, d[2]!, d[3]!⟩
        some (toHex #[r.r, r.g, r.b, r.a])
      else none
  | _ => none

end DrvC12
