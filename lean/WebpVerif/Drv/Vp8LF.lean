import WebpVerif.Model.Vp8LoopDriver
import WebpVerif.Model.Util
namespace DrvVp8LF
open Util

/-- `vp8lf <w> <h> <simple 0|1> <sharpness> <level> <mbs: two chars per macroblock, bpred nz> <y hex> <u hex> <v hex>`
    → the displayed parts of the three planes after the loop filter, `y u v` in hex -/
def handle (args : List String) : Option String :=
  match args with
  | ["vp8lf", w, h, simple, sharp, level, mbs, y, u, v] => do
      let w ← w.toNat?; let h ← h.toNat?; let sharp ← sharp.toNat?; let level ← level.toNat?
      let y ← parseHex y; let u ← parseHex u; let v ← parseHex v
      let mbw := (w + 15) / 16
      let mbh := (h + 15) / 16
      let cs := mbs.toList.toArray
      let mb := fun (k : Nat) => (cs.getD (2 * k) '0' == '1', cs.getD (2 * k + 1) '0' == '1')
      let out := Vp8LF.filterFrame (simple == "1") sharp level mbw mbh mb { y := y, u := u, v := v }
      let cw := (w + 1) / 2
      let ch := (h + 1) / 2
      some (toHex (Vp8LF.crop out.y (mbw * 16) w h).toArray ++ " " ++ toHex (Vp8LF.crop out.u (mbw * 8) cw ch).toArray ++ " " ++
        toHex (Vp8LF.crop out.v (mbw * 8) cw ch).toArray)
  | _ => none

end DrvVp8LF
