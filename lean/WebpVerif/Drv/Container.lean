import WebpVerif.Model.Container
import WebpVerif.Model.EncContainer
import WebpVerif.Spec.Riff
import WebpVerif.Model.Util
namespace DrvContainer
open Util

def digest (l : List Nat) : String := toString (l.foldl fnvByte fnvInit).toNat ++ "/" ++ toString l.length

def errName : Container.Err → String
  | .ioEof => "IoError(UnexpectedEof)" | .ioOther => "IoError(other)"
  | .chunkHeaderInvalid _ => "ChunkHeaderInvalid" | .webpSignatureInvalid => "WebpSignatureInvalid"
  | .chunkMissing => "ChunkMissing" | .unsupportedFeature => "UnsupportedFeature"
  | .vp8MagicInvalid => "Vp8MagicInvalid" | .inconsistentImageSizes => "InconsistentImageSizes"
  | .losslessSignatureInvalid => "LosslessSignatureInvalid" | .versionNumberInvalid => "VersionNumberInvalid"
  | .imageTooLarge => "ImageTooLarge" | .invalidChunkSize => "InvalidChunkSize"
  | .memoryLimitExceeded => "MemoryLimitExceeded"

def showMeta (r : Except Container.Err (Option (List Nat))) : String :=
  match r with
  | .ok none => "none" | .ok (some bs) => digest bs | .error e => "err:" ++ errName e

def b (x : Bool) : String := if x then "1" else "0"

/-- canonical accessor record -/
def openRecord (bytes : List Nat) (limit : Nat) : String :=
  match Container.openFile bytes with
  | .error e => "err " ++ errName e
  | .ok i =>
    s!"ok dims={i.width}x{i.height} alpha={b i.hasAlpha} animated={b (i.extended && i.animation)} lossy={b i.isLossy} frames={i.numFrames} loop={i.loopCount} duration={i.loopDuration} bufsize={Container.outputBufferSize i} icc={showMeta (Container.metadata bytes i Container.ICCP limit)} exif={showMeta (Container.metadata bytes i Container.EXIF limit)} xmp={showMeta (Container.metadata bytes i Container.XMP limit)}"

def handle (args : List String) : Option String :=
  match args with
  | ["open", file, limit] => do
      let bytes ← parseHex file
      let limit ← limit.toNat?
      some (openRecord bytes.toList limit)
  | ["enccontainer", w, h, alpha, frame, icc, exif, xmp] => do
      let w ← w.toNat?; let h ← h.toNat?
      let a := alpha == "1"
      let frame ← parseHex frame; let icc ← parseHex icc; let exif ← parseHex exif; let xmp ← parseHex xmp
      let out := EncContainer.encode frame.toList icc.toList exif.toList xmp.toList w h a
      let writes := EncContainer.encodeWrites frame.toList icc.toList exif.toList xmp.toList w h a
      let dm := match Riff.demux out with
        | none => "demux=rejected"
        | some p => s!"demux=ok riff={p.riffSize} chunks=" ++ ",".intercalate (p.chunks.map fun (c : List Nat × List Nat) => String.ofList (c.1.map Char.ofNat) ++ ":" ++ toString c.2.length)
      some (digest out ++ " writes=" ++ ",".intercalate (writes.map fun (w : List Nat) => toString w.length) ++ " " ++ dm.replace " " "_")
  | _ => none

end DrvContainer
