import WebpVerif.Model.Vp8Pred
import WebpVerif.Model.Util
namespace DrvVp8Pred
open Util

/-- `vp8pred <kind> <size> <x0> <y0> <stride> <above> <left> <workspace hex>` → the new workspace -/
def handle (args : List String) : Option String :=
  match args with
  | ["vp8pred", kind, size, x0, y0, stride, above, left, ws] => do
      let kind ← kind.toNat?; let size ← size.toNat?; let x0 ← x0.toNat?; let y0 ← y0.toNat?; let stride ← stride.toNat?
      let a ← parseHex ws
      some (toHex (Vp8Pred.predict kind a size x0 y0 stride (above == "1") (left == "1")))
  | _ => none

end DrvVp8Pred
