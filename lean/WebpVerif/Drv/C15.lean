import WebpVerif.Model.Arith
import WebpVerif.Spec.BoolDec
import WebpVerif.Model.Util
import WebpVerif.Gen.Tables
namespace DrvC15
open Util

def treeById (k : Nat) : List Int × List Nat :=
  match k with
  | 0 => (Gen.Tables.KEYFRAME_YMODE_TREE, Gen.Tables.KEYFRAME_YMODE_PROBS)
  | 1 => (Gen.Tables.KEYFRAME_UV_MODE_TREE, Gen.Tables.KEYFRAME_UV_MODE_PROBS)
  | 2 => (Gen.Tables.SEGMENT_ID_TREE, [255, 255, 255])
  | 3 => (Gen.Tables.KEYFRAME_BPRED_MODE_TREE, (Gen.Tables.KEYFRAME_BPRED_MODE_PROBS.headD []).headD [])
  | _ => (Gen.Tables.DCT_TOKEN_TREE, List.replicate 11 128)

inductive Tok where
  | bool (p : Nat) | flag | literal (n : Nat) | signed (n : Nat) | tree (k : Nat)
  | treeP (k : Nat) (probs : List Nat)     -- tree shape k with caller-supplied probabilities

def parseTok (s : String) : Option Tok :=
  match s.toList with
  | 'b' :: r => (String.ofList r).toNat?.map Tok.bool
  | ['f'] => some Tok.flag
  | 'l' :: r => (String.ofList r).toNat?.map Tok.literal
  | 's' :: r => (String.ofList r).toNat?.map Tok.signed
  | 't' :: r => (String.ofList r).toNat?.map Tok.tree
  | 'T' :: r =>
    match (String.ofList r).splitOn ":" with
    | [k, ps] => do
      let k ← k.toNat?
      let ps ← (ps.splitOn ".").mapM (·.toNat?)
      some (Tok.treeP k ps)
    | _ => none
  | _ => none

def toM : Tok → Arith.Req
  | .bool p => .bool p | .flag => .flag | .literal n => .literal n | .signed n => .signed n
  | .tree k => let (t, p) := treeById k; .tree t p
  | .treeP k ps => let (t, _) := treeById k; .tree t ((List.range (t.length / 2)).map fun i => ps.getD i 128)

def toS : Tok → BoolDec.Req
  | .bool p => .bool p | .flag => .flag | .literal n => .literal n | .signed n => .signed n
  | .tree k => let (t, p) := treeById k; .tree t p
  | .treeP k ps => let (t, _) := treeById k; .tree t ((List.range (t.length / 2)).map fun i => ps.getD i 128)

def showRun (l : List (Int × Bool)) : String :=
  if l.isEmpty then "-" else ",".intercalate (l.map fun (v, e) => toString v ++ (if e then "!" else ""))

/-- `arith <datahex|uninit> <prog>` → `M=<values> S=<values>`; a value followed by `!` means
    the decoder reports / the specification defines exhaustion after that request -/
def handle (args : List String) : Option String :=
  match args with
  | ["arith", data, prog] => do
      let toks ← (if prog == "-" then some [] else (prog.splitOn ",").mapM parseTok)
      if data == "uninit" then
        some ("M=" ++ showRun (Arith.run Arith.new (toks.map toM)) ++ " S=-")
      else
        let bytes ← parseHex data
        let m := Arith.run (Arith.init bytes.toList) (toks.map toM)
        let s := BoolDec.run (BoolDec.init bytes.toList) (toks.map toS)
        some ("M=" ++ showRun m ++ " S=" ++ showRun s)
  | ["arithblock", b0, prog] => do
      -- all 65536 three-byte strings with first byte b0: digest of the model's answers and the
      -- number of strings on which model and RFC specification differ (before exhaustion)
      let b0 ← b0.toNat?
      let toks ← (prog.splitOn ",").mapM parseTok
      let mreqs := toks.map toM
      let sreqs := toks.map toS
      let mut h := fnvInit
      let mut diff := 0
      for b1 in [0:256] do
        for b2 in [0:256] do
          let m := Arith.run (Arith.init [b0, b1, b2]) mreqs
          let sp := BoolDec.run (BoolDec.init [b0, b1, b2]) sreqs
          h := (showRun m).toList.foldl (fun h c => fnvByte h c.toNat) h
          if !(BoolDec.agreeUntilExhausted m sp) then diff := diff + 1
      some (toString h.toNat ++ " " ++ toString diff)
  | _ => none

end DrvC15
