import WebpVerif.Model.Vp8Border
import WebpVerif.Model.Util
namespace DrvVp8Border
open Util Vp8Border

/-- `vp8border W H <per macroblock: 32 bytes hex = bottom row, right column>…` → per macroblock the
    37 border bytes (corner, above, above-right, left) of the model, and whether they are the
    specification's -/
def handle (args : List String) : Option String :=
  match args with
  | "vp8border" :: w :: h :: mbs => do
    let w ← w.toNat?; let h ← h.toNat?
    let ms ← mbs.mapM parseHex
    let ma := ms.toArray
    if ma.size ≠ w * h then none else
    -- only the bottom row and the right column of a macroblock are ever read
    let f : Frame :=
      { W := w, H := h,
        R := fun mbx mby x y =>
          let m := ma[mby * w + mbx]!
          if y = 15 then m[x]! else if x = 15 then m[16 + y]! else 0 }
    let bs := run f
    let ok := bs.all fun b =>
      b.corner == specCorner f b.mbx b.mby && (List.range 16).all (fun i => b.above i == specAbove f b.mbx b.mby i) &&
      (List.range 4).all (fun i => b.aboveRight i == specAboveRight f b.mbx b.mby i) &&
      (List.range 16).all (fun i => b.left i == specLeft f b.mbx b.mby i)
    let bytes := bs.flatMap fun b =>
      b.corner :: ((List.range 16).map b.above ++ (List.range 4).map b.aboveRight ++ (List.range 16).map b.left)
    some (s!"spec={ok} ctx=" ++ toHex bytes.toArray)
  | _ => none

end DrvVp8Border
