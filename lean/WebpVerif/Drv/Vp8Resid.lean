import WebpVerif.Model.Vp8Resid
import WebpVerif.Model.Util
namespace DrvVp8Resid
open Util

def flags (s : String) : Array Nat := (s.toList.map fun c => if c == '1' then 1 else 0).toArray
def showFlags (a : Array Nat) : String := String.ofList (a.toList.map fun v => if v = 0 then '0' else '1')

/-- `vp8resid <bpred 0|1> <top 9 flags> <left 9 flags> <q0,..,q5> <probs hex 4*8*3*11> <data hex>` →
    `stuck` | `err` | `ok <nonzero> <top> <left> <384 values>` -/
def handle (args : List String) : Option String :=
  match args with
  | ["vp8resid", bpred, top, left, q, probs, data] => do
      let q ← (q.splitOn ",").mapM parseInt
      let pr ← parseHex probs
      let data ← if data == "-" then some #[] else parseHex data
      let probsOf := fun (plane band ctx : Nat) => (List.range 11).map fun t => pr[((plane * 8 + band) * 3 + ctx) * 11 + t]!
      match Vp8Resid.readResidual (Arith.init data.toList) probsOf (bpred == "1") (flags top) (flags left) q.toArray with
      | .stuck => some "stuck"
      | .err => some "err"
      | .ok s => some s!"ok {if s.nonZero then 1 else 0} {showFlags s.top} {showFlags s.left} {",".intercalate (s.blocks.toList.map toString)}"
  | _ => none

end DrvVp8Resid
