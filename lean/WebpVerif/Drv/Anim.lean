import WebpVerif.Model.Anim
import WebpVerif.Spec.Canvas
import WebpVerif.Model.Util
namespace DrvAnim
open Util Anim Blend

def pxOfBytes (bs : Array Nat) (bpp : Nat) : Array Px := Id.run do
  let n := bs.size / bpp
  let mut out : Array Px := Array.mkEmpty n
  for i in [0:n] do
    out := out.push ⟨bs[bpp*i]!, bs[bpp*i+1]!, bs[bpp*i+2]!, if bpp = 4 then bs[bpp*i+3]! else 255⟩
  return out

def bytesOfPx (c : Array Px) : Array Nat := Id.run do
  let mut out : Array Nat := Array.mkEmpty (4 * c.size)
  for p in c do
    out := ((out.push p.r).push p.g).push p.b |>.push p.a
  return out

def parseBool (s : String) : Option Bool := if s == "1" then some true else if s == "0" then some false else none

def digestBuf (l : List Nat) : String := toString (l.foldl fnvByte fnvInit).toNat ++ "/" ++ toString l.length

def showOut (full : Bool) (op : Op) : Out → String
  | .frame d buf =>
    (if op == Op.readImage then "image:" else "frame:" ++ toString d ++ ":")
      ++ (if full then toHex buf.toArray else digestBuf buf)
  | .noMoreFrames => "NoMoreFrames"
  | .error w => "error:" ++ w
  | .unit => "ok"

/-- frame description `x,y,w,h,duration,blend,dispose,hasAlpha,pixelhex` -/
def parseFrame (s : String) : Option Frame :=
  match s.splitOn "," with
  | [x, y, w, h, d, b, disp, ha, px] => do
    let x ← x.toNat?; let y ← y.toNat?; let w ← w.toNat?; let h ← h.toNat?; let d ← d.toNat?
    let b ← parseBool b; let disp ← parseBool disp; let ha ← parseBool ha
    let bytes ← parseHex px
    some { rect := ⟨x, y, w, h⟩, duration := d, useBlend := b, dispose := disp, hasAlpha := ha,
           pixels := pxOfBytes bytes (if ha then 4 else 3) }
  | _ => none

def parseOps (s : String) : Option (List Op) :=
  if s == "-" then some [] else
  s.toList.mapM fun c => match c with
    | 'f' => some Op.readFrame | 'r' => some Op.reset | 'i' => some Op.readImage | _ => none

def handle (args : List String) : Option String :=
  match args with
  | ["composite", cw, ch, clear, fx, fy, fw, fh, ha, bl, pw, ph, px, py, canvas, frame] => do
      let cw ← cw.toNat?; let ch ← ch.toNat?
      let fx ← fx.toNat?; let fy ← fy.toNat?; let fw ← fw.toNat?; let fh ← fh.toNat?
      let pw ← pw.toNat?; let ph ← ph.toNat?; let px ← px.toNat?; let py ← py.toNat?
      let ha ← parseBool ha; let bl ← parseBool bl
      let clearB ← parseHex clear
      let clear : Option Px := if clearB.size = 4 then some ⟨clearB[0]!, clearB[1]!, clearB[2]!, clearB[3]!⟩ else none
      let cv ← parseHex canvas; let fb ← parseHex frame
      match compositeFrame (pxOfBytes cv 4) cw ch clear (pxOfBytes fb (if ha then 4 else 3)) ⟨fx, fy, fw, fh⟩ ha bl ⟨px, py, pw, ph⟩ with
      | some c => some (toHex (bytesOfPx c))
      | none => some "none"
  | [cmd, cw, ch, bg, ha, frames, ops] =>
      if cmd != "anim" && cmd != "animfull" && cmd != "animspec" && cmd != "animspecfull" then none else do
      let cw ← cw.toNat?; let ch ← ch.toNat?; let bg ← parseHex bg; let ha ← parseBool ha
      let frs ← (if frames == "-" then some [] else (frames.splitOn ";").mapM parseFrame)
      let ops ← parseOps ops
      let f : File := { cw := cw, ch := ch, bgFile := bg.toList, hasAlpha := ha, frames := frs }
      let outs := if cmd == "animspec" || cmd == "animspecfull" then Canvas.runSpec blendPixelFixed f 0 ops else run f State.default ops
      some (if outs.isEmpty then "-" else " ".intercalate ((ops.zip outs).map fun (op, o) => showOut (cmd == "animfull" || cmd == "animspecfull") op o))
  | _ => none

end DrvAnim
