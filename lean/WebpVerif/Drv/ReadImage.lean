import WebpVerif.Model.ReadImage
import WebpVerif.Model.Util
namespace DrvReadImage
open Util ReadImage

def digest (l : List Nat) : String := toString (l.foldl fnvByte fnvInit).toNat ++ "/" ++ toString l.length

/-- `readimage <simple|ext0|ext1|anim0|anim1> <bgfilehex> <w> <h> <fill> <len> lossless <alphabit> <rgbahex>`
    `readimage <wrapping> <bg> <w> <h> <fill> <len> lossy <yhex> <uhex> <vhex> <none|filter:deltashex>` -/
def handle (args : List String) : Option String :=
  match args with
  | "readimage" :: wr :: bg :: w :: h :: fill :: len :: rest => do
      let w ← w.toNat?; let h ← h.toNat?; let fill ← fill.toNat?; let len ← len.toNat?
      let bg ← parseHex bg
      let wrap ← (match wr with
        | "simple" => some Wrapping.simple | "ext0" => some (Wrapping.extended false) | "ext1" => some (Wrapping.extended true)
        | "anim0" => some (Wrapping.anim1 false bg.toList) | "anim1" => some (Wrapping.anim1 true bg.toList) | _ => none)
      let payload ← (match rest with
        | ["lossless", ab, rgba] => do
            let px ← parseHex rgba
            some (Payload.lossless px.toList (ab == "1"))
        | ["lossy", y, u, v, a] => do
            let y ← parseHex y; let u ← parseHex u; let v ← parseHex v
            let alph ← (if a == "none" then some none else
              match a.splitOn ":" with
              | [f, d] => do let f ← f.toNat?; let d ← parseHex d; some (some (f, d))
              | _ => none)
            some (Payload.lossy y.toList u.toList v.toList alph)
        | _ => none)
      match readImage wrap ⟨w, h, payload⟩ (List.replicate len fill) with
      | .ok out => some ("ok " ++ digest out)
      | .error .imageTooLarge => some "err ImageTooLarge"
      | .error (.other s) => some ("err " ++ s.replace " " "_")
  | _ => none

end DrvReadImage
