import WebpVerif.Model.Vp8Intra
import WebpVerif.Model.Util
namespace DrvVp8Intra
open Util

/-- `vp8intra <mbw> <mbx> <mby> <lumaMode> <chromaMode> <bmodes 16 digits> <res 384 ints> <top hex> <left hex> <y hex> <u hex> <v hex>`
    → `y u v top left` in hex -/
def handle (args : List String) : Option String :=
  match args with
  | ["vp8intra", mbw, mbx, mby, lm, cm, bm, res, top, left, y, u, v] => do
      let mbw ← mbw.toNat?; let mbx ← mbx.toNat?; let mby ← mby.toNat?; let lm ← lm.toNat?; let cm ← cm.toNat?
      let bm := (bm.toList.map fun c => c.toNat - '0'.toNat).toArray
      let res ← (res.splitOn ",").mapM parseInt
      let top ← parseHex top; let left ← parseHex left
      let y ← parseHex y; let u ← parseHex u; let v ← parseHex v
      let o := Vp8Intra.predictMb mbw mbx mby lm cm bm res.toArray top left y u v
      some (toHex o.y ++ " " ++ toHex o.u ++ " " ++ toHex o.v ++ " " ++ toHex o.top ++ " " ++ toHex o.left)
  | _ => none

end DrvVp8Intra
