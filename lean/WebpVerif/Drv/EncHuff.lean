import WebpVerif.Model.EncHuff
import WebpVerif.Spec.Prefix
import WebpVerif.Model.Util
namespace DrvEncHuff
open Util EncHuff

def handle (args : List String) : Option String :=
  match args with
  | ["enchuff", limit, freqs] => do
      let limit ← limit.toNat?; let fs ← parseNats freqs
      match build fs limit with
      | .single => some "single"
      | .panic w => some ("panic " ++ w.replace " " "_")
      | .built l c => some ("built " ++ joinNats l.toList ++ " " ++ joinNats c.toList)
  | ["enchuffadmits", freqs, model, impl] => do
      let fs ← parseNats freqs; let m ← parseNats model; let i ← parseNats impl
      some (if admitsReassign fs m.toArray i.toArray then "admits" else "rejects")
  | ["enccodes", limit, lengths] => do
      -- codes the code's phase 4 assigns to given lengths, and the specification's canonical
      -- code words (bit-reversed) for the same lengths
      let limit ← limit.toNat?; let ls ← parseNats lengths
      let (codes, final) := assignCodes ls.toArray limit
      let spec := (List.range ls.length).map fun i =>
        match Prefix.canonicalCode ls i with
        | none => 0
        | some c => Prefix.reverseBits c (ls[i]!)
      some (joinNats codes.toList ++ " " ++ toString final ++ " " ++ joinNats spec ++ " kraft=" ++ toString (Prefix.kraft ls limit))
  | _ => none

end DrvEncHuff
