import WebpVerif.Model.LosslessLoop
import WebpVerif.Model.Util
namespace DrvLLoop
open Util LLoop

def parseOp (t : String) : Option Op :=
  match t.toList with
  | 'l' :: r => (String.ofList r).toNat?.map Op.lit
  | 'c' :: r => (String.ofList r).toNat?.map Op.cache
  | 'b' :: r =>
    match (String.ofList r).splitOn ":" with
    | [a, b] => do let a ← a.toNat?; let b ← b.toNat?; some (Op.back a b)
    | _ => none
  | _ => none

def showRes (r : Res) : String :=
  match r with
  | .ok d =>
    let bytes := d.foldl (fun (h : UInt64) v => fnvByte (fnvByte (fnvByte (fnvByte h (v / 65536 % 256)) (v / 256 % 256)) (v % 256)) (v / 16777216 % 256)) fnvInit
    s!"ok {bytes.toNat}/{d.size * 4}"
  | .bitstreamError => "err BitStreamError"
  | .outOfOps => "out-of-ops"
  | .panic w => s!"PANIC {w}"

/-- `lloop w h bits xsize image single cacheBits poison ops` : image = comma list of group
    indices ("-" = none), single = comma list of pixel or "-" per group, ops = comma list -/
def handle (args : List String) : Option String :=
  match args with
  | ["lloop", w, h, bits, xsize, image, single, cacheBits, poison, ops] => do
    let w ← w.toNat?; let h ← h.toNat?; let bits ← bits.toNat?; let xsize ← xsize.toNat?
    let cacheBits ← cacheBits.toNat?; let poison ← poison.toNat?
    let image ← if image == "-" then some [] else parseNats image
    let single ← (single.splitOn ",").mapM fun t => if t == "-" then some none else t.toNat?.map some
    let ops ← if ops == "-" then some [] else (ops.splitOn ",").mapM parseOp
    let c : Cfg := { width := w, height := h, bits := bits, mask := if bits = 0 then 0 else 2 ^ bits - 1, xsize := xsize,
                     image := image.toArray, single := single.toArray, cacheBits := cacheBits }
    let init := Array.replicate (w * h) poison
    some (s!"M={showRes (decode c init ops)} S={showRes (specDecode c init ops)} C={cons c (w * h + 1) 0 0 ops}")
  | _ => none

end DrvLLoop
