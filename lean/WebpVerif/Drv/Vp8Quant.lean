import WebpVerif.Model.Vp8Quant
import WebpVerif.Model.Util
namespace DrvVp8Quant
open Util

/-- `vp8quant <segments 0|1> <delta 0|1> <l0,l1,l2,l3> <data hex>` → `err` or the four segments'
    six factors `a,b,c,d,e,f;…` -/
def handle (args : List String) : Option String :=
  match args with
  | ["vp8quant", se, dv, levels, data] => do
      let ls ← (levels.splitOn ",").mapM parseInt
      let data ← if data == "-" then some #[] else parseHex data
      match (Vp8Quant.readQuant (Arith.init data.toList) (se == "1") (dv == "1") ls).2 with
      | none => some "err"
      | some segs => some (";".intercalate (segs.map fun s => ",".intercalate (s.map toString)))
  | _ => none

end DrvVp8Quant
