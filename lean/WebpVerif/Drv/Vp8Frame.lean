import WebpVerif.Model.Vp8Frame
import WebpVerif.Model.Util
namespace DrvVp8Frame
open Util

def dig (l : List Nat) : String := toString (l.foldl fnvByte fnvInit).toNat ++ "/" ++ toString l.length

/-- `vp8framemodel <frame hex>` → `err` | `ok <w> <h> <digest y> <digest u> <digest v>`;
    `vp8framefull` → the planes in hex -/
def handle (args : List String) : Option String :=
  match args with
  | [cmd, data] =>
    if cmd != "vp8framemodel" && cmd != "vp8framefull" then none else do
      let data ← parseHex data
      match Vp8Frame.decode data.toList with
      | none => some "err"
      | some (w, h, y, u, v) =>
        if cmd == "vp8framefull" then some s!"ok {w} {h} {toHex y.toArray} {toHex u.toArray} {toHex v.toArray}"
        else some s!"ok {w} {h} {dig y} {dig u} {dig v}"
  | _ => none

end DrvVp8Frame
