import WebpVerif.Model.Vp8Kernels
import WebpVerif.Model.Util
namespace DrvVp8K
open Util Vp8K

def parseInts (s : String) : Option (List Int) := (s.splitOn ",").mapM parseInt
def showInts (l : List Int) : String := ",".intercalate (l.map toString)
def edgeOf (l : List Nat) : Edge := ⟨l.getD 0 0, l.getD 1 0, l.getD 2 0, l.getD 3 0, l.getD 4 0, l.getD 5 0, l.getD 6 0, l.getD 7 0⟩
def showEdge (e : Edge) : String := joinNats [e.p3, e.p2, e.p1, e.p0, e.q0, e.q1, e.q2, e.q3]

def handle (args : List String) : Option String :=
  match args with
  | ["vp8k", "idct", blk] => do let b ← parseInts blk; some (showInts (idct b.toArray).toList)
  | ["vp8k", "iwht", blk] => do let b ← parseInts blk; some (showInts (iwht b.toArray).toList)
  | ["vp8k", "fparams", lvl, sharp, segEn, segDelta, segLvl, ref0, mode0, bpred] => do
      let lvl ← lvl.toNat?; let sharp ← sharp.toNat?
      let segLvl ← parseInt segLvl; let ref0 ← parseInt ref0; let mode0 ← parseInt mode0
      let r := filterParams lvl sharp (segEn == "1") (segDelta == "1") segLvl ref0 mode0 (bpred == "1")
      some (joinNats [r.1, r.2.1, r.2.2, mbEdgeLimit r.1 r.2.1, subEdgeLimit r.1 r.2.1])
  | ["vp8k", kind, hev, interior, edge, px] => do
      let hev ← hev.toNat?; let interior ← interior.toNat?; let edge ← edge.toNat?
      let px ← parseNats px
      let e := edgeOf px
      match kind with
      | "simple" => some (showEdge (simple edge e))
      | "subblock" => some (showEdge (subblock hev interior edge e))
      | "macroblock" => some (showEdge (macroblock hev interior edge e))
      | _ => none
  | _ => none

end DrvVp8K
