import WebpVerif.Model.Vp8Coef
import WebpVerif.Model.Util
namespace DrvVp8Coef
open Util

def showInts (l : List Int) : String := ",".intercalate (l.map toString)

/-- `vp8coef <plane> <probs hex (8*3*11)> <data hex> <c,dcq,acq;c,dcq,acq;…>` → one answer per call,
    separated by `|`: `ok <0|1> <16 values>` or `err <16 values>` -/
def handle (args : List String) : Option String :=
  match args with
  | ["vp8coef", plane, probs, data, calls] => do
      let plane ← plane.toNat?
      let pr ← parseHex probs
      let data ← if data == "-" then some #[] else parseHex data
      let probsOf := fun (band ctx : Nat) => (List.range 11).map fun t => pr[(band * 3 + ctx) * 11 + t]!
      let cs ← (calls.splitOn ";").mapM fun c =>
        match c.splitOn "," with
        | [a, b, c] => do let a ← a.toNat?; let b ← parseInt b; let c ← parseInt c; some (a, b, c)
        | _ => none
      let rec go (d : Arith.Dec) (cs : List (Nat × Int × Int)) (acc : List String) : List String :=
        match cs with
        | [] => acc.reverse
        | (c, dcq, acq) :: rest =>
          match Vp8Coef.readCoefficients d probsOf plane c dcq acq with
          | none => ("model-stuck" :: acc).reverse
          | some (d', block, r) =>
            let s := match r with
              | some has => s!"ok {if has then 1 else 0} {showInts block.toList}"
              | none => s!"err {showInts block.toList}"
            go d' rest (s :: acc)
      some ("|".intercalate (go (Arith.init data.toList) cs []))
  | _ => none

end DrvVp8Coef
