import WebpVerif.Model.Vp8Ctx
import WebpVerif.Model.Util
namespace DrvVp8Ctx
open Util Vp8Ctx

/-- one macroblock record `<hasY2><skipped>:<bits>`: the bits are the results of its
    `read_coefficients` calls in order (Y2 if present, 16 Y, 4 U, 4 V); empty when skipped -/
structure Mb where
  hasY2 : Bool
  skipped : Bool
  bits : Array Bool
deriving Inhabited

def parseMb (t : String) : Option Mb :=
  match t.splitOn ":" with
  | [hd, bits] =>
    match hd.toList with
    | [a, b] => some { hasY2 := a == '1', skipped := b == '1', bits := (bits.toList.map (· == '1')).toArray }
    | _ => none
  | _ => none

/-- `vp8ctx W H mb…` → the contexts of all calls in decoding order (model `Vp8Ctx.run`) and
    whether each equals the specification's context -/
def handle (args : List String) : Option String :=
  match args with
  | "vp8ctx" :: w :: h :: mbs => do
    let w ← w.toNat?; let h ← h.toNat?
    let ms ← mbs.mapM parseMb
    let ma := ms.toArray
    if ma.size ≠ w * h then none else
    let get := fun (mbx mby : Nat) => ma[mby * w + mbx]!
    let off := fun (m : Mb) => if m.hasY2 then 1 else 0
    let f : Frame :=
      { W := w, H := h,
        hasY2 := fun x y => (get x y).hasY2,
        skipped := fun x y => (get x y).skipped,
        nY2 := fun x y => (get x y).bits[0]!,
        nY := fun bx by' => let m := get (bx / 4) (by' / 4); m.bits[off m + (by' % 4) * 4 + bx % 4]!,
        nU := fun bx by' => let m := get (bx / 2) (by' / 2); m.bits[off m + 16 + (by' % 2) * 2 + bx % 2]!,
        nV := fun bx by' => let m := get (bx / 2) (by' / 2); m.bits[off m + 20 + (by' % 2) * 2 + bx % 2]! }
    let calls := run f
    let ok := calls.all fun c => c.ctx == specCtx f c
    some (s!"spec={ok} ctx=" ++ String.ofList (calls.map fun c => Char.ofNat (48 + c.ctx)))
  | _ => none

end DrvVp8Ctx
