import WebpVerif.Model.Vp8Mode
import WebpVerif.Model.Util
namespace DrvVp8Mode
open Util Vp8Mode

/-- one macroblock: `b<16 digits>` (B_PRED: the sixteen modes read, raster order) or `m<digit>` -/
structure Mb where
  isB : Bool
  modes : Array Nat
deriving Inhabited

def parseMb (t : String) : Option Mb :=
  match t.toList with
  | 'b' :: ds => some { isB := true, modes := (ds.map fun c => c.toNat - 48).toArray }
  | 'm' :: ds => some { isB := false, modes := (ds.map fun c => c.toNat - 48).toArray }
  | _ => none

/-- `vp8mode W H dc mb…` → the (top, left) contexts of all sub-block mode reads in decoding order
    (model `Vp8Mode.run`) and whether each equals the specification's -/
def handle (args : List String) : Option String :=
  match args with
  | "vp8mode" :: w :: h :: dc :: mbs => do
    let w ← w.toNat?; let h ← h.toNat?; let dc ← dc.toNat?
    let ms ← mbs.mapM parseMb
    let ma := ms.toArray
    if ma.size ≠ w * h then none else
    let get := fun (mbx mby : Nat) => ma[mby * w + mbx]!
    let f : Frame :=
      { W := w, H := h, dc := dc,
        isB := fun x y => (get x y).isB,
        implied := fun x y => (get x y).modes[0]!,
        sub := fun bx by' => (get (bx / 4) (by' / 4)).modes[(by' % 4) * 4 + bx % 4]! }
    let calls := run f
    let ok := calls.all fun c => c.top == specTop f c && c.left == specLeft f c
    some (s!"spec={ok} ctx=" ++ String.ofList (calls.flatMap fun c => [Char.ofNat (48 + c.top), Char.ofNat (48 + c.left)]))
  | _ => none

end DrvVp8Mode
