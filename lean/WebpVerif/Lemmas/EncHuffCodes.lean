import WebpVerif.Lemmas.EncHuff
import Mathlib.Tactic.Ring

/-!
Phase 4 of `build_huffman_tree` (`assignCodes`): the code words handed out are the canonical
ones of the lossless specification, bit-reversed, and the final value of `code` - what the
`assert_eq!(code, 2 << length_limit)` tests - is twice the scaled Kraft sum.
-/
namespace EncHuff

/-- number of indices `i < n` with `lengths[i] = len` -/
def cnt (lengths : Array Nat) (len n : Nat) : Nat := ((List.range n).filter (fun i => lengths[i]! = len)).length

theorem cnt_succ (lengths : Array Nat) (len n : Nat) :
    cnt lengths len (n + 1) = cnt lengths len n + (if lengths[n]! = len then 1 else 0) := by
  unfold cnt
  rw [List.range_succ, List.filter_append, List.length_append]
  by_cases h : lengths[n]! = len <;> simp [h]

/-- the inner loop over the symbols for one length -/
def innerStep (lengths : Array Nat) (len : Nat) (acc : Array Nat × Nat) (i : Nat) : Array Nat × Nat :=
  if lengths[i]! = len then (acc.1.setIfInBounds i (codeWord acc.2 len), acc.2 + 1) else acc

def outerStep (lengths : Array Nat) (acc : Array Nat × Nat) (k : Nat) : Array Nat × Nat :=
  (((List.range lengths.size).foldl (innerStep lengths (k + 1)) acc).1,
   ((List.range lengths.size).foldl (innerStep lengths (k + 1)) acc).2 * 2)

theorem assignCodes_eq (lengths : Array Nat) (limit : Nat) :
    assignCodes lengths limit = (List.range limit).foldl (outerStep lengths) (Array.replicate lengths.size 0, 0) := rfl

theorem inner_spec (lengths : Array Nat) (len : Nat) (acc : Array Nat × Nat) (hsz : acc.1.size = lengths.size) :
    ∀ n, n ≤ lengths.size →
      ((List.range n).foldl (innerStep lengths len) acc).2 = acc.2 + cnt lengths len n ∧
      ((List.range n).foldl (innerStep lengths len) acc).1.size = lengths.size ∧
      ∀ j, j < lengths.size → ((List.range n).foldl (innerStep lengths len) acc).1[j]! =
        if j < n ∧ lengths[j]! = len then codeWord (acc.2 + cnt lengths len j) len else acc.1[j]! := by
  intro n
  induction n with
  | zero =>
    intro _
    refine ⟨by simp [cnt], hsz, fun j _ => by simp⟩
  | succ n ih =>
    intro hn
    obtain ⟨i1, i2, i3⟩ := ih (by omega)
    rw [List.range_succ, List.foldl_append]
    simp only [List.foldl_cons, List.foldl_nil]
    rw [cnt_succ]
    generalize (List.range n).foldl (innerStep lengths len) acc = r at i1 i2 i3 ⊢
    unfold innerStep
    by_cases h : lengths[n]! = len
    · simp only [h, if_true]
      refine ⟨by rw [i1]; omega, by rw [Array.size_setIfInBounds]; exact i2, ?_⟩
      intro j hj
      by_cases hjn : j = n
      · subst hjn
        rw [Array.getElem!_eq_getD, Array.getD_eq_getD_getElem?, Array.getElem?_setIfInBounds_self_of_lt (by rw [i2]; exact hj)]
        simp [h, i1]
      · rw [Array.getElem!_eq_getD, Array.getD_eq_getD_getElem?, Array.getElem?_setIfInBounds_ne (Ne.symm hjn),
          ← Array.getD_eq_getD_getElem?, ← Array.getElem!_eq_getD, i3 j hj]
        by_cases hlt : j < n
        · have : j < n + 1 := by omega
          simp [hlt, this]
        · have : ¬ j < n + 1 := by omega
          simp [hlt, this]
    · simp only [h, if_false]
      refine ⟨by rw [i1]; omega, i2, ?_⟩
      intro j hj
      rw [i3 j hj]
      by_cases hjn : j = n
      · subst hjn; simp [h]
      · by_cases hlt : j < n
        · have : j < n + 1 := by omega
          simp [hlt, this]
        · have : ¬ j < n + 1 := by omega
          simp [hlt, this]

/-- `next_code[len]` in terms of the per-length counts -/
def nc (lengths : Array Nat) : Nat → Nat
  | 0 => 0
  | len + 1 => (nc lengths len + (if len = 0 then 0 else cnt lengths len lengths.size)) * 2

theorem outer_spec (lengths : Array Nat) : ∀ m,
    ((List.range m).foldl (outerStep lengths) (Array.replicate lengths.size 0, 0)).2 = nc lengths (m + 1) ∧
    ((List.range m).foldl (outerStep lengths) (Array.replicate lengths.size 0, 0)).1.size = lengths.size ∧
    ∀ j, j < lengths.size → ((List.range m).foldl (outerStep lengths) (Array.replicate lengths.size 0, 0)).1[j]! =
      if 1 ≤ lengths[j]! ∧ lengths[j]! ≤ m then codeWord (nc lengths (lengths[j]!) + cnt lengths (lengths[j]!) j) (lengths[j]!)
      else 0 := by
  intro m
  induction m with
  | zero =>
    refine ⟨by simp [nc], by simp, fun j hj => ?_⟩
    have : ¬ (1 ≤ lengths[j]! ∧ lengths[j]! ≤ 0) := by omega
    rw [if_neg this]
    simp [hj]
  | succ m ih =>
    obtain ⟨o1, o2, o3⟩ := ih
    rw [List.range_succ, List.foldl_append]
    simp only [List.foldl_cons, List.foldl_nil]
    generalize (List.range m).foldl (outerStep lengths) (Array.replicate lengths.size 0, 0) = r at o1 o2 o3 ⊢
    obtain ⟨i1, i2, i3⟩ := inner_spec lengths (m + 1) r o2 lengths.size (Nat.le_refl _)
    unfold outerStep
    refine ⟨?_, i2, ?_⟩
    · simp only
      rw [i1, o1]
      show _ = (nc lengths (m + 1) + (if m + 1 = 0 then 0 else cnt lengths (m + 1) lengths.size)) * 2
      simp
    · intro j hj
      simp only
      rw [i3 j hj, o1, o3 j hj]
      by_cases h : lengths[j]! = m + 1
      · have h1 : 1 ≤ lengths[j]! ∧ lengths[j]! ≤ m + 1 := by omega
        simp only [hj, h, true_and, if_true]
        rw [if_pos (by omega)]
      · simp only [h, and_false, if_false]
        by_cases h2 : 1 ≤ lengths[j]! ∧ lengths[j]! ≤ m
        · rw [if_pos h2, if_pos (by omega)]
        · rw [if_neg h2, if_neg (by omega)]

/-- what `assignCodes` returns -/
theorem assignCodes_spec (lengths : Array Nat) (limit : Nat) :
    (assignCodes lengths limit).2 = nc lengths (limit + 1) ∧ (assignCodes lengths limit).1.size = lengths.size ∧
    ∀ j, j < lengths.size → (assignCodes lengths limit).1[j]! =
      if 1 ≤ lengths[j]! ∧ lengths[j]! ≤ limit then codeWord (nc lengths (lengths[j]!) + cnt lengths (lengths[j]!) j) (lengths[j]!)
      else 0 := by
  rw [assignCodes_eq]; exact outer_spec lengths limit

/-! ### the same in the vocabulary of the specification -/

theorem cnt_take (lengths : Array Nat) (len : Nat) : ∀ n, n ≤ lengths.size →
    cnt lengths len n = ((lengths.toList.take n).filter (· == len)).length := by
  intro n
  induction n with
  | zero => intro _; simp [cnt]
  | succ n ih =>
    intro hn
    rw [cnt_succ, ih (by omega), List.take_succ, List.filter_append, List.length_append]
    have hlt : n < lengths.toList.length := by rw [Array.length_toList]; omega
    have hget : lengths[n]! = lengths.toList[n] := by
      rw [Array.getElem!_eq_getD, Array.getD_eq_getD_getElem?, Array.getElem?_eq_getElem (by omega)]
      simp
    rw [List.getElem?_eq_getElem hlt, hget]
    generalize lengths.toList[n] = x
    by_cases h : x = len
    · simp [h]
    · simp [h]

theorem cnt_blCount (lengths : Array Nat) (len : Nat) :
    cnt lengths len lengths.size = Prefix.blCount lengths.toList len := by
  rw [cnt_take lengths len lengths.size (Nat.le_refl _)]
  unfold Prefix.blCount
  rw [show lengths.size = lengths.toList.length by simp, List.take_length]

theorem nc_nextCode (lengths : Array Nat) : ∀ len, nc lengths len = Prefix.nextCode lengths.toList len := by
  intro len
  induction len with
  | zero => rfl
  | succ len ih => simp only [nc, Prefix.nextCode, ih, cnt_blCount]

/-- scaled Kraft sum over the lengths `1..L`: `S(L) = Σ_{l=1..L} count(l) · 2^(L−l)` -/
def kraftUpTo (lengths : Array Nat) : Nat → Nat
  | 0 => 0
  | L + 1 => 2 * kraftUpTo lengths L + cnt lengths (L + 1) lengths.size

theorem nc_kraft (lengths : Array Nat) : ∀ L, nc lengths (L + 1) = 2 * kraftUpTo lengths L := by
  intro L
  induction L with
  | zero => simp [nc, kraftUpTo]
  | succ L ih =>
    show (nc lengths (L + 1) + (if L + 1 = 0 then 0 else cnt lengths (L + 1) lengths.size)) * 2 = _
    rw [ih]; simp only [kraftUpTo, Nat.succ_ne_zero, if_false]; ring

/-- scaled Kraft sum of the lengths in `1..L` -/
def kk (ls : List Nat) (L : Nat) : Nat := ((ls.filter (fun l => 1 ≤ l ∧ l ≤ L)).map (fun l => 2 ^ (L - l))).sum

theorem kk_succ (ls : List Nat) (L : Nat) : kk ls (L + 1) = 2 * kk ls L + Prefix.blCount ls (L + 1) := by
  induction ls with
  | nil => simp [kk, Prefix.blCount]
  | cons x ls ih =>
    have hb : Prefix.blCount (x :: ls) (L + 1) = (if x = L + 1 then 1 else 0) + Prefix.blCount ls (L + 1) := by
      unfold Prefix.blCount
      by_cases h : x = L + 1 <;> simp [h, List.filter_cons] <;> omega
    have hk : ∀ M, kk (x :: ls) M = (if 1 ≤ x ∧ x ≤ M then 2 ^ (M - x) else 0) + kk ls M := by
      intro M; unfold kk
      by_cases h : 1 ≤ x ∧ x ≤ M <;> simp [h, List.filter_cons]
    rw [hk, hk, ih, hb]
    by_cases h1 : x = L + 1
    · subst h1
      have : ¬ (1 ≤ L + 1 ∧ L + 1 ≤ L) := by omega
      simp [this]; ring
    · by_cases h2 : 1 ≤ x ∧ x ≤ L
      · have h3 : 1 ≤ x ∧ x ≤ L + 1 := by omega
        have : L + 1 - x = (L - x) + 1 := by omega
        rw [if_neg h1, if_pos h2, if_pos h3, this, Nat.pow_succ]; ring
      · have h3 : ¬ (1 ≤ x ∧ x ≤ L + 1) := by omega
        rw [if_neg h1, if_neg h2, if_neg h3]; ring

theorem kraftUpTo_kk (lengths : Array Nat) : ∀ L, kraftUpTo lengths L = kk lengths.toList L := by
  intro L
  induction L with
  | zero =>
    simp only [kraftUpTo, kk]
    have : lengths.toList.filter (fun l => 1 ≤ l ∧ l ≤ 0) = [] := by
      apply List.filter_eq_nil_iff.mpr; intro a _; simp; omega
    rw [this]; rfl
  | succ L ih => rw [kk_succ, ← ih, ← cnt_blCount]; rfl

theorem foldl_add_sum (f : Nat → Nat) (l : List Nat) (a : Nat) :
    l.foldl (fun acc x => acc + f x) a = a + (l.map f).sum := by
  induction l generalizing a with
  | nil => simp
  | cons x l ih => simp only [List.foldl_cons, List.map_cons, List.sum_cons, ih]; omega

theorem kraft_kk (ls : List Nat) (L : Nat) (h : ∀ l ∈ ls, l ≤ L) : Prefix.kraft ls L = kk ls L := by
  unfold Prefix.kraft kk
  rw [foldl_add_sum (fun l => 2 ^ (L - l)), Nat.zero_add]
  congr 2
  apply List.filter_congr
  intro x hx
  have := h x hx
  by_cases h0 : x = 0
  · subst h0; simp
  · have h1 : 1 ≤ x ∧ x ≤ L := by omega
    simp [h0, h1]

/-- the value the final `assert_eq!` tests is twice the scaled Kraft sum -/
theorem final_eq_kraft (lengths : Array Nat) (limit : Nat) (h : ∀ l ∈ lengths.toList, l ≤ limit) :
    (assignCodes lengths limit).2 = 2 * Prefix.kraft lengths.toList limit := by
  rw [(assignCodes_spec lengths limit).1, nc_kraft, kraftUpTo_kk, kraft_kk _ _ h]

/-! ### bit reversal: `(code as u16).reverse_bits() >> (16 - len)` reverses the low `len` bits -/

def bitSum (c m : Nat) (n : Nat) : Nat := ((List.range n).map (fun k => (c / 2 ^ k % 2) * 2 ^ (m - 1 - k))).sum

theorem bitSum_succ (c m n : Nat) : bitSum c m (n + 1) = bitSum c m n + (c / 2 ^ n % 2) * 2 ^ (m - 1 - n) := by
  unfold bitSum; rw [List.range_succ, List.map_append, List.sum_append]; simp

theorem reverseBits16_eq (x : Nat) : reverseBits16 x = bitSum x 16 16 := by
  unfold reverseBits16 bitSum
  rw [foldl_add_sum (fun k => (x / 2 ^ k % 2) * 2 ^ (15 - k)), Nat.zero_add]

theorem reverseBits_eq (c len : Nat) : Prefix.reverseBits c len = bitSum c len len := by
  unfold Prefix.reverseBits bitSum
  rw [foldl_add_sum (fun k => (c / 2 ^ k % 2) * 2 ^ (len - 1 - k)), Nat.zero_add]

/-- bits at and above `len` of a value below `2^len` are zero -/
theorem bitSum_high (c len m : Nat) (hc : c < 2 ^ len) : ∀ n, len ≤ n → bitSum c m n = bitSum c m len := by
  intro n hn
  induction n with
  | zero => have : len = 0 := by omega
            subst this; rfl
  | succ n ih =>
    by_cases h : len = n + 1
    · rw [h]
    · rw [bitSum_succ, ih (by omega)]
      have : c / 2 ^ n = 0 := by
        apply Nat.div_eq_of_lt
        calc c < 2 ^ len := hc
          _ ≤ 2 ^ n := Nat.pow_le_pow_right (by decide) (by omega)
      rw [this]; simp

theorem bitSum_scale (c len : Nat) (hl : len ≤ 16) : ∀ n, n ≤ len →
    bitSum c 16 n = 2 ^ (16 - len) * bitSum c len n := by
  intro n hn
  induction n with
  | zero => simp [bitSum]
  | succ n ih =>
    rw [bitSum_succ, bitSum_succ, ih (by omega), Nat.mul_add]
    have : 2 ^ (16 - 1 - n) = 2 ^ (16 - len) * 2 ^ (len - 1 - n) := by
      rw [← Nat.pow_add]; congr 1; omega
    rw [this]; ring

theorem codeWord_eq (c len : Nat) (hl : len ≤ 16) (hc : c < 2 ^ len) :
    codeWord c len = Prefix.reverseBits c len := by
  unfold codeWord
  have hc16 : c < 65536 := by
    calc c < 2 ^ len := hc
      _ ≤ 2 ^ 16 := Nat.pow_le_pow_right (by decide) hl
      _ = 65536 := by decide
  rw [Nat.mod_eq_of_lt hc16, reverseBits16_eq, reverseBits_eq, bitSum_high c len 16 hc 16 hl,
    bitSum_scale c len hl len (Nat.le_refl _), Nat.mul_div_cancel_left _ (Nat.two_pow_pos _)]

/-! ### the canonical code words fit their length when the code space is not exceeded -/

theorem kraftUpTo_mono (lengths : Array Nat) (len : Nat) : ∀ d, 2 ^ d * kraftUpTo lengths len ≤ kraftUpTo lengths (len + d) := by
  intro d
  induction d with
  | zero => simp
  | succ d ih =>
    show _ ≤ 2 * kraftUpTo lengths (len + d) + cnt lengths (len + d + 1) lengths.size
    rw [Nat.pow_succ]
    have : 2 ^ d * 2 * kraftUpTo lengths len = 2 * (2 ^ d * kraftUpTo lengths len) := by ring
    omega

theorem cnt_mono (lengths : Array Nat) (len : Nat) : ∀ n m, n ≤ m → cnt lengths len n ≤ cnt lengths len m := by
  intro n m h
  induction m with
  | zero => have : n = 0 := by omega
            subst this; exact Nat.le_refl _
  | succ m ih =>
    by_cases hn : n = m + 1
    · rw [hn]
    · have := ih (by omega); rw [cnt_succ]; omega

theorem code_lt (lengths : Array Nat) (L len j : Nat) (hk : kraftUpTo lengths L ≤ 2 ^ L)
    (h1 : 1 ≤ len) (hL : len ≤ L) (hj : j < lengths.size) (hlen : lengths[j]! = len) :
    nc lengths len + cnt lengths len j < 2 ^ len := by
  obtain ⟨m, rfl⟩ : ∃ m, len = m + 1 := ⟨len - 1, by omega⟩
  have hk1 : kraftUpTo lengths (m + 1) = nc lengths (m + 1) + cnt lengths (m + 1) lengths.size := by
    rw [nc_kraft]; rfl
  have hmono := kraftUpTo_mono lengths (m + 1) (L - (m + 1))
  rw [show m + 1 + (L - (m + 1)) = L by omega] at hmono
  have hle : kraftUpTo lengths (m + 1) ≤ 2 ^ (m + 1) := by
    have hp : 2 ^ L = 2 ^ (L - (m + 1)) * 2 ^ (m + 1) := by rw [← Nat.pow_add]; congr 1; omega
    have : 2 ^ (L - (m + 1)) * kraftUpTo lengths (m + 1) ≤ 2 ^ (L - (m + 1)) * 2 ^ (m + 1) := by
      rw [← hp]; exact Nat.le_trans hmono hk
    exact Nat.le_of_mul_le_mul_left this (Nat.two_pow_pos _)
  have hc1 : cnt lengths (m + 1) (j + 1) = cnt lengths (m + 1) j + 1 := by rw [cnt_succ, if_pos hlen]
  have hc2 := cnt_mono lengths (m + 1) (j + 1) lengths.size (by omega)
  omega

/-- **Phase 4**: for limited lengths within the code space, every used symbol gets the
    specification's canonical code word, bit-reversed for the LSB-first stream -/
theorem assign_canonical (lengths : Array Nat) (limit : Nat) (hlim : limit ≤ 16)
    (hall : ∀ l ∈ lengths.toList, l ≤ limit) (hk : Prefix.kraft lengths.toList limit ≤ 2 ^ limit) :
    ∀ j, j < lengths.size → lengths[j]! ≠ 0 →
      some (assignCodes lengths limit).1[j]! =
        (Prefix.canonicalCode lengths.toList j).map (fun c => Prefix.reverseBits c lengths[j]!) := by
  intro j hj hne
  have hget : lengths.toList[j]? = some lengths[j]! := by
    rw [Array.getElem!_eq_getD, Array.getD_eq_getD_getElem?, Array.getElem?_eq_getElem hj]
    simp [hj]
  have hle : lengths[j]! ≤ limit := by
    apply hall
    rw [Array.getElem!_eq_getD, Array.getD_eq_getD_getElem?, Array.getElem?_eq_getElem hj]
    simp
  have hk' : kraftUpTo lengths limit ≤ 2 ^ limit := by rw [kraftUpTo_kk, ← kraft_kk _ _ hall]; exact hk
  have hlt := code_lt lengths limit lengths[j]! j hk' (by omega) hle hj rfl
  rw [(assignCodes_spec lengths limit).2.2 j hj, if_pos ⟨by omega, hle⟩]
  unfold Prefix.canonicalCode
  rw [hget]
  obtain ⟨m, hm⟩ : ∃ m, lengths[j]! = m + 1 := ⟨lengths[j]! - 1, by omega⟩
  simp only [hm]
  rw [← hm, ← nc_nextCode, ← cnt_take lengths _ j (by omega)]
  simp only [Option.map_some]
  rw [codeWord_eq _ _ (by omega) hlt]

end EncHuff
