import WebpVerif.Model.Vp8Frame
namespace Vp8FrameProof
open Vp8Frame

theorem crop_length (buf : Array Nat) (stride w h : Nat) : (Vp8LF.crop buf stride w h).length = w * h := by
  unfold Vp8LF.crop; simp

/-- every accepted key frame comes out with planes of the display size: `w x h` luma and
    `ceil(w/2) x ceil(h/2)` chroma samples, `w`, `h` the 14-bit fields of the frame header -/
theorem plane_sizes (frame : List Nat) (w h : Nat) (y u v : List Nat) (hd : decode frame = some (w, h, y, u, v)) :
    w = (frame.getD 6 0 + 256 * frame.getD 7 0) % 16384 ∧ h = (frame.getD 8 0 + 256 * frame.getD 9 0) % 16384 ∧
    y.length = w * h ∧ u.length = ((w + 1) / 2) * ((h + 1) / 2) ∧ v.length = ((w + 1) / 2) * ((h + 1) / 2) := by
  unfold decode at hd
  by_cases h1 : frame.length < 10
  · rw [if_pos h1] at hd; cases hd
  rw [if_neg h1] at hd
  simp only [] at hd
  by_cases h2 : ((frame.getD 0 0 + 256 * frame.getD 1 0 + 65536 * frame.getD 2 0) % 2 != 0) = true
  · rw [if_pos h2] at hd; cases hd
  rw [if_neg h2] at hd
  by_cases h3 : ((frame.getD 3 0, frame.getD 4 0, frame.getD 5 0) != (0x9d, 0x01, 0x2a)) = true
  · rw [if_pos h3] at hd; cases hd
  rw [if_neg h3] at hd
  by_cases h4 : (List.drop 10 frame).length < (frame.getD 0 0 + 256 * frame.getD 1 0 + 65536 * frame.getD 2 0) / 32
  · rw [if_pos h4] at hd; cases hd
  rw [if_neg h4] at hd
  split at hd
  · cases hd
  split at hd
  · cases hd
  split at hd
  · cases hd
  simp only [Option.some.injEq, Prod.mk.injEq] at hd
  obtain ⟨rfl, rfl, rfl, rfl, rfl⟩ := hd
  refine ⟨rfl, rfl, crop_length _ _ _ _, crop_length _ _ _ _, crop_length _ _ _ _⟩

/-! ### every macroblock is decoded once -/

theorem mbStep_size (h : Vp8Header.Hdr) (tp : Array Nat) (mbw nparts mbx mby : Nat) (s s' : St)
    (e : mbStep h tp mbw nparts mbx mby s = some s') : s'.mbs.size = s.mbs.size + 1 := by
  unfold mbStep at e
  split at e
  · cases e
  · simp only [] at e
    split at e
    · cases e
    · simp only [Option.some.injEq] at e
      subst e
      simp

theorem rowLoop_size (h : Vp8Header.Hdr) (tp : Array Nat) (mbw nparts mby : Nat) :
    ∀ n mbx (s s' : St), rowLoop h tp mbw nparts mby n mbx s = some s' → s'.mbs.size = s.mbs.size + n := by
  intro n
  induction n with
  | zero => intro mbx s s' e; simp only [rowLoop, Option.some.injEq] at e; subst e; rfl
  | succ n ih =>
    intro mbx s s' e
    simp only [rowLoop] at e
    split at e
    · cases e
    · rename_i s1 h1
      have := ih _ _ _ e
      have := mbStep_size h tp mbw nparts mbx mby s s1 h1
      omega

theorem frameLoop_size (h : Vp8Header.Hdr) (tp : Array Nat) (mbw nparts : Nat) :
    ∀ n mby (s s' : St), frameLoop h tp mbw nparts n mby s = some s' → s'.mbs.size = s.mbs.size + n * mbw := by
  intro n
  induction n with
  | zero => intro mby s s' e; simp only [frameLoop, Option.some.injEq] at e; subst e; simp
  | succ n ih =>
    intro mby s s' e
    simp only [frameLoop] at e
    split at e
    · cases e
    · rename_i s1 h1
      have := ih _ _ _ e
      have := rowLoop_size h tp mbw nparts mby mbw 0 _ s1 h1
      simp only [] at this
      rw [Nat.succ_mul]
      simp at *
      omega


end Vp8FrameProof
