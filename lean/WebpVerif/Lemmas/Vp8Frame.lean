import WebpVerif.Model.Vp8Frame
namespace Vp8FrameProof
open Vp8Frame

theorem crop_length (buf : Array Nat) (stride w h : Nat) : (Vp8LF.crop buf stride w h).length = w * h := by
  unfold Vp8LF.crop; simp

/-- every accepted key frame comes out with planes of the display size: `w x h` luma and
    `ceil(w/2) x ceil(h/2)` chroma samples, `w`, `h` the 14-bit fields of the frame header -/
theorem plane_sizes (frame : List Nat) (w h : Nat) (y u v : List Nat) (hd : decode frame = some (w, h, y, u, v)) :
    w = (frame.getD 6 0 + 256 * frame.getD 7 0) % 16384 ∧ h = (frame.getD 8 0 + 256 * frame.getD 9 0) % 16384 ∧
    y.length = w * h ∧ u.length = ((w + 1) / 2) * ((h + 1) / 2) ∧ v.length = ((w + 1) / 2) * ((h + 1) / 2) := by
  unfold decode at hd
  by_cases h1 : frame.length < 10
  · rw [if_pos h1] at hd; cases hd
  rw [if_neg h1] at hd
  simp only [] at hd
  by_cases h2 : ((frame.getD 0 0 + 256 * frame.getD 1 0 + 65536 * frame.getD 2 0) % 2 != 0) = true
  · rw [if_pos h2] at hd; cases hd
  rw [if_neg h2] at hd
  by_cases h3 : ((frame.getD 3 0, frame.getD 4 0, frame.getD 5 0) != (0x9d, 0x01, 0x2a)) = true
  · rw [if_pos h3] at hd; cases hd
  rw [if_neg h3] at hd
  by_cases h4 : (List.drop 10 frame).length < (frame.getD 0 0 + 256 * frame.getD 1 0 + 65536 * frame.getD 2 0) / 32
  · rw [if_pos h4] at hd; cases hd
  rw [if_neg h4] at hd
  split at hd
  · cases hd
  split at hd
  · cases hd
  split at hd
  · cases hd
  simp only [Option.some.injEq, Prod.mk.injEq] at hd
  obtain ⟨rfl, rfl, rfl, rfl, rfl⟩ := hd
  refine ⟨rfl, rfl, crop_length _ _ _ _, crop_length _ _ _ _, crop_length _ _ _ _⟩
end Vp8FrameProof
