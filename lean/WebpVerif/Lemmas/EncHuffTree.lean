import WebpVerif.Lemmas.EncHuff
import WebpVerif.Lemmas.EncHuffCodes
import Mathlib.Tactic.Ring
import Mathlib.Data.List.Basic

/-!
Phases 1-2 of `build_huffman_tree`: whatever the heap's order and tie-breaking, the merge loop
ends with ONE tree whose leaves are exactly the used symbols, each once; the depth walk then
gives every used symbol its depth and leaves the others at 0.
-/
namespace EncHuff

def leaves : Tree → List Nat
  | .leaf s => [s]
  | .node l r => leaves l ++ leaves r

/-- all leaves of all items of a heap -/
def heapLeaves (l : List Item) : List Nat := l.flatMap (fun it => leaves it.tree)

theorem heapLeaves_perm {a b : List Item} (h : a.Perm b) : (heapLeaves a).Perm (heapLeaves b) :=
  List.Perm.flatMap_right _ h

theorem swapIf_perm (h : Heap) (i j : Nat) : (h.swapIfInBounds i j).toList.Perm h.toList := by
  rw [Array.swapIfInBounds_def]
  split
  · split
    · exact (Array.perm_iff_toList_perm.mp (Array.swap_perm ‹_› ‹_›))
    · exact List.Perm.refl _
  · exact List.Perm.refl _

theorem siftDownRange_perm (endd : Nat) : ∀ fuel (pos : Nat) (h : Heap), (siftDownRange h pos endd fuel).toList.Perm h.toList := by
  intro fuel
  induction fuel with
  | zero => intro pos h; exact List.Perm.refl _
  | succ fuel ih =>
    intro pos h
    unfold siftDownRange
    simp only
    repeat' split
    all_goals first | exact List.Perm.refl _ | exact swapIf_perm _ _ _ | exact (ih _ _).trans (swapIf_perm _ _ _)

theorem siftUp_perm (start : Nat) : ∀ fuel (pos : Nat) (h : Heap), (siftUp h start pos fuel).toList.Perm h.toList := by
  intro fuel
  induction fuel with
  | zero => intro pos h; exact List.Perm.refl _
  | succ fuel ih =>
    intro pos h
    unfold siftUp
    simp only
    repeat' split
    all_goals first | exact List.Perm.refl _ | exact swapIf_perm _ _ _ | exact (ih _ _).trans (swapIf_perm _ _ _)

theorem descend_perm (endd : Nat) : ∀ fuel (pos : Nat) (h : Heap), (descend h pos endd fuel).1.toList.Perm h.toList := by
  intro fuel
  induction fuel with
  | zero => intro pos h; exact List.Perm.refl _
  | succ fuel ih =>
    intro pos h
    unfold descend
    simp only
    repeat' split
    all_goals first | exact List.Perm.refl _ | exact swapIf_perm _ _ _ | exact (ih _ _).trans (swapIf_perm _ _ _)

theorem siftDownToBottom_perm (h : Heap) : (siftDownToBottom h).toList.Perm h.toList := by
  unfold siftDownToBottom
  exact (siftUp_perm 0 _ _ _).trans (descend_perm _ _ _ _)

theorem rebuild_perm (h : Heap) : (rebuild h).toList.Perm h.toList := by
  unfold rebuild
  generalize (List.range (h.size / 2)).reverse = ns
  generalize h.size = sz
  induction ns generalizing h with
  | nil => exact List.Perm.refl _
  | cons n ns ih =>
    rw [List.foldl_cons]
    exact (ih _).trans (siftDownRange_perm _ _ _ _)

/-! ### `pop` and `replaceTop` -/

theorem getElem!_zero_toList (h : Heap) (hs : 0 < h.size) : ∃ tl, h.toList = h[0]! :: tl := by
  cases hl : h.toList with
  | nil => have : h.size = 0 := by rw [← Array.length_toList, hl]; rfl
           omega
  | cons x tl =>
    refine ⟨tl, ?_⟩
    have : h[0]! = x := by
      rw [Array.getElem!_eq_getD, Array.getD_eq_getD_getElem?, ← Array.getElem?_toList, hl]; rfl
    rw [this]

theorem set!_zero_toList (h : Heap) (it : Item) (tl : List Item) (hl : h.toList = h[0]! :: tl) :
    (h.set! 0 it).toList = it :: tl := by
  have hs : 0 < h.size := by rw [← Array.length_toList, hl]; simp
  rw [Array.set!_eq_setIfInBounds, Array.toList_setIfInBounds, hl]; rfl

/-- `pop`: the removed top together with the remaining heap is the old heap -/
theorem pop_spec (h : Heap) (a : Item) (h' : Heap) (hp : pop h = some (a, h')) :
    (a :: h'.toList).Perm h.toList ∧ h'.size + 1 = h.size := by
  unfold pop at hp
  by_cases h0 : h.size = 0
  · rw [if_pos h0] at hp; exact absurd hp (by simp)
  · rw [if_neg h0] at hp
    simp only at hp
    have hlast : h.toList = h.pop.toList ++ [h[h.size - 1]!] := by
      have hne : h.toList ≠ [] := by
        intro hn; apply h0; rw [← Array.length_toList, hn]; rfl
      have hlen : h.toList.length - 1 < h.toList.length := by
        have : h.toList.length ≠ 0 := by rw [Array.length_toList]; exact h0
        omega
      have hx : h[h.size - 1]! = h.toList.getLast hne := by
        rw [List.getLast_eq_getElem, Array.getElem!_eq_getD, Array.getD_eq_getD_getElem?, ← Array.getElem?_toList]
        have : h.size - 1 = h.toList.length - 1 := by rw [Array.length_toList]
        rw [this, List.getElem?_eq_getElem hlen]; rfl
      rw [Array.toList_pop, hx, List.dropLast_concat_getLast]
    have hpsz : h.pop.size + 1 = h.size := by rw [Array.size_pop]; omega
    by_cases hr : h.pop.size = 0
    · rw [if_pos hr] at hp
      obtain ⟨rfl, rfl⟩ := Prod.mk.inj (Option.some.inj hp)
      exact ⟨by rw [hlast]; exact (List.perm_append_comm (l₁ := h.pop.toList) (l₂ := [h[h.size - 1]!])).symm, hpsz⟩
    · rw [if_neg hr] at hp
      obtain ⟨rfl, rfl⟩ := Prod.mk.inj (Option.some.inj hp)
      obtain ⟨tl, htl⟩ := getElem!_zero_toList h.pop (by omega)
      have hset := set!_zero_toList h.pop h[h.size - 1]! tl htl
      have hsz : (siftDownToBottom (h.pop.set! 0 h[h.size - 1]!)).size + 1 = h.size := by
        rw [← Array.length_toList, (siftDownToBottom_perm _).length_eq, hset, List.length_cons,
          show tl.length + 1 = h.pop.toList.length by rw [htl]; rfl, Array.length_toList]
        exact hpsz
      refine ⟨?_, hsz⟩
      have p1 : (h.pop[0]! :: (siftDownToBottom (h.pop.set! 0 h[h.size - 1]!)).toList).Perm (h.pop[0]! :: h[h.size - 1]! :: tl) :=
        List.Perm.cons _ ((siftDownToBottom_perm _).trans (by rw [hset]))
      refine p1.trans ?_
      rw [hlast, htl]
      exact (List.Perm.swap _ _ _).trans (List.perm_append_comm (l₁ := h.pop[0]! :: tl) (l₂ := [h[h.size - 1]!])).symm

theorem pop_some (h : Heap) (hs : h.size ≠ 0) : ∃ a h', pop h = some (a, h') := by
  unfold pop
  rw [if_neg hs]
  simp only
  split <;> exact ⟨_, _, rfl⟩

theorem replaceTop_perm (h : Heap) (it : Item) : (replaceTop h it).toList.Perm (h.set! 0 it).toList := by
  unfold replaceTop
  exact siftDownRange_perm _ _ _ _

/-- the merge loop ends with a single item holding every leaf of the initial heap -/
theorem mergeLoop_spec : ∀ fuel (h : Heap), 1 ≤ h.size → h.size ≤ fuel + 1 →
    (mergeLoop h fuel).size = 1 ∧ (heapLeaves (mergeLoop h fuel).toList).Perm (heapLeaves h.toList) := by
  intro fuel
  induction fuel with
  | zero =>
    intro h h1 h2
    unfold mergeLoop
    exact ⟨by omega, List.Perm.refl _⟩
  | succ fuel ih =>
    intro h h1 h2
    unfold mergeLoop
    by_cases hgt : h.size > 1
    · rw [if_pos hgt]
      obtain ⟨a, h', hp⟩ := pop_some h (by omega)
      rw [hp]
      simp only
      obtain ⟨p1, p2⟩ := pop_spec h a h' hp
      obtain ⟨tl, htl⟩ := getElem!_zero_toList h' (by omega)
      have hset := set!_zero_toList h' { freq := a.freq + h'[0]!.freq, tree := .node a.tree h'[0]!.tree } tl htl
      have hperm := replaceTop_perm h' { freq := a.freq + h'[0]!.freq, tree := .node a.tree h'[0]!.tree }
      rw [hset] at hperm
      have hsz : (replaceTop h' { freq := a.freq + h'[0]!.freq, tree := .node a.tree h'[0]!.tree }).size = h'.size := by
        rw [← Array.length_toList, hperm.length_eq, List.length_cons,
          show tl.length + 1 = h'.toList.length by rw [htl]; rfl, Array.length_toList]
      obtain ⟨i1, i2⟩ := ih _ (by rw [hsz]; omega) (by rw [hsz]; omega)
      refine ⟨i1, i2.trans ?_⟩
      refine (heapLeaves_perm hperm).trans ?_
      have : heapLeaves ({ freq := a.freq + h'[0]!.freq, tree := Tree.node a.tree h'[0]!.tree } :: tl) =
          heapLeaves (a :: h'[0]! :: tl) := by
        simp [heapLeaves, leaves, List.flatMap_cons]
      rw [this, ← htl]
      exact heapLeaves_perm p1
    · rw [if_neg hgt]
      exact ⟨by omega, List.Perm.refl _⟩

/-! ### phase 2: the depth walk -/

theorem depths_fst (t : Tree) : ∀ d, (depths t d).map Prod.fst = leaves t := by
  induction t with
  | leaf s => intro d; rfl
  | node l r ihl ihr => intro d; simp only [depths, leaves, List.map_append, ihl, ihr]

theorem get_setIf (a : Array Nat) (i j v : Nat) :
    (a.setIfInBounds i v)[j]! = if j = i ∧ i < a.size then v else a[j]! := by
  rw [Array.getElem!_eq_getD, Array.getD_eq_getD_getElem?, Array.getElem?_setIfInBounds]
  by_cases h : i = j
  · subst h
    by_cases h2 : i < a.size
    · simp [h2]
    · simp [h2]
  · have : ¬ (j = i ∧ i < a.size) := by intro hh; exact h hh.1.symm
    rw [if_neg h, if_neg this, Array.getElem!_eq_getD, Array.getD_eq_getD_getElem?]

theorem setFold_spec : ∀ (ds : List (Nat × Nat)) (a : Array Nat), (ds.map Prod.fst).Nodup →
    (ds.foldl (fun a (p : Nat × Nat) => a.setIfInBounds p.1 (p.2 % 256)) a).size = a.size ∧
    (∀ p ∈ ds, p.1 < a.size → (ds.foldl (fun a (p : Nat × Nat) => a.setIfInBounds p.1 (p.2 % 256)) a)[p.1]! = p.2 % 256) ∧
    (∀ i, i ∉ ds.map Prod.fst → (ds.foldl (fun a (p : Nat × Nat) => a.setIfInBounds p.1 (p.2 % 256)) a)[i]! = a[i]!) := by
  intro ds
  induction ds with
  | nil => intro a _; exact ⟨rfl, fun p hp => absurd hp (by simp), fun i _ => rfl⟩
  | cons x ds ih =>
    intro a hnd
    rw [List.map_cons, List.nodup_cons] at hnd
    obtain ⟨i1, i2, i3⟩ := ih (a.setIfInBounds x.1 (x.2 % 256)) hnd.2
    rw [List.foldl_cons]
    refine ⟨by rw [i1, Array.size_setIfInBounds], ?_, ?_⟩
    · intro p hp hlt
      rcases List.mem_cons.mp hp with rfl | hp
      · rw [i3 _ hnd.1, get_setIf, if_pos ⟨rfl, hlt⟩]
      · exact i2 p hp (by rw [Array.size_setIfInBounds]; exact hlt)
    · intro i hi
      rw [List.map_cons, List.mem_cons, not_or] at hi
      rw [i3 i hi.2, get_setIf, if_neg (fun h => hi.1 h.1)]

theorem setLengths_eq (n : Nat) (ds : List (Nat × Nat)) :
    setLengths n ds = ds.foldl (fun a (p : Nat × Nat) => a.setIfInBounds p.1 (p.2 % 256)) (Array.replicate n 0) := rfl

/-! ### phase 1 + 2 together -/

/-- the used symbols, in increasing order -/
def usedIdx (freqs : List Nat) : List Nat :=
  ((List.range freqs.length).zip freqs).filterMap (fun (p : Nat × Nat) => if p.2 > 0 then some p.1 else none)

def itemsOf (freqs : List Nat) : List Item :=
  ((List.range freqs.length).zip freqs).filterMap (fun (p : Nat × Nat) =>
    if p.2 > 0 then some { freq := p.2, tree := .leaf p.1 } else none)

theorem items_leaves (l : List (Nat × Nat)) :
    heapLeaves (l.filterMap (fun (p : Nat × Nat) => if p.2 > 0 then some ({ freq := p.2, tree := .leaf p.1 } : Item) else none)) =
      l.filterMap (fun (p : Nat × Nat) => if p.2 > 0 then some p.1 else none) := by
  induction l with
  | nil => rfl
  | cons x l ih =>
    by_cases h : x.2 > 0
    · simp only [List.filterMap_cons, h, if_true]
      simp only [heapLeaves, List.flatMap_cons, leaves] at ih ⊢
      rw [ih]; rfl
    · simp only [List.filterMap_cons, h, if_false]
      exact ih

/-- **Phases 1-2**: with at least one used symbol the lengths are the leaf depths (mod 256) of a
    tree whose leaves are exactly the used symbols -/
theorem treeLengths_spec (freqs : List Nat) (h1 : 1 ≤ (itemsOf freqs).length) :
    ∃ t : Tree, (leaves t).Perm (usedIdx freqs) ∧ treeLengths freqs = setLengths freqs.length (depths t 0) := by
  unfold treeLengths
  simp only
  have hitems : (itemsOf freqs).toArray.size = (itemsOf freqs).length := by simp
  obtain ⟨m1, m2⟩ := mergeLoop_spec (itemsOf freqs).toArray.size (rebuild (itemsOf freqs).toArray)
    (by rw [← Array.length_toList, (rebuild_perm _).length_eq]; simpa using h1)
    (by rw [← Array.length_toList, (rebuild_perm _).length_eq]; simp)
  have hroot : ∃ root, (mergeLoop (rebuild (itemsOf freqs).toArray) (itemsOf freqs).toArray.size)[0]? = some root ∧
      (mergeLoop (rebuild (itemsOf freqs).toArray) (itemsOf freqs).toArray.size).toList = [root] := by
    generalize mergeLoop (rebuild (itemsOf freqs).toArray) (itemsOf freqs).toArray.size = hfin at m1
    match hq : hfin.toList, m1 with
    | [r], _ =>
      refine ⟨r, ?_, rfl⟩
      rw [← Array.getElem?_toList, hq]; rfl
    | [], hsz => rw [← Array.length_toList, hq] at hsz; simp at hsz
    | _ :: _ :: _, hsz => rw [← Array.length_toList, hq] at hsz; simp at hsz
  obtain ⟨root, hr1, hr2⟩ := hroot
  refine ⟨root.tree, ?_, ?_⟩
  · rw [hr2] at m2
    have e1 : heapLeaves [root] = leaves root.tree := by simp [heapLeaves]
    rw [e1] at m2
    refine m2.trans ((heapLeaves_perm (rebuild_perm _)).trans ?_)
    have : (itemsOf freqs).toArray.toList = itemsOf freqs := by simp
    rw [this]
    exact List.Perm.of_eq (items_leaves _)
  · show (match (mergeLoop (rebuild (itemsOf freqs).toArray) (itemsOf freqs).toArray.size)[0]? with
      | some root => setLengths freqs.length (depths root.tree 0)
      | none => Array.replicate freqs.length 0) = _
    rw [hr1]

/-! ### list algebra: used symbols, Kraft sums -/

theorem zip_range (l : List Nat) : (List.range l.length).zip l = (List.range l.length).map (fun i => (i, l[i]!)) := by
  apply List.ext_getElem
  · simp
  · intro i h1 h2
    simp at h1 h2 ⊢
    rw [List.getElem?_eq_getElem (by omega)]; rfl

theorem filterMap_ite (P : Nat → Prop) [DecidablePred P] (l : List Nat) :
    l.filterMap (fun x => if P x then some x else none) = l.filter (fun i => decide (P i)) := by
  induction l with
  | nil => rfl
  | cons x l ih =>
    by_cases h : P x
    · simp only [List.filterMap_cons, List.filter_cons, h, if_true, decide_true, ih]
    · simp only [List.filterMap_cons, List.filter_cons, h, if_false, decide_false, ih]
      rfl

theorem usedIdx_eq (freqs : List Nat) : usedIdx freqs = (List.range freqs.length).filter (fun i => freqs[i]! > 0) := by
  unfold usedIdx
  rw [zip_range, List.filterMap_map]
  exact filterMap_ite (fun i => freqs[i]! > 0) _

theorem usedIdx_nodup (freqs : List Nat) : (usedIdx freqs).Nodup := by
  rw [usedIdx_eq]; exact List.Nodup.sublist List.filter_sublist List.nodup_range

theorem mem_usedIdx (freqs : List Nat) (i : Nat) : i ∈ usedIdx freqs ↔ i < freqs.length ∧ freqs[i]! > 0 := by
  rw [usedIdx_eq]; simp

theorem itemsOf_length (freqs : List Nat) : (itemsOf freqs).length = (usedIdx freqs).length := by
  unfold itemsOf usedIdx
  induction (List.range freqs.length).zip freqs with
  | nil => rfl
  | cons x l ih =>
    by_cases h : x.2 > 0
    · simp only [List.filterMap_cons, h, if_true, List.length_cons, ih]
    · simp only [List.filterMap_cons, h, if_false, ih]

theorem leaves_pos (t : Tree) : 1 ≤ (leaves t).length := by
  induction t with
  | leaf s => simp [leaves]
  | node l r ihl _ => simp only [leaves, List.length_append]; omega

/-- leaf depths are bounded by the number of leaves -/
theorem depth_lt_leaves (t : Tree) : ∀ d0, ∀ p ∈ depths t d0, p.2 + 1 ≤ d0 + (leaves t).length := by
  induction t with
  | leaf s => intro d0 p hp; simp [depths] at hp; subst hp; simp [leaves]
  | node l r ihl ihr =>
    intro d0 p hp
    simp only [depths, List.mem_append] at hp
    have hl := leaves_pos l
    have hr := leaves_pos r
    simp only [leaves, List.length_append]
    rcases hp with hp | hp
    · have := ihl (d0 + 1) p hp; omega
    · have := ihr (d0 + 1) p hp; omega

theorem toList_range (a : Array Nat) : a.toList = (List.range a.size).map (fun i => a[i]!) := by
  apply List.ext_getElem
  · simp
  · intro i h1 h2
    simp at h1 h2 ⊢
    rw [getElem!_pos a i h1]

/-- what the lengths array holds, given a tree over the used symbols -/
structure LengthsOf (freqs : List Nat) (t : Tree) (lengths : Array Nat) : Prop where
  size : lengths.size = freqs.length
  used : ∀ p ∈ depths t 0, lengths[p.1]! = p.2
  unused : ∀ i, i ∉ usedIdx freqs → lengths[i]! = 0

theorem lengthsOf_tree (freqs : List Nat) (t : Tree) (hp : (leaves t).Perm (usedIdx freqs))
    (hdepth : ∀ p ∈ depths t 0, p.2 < 256) : LengthsOf freqs t (setLengths freqs.length (depths t 0)) := by
  have hnd : ((depths t 0).map Prod.fst).Nodup := by rw [depths_fst]; exact hp.nodup_iff.mpr (usedIdx_nodup freqs)
  obtain ⟨s1, s2, s3⟩ := setFold_spec (depths t 0) (Array.replicate freqs.length 0) hnd
  rw [← setLengths_eq] at s1 s2 s3
  refine ⟨by rw [s1, Array.size_replicate], ?_, ?_⟩
  · intro p hpm
    have hmem : p.1 ∈ usedIdx freqs := hp.mem_iff.mp (by rw [← depths_fst t 0]; exact List.mem_map_of_mem hpm)
    have hlt := ((mem_usedIdx freqs p.1).mp hmem).1
    rw [s2 p hpm (by rw [Array.size_replicate]; exact hlt)]
    exact Nat.mod_eq_of_lt (hdepth p hpm)
  · intro i hi
    rw [s3 i (by rw [depths_fst]; exact fun h => hi (hp.mem_iff.mp h))]
    by_cases hlt : i < freqs.length
    · simp [hlt]
    · rw [Array.getElem!_eq_getD, Array.getD_eq_getD_getElem?, Array.getElem?_eq_none (by rw [Array.size_replicate]; omega)]; rfl

theorem depths_ge_one (l r : Tree) : ∀ p ∈ depths (.node l r) 0, 1 ≤ p.2 := depths_pos l r

/-- the Kraft sum of the lengths array is the Kraft sum of the tree's leaf depths -/
theorem kraft_of_lengths (freqs : List Nat) (l r : Tree) (lengths : Array Nat) (L : Nat)
    (hp : (leaves (.node l r)).Perm (usedIdx freqs)) (hl : LengthsOf freqs (.node l r) lengths) :
    Prefix.kraft lengths.toList L = kraftOf (depths (.node l r) 0) L := by
  unfold Prefix.kraft kraftOf
  rw [foldl_add_sum (fun x => 2 ^ (L - x)), Nat.zero_add, toList_range, List.filter_map, List.map_map, hl.size]
  -- the non-zero entries are exactly the used symbols
  have hfilter : (List.range freqs.length).filter ((fun x => decide (x ≠ 0)) ∘ fun i => lengths[i]!) = usedIdx freqs := by
    rw [usedIdx_eq]
    apply List.filter_congr
    intro i hi
    simp only [Function.comp, decide_eq_decide]
    have hlt : i < freqs.length := List.mem_range.mp hi
    constructor
    · intro hne
      by_contra hnot
      exact hne (hl.unused i (fun hm => hnot ((mem_usedIdx freqs i).mp hm).2))
    · intro hpos
      have hm : i ∈ usedIdx freqs := (mem_usedIdx freqs i).mpr ⟨hlt, hpos⟩
      have hm2 : i ∈ (depths (.node l r) 0).map Prod.fst := by rw [depths_fst]; exact hp.mem_iff.mpr hm
      obtain ⟨p, hpm, hpi⟩ := List.mem_map.mp hm2
      have := hl.used p hpm
      rw [hpi] at this
      have := depths_ge_one l r p hpm
      omega
  rw [hfilter]
  have hperm : ((depths (.node l r) 0).map Prod.fst).Perm (usedIdx freqs) := by rw [depths_fst]; exact hp
  rw [← (hperm.map _).sum_nat, List.map_map]
  congr 1
  apply List.map_congr_left
  intro p hpm
  simp only [Function.comp]
  rw [hl.used p hpm]

/-! ### `build` when no limiting is needed -/

theorem used_count_aux : ∀ l : List (Nat × Nat),
    (l.filterMap (fun (p : Nat × Nat) => if p.2 > 0 then some p.1 else none)).length = ((l.map Prod.snd).filter (· > 0)).length := by
  intro l
  induction l with
  | nil => rfl
  | cons x l ih =>
    by_cases h : x.2 > 0
    · simp only [List.filterMap_cons, h, if_true, List.length_cons, ih, List.map_cons, List.filter_cons, decide_true]
    · simp only [List.filterMap_cons, h, if_false, ih, List.map_cons, List.filter_cons, decide_false]
      rfl

theorem used_count (freqs : List Nat) : (usedIdx freqs).length = (freqs.filter (· > 0)).length := by
  unfold usedIdx
  rw [used_count_aux, List.map_snd_zip (by simp)]

theorem foldl_max_ge (l : List Nat) : ∀ (a x : Nat), (x ∈ l ∨ x ≤ a) → x ≤ l.foldl max a := by
  induction l with
  | nil => intro a x h; rcases h with h | h; exact absurd h (by simp); exact h
  | cons y l ih =>
    intro a x h
    rw [List.foldl_cons]
    apply ih
    rcases h with h | h
    · rcases List.mem_cons.mp h with rfl | h
      · right; exact Nat.le_max_right _ _
      · left; exact h
    · right; exact Nat.le_trans h (Nat.le_max_left _ _)

theorem array_foldl_max_ge (a : Array Nat) (x : Nat) (hx : x ∈ a.toList) : x ≤ a.foldl max 0 := by
  rw [← Array.foldl_toList]; exact foldl_max_ge _ _ _ (Or.inl hx)

/-- **`build` without limiting**: when the Huffman tree is no deeper than the limit, the result is
    a complete canonical code over exactly the used symbols -/
theorem build_unlimited (freqs : List Nat) (limit : Nat) (hlim : limit ≤ 16)
    (h2 : 2 ≤ (freqs.filter (· > 0)).length)
    (t : Tree) (hperm : (leaves t).Perm (usedIdx freqs)) (hlen : treeLengths freqs = setLengths freqs.length (depths t 0))
    (hdepth : ∀ p ∈ depths t 0, p.2 < 256)
    (hmax : (treeLengths freqs).foldl max 0 ≤ limit) :
    ∃ lengths codes, build freqs limit = .built lengths codes ∧ lengths.size = freqs.length ∧
      (∀ i, i < freqs.length → (freqs[i]! = 0 → lengths[i]! = 0) ∧ (freqs[i]! > 0 → 1 ≤ lengths[i]! ∧ lengths[i]! ≤ limit)) ∧
      Prefix.kraft lengths.toList limit = 2 ^ limit ∧
      (∀ i, i < freqs.length → lengths[i]! ≠ 0 →
        some codes[i]! = (Prefix.canonicalCode lengths.toList i).map fun c => Prefix.reverseBits c lengths[i]!) := by
  have hcnt := used_count freqs
  -- at least two leaves: the tree is a node
  obtain ⟨l, r, rfl⟩ : ∃ l r, t = .node l r := by
    cases t with
    | leaf s => have := hperm.length_eq; simp [leaves] at this; omega
    | node l r => exact ⟨l, r, rfl⟩
  have hL := lengthsOf_tree freqs (.node l r) hperm hdepth
  rw [← hlen] at hL
  have hall : ∀ x ∈ (treeLengths freqs).toList, x ≤ limit := fun x hx => Nat.le_trans (array_foldl_max_ge _ x hx) hmax
  have hentry : ∀ i, i < freqs.length → (treeLengths freqs)[i]! ≤ limit := by
    intro i hi
    apply hall
    rw [toList_range]
    exact List.mem_map.mpr ⟨i, List.mem_range.mpr (by rw [hL.size]; exact hi), rfl⟩
  have hdepth : ∀ p ∈ depths (.node l r) 0, p.2 ≤ limit := by
    intro p hp
    rw [← hL.used p hp]
    have hm : p.1 ∈ usedIdx freqs := hperm.mem_iff.mp (by rw [← depths_fst (.node l r) 0]; exact List.mem_map_of_mem hp)
    exact hentry _ ((mem_usedIdx freqs p.1).mp hm).1
  have hkraft : Prefix.kraft (treeLengths freqs).toList limit = 2 ^ limit := by
    rw [kraft_of_lengths freqs l r _ limit hperm hL, depths_kraft (.node l r) 0 limit hdepth]; rfl
  have hlimit : limitLengths freqs (treeLengths freqs) limit = some (treeLengths freqs) := by
    unfold limitLengths; simp only; rw [if_neg (by omega)]
  have hfinal := final_eq_kraft (treeLengths freqs) limit hall
  refine ⟨treeLengths freqs, (assignCodes (treeLengths freqs) limit).1, ?_, hL.size, ?_, hkraft, ?_⟩
  · unfold build
    rw [if_neg (by omega), hlimit]
    simp only
    rw [if_neg (by rw [hfinal, hkraft]; simp)]
  · intro i hi
    constructor
    · intro h0
      exact hL.unused i (fun hm => by have := ((mem_usedIdx freqs i).mp hm).2; omega)
    · intro hpos
      have hm : i ∈ usedIdx freqs := (mem_usedIdx freqs i).mpr ⟨hi, hpos⟩
      have hm2 : i ∈ (depths (.node l r) 0).map Prod.fst := by rw [depths_fst]; exact hperm.mem_iff.mpr hm
      obtain ⟨p, hpm, hpi⟩ := List.mem_map.mp hm2
      have h1 := hL.used p hpm
      rw [hpi] at h1
      have h2 := depths_pos l r p hpm
      exact ⟨by omega, hentry i hi⟩
  · intro i hi hne
    exact assign_canonical (treeLengths freqs) limit hlim hall (by rw [hkraft]) i (by rw [hL.size]; exact hi) hne

end EncHuff
