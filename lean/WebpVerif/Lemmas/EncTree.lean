import WebpVerif.Spec.CodeLengths
import WebpVerif.Model.Enc
import WebpVerif.Lemmas.HuffShort
import WebpVerif.Lemmas.EncHuffDepth

/-!
What `write_huffman_tree` serialises is read back by the specification (`Prefix.readCodeL`) as
exactly the code lengths the pixels are coded with.  Part 1: bits of fields, the code-length-code
lengths, padding a length vector with unused symbols.
-/
namespace EncTree
open Prefix

/-- the bits of a field list in stream order -/
def fieldBits (ws : List (Nat × Nat)) : List Nat := ws.flatMap fun x => lsbBits x.1 x.2

theorem fieldBits_cons (v n : Nat) (ws : List (Nat × Nat)) : fieldBits ((v, n) :: ws) = lsbBits v n ++ fieldBits ws := by
  simp [fieldBits]

theorem fieldBits_append (a b : List (Nat × Nat)) : fieldBits (a ++ b) = fieldBits a ++ fieldBits b := by
  simp [fieldBits]

theorem lsbBits_head (v n : Nat) : lsbBits v (n + 1) = (v % 2) :: lsbBits (v / 2) n := by
  unfold lsbBits
  rw [List.range_succ_eq_map, List.map_cons, List.map_map]
  simp only [Nat.pow_zero, Nat.div_one]
  congr 1
  apply List.map_congr_left
  intro k _
  simp only [Function.comp, Nat.pow_succ]
  rw [Nat.mul_comm, Nat.div_div_eq_div_mul]

theorem bitsVal_lsbBits : ∀ (n v : Nat), bitsVal (lsbBits v n) = v % 2 ^ n := by
  intro n
  induction n with
  | zero => intro v; simp [lsbBits, bitsVal, Nat.mod_one]
  | succ n ih =>
    intro v
    rw [lsbBits_head, bitsVal, ih, Nat.pow_succ]
    have h1 := Nat.div_add_mod v 2
    have h2 := Nat.div_add_mod (v / 2) (2 ^ n)
    have h3 : v % (2 ^ n * 2) = v % 2 + 2 * (v / 2 % 2 ^ n) := by
      rw [Nat.mul_comm (2 ^ n) 2, Nat.mod_mul]
    omega

theorem readBitsL_field (v n : Nat) (rest : List Nat) (h : v < 2 ^ n) :
    readBitsL n (lsbBits v n ++ rest) = some (v, rest) := by
  unfold readBitsL
  have hl : (lsbBits v n).length = n := by simp [lsbBits]
  rw [if_neg (by rw [List.length_append, hl]; omega), List.take_left' hl, List.drop_left' hl, bitsVal_lsbBits,
    Nat.mod_eq_of_lt h]

/-- the code-length-code lengths, written in the order of `kCodeLengthCodeOrder` -/
theorem readClLens_fields : ∀ (order vals : List Nat) (cl rest : List Nat), order.length = vals.length → (∀ v ∈ vals, v < 8) →
    readClLens order cl (fieldBits (vals.map fun v => (v, 3)) ++ rest) =
      some ((order.zip vals).foldl (fun c p => c.set p.1 p.2) cl, rest) := by
  intro order
  induction order with
  | nil => intro vals cl rest h _; cases vals with
    | nil => rfl
    | cons _ _ => simp at h
  | cons pos order ih =>
    intro vals cl rest h hv
    cases vals with
    | nil => simp at h
    | cons v vals =>
      rw [List.map_cons, fieldBits_cons, List.append_assoc, readClLens,
        readBitsL_field v 3 _ (by have := hv v List.mem_cons_self; omega)]
      simp only
      rw [ih vals _ rest (by simpa using h) (fun x hx => hv x (List.mem_cons_of_mem _ hx))]
      rfl

/-! ### unused symbols appended to a length vector change nothing -/

theorem blCount_append_zeros (ls : List Nat) (k len : Nat) (h : len ≠ 0) :
    blCount (ls ++ List.replicate k 0) len = blCount ls len := by
  unfold blCount
  rw [List.filter_append, List.length_append]
  have : (List.replicate k 0).filter (· == len) = [] := by
    rw [List.filter_eq_nil_iff]
    intro x hx
    rw [List.mem_replicate] at hx
    simp [hx.2]; omega
  rw [this]; rfl

theorem nextCode_append_zeros (ls : List Nat) (k : Nat) : ∀ len, nextCode (ls ++ List.replicate k 0) len = nextCode ls len := by
  intro len
  induction len with
  | zero => rfl
  | succ len ih =>
    show (nextCode _ len + (if len = 0 then 0 else blCount _ len)) * 2 = (nextCode ls len + (if len = 0 then 0 else blCount ls len)) * 2
    rw [ih]
    by_cases h : len = 0
    · rw [if_pos h, if_pos h]
    · rw [if_neg h, if_neg h, blCount_append_zeros ls k len h]

theorem canonical_append_zeros (ls : List Nat) (k s : Nat) :
    canonicalCode (ls ++ List.replicate k 0) s = if s < ls.length then canonicalCode ls s else none := by
  unfold canonicalCode
  by_cases hs : s < ls.length
  · rw [if_pos hs, List.getElem?_append_left hs, List.getElem?_eq_getElem hs]
    cases hl : ls[s] with
    | zero => rfl
    | succ m =>
      simp only
      rw [nextCode_append_zeros, List.take_append_of_le_length (by omega)]
  · rw [if_neg hs]
    by_cases hs2 : s < ls.length + k
    · rw [List.getElem?_append_right (by omega), List.getElem?_replicate]
      simp [show s - ls.length < k by omega]
    · rw [List.getElem?_eq_none (by rw [List.length_append, List.length_replicate]; omega)]

theorem findSym_extend (p : Nat → Bool) (n : Nat) : ∀ k, (∀ t, n ≤ t → t < n + k → p t = false) →
    findSym p (n + k) = findSym p n := by
  intro k
  induction k with
  | zero => intro _; rfl
  | succ k ih =>
    intro h
    rw [← Nat.add_assoc, findSym, ih (fun t h1 h2 => h t h1 (by omega)), h (n + k) (by omega) (by omega)]
    cases findSym p n <;> rfl

theorem symbolOf_append_zeros (ls : List Nat) (k len code : Nat) :
    symbolOf (ls ++ List.replicate k 0) (len + 1) code = symbolOf ls (len + 1) code := by
  unfold symbolOf
  rw [List.length_append, List.length_replicate, findSym_extend _ _ k]
  · apply findSym_congr
    intro t ht
    rw [canonical_append_zeros, if_pos ht, List.getD_eq_getElem?_getD, List.getD_eq_getElem?_getD,
      List.getElem?_append_left ht]
  · intro t h1 h2
    rw [List.getD_eq_getElem?_getD, List.getElem?_append_right h1, List.getElem?_replicate]
    simp [show t - ls.length < k by omega]

theorem decodeSym_append_zeros (ls : List Nat) (k : Nat) : ∀ (fuel len code : Nat) (bits : List Nat),
    decodeSym (ls ++ List.replicate k 0) fuel len code bits = decodeSym ls fuel len code bits := by
  intro fuel
  induction fuel with
  | zero => intro _ _ _; rfl
  | succ fuel ih =>
    intro len code bits
    cases bits with
    | nil => rfl
    | cons b rest =>
      rw [decodeSym, decodeSym, symbolOf_append_zeros]
      cases symbolOf ls (len + 1) (2 * code + b) with
      | some s => rfl
      | none => exact ih _ _ _

theorem filter_append_zeros (ls : List Nat) (k : Nat) :
    (ls ++ List.replicate k 0).filter (· ≠ 0) = ls.filter (· ≠ 0) := by
  rw [List.filter_append]
  have : (List.replicate k 0).filter (· ≠ 0) = [] := by
    rw [List.filter_eq_nil_iff]
    intro x hx
    rw [List.mem_replicate] at hx
    simp [hx.2]
  rw [this, List.append_nil]

theorem kraft_append_zeros (ls : List Nat) (k L : Nat) : kraft (ls ++ List.replicate k 0) L = kraft ls L := by
  unfold kraft; rw [filter_append_zeros]

/-! ### Part 2: what `write_huffman_tree` writes -/
open EncHuff

/-- `code_length_lengths`' histogram: how many symbols have each code length -/
def clFreqOf (lengths : List Nat) : List Nat := (List.range 16).map fun l => (lengths.filter (· == l)).length

def clOf (lengths : List Nat) : Bool × Array Nat × Array Nat :=
  match build (clFreqOf lengths) 7 with
  | .built l c => (false, l, c)
  | _ => (true, Array.replicate 16 0, Array.replicate 16 0)

def gField (clFreq : List Nat) (single : Bool) (clLen : Array Nat) (i : Nat) : Nat :=
  if i > 15 ∨ clFreq.getD i 0 = 0 then 0 else if single then 1 else clLen[i]!

/-- the fields `write_huffman_tree` writes for a normal (non single-symbol) code of an alphabet of
    `n` symbols (`Enc.writeHuffmanTree`, the `.built` arm) -/
def treeFields (n : Nat) (lengths : List Nat) : List (Nat × Nat) :=
  [(0, 1), (15, 4)] ++ Enc.codeLengthOrder.map (fun i => (gField (clFreqOf lengths) (clOf lengths).1 (clOf lengths).2.1 i, 3)) ++
  (if n = 256 then [(1, 1), (3, 3), (254, 8)] else [(0, 1)]) ++
  (if (clOf lengths).1 then [] else lengths.map fun len => ((clOf lengths).2.2[len]!, (clOf lengths).2.1[len]!))

theorem order_eq : Enc.codeLengthOrder = clOrder := by decide

theorem cl_vector (g : Nat → Nat) :
    (clOrder.zip (clOrder.map g)).foldl (fun c p => c.set p.1 p.2) (List.replicate 19 0) = (List.range 19).map g := by
  have h : clOrder = [17, 18, 0, 1, 2, 3, 4, 5, 16, 6, 7, 8, 9, 10, 11, 12, 13, 14, 15] := by decide
  rw [h]
  simp [List.range, List.range.loop, List.replicate, List.set]

/-- the symbol loop on literal code-length symbols -/
theorem readLens_literals (alphabet : Nat) (cl lengths : List Nat) (C L : Nat → Nat)
    (hdec : ∀ len ∈ lengths, ∀ rest, decodeSymbol cl (lsbBits (C len) (L len) ++ rest) = some (len, rest))
    (hlt : ∀ len ∈ lengths, len < 16) (hlen : lengths.length = alphabet) :
    ∀ (remaining lens : List Nat) (tokens prev fuel : Nat) (rest : List Nat), lens ++ remaining = lengths →
      remaining.length ≤ tokens → remaining.length < fuel →
      readLens alphabet cl tokens prev fuel lens (fieldBits (remaining.map fun len => (C len, L len)) ++ rest) =
        some (lengths, rest) := by
  intro remaining
  induction remaining with
  | nil =>
    intro lens tokens prev fuel rest h _ _
    rw [List.append_nil] at h
    subst h
    cases tokens with
    | zero => simp [readLens, fieldBits, hlen]
    | succ t => simp [readLens, fieldBits, hlen]
  | cons len rem ih =>
    intro lens tokens prev fuel rest h ht hf
    obtain ⟨t, rfl⟩ : ∃ t, tokens = t + 1 := ⟨tokens - 1, by simp at ht; omega⟩
    obtain ⟨f, rfl⟩ : ∃ f, fuel = f + 1 := ⟨fuel - 1, by simp at hf; omega⟩
    have hmem : len ∈ lengths := by rw [← h]; simp
    have hll : lens.length < alphabet := by
      rw [← hlen, ← h, List.length_append, List.length_cons]; omega
    rw [readLens, if_neg (by omega)]
    simp only
    rw [List.map_cons, fieldBits_cons, List.append_assoc, hdec len hmem]
    simp only
    rw [if_pos (hlt len hmem)]
    exact ih (lens ++ [len]) t _ f rest (by rw [List.append_assoc]; exact h) (by simp at ht; omega) (by simp at hf; omega)

theorem sum_le_bound (B : Nat) : ∀ l : List Nat, (∀ x ∈ l, x ≤ B) → l.sum ≤ l.length * B := by
  intro l
  induction l with
  | nil => intro _; simp
  | cons a l ih =>
    intro h
    have := ih (fun x hx => h x (List.mem_cons_of_mem _ hx))
    have ha := h a List.mem_cons_self
    simp only [List.sum_cons, List.length_cons, Nat.succ_mul]
    omega

theorem used_corr : ∀ (a b : List Nat), a.length = b.length → (∀ i (h1 : i < a.length) (h2 : i < b.length), a[i] ≠ 0 ↔ b[i] > 0) →
    (a.filter (· ≠ 0)).length = (b.filter (· > 0)).length := by
  intro a
  induction a with
  | nil => intro b h _; cases b with
    | nil => rfl
    | cons _ _ => simp at h
  | cons x a ih =>
    intro b h hc
    cases b with
    | nil => simp at h
    | cons y b =>
      have h0 := hc 0 (by simp) (by simp)
      simp only [List.getElem_cons_zero] at h0
      have ht := ih b (by simpa using h) (fun i h1 h2 => by
        have := hc (i + 1) (by simp; omega) (by simp; omega)
        simpa using this)
      by_cases hx : x ≠ 0
      · have hy : y > 0 := h0.mp hx
        rw [List.filter_cons_of_pos (by simpa using hx), List.filter_cons_of_pos (by simpa using hy),
          List.length_cons, List.length_cons, ht]
      · have hy : ¬ y > 0 := fun hy => hx (h0.mpr hy)
        rw [List.filter_cons_of_neg (by simpa using hx), List.filter_cons_of_neg (by simpa using hy), ht]

theorem kk_above (ls : List Nat) (L : Nat) (hall : ∀ l ∈ ls, l ≤ L) : ∀ d, kk ls (L + d) = kk ls L * 2 ^ d := by
  intro d
  induction d with
  | zero => simp
  | succ d ih =>
    rw [← Nat.add_assoc, kk_succ, ih, Huff.blCount_zero_above ls L _ hall (by omega), Nat.pow_succ]
    ring

theorem count_pos_of_mem (lengths : List Nat) (len : Nat) (h : len ∈ lengths) (h15 : len ≤ 15) :
    (clFreqOf lengths).getD len 0 > 0 := by
  unfold clFreqOf
  rw [List.getD_eq_getElem?_getD, List.getElem?_map, List.getElem?_range (by omega)]
  simp only [Option.map_some, Option.getD_some]
  apply List.length_pos_of_mem (a := len)
  rw [List.mem_filter]
  exact ⟨h, by simp⟩

set_option maxHeartbeats 1000000 in
/-- stepping the reader over the fields of a normal code -/
theorem run_reader (n : Nat) (lengths : List Nat) (hn : lengths.length = n) (hv : validLengths lengths = true)
    (clLen clCode : Array Nat) (hcl : clOf lengths = (false, clLen, clCode))
    (hvec : (List.range 19).map (gField (clFreqOf lengths) false clLen) = clLen.toList ++ List.replicate 3 0)
    (hvcl : validLengths (clLen.toList ++ List.replicate 3 0) = true)
    (hall7 : ∀ l ∈ clLen.toList, l ≤ 7) (hsz : clLen.size = 16)
    (hdec : ∀ len ∈ lengths, ∀ rest', decodeSymbol (clLen.toList ++ List.replicate 3 0)
      (lsbBits clCode[len]! clLen[len]! ++ rest') = some (len, rest'))
    (h15 : ∀ l ∈ lengths, l ≤ 15) (rest : List Nat) :
    readCodeL n (fieldBits (treeFields n lengths) ++ rest) = some (lengths, rest) := by
  unfold treeFields
  rw [hcl]
  simp only [Bool.false_eq_true, if_false]
  rw [fieldBits_append, fieldBits_append, fieldBits_append, fieldBits_cons, fieldBits_cons]
  simp only [List.append_assoc]
  unfold readCodeL
  rw [readBitsL_field 0 1 _ (by decide)]
  simp only [Nat.zero_ne_one, if_false]
  rw [readBitsL_field 15 4 _ (by decide)]
  simp only
  have htake : clOrder.take (4 + 15) = clOrder := by decide
  rw [htake, order_eq]
  have hmap : (clOrder.map fun i => (gField (clFreqOf lengths) false clLen i, 3)) =
      (clOrder.map (gField (clFreqOf lengths) false clLen)).map fun v => (v, 3) := by rw [List.map_map]; rfl
  rw [show fieldBits [] = [] from rfl, List.nil_append, hmap, readClLens_fields clOrder _ _ _ (by simp)
    (by
      intro v hv'
      obtain ⟨i, _, rfl⟩ := List.mem_map.mp hv'
      unfold gField
      split
      · omega
      · simp only [Bool.false_eq_true, if_false]
        by_cases hi : i < 16
        · have := hall7 clLen[i]! (by
            rw [Array.getElem!_eq_getD, Array.getD_eq_getD_getElem?, ← Array.getElem?_toList,
              List.getElem?_eq_getElem (by simpa [hsz] using hi)]
            exact List.getElem_mem _)
          omega
        · omega)]
  simp only
  rw [cl_vector, hvec, hvcl]
  simp only [Bool.not_true, Bool.false_eq_true, if_false]
  by_cases h256 : n = 256
  · rw [if_pos h256, fieldBits_cons, fieldBits_cons, fieldBits_cons]
    simp only [List.append_assoc]
    rw [readBitsL_field 1 1 _ (by decide)]
    simp only [if_true]
    rw [readBitsL_field 3 3 _ (by decide)]
    simp only
    rw [show 2 + 2 * 3 = 8 by rfl, readBitsL_field 254 8 _ (by decide)]
    simp only
    rw [if_neg (by omega), show fieldBits [] = [] from rfl, List.nil_append, show 2 + 254 = n by omega]
    dsimp only
    rw [readLens_literals n _ lengths (fun len => clCode[len]!) (fun len => clLen[len]!) hdec
      (fun len hl => by have := h15 len hl; omega) hn lengths [] n 8 (n + 1) rest rfl (by omega) (by omega)]
    simp only [hv, if_true]
  · rw [if_neg h256, fieldBits_cons]
    simp only [List.append_assoc]
    rw [readBitsL_field 0 1 _ (by decide)]
    simp only [Nat.zero_ne_one, if_false]
    rw [show fieldBits [] = [] from rfl, List.nil_append]
    rw [readLens_literals n _ lengths (fun len => clCode[len]!) (fun len => clLen[len]!) hdec
      (fun len hl => by have := h15 len hl; omega) hn lengths [] n 8 (n + 1) rest rfl (by omega) (by omega)]
    simp only [hv, if_true]

/-- **A normal code (two or more distinct code lengths) parses back** -/
theorem parse_back_normal (n : Nat) (lengths : List Nat) (hn : lengths.length = n) (hn1 : n ≤ 5000)
    (h15 : ∀ l ∈ lengths, l ≤ 15) (hv : validLengths lengths = true)
    (h2 : 2 ≤ ((clFreqOf lengths).filter (· > 0)).length) (rest : List Nat) :
    readCodeL n (fieldBits (treeFields n lengths) ++ rest) = some (lengths, rest) := by
  have hflen : (clFreqOf lengths).length = 16 := by simp [clFreqOf]
  have hfb : ∀ x ∈ clFreqOf lengths, x ≤ 5000 := by
    intro x hx
    unfold clFreqOf at hx
    obtain ⟨l, _, rfl⟩ := List.mem_map.mp hx
    exact Nat.le_trans (List.length_filter_le _ _) (by omega)
  have hsum : (clFreqOf lengths).sum < 2 ^ 32 := by
    have := sum_le_bound 5000 (clFreqOf lengths) hfb
    rw [hflen] at this
    omega
  obtain ⟨clLen, clCode, hb, hsz, hrange, hkraft, hcanon⟩ :=
    build_full_all (clFreqOf lengths) 7 (by decide) (by decide) h2 hsum (by rw [hflen]; decide)
  rw [hflen] at hsz hrange hcanon
  have hcl : clOf lengths = (false, clLen, clCode) := by unfold clOf; rw [hb]
  -- the code-length code as the decoder sees it
  have hall7 : ∀ l ∈ clLen.toList, l ≤ 7 := by
    intro l hl
    obtain ⟨i, hi, rfl⟩ := List.mem_iff_getElem.mp hl
    have hi' : i < 16 := by simpa [hsz] using hi
    have := hrange i hi'
    have e : clLen.toList[i] = clLen[i]! := by
      rw [Array.getElem!_eq_getD, Array.getD_eq_getD_getElem?, ← Array.getElem?_toList, List.getElem?_eq_getElem hi]; rfl
    rw [e]
    by_cases hz : (clFreqOf lengths)[i]! = 0
    · rw [this.1 hz]; omega
    · exact (this.2 (by omega)).2
  have hget : ∀ i, i < 16 → clLen.toList.getD i 0 = clLen[i]! := by
    intro i hi
    rw [List.getD_eq_getElem?_getD, Array.getElem!_eq_getD, Array.getD_eq_getD_getElem?, Array.getElem?_toList]
    rfl
  have hvec : (List.range 19).map (gField (clFreqOf lengths) false clLen) = clLen.toList ++ List.replicate 3 0 := by
    apply List.ext_getElem
    · simp [hsz]
    · intro i h1 h2
      have hi : i < 19 := by simpa using h1
      rw [List.getElem_map, List.getElem_range]
      unfold gField
      by_cases hi16 : i < 16
      · rw [List.getElem_append_left (by simpa [hsz] using hi16)]
        have e : clLen.toList[i]'(by simpa [hsz] using hi16) = clLen[i]! := by
          rw [Array.getElem!_eq_getD, Array.getD_eq_getD_getElem?, ← Array.getElem?_toList,
            List.getElem?_eq_getElem (by simpa [hsz] using hi16)]; rfl
        rw [e]
        have hfi : (clFreqOf lengths).getD i 0 = (clFreqOf lengths)[i]! := by
          rw [List.getD_eq_getElem?_getD, List.getElem!_eq_getElem?_getD]
          rfl
        by_cases hz : (clFreqOf lengths)[i]! = 0
        · rw [if_pos (Or.inr (by rw [hfi]; exact hz)), (hrange i hi16).1 hz]
        · rw [if_neg (by rw [hfi]; omega)]
          simp
      · rw [if_pos (Or.inl (by omega)), List.getElem_append_right (by simp [hsz]; omega), List.getElem_replicate]
  have hused : (clLen.toList.filter (· ≠ 0)).length = ((clFreqOf lengths).filter (· > 0)).length := by
    apply used_corr _ _ (by simp [hsz, hflen])
    intro i h1 h2
    have hi : i < 16 := by simpa [hsz] using h1
    have e : clLen.toList[i] = clLen[i]! := by
      rw [Array.getElem!_eq_getD, Array.getD_eq_getD_getElem?, ← Array.getElem?_toList, List.getElem?_eq_getElem h1]; rfl
    have e2 : (clFreqOf lengths)[i]! = (clFreqOf lengths)[i] := by
      rw [List.getElem!_eq_getElem?_getD, List.getElem?_eq_getElem h2]; rfl
    have hrel : clLen[i]! ≠ 0 ↔ (clFreqOf lengths)[i]! > 0 := by
      have := hrange i hi
      constructor
      · intro hne
        by_cases hz : (clFreqOf lengths)[i]! = 0
        · exact absurd (this.1 hz) hne
        · omega
      · intro hpos
        have := (this.2 hpos).1
        omega
    rw [e2] at hrel
    rw [e]
    exact hrel
  have hk15 : kraft clLen.toList 15 = 2 ^ 15 := by
    have hall15 : ∀ l ∈ clLen.toList, l ≤ 15 := fun l hl => by have := hall7 l hl; omega
    rw [kraft_kk _ _ hall15, show 15 = 7 + 8 by rfl, kk_above _ _ hall7, ← kraft_kk _ _ hall7, hkraft]
    decide
  have hvcl : validLengths (clLen.toList ++ List.replicate 3 0) = true := by
    unfold validLengths
    rw [filter_append_zeros, kraft_append_zeros, hk15, hused]
    have a1 : (clLen.toList ++ List.replicate 3 0).all (· ≤ 15) = true := by
      rw [List.all_eq_true]
      intro l hl
      rcases List.mem_append.mp hl with h | h
      · have := hall7 l h; simp; omega
      · rw [List.mem_replicate] at h; simp [h.2]
    have a2 : (((clFreqOf lengths).filter (· > 0)).length == 1) = false := by rw [beq_eq_false_iff_ne]; omega
    have a3 : decide (((clFreqOf lengths).filter (· > 0)).length ≥ 2) = true := decide_eq_true h2
    rw [a1, a2, a3]; rfl
  have hvclLen : validLengths clLen.toList = true := by
    unfold validLengths
    rw [hk15, hused]
    have a1 : clLen.toList.all (· ≤ 15) = true := by
      rw [List.all_eq_true]; intro l hl; have := hall7 l hl; simp; omega
    have a2 : (((clFreqOf lengths).filter (· > 0)).length == 1) = false := by rw [beq_eq_false_iff_ne]; omega
    have a3 : decide (((clFreqOf lengths).filter (· > 0)).length ≥ 2) = true := decide_eq_true h2
    rw [a1, a2, a3]; rfl
  -- every code-length symbol that is written is read back
  have hdec : ∀ len ∈ lengths, ∀ rest', decodeSymbol (clLen.toList ++ List.replicate 3 0)
      (lsbBits clCode[len]! clLen[len]! ++ rest') = some (len, rest') := by
    intro len hlen rest'
    have hl15 := h15 len hlen
    have hpos := count_pos_of_mem lengths len hlen hl15
    have hpos' : (clFreqOf lengths)[len]! > 0 := by
      rw [List.getElem!_eq_getElem?_getD, ← List.getD_eq_getElem?_getD]; exact hpos
    have hr := (hrange len (by omega)).2 hpos'
    have hc := hcanon len (by omega) (by omega)
    unfold decodeSymbol
    rw [filter_append_zeros, if_neg (by rw [hused]; omega), decodeSym_append_zeros]
    cases hcc : canonicalCode clLen.toList len with
    | none => rw [hcc] at hc; cases hc
    | some c =>
      rw [hcc, Option.map_some] at hc
      have hcode : clCode[len]! = reverseBits c clLen[len]! := Option.some.inj hc
      -- the word fits its length: the code is complete
      have hlen16 : clLen.toList.length ≤ 5000 := by simp [hsz]
      have hall15 : ∀ l ∈ clLen.toList, l ≤ 15 := fun l hl => by have := hall7 l hl; omega
      rcases Huff.build_total clLen.toList hall15 hlen16 hvclLen with ⟨t, ht⟩ | ⟨s', hs'⟩
      · obtain ⟨_, _, L, hL1, hL15, hmax, hend⟩ := Huff.build_good clLen.toList hall15 hlen16 t ht
        have hgd := hget len (by omega)
        have hfit := Huff.code_fits clLen.toList L hend len c hcc (by rw [hgd]; exact hmax _ (by
          rw [← hgd]; exact Huff.getD_mem _ _ (by simp [hsz]; omega)))
        rw [hcode, lsb_reverse_eq_msb, ← hgd]
        exact decodeSym_canonical clLen.toList len c 15 hcc hfit (by rw [hgd]; omega) rest'
      · -- a single-symbol tree is impossible with two used lengths
        exfalso
        have := (Huff.build_single_spec clLen.toList hall15 s' hs').1
        unfold Huff.build at hs'
        simp only at hs'
        rw [if_neg (by rw [hused]; omega), if_neg (by rw [hused]; omega)] at hs'
        split at hs'
        · cases hs'
        · split at hs' <;> cases hs'
  exact run_reader n lengths hn hv clLen clCode hcl hvec hvcl hall7 hsz hdec h15 rest

/-! ### Part 3: all symbols have the same length (the code-length code has one symbol, zero bits) -/

theorem two_positive (l : List Nat) (a b : Nat) (hab : a < b) (hb : b < l.length) (ha0 : l[a]'(by omega) > 0) (hb0 : l[b] > 0) :
    2 ≤ (l.filter (· > 0)).length := by
  have hsplit : l = l.take b ++ l[b] :: l.drop (b + 1) := by
    rw [List.getElem_cons_drop, List.take_append_drop]
  rw [hsplit, List.filter_append, List.length_append, List.filter_cons_of_pos (by simpa using hb0), List.length_cons]
  have : 1 ≤ ((l.take b).filter (· > 0)).length := by
    apply List.length_pos_of_mem (a := l[a]'(by omega))
    rw [List.mem_filter]
    refine ⟨?_, by simpa using ha0⟩
    rw [List.mem_take_iff_getElem]
    exact ⟨a, by omega, rfl⟩
  omega

theorem readLens_const (n v : Nat) (cl : List Nat) (hv : v < 16) (hdec : ∀ bits, decodeSymbol cl bits = some (v, bits)) (bits : List Nat) :
    ∀ (k tokens prev fuel : Nat), k ≤ n → n - k ≤ tokens → n - k < fuel →
      readLens n cl tokens prev fuel (List.replicate k v) bits = some (List.replicate n v, bits) := by
  intro k
  induction hm : n - k generalizing k with
  | zero =>
    intro tokens prev fuel hk _ _
    have hkn : k = n := by omega
    subst hkn
    cases tokens with
    | zero => simp [readLens]
    | succ t => simp [readLens]
  | succ m ih =>
    intro tokens prev fuel hk ht hf
    obtain ⟨t, rfl⟩ : ∃ t, tokens = t + 1 := ⟨tokens - 1, by omega⟩
    obtain ⟨f, rfl⟩ : ∃ f, fuel = f + 1 := ⟨fuel - 1, by omega⟩
    rw [readLens, if_neg (by rw [List.length_replicate]; omega)]
    simp only
    rw [hdec]
    simp only
    rw [if_pos hv, show List.replicate k v ++ [v] = List.replicate (k + 1) v by rw [List.replicate_succ']]
    exact ih (k + 1) (by omega) t _ f (by omega) (by omega) (by omega)

theorem one_hot : ∀ v, v < 16 → (((List.replicate 19 0).set v 1).filter (· ≠ 0)).length = 1 ∧
    ((List.replicate 19 0).set v 1).findIdx (· ≠ 0) = v ∧ ((List.replicate 19 0).set v 1).all (· ≤ 15) = true := by
  decide

set_option maxHeartbeats 1000000 in
/-- **A code whose symbols all have the same length parses back** (the code-length code then has
    one symbol and the lengths themselves cost no bits) -/
theorem parse_back_uniform (n : Nat) (lengths : List Nat) (hn : lengths.length = n) (hpos : 1 ≤ n)
    (h15 : ∀ l ∈ lengths, l ≤ 15) (hv : validLengths lengths = true)
    (h1 : ((clFreqOf lengths).filter (· > 0)).length ≤ 1) (rest : List Nat) :
    readCodeL n (fieldBits (treeFields n lengths) ++ rest) = some (lengths, rest) := by
  have hflen : (clFreqOf lengths).length = 16 := by simp [clFreqOf]
  obtain ⟨v, hv0⟩ : ∃ v, lengths[0]? = some v := by
    cases lengths with
    | nil => simp at hn; omega
    | cons a _ => exact ⟨a, rfl⟩
  have hvmem : v ∈ lengths := List.mem_of_getElem? hv0
  have hv15 := h15 v hvmem
  -- every symbol has length v
  have hallv : ∀ len ∈ lengths, len = v := by
    intro len hl
    by_contra hne
    have hl15 := h15 len hl
    have p1 := count_pos_of_mem lengths len hl hl15
    have p2 := count_pos_of_mem lengths v hvmem hv15
    rw [List.getD_eq_getElem?_getD, List.getElem?_eq_getElem (by omega)] at p1 p2
    simp only [Option.getD_some] at p1 p2
    rcases Nat.lt_or_gt_of_ne hne with h | h
    · have := two_positive (clFreqOf lengths) len v h (by omega) p1 p2; omega
    · have := two_positive (clFreqOf lengths) v len h (by omega) p2 p1; omega
  have hrep : lengths = List.replicate n v := by
    rw [List.eq_replicate_iff]; exact ⟨hn, hallv⟩
  have hcl : clOf lengths = (true, Array.replicate 16 0, Array.replicate 16 0) := by
    unfold clOf build; rw [if_pos h1]
  -- the histogram: n at v, zero elsewhere
  have hfreq : ∀ i, i < 16 → ((clFreqOf lengths).getD i 0 = 0 ↔ i ≠ v) := by
    intro i hi
    unfold clFreqOf
    rw [List.getD_eq_getElem?_getD, List.getElem?_map, List.getElem?_range hi]
    simp only [Option.map_some, Option.getD_some]
    rw [hrep, List.filter_replicate]
    by_cases hiv : i = v
    · subst hiv; simp; omega
    · have : (v == i) = false := by simp; omega
      simp [this, hiv]
  have hvec : (List.range 19).map (gField (clFreqOf lengths) true (Array.replicate 16 0)) = (List.replicate 19 0).set v 1 := by
    apply List.ext_getElem
    · simp
    · intro i h1' h2'
      have hi : i < 19 := by simpa using h1'
      rw [List.getElem_map, List.getElem_range, List.getElem_set]
      unfold gField
      by_cases hi16 : i < 16
      · by_cases hiv : v = i
        · rw [if_pos hiv, if_neg (by
            intro hh
            rcases hh with h | h
            · omega
            · exact ((hfreq i hi16).mp h) hiv.symm)]
          rfl
        · rw [if_neg hiv, if_pos (Or.inr ((hfreq i hi16).mpr (fun h => hiv h.symm))), List.getElem_replicate]
      · rw [if_pos (Or.inl (by omega)), if_neg (by omega), List.getElem_replicate]
  obtain ⟨o1, o2, o3⟩ := one_hot v (by omega)
  have hvcl : validLengths ((List.replicate 19 0).set v 1) = true := by
    unfold validLengths; rw [o3, o1]; rfl
  have hdec : ∀ bits, decodeSymbol ((List.replicate 19 0).set v 1) bits = some (v, bits) := by
    intro bits; unfold decodeSymbol; rw [if_pos o1, o2]
  unfold treeFields
  rw [hcl]
  simp only [if_true]
  rw [fieldBits_append, fieldBits_append, fieldBits_append, fieldBits_cons, fieldBits_cons]
  simp only [List.append_assoc]
  unfold readCodeL
  rw [readBitsL_field 0 1 _ (by decide)]
  simp only [Nat.zero_ne_one, if_false]
  rw [readBitsL_field 15 4 _ (by decide)]
  simp only
  have htake : clOrder.take (4 + 15) = clOrder := by decide
  rw [htake, order_eq]
  have hmap : (clOrder.map fun i => (gField (clFreqOf lengths) true (Array.replicate 16 0) i, 3)) =
      (clOrder.map (gField (clFreqOf lengths) true (Array.replicate 16 0))).map fun v => (v, 3) := by rw [List.map_map]; rfl
  rw [show fieldBits [] = [] from rfl, List.nil_append, hmap, readClLens_fields clOrder _ _ _ (by simp)
    (by
      intro x hx
      obtain ⟨i, _, rfl⟩ := List.mem_map.mp hx
      unfold gField
      split
      · omega
      · simp)]
  simp only
  rw [cl_vector, hvec, hvcl]
  simp only [Bool.not_true, Bool.false_eq_true, if_false]
  by_cases h256 : n = 256
  · rw [if_pos h256, fieldBits_cons, fieldBits_cons, fieldBits_cons]
    simp only [List.append_assoc]
    rw [readBitsL_field 1 1 _ (by decide)]
    simp only [if_true]
    rw [readBitsL_field 3 3 _ (by decide)]
    simp only
    rw [show 2 + 2 * 3 = 8 by rfl, readBitsL_field 254 8 _ (by decide)]
    simp only
    rw [if_neg (by omega), show fieldBits [] = [] from rfl, List.nil_append, List.nil_append, show 2 + 254 = n by omega]
    dsimp only
    have := readLens_const n v _ (by omega) hdec rest 0 n 8 (n + 1) (by omega) (by omega) (by omega)
    rw [List.replicate_zero] at this
    rw [this, ← hrep]
    simp only [hv, if_true]
  · rw [if_neg h256, fieldBits_cons]
    simp only [List.append_assoc]
    rw [readBitsL_field 0 1 _ (by decide)]
    simp only [Nat.zero_ne_one, if_false]
    rw [show fieldBits [] = [] from rfl, List.nil_append, List.nil_append]
    have := readLens_const n v _ (by omega) hdec rest 0 n 8 (n + 1) (by omega) (by omega) (by omega)
    rw [List.replicate_zero] at this
    rw [this, ← hrep]
    simp only [hv, if_true]

/-- **What `write_huffman_tree` serialises parses back**: for every valid length vector of an
    alphabet of 1..5000 symbols (lengths up to 15), whatever follows in the stream -/
theorem parse_back (n : Nat) (lengths : List Nat) (hn : lengths.length = n) (hpos : 1 ≤ n) (hn1 : n ≤ 5000)
    (h15 : ∀ l ∈ lengths, l ≤ 15) (hv : validLengths lengths = true) (rest : List Nat) :
    readCodeL n (fieldBits (treeFields n lengths) ++ rest) = some (lengths, rest) := by
  by_cases h : ((clFreqOf lengths).filter (· > 0)).length ≤ 1
  · exact parse_back_uniform n lengths hn hpos h15 hv h rest
  · exact parse_back_normal n lengths hn hn1 h15 hv (by omega) rest

end EncTree
