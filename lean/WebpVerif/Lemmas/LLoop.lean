import WebpVerif.Model.LosslessLoop
import Mathlib.Tactic.Ring
import Mathlib.Tactic.SplitIfs

/-!
The pixel loop of `decode_image_data` (model `LLoop.decode`) refines the per-pixel specification
(`LLoop.specDecode`).  Part 1: arrays and the three copy strategies.
-/
namespace LLoop

theorem get_set (a : Array Nat) (i j v : Nat) :
    (a.setIfInBounds i v)[j]! = if j = i ∧ i < a.size then v else a[j]! := by
  rw [Array.getElem!_eq_getD, Array.getD_eq_getD_getElem?, Array.getElem?_setIfInBounds]
  by_cases h : i = j
  · subst h
    by_cases h2 : i < a.size
    · simp [h2]
    · simp [h2]
  · have : ¬ (j = i ∧ i < a.size) := by intro hh; exact h hh.1.symm
    rw [if_neg h, if_neg this, Array.getElem!_eq_getD, Array.getD_eq_getD_getElem?]

theorem get_set_ne (a : Array Nat) (i j v : Nat) (h : j ≠ i) : (a.setIfInBounds i v)[j]! = a[j]! := by
  rw [get_set, if_neg (fun hh => h hh.1)]

theorem get_set_self (a : Array Nat) (i v : Nat) (h : i < a.size) : (a.setIfInBounds i v)[i]! = v := by
  rw [get_set, if_pos ⟨rfl, h⟩]

/-- what a pixel is after the LZ77 copy: the last `dist` pixels before `index`, repeated -/
def target (d : Array Nat) (index dist p : Nat) : Nat :=
  if p < index then d[p]! else d[index - dist + (p - index) % dist]!

theorem target_back (d : Array Nat) (index dist p : Nat) (h1 : 1 ≤ dist) (h2 : dist ≤ index) (hp : index ≤ p) :
    target d index dist p = target d index dist (p - dist) := by
  unfold target
  rw [if_neg (by omega)]
  by_cases hlt : p - dist < index
  · rw [if_pos hlt]
    have : (p - index) % dist = p - index := Nat.mod_eq_of_lt (by omega)
    rw [this]; congr 1; omega
  · rw [if_neg hlt]
    have : (p - index) % dist = (p - dist - index) % dist := by
      rw [Nat.mod_eq_sub_mod (by omega : p - index ≥ dist)]; congr 1; omega
    rw [this]

/-! ### `fill` -/

theorem fill_spec (d : Array Nat) (start v : Nat) : ∀ n, (fill d start n v).size = d.size ∧
    ∀ p, (fill d start n v)[p]! = if start ≤ p ∧ p < start + n ∧ p < d.size then v else d[p]! := by
  intro n
  induction n with
  | zero => exact ⟨rfl, fun p => by rw [if_neg (by omega)]; rfl⟩
  | succ n ih =>
    obtain ⟨i1, i2⟩ := ih
    have e : fill d start (n + 1) v = (fill d start n v).setIfInBounds (start + n) v := by
      unfold fill; rw [List.range_succ, List.foldl_append]; rfl
    rw [e]
    refine ⟨by rw [Array.size_setIfInBounds, i1], fun p => ?_⟩
    rw [get_set, i2 p, i1]
    by_cases hp : p = start + n
    · subst hp
      by_cases hs : start + n < d.size
      · rw [if_pos ⟨rfl, hs⟩, if_pos ⟨by omega, by omega, hs⟩]
      · rw [if_neg (fun h => hs h.2), if_neg (by omega), if_neg (by omega)]
    · rw [if_neg (fun h => hp h.1)]
      by_cases h : start ≤ p ∧ p < start + n ∧ p < d.size
      · rw [if_pos h, if_pos ⟨h.1, by omega, h.2.2⟩]
      · rw [if_neg h, if_neg (by omega)]

/-! ### the sequential copies -/

theorem slowCopy_spec (d : Array Nat) (index dist : Nat) (h1 : 1 ≤ dist) (h2 : dist ≤ index) :
    ∀ len, index + len ≤ d.size → (slowCopy d index dist len).size = d.size ∧
      ∀ p, (slowCopy d index dist len)[p]! = if index ≤ p ∧ p < index + len then target d index dist p else d[p]! := by
  intro len
  induction len with
  | zero => intro _; exact ⟨rfl, fun p => by rw [if_neg (by omega)]; rfl⟩
  | succ len ih =>
    intro hlen
    obtain ⟨i1, i2⟩ := ih (by omega)
    have e : slowCopy d index dist (len + 1) =
        (slowCopy d index dist len).setIfInBounds (index + len) (slowCopy d index dist len)[index + len - dist]! := rfl
    rw [e]
    refine ⟨by rw [Array.size_setIfInBounds, i1], fun p => ?_⟩
    rw [get_set, i1]
    by_cases hp : p = index + len
    · subst hp
      rw [if_pos ⟨rfl, by omega⟩, if_pos ⟨by omega, by omega⟩, i2, target_back d index dist (index + len) h1 h2 (by omega)]
      by_cases hb : index ≤ index + len - dist ∧ index + len - dist < index + len
      · rw [if_pos hb]
      · rw [if_neg hb]
        unfold target; rw [if_pos (by omega)]
    · rw [if_neg (fun h => hp h.1), i2 p]
      by_cases h : index ≤ p ∧ p < index + len
      · rw [if_pos h, if_pos ⟨h.1, by omega⟩]
      · rw [if_neg h, if_neg (by omega)]

theorem specCopy_data (c : Cfg) (d cache : Array Nat) (index dist : Nat) :
    ∀ len, (specCopy c d cache index dist len).1 = slowCopy d index dist len := by
  intro len
  induction len with
  | zero => rfl
  | succ len ih =>
    show (specCopy c d cache index dist len).1.setIfInBounds (index + len) (specCopy c d cache index dist len).1[index + len - dist]! = _
    rw [ih]; rfl

/-! ### the 16-byte chunk copies -/

theorem copy4_spec (d : Array Nat) (src dst : Nat) : (copy4 d src dst).size = d.size ∧
    ∀ p, (copy4 d src dst)[p]! = if dst ≤ p ∧ p < dst + 4 ∧ p < d.size then d[src + (p - dst)]! else d[p]! := by
  refine ⟨by simp [copy4], fun p => ?_⟩
  simp only [copy4, get_set, Array.size_setIfInBounds]
  by_cases h0 : p = dst
  · subst h0; split_ifs <;> first | rfl | omega | (congr 1; omega)
  · by_cases h1 : p = dst + 1
    · subst h1; split_ifs <;> first | rfl | omega | (congr 1; omega)
    · by_cases h2 : p = dst + 2
      · subst h2; split_ifs <;> first | rfl | omega | (congr 1; omega)
      · by_cases h3 : p = dst + 3
        · subst h3; split_ifs <;> first | rfl | omega | (congr 1; omega)
        · split_ifs <;> first | rfl | omega

/-- the state of the chunk loop before offset `k·s`: everything below `index + k·s` is final -/
def ChunkInv (d : Array Nat) (index dist k s : Nat) (cur : Array Nat) : Prop :=
  cur.size = d.size ∧ ∀ p, p < index + k * s → cur[p]! = if index ≤ p then target d index dist p else d[p]!

theorem chunk_step (d : Array Nat) (index dist k s len : Nat) (cur : Array Nat)
    (h1 : 1 ≤ dist) (h2 : dist ≤ index) (hs1 : 1 ≤ s) (hs : s ≤ dist) (hs4 : s ≤ 4)
    (hk : 1 ≤ k) (hlt : k * s < len) (hsz : index + len + 3 ≤ d.size)
    (inv : ChunkInv d index dist k s cur) :
    ChunkInv d index dist (k + 1) s (copy4 cur (index - dist + k * s) (index + k * s)) := by
  obtain ⟨isz, ival⟩ := inv
  obtain ⟨c1, c2⟩ := copy4_spec cur (index - dist + k * s) (index + k * s)
  refine ⟨by rw [c1, isz], fun p hp => ?_⟩
  rw [c2 p, isz]
  have hks : (k + 1) * s = k * s + s := by ring
  rw [hks] at hp
  by_cases hin : index + k * s ≤ p ∧ p < index + k * s + 4 ∧ p < d.size
  · rw [if_pos hin]
    -- a freshly written pixel: its source lies `dist` back and is already final
    have hsrc : index - dist + k * s + (p - (index + k * s)) = p - dist := by omega
    rw [hsrc, ival (p - dist) (by omega), if_pos (by omega : index ≤ p), target_back d index dist p h1 h2 (by omega)]
    by_cases hb : index ≤ p - dist
    · rw [if_pos hb]
    · rw [if_neg hb]; unfold target; rw [if_pos (by omega)]
  · rw [if_neg hin]
    exact ival p (by omega)

theorem chunkLoop_spec (d : Array Nat) (index dist s len : Nat)
    (h1 : 1 ≤ dist) (h2 : dist ≤ index) (hs1 : 1 ≤ s) (hs : s ≤ dist) (hs4 : s ≤ 4) (hsz : index + len + 3 ≤ d.size) :
    ∀ fuel k cur, 1 ≤ k → len ≤ (k + fuel) * s → ChunkInv d index dist k s cur →
      (chunkLoop index dist s len fuel k cur).size = d.size ∧
      ∀ p, p < index + len → (chunkLoop index dist s len fuel k cur)[p]! =
        if index ≤ p then target d index dist p else d[p]! := by
  intro fuel
  induction fuel with
  | zero =>
    intro k cur _ hlen inv
    simp only [Nat.add_zero] at hlen
    exact ⟨inv.1, fun p hp => inv.2 p (by omega)⟩
  | succ fuel ih =>
    intro k cur hk hlen inv
    unfold chunkLoop
    by_cases hlt : k * s < len
    · rw [if_pos hlt]
      exact ih (k + 1) _ (by omega) (by rw [show k + 1 + fuel = k + (fuel + 1) by omega]; exact hlen)
        (chunk_step d index dist k s len cur h1 h2 hs1 hs hs4 hk hlt hsz inv)
    · rw [if_neg hlt]
      exact ⟨inv.1, fun p hp => inv.2 p (by omega)⟩

/-- **The chunked overlapping copy is the LZ77 copy** on every pixel of the reference (the up to
    three pixels it scribbles beyond are inside the buffer and not yet decoded) -/
theorem copyFar_spec (d : Array Nat) (n index dist len : Nat) (hn : d.size = n)
    (h2 : 2 ≤ dist) (hd : dist ≤ index) (hl1 : 1 ≤ len) (hlen : index + len ≤ n) :
    (copyFar d n index dist len).size = d.size ∧
    ∀ p, p < index + len → (copyFar d n index dist len)[p]! = if index ≤ p then target d index dist p else d[p]! := by
  unfold copyFar
  by_cases hfast : index + len + 3 ≤ n
  · rw [if_pos hfast]
    simp only
    -- after the first chunk
    have inv1 : ChunkInv d index dist 1 (min dist 4) (copy4 d (index - dist) index) := by
      obtain ⟨c1, c2⟩ := copy4_spec d (index - dist) index
      refine ⟨c1, fun p hp => ?_⟩
      rw [c2 p]
      by_cases hin : index ≤ p ∧ p < index + 4 ∧ p < d.size
      · rw [if_pos hin, if_pos hin.1]
        unfold target
        rw [if_neg (by omega)]
        have : (p - index) % dist = p - index := Nat.mod_eq_of_lt (by omega)
        rw [this]
      · rw [if_neg hin, if_neg (by omega)]
    by_cases hcond : len > 4 ∨ dist < 4
    · rw [if_pos hcond]
      exact chunkLoop_spec d index dist (min dist 4) len (by omega) hd (by omega) (Nat.min_le_left _ _) (Nat.min_le_right _ _)
        (by omega) len 1 _ (Nat.le_refl _)
        (by have : 1 ≤ min dist 4 := by omega
            calc len ≤ len * 1 := by omega
              _ ≤ (1 + len) * min dist 4 := Nat.mul_le_mul (by omega) this) inv1
    · rw [if_neg hcond]
      have hm : min dist 4 = 4 := by omega
      rw [hm] at inv1
      exact ⟨inv1.1, fun p hp => inv1.2 p (by omega)⟩
  · rw [if_neg hfast]
    obtain ⟨s1, s2⟩ := slowCopy_spec d index dist (by omega) hd len (by omega)
    refine ⟨s1, fun p hp => ?_⟩
    rw [s2 p]
    by_cases hb : index ≤ p
    · rw [if_pos ⟨hb, hp⟩, if_pos hb]
    · rw [if_neg (fun h => hb h.1), if_neg hb]

/-! ### Part 2: the colour cache -/

theorem arr_ext (a b : Array Nat) (hs : a.size = b.size) (h : ∀ p, p < a.size → a[p]! = b[p]!) : a = b := by
  apply Array.ext hs
  intro i h1 h2
  have := h i h1
  rw [Array.getElem!_eq_getD, Array.getD_eq_getD_getElem?, Array.getElem?_eq_getElem h1,
    Array.getElem!_eq_getD, Array.getD_eq_getD_getElem?, Array.getElem?_eq_getElem h2] at this
  simpa using this

theorem hash_lt (bits v : Nat) (h1 : bits ≤ 32) : hashOf bits v < 2 ^ bits := by
  unfold hashOf
  apply Nat.div_lt_of_lt_mul
  have : 2 ^ (32 - bits) * 2 ^ bits = 2 ^ 32 := by rw [← Nat.pow_add]; congr 1; omega
  rw [this]; exact Nat.mod_lt _ (Nat.two_pow_pos 32)

theorem insert_size (c : Cfg) (cache : Array Nat) (v : Nat) : (insert c cache v).size = cache.size := by
  unfold insert; split
  · rfl
  · rw [Array.size_setIfInBounds]

/-- inserting a colour that already sits in its slot changes nothing -/
theorem insert_noop (c : Cfg) (cache : Array Nat) (v : Nat) (h : c.cacheBits ≠ 0 → cache[hashOf c.cacheBits v]! = v) :
    insert c cache v = cache := by
  unfold insert
  by_cases hb : c.cacheBits = 0
  · rw [if_pos hb]
  · rw [if_neg hb]
    apply arr_ext _ _ (by rw [Array.size_setIfInBounds])
    intro p _
    rw [get_set]
    by_cases hp : p = hashOf c.cacheBits v ∧ hashOf c.cacheBits v < cache.size
    · rw [if_pos hp, hp.1, h hb]
    · rw [if_neg hp]

/-- after an insertion the colour sits in its slot -/
theorem insert_has (c : Cfg) (cache : Array Nat) (v : Nat) (hb : c.cacheBits ≠ 0) (h32 : c.cacheBits ≤ 32)
    (hsz : cache.size = 2 ^ c.cacheBits) : (insert c cache v)[hashOf c.cacheBits v]! = v := by
  unfold insert; rw [if_neg hb]
  exact get_set_self _ _ _ (by rw [hsz]; exact hash_lt _ _ h32)

theorem insertRange_succ (c : Cfg) (cache d : Array Nat) (index len : Nat) :
    insertRange c cache d index (len + 1) = insert c (insertRange c cache d index len) d[index + len]! := by
  unfold insertRange; rw [List.range_succ, List.foldl_append]; rfl

theorem insertRange_size (c : Cfg) (cache d : Array Nat) (index : Nat) : ∀ len, (insertRange c cache d index len).size = cache.size := by
  intro len
  induction len with
  | zero => rfl
  | succ len ih => rw [insertRange_succ, insert_size, ih]

theorem insertRange_congr (c : Cfg) (cache d1 d2 : Array Nat) (index : Nat) : ∀ len,
    (∀ i, i < len → d1[index + i]! = d2[index + i]!) → insertRange c cache d1 index len = insertRange c cache d2 index len := by
  intro len
  induction len with
  | zero => intro _; rfl
  | succ len ih =>
    intro h
    rw [insertRange_succ, insertRange_succ, ih (fun i hi => h i (by omega)), h len (by omega)]

/-- the cache after the specification's copy = the cache after inserting the copied pixels in order -/
theorem specCopy_cache (c : Cfg) (d cache : Array Nat) (index dist : Nat) : ∀ len, index + len ≤ d.size →
    (specCopy c d cache index dist len).2 = insertRange c cache (slowCopy d index dist len) index len := by
  intro len
  induction len with
  | zero => intro _; rfl
  | succ len ih =>
    intro hlen
    have hsz : (slowCopy d index dist len).size = d.size := by
      clear ih
      induction len with
      | zero => rfl
      | succ m ihm =>
        have e : slowCopy d index dist (m + 1) =
            (slowCopy d index dist m).setIfInBounds (index + m) (slowCopy d index dist m)[index + m - dist]! := rfl
        rw [e, Array.size_setIfInBounds]; exact ihm (by omega)
    have e1 : (specCopy c d cache index dist (len + 1)).2 =
        insert c (specCopy c d cache index dist len).2 (specCopy c d cache index dist len).1[index + len - dist]! := rfl
    have e2 : slowCopy d index dist (len + 1) =
        (slowCopy d index dist len).setIfInBounds (index + len) (slowCopy d index dist len)[index + len - dist]! := rfl
    rw [e1, ih (by omega), specCopy_data, insertRange_succ, e2]
    rw [get_set_self _ _ _ (by rw [hsz]; omega)]
    congr 1
    apply insertRange_congr
    intro i hi
    rw [get_set_ne _ _ _ _ (by omega)]

theorem insert_idem (c : Cfg) (cache : Array Nat) (v : Nat) : insert c (insert c cache v) v = insert c cache v := by
  unfold insert
  by_cases hb : c.cacheBits = 0
  · simp only [hb, if_true]
  · simp only [hb, if_false]
    apply arr_ext _ _ (by simp only [Array.size_setIfInBounds])
    intro p _
    rw [get_set, get_set, Array.size_setIfInBounds]
    by_cases hp : p = hashOf c.cacheBits v ∧ hashOf c.cacheBits v < cache.size
    · rw [if_pos hp, if_pos hp]
    · rw [if_neg hp, if_neg hp]

/-- inserting the same colour again and again is inserting it once -/
theorem insertRange_const (c : Cfg) (cache d : Array Nat) (index v : Nat) : ∀ len, 1 ≤ len →
    (∀ i, i < len → d[index + i]! = v) → insertRange c cache d index len = insert c cache v := by
  intro len
  induction len with
  | zero => intro h; omega
  | succ len ih =>
    intro _ h
    rw [insertRange_succ, h len (by omega)]
    by_cases hl : len = 0
    · subst hl; rfl
    · rw [ih (by omega) (fun i hi => h i (by omega)), insert_idem]

/-! ### Part 3: the specification on a run of equal literals -/

theorem fill_shift (d : Array Nat) (index cnt v : Nat) :
    fill (d.setIfInBounds index v) (index + 1) cnt v = fill d index (cnt + 1) v := by
  obtain ⟨a1, a2⟩ := fill_spec (d.setIfInBounds index v) (index + 1) v cnt
  obtain ⟨b1, b2⟩ := fill_spec d index v (cnt + 1)
  apply arr_ext _ _ (by rw [a1, b1, Array.size_setIfInBounds])
  intro p _
  rw [a2 p, b2 p, Array.size_setIfInBounds, get_set]
  by_cases h1 : index + 1 ≤ p ∧ p < index + 1 + cnt ∧ p < d.size
  · rw [if_pos h1, if_pos ⟨by omega, by omega, h1.2.2⟩]
  · rw [if_neg h1]
    by_cases h2 : p = index ∧ index < d.size
    · rw [if_pos h2, if_pos ⟨by omega, by omega, by omega⟩]
    · rw [if_neg h2, if_neg (by omega)]

theorem spec_lits (c : Cfg) (v : Nat) (rest : List Op) : ∀ cnt (d : Array Nat) (index : Nat) (cache : Array Nat),
    1 ≤ cnt → index + cnt ≤ c.width * c.height →
    specRun c (List.replicate cnt (.lit v) ++ rest) d index cache =
      specRun c rest (fill d index cnt v) (index + cnt) (insert c cache v) := by
  intro cnt
  induction cnt with
  | zero => intro d index cache h; omega
  | succ cnt ih =>
    intro d index cache _ hle
    rw [List.replicate_succ, List.cons_append]
    have e : specRun c (Op.lit v :: (List.replicate cnt (Op.lit v) ++ rest)) d index cache =
        specRun c (List.replicate cnt (Op.lit v) ++ rest) (d.setIfInBounds index v) (index + 1) (insert c cache v) := by
      rw [specRun]
      rw [if_neg (by omega)]
    rw [e]
    by_cases hc : cnt = 0
    · subst hc
      simp only [List.replicate_zero, List.nil_append]
      have : fill d index 1 v = d.setIfInBounds index v := by
        unfold fill; simp
      rw [this]
    · rw [ih _ _ _ (by omega) (by omega), insert_idem, fill_shift, show index + 1 + cnt = index + (cnt + 1) by omega]

/-! ### Part 4: the simulation -/

structure Rel (c : Cfg) (sM : St) (dS cacheS : Array Nat) : Prop where
  hsm : sM.data.size = c.width * c.height
  hss : dS.size = c.width * c.height
  hle : sM.index ≤ c.width * c.height
  hnbs : sM.nbs ≤ c.width * c.height
  hdata : ∀ p, p < sM.index → sM.data[p]! = dS[p]!
  hcache : sM.cache = cacheS
  hcsz : c.cacheBits ≠ 0 → cacheS.size = 2 ^ c.cacheBits
  hlast : c.cacheBits ≠ 0 → 0 < sM.index → cacheS[hashOf c.cacheBits dS[sM.index - 1]!]! = dS[sM.index - 1]!

/-- what the rest of the loop is assumed to do (the induction hypothesis of `run_refines`) -/
def Cont (c : Cfg) (k : St → List Op → Res) (fm : Nat) : Prop :=
  ∀ (sM : St) (ops : List Op) (dS cacheS : Array Nat) (fuelC : Nat), Rel c sM dS cacheS →
    cons c fuelC sM.index sM.nbs ops = true → c.width * c.height - sM.index < fuelC →
    c.width * c.height - sM.index < fm → k sM ops = specRun c ops dS sM.index cacheS

theorem specRun_cons (c : Cfg) (op : Op) (rest : List Op) (d : Array Nat) (index : Nat) (cache : Array Nat)
    (h : index < c.width * c.height) :
    specRun c (op :: rest) d index cache =
      match op with
      | .lit v => specRun c rest (d.setIfInBounds index v) (index + 1) (insert c cache v)
      | .back len dist =>
        if index < dist ∨ c.width * c.height - index < len then .bitstreamError else
        specRun c rest (specCopy c d cache index dist len).1 (index + len) (specCopy c d cache index dist len).2
      | .cache k =>
        if c.cacheBits = 0 then .bitstreamError else
        if k ≥ cache.size then .panic "cache index" else
        specRun c rest (d.setIfInBounds index cache[k]!) (index + 1) (insert c cache cache[k]!) := by
  cases op <;> (rw [specRun]; rw [if_neg (by omega)])

/-- a literal or cache pixel written at `index` -/
theorem rel_pixel (c : Cfg) (h32 : c.cacheBits ≤ 32) (sM : St) (dS cacheS : Array Nat) (v nbs group : Nat)
    (r : Rel c sM dS cacheS) (hlt : sM.index < c.width * c.height) (hnb : nbs ≤ c.width * c.height) :
    Rel c { data := sM.data.setIfInBounds sM.index v, index := sM.index + 1, cache := insert c sM.cache v, nbs := nbs, group := group }
      (dS.setIfInBounds sM.index v) (insert c cacheS v) := by
  refine { hsm := by simp only [Array.size_setIfInBounds]; exact r.hsm, hss := by rw [Array.size_setIfInBounds]; exact r.hss,
           hle := by simp only; omega, hnbs := hnb, hdata := ?_, hcache := by simp only; rw [r.hcache],
           hcsz := fun hb => by rw [insert_size]; exact r.hcsz hb, hlast := ?_ }
  · intro p hp
    simp only at hp ⊢
    rw [get_set, get_set, r.hsm, r.hss]
    by_cases h : p = sM.index ∧ sM.index < c.width * c.height
    · rw [if_pos h, if_pos h]
    · rw [if_neg h, if_neg h]; exact r.hdata p (by omega)
  · intro hb _
    simp only [Nat.add_sub_cancel]
    rw [get_set_self _ _ _ (by rw [r.hss]; exact hlt)]
    exact insert_has c cacheS v hb h32 (r.hcsz hb)

theorem target_congr (a b : Array Nat) (index dist p : Nat) (h : ∀ q, q < index → a[q]! = b[q]!)
    (h1 : 1 ≤ dist) (h2 : dist ≤ index) (hp : index ≤ p) : target a index dist p = target b index dist p := by
  unfold target
  rw [if_neg (by omega), if_neg (by omega)]
  have : (p - index) % dist < dist := Nat.mod_lt _ (by omega)
  exact h _ (by omega)

/-- a backward reference -/
theorem rel_back (c : Cfg) (h32 : c.cacheBits ≤ 32) (sM : St) (dS cacheS : Array Nat) (len dist nbs group : Nat)
    (r : Rel c sM dS cacheS) (hl1 : 1 ≤ len) (hd1 : 1 ≤ dist) (hd : dist ≤ sM.index)
    (hlen : sM.index + len ≤ c.width * c.height) (hnb : nbs ≤ c.width * c.height) :
    Rel c (if dist = 1 then
          { data := fill sM.data sM.index len sM.data[sM.index - 1]!, index := sM.index + len, cache := sM.cache, nbs := nbs, group := group }
        else
          { data := copyFar sM.data (c.width * c.height) sM.index dist len, index := sM.index + len,
            cache := insertRange c sM.cache (copyFar sM.data (c.width * c.height) sM.index dist len) sM.index len,
            nbs := nbs, group := group })
      (specCopy c dS cacheS sM.index dist len).1 (specCopy c dS cacheS sM.index dist len).2 := by
  obtain ⟨s1, s2⟩ := slowCopy_spec dS sM.index dist hd1 hd len (by rw [r.hss]; exact hlen)
  rw [specCopy_data, specCopy_cache c dS cacheS sM.index dist len (by rw [r.hss]; exact hlen)]
  have hlastpx : (slowCopy dS sM.index dist len)[sM.index + len - 1]! = target dS sM.index dist (sM.index + len - 1) := by
    rw [s2, if_pos ⟨by omega, by omega⟩]
  by_cases h1 : dist = 1
  · subst h1
    rw [if_pos rfl]
    obtain ⟨f1, f2⟩ := fill_spec sM.data sM.index sM.data[sM.index - 1]! len
    have hv : sM.data[sM.index - 1]! = dS[sM.index - 1]! := r.hdata _ (by omega)
    have htar : ∀ p, sM.index ≤ p → target dS sM.index 1 p = dS[sM.index - 1]! := by
      intro p hp; unfold target; rw [if_neg (by omega), Nat.mod_one, Nat.add_zero]
    have hconst : insertRange c cacheS (slowCopy dS sM.index 1 len) sM.index len = cacheS := by
      rw [insertRange_const c cacheS _ sM.index dS[sM.index - 1]! len hl1
        (fun i hi => by rw [s2, if_pos ⟨by omega, by omega⟩, htar _ (by omega)])]
      exact insert_noop c cacheS _ (fun hb => r.hlast hb (by omega))
    refine { hsm := by simp only; rw [f1]; exact r.hsm, hss := by rw [s1]; exact r.hss, hle := by simp only; omega, hnbs := hnb,
             hdata := ?_, hcache := by simp only; rw [hconst]; exact r.hcache,
             hcsz := fun hb => by rw [hconst]; exact r.hcsz hb, hlast := ?_ }
    · intro p hp
      simp only at hp ⊢
      rw [f2 p, s2 p, r.hsm]
      by_cases hin : sM.index ≤ p ∧ p < sM.index + len
      · rw [if_pos ⟨hin.1, hin.2, by omega⟩, if_pos hin, htar p hin.1, hv]
      · rw [if_neg (by omega), if_neg hin]; exact r.hdata p (by omega)
    · intro hb _
      simp only
      rw [hconst, hlastpx, htar _ (by omega)]
      exact r.hlast hb (by omega)
  · rw [if_neg h1]
    obtain ⟨c1, c2⟩ := copyFar_spec sM.data (c.width * c.height) sM.index dist len r.hsm (by omega) hd hl1 hlen
    have hvals : ∀ p, p < sM.index + len →
        (copyFar sM.data (c.width * c.height) sM.index dist len)[p]! = (slowCopy dS sM.index dist len)[p]! := by
      intro p hp
      rw [c2 p hp, s2 p]
      by_cases hin : sM.index ≤ p
      · rw [if_pos hin, if_pos ⟨hin, hp⟩, target_congr sM.data dS sM.index dist p r.hdata hd1 hd hin]
      · rw [if_neg hin, if_neg (fun h => hin h.1)]; exact r.hdata p (by omega)
    have hcache : insertRange c sM.cache (copyFar sM.data (c.width * c.height) sM.index dist len) sM.index len =
        insertRange c cacheS (slowCopy dS sM.index dist len) sM.index len := by
      rw [r.hcache]
      exact insertRange_congr c cacheS _ _ sM.index len (fun i hi => hvals _ (by omega))
    refine { hsm := by simp only; rw [c1]; exact r.hsm, hss := by rw [s1]; exact r.hss, hle := by simp only; omega, hnbs := hnb,
             hdata := fun p hp => hvals p hp, hcache := hcache,
             hcsz := fun hb => by rw [insertRange_size]; exact r.hcsz hb, hlast := ?_ }
    intro hb _
    simp only
    obtain ⟨m, rfl⟩ : ∃ m, len = m + 1 := ⟨len - 1, by omega⟩
    rw [insertRange_succ, show sM.index + (m + 1) - 1 = sM.index + m by omega]
    exact insert_has c _ _ hb h32 (by rw [insertRange_size]; exact r.hcsz hb)

theorem opStep_refines (c : Cfg) (h32 : c.cacheBits ≤ 32) (k : St → List Op → Res) (fm : Nat) (hk : Cont c k fm)
    (sM : St) (dS cacheS : Array Nat) (nbs group : Nat) (ops : List Op) (fuelC : Nat)
    (r : Rel c sM dS cacheS) (hlt : sM.index < c.width * c.height) (hnbs : nbs ≤ c.width * c.height)
    (hfm : c.width * c.height - sM.index ≤ fm) (hfc : c.width * c.height - sM.index ≤ fuelC)
    (hcons : consOps c (cons c fuelC) sM.index nbs ops = true) :
    opStep c k sM nbs group ops = specRun c ops dS sM.index cacheS := by
  cases ops with
  | nil =>
    unfold opStep; rw [specRun, if_pos hlt]
  | cons op rest =>
    rw [specRun_cons c op rest dS sM.index cacheS hlt]
    cases op with
    | lit v =>
      unfold opStep
      simp only
      exact hk _ rest _ _ fuelC (rel_pixel c h32 sM dS cacheS v nbs group r hlt hnbs) (by simpa [consOps] using hcons)
        (by simp only; omega) (by simp only; omega)
    | back len dist =>
      simp only [consOps, Bool.and_eq_true, decide_eq_true_eq] at hcons
      obtain ⟨⟨hl1, hd1⟩, hrest⟩ := hcons
      unfold opStep
      simp only
      by_cases hbad : sM.index < dist ∨ c.width * c.height - sM.index < len
      · rw [if_pos hbad, if_pos hbad]
      · rw [if_neg hbad, if_neg hbad]
        rw [if_neg hbad] at hrest
        have hrel := rel_back c h32 sM dS cacheS len dist nbs group r hl1 hd1 (by omega) (by omega) hnbs
        by_cases h1 : dist = 1
        · rw [if_pos h1]; rw [if_pos h1] at hrel
          exact hk _ rest _ _ fuelC hrel hrest (by simp only; omega) (by simp only; omega)
        · rw [if_neg h1]; rw [if_neg h1] at hrel
          exact hk _ rest _ _ fuelC hrel hrest (by simp only; omega) (by simp only; omega)
    | cache k1 =>
      have hrest : cons c fuelC (sM.index + 1) nbs rest = true := by simpa [consOps] using hcons
      unfold opStep
      simp only
      by_cases hb : c.cacheBits = 0
      · rw [if_pos hb, if_pos hb]
      · rw [if_neg hb, if_neg hb, r.hcache]
        by_cases hk1 : k1 ≥ cacheS.size
        · rw [if_pos hk1, if_pos hk1]
        · rw [if_neg hk1, if_neg hk1]
          have hrel1 := rel_pixel c h32 sM dS cacheS cacheS[k1]! nbs group r hlt hnbs
          rw [r.hcache] at hrel1
          -- the plain continuation after one cache pixel
          have plain : k ⟨sM.data.setIfInBounds sM.index cacheS[k1]!, sM.index + 1, insert c cacheS cacheS[k1]!, nbs, group⟩ rest =
              specRun c rest (dS.setIfInBounds sM.index cacheS[k1]!) (sM.index + 1) (insert c cacheS cacheS[k1]!) :=
            hk _ rest _ _ fuelC hrel1 hrest (by simp only; omega) (by simp only; omega)
          cases rest with
          | nil => exact plain
          | cons op2 rest2 =>
            cases op2 with
            | lit v2 => exact plain
            | back l2 d2 => exact plain
            | cache k2 =>
              simp only
              by_cases hin : sM.index + 1 < nbs
              · rw [if_pos hin]
                have hlt2 : sM.index + 1 < c.width * c.height := by omega
                rw [specRun_cons c (.cache k2) rest2 _ (sM.index + 1) _ hlt2]
                simp only
                rw [if_neg hb]
                by_cases hk2 : k2 ≥ (insert c cacheS cacheS[k1]!).size
                · rw [if_pos hk2, if_pos hk2]
                · rw [if_neg hk2, if_neg hk2]
                  -- the second pixel: one more step of the relation, and one more unfolding of `cons`
                  have hrel2 := rel_pixel c h32 _ _ _ (insert c cacheS cacheS[k1]!)[k2]! nbs group hrel1 hlt2 hnbs
                  obtain ⟨f, rfl⟩ : ∃ f, fuelC = f + 1 := ⟨fuelC - 1, by omega⟩
                  have hrest2 : cons c f (sM.index + 1 + 1) nbs rest2 = true := by
                    rw [cons] at hrest
                    simp only [hlt2, if_true] at hrest
                    rw [if_neg (by omega)] at hrest
                    simpa [consOps] using hrest
                  exact hk _ rest2 _ _ f hrel2 hrest2 (by simp only; omega) (by simp only; omega)
              · rw [if_neg hin]; exact plain

theorem nbsOf_bounds (c : Cfg) (index : Nat) (hw : 0 < c.width) (hlt : index < c.width * c.height) :
    index < nbsOf c index ∧ nbsOf c index ≤ c.width * c.height := by
  unfold nbsOf
  have hx : index % c.width < c.width := Nat.mod_lt _ hw
  have hor : index % c.width ≤ index % c.width ||| c.mask := Nat.left_le_or
  have hdm := Nat.div_add_mod index c.width
  have hy : index / c.width < c.height := by
    apply Nat.div_lt_of_lt_mul; exact hlt
  have hmul : (index / c.width + 1) * c.width ≤ c.height * c.width := Nat.mul_le_mul_right _ hy
  have hcomm : c.width * (index / c.width) = index / c.width * c.width := Nat.mul_comm _ _
  have hmin : min (index % c.width ||| c.mask) (c.width - 1) ≤ c.width - 1 := Nat.min_le_right _ _
  have hmin2 : index % c.width ≤ min (index % c.width ||| c.mask) (c.width - 1) := Nat.le_min.mpr ⟨hor, by omega⟩
  have e1 : (index / c.width + 1) * c.width = index / c.width * c.width + c.width := by ring
  have e2 : c.height * c.width = c.width * c.height := Nat.mul_comm _ _
  constructor
  · omega
  · omega

theorem fastStep_refines (c : Cfg) (h32 : c.cacheBits ≤ 32) (k : St → List Op → Res) (fm : Nat) (hk : Cont c k fm)
    (sM : St) (dS cacheS : Array Nat) (nbs group v : Nat) (ops : List Op) (f : Nat)
    (r : Rel c sM dS cacheS) (hnb : nbs ≤ c.width * c.height)
    (hfm : c.width * c.height - sM.index ≤ fm) (hfc : c.width * c.height - sM.index ≤ f)
    (hcnt1 : 1 ≤ (if c.bits = 0 then c.width * c.height else nbs - sM.index))
    (hcntn : sM.index + (if c.bits = 0 then c.width * c.height else nbs - sM.index) ≤ c.width * c.height)
    (htake : ops.take (if c.bits = 0 then c.width * c.height else nbs - sM.index) =
      List.replicate (if c.bits = 0 then c.width * c.height else nbs - sM.index) (.lit v))
    (hrest : cons c f (sM.index + (if c.bits = 0 then c.width * c.height else nbs - sM.index)) nbs
      (ops.drop (if c.bits = 0 then c.width * c.height else nbs - sM.index)) = true) :
    fastStep c k sM nbs group v ops = specRun c ops dS sM.index cacheS := by
  unfold fastStep
  simp only
  generalize (if c.bits = 0 then c.width * c.height else nbs - sM.index) = cnt at *
  rw [if_neg (by rw [r.hsm]; omega)]
  have hops : ops = List.replicate cnt (.lit v) ++ ops.drop cnt := by
    rw [← htake, List.take_append_drop]
  conv_rhs => rw [hops]
  rw [spec_lits c v _ cnt dS sM.index cacheS hcnt1 hcntn]
  obtain ⟨a1, a2⟩ := fill_spec sM.data sM.index v cnt
  obtain ⟨b1, b2⟩ := fill_spec dS sM.index v cnt
  have e0 : c.width * c.height - (sM.index + cnt) = c.width * c.height - sM.index - cnt := Nat.sub_add_eq _ _ _
  have e1 : cnt ≤ c.width * c.height - sM.index := Nat.le_sub_of_add_le' hcntn
  have g1 : c.width * c.height - (sM.index + cnt) < f := by rw [e0]; omega
  have g2 : c.width * c.height - (sM.index + cnt) < fm := by rw [e0]; omega
  apply hk _ _ _ _ f _ hrest g1 g2
  refine { hsm := by simp only; rw [a1]; exact r.hsm, hss := by rw [b1]; exact r.hss, hle := by simp only; omega, hnbs := hnb,
           hdata := ?_, hcache := by simp only; rw [r.hcache],
           hcsz := fun hb => by rw [insert_size]; exact r.hcsz hb, hlast := ?_ }
  · intro p hp
    simp only at hp ⊢
    rw [a2 p, b2 p, r.hsm, r.hss]
    by_cases hin : sM.index ≤ p ∧ p < sM.index + cnt ∧ p < c.width * c.height
    · rw [if_pos hin, if_pos hin]
    · rw [if_neg hin, if_neg hin]; exact r.hdata p (by omega)
  · intro hb _
    simp only
    rw [b2, if_pos ⟨by omega, by omega, by rw [r.hss]; omega⟩]
    exact insert_has c cacheS v hb h32 (r.hcsz hb)

/-- **The pixel loop refines the specification.** -/
theorem run_refines (c : Cfg) (h32 : c.cacheBits ≤ 32) (hw : 0 < c.width) :
    ∀ fm, Cont c (run c fm) fm := by
  intro fm
  induction fm with
  | zero => intro sM ops dS cacheS fuelC _ _ _ h; omega
  | succ fm ih =>
    intro sM ops dS cacheS fuelC r hcons hfc hfm
    obtain ⟨f, rfl⟩ : ∃ f, fuelC = f + 1 := ⟨fuelC - 1, by omega⟩
    rw [run]
    by_cases hlt : sM.index < c.width * c.height
    · rw [if_pos hlt]
      rw [cons] at hcons
      simp only [hlt, if_true] at hcons
      by_cases hent : sM.index ≥ sM.nbs
      · rw [if_pos hent]
        rw [if_pos hent] at hcons
        obtain ⟨nb1, nb2⟩ := nbsOf_bounds c sM.index hw hlt
        cases hsingle : (c.single[huffIndex c (sM.index % c.width) (sM.index / c.width)]?).join with
        | some v =>
          rw [hsingle] at hcons
          simp only [Bool.and_eq_true, decide_eq_true_eq, beq_iff_eq] at hcons
          obtain ⟨⟨⟨h1, h2⟩, h3⟩, h4⟩ := hcons
          exact fastStep_refines c h32 (run c fm) fm ih sM dS cacheS _ _ v ops f r nb2 (by omega) (by omega) h1 h2 h3 h4
        | none =>
          rw [hsingle] at hcons
          exact opStep_refines c h32 (run c fm) fm ih sM dS cacheS _ _ ops f r hlt nb2 (by omega) (by omega) hcons
      · rw [if_neg hent]
        rw [if_neg hent] at hcons
        exact opStep_refines c h32 (run c fm) fm ih sM dS cacheS _ _ ops f r hlt r.hnbs (by omega) (by omega) hcons
    · rw [if_neg hlt]
      have hidx : sM.index = c.width * c.height := by have := r.hle; omega
      have hd : sM.data = dS := arr_ext _ _ (by rw [r.hsm, r.hss]) (fun p hp => r.hdata p (by rw [r.hsm] at hp; omega))
      cases ops with
      | nil => rw [specRun, if_neg hlt, hd]
      | cons op rest => cases op <;> rw [specRun, if_pos (by omega), hd]

theorem decode_refines (c : Cfg) (h32 : c.cacheBits ≤ 32) (hw : 0 < c.width) (init : Array Nat) (ops : List Op)
    (hinit : init.size = c.width * c.height) (hcons : cons c (c.width * c.height + 1) 0 0 ops = true) :
    decode c init ops = specDecode c init ops := by
  unfold decode specDecode
  have r : Rel c (initSt c init) init (Array.replicate (if c.cacheBits = 0 then 0 else 2 ^ c.cacheBits) 0) := by
    refine { hsm := hinit, hss := hinit, hle := Nat.zero_le _, hnbs := Nat.zero_le _, hdata := fun p hp => absurd hp (Nat.not_lt_zero _),
             hcache := rfl, hcsz := fun hb => by rw [Array.size_replicate, if_neg hb], hlast := fun _ h => absurd h (Nat.lt_irrefl _) }
  exact run_refines c h32 hw (c.width * c.height + 1) (initSt c init) ops init _ (c.width * c.height + 1) r hcons
    (by show c.width * c.height - 0 < _; omega) (by show c.width * c.height - 0 < _; omega)

end LLoop
