import WebpVerif.Lemmas.HuffCodes

/-!
`HuffmanTree::build_implicit`, part 2c: the symbol loop.  Whenever the builder succeeds, the
structure it returns is `Good`: every peek that starts with the code word of a symbol is answered
by that symbol and its length.
-/
namespace Huff
open Prefix
open EncHuff (codeWord)

/-! ### the primary-table fill loop -/

theorem mod_unique (a j step : Nat) (h1 : a ≤ j) (h2 : j < a + step) (h3 : j % step = a % step) : j = a := by
  have h := Nat.sub_mod_eq_zero_of_mod_eq h3
  have hlt : j - a < step := by omega
  rw [Nat.mod_eq_of_lt hlt] at h
  omega

theorem fillTable_spec (e step r : Nat) (hstep : 0 < step) (hr : r < step) : ∀ (fuel a : Nat) (t : Array Nat),
    a % step = r →
    (fillTable t e step fuel a).size = t.size ∧
    ∀ j, (fillTable t e step fuel a)[j]! =
      if a ≤ j ∧ j % step = r ∧ j < t.size ∧ j < a + fuel * step then e else t[j]! := by
  intro fuel
  induction fuel with
  | zero =>
    intro a t _
    refine ⟨rfl, fun j => ?_⟩
    rw [if_neg (by omega)]; rfl
  | succ fuel ih =>
    intro a t ha
    rw [fillTable]
    by_cases hlt : a < t.size
    · rw [if_pos hlt]
      have ha' : (a + step) % step = r := by rw [Nat.add_mod_right]; exact ha
      obtain ⟨i1, i2⟩ := ih (a + step) (t.setIfInBounds a e) ha'
      refine ⟨by rw [i1, Array.size_setIfInBounds], fun j => ?_⟩
      rw [i2 j, Array.size_setIfInBounds, aget_set]
      have hmul : (fuel + 1) * step = fuel * step + step := Nat.succ_mul _ _
      by_cases hc : a + step ≤ j ∧ j % step = r ∧ j < t.size ∧ j < a + step + fuel * step
      · rw [if_pos hc, if_pos ⟨by omega, hc.2.1, hc.2.2.1, by omega⟩]
      · rw [if_neg hc]
        by_cases hja : j = a
        · rw [if_pos ⟨hja, hlt⟩, if_pos ⟨by omega, by rw [hja]; exact ha, by omega, by omega⟩]
        · rw [if_neg (fun hh => hja hh.1)]
          rw [if_neg]
          intro hh
          by_cases hj2 : j < a + step
          · exact hja (mod_unique a j step hh.1 hj2 (by rw [hh.2.1, ha]))
          · exact hc ⟨by omega, hh.2.1, hh.2.2.1, by omega⟩
    · rw [if_neg hlt]
      refine ⟨rfl, fun j => ?_⟩
      rw [if_neg (by omega)]

/-- the fill loop as the builder calls it -/
theorem fillTable_full (t : Array Nat) (e l r : Nat) (hr : r < 2 ^ l) (j : Nat) (hj : j < t.size) :
    (fillTable t e (2 ^ l) t.size r)[j]! = if j % 2 ^ l = r then e else t[j]! := by
  obtain ⟨_, h⟩ := fillTable_spec e (2 ^ l) r (Nat.two_pow_pos l) hr t.size r t (Nat.mod_eq_of_lt hr)
  rw [h j]
  by_cases hm : j % 2 ^ l = r
  · rw [if_pos hm, if_pos]
    refine ⟨by rw [← hm]; exact Nat.mod_le _ _, hm, hj, ?_⟩
    have : t.size ≤ t.size * 2 ^ l := Nat.le_mul_of_pos_right _ (Nat.two_pow_pos l)
    omega
  · rw [if_neg hm, if_neg (fun hh => hm hh.2.1)]

theorem fillTable_size (t : Array Nat) (e l r : Nat) (hr : r < 2 ^ l) :
    (fillTable t e (2 ^ l) t.size r).size = t.size :=
  (fillTable_spec e (2 ^ l) r (Nat.two_pow_pos l) hr t.size r t (Nat.mod_eq_of_lt hr)).1

theorem rank_succ (ls : List Nat) (k len : Nat) (hk : k < ls.length) :
    rank ls (k + 1) len = rank ls k len + (if ls.getD k 0 = len then 1 else 0) := by
  unfold rank
  rw [List.take_succ, List.filter_append, List.length_append]
  congr 1
  rw [List.getElem?_eq_getElem hk, List.getD_eq_getElem?_getD, List.getElem?_eq_getElem hk]
  simp only [Option.toList, Option.getD_some]
  by_cases h : ls[k] = len
  · simp [h]
  · simp [h]

theorem mod_mod_pow (x a b : Nat) (h : a ≤ b) : x % 2 ^ b % 2 ^ a = x % 2 ^ a := by
  obtain ⟨d, rfl⟩ : ∃ d, b = a + d := ⟨b - a, by omega⟩
  rw [Nat.pow_add, Nat.mod_mul_right_mod]

/-! ### the invariant of the symbol loop -/

structure Inv (ls : List Nat) (L tb k : Nat) (st : St) : Prop where
  hnsz : st.next.size = 16
  hnext : ∀ len, 1 ≤ len → len ≤ L → st.next[len]! = nextCode ls len + rank ls k len
  hsize : st.table.size = 2 ^ tb
  hw1 : W1 st.tree
  hbound : st.tree.size ≤ 11 * k
  hshort : ∀ s c, s < k → canonicalCode ls s = some c → ls.getD s 0 ≤ tb → ∀ j, j < 2 ^ tb →
    j % 2 ^ ls.getD s 0 = reverseBits c (ls.getD s 0) → st.table[j]! = ls.getD s 0 * 65536 + s
  hlong : ∀ s c, s < k → canonicalCode ls s = some c → tb < ls.getD s 0 →
    ∃ root m, st.table[reverseBits c (ls.getD s 0) % 2 ^ tb]! = root + 1 ∧ root < st.tree.size ∧
      Path st.tree root (msbBits c (ls.getD s 0 - tb)) m ∧ st.tree[m]! = Node.leaf s
  hts : ∀ j, j < 2 ^ tb → st.table[j]! = 0 ∨
    (∃ s c, s < k ∧ canonicalCode ls s = some c ∧ ls.getD s 0 ≤ tb ∧
      j % 2 ^ ls.getD s 0 = reverseBits c (ls.getD s 0) ∧ st.table[j]! = ls.getD s 0 * 65536 + s) ∨
    (∃ root, st.table[j]! = root + 1 ∧ root < st.tree.size)

/-- facts about the code that do not change during the loop -/
structure Ctx (ls : List Nat) (L tb mask : Nat) : Prop where
  hL : L ≤ 15
  hall : ∀ l ∈ ls, l ≤ L
  hfit : ∀ s c, canonicalCode ls s = some c → c < 2 ^ ls.getD s 0
  hmask : mask + 1 = 2 ^ tb
  htb : tb ≤ 10
  hlongtb : ∀ l ∈ ls, l ≤ tb ∨ tb = 10

theorem canonical_at (ls : List Nat) (k : Nat) (hk : k < ls.length) (h0 : ls.getD k 0 ≠ 0) :
    canonicalCode ls k = some (nextCode ls (ls.getD k 0) + rank ls k (ls.getD k 0)) := by
  unfold canonicalCode rank
  have hg : ls.getD k 0 = ls[k] := by rw [List.getD_eq_getElem?_getD, List.getElem?_eq_getElem hk]; rfl
  rw [List.getElem?_eq_getElem hk]
  rw [hg] at h0 ⊢
  obtain ⟨m, hm⟩ : ∃ m, ls[k] = m + 1 := ⟨ls[k] - 1, by omega⟩
  simp only [hm]

/-- a symbol of length zero changes nothing -/
theorem step_zero (ls : List Nat) (L tb k : Nat) (st : St) (hk : k < ls.length) (h0 : ls.getD k 0 = 0)
    (inv : Inv ls L tb k st) : Inv ls L tb (k + 1) st := by
  have hnone : canonicalCode ls k = none := by
    unfold canonicalCode
    rw [List.getElem?_eq_getElem hk]
    have : ls[k] = 0 := by rw [List.getD_eq_getElem?_getD, List.getElem?_eq_getElem hk] at h0; exact h0
    rw [this]
    rfl
  refine { hnsz := inv.hnsz, hnext := ?_, hsize := inv.hsize, hw1 := inv.hw1, hbound := by have := inv.hbound; omega,
           hshort := ?_, hlong := ?_, hts := ?_ }
  · intro len h1 h2
    rw [rank_succ ls k len hk, if_neg (by omega), Nat.add_zero]
    exact inv.hnext len h1 h2
  · intro s c hs hc
    by_cases hsk : s = k
    · subst hsk; rw [hnone] at hc; cases hc
    · exact inv.hshort s c (by omega) hc
  · intro s c hs hc
    by_cases hsk : s = k
    · subst hsk; rw [hnone] at hc; cases hc
    · exact inv.hlong s c (by omega) hc
  · intro j hj
    rcases inv.hts j hj with h | ⟨s, c, h1, h2⟩ | h
    · exact Or.inl h
    · exact Or.inr (Or.inl ⟨s, c, by omega, h2⟩)
    · exact Or.inr (Or.inr h)

theorem getD_mem (ls : List Nat) (k : Nat) (hk : k < ls.length) : ls.getD k 0 ∈ ls := by
  rw [List.getD_eq_getElem?_getD, List.getElem?_eq_getElem hk]; exact List.getElem_mem _

/-- what is known about the code word handed to symbol `k` -/
theorem code_at (ls : List Nat) (L tb mask k : Nat) (st : St) (ctx : Ctx ls L tb mask) (hk : k < ls.length)
    (h0 : ls.getD k 0 ≠ 0) (inv : Inv ls L tb k st) :
    ∃ c, st.next[ls.getD k 0]! = c ∧ canonicalCode ls k = some c ∧ c < 2 ^ ls.getD k 0 ∧
      codeWord c (ls.getD k 0) = reverseBits c (ls.getD k 0) ∧ reverseBits c (ls.getD k 0) < 2 ^ ls.getD k 0 ∧
      ls.getD k 0 ≤ L := by
  have hlL : ls.getD k 0 ≤ L := ctx.hall _ (getD_mem ls k hk)
  have hcan := canonical_at ls k hk h0
  have hfit := ctx.hfit k _ hcan
  refine ⟨_, inv.hnext _ (by omega) hlL, hcan, hfit, EncHuff.codeWord_eq _ _ (by have := ctx.hL; omega) hfit, ?_, hlL⟩
  rw [EncHuff.reverseBits_eq]; exact bitSum_lt _ _

theorem next_step (ls : List Nat) (L tb mask k : Nat) (st : St) (ctx : Ctx ls L tb mask) (hk : k < ls.length)
    (h0 : ls.getD k 0 ≠ 0) (inv : Inv ls L tb k st) (c : Nat) (hc : st.next[ls.getD k 0]! = c) (hfit : c < 2 ^ ls.getD k 0) :
    ∀ len, 1 ≤ len → len ≤ L →
      (st.next.setIfInBounds (ls.getD k 0) ((c + 1) % 65536))[len]! = nextCode ls len + rank ls (k + 1) len := by
  intro len h1 h2
  have hlL : ls.getD k 0 ≤ L := ctx.hall _ (getD_mem ls k hk)
  have hL := ctx.hL
  rw [aget_set, rank_succ ls k len hk]
  by_cases hl : len = ls.getD k 0
  · rw [if_pos ⟨hl, by rw [inv.hnsz]; omega⟩, if_pos hl.symm]
    have hp : 2 ^ ls.getD k 0 ≤ 2 ^ 15 := Nat.pow_le_pow_right (by decide) (by omega)
    have : (2 : Nat) ^ 15 = 32768 := by decide
    rw [Nat.mod_eq_of_lt (by omega), ← hc, hl, inv.hnext _ (by omega) hlL, Nat.add_assoc]
  · rw [if_neg (fun hh => hl hh.1), if_neg (fun hh => hl hh.symm), Nat.add_zero]
    exact inv.hnext len h1 h2

theorem step_short (ls : List Nat) (L tb mask k : Nat) (st : St) (ctx : Ctx ls L tb mask) (hk : k < ls.length)
    (h0 : ls.getD k 0 ≠ 0) (hs : ls.getD k 0 ≤ tb) (inv : Inv ls L tb k st) :
    Inv ls L tb (k + 1)
      { next := st.next.setIfInBounds (ls.getD k 0) ((st.next[ls.getD k 0]! + 1) % 65536), tree := st.tree,
        table := fillTable st.table (ls.getD k 0 * 65536 + k) (2 ^ ls.getD k 0) st.table.size
          (codeWord st.next[ls.getD k 0]! (ls.getD k 0)) } := by
  obtain ⟨c, hc, hcan, hfit, hcw, hrl, hlL⟩ := code_at ls L tb mask k st ctx hk h0 inv
  rw [hc, hcw]
  have htab : ∀ j, j < 2 ^ tb → (fillTable st.table (ls.getD k 0 * 65536 + k) (2 ^ ls.getD k 0) st.table.size
      (reverseBits c (ls.getD k 0)))[j]! =
      if j % 2 ^ ls.getD k 0 = reverseBits c (ls.getD k 0) then ls.getD k 0 * 65536 + k else st.table[j]! := by
    intro j hj
    exact fillTable_full _ _ _ _ hrl j (by rw [inv.hsize]; exact hj)
  -- a slot that carries the word of `k` carries the word of no earlier symbol
  have hclash : ∀ s cs j, s < k → canonicalCode ls s = some cs → ls.getD s 0 ≤ tb →
      j % 2 ^ ls.getD s 0 = reverseBits cs (ls.getD s 0) → j % 2 ^ ls.getD k 0 = reverseBits c (ls.getD k 0) → False := by
    intro s cs j hsk hcs hsl h1 h2
    rcases Nat.le_total (ls.getD k 0) (ls.getD s 0) with hle | hle
    · have := pf_index ls ctx.hfit s k cs c hcs hcan hle (by rw [← h1, mod_mod_pow _ _ _ hle, h2])
      omega
    · have := pf_index ls ctx.hfit k s c cs hcan hcs hle (by rw [← h2, mod_mod_pow _ _ _ hle, h1])
      omega
  refine { hnsz := by simp [inv.hnsz], hnext := next_step ls L tb mask k st ctx hk h0 inv c hc hfit,
           hsize := by rw [fillTable_size _ _ _ _ hrl, inv.hsize], hw1 := inv.hw1,
           hbound := by have := inv.hbound; simp only; omega, hshort := ?_, hlong := ?_, hts := ?_ }
  · intro s cs hsk hcs hsl j hj hm
    simp only
    rw [htab j hj]
    by_cases hsk' : s = k
    · subst hsk'
      rw [hcan] at hcs; injection hcs with hcs; subst hcs
      rw [if_pos hm]
    · by_cases hmk : j % 2 ^ ls.getD k 0 = reverseBits c (ls.getD k 0)
      · exact absurd hmk (fun h => hclash s cs j (by omega) hcs hsl hm h)
      · rw [if_neg hmk]; exact inv.hshort s cs (by omega) hcs hsl j hj hm
  · intro s cs hsk hcs hsl
    have hsk' : s ≠ k := by intro h; subst h; omega
    obtain ⟨root, m, r1, r2, r3, r4⟩ := inv.hlong s cs (by omega) hcs hsl
    refine ⟨root, m, ?_, r2, r3, r4⟩
    simp only
    rw [htab _ (Nat.mod_lt _ (Nat.two_pow_pos _)), if_neg, r1]
    intro h
    rw [mod_mod_pow _ _ _ hs] at h
    have := pf_index ls ctx.hfit s k cs c hcs hcan (by omega) h
    omega
  · intro j hj
    simp only
    rw [htab j hj]
    by_cases hmk : j % 2 ^ ls.getD k 0 = reverseBits c (ls.getD k 0)
    · rw [if_pos hmk]
      exact Or.inr (Or.inl ⟨k, c, by omega, hcan, hs, hmk, rfl⟩)
    · rw [if_neg hmk]
      rcases inv.hts j hj with h | ⟨s, cs, h1, h2⟩ | h
      · exact Or.inl h
      · exact Or.inr (Or.inl ⟨s, cs, by omega, h2⟩)
      · exact Or.inr (Or.inr h)

theorem step_long (ls : List Nat) (L tb mask k : Nat) (st : St) (ctx : Ctx ls L tb mask) (hk : k < ls.length)
    (hlong : tb < ls.getD k 0) (inv : Inv ls L tb k st)
    (tree0 : Array Node) (table0 : Array Nat) (node : Nat) (tree1 : Array Node) (node1 : Nat)
    (hkeep0 : Keep st.tree tree0) (hw0 : W1 tree0) (hnode : node < tree0.size)
    (hsz0 : tree0.size ≤ st.tree.size + 1) (hsz0' : st.tree.size ≤ tree0.size)
    (htsz : table0.size = 2 ^ tb)
    (hidx : table0[reverseBits st.next[ls.getD k 0]! (ls.getD k 0) % 2 ^ tb]! = node + 1)
    (hnz : ∀ j : Nat, st.table[j]! ≠ 0 → table0[j]! = st.table[j]!)
    (hother : ∀ j : Nat, j ≠ reverseBits st.next[ls.getD k 0]! (ls.getD k 0) % 2 ^ tb → table0[j]! = st.table[j]!)
    (hwalk : walkInsert st.next[ls.getD k 0]! (ls.getD k 0 - tb) tree0 node = some (tree1, node1))
    (hempty : tree1[node1]! = Node.empty) :
    Inv ls L tb (k + 1)
      { next := st.next.setIfInBounds (ls.getD k 0) ((st.next[ls.getD k 0]! + 1) % 65536),
        tree := tree1.setIfInBounds node1 (.leaf k), table := table0 } := by
  have h0 : ls.getD k 0 ≠ 0 := by omega
  obtain ⟨c, hc, hcan, hfit, hcw, hrl, hlL⟩ := code_at ls L tb mask k st ctx hk h0 inv
  rw [hc] at hidx hother hwalk ⊢
  obtain ⟨a1, a2, a3, a4, a5, a6⟩ := walk_spec c _ tree0 node tree1 node1 hw0 hnode hwalk
  have k2 : Keep tree1 (tree1.setIfInBounds node1 (.leaf k)) := keep_set tree1 node1 _ hempty
  have hleaf : (tree1.setIfInBounds node1 (Node.leaf k))[node1]! = Node.leaf k := by
    rw [aget_set, if_pos ⟨rfl, a2⟩]
  have K : Keep st.tree (tree1.setIfInBounds node1 (.leaf k)) := Keep.trans (Keep.trans hkeep0 a6) k2
  have hsz2 : (tree1.setIfInBounds node1 (Node.leaf k)).size = tree1.size := Array.size_setIfInBounds
  have hd5 : ls.getD k 0 - tb ≤ 5 := by
    rcases ctx.hlongtb _ (getD_mem ls k hk) with h | h
    · omega
    · have := ctx.hL; omega
  refine { hnsz := by simp [inv.hnsz], hnext := next_step ls L tb mask k st ctx hk h0 inv c hc hfit,
           hsize := htsz, hw1 := ?_, hbound := ?_, hshort := ?_, hlong := ?_, hts := ?_ }
  · intro i off hi
    simp only at hi ⊢
    rw [aget_set] at hi
    by_cases hin : i = node1 ∧ node1 < tree1.size
    · rw [if_pos hin] at hi; cases hi
    · rw [if_neg hin] at hi
      rw [hsz2]; exact a1 i off hi
  · simp only
    have := inv.hbound
    rw [hsz2]; omega
  · intro s cs hsk hcs hsl j hj hm
    have hsk' : s ≠ k := by intro h; subst h; omega
    have hold := inv.hshort s cs (by omega) hcs hsl j hj hm
    simp only
    have hl0 := (canonical_some ls s cs hcs).2.1
    rw [hnz j (by rw [hold]; have : 1 ≤ ls.getD s 0 := by omega
                  have : 65536 ≤ ls.getD s 0 * 65536 := Nat.le_mul_of_pos_left _ (by omega)
                  omega), hold]
  · intro s cs hsk hcs hsl
    simp only
    by_cases hsk' : s = k
    · subst hsk'
      rw [hcan] at hcs; injection hcs with hcs; subst hcs
      exact ⟨node, node1, hidx, by rw [hsz2]; omega, path_keep k2 _ _ _ a5, hleaf⟩
    · obtain ⟨root, m, r1, r2, r3, r4⟩ := inv.hlong s cs (by omega) hcs hsl
      refine ⟨root, m, by rw [hnz _ (by rw [r1]; omega), r1], by rw [hsz2]; omega, path_keep K _ _ _ r3, ?_⟩
      rw [K m (by rw [r4]; exact fun h => by cases h), r4]
  · intro j hj
    simp only
    by_cases hji : j = reverseBits c (ls.getD k 0) % 2 ^ tb
    · exact Or.inr (Or.inr ⟨node, by rw [hji]; exact hidx, by rw [hsz2]; omega⟩)
    · rw [hother j hji]
      rcases inv.hts j hj with h | ⟨s, cs, h1, h2⟩ | ⟨root, h1, h2⟩
      · exact Or.inl h
      · exact Or.inr (Or.inl ⟨s, cs, by omega, h2⟩)
      · exact Or.inr (Or.inr ⟨root, h1, by rw [hsz2]; omega⟩)

/-- **one iteration of the symbol loop keeps the invariant** (when it does not fail) -/
theorem step (ls : List Nat) (L tb mask k : Nat) (st st' : St) (ctx : Ctx ls L tb mask) (hk : k < ls.length)
    (inv : Inv ls L tb k st) (h : insertSym tb mask st k (ls.getD k 0) = some st') : Inv ls L tb (k + 1) st' := by
  unfold insertSym at h
  by_cases h0 : ls.getD k 0 = 0
  · rw [if_pos h0] at h
    injection h with h; subst h
    exact step_zero ls L tb k st hk h0 inv
  · rw [if_neg h0] at h
    by_cases hs : ls.getD k 0 ≤ tb
    · simp only [hs, if_true] at h
      injection h with h; subst h
      exact step_short ls L tb mask k st ctx hk h0 hs inv
    · simp only [hs, if_false] at h
      obtain ⟨c, hc, hcan, hfit, hcw, hrl, hlL⟩ := code_at ls L tb mask k st ctx hk h0 inv
      have hidxlt : reverseBits c (ls.getD k 0) % 2 ^ tb < st.table.size := by
        rw [inv.hsize]; exact Nat.mod_lt _ (Nat.two_pow_pos _)
      rw [hc, hcw, ctx.hmask] at h
      by_cases htv : st.table[reverseBits c (ls.getD k 0) % 2 ^ tb]! = 0
      · simp only [htv, if_true] at h
        cases hw : walkInsert c (ls.getD k 0 - tb) (st.tree.push Node.empty) st.tree.size with
        | none => rw [hw] at h; cases h
        | some r =>
          obtain ⟨tree1, node1⟩ := r
          rw [hw] at h
          simp only at h
          cases hn1 : tree1[node1]! with
          | branch off => rw [hn1] at h; cases h
          | leaf s => rw [hn1] at h; cases h
          | empty =>
            rw [hn1] at h
            simp only at h
            injection h with h; subst h
            have := step_long ls L tb mask k st ctx hk (by omega) inv (st.tree.push Node.empty)
              (st.table.setIfInBounds (reverseBits c (ls.getD k 0) % 2 ^ tb) (st.tree.size + 1)) st.tree.size tree1 node1
              (keep_push _)
              (by intro i off hi
                  rw [aget_push_empty] at hi
                  have := inv.hw1 i off hi
                  rw [Array.size_push]; omega)
              (by rw [Array.size_push]; omega) (by rw [Array.size_push]) (by rw [Array.size_push]; omega)
              (by rw [Array.size_setIfInBounds, inv.hsize])
              (by rw [hc, aget_set, if_pos ⟨rfl, hidxlt⟩])
              (by intro j hj
                  rw [aget_set, if_neg]
                  intro hh; rw [hh.1] at hj; exact hj htv)
              (by intro j hj
                  rw [hc] at hj
                  rw [aget_set, if_neg (fun hh => hj hh.1)])
              (by rw [hc]; exact hw) hn1
            rw [hc] at this
            exact this
      · simp only [htv, if_false] at h
        rcases inv.hts _ (Nat.mod_lt (reverseBits c (ls.getD k 0)) (Nat.two_pow_pos tb)) with hz | ⟨s, cs, s1, s2, s3, s4, _⟩ | ⟨root, r1, r2⟩
        · exact absurd hz htv
        · exfalso
          rw [mod_mod_pow _ _ _ s3] at s4
          have := pf_index ls ctx.hfit k s c cs hcan s2 (by omega) s4
          omega
        · rw [r1, Nat.add_sub_cancel] at h
          cases hw : walkInsert c (ls.getD k 0 - tb) st.tree root with
          | none => rw [hw] at h; cases h
          | some r =>
            obtain ⟨tree1, node1⟩ := r
            rw [hw] at h
            simp only at h
            cases hn1 : tree1[node1]! with
            | branch off => rw [hn1] at h; cases h
            | leaf s => rw [hn1] at h; cases h
            | empty =>
              rw [hn1] at h
              simp only at h
              injection h with h; subst h
              have := step_long ls L tb mask k st ctx hk (by omega) inv st.tree st.table root tree1 node1
                (Keep.refl _) inv.hw1 r2 (by omega) (Nat.le_refl _) inv.hsize (by rw [hc]; exact r1)
                (fun j _ => rfl) (fun j _ => rfl) (by rw [hc]; exact hw) hn1
              rw [hc] at this
              exact this

/-- the whole symbol loop -/
theorem insertAll_inv (ls : List Nat) (L tb mask : Nat) (ctx : Ctx ls L tb mask) (st0 : St) (inv0 : Inv ls L tb 0 st0) :
    ∀ k st, k ≤ ls.length → insertAll tb mask ls k st0 = some st → Inv ls L tb k st := by
  intro k
  induction k with
  | zero => intro st _ h; simp only [insertAll, Option.some.injEq] at h; subst h; exact inv0
  | succ k ih =>
    intro st hk h
    rw [insertAll] at h
    cases hprev : insertAll tb mask ls k st0 with
    | none => rw [hprev] at h; cases h
    | some stk =>
      rw [hprev] at h
      exact step ls L tb mask k stk st ctx (by omega) (ih stk (by omega) hprev) h

/-! ### the whole builder -/

theorem le_foldl_max : ∀ (ls : List Nat) (a : Nat), a ≤ ls.foldl max a ∧ ∀ l ∈ ls, l ≤ ls.foldl max a := by
  intro ls
  induction ls with
  | nil => intro a; exact ⟨Nat.le_refl _, fun l h => by cases h⟩
  | cons x ls ih =>
    intro a
    obtain ⟨i1, i2⟩ := ih (max a x)
    refine ⟨Nat.le_trans (Nat.le_max_left a x) i1, fun l hl => ?_⟩
    rcases List.mem_cons.mp hl with rfl | hl
    · exact Nat.le_trans (Nat.le_max_right a l) i1
    · exact i2 l hl

theorem foldl_max_le : ∀ (ls : List Nat) (a b : Nat), a ≤ b → (∀ l ∈ ls, l ≤ b) → ls.foldl max a ≤ b := by
  intro ls
  induction ls with
  | nil => intro a b h _; exact h
  | cons x ls ih =>
    intro a b h hl
    exact ih (max a x) b (Nat.max_le.mpr ⟨h, hl x List.mem_cons_self⟩) (fun l hm => hl l (List.mem_cons_of_mem _ hm))

/-- **Part 2**: whenever the (model of the) builder returns a table/tree, that structure is
    `Good`, and the code is complete -/
theorem build_good (ls : List Nat) (hall : ∀ l ∈ ls, l ≤ 15) (hn : ls.length ≤ 5000) (t : HT) (h : build ls = .ok t) :
    Good t ls ∧ 2 ≤ (ls.filter (· ≠ 0)).length ∧ ∃ L, 1 ≤ L ∧ L ≤ 15 ∧ (∀ l ∈ ls, l ≤ L) ∧ blockEnd ls L = 2 ^ L := by
  unfold build at h
  simp only at h
  by_cases hnum0 : (ls.filter (· ≠ 0)).length = 0
  · rw [if_pos hnum0] at h; cases h
  · rw [if_neg hnum0] at h
    by_cases hnum1 : (ls.filter (· ≠ 0)).length = 1
    · rw [if_pos hnum1] at h; cases h
    · rw [if_neg hnum1] at h
      generalize hLdef : ls.foldl max 0 = L at h
      obtain ⟨_, hmaxall⟩ := le_foldl_max ls 0
      rw [hLdef] at hmaxall
      have hL15 : L ≤ 15 := by rw [← hLdef]; exact foldl_max_le ls 0 15 (by omega) hall
      have hL1 : 1 ≤ L := by
        -- some length is non-zero
        have : ∃ l ∈ ls, l ≠ 0 := by
          cases hf : ls.filter (· ≠ 0) with
          | nil => rw [hf] at hnum0; exact absurd rfl hnum0
          | cons x _ =>
            have hx : x ∈ ls.filter (· ≠ 0) := by rw [hf]; exact List.mem_cons_self
            have := List.mem_filter.mp hx
            exact ⟨x, this.1, by simpa using this.2⟩
        obtain ⟨l, hl, hl0⟩ := this
        have := hmaxall l hl
        omega
      obtain ⟨n1, n2, n3⟩ := nextCodes_spec ls L hL15
      by_cases hcur : (nextCodes ls L).2 ≠ 2 * 2 ^ L
      · rw [if_pos hcur] at h; cases h
      · rw [if_neg hcur] at h
        have hend : blockEnd ls L = 2 ^ L := by
          have e : nextCode ls (L + 1) = blockEnd ls L * 2 := rfl
          have : (nextCodes ls L).2 = 2 * 2 ^ L := by
            by_cases hh : (nextCodes ls L).2 = 2 * 2 ^ L
            · exact hh
            · exact absurd hh hcur
          omega
        have ctx : Ctx ls L (min L 10) (2 ^ min L 10 - 1) :=
          { hL := hL15, hall := hmaxall, hfit := fun s c hs => code_fits ls L hend s c hs (by
              obtain ⟨s1, _, _⟩ := canonical_some ls s c hs
              exact hmaxall _ (getD_mem ls s s1)),
            hmask := by have := Nat.two_pow_pos (min L 10); omega,
            htb := Nat.min_le_right _ _,
            hlongtb := fun l hl => by
              have := hmaxall l hl
              rcases Nat.le_total L 10 with h10 | h10
              · left; rw [Nat.min_eq_left h10]; exact this
              · right; exact Nat.min_eq_right h10 }
        cases hins : insertAll (min L 10) (2 ^ min L 10 - 1) ls ls.length
            { next := (nextCodes ls L).1, tree := #[], table := Array.replicate (2 ^ min L 10) 0 } with
        | none => rw [hins] at h; cases h
        | some st =>
          rw [hins] at h
          simp only at h
          injection h with h; subst h
          have inv0 : Inv ls L (min L 10) 0 { next := (nextCodes ls L).1, tree := #[], table := Array.replicate (2 ^ min L 10) 0 } := by
            refine { hnsz := n2, hnext := ?_, hsize := by simp, hw1 := ?_, hbound := by simp, hshort := ?_, hlong := ?_, hts := ?_ }
            · intro len h1 h2
              rw [n3 len h1 h2]
              have hb := blockEnd_le ls L hend len h1 h2
              have hle : nextCode ls len ≤ blockEnd ls len := by unfold blockEnd; exact Nat.le_add_right _ _
              have hp : 2 ^ len ≤ 2 ^ 15 := Nat.pow_le_pow_right (by decide) (by omega)
              have : (2 : Nat) ^ 15 = 32768 := by decide
              rw [Nat.mod_eq_of_lt (by omega)]
              simp [rank]
            · intro i off hi
              simp at hi
            · intro s c hs; omega
            · intro s c hs; omega
            · intro j hj
              left
              simp [hj]
          have inv := insertAll_inv ls L (min L 10) (2 ^ min L 10 - 1) ctx _ inv0 ls.length st (Nat.le_refl _) hins
          refine ⟨?_, by omega, L, hL1, hL15, hmaxall, hend⟩
          intro s v hv hm
          obtain ⟨c, hcan, hmv⟩ := hm
          obtain ⟨s1, s2, _⟩ := canonical_some ls s c hcan
          have hfit := ctx.hfit s c hcan
          have hlL : ls.getD s 0 ≤ L := hmaxall _ (getD_mem ls s s1)
          unfold look
          simp only
          rw [ctx.hmask]
          by_cases hsl : ls.getD s 0 ≤ min L 10
          · have e := inv.hshort s c s1 hcan hsl (v % 2 ^ min L 10) (Nat.mod_lt _ (Nat.two_pow_pos _))
              (by rw [mod_mod_pow _ _ _ hsl]; exact hmv)
            rw [e]
            have hd : (ls.getD s 0 * 65536 + s) / 65536 = ls.getD s 0 := by omega
            have hmod : (ls.getD s 0 * 65536 + s) % 65536 = s := by omega
            rw [hd, hmod, if_pos s2]
          · have htb10 : min L 10 = 10 := by
              rcases ctx.hlongtb _ (getD_mem ls s s1) with h | h
              · omega
              · exact h
            obtain ⟨root, m, r1, r2, r3, r4⟩ := inv.hlong s c s1 hcan (by omega)
            have hj : v % 2 ^ min L 10 = reverseBits c (ls.getD s 0) % 2 ^ min L 10 := by
              rw [← hmv, mod_mod_pow _ _ _ (by omega)]
            rw [hj, r1]
            have hb := inv.hbound
            have hd : (root + 1) / 65536 = 0 := by omega
            have hmod : (root + 1) % 65536 - 1 = root := by omega
            rw [hd, if_neg (by omega), hmod]
            rw [htb10] at r3
            have hlen : (msbBits c (ls.getD s 0 - 10)).length = ls.getD s 0 - 10 := by simp [msbBits]
            have hbits : msbBits c (ls.getD s 0 - 10) = lsbBits (v / 1024) (msbBits c (ls.getD s 0 - 10)).length := by
              have := peek_tail v c (ls.getD s 0) 10 hfit (by omega) hmv
              have e10 : (2 : Nat) ^ 10 = 1024 := by decide
              rw [e10] at this
              rw [hlen, this]
            rw [slow_path st.tree s _ 16 (v / 1024) root m 10 r3 r4 hbits (by rw [hlen]; omega), hlen]
            congr 2
            omega

end Huff
