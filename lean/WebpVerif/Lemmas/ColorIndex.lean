import WebpVerif.Model.ColorIndex
import WebpVerif.Lemmas.LLoop

/-!
The in-place expansion of `apply_color_indexing_transform` (model `CIdx.run`) gives every pixel
the value the specification defines from the ORIGINAL packed index image: a group is always
written over positions at or above the packed pixel it was read from, and never over a group
written before.
-/
namespace CIdx
open LLoop (get_set)

theorem writeRun_spec (f : Nat → Nat) (out : Nat) : ∀ (n : Nat) (d : Array Nat),
    (writeRun d out n f).size = d.size ∧
    ∀ j, (writeRun d out n f)[j]! = if out ≤ j ∧ j < out + n ∧ j < d.size then f (j - out) else d[j]! := by
  intro n
  induction n with
  | zero =>
    intro d
    refine ⟨rfl, fun j => ?_⟩
    rw [if_neg (by omega)]; rfl
  | succ n ih =>
    intro d
    have e : writeRun d out (n + 1) f = (writeRun d out n f).setIfInBounds (out + n) (f n) := by
      unfold writeRun
      rw [List.range_succ, List.foldl_append]
      rfl
    obtain ⟨i1, i2⟩ := ih d
    rw [e]
    refine ⟨by rw [Array.size_setIfInBounds, i1], fun j => ?_⟩
    rw [get_set, i1, i2 j]
    by_cases hj : j = out + n ∧ out + n < d.size
    · rw [if_pos hj, if_pos ⟨by omega, by omega, by omega⟩]
      congr 1; omega
    · rw [if_neg hj]
      by_cases hc : out ≤ j ∧ j < out + n ∧ j < d.size
      · rw [if_pos hc, if_pos ⟨hc.1, by omega, hc.2.2⟩]
      · rw [if_neg hc, if_neg (by omega)]

section
variable (pal : Array Nat) (tsize bpe P w iw h : Nat) (d0 : Array Nat)

/-- pixels in the group of packed column `x` -/
def cnt (P w iw x : Nat) : Nat := if x = iw - 1 then w - P * (iw - 1) else P

structure Geo (P w iw : Nat) : Prop where
  hP : 1 ≤ P
  hiw : 1 ≤ iw
  hlo : (iw - 1) * P < w
  hhi : w ≤ iw * P

theorem geo_iw_le (g : Geo P w iw) : iw ≤ w := by
  have h1 : iw - 1 ≤ (iw - 1) * P := Nat.le_mul_of_pos_right _ g.hP
  have := g.hlo; have := g.hiw
  omega

theorem geo_row (g : Geo P w iw) (x : Nat) (hx : x < iw) : x * P + cnt P w iw x ≤ w := by
  unfold cnt
  by_cases h : x = iw - 1
  · rw [if_pos h, h, Nat.mul_comm P]
    have := g.hlo; omega
  · rw [if_neg h]
    have h1 : (x + 1) * P ≤ (iw - 1) * P := Nat.mul_le_mul_right _ (by omega)
    rw [Nat.succ_mul] at h1
    have := g.hlo; omega

theorem geo_cnt_le (g : Geo P w iw) (x : Nat) : cnt P w iw x ≤ P := by
  unfold cnt
  by_cases h : x = iw - 1
  · rw [if_pos h, Nat.mul_comm P]
    have h1 : iw * P = (iw - 1) * P + P := by
      have := g.hiw
      conv_lhs => rw [show iw = (iw - 1) + 1 by omega]
      rw [Nat.succ_mul]
    have := g.hhi; omega
  · rw [if_neg h]

/-- a group starts at or above the packed pixel it is computed from -/
theorem geo_above (g : Geo P w iw) (y x : Nat) : y * iw + x ≤ y * w + x * P := by
  have h1 : y * iw ≤ y * w := Nat.mul_le_mul_left _ (geo_iw_le P w iw g)
  have h2 : x ≤ x * P := Nat.le_mul_of_pos_right _ g.hP
  omega

theorem geo_same_row (g : Geo P w iw) (y x x' : Nat) (hx : x < x') :
    y * w + x * P + cnt P w iw x ≤ y * w + x' * P := by
  have h1 := geo_cnt_le P w iw g x
  have h2 : (x + 1) * P ≤ x' * P := Nat.mul_le_mul_right _ (by omega)
  rw [Nat.succ_mul] at h2
  omega

theorem geo_next_row (g : Geo P w iw) (y y' x x' : Nat) (hx : x < iw) (hy : y < y') :
    y * w + x * P + cnt P w iw x ≤ y' * w + x' * P := by
  have h1 := geo_row P w iw g x hx
  have h2 : (y + 1) * w ≤ y' * w := Nat.mul_le_mul_right _ (by omega)
  rw [Nat.succ_mul] at h2
  omega

theorem geo_in_buffer (g : Geo P w iw) (y x : Nat) (hx : x < iw) (hy : y < h) :
    y * w + x * P + cnt P w iw x ≤ w * h := by
  have h1 := geo_row P w iw g x hx
  have h2 : (y + 1) * w ≤ h * w := Nat.mul_le_mul_right _ (by omega)
  rw [Nat.succ_mul, Nat.mul_comm h w] at h2
  omega

/-- the state with rows above `y` done and the columns `x..` of row `y` done -/
structure Inv (y x : Nat) (d : Array Nat) : Prop where
  size : d.size = d0.size
  low : ∀ j, j < y * iw + x → d[j]! = d0[j]!
  done : ∀ y' x', x' < iw → y' < h → (y < y' ∨ (y' = y ∧ x ≤ x')) → ∀ t, t < cnt P w iw x' →
    d[y' * w + x' * P + t]! = entry pal tsize bpe (green d0[y' * iw + x']!) t

theorem rowLoop_inv (g : Geo P w iw) (hsz : d0.size = w * h) (y : Nat) (hy : y < h) :
    ∀ (x : Nat) (d : Array Nat), x ≤ iw → Inv pal tsize bpe P w iw h d0 y x d →
      Inv pal tsize bpe P w iw h d0 y 0 (rowLoop pal tsize bpe P w iw y x d) := by
  intro x
  induction x with
  | zero => intro d _ inv; exact inv
  | succ x ih =>
    intro d hx inv
    rw [rowLoop]
    apply ih _ (by omega)
    have hread : d[y * iw + x]! = d0[y * iw + x]! := inv.low _ (by omega)
    rw [hread]
    have hcnt : (if x = iw - 1 then w - P * (iw - 1) else P) = cnt P w iw x := rfl
    rw [hcnt]
    obtain ⟨s1, s2⟩ := writeRun_spec (entry pal tsize bpe (green d0[y * iw + x]!)) (y * w + x * P) (cnt P w iw x) d
    have hbuf := geo_in_buffer P w iw h g y x (by omega) hy
    refine { size := by rw [s1, inv.size], low := ?_, done := ?_ }
    · intro j hj
      have := geo_above P w iw g y x
      rw [s2 j, if_neg (by omega)]
      exact inv.low j (by omega)
    · intro y' x' hx' hy' hord t ht
      rw [s2]
      by_cases hcell : y' = y ∧ x' = x
      · obtain ⟨rfl, rfl⟩ := hcell
        rw [if_pos ⟨by omega, by omega, by rw [inv.size, hsz]; omega⟩]
        congr 1; omega
      · -- a group written before: above the one written now
        have hprev : y < y' ∨ (y' = y ∧ x + 1 ≤ x') := by
          rcases hord with h | ⟨h1, h2⟩
          · exact Or.inl h
          · right; refine ⟨h1, ?_⟩
            rcases Nat.lt_or_ge x x' with h | h
            · exact h
            · exact absurd ⟨h1, by omega⟩ hcell
        have hdis : y * w + x * P + cnt P w iw x ≤ y' * w + x' * P := by
          rcases hprev with h | ⟨h1, h2⟩
          · exact geo_next_row P w iw g y y' x x' (by omega) h
          · rw [h1]; exact geo_same_row P w iw g y x x' (by omega)
        rw [if_neg (by omega)]
        exact inv.done y' x' hx' hy' hprev t ht

/-- rows `y..` done -/
structure RInv (y : Nat) (d : Array Nat) : Prop where
  size : d.size = d0.size
  low : ∀ j, j < y * iw → d[j]! = d0[j]!
  done : ∀ y' x', x' < iw → y' < h → y ≤ y' → ∀ t, t < cnt P w iw x' →
    d[y' * w + x' * P + t]! = entry pal tsize bpe (green d0[y' * iw + x']!) t

theorem run_inv (g : Geo P w iw) (hsz : d0.size = w * h) :
    ∀ (y : Nat) (d : Array Nat), y ≤ h → RInv pal tsize bpe P w iw h d0 y d →
      RInv pal tsize bpe P w iw h d0 0 (run pal tsize bpe P w iw y d) := by
  intro y
  induction y with
  | zero => intro d _ inv; exact inv
  | succ y ih =>
    intro d hy inv
    rw [run]
    apply ih _ (by omega)
    have i0 : Inv pal tsize bpe P w iw h d0 y iw d :=
      { size := inv.size,
        low := fun j hj => inv.low j (by rw [Nat.succ_mul]; exact hj),
        done := fun y' x' hx' hy' hord t ht => inv.done y' x' hx' hy' (by
          rcases hord with h | ⟨_, h2⟩
          · omega
          · omega) t ht }
    have i1 := rowLoop_inv pal tsize bpe P w iw h d0 g hsz y (by omega) iw d (Nat.le_refl _) i0
    exact { size := i1.size, low := fun j hj => i1.low j (by omega),
            done := fun y' x' hx' hy' hord t ht => i1.done y' x' hx' hy' (by
              rcases Nat.lt_or_ge y y' with h | h
              · exact Or.inl h
              · exact Or.inr ⟨by omega, Nat.zero_le _⟩) t ht }

/-- **in place = out of place**: every pixel of the result is the table entry selected by the
    ORIGINAL packed pixel of its group -/
theorem run_spec (g : Geo P w iw) (hsz : d0.size = w * h) (y X : Nat) (hy : y < h) (hX : X < w) :
    (run pal tsize bpe P w iw h d0)[y * w + X]! = entry pal tsize bpe (green d0[y * iw + X / P]!) (X % P) := by
  have r0 : RInv pal tsize bpe P w iw h d0 h d0 :=
    { size := rfl, low := fun _ _ => rfl, done := fun y' x' _ hy' hord => by omega }
  have r := run_inv pal tsize bpe P w iw h d0 g hsz h d0 (Nat.le_refl _) r0
  have hPpos : 0 < P := g.hP
  have hx : X / P < iw := by
    apply Nat.div_lt_of_lt_mul
    have := g.hhi
    rw [Nat.mul_comm]; omega
  have hdm := Nat.div_add_mod X P
  have ht : X % P < cnt P w iw (X / P) := by
    unfold cnt
    by_cases hlast : X / P = iw - 1
    · rw [if_pos hlast, ← hlast]
      omega
    · rw [if_neg hlast]; exact Nat.mod_lt _ hPpos
  have := r.done y (X / P) hx hy (Nat.zero_le _) (X % P) ht
  rw [← this]
  congr 1
  rw [Nat.mul_comm (X / P) P]
  omega

end
end CIdx
