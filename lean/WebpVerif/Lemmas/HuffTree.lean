import WebpVerif.Lemmas.HuffRead

/-!
`HuffmanTree::build_implicit`, part 2a: arrays, paths in the secondary tree, the depth loop.
-/
namespace Huff
open Prefix

/-! ### arrays -/

theorem aget_set {α : Type} [Inhabited α] (a : Array α) (e i : Nat) (x : α) :
    (a.setIfInBounds e x)[i]! = if i = e ∧ e < a.size then x else a[i]! := by
  rw [Array.getElem!_eq_getD, Array.getD_eq_getD_getElem?, Array.getElem?_setIfInBounds]
  by_cases h : e = i
  · subst h
    by_cases h2 : e < a.size
    · simp [h2]
    · simp [h2]
  · have : ¬ (i = e ∧ e < a.size) := by intro hh; exact h hh.1.symm
    rw [if_neg h, if_neg this, Array.getElem!_eq_getD, Array.getD_eq_getD_getElem?]

theorem aget_push_empty (tree : Array Node) (i : Nat) : (tree.push .empty)[i]! = tree[i]! := by
  rw [Array.getElem!_eq_getD, Array.getD_eq_getD_getElem?, Array.getElem?_push]
  by_cases h : i = tree.size
  · subst h
    simp
    rfl
  · rw [if_neg h, Array.getElem!_eq_getD, Array.getD_eq_getD_getElem?]

/-! ### paths -/

/-- from node `n`, following the bits through `Branch` nodes, one arrives at node `m` -/
def Path (tree : Array Node) : Nat → List Nat → Nat → Prop
  | n, [], m => n = m
  | n, b :: bs, m => ∃ off, tree[n]! = .branch off ∧ Path tree (n + off + b) bs m

/-- only `Empty` slots differ -/
@[reducible] def Keep (t1 t2 : Array Node) : Prop := ∀ i : Nat, t1[i]! ≠ Node.empty → t2[i]! = t1[i]!

theorem Keep.refl (t : Array Node) : Keep t t := fun _ _ => rfl

theorem Keep.trans {a b c : Array Node} (h1 : Keep a b) (h2 : Keep b c) : Keep a c := by
  intro i hi
  have e1 := h1 i hi
  have e2 := h2 i (by rw [e1]; exact hi)
  rw [e2, e1]

theorem keep_push (t : Array Node) : Keep t (t.push .empty) := fun i _ => aget_push_empty t i

theorem keep_set (t : Array Node) (e : Nat) (x : Node) (he : t[e]! = .empty) : Keep t (t.setIfInBounds e x) := by
  intro i hi
  rw [aget_set, if_neg]
  intro hh
  rw [hh.1] at hi
  exact hi he

theorem path_keep {t1 t2 : Array Node} (hk : Keep t1 t2) : ∀ (bits : List Nat) (n m : Nat),
    Path t1 n bits m → Path t2 n bits m := by
  intro bits
  induction bits with
  | nil => intro n m h; exact h
  | cons b bs ih =>
    intro n m h
    obtain ⟨off, h1, h2⟩ := h
    exact ⟨off, by rw [hk n (by rw [h1]; exact fun h => by cases h), h1], ih _ _ h2⟩

theorem path_snoc (tree : Array Node) : ∀ (bits : List Nat) (n k off b : Nat),
    Path tree n bits k → tree[k]! = .branch off → Path tree n (bits ++ [b]) (k + off + b) := by
  intro bits
  induction bits with
  | nil => intro n k off b h hk; subst h; exact ⟨off, hk, rfl⟩
  | cons x bs ih =>
    intro n k off b h hk
    obtain ⟨o, h1, h2⟩ := h
    exact ⟨o, h1, ih _ _ _ _ h2 hk⟩

/-- the slow path of `read_symbol` follows a path to its leaf -/
theorem slow_path (tree : Array Node) (s : Nat) : ∀ (bits : List Nat) (fuel x n m depth : Nat),
    Path tree n bits m → tree[m]! = .leaf s → bits = lsbBits x bits.length → bits.length < fuel →
    slow tree fuel x n depth = some (s, depth + bits.length) := by
  intro bits
  induction bits with
  | nil =>
    intro fuel x n m depth hp hm _ hf
    have : n = m := hp
    subst this
    obtain ⟨f, rfl⟩ : ∃ f, fuel = f + 1 := ⟨fuel - 1, by simp at hf; omega⟩
    rw [slow, hm]; rfl
  | cons b bs ih =>
    intro fuel x n m depth hp hm hb hf
    obtain ⟨off, h1, h2⟩ := hp
    obtain ⟨f, rfl⟩ : ∃ f, fuel = f + 1 := ⟨fuel - 1, by simp at hf; omega⟩
    rw [slow, h1]
    simp only
    -- the first bit of x is b, the rest are the bits of x / 2
    have hx : lsbBits x (bs.length + 1) = (x % 2) :: lsbBits (x / 2) bs.length := by
      unfold lsbBits
      rw [List.range_succ_eq_map, List.map_cons, List.map_map]
      simp only [Nat.pow_zero, Nat.div_one]
      congr 1
      apply List.map_congr_left
      intro k _
      simp only [Function.comp, Nat.pow_succ]
      rw [Nat.mul_comm, Nat.div_div_eq_div_mul]
    rw [List.length_cons, hx] at hb
    injection hb with hb1 hb2
    rw [← hb1]
    have := ih f (x / 2) (n + off + b) m (depth + 1) h2 hm hb2 (by simp at hf; omega)
    rw [this, List.length_cons]
    congr 2; omega

/-! ### the depth loop -/

/-- children of branches are inside the vector -/
@[reducible] def W1 (tree : Array Node) : Prop := ∀ i off : Nat, tree[i]! = Node.branch off → i + off + 1 < tree.size

theorem msbBits_cons (code d : Nat) : msbBits code (d + 1) = (code / 2 ^ d % 2) :: msbBits code d := by
  unfold msbBits
  rw [List.range_succ_eq_map, List.map_cons, List.map_map]
  congr 1
  apply List.map_congr_left
  intro k _
  simp only [Function.comp]
  have : d + 1 - 1 - (k + 1) = d - 1 - k := by omega
  rw [this]

theorem walk_spec (code : Nat) : ∀ (d : Nat) (tree : Array Node) (node : Nat) (tree' : Array Node) (node' : Nat),
    W1 tree → node < tree.size → walkInsert code d tree node = some (tree', node') →
    W1 tree' ∧ node' < tree'.size ∧ tree.size ≤ tree'.size ∧ tree'.size ≤ tree.size + 2 * d ∧
      Path tree' node (msbBits code d) node' ∧ Keep tree tree' := by
  intro d
  induction d with
  | zero =>
    intro tree node tree' node' hw hn h
    simp only [walkInsert, Option.some.injEq, Prod.mk.injEq] at h
    obtain ⟨rfl, rfl⟩ := h
    exact ⟨hw, hn, Nat.le_refl _, by omega, rfl, Keep.refl _⟩
  | succ d ih =>
    intro tree node tree' node' hw hn h
    rw [walkInsert] at h
    have hb2 : code / 2 ^ d % 2 < 2 := Nat.mod_lt _ (by decide)
    cases hnode : tree[node]! with
    | leaf s => rw [hnode] at h; simp at h
    | branch off =>
      rw [hnode] at h
      simp only at h
      have hin := hw node off hnode
      obtain ⟨a1, a2, a3, a4, a5, a6⟩ := ih tree (node + off + code / 2 ^ d % 2) tree' node' hw (by omega) h
      refine ⟨a1, a2, a3, by omega, ?_, a6⟩
      rw [msbBits_cons]
      exact ⟨off, by rw [a6 node (by rw [hnode]; exact fun h => by cases h), hnode], a5⟩
    | empty =>
      rw [hnode] at h
      simp only at h
      -- the tree after turning `node` into a branch with two fresh empty children
      generalize ht1 : ((tree.setIfInBounds node (.branch (tree.size - node))).push .empty).push .empty = t1 at h
      have hsz : t1.size = tree.size + 2 := by rw [← ht1]; simp
      have hget : ∀ i, t1[i]! = if i = node then .branch (tree.size - node) else tree[i]! := by
        intro i
        rw [← ht1, aget_push_empty, aget_push_empty, aget_set]
        by_cases hi : i = node
        · rw [if_pos ⟨hi, hn⟩, if_pos hi]
        · rw [if_neg (fun hh => hi hh.1), if_neg hi]
      have hw1 : W1 t1 := by
        intro i off hi
        rw [hget] at hi
        by_cases hin : i = node
        · rw [if_pos hin] at hi
          injection hi with hi
          rw [hsz, hin, ← hi]; omega
        · rw [if_neg hin] at hi
          have := hw i off hi
          rw [hsz]; omega
      have hk1 : Keep tree t1 := by
        intro i hi
        rw [hget, if_neg]
        intro hh; rw [hh] at hi; exact hi hnode
      obtain ⟨a1, a2, a3, a4, a5, a6⟩ := ih t1 (node + (tree.size - node) + code / 2 ^ d % 2) tree' node' hw1
        (by rw [hsz]; omega) h
      refine ⟨a1, a2, by omega, by omega, ?_, Keep.trans hk1 a6⟩
      rw [msbBits_cons]
      refine ⟨tree.size - node, ?_, a5⟩
      rw [a6 node (by rw [hget, if_pos rfl]; exact fun h => by cases h), hget, if_pos rfl]

end Huff
