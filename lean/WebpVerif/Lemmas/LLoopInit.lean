import WebpVerif.Lemmas.LLoop

namespace LLoop

/-- the pixel loop's result does not depend on what the buffer held before the call -/
theorem decode_init_independent (c : Cfg) (h32 : c.cacheBits ≤ 32) (hw : 0 < c.width) (init1 init2 : Array Nat)
    (ops : List Op) (h1 : init1.size = c.width * c.height) (h2 : init2.size = c.width * c.height)
    (hcons : cons c (c.width * c.height + 1) 0 0 ops = true) :
    decode c init1 ops = decode c init2 ops := by
  rw [decode_refines c h32 hw init2 ops h2 hcons]
  unfold decode specDecode
  have r : Rel c (initSt c init1) init2 (Array.replicate (if c.cacheBits = 0 then 0 else 2 ^ c.cacheBits) 0) := by
    refine { hsm := h1, hss := h2, hle := Nat.zero_le _, hnbs := Nat.zero_le _, hdata := fun p hp => absurd hp (Nat.not_lt_zero _),
             hcache := rfl, hcsz := fun hb => by rw [Array.size_replicate, if_neg hb], hlast := fun _ h => absurd h (Nat.lt_irrefl _) }
  exact run_refines c h32 hw (c.width * c.height + 1) (initSt c init1) ops init2 _ (c.width * c.height + 1) r hcons
    (by show c.width * c.height - 0 < _; omega) (by show c.width * c.height - 0 < _; omega)

end LLoop
