import WebpVerif.Lemmas.EncToks

/-!
Stage 8 of the bit-level round trip: assembly.  The codes of the four pixel alphabets satisfy the
contract `CodeOK`, every token satisfies `TokOK`, every field is valid, and the specification
decoder applied to the encoder's bytes returns the input.
-/
namespace EncRT
open Enc EncHuff EncTree Prefix BitWriterProof VP8LP

theorem CodeOK.mono {alph : Nat} {fields : List (Nat × Nat)} {L C : Array Nat} {lens : List Nat} {used used' : Nat → Prop}
    (h : CodeOK alph fields L C lens used) (hu : ∀ j, used' j → used j) : CodeOK alph fields L C lens used' :=
  ⟨h.valid, h.read, fun j hj => h.sym j (hu j hj)⟩

theorem list_getElem!_toList (a : Array Nat) (j : Nat) : a.toList[j]! = a[j]! := by
  rw [List.getElem!_eq_getElem?_getD, Array.getElem!_eq_getD, Array.getD_eq_getD_getElem?, Array.getElem?_toList]

/-- the code of the green + length alphabet -/
theorem codeOK_green (f1 : Array Nat) (hs : f1.size = 280) (hsum : f1.toList.sum < 2 ^ 32) (g0 : Nat) (hg0 : g0 < 256)
    (hpos : 0 < f1[g0]!) :
    ∃ n1, CodeOK 280 (treeF f1.toList) (treeLC f1.toList).1 (treeLC f1.toList).2 n1 (fun j => j < 280 ∧ 0 < f1[j]!) := by
  have hlen : f1.toList.length = 280 := by simpa using hs
  obtain ⟨n1, h⟩ := codeOK_tree f1.toList (by omega) hsum ⟨g0, by omega, by rw [list_getElem!_toList]; exact hpos⟩ (by
    intro h1 j hj hp
    have e1 := unique_pos f1.toList j hj hp h1
    have e2 := unique_pos f1.toList g0 (by omega) (by rw [list_getElem!_toList]; exact hpos) h1
    omega)
  rw [hlen] at h
  exact ⟨n1, h.mono (fun j ⟨hj, hp⟩ => ⟨hj, by rw [list_getElem!_toList]; exact hp⟩)⟩

/-- the code of a 256-symbol alphabet (red, blue, alpha) when it is entropy coded -/
theorem codeOK_byte (f : Array Nat) (hs : f.size = 256) (hsum : f.toList.sum < 2 ^ 32) (v0 : Nat) (hv0 : v0 < 256) (hpos : 0 < f[v0]!) :
    ∃ n, CodeOK 256 (treeF f.toList) (treeLC f.toList).1 (treeLC f.toList).2 n (fun j => j < 256 ∧ 0 < f[j]!) := by
  have hlen : f.toList.length = 256 := by simpa using hs
  obtain ⟨n, h⟩ := codeOK_tree f.toList (by omega) hsum ⟨v0, by omega, by rw [list_getElem!_toList]; exact hpos⟩ (by
    intro _ j hj _; omega)
  rw [hlen] at h
  exact ⟨n, h.mono (fun j ⟨hj, hp⟩ => ⟨hj, by rw [list_getElem!_toList]; exact hp⟩)⟩

theorem zeros_get (k j : Nat) : (Array.replicate k 0)[j]! = 0 := by
  rw [Array.getElem!_eq_getD, Array.getD_eq_getD_getElem?]
  by_cases hjk : j < k
  · simp [hjk]
  · simp [hjk]


/-- one of the three byte alphabets: entropy coded (`coded`) with histogram `fa`, or written as the
    single symbol `s`; `vals` are the values the tokens have in this channel -/
theorem chan_ok (coded : Prop) [Decidable coded] (fa : Array Nat) (hs : fa.size = 256) (hsum : fa.toList.sum < 2 ^ 32)
    (s : Nat) (hs256 : s < 256) (vals : List Nat) (hne : vals ≠ [])
    (hcoded : coded → ∀ v ∈ vals, v < 256 ∧ 0 < fa[v]!) (hplain : ¬ coded → ∀ v ∈ vals, v = s) :
    ∃ n, CodeOK 256 (if coded then treeF fa.toList else singleFields s)
      (if coded then (treeLC fa.toList).1 else Array.replicate 256 0)
      (if coded then (treeLC fa.toList).2 else Array.replicate 256 0) n (fun j => j ∈ vals) := by
  obtain ⟨v0, hv0⟩ := List.exists_mem_of_ne_nil vals hne
  by_cases hc : coded
  · simp only [hc, if_true]
    obtain ⟨n, h⟩ := codeOK_byte fa hs hsum v0 (hcoded hc v0 hv0).1 (hcoded hc v0 hv0).2
    exact ⟨n, h.mono (fun j hj => hcoded hc j hj)⟩
  · simp only [hc, if_false]
    exact ⟨oneHot 256 s, (codeOK_single 256 s hs256 hs256 256).mono (fun j hj => hplain hc j hj)⟩

theorem treesF_eq (color : Nat) (pred : Bool) (f : Array Nat × Array Nat × Array Nat × Array Nat) :
    treesF color pred f = treeF f.2.1.toList ++
      ((if color ≥ 2 then treeF f.1.toList else singleFields 0) ++
      ((if color ≥ 2 then treeF f.2.2.1.toList else singleFields 0) ++
      ((if color = 1 ∨ color = 3 then treeF f.2.2.2.toList else singleFields (if pred then 0 else 255)) ++ singleFields 1))) := by
  unfold treesF
  by_cases hc : color ≥ 2 <;> simp only [hc, if_true, if_false, List.append_assoc]

/-- **the codes and tokens of a frame satisfy the round-trip contracts** -/
theorem frame_codes (data : List Nat) (w h color : Nat) (pred : Bool) (hc : color ≤ 3) (hd : ∀ b ∈ data, b < 256)
    (hlen : (expand color data).length = w * h) (hpos : 1 ≤ w * h) (hmax : w * h ≤ 2 ^ 28)
    (px : List (List Nat)) (hpxdef : px = residuals data w color pred)
    (toks : List (List Nat × Nat)) (htoks : toks = tokenize px px.length)
    (f : Array Nat × Array Nat × Array Nat × Array Nat)
    (hf : f = toks.foldl (countTok (color ≥ 2) (color = 1 ∨ color = 3)) (initFreqs color)) :
    ∃ ls : Lens,
      CodeOK 280 (treeF f.2.1.toList) (tabsOf color f).l1 (tabsOf color f).c1 ls.n1 (fun j => j < 280 ∧ 0 < f.2.1[j]!) ∧
      CodeOK 256 (if color ≥ 2 then treeF f.1.toList else singleFields 0) (tabsOf color f).l0 (tabsOf color f).c0 ls.n0
        (fun j => j ∈ toks.map fun t => t.1.getD 0 0) ∧
      CodeOK 256 (if color ≥ 2 then treeF f.2.2.1.toList else singleFields 0) (tabsOf color f).l2 (tabsOf color f).c2 ls.n2
        (fun j => j ∈ toks.map fun t => t.1.getD 2 0) ∧
      CodeOK 256 (if color = 1 ∨ color = 3 then treeF f.2.2.2.toList else singleFields (if pred then 0 else 255))
        (tabsOf color f).l3 (tabsOf color f).c3 ls.n3 (fun j => j ∈ toks.map fun t => t.1.getD 3 0) ∧
      (∀ t ∈ toks, TokOK color (tabsOf color f) ls t) ∧ expandToks toks = px ∧ px.length = w * h := by
  -- the residual pixels and the tokens
  obtain ⟨hpx, hpxlen⟩ := residuals_px data w color pred hd
  rw [← hpxdef] at hpx hpxlen
  rw [hlen] at hpxlen
  obtain ⟨hexp, htk, htl⟩ := tokens_inv px px.length (Nat.le_refl _)
  rw [← htoks] at hexp htk htl
  have hne : toks ≠ [] := by
    intro he
    rw [he] at hexp
    have hnil : px = [] := hexp.symm
    have h0 : px.length = 0 := by rw [hnil]; rfl
    omega
  have hin : ∀ t ∈ toks, TokIn t := by
    intro t ht
    obtain ⟨p0, p1, p2, p3⟩ := hpx t.1 (htk t ht).2
    exact ⟨p0, p1, p2, p3, runSymbol_lt t.2 (htk t ht).1⟩
  -- the histograms
  have hshape := countToks_shape (decide (color ≥ 2)) (decide (color = 1 ∨ color = 3)) toks (initFreqs color) 1 (initFreqs_shape color)
  rw [← hf] at hshape
  have hcnt := countToks_counted (decide (color ≥ 2)) (decide (color = 1 ∨ color = 3)) toks (initFreqs color) 1 (initFreqs_shape color) hin
  rw [← hf] at hcnt
  have hB : 1 + 2 * toks.length < 2 ^ 32 := by
    have : (2 : Nat) ^ 28 * 2 + 1 < 2 ^ 32 := by decide
    omega
  obtain ⟨t0, ht0⟩ := List.exists_mem_of_ne_nil toks hne
  -- green
  obtain ⟨n1, hn1⟩ := codeOK_green f.2.1 hshape.s1 (Nat.lt_of_le_of_lt hshape.b1 hB) (t0.1.getD 1 0) (hin t0 ht0).2.1 (hcnt t0 ht0).1
  -- red, blue, alpha
  have hvne : ∀ c : Nat, (toks.map fun t => t.1.getD c 0) ≠ [] := by
    intro c he
    exact hne (List.map_eq_nil_iff.mp he)
  obtain ⟨n0, hn0⟩ := chan_ok (color ≥ 2) f.1 hshape.s0 (Nat.lt_of_le_of_lt hshape.b0 hB) 0 (by decide)
    (toks.map fun t => t.1.getD 0 0) (hvne 0)
    (by intro hc2 v hv
        obtain ⟨t, ht, rfl⟩ := List.mem_map.mp hv
        exact ⟨(hin t ht).1, ((hcnt t ht).2.2.1 (decide_eq_true hc2)).1⟩)
    (by intro hc2 v hv
        obtain ⟨t, ht, rfl⟩ := List.mem_map.mp hv
        exact (residuals_grey data w color pred hd (by omega) t.1 (by rw [← hpxdef]; exact (htk t ht).2)).1)
  obtain ⟨n2, hn2⟩ := chan_ok (color ≥ 2) f.2.2.1 hshape.s2 (Nat.lt_of_le_of_lt hshape.b2 hB) 0 (by decide)
    (toks.map fun t => t.1.getD 2 0) (hvne 2)
    (by intro hc2 v hv
        obtain ⟨t, ht, rfl⟩ := List.mem_map.mp hv
        exact ⟨(hin t ht).2.2.1, ((hcnt t ht).2.2.1 (decide_eq_true hc2)).2⟩)
    (by intro hc2 v hv
        obtain ⟨t, ht, rfl⟩ := List.mem_map.mp hv
        exact (residuals_grey data w color pred hd (by omega) t.1 (by rw [← hpxdef]; exact (htk t ht).2)).2)
  obtain ⟨n3, hn3⟩ := chan_ok (color = 1 ∨ color = 3) f.2.2.2 hshape.s3 (Nat.lt_of_le_of_lt hshape.b3 hB) (if pred then 0 else 255)
    (by split <;> decide) (toks.map fun t => t.1.getD 3 0) (hvne 3)
    (by intro ha v hv
        obtain ⟨t, ht, rfl⟩ := List.mem_map.mp hv
        exact ⟨(hin t ht).2.2.2.1, (hcnt t ht).2.2.2 (decide_eq_true ha)⟩)
    (by intro ha v hv
        obtain ⟨t, ht, rfl⟩ := List.mem_map.mp hv
        exact residuals_opaque data w color pred (by omega) t.1 (by rw [← hpxdef]; exact (htk t ht).2))
  refine ⟨⟨n0, n1, n2, n3⟩, hn1, hn0, hn2, hn3, ?_, hexp, hpxlen⟩
  intro t ht
  have hz : ∀ k j : Nat, (Array.replicate k 0)[j]! = 0 := zeros_get
  refine ⟨hn1.sym _ ⟨by have := (hin t ht).2.1; omega, (hcnt t ht).1⟩,
    hn0.sym _ (List.mem_map.mpr ⟨t, ht, rfl⟩), hn2.sym _ (List.mem_map.mpr ⟨t, ht, rfl⟩), hn3.sym _ (List.mem_map.mpr ⟨t, ht, rfl⟩),
    fun hr => hn1.sym _ ⟨(hin t ht).2.2.2.2, (hcnt t ht).2.1 hr⟩, ?_, ?_, (hin t ht).2.1, (htk t ht).1⟩
  · intro hlt
    have hc2 : ¬ color ≥ 2 := by omega
    simp only [tabsOf, hc2, if_false, hz, and_self]
  · intro hop
    have ha : ¬ (color = 1 ∨ color = 3) := by omega
    simp only [tabsOf, ha, if_false, hz, and_self]


/-! ### every field is well formed -/

theorem valid_cons (v n : Nat) (hn : n ≤ 64) (hv : v < 2 ^ n) (ws : List (Nat × Nat)) (h : Valid ws) : Valid ((v, n) :: ws) := by
  intro x hx
  rcases List.mem_cons.mp hx with rfl | hx
  · exact ⟨hn, hv⟩
  · exact h x hx

theorem valid_nil : Valid [] := by intro x hx; cases hx

theorem headFields_valid (w h : Nat) (isAlpha pred : Bool) (hw : w ≤ 16384) (hh : h ≤ 16384) (hw1 : 1 ≤ w) (hh1 : 1 ≤ h) :
    Valid (headFields w h isAlpha pred) := by
  unfold headFields
  have e14 : (2 : Nat) ^ 14 = 16384 := by decide
  apply valid_append
  · intro x hx
    simp only [List.mem_cons, List.not_mem_nil, or_false] at hx
    rcases hx with rfl | rfl | rfl | rfl | rfl | rfl
    · exact ⟨by decide, by decide⟩
    · exact ⟨by show 14 ≤ 64; decide, by show w - 1 < 2 ^ 14; rw [e14]; omega⟩
    · exact ⟨by show 14 ≤ 64; decide, by show h - 1 < 2 ^ 14; rw [e14]; omega⟩
    · exact ⟨by show 1 ≤ 64; decide, by cases isAlpha <;> decide⟩
    · exact ⟨by decide, by decide⟩
    · exact ⟨by decide, by decide⟩
  · apply valid_append
    · cases pred
      · exact valid_nil
      · rw [if_pos rfl]
        apply valid_append
        · intro x hx
          simp only [List.mem_cons, List.not_mem_nil, or_false] at hx
          rcases hx with rfl | rfl
          · exact ⟨by decide, by decide⟩
          · exact ⟨by decide, by decide⟩
        · exact valid_append _ _ (singleFields_valid 2 (by decide)) (valid_append _ _ (singleFields_valid 0 (by decide))
            (valid_append _ _ (singleFields_valid 0 (by decide)) (valid_append _ _ (singleFields_valid 0 (by decide)) (singleFields_valid 0 (by decide)))))
    · intro x hx
      simp only [List.mem_cons, List.not_mem_nil, or_false] at hx
      rcases hx with rfl | rfl | rfl
      · exact ⟨by decide, by decide⟩
      · exact ⟨by decide, by decide⟩
      · exact ⟨by decide, by decide⟩

theorem tokFields_valid (color : Nat) (hc : color ≤ 3) (tb : Tabs) (ls : Lens) (t : List Nat × Nat) (h : TokOK color tb ls t) :
    Valid (tokFieldsP color tb t) := by
  obtain ⟨hg, hr, hb, ha, hrun, _, _, _, h4096⟩ := h
  unfold tokFieldsP
  have hlit : (litField color tb t.1).2 ≤ 64 ∧ (litField color tb t.1).1 < 2 ^ (litField color tb t.1).2 := by
    obtain rfl | rfl | rfl | rfl : color = 0 ∨ color = 1 ∨ color = 2 ∨ color = 3 := by omega
    · simp only [litField]; exact ⟨by have := hg.2.1; omega, hg.1⟩
    · simp only [litField]
      exact ⟨by have := hg.2.1; have := ha.2.1; omega, or_shift_lt _ _ _ _ hg.1 ha.1⟩
    · simp only [litField]
      exact ⟨by have := hg.2.1; have := hr.2.1; have := hb.2.1; omega,
        or_shift_lt _ _ _ _ (or_shift_lt _ _ _ _ hg.1 hr.1) hb.1⟩
    · simp only [litField]
      exact ⟨by have := hg.2.1; have := hr.2.1; have := hb.2.1; have := ha.2.1; omega,
        or_shift_lt _ _ _ _ (or_shift_lt _ _ _ _ (or_shift_lt _ _ _ _ hg.1 hr.1) hb.1) ha.1⟩
  intro x hx
  rcases List.mem_cons.mp hx with rfl | hx
  · exact hlit
  · by_cases h0 : t.2 = 0
    · rw [if_pos h0] at hx; cases hx
    · rw [if_neg h0] at hx
      have hs := hrun (by omega)
      by_cases h4 : t.2 ≤ 4
      · rw [if_pos h4] at hx
        have e : 256 + t.2 - 1 = runSymbol t.2 := by unfold runSymbol; rw [if_pos h4]
        rw [e] at hx
        rcases List.mem_cons.mp hx with rfl | hx
        · exact ⟨by have := hs.2.1; omega, hs.1⟩
        · cases hx
      · rw [if_neg h4] at hx
        have e : 256 + (lengthToSymbol t.2).1 = runSymbol t.2 := by unfold runSymbol; rw [if_neg h4]
        rw [e] at hx
        obtain ⟨s24, s4, sx, _⟩ := EncLen.length_symbol_inv t.2 (by omega) (by omega)
        have hx2 : (lengthToSymbol t.2).2 ≤ 64 := by
          rw [← sx]; unfold LK.copyExtraBits; rw [if_neg (by omega)]; omega
        rcases List.mem_cons.mp hx with rfl | hx
        · exact ⟨by have := hs.2.1; omega, hs.1⟩
        · rcases List.mem_cons.mp hx with rfl | hx
          · exact ⟨hx2, Nat.mod_lt _ (Nat.two_pow_pos _)⟩
          · cases hx

theorem frameFields_valid (w h color : Nat) (pred : Bool) (hc : color ≤ 3) (hw : w ≤ 16384) (hh : h ≤ 16384) (hw1 : 1 ≤ w) (hh1 : 1 ≤ h)
    (f : Array Nat × Array Nat × Array Nat × Array Nat) (ls : Lens) (toks : List (List Nat × Nat))
    (v1 : Valid (treeF f.2.1.toList)) (v0 : Valid (if color ≥ 2 then treeF f.1.toList else singleFields 0))
    (v2 : Valid (if color ≥ 2 then treeF f.2.2.1.toList else singleFields 0))
    (v3 : Valid (if color = 1 ∨ color = 3 then treeF f.2.2.2.toList else singleFields (if pred then 0 else 255)))
    (htok : ∀ t ∈ toks, TokOK color (tabsOf color f) ls t) :
    Valid (headFields w h (color = 1 ∨ color = 3) pred ++
      (treesF color pred f ++ toks.flatMap (tokFieldsP color (tabsOf color f)))) := by
  apply valid_append _ _ (headFields_valid w h _ pred hw hh hw1 hh1)
  apply valid_append
  · rw [treesF_eq]
    exact valid_append _ _ v1 (valid_append _ _ v0 (valid_append _ _ v2 (valid_append _ _ v3 (singleFields_valid 1 (by decide)))))
  · intro x hx
    obtain ⟨t, ht, hxt⟩ := List.mem_flatMap.mp hx
    exact tokFields_valid color hc _ ls t (htok t ht) x hxt


/-! ### the whole frame -/

def bytesPer (color : Nat) : Nat := if color = 0 then 1 else if color = 1 then 2 else if color = 2 then 3 else 4

theorem headFields_split (w h : Nat) (a pred : Bool) :
    headFields w h a pred = [(0x2f, 8), (w - 1, 14), (h - 1, 14), (if a then 1 else 0, 1), (0, 3)] ++ (trFields pred ++ [(0, 1), (0, 1)]) := by
  unfold headFields trFields subFields
  cases pred
  · simp only [Bool.false_eq_true, if_false, List.nil_append, List.cons_append]
  · simp only [if_true, List.nil_append, List.cons_append, List.append_assoc]

theorem bitsOfBytes_eq (bs : List Nat) : bitsOfBytes bs = bytesBits bs := rfl

theorem decodeBits_shape (w1 h1 a : Nat) (hw : w1 < 2 ^ 14) (hh : h1 < 2 ^ 14) (ha : a < 2 ^ 1) (rest : List Nat) :
    decodeBits specDec (lsbBits 0x2f 8 ++ (lsbBits w1 14 ++ (lsbBits h1 14 ++ (lsbBits a 1 ++ (lsbBits 0 3 ++ rest))))) =
      match readTransforms specDec (h1 + 1) 5 (w1 + 1) [] [] rest with
      | none => none
      | some (xsize, ts, bits) =>
        match readMain specDec xsize (h1 + 1) bits with
        | none => none
        | some (img, _) => some (w1 + 1, h1 + 1, applyT (w1 + 1) (h1 + 1) ts xsize img) := by
  unfold decodeBits
  rw [readBitsL_lsb 0x2f 8 _ (by decide)]
  simp only [ne_eq, not_true_eq_false, if_false]
  rw [readBitsL_lsb w1 14 _ hw]
  simp only
  rw [readBitsL_lsb h1 14 _ hh]
  simp only
  rw [readBitsL_lsb a 1 _ ha]
  simp only
  rw [readBitsL_lsb 0 3 _ (by decide)]
  simp only [ne_eq, not_true_eq_false, if_false]
  rfl

/-- **The lossless encoder round-trips every image through the specification decoder.**
    For every image (`w`, `h` in 1..16384, any of the four colour types, with or without the
    predictor transform, any pixel bytes) `encode_frame` succeeds and the specification decoder
    applied to the bytes it returns yields exactly the input pixels (grey expanded, missing alpha
    255) with the same dimensions. -/
theorem encode_decodes (data : List Nat) (w h color : Nat) (pred : Bool) (hw1 : 1 ≤ w) (hw : w ≤ 16384) (hh1 : 1 ≤ h) (hh : h ≤ 16384)
    (hc : color ≤ 3) (hd : ∀ b ∈ data, b < 256) (hlen : data.length = w * h * bytesPer color) :
    ∃ out, encodeFrame data w h color pred = some out ∧
      VP8LP.decode out.toList = some (w, h, (expand color data).map pack) := by
  have hexp : (expand color data).length = w * h := expand_length color hc data (w * h) (by simpa [bytesPer] using hlen)
  have hpos : 1 ≤ w * h := Nat.mul_pos hw1 hh1
  have hmax : w * h ≤ 2 ^ 28 := by
    have := Nat.mul_le_mul hw hh
    have e : (16384 : Nat) * 16384 = 2 ^ 28 := by decide
    omega
  obtain ⟨ls, c1, c0, c2, c3, htok, hexpand, hpxlen⟩ := frame_codes data w h color pred hc hd hexp hpos hmax _ rfl _ rfl _ rfl
  have hvalid := frameFields_valid w h color pred hc hw hh hw1 hh1 _ ls _ c1.valid c0.valid c2.valid c3.valid htok
  have hv : Valid (frameFields data w h color pred) := hvalid
  refine ⟨output (frameFields data w h color pred), encodeFrame_fields data w h color pred (by omega), ?_⟩
  unfold VP8LP.decode
  rw [bitsOfBytes_eq, output_bits _ hv]
  generalize 8 * (((streamOf (frameFields data w h color pred)).2 + 7) / 8) - (streamOf (frameFields data w h color pred)).2 = padn
  unfold frameFields
  simp only
  rw [fieldBits_append, fieldBits_append, headFields_split, fieldBits_append, fieldBits_append, treesF_eq,
    toksFields_bits color hc _ ls _ htok]
  simp only [fieldBits_cons, List.append_assoc]
  have hnil : fieldBits [] = [] := rfl
  simp only [hnil, List.nil_append]
  have e14 : (2 : Nat) ^ 14 = 16384 := by decide
  rw [decodeBits_shape (w - 1) (h - 1) _ (by rw [e14]; omega) (by rw [e14]; omega) (by split <;> decide)]
  rw [readTransforms_enc]
  simp only
  have hm := readMain_enc (w - 1 + 1) (h - 1 + 1) color _ ls _ _ _ _ c1.read c0.read c2.read c3.read _ htok
    (by rw [hexpand, hpxlen]; congr 1 <;> omega) (List.replicate padn 0)
  simp only [fieldBits_cons, List.append_assoc, hnil, List.nil_append] at hm
  rw [hm]
  simp only
  rw [hexpand]
  have ew : w - 1 + 1 = w := by omega
  have eh : h - 1 + 1 = h := by omega
  rw [ew, eh, applyT_enc data w h color pred (by omega) hd hexp]

end EncRT
