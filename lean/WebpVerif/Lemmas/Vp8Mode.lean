import WebpVerif.Model.Vp8Mode

/-!
The sub-block mode context bookkeeping (`Vp8Mode.run`) hands every sub-block mode read the modes
of the sub-blocks above and to the left as RFC 6386 section 11.3 defines them.
-/
namespace Vp8Mode

theorem upd_same (f : Row) (k v : Nat) : upd f k v k = v := by unfold upd; rw [if_pos rfl]
theorem upd_other (f : Row) (k i v : Nat) (h : i ≠ k) : upd f k v i = f i := by unfold upd; rw [if_neg h]

theorem rowLoop_spec (mbx mby y : Nat) (md : Nat → Nat) (G : Call → Prop) (T : Nat → Nat) :
    ∀ (k x : Nat) (t : Row) (l : Nat) (out : List Call),
      (∀ c ∈ out, G c) →
      (∀ x', x ≤ x' → x' < x + k → t x' = T x') →
      (∀ x', x ≤ x' → x' < x + k → G ⟨mbx, mby, x', y, T x', if x' = x then l else md (x' - 1)⟩) →
      (∀ c ∈ (rowLoop mbx mby y md k x t l out).2.2, G c) ∧
      (rowLoop mbx mby y md k x t l out).2.1 = (if k = 0 then l else md (x + k - 1)) ∧
      (∀ i, (rowLoop mbx mby y md k x t l out).1 i = if x ≤ i ∧ i < x + k then md i else t i) := by
  intro k
  induction k with
  | zero =>
    intro x t l out ho _ _
    refine ⟨ho, rfl, fun i => ?_⟩
    rw [if_neg (by omega)]; rfl
  | succ k ih =>
    intro x t l out ho ht hg
    rw [rowLoop]
    have hcall := hg x (Nat.le_refl _) (by omega)
    rw [if_pos rfl, ← ht x (Nat.le_refl _) (by omega)] at hcall
    obtain ⟨i1, i2, i3⟩ := ih (x + 1) (upd t x (md x)) (md x) (⟨mbx, mby, x, y, t x, l⟩ :: out)
      (fun c hc => by
        rcases List.mem_cons.mp hc with rfl | hc
        · exact hcall
        · exact ho c hc)
      (fun x' h1 h2 => by rw [upd_other _ _ _ _ (by omega)]; exact ht x' (by omega) (by omega))
      (fun x' h1 h2 => by
        have := hg x' (by omega) (by omega)
        rw [if_neg (by omega)] at this
        by_cases hx : x' = x + 1
        · rw [if_pos hx]; rw [hx] at this ⊢; simpa using this
        · rw [if_neg hx]; exact this)
    refine ⟨i1, ?_, fun i => ?_⟩
    · rw [i2]
      by_cases hk : k = 0
      · rw [if_pos hk, if_neg (by omega), hk]; simp
      · rw [if_neg hk, if_neg (by omega)]; congr 1; omega
    · rw [i3 i]
      by_cases hc : x + 1 ≤ i ∧ i < x + 1 + k
      · rw [if_pos hc, if_pos ⟨by omega, by omega⟩]
      · rw [if_neg hc]
        by_cases hi : i = x
        · rw [hi, upd_same, if_pos ⟨by omega, by omega⟩]
        · rw [upd_other _ _ _ _ hi, if_neg (by omega)]

theorem gridLoop_spec (mbx mby : Nat) (md : Nat → Nat → Nat) (G : Call → Prop) (T0 L0 : Nat → Nat)
    (hG : ∀ x y, x < 4 → y < 4 → G ⟨mbx, mby, x, y,
      if y = 0 then T0 x else md x (y - 1), if x = 0 then L0 y else md (x - 1) y⟩) :
    ∀ (k y : Nat) (t lf : Row) (out : List Call), y + k = 4 →
      (∀ c ∈ out, G c) →
      (∀ x, x < 4 → t x = if y = 0 then T0 x else md x (y - 1)) →
      (∀ y', y ≤ y' → y' < 4 → lf y' = L0 y') →
      (∀ c ∈ (gridLoop mbx mby md k y t lf out).2.2, G c) ∧
      (∀ i, (gridLoop mbx mby md k y t lf out).1 i = if i < 4 then (if 4 = y then t i else md i 3) else t i) ∧
      (∀ i, (gridLoop mbx mby md k y t lf out).2.1 i = if y ≤ i ∧ i < 4 then md 3 i else lf i) := by
  intro k
  induction k with
  | zero =>
    intro y t lf out hy ho _ _
    have : 4 = y := by omega
    refine ⟨ho, fun i => ?_, fun i => ?_⟩
    · rw [if_pos this]; simp [gridLoop]
    · rw [if_neg (by omega)]; rfl
  | succ k ih =>
    intro y t lf out hy ho ht hl
    rw [gridLoop]
    obtain ⟨r1, r2, r3⟩ := rowLoop_spec mbx mby y (fun x => md x y) G (fun x => if y = 0 then T0 x else md x (y - 1))
      4 0 t (lf y) out ho (fun x' _ h2 => ht x' (by omega))
      (fun x' _ h2 => by
        have := hG x' y (by omega) (by omega)
        rw [hl y (Nat.le_refl _) (by omega)]
        exact this)
    generalize rowLoop mbx mby y (fun x => md x y) 4 0 t (lf y) out = rr at r1 r2 r3
    obtain ⟨t', l', out'⟩ := rr
    simp only at r1 r2 r3 ⊢
    rw [if_neg (by omega)] at r2
    obtain ⟨i1, i2, i3⟩ := ih (y + 1) t' (upd lf y l') out' (by omega) r1
      (fun x hx => by
        rw [r3 x, if_pos ⟨by omega, by omega⟩, if_neg (by omega)]
        simp)
      (fun y' h1 h2 => by rw [upd_other _ _ _ _ (by omega)]; exact hl y' (by omega) h2)
    refine ⟨i1, fun i => ?_, fun i => ?_⟩
    · rw [i2 i]
      have hny : (4 : Nat) ≠ y := by omega
      by_cases hb : i < 4
      · rw [if_pos hb, if_pos hb, if_neg hny]
        by_cases hny1 : 4 = y + 1
        · rw [if_pos hny1, r3 i, if_pos ⟨by omega, by omega⟩]
          congr 1; omega
        · rw [if_neg hny1]
      · rw [if_neg hb, if_neg hb, r3 i, if_neg (by omega)]
    · rw [i3 i]
      by_cases hb : y + 1 ≤ i ∧ i < 4
      · rw [if_pos hb, if_pos ⟨by omega, hb.2⟩]
      · rw [if_neg hb]
        by_cases hi : i = y
        · rw [hi, upd_same, if_pos ⟨by omega, by omega⟩, r2]
        · rw [upd_other _ _ _ _ hi, if_neg (by omega)]

def doneRows (mbx mby c : Nat) : Nat := if c < mbx then mby + 1 else mby

structure FInv (f : Frame) (mbx mby : Nat) (s : St) : Prop where
  top : ∀ c x, c < f.W → x < 4 → s.top c x =
    if doneRows mbx mby c = 0 then f.dc else modeAt f (4 * c + x) (4 * doneRows mbx mby c - 1)
  left : ∀ y, y < 4 → s.left y = if mbx = 0 then f.dc else modeAt f (4 * mbx - 1) (4 * mby + y)
  out : ∀ c ∈ s.out, c.top = specTop f c ∧ c.left = specLeft f c

theorem mbStep_inv (f : Frame) (mbx mby : Nat) (hx : mbx < f.W) (s : St) (inv : FInv f mbx mby s) :
    FInv f (mbx + 1) mby (mbStep f mbx mby s) := by
  have hdr : ∀ c, c ≠ mbx → doneRows (mbx + 1) mby c = doneRows mbx mby c := by
    intro c hc; unfold doneRows
    by_cases h : c < mbx
    · rw [if_pos h, if_pos (by omega)]
    · rw [if_neg h, if_neg (by omega)]
  have hdm : doneRows (mbx + 1) mby mbx = mby + 1 := by unfold doneRows; rw [if_pos (by omega)]
  have hd0 : doneRows mbx mby mbx = mby := by unfold doneRows; rw [if_neg (by omega)]
  have inMB : ∀ x y, x < 4 → y < 4 → (4 * mbx + x) / 4 = mbx ∧ (4 * mby + y) / 4 = mby := fun x y h1 h2 => ⟨by omega, by omega⟩
  unfold mbStep
  by_cases hB : f.isB mbx mby = true
  · rw [if_pos hB]
    have eM : ∀ x y, x < 4 → y < 4 → modeAt f (4 * mbx + x) (4 * mby + y) = f.sub (4 * mbx + x) (4 * mby + y) := by
      intro x y h1 h2; unfold modeAt; rw [(inMB x y h1 h2).1, (inMB x y h1 h2).2, if_pos hB]
    obtain ⟨g1, g2, g3⟩ := gridLoop_spec mbx mby (fun x y => f.sub (4 * mbx + x) (4 * mby + y))
      (fun c => c.top = specTop f c ∧ c.left = specLeft f c)
      (fun x => if mby = 0 then f.dc else modeAt f (4 * mbx + x) (4 * mby - 1))
      (fun y => if mbx = 0 then f.dc else modeAt f (4 * mbx - 1) (4 * mby + y))
      (by
        intro x y h1 h2
        constructor
        · show (if y = 0 then (if mby = 0 then f.dc else modeAt f (4 * mbx + x) (4 * mby - 1))
              else f.sub (4 * mbx + x) (4 * mby + (y - 1))) =
            if 4 * mby + y = 0 then f.dc else modeAt f (4 * mbx + x) (4 * mby + y - 1)
          by_cases hy0 : y = 0
          · subst hy0
            by_cases hm : mby = 0
            · rw [if_pos rfl, if_pos hm, if_pos (by omega)]
            · rw [if_pos rfl, if_neg hm, if_neg (by omega), Nat.add_zero]
          · rw [if_neg hy0, if_neg (by omega), ← eM x (y - 1) h1 (by omega)]
            congr 1; omega
        · show (if x = 0 then (if mbx = 0 then f.dc else modeAt f (4 * mbx - 1) (4 * mby + y))
              else f.sub (4 * mbx + (x - 1)) (4 * mby + y)) =
            if 4 * mbx + x = 0 then f.dc else modeAt f (4 * mbx + x - 1) (4 * mby + y)
          by_cases hx0 : x = 0
          · subst hx0
            by_cases hm : mbx = 0
            · rw [if_pos rfl, if_pos hm, if_pos (by omega)]
            · rw [if_pos rfl, if_neg hm, if_neg (by omega), Nat.add_zero]
          · rw [if_neg hx0, if_neg (by omega), ← eM (x - 1) y (by omega) h2]
            congr 1; omega)
      4 0 (s.top mbx) s.left s.out rfl inv.out
      (fun x h1 => by rw [inv.top mbx x hx h1, hd0, if_pos rfl])
      (fun y' _ h2 => inv.left y' h2)
    generalize gridLoop mbx mby (fun x y => f.sub (4 * mbx + x) (4 * mby + y)) 4 0 (s.top mbx) s.left s.out = r at g1 g2 g3
    obtain ⟨t1, lf1, out1⟩ := r
    simp only at g1 g2 g3 ⊢
    refine { top := ?_, left := ?_, out := g1 }
    · intro c x hc hx4
      by_cases hcm : c = mbx
      · subst hcm; simp only [if_true]
        rw [hdm, if_neg (by omega), show 4 * (mby + 1) - 1 = 4 * mby + 3 by omega, g2 x, if_pos hx4, if_neg (by omega),
          eM x 3 hx4 (by omega)]
      · simp only [hcm, if_false]; rw [hdr c hcm]; exact inv.top c x hc hx4
    · intro y hy4
      simp only
      rw [if_neg (by omega), show 4 * (mbx + 1) - 1 = 4 * mbx + 3 by omega, g3 y, if_pos ⟨by omega, hy4⟩, eM 3 y (by omega) hy4]
  · rw [if_neg hB]
    have hnB : f.isB mbx mby = false := by simpa using hB
    have eM : ∀ x y, x < 4 → y < 4 → modeAt f (4 * mbx + x) (4 * mby + y) = f.implied mbx mby := by
      intro x y h1 h2; unfold modeAt; rw [(inMB x y h1 h2).1, (inMB x y h1 h2).2, hnB]; rfl
    refine { top := ?_, left := ?_, out := inv.out }
    · intro c x hc hx4
      by_cases hcm : c = mbx
      · subst hcm; simp only [if_true]
        rw [if_pos hx4, hdm, if_neg (by omega), show 4 * (mby + 1) - 1 = 4 * mby + 3 by omega, eM x 3 hx4 (by omega)]
      · simp only [hcm, if_false]; rw [hdr c hcm]; exact inv.top c x hc hx4
    · intro y hy4
      simp only
      rw [if_pos hy4, if_neg (by omega), show 4 * (mbx + 1) - 1 = 4 * mbx + 3 by omega, eM 3 y (by omega) hy4]

theorem rowMbs_inv (f : Frame) (mby : Nat) : ∀ (k mbx : Nat) (s : St), mbx + k = f.W → FInv f mbx mby s →
    FInv f f.W mby (rowMbs f mby k mbx s) := by
  intro k
  induction k with
  | zero => intro mbx s h inv; have : mbx = f.W := by omega
            subst this; exact inv
  | succ k ih =>
    intro mbx s h inv
    rw [rowMbs]
    exact ih (mbx + 1) _ (by omega) (mbStep_inv f mbx mby (by omega) s inv)

theorem next_row (f : Frame) (mby : Nat) (s : St) (inv : FInv f f.W mby s) :
    FInv f 0 (mby + 1) { s with left := fun _ => f.dc } := by
  have hd : ∀ c, c < f.W → doneRows 0 (mby + 1) c = doneRows f.W mby c := by
    intro c hc; unfold doneRows; rw [if_neg (by omega), if_pos hc]
  exact { top := fun c x hc hx => by rw [hd c hc]; exact inv.top c x hc hx,
          left := fun y _ => by rw [if_pos rfl], out := inv.out }

theorem rows_inv (f : Frame) : ∀ (k mby : Nat) (s : St), FInv f 0 mby { s with left := fun _ => f.dc } →
    ∀ c ∈ (rows f k mby s).out, c.top = specTop f c ∧ c.left = specLeft f c := by
  intro k
  induction k with
  | zero => intro mby s inv c hc; exact inv.out c hc
  | succ k ih =>
    intro mby s inv
    rw [rows]
    have h1 := rowMbs_inv f mby f.W 0 _ (by omega) inv
    exact ih (mby + 1) _ (next_row f mby _ h1)

/-- **The mode contexts are the RFC rule** -/
theorem run_spec (f : Frame) : ∀ c ∈ run f, c.top = specTop f c ∧ c.left = specLeft f c := by
  intro c hc
  unfold run at hc
  rw [List.mem_reverse] at hc
  refine rows_inv f f.H 0 _ ?_ c hc
  have hd : ∀ c, doneRows 0 0 c = 0 := fun c => by unfold doneRows; rw [if_neg (by omega)]
  exact { top := fun c x _ _ => by rw [hd, if_pos rfl], left := fun y _ => by rw [if_pos rfl],
          out := fun c hc => by cases hc }

end Vp8Mode
