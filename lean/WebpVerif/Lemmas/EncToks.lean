import WebpVerif.Lemmas.EncInv

/-!
Stage 7 of the bit-level round trip: facts about the encoder's residual pixels and tokens
(tokenisation is lossless, tokens are pixels of the image, grey / opaque images have constant
red-blue / alpha residuals).
-/
namespace EncRT
open Enc

theorem takeWhile_eq_replicate (p : List Nat) (l : List (List Nat)) (n : Nat)
    (h : n ≤ (l.takeWhile (· == p)).length) : l.take n = List.replicate n p := by
  induction l generalizing n with
  | nil => simp at h; subst h; rfl
  | cons a l ih =>
    match n with
    | 0 => rfl
    | n + 1 =>
      by_cases ha : (a == p) = true
      · simp only [List.takeWhile_cons, ha, if_true, List.length_cons] at h
        have := ih n (by omega)
        have hap : a = p := by simpa using ha
        simp [List.take_succ_cons, List.replicate_succ, this, hap]
      · simp [List.takeWhile_cons, ha] at h

/-- **Run tokens are lossless**: tokenising any pixel sequence (with enough fuel) and expanding
    the tokens returns the sequence; runs are at most 4096 long; every token's pixel is a pixel of
    the sequence; there are at most as many tokens as pixels -/
theorem tokens_inv (px : List (List Nat)) : ∀ fuel, px.length ≤ fuel →
    expandToks (tokenize px fuel) = px ∧ (∀ t ∈ tokenize px fuel, t.2 ≤ 4096 ∧ t.1 ∈ px) ∧
    (tokenize px fuel).length ≤ px.length := by
  intro fuel
  induction fuel generalizing px with
  | zero =>
    intro h
    have : px = [] := List.eq_nil_of_length_eq_zero (by omega)
    subst this; simp [tokenize, expandToks]
  | succ fuel ih =>
    intro h
    cases px with
    | nil => simp [tokenize, expandToks]
    | cons p rest =>
      unfold tokenize
      simp only
      generalize hrun : (rest.takeWhile (· == p)).length.min 4096 = run
      have hle : run ≤ (rest.takeWhile (· == p)).length := by rw [← hrun]; exact Nat.min_le_left _ _
      have hlen : run ≤ rest.length := Nat.le_trans hle (List.takeWhile_sublist _).length_le
      obtain ⟨e1, e2, e3⟩ := ih (rest.drop run) (by rw [List.length_drop]; simp at h; omega)
      refine ⟨?_, ?_, ?_⟩
      · unfold expandToks
        rw [e1, ← takeWhile_eq_replicate p rest run hle, List.take_append_drop]
      · intro t ht
        simp only [List.mem_cons] at ht
        rcases ht with rfl | ht
        · exact ⟨by simp only; rw [← hrun]; exact Nat.min_le_right _ _, List.mem_cons_self⟩
        · exact ⟨(e2 t ht).1, List.mem_cons_of_mem _ (List.mem_of_mem_drop (e2 t ht).2)⟩
      · simp only [List.length_cons]
        rw [List.length_drop] at e3
        omega

theorem runSymbol_lt (run : Nat) (h : run ≤ 4096) : runSymbol run < 280 := by
  unfold runSymbol
  by_cases h4 : run ≤ 4
  · rw [if_pos h4]; omega
  · rw [if_neg h4]
    have := (EncLen.length_symbol_inv run (by omega) (by omega)).1
    omega

/-! ### the pixels of each colour type -/

theorem expand_px (color : Nat) (data : List Nat) (hd : ∀ b ∈ data, b < 256) : ∀ p ∈ expand color data, Px p := by
  have hget : ∀ k, data.getD k 0 < 256 := by
    intro k
    rw [List.getD_eq_getElem?_getD]
    cases h : data[k]? with
    | none => simp
    | some v => simp; exact hd v (List.mem_of_getElem? h)
  intro p hp
  unfold expand at hp
  split at hp
  · obtain ⟨v, hv, rfl⟩ := List.mem_map.mp hp
    exact ⟨hd v hv, hd v hv, hd v hv, by show (255 : Nat) < 256; decide⟩
  · obtain ⟨i, _, rfl⟩ := List.mem_map.mp hp
    exact ⟨hget _, hget _, hget _, hget _⟩
  · obtain ⟨i, _, rfl⟩ := List.mem_map.mp hp
    exact ⟨hget _, hget _, hget _, by show (255 : Nat) < 256; decide⟩
  · obtain ⟨i, _, rfl⟩ := List.mem_map.mp hp
    exact ⟨hget _, hget _, hget _, hget _⟩

theorem expand_length (color : Nat) (hc : color ≤ 3) (data : List Nat) (n : Nat)
    (hlen : data.length = n * (if color = 0 then 1 else if color = 1 then 2 else if color = 2 then 3 else 4)) :
    (expand color data).length = n := by
  obtain rfl | rfl | rfl | rfl : color = 0 ∨ color = 1 ∨ color = 2 ∨ color = 3 := by omega
  · simp [expand] at *; omega
  · simp [expand] at *; omega
  · simp [expand] at *; omega
  · simp [expand] at *; omega

theorem residAt_px (w : Nat) (px : Array (List Nat)) (i : Nat) (h : Px px[i]!) : Px (residAt w px i) := by
  unfold residAt
  simp only
  split
  · rw [range4_map]; exact ⟨sub8_lt _ _, sub8_lt _ _, sub8_lt _ _, sub8_lt _ _⟩
  · split
    · rw [range4_map]; exact ⟨sub8_lt _ _, sub8_lt _ _, sub8_lt _ _, sub8_lt _ _⟩
    · exact ⟨h.1, h.2.1, h.2.2.1, sub8_lt _ _⟩

/-- a channel that is 0 in every pixel stays 0 in the predictor's residuals -/
theorem residAt_chan (w : Nat) (px : Array (List Nat)) (i c : Nat) (hc : c < 3)
    (h : ∀ j : Nat, (px[j]!).getD c 0 = 0) : (residAt w px i).getD c 0 = 0 := by
  have e : sub8 0 0 = 0 := by decide
  unfold residAt
  simp only
  obtain rfl | rfl | rfl : c = 0 ∨ c = 1 ∨ c = 2 := by omega
  all_goals
    split
    · rw [range4_map]; simp only [getD4, h, e]
    · split
      · rw [range4_map]; simp only [getD4, h, e]
      · simp only [getD4, h]

theorem residAt_alpha (w : Nat) (px : Array (List Nat)) (i : Nat) (hi : i < px.size)
    (h : ∀ j : Nat, j < px.size → (px[j]!).getD 3 0 = 255) : (residAt w px i).getD 3 0 = 0 := by
  have e : sub8 255 255 = 0 := by decide
  unfold residAt
  simp only
  split
  · rw [range4_map]; simp only [getD4, h i hi, h (i - w) (by omega), e]
  · split
    · rw [range4_map]; simp only [getD4, h i hi, h (i - 1) (by omega), e]
    · simp only [getD4, h i hi, e]

/-! ### the residual pixels of a frame -/

theorem getElem!_toArray_map (l : List (List Nat)) (f : List Nat → List Nat) (j : Nat) (hj : j < l.length) :
    ((l.map f).toArray)[j]! = f l[j] := by
  rw [Array.getElem!_eq_getD, Array.getD_eq_getD_getElem?, List.getElem?_toArray, List.getElem?_map, List.getElem?_eq_getElem hj]
  rfl

theorem getElem!_toArray_oob (l : List (List Nat)) (j : Nat) (hj : ¬ j < l.length) : (l.toArray)[j]! = [] := by
  rw [Array.getElem!_eq_getD, Array.getD_eq_getD_getElem?, List.getElem?_toArray, List.getElem?_eq_none (by omega)]
  rfl

/-- the residual pixels are byte quadruples, as many as the image has pixels -/
theorem residuals_px (data : List Nat) (w color : Nat) (pred : Bool) (hd : ∀ b ∈ data, b < 256) :
    (∀ p ∈ residuals data w color pred, Px p) ∧ (residuals data w color pred).length = (expand color data).length := by
  unfold residuals
  simp only
  cases pred
  · simp only [Bool.false_eq_true, if_false, List.length_map]
    refine ⟨?_, trivial⟩
    intro p hp
    obtain ⟨q, hq, rfl⟩ := List.mem_map.mp hp
    exact subGreen_px q (expand_px color data hd q hq)
  · simp only [if_true]
    rw [predictForward_toList]
    simp only [List.size_toArray, List.length_map, List.length_range]
    refine ⟨?_, trivial⟩
    intro p hp
    obtain ⟨i, hi, rfl⟩ := List.mem_map.mp hp
    have hi' : i < (expand color data).length := by simpa using hi
    apply residAt_px
    rw [getElem!_toArray_map _ _ i hi']
    exact subGreen_px _ (expand_px color data hd _ (List.getElem_mem _))

/-- grey images: red and blue residuals are 0 -/
theorem residuals_grey (data : List Nat) (w color : Nat) (pred : Bool) (hd : ∀ b ∈ data, b < 256) (hc : color < 2) :
    ∀ p ∈ residuals data w color pred, p.getD 0 0 = 0 ∧ p.getD 2 0 = 0 := by
  have hsg : ∀ q ∈ expand color data, (subGreen q).getD 0 0 = 0 ∧ (subGreen q).getD 2 0 = 0 := by
    intro q hq
    have hget : ∀ k, data.getD k 0 < 256 := by
      intro k
      rw [List.getD_eq_getElem?_getD]
      cases h : data[k]? with
      | none => simp
      | some v => simp; exact hd v (List.mem_of_getElem? h)
    have e : ∀ v, v < 256 → sub8 v v = 0 := by intro v hv; unfold sub8; omega
    unfold expand at hq
    obtain rfl | rfl : color = 0 ∨ color = 1 := by omega
    · obtain ⟨v, hv, rfl⟩ := List.mem_map.mp hq
      simp only [subGreen, getD4, e v (hd v hv), and_self]
    · obtain ⟨i, _, rfl⟩ := List.mem_map.mp hq
      simp only [subGreen, getD4, e _ (hget _), and_self]
  unfold residuals
  simp only
  cases pred
  · simp only [Bool.false_eq_true, if_false]
    intro p hp
    obtain ⟨q, hq, rfl⟩ := List.mem_map.mp hp
    exact hsg q hq
  · simp only [if_true]
    rw [predictForward_toList]
    intro p hp
    obtain ⟨i, _, rfl⟩ := List.mem_map.mp hp
    have hall : ∀ c, (c = 0 ∨ c = 2) → ∀ j : Nat, ((((expand color data).map subGreen).toArray)[j]!).getD c 0 = 0 := by
      intro c hcc j
      by_cases hj : j < (expand color data).length
      · rw [getElem!_toArray_map _ _ j hj]
        rcases hcc with rfl | rfl
        · exact (hsg _ (List.getElem_mem _)).1
        · exact (hsg _ (List.getElem_mem _)).2
      · rw [getElem!_toArray_oob _ j (by simpa using hj)]; rfl
    exact ⟨residAt_chan w _ i 0 (by decide) (hall 0 (Or.inl rfl)), residAt_chan w _ i 2 (by decide) (hall 2 (Or.inr rfl))⟩

/-- images without alpha: the alpha residual is 255 without and 0 with the predictor -/
theorem residuals_opaque (data : List Nat) (w color : Nat) (pred : Bool) (hc : color = 0 ∨ color = 2) :
    ∀ p ∈ residuals data w color pred, p.getD 3 0 = if pred then 0 else 255 := by
  have hsg : ∀ q ∈ expand color data, (subGreen q).getD 3 0 = 255 := by
    intro q hq
    unfold expand at hq
    rcases hc with rfl | rfl
    · obtain ⟨v, hv, rfl⟩ := List.mem_map.mp hq
      simp only [subGreen, getD4]
    · obtain ⟨i, _, rfl⟩ := List.mem_map.mp hq
      simp only [subGreen, getD4]
  unfold residuals
  simp only
  cases pred
  · simp only [Bool.false_eq_true, if_false]
    intro p hp
    obtain ⟨q, hq, rfl⟩ := List.mem_map.mp hp
    exact hsg q hq
  · simp only [if_true]
    rw [predictForward_toList]
    intro p hp
    obtain ⟨i, hi, rfl⟩ := List.mem_map.mp hp
    apply residAt_alpha w _ i (by simpa using hi)
    intro j hj
    have hj' : j < (expand color data).length := by simpa using hj
    rw [getElem!_toArray_map _ _ j hj']
    exact hsg _ (List.getElem_mem _)

theorem applyT_pred (w h : Nat) (d : Array Nat) (cur : List Nat) :
    VP8LP.applyT w h [VP8LP.T.predictor 9 d, VP8LP.T.subtractGreen] w cur =
      (VP8LP.invPredictor 9 d w cur 0 []).map VP8LP.invSubGreenPx := by
  simp only [VP8LP.applyT]

theorem applyT_sg (w h : Nat) (cur : List Nat) :
    VP8LP.applyT w h [VP8LP.T.subtractGreen] w cur = cur.map VP8LP.invSubGreenPx := by
  simp only [VP8LP.applyT]

theorem encTs_t (w h : Nat) : encTs w h true = [VP8LP.T.predictor 9 (predData w h), VP8LP.T.subtractGreen] := rfl
theorem encTs_f (w h : Nat) : encTs w h false = [VP8LP.T.subtractGreen] := rfl

theorem range_map_getElem! (l : List (List Nat)) (f : List Nat → List Nat) :
    (List.range (l.map f).toArray.size).map (fun j => pack ((l.map f).toArray)[j]!) = (l.map f).map pack := by
  apply List.ext_getElem
  · simp
  · intro i h1 h2
    have hi : i < l.length := by simpa using h2
    simp only [List.getElem_map, List.getElem_range]
    rw [getElem!_toArray_map _ _ i hi]

theorem invSubGreen_list : ∀ l : List (List Nat), (∀ q ∈ l, Px q) → ((l.map subGreen).map pack).map VP8LP.invSubGreenPx = l.map pack := by
  intro l
  induction l with
  | nil => intro _; rfl
  | cons q l ih =>
    intro hl
    rw [List.map_cons, List.map_cons, List.map_cons, List.map_cons, invSubGreen_pack q (hl q List.mem_cons_self),
      ih (fun q' hq' => hl q' (List.mem_cons_of_mem _ hq'))]

/-- **the specification's inverse transforms give back the expanded input pixels** -/
theorem applyT_enc (data : List Nat) (w h color : Nat) (pred : Bool) (hw : 0 < w) (hd : ∀ b ∈ data, b < 256)
    (hlen : (expand color data).length = w * h) :
    VP8LP.applyT w h (encTs w h pred) w ((residuals data w color pred).map pack) = (expand color data).map pack := by
  unfold residuals
  simp only
  cases pred
  · rw [encTs_f, applyT_sg, if_neg (by decide)]
    exact invSubGreen_list _ (expand_px color data hd)
  · rw [encTs_t, applyT_pred, if_pos rfl, predictForward_toList, List.map_map]
    have hsz : (((expand color data).map subGreen).toArray).size = w * h := by simpa using hlen
    have hpx : ∀ j, j < (((expand color data).map subGreen).toArray).size → Px (((expand color data).map subGreen).toArray)[j]! := by
      intro j hj
      have hj' : j < (expand color data).length := by simpa using hj
      rw [getElem!_toArray_map _ _ j hj']
      exact subGreen_px _ (expand_px color data hd _ (List.getElem_mem _))
    have hp := invPredictor_enc w h hw _ hsz hpx (((expand color data).map subGreen).toArray).size 0 (by omega)
    have e0 : revPacks ((expand color data).map subGreen).toArray 0 = [] := rfl
    have er : ∀ n, List.range' 0 n = List.range n := fun n => (List.range_eq_range' (n := n)).symm
    rw [e0, er] at hp
    have e1 : (fun j => pack (residAt w ((expand color data).map subGreen).toArray j)) = pack ∘ residAt w ((expand color data).map subGreen).toArray := rfl
    rw [← e1, hp, range_map_getElem!]
    exact invSubGreen_list _ (expand_px color data hd)

end EncRT
