import WebpVerif.Model.CodeRead
import WebpVerif.Spec.CodeLengths
import WebpVerif.Lemmas.HuffShort
import WebpVerif.Lemmas.HuffTotal
import WebpVerif.Lemmas.EncCodes

/-!
`CodeRead.readCode` (the model of `read_huffman_code` / `read_huffman_code_lengths`) accepts exactly
the serialised prefix codes the specification's `ReadCode` (`Prefix.readCodeL`) accepts, consumes
the same bits, and the `HuffmanTree` it returns reads every bit string like the specification's
canonical decoder for the lengths `ReadCode` returns.
-/
namespace CodeReadProof
open Prefix Huff CodeRead

def Bits01 (bits : List Nat) : Prop := ∀ b ∈ bits, b < 2

/-- the tree reads like the specification's decoder for `lens` -/
def TreeIs (t : Built) (lens : List Nat) : Prop := ∀ bs, Bits01 bs → readSym t bs = decodeSymbol lens bs

theorem lsbVal_eq : ∀ l : List Nat, lsbVal l = bitsVal l := by
  intro l
  induction l with
  | nil => rfl
  | cons b bs ih => rw [lsbVal, bitsVal, ih]

theorem readBits_eq (n : Nat) (bits : List Nat) : CodeRead.readBits n bits = readBitsL n bits := by
  unfold CodeRead.readBits readBitsL
  rw [lsbVal_eq]

theorem bits01_drop (bits : List Nat) (n : Nat) (h : Bits01 bits) : Bits01 (bits.drop n) :=
  fun b hb => h b (List.mem_of_mem_drop hb)

theorem readBitsL_rest (n : Nat) (bits : List Nat) (v : Nat) (rest : List Nat) (h : readBitsL n bits = some (v, rest)) (hb : Bits01 bits) :
    Bits01 rest := by
  unfold readBitsL at h
  split at h
  · cases h
  · injection h with h; injection h with _ h2; rw [← h2]; exact bits01_drop bits n hb

theorem readClcl_eq : ∀ (order clcl bits : List Nat), readClcl order clcl bits = readClLens order clcl bits := by
  intro order
  induction order with
  | nil => intro _ _; rfl
  | cons pos order ih =>
    intro clcl bits
    unfold readClcl readClLens
    rw [readBits_eq]
    cases readBitsL 3 bits with
    | none => rfl
    | some r => exact ih _ _

theorem readClLens_rest : ∀ (order clcl bits cl rest : List Nat), readClLens order clcl bits = some (cl, rest) → Bits01 bits →
    Bits01 rest ∧ cl.length = clcl.length ∧ ((∀ l ∈ clcl, l ≤ 7) → ∀ l ∈ cl, l ≤ 7) := by
  intro order
  induction order with
  | nil =>
    intro clcl bits cl rest h hb
    unfold readClLens at h
    injection h with h; injection h with h1 h2
    subst h1 h2
    exact ⟨hb, rfl, fun h => h⟩
  | cons pos order ih =>
    intro clcl bits cl rest h hb
    unfold readClLens at h
    cases hr : readBitsL 3 bits with
    | none => rw [hr] at h; cases h
    | some r =>
      obtain ⟨l, bits'⟩ := r
      rw [hr] at h
      simp only at h
      obtain ⟨h1, h2, h3⟩ := ih _ _ _ _ h (readBitsL_rest 3 bits l bits' hr hb)
      refine ⟨h1, by rw [h2, List.length_set], ?_⟩
      intro hle
      apply h3
      intro x hx
      have hl : l ≤ 7 := by
        unfold readBitsL at hr
        split at hr
        · cases hr
        · injection hr with hr; injection hr with hr1 _
          rw [← hr1]
          have : bitsVal (bits.take 3) < 2 ^ (bits.take 3).length := by
            have hb3 : ∀ b ∈ bits.take 3, b < 2 := fun b hb' => hb b (List.mem_of_mem_take hb')
            generalize bits.take 3 = l3 at hb3
            induction l3 with
            | nil => simp [bitsVal]
            | cons b bs ih3 =>
              rw [bitsVal, List.length_cons, Nat.pow_succ]
              have := hb3 b List.mem_cons_self
              have := ih3 (fun b' hb' => hb3 b' (List.mem_cons_of_mem _ hb'))
              omega
          have hl3 : (bits.take 3).length ≤ 3 := by rw [List.length_take]; omega
          have : 2 ^ (bits.take 3).length ≤ 2 ^ 3 := Nat.pow_le_pow_right (by decide) hl3
          omega
      rcases List.mem_or_eq_of_mem_set hx with hx | hx
      · exact hle x hx
      · omega


/-- `HuffmanTree::build_implicit` against the specification's validity test and decoder -/
theorem build_spec (ls : List Nat) (hall : ∀ l ∈ ls, l ≤ 15) (hn : ls.length ≤ 5000) :
    (validLengths ls = true → build ls ≠ .err ∧ TreeIs (build ls) ls) ∧ (validLengths ls ≠ true → build ls = .err) := by
  constructor
  · intro hv
    rcases build_total ls hall hn hv with ⟨t, ht⟩ | ⟨s', hs'⟩
    · exact ⟨(by rw [ht]; intro h; cases h), build_ok_spec_all ls hall hn t ht⟩
    · exact ⟨(by rw [hs']; intro h; cases h), fun bs _ => (build_single_spec ls hall s' hs').2 bs⟩
  · intro hv
    cases hb : build ls with
    | err => rfl
    | single s' => exact absurd (build_single_spec ls hall s' hb).1 hv
    | ok t => exact absurd (build_ok_spec ls hall hn t hb).1 hv

theorem findIdx_lt_of_filter (ls : List Nat) (h : (ls.filter (· ≠ 0)).length = 1) : ls.findIdx (· ≠ 0) < ls.length := by
  apply List.findIdx_lt_length_of_exists
  have : (ls.filter (· ≠ 0)) ≠ [] := by intro he; rw [he] at h; simp at h
  obtain ⟨x, hx⟩ := List.exists_mem_of_ne_nil _ this
  exact ⟨x, (List.mem_filter.mp hx).1, (List.mem_filter.mp hx).2⟩

/-- a decoded symbol is a symbol of the alphabet, and what is left is a suffix -/
theorem decodeSymbol_sound (ls bits : List Nat) (s : Nat) (rest : List Nat) (h : decodeSymbol ls bits = some (s, rest)) (hb : Bits01 bits) :
    s < ls.length ∧ Bits01 rest := by
  unfold decodeSymbol at h
  split at h
  · injection h with h; injection h with h1 h2
    subst h1 h2
    exact ⟨findIdx_lt_of_filter ls (by assumption), hb⟩
  · obtain ⟨taken, ht, _, hc⟩ := decodeSym_sound ls 15 0 0 bits s rest h
    refine ⟨?_, ?_⟩
    · unfold canonicalCode at hc
      cases hg : ls[s]? with
      | none => rw [hg] at hc; cases hc
      | some v => exact (List.getElem?_eq_some_iff.mp hg).1
    · intro b hb'
      exact hb b (by rw [ht]; exact List.mem_append_right _ hb')

theorem set_at_len (lens : List Nat) (k v : Nat) :
    (lens ++ List.replicate (k + 1) 0).set lens.length v = (lens ++ [v]) ++ List.replicate k 0 := by
  rw [List.set_append_right _ _ (Nat.le_refl _), Nat.sub_self, List.replicate_succ, List.set_cons_zero, List.append_assoc]
  rfl

theorem fillRun_toList : ∀ (rep : Nat) (cl : Array Nat) (lens : List Nat) (k v : Nat),
    cl.toList = lens ++ List.replicate (rep + k) 0 →
    (fillRun cl lens.length rep v).toList = (lens ++ List.replicate rep v) ++ List.replicate k 0 := by
  intro rep
  induction rep with
  | zero => intro cl lens k v h; simpa [fillRun] using h
  | succ rep ih =>
    intro cl lens k v h
    unfold fillRun
    have h1 : (cl.setIfInBounds lens.length v).toList = (lens ++ [v]) ++ List.replicate (rep + k) 0 := by
      rw [Array.toList_setIfInBounds, h, show rep + 1 + k = (rep + k) + 1 by omega, set_at_len]
    have := ih (cl.setIfInBounds lens.length v) (lens ++ [v]) k v h1
    rw [List.length_append, List.length_singleton] at this
    rw [this, List.replicate_succ, List.append_assoc, List.append_assoc, List.append_assoc]
    rfl

/-- **the symbol loop of `read_huffman_code_lengths` is the specification's code-length loop** -/
theorem loop_eq (clcl : List Nat) (table : Built) (hT : TreeIs table clcl) (hlen19 : clcl.length = 19) (n : Nat) :
    ∀ (fuel maxSymbol prev : Nat) (cl : Array Nat) (lens bits : List Nat), Bits01 bits → lens.length ≤ n →
      cl.toList = lens ++ List.replicate (n - lens.length) 0 → n - lens.length < fuel →
      (lengthsLoop table n fuel lens.length maxSymbol prev cl bits).map (fun r => (r.1.toList, r.2)) =
        readLens n clcl maxSymbol prev fuel lens bits := by
  intro fuel
  induction fuel with
  | zero => intro _ _ _ _ _ _ _ _ h; omega
  | succ fuel ih =>
    intro maxSymbol prev cl lens bits hb hle hcl hfuel
    unfold lengthsLoop lengthsStep
    by_cases hsym : lens.length < n
    · rw [if_pos hsym]
      cases maxSymbol with
      | zero =>
        rw [if_pos rfl]
        unfold readLens
        simp only [Option.map_some, hcl]
      | succ tokens =>
        rw [if_neg (by omega)]
        unfold readLens
        rw [if_neg (by omega)]
        simp only
        rw [hT bits hb]
        cases hd : decodeSymbol clcl bits with
        | none => rfl
        | some r =>
          obtain ⟨code, bits'⟩ := r
          obtain ⟨hc19, hb'⟩ := decodeSymbol_sound clcl bits code bits' hd hb
          rw [hlen19] at hc19
          simp only
          obtain ⟨k, hk⟩ : ∃ k, n - lens.length = k + 1 := ⟨n - lens.length - 1, by omega⟩
          by_cases h16 : code < 16
          · rw [if_pos h16, if_pos h16]
            have h1 : (cl.setIfInBounds lens.length code).toList = (lens ++ [code]) ++ List.replicate (n - (lens ++ [code]).length) 0 := by
              rw [Array.toList_setIfInBounds, hcl, hk, set_at_len, List.length_append, List.length_singleton]
              congr 2
              omega
            have := ih tokens (if code ≠ 0 then code else prev) (cl.setIfInBounds lens.length code) (lens ++ [code]) bits' hb'
              (by rw [List.length_append, List.length_singleton]; omega) h1
              (by rw [List.length_append, List.length_singleton]; omega)
            rw [List.length_append, List.length_singleton] at this
            exact this
          · rw [if_neg h16, if_neg h16, if_neg (by omega)]
            have e1 : (if code - 16 = 0 then 2 else if code - 16 = 1 then 3 else 7) = (if code = 16 then 2 else if code = 17 then 3 else 7) := by
              by_cases a : code = 16
              · simp [a]
              · by_cases b : code = 17
                · simp [b]
                · rw [if_neg (by omega), if_neg (by omega), if_neg a, if_neg b]
            have e2 : (if code - 16 = 2 then 11 else 3) = (if code = 16 then 3 else if code = 17 then 3 else 11) := by
              by_cases a : code = 16
              · simp [a]
              · by_cases b : code = 17
                · simp [b]
                · rw [if_pos (by omega), if_neg a, if_neg b]
            rw [e1, e2, readBits_eq]
            cases hr : readBitsL (if code = 16 then 2 else if code = 17 then 3 else 7) bits' with
            | none => rfl
            | some rr =>
              obtain ⟨r, bits''⟩ := rr
              have hb'' := readBitsL_rest _ bits' r bits'' hr hb'
              simp only
              generalize hrep : r + (if code = 16 then 3 else if code = 17 then 3 else 11) = rep
              have hrep1 : 1 ≤ rep := by
                rw [← hrep]
                by_cases a : code = 16
                · rw [if_pos a]; omega
                · by_cases b : code = 17
                  · rw [if_neg a, if_pos b]; omega
                  · rw [if_neg a, if_neg b]; omega
              by_cases hover : lens.length + rep > n
              · rw [if_pos hover, if_pos hover]; rfl
              · rw [if_neg hover, if_neg hover]
                have h1 : (fillRun cl lens.length rep (if code = 16 then prev else 0)).toList =
                    (lens ++ List.replicate rep (if code = 16 then prev else 0)) ++
                      List.replicate (n - (lens ++ List.replicate rep (if code = 16 then prev else 0)).length) 0 := by
                  rw [List.length_append, List.length_replicate]
                  apply fillRun_toList
                  rw [hcl]
                  congr 2
                  omega
                have := ih tokens prev _ (lens ++ List.replicate rep (if code = 16 then prev else 0)) bits'' hb''
                  (by rw [List.length_append, List.length_replicate]; omega) h1
                  (by rw [List.length_append, List.length_replicate]; omega)
                rw [List.length_append, List.length_replicate] at this
                exact this
    · rw [if_neg hsym]
      have hn : lens.length = n := by omega
      simp only [Option.map_some]
      cases maxSymbol with
      | zero =>
        unfold readLens
        rw [hcl, hn, Nat.sub_self]
      | succ tokens =>
        unfold readLens
        rw [if_pos (by omega), hcl, hn, Nat.sub_self, List.replicate_zero, List.append_nil]



/-! ### simple codes -/

def twoHot (n a b : Nat) : List Nat := ((List.replicate n 0).set a 1).set b 1

theorem twoHot_split (n a b : Nat) (hab : a < b) (hb : b < n) :
    twoHot n a b = List.replicate a 0 ++ (1 :: (List.replicate (b - a - 1) 0 ++ (1 :: List.replicate (n - b - 1) 0))) := by
  unfold twoHot
  apply List.ext_getElem
  · simp; omega
  · intro i h1 h2
    rw [List.getElem_set, List.getElem_set]
    by_cases hib : b = i
    · subst hib
      rw [if_pos rfl, List.getElem_append_right (by simp <;> omega)]
      simp only [List.length_replicate]
      rw [List.getElem_cons, dif_neg (by omega), List.getElem_append_right (by simp <;> omega)]
      simp only [List.length_replicate]
      rw [List.getElem_cons, dif_pos (by omega)]
    · rw [if_neg hib]
      by_cases hia : a = i
      · subst hia
        rw [if_pos rfl, List.getElem_append_right (by simp)]
        simp
      · rw [if_neg hia, List.getElem_replicate]
        by_cases h3 : i < a
        · rw [List.getElem_append_left (by simpa using h3), List.getElem_replicate]
        · rw [List.getElem_append_right (by simp <;> omega)]
          simp only [List.length_replicate]
          rw [List.getElem_cons, dif_neg (by omega)]
          by_cases h4 : i < b
          · rw [List.getElem_append_left (by simp <;> omega), List.getElem_replicate]
          · rw [List.getElem_append_right (by simp <;> omega)]
            simp only [List.length_replicate]
            rw [List.getElem_cons, dif_neg (by omega), List.getElem_replicate]

theorem filter_zeros (k : Nat) (p : Nat → Bool) (h : p 0 = false) : (List.replicate k 0).filter p = [] := by
  rw [List.filter_eq_nil_iff]
  intro x hx
  rw [List.mem_replicate] at hx
  rw [hx.2, h]; decide

theorem twoHot_facts (n a b : Nat) (hab : a < b) (hb : b < n) :
    ((twoHot n a b).filter (· ≠ 0)).length = 2 ∧ canonicalCode (twoHot n a b) a = some 0 ∧ canonicalCode (twoHot n a b) b = some 1 ∧
    (twoHot n a b).getD a 0 = 1 ∧ (twoHot n a b).getD b 0 = 1 := by
  have hs := twoHot_split n a b hab hb
  have ga : (twoHot n a b)[a]? = some 1 := by
    rw [hs, List.getElem?_append_right (by simp)]; simp
  have gb : (twoHot n a b)[b]? = some 1 := by
    rw [hs, List.getElem?_append_right (by simp <;> omega)]
    simp only [List.length_replicate]
    rw [List.getElem?_cons, if_neg (by omega), List.getElem?_append_right (by simp <;> omega)]
    simp only [List.length_replicate]
    rw [show b - a - 1 - (b - a - 1) = 0 by omega]
    rfl
  have hnc : nextCode (twoHot n a b) 1 = 0 := rfl
  have ta : (twoHot n a b).take a = List.replicate a 0 := by
    rw [hs, List.take_left' (by simp)]
  have tb : (twoHot n a b).take b = List.replicate a 0 ++ (1 :: List.replicate (b - a - 1) 0) := by
    have e : twoHot n a b = (List.replicate a 0 ++ (1 :: List.replicate (b - a - 1) 0)) ++ (1 :: List.replicate (n - b - 1) 0) := by
      rw [hs]; simp only [List.append_assoc, List.cons_append]
    rw [e]
    exact List.take_left' (by simp <;> omega)
  refine ⟨?_, ?_, ?_, ?_, ?_⟩
  · rw [hs]
    simp only [List.filter_append, List.filter_cons]
    rw [filter_zeros _ _ (by decide), filter_zeros _ _ (by decide), filter_zeros _ _ (by decide)]
    rfl
  · unfold canonicalCode
    rw [ga]
    simp only
    rw [hnc, ta, filter_zeros _ _ (by decide)]
    rfl
  · unfold canonicalCode
    rw [gb]
    simp only
    rw [hnc, tb]
    simp only [List.filter_append, List.filter_cons]
    rw [filter_zeros _ _ (by decide), filter_zeros _ _ (by decide)]
    rfl
  · rw [List.getD_eq_getElem?_getD, ga]; rfl
  · rw [List.getD_eq_getElem?_getD, gb]; rfl

/-- **`build_two_node(a, b)` reads like the canonical code with the two symbols `a < b`** -/
theorem twoNode_spec (n a b : Nat) (hab : a < b) (hb : b < n) (hn : n ≤ 5000) : TreeIs (twoNode a b) (twoHot n a b) := by
  obtain ⟨h2, ca, cb, la, lb⟩ := twoHot_facts n a b hab hb
  intro bs hbs
  unfold decodeSymbol
  rw [if_neg (by omega)]
  cases bs with
  | nil =>
    unfold readSym twoNode look
    simp [peek16, lsbVal, slow, decodeSym]
  | cons b0 rest =>
    have hb0 : b0 < 2 := hbs b0 List.mem_cons_self
    have hpeek : peek16 (b0 :: rest) % 2 = b0 := by
      unfold peek16
      rw [List.take_succ_cons, lsbVal]
      omega
    obtain rfl | rfl : b0 = 0 ∨ b0 = 1 := by omega
    · have hd := decodeSym_canonical (twoHot n a b) a 0 15 ca (by rw [la]; decide) (by rw [la]; decide) rest
      rw [la] at hd
      have hm : msbBits 0 1 = [0] := by decide
      rw [hm] at hd
      rw [show (0 :: rest) = [0] ++ rest from rfl, hd]
      unfold readSym twoNode look
      simp only [show (1 : Nat) + 1 = 2 from rfl]
      rw [show ([0] ++ rest) = 0 :: rest from rfl, hpeek]
      have e : (#[65536 + a, 65536 + b] : Array Nat)[0]! = 65536 + a := rfl
      have e1 : (65536 + a) / 65536 = 1 := by omega
      have e2 : (65536 + a) % 65536 = a := by omega
      rw [e, e1, e2, if_pos (by decide)]
      simp only
      rw [if_neg (by simp)]
      rfl
    · have hd := decodeSym_canonical (twoHot n a b) b 1 15 cb (by rw [lb]; decide) (by rw [lb]; decide) rest
      rw [lb] at hd
      have hm : msbBits 1 1 = [1] := by decide
      rw [hm] at hd
      rw [show (1 :: rest) = [1] ++ rest from rfl, hd]
      unfold readSym twoNode look
      simp only [show (1 : Nat) + 1 = 2 from rfl]
      rw [show ([1] ++ rest) = 1 :: rest from rfl, hpeek]
      have e : (#[65536 + a, 65536 + b] : Array Nat)[1]! = 65536 + b := rfl
      have e1 : (65536 + b) / 65536 = 1 := by omega
      have e2 : (65536 + b) % 65536 = b := by omega
      rw [e, e1, e2, if_pos (by decide)]
      simp only
      rw [if_neg (by simp)]
      rfl


/-! ### the whole of `read_huffman_code` -/

theorem bitsVal_lt : ∀ l : List Nat, Bits01 l → bitsVal l < 2 ^ l.length := by
  intro l
  induction l with
  | nil => intro _; simp [bitsVal]
  | cons b bs ih =>
    intro h
    rw [bitsVal, List.length_cons, Nat.pow_succ]
    have := h b List.mem_cons_self
    have := ih (fun b' hb' => h b' (List.mem_cons_of_mem _ hb'))
    omega

theorem readBitsL_lt (n : Nat) (bits : List Nat) (v : Nat) (rest : List Nat) (h : readBitsL n bits = some (v, rest)) (hb : Bits01 bits) :
    v < 2 ^ n := by
  unfold readBitsL at h
  split at h
  · cases h
  · injection h with h; injection h with h1 _
    rw [← h1]
    have h3 := bitsVal_lt (bits.take n) (fun b hb' => hb b (List.mem_of_mem_take hb'))
    have hl : (bits.take n).length ≤ n := by rw [List.length_take]; omega
    exact Nat.lt_of_lt_of_le h3 (Nat.pow_le_pow_right (by decide) hl)

/-- what the specification's code-length loop returns: `alphabet` lengths, none above 15 -/
theorem readLens_props (n : Nat) (cl : List Nat) : ∀ (fuel tokens prev : Nat) (lens bits out rest : List Nat),
    readLens n cl tokens prev fuel lens bits = some (out, rest) → Bits01 bits → (∀ l ∈ lens, l ≤ 15) → prev ≤ 15 → lens.length ≤ n →
    out.length = n ∧ (∀ l ∈ out, l ≤ 15) ∧ Bits01 rest := by
  intro fuel
  induction fuel with
  | zero =>
    intro tokens prev lens bits out rest h hb hl hp hn
    cases tokens with
    | zero =>
      unfold readLens at h
      injection h with h; injection h with h1 h2
      subst h1 h2
      refine ⟨by simp; omega, ?_, hb⟩
      intro l hl'
      rcases List.mem_append.mp hl' with h' | h'
      · exact hl l h'
      · rw [List.mem_replicate] at h'; omega
    | succ t =>
      unfold readLens at h
      split at h
      · injection h with h; injection h with h1 h2
        subst h1 h2
        exact ⟨by omega, hl, hb⟩
      · cases h
  | succ fuel ih =>
    intro tokens prev lens bits out rest h hb hl hp hn
    cases tokens with
    | zero =>
      unfold readLens at h
      injection h with h; injection h with h1 h2
      subst h1 h2
      refine ⟨by simp; omega, ?_, hb⟩
      intro l hl'
      rcases List.mem_append.mp hl' with h' | h'
      · exact hl l h'
      · rw [List.mem_replicate] at h'; omega
    | succ t =>
      unfold readLens at h
      split at h
      · injection h with h; injection h with h1 h2
        subst h1 h2
        exact ⟨by omega, hl, hb⟩
      · simp only at h
        cases hd : decodeSymbol cl bits with
        | none => rw [hd] at h; cases h
        | some r =>
          obtain ⟨code, bits'⟩ := r
          rw [hd] at h
          simp only at h
          have hb' : Bits01 bits' := by
            unfold decodeSymbol at hd
            split at hd
            · injection hd with hd; injection hd with _ h2; rw [← h2]; exact hb
            · obtain ⟨taken, ht, _, _⟩ := decodeSym_sound cl 15 0 0 bits code bits' hd
              intro b hb''
              exact hb b (by rw [ht]; exact List.mem_append_right _ hb'')
          split at h
          · rename_i h16
            exact ih t _ (lens ++ [code]) bits' out rest h hb'
              (by intro l hl'
                  rcases List.mem_append.mp hl' with h' | h'
                  · exact hl l h'
                  · simp at h'; omega)
              (by split <;> omega) (by rw [List.length_append, List.length_singleton]; omega)
          · cases hr : readBitsL (if code = 16 then 2 else if code = 17 then 3 else 7) bits' with
            | none => rw [hr] at h; cases h
            | some rr =>
              obtain ⟨r, bits''⟩ := rr
              rw [hr] at h
              simp only at h
              generalize hrep : r + (if code = 16 then 3 else if code = 17 then 3 else 11) = rep at h
              generalize hv : (if code = 16 then prev else 0) = v at h
              have hv15 : v ≤ 15 := by rw [← hv]; split <;> omega
              by_cases hover : lens.length + rep > n
              · rw [if_pos hover] at h; cases h
              · rw [if_neg hover] at h
                exact ih t prev _ bits'' out rest h (readBitsL_rest _ bits' r bits'' hr hb')
                  (by intro l hl'
                      rcases List.mem_append.mp hl' with h' | h'
                      · exact hl l h'
                      · rw [List.mem_replicate] at h'
                        rw [h'.2]; exact hv15)
                  hp (by rw [List.length_append, List.length_replicate]; omega)

/-- model and specification agree: both reject, or both accept with the same rest of the stream
    and a tree that reads like the specification's decoder for the lengths -/
def Agree (m : Option (Built × List Nat)) (s : Option (List Nat × List Nat)) : Prop :=
  match m, s with
  | none, none => True
  | some (t, r), some (lens, r') => r = r' ∧ TreeIs t lens
  | _, _ => False

theorem single_spec (n z : Nat) (hz : z < n) : TreeIs (.single z) ((List.replicate n 0).set z 1) := by
  intro bs _
  exact (EncRT.decodeSymbol_oneHot n z hz bs).symm

theorem order_eq : Gen.Tables.CODE_LENGTH_CODE_ORDER = clOrder := by decide


theorem agree_none : Agree none none := trivial

/-- the final step: `build_implicit(new_code_lengths)` against the specification's validity test -/
theorem agree_build (lens rest : List Nat) (hall : ∀ l ∈ lens, l ≤ 15) (hn : lens.length ≤ 5000) :
    Agree (match build lens with | .err => none | t => some (t, rest)) (if validLengths lens then some (lens, rest) else none) := by
  by_cases hv : validLengths lens = true
  · obtain ⟨hne, hT⟩ := (build_spec lens hall hn).1 hv
    rw [if_pos hv]
    cases hb : build lens with
    | err => exact absurd hb hne
    | single z => rw [hb] at hT; exact ⟨rfl, hT⟩
    | ok t => rw [hb] at hT; exact ⟨rfl, hT⟩
  · rw [if_neg hv, (build_spec lens hall hn).2 hv]
    exact agree_none

/-- the part of `read_huffman_code_lengths` after the code-length code's tree exists -/
theorem agree_lengths (clcl : List Nat) (table : Built) (hT : TreeIs table clcl) (h19 : clcl.length = 19) (n : Nat) (hn2 : 2 ≤ n)
    (hn : n ≤ 5000) (bits : List Nat) (hb : Bits01 bits) :
    Agree (match readCodeLengthsWith table n bits with
           | none => none
           | some (lens, bits) => match build lens with | .err => none | t => some (t, bits))
      (match readBitsL 1 bits with
        | none => none
        | some (useMax, bits) =>
          let readMax : Option (Nat × List Nat) :=
            if useMax = 1 then
              match readBitsL 3 bits with
              | none => none
              | some (n3, bits) =>
                match readBitsL (2 + 2 * n3) bits with
                | none => none
                | some (ms, bits) => if 2 + ms > n then none else some (2 + ms, bits)
            else some (n, bits)
          match readMax with
          | none => none
          | some (maxSymbol, bits) =>
            match readLens n clcl maxSymbol 8 (n + 1) [] bits with
            | none => none
            | some (lens, bits) => if validLengths lens then some (lens, bits) else none) := by
  -- the loop, from any state after `max_symbol`
  have hloop : ∀ (maxSymbol : Nat) (bits : List Nat), Bits01 bits →
      Agree (match (match lengthsLoop table n (n + 1) 0 maxSymbol 8 (Array.replicate n 0) bits with
                    | none => none
                    | some (cl, bits) => some (cl.toList, bits)) with
             | none => none
             | some (lens, bits) => match build lens with | .err => none | t => some (t, bits))
        (match readLens n clcl maxSymbol 8 (n + 1) [] bits with
          | none => none
          | some (lens, bits) => if validLengths lens then some (lens, bits) else none) := by
    intro maxSymbol bits hb
    have hl := loop_eq clcl table hT h19 n (n + 1) maxSymbol 8 (Array.replicate n 0) [] bits hb (by simp) (by simp) (by simp)
    simp only [List.length_nil] at hl
    cases hm : lengthsLoop table n (n + 1) 0 maxSymbol 8 (Array.replicate n 0) bits with
    | none =>
      rw [hm] at hl
      rw [← hl]
      exact agree_none
    | some r =>
      obtain ⟨cl, bits'⟩ := r
      rw [hm] at hl
      simp only [Option.map_some] at hl
      rw [← hl]
      simp only
      obtain ⟨p1, p2, _⟩ := readLens_props n clcl (n + 1) maxSymbol 8 [] bits cl.toList bits' hl.symm hb
        (by intro l hl'; cases hl') (by decide) (by simp)
      exact agree_build cl.toList bits' p2 (by omega)
  unfold readCodeLengthsWith
  rw [readBits_eq]
  cases h1 : readBitsL 1 bits with
  | none => exact agree_none
  | some r1 =>
    obtain ⟨useMax, bits1⟩ := r1
    have hb1 := readBitsL_rest 1 bits useMax bits1 h1 hb
    simp only
    by_cases hu : useMax = 1
    · simp only [hu, if_true]
      rw [readBits_eq]
      cases h3 : readBitsL 3 bits1 with
      | none => exact agree_none
      | some r3 =>
        obtain ⟨n3, bits3⟩ := r3
        have hb3 := readBitsL_rest 3 bits1 n3 bits3 h3 hb1
        simp only
        rw [readBits_eq]
        cases hm : readBitsL (2 + 2 * n3) bits3 with
        | none => exact agree_none
        | some rm =>
          obtain ⟨ms, bitsm⟩ := rm
          have hbm := readBitsL_rest _ bits3 ms bitsm hm hb3
          simp only
          by_cases hover : 2 + ms > n
          · rw [if_pos (show ms > n - 2 by omega), if_pos hover]
            exact agree_none
          · rw [if_neg (show ¬ ms > n - 2 by omega), if_neg hover]
            exact hloop (2 + ms) bitsm hbm
    · simp only [hu, if_false]
      exact hloop n bits1 hb1


/-- **`read_huffman_code` is the specification's `ReadCode`**: for every alphabet size of the
    format and every bit string, the model of the crate's code reader rejects exactly when the
    specification rejects, and otherwise leaves the same rest of the stream and returns a
    `HuffmanTree` that decodes every bit string like the canonical code of the lengths the
    specification read -/
theorem read_code_is_spec (alphabet : Nat) (h2 : 2 ≤ alphabet) (h5000 : alphabet ≤ 5000) (bits : List Nat) (hb : Bits01 bits) :
    Agree (readCode alphabet bits) (readCodeL alphabet bits) := by
  unfold readCode readCodeL
  rw [readBits_eq]
  cases h1 : readBitsL 1 bits with
  | none => exact agree_none
  | some r1 =>
    obtain ⟨simple, b1⟩ := r1
    have hb1 := readBitsL_rest 1 bits simple b1 h1 hb
    simp only
    by_cases hs : simple = 1
    · simp only [hs, if_true]
      rw [readBits_eq]
      cases hn1 : readBitsL 1 b1 with
      | none => exact agree_none
      | some r2 =>
        obtain ⟨n1, b2⟩ := r2
        have hb2 := readBitsL_rest 1 b1 n1 b2 hn1 hb1
        simp only
        rw [readBits_eq]
        cases hf : readBitsL 1 b2 with
        | none => exact agree_none
        | some r3 =>
          obtain ⟨first8, b3⟩ := r3
          have hb3 := readBitsL_rest 1 b2 first8 b3 hf hb2
          have hf2 : first8 < 2 := readBitsL_lt 1 b2 first8 b3 hf hb2
          simp only
          have e : 1 + 7 * first8 = if first8 = 1 then 8 else 1 := by
            obtain rfl | rfl : first8 = 0 ∨ first8 = 1 := by omega
            · rfl
            · rfl
          rw [readBits_eq, e]
          cases hz : readBitsL (if first8 = 1 then 8 else 1) b3 with
          | none => exact agree_none
          | some r4 =>
            obtain ⟨zero, b4⟩ := r4
            have hb4 := readBitsL_rest _ b3 zero b4 hz hb3
            simp only
            by_cases hza : zero ≥ alphabet
            · rw [if_pos hza, if_pos hza]; exact agree_none
            · rw [if_neg hza, if_neg hza]
              by_cases hn : n1 = 0
              · rw [if_pos (by omega), if_pos hn]
                exact ⟨rfl, single_spec alphabet zero (by omega)⟩
              · rw [if_neg (by omega), if_neg hn, readBits_eq]
                cases ho : readBitsL 8 b4 with
                | none => exact agree_none
                | some r5 =>
                  obtain ⟨one, b5⟩ := r5
                  simp only
                  by_cases hoa : one ≥ alphabet
                  · rw [if_pos hoa, if_pos hoa]; exact agree_none
                  · rw [if_neg hoa, if_neg hoa]
                    by_cases hlt : zero < one
                    · rw [if_pos hlt]
                      exact ⟨rfl, twoNode_spec alphabet zero one hlt (by omega) h5000⟩
                    · rw [if_neg hlt]
                      by_cases hgt : zero > one
                      · rw [if_pos hgt, List.set_comm 1 1 (show zero ≠ one by omega)]
                        exact ⟨rfl, twoNode_spec alphabet one zero hgt (by omega) h5000⟩
                      · rw [if_neg hgt]
                        have heq : one = zero := by omega
                        rw [heq, List.set_set]
                        exact ⟨rfl, single_spec alphabet zero (by omega)⟩
    · simp only [hs, if_false]
      rw [readBits_eq]
      cases h4 : readBitsL 4 b1 with
      | none => exact agree_none
      | some r2 =>
        obtain ⟨n4, b2⟩ := r2
        have hb2 := readBitsL_rest 4 b1 n4 b2 h4 hb1
        simp only
        have e19 : Gen.Tables.CODE_LENGTH_CODES = 19 := rfl
        rw [readClcl_eq, order_eq, e19]
        cases hc : readClLens (List.take (4 + n4) clOrder) (List.replicate 19 0) b2 with
        | none => exact agree_none
        | some r3 =>
          obtain ⟨clcl, b3⟩ := r3
          obtain ⟨hb3, hlen, hle7⟩ := readClLens_rest _ _ _ _ _ hc hb2
          have h19 : clcl.length = 19 := by rw [hlen, List.length_replicate]
          have hall7 : ∀ l ∈ clcl, l ≤ 7 := hle7 (by intro l hl; rw [List.mem_replicate] at hl; omega)
          have hall15 : ∀ l ∈ clcl, l ≤ 15 := fun l hl => by have := hall7 l hl; omega
          simp only
          unfold readCodeLengths
          by_cases hv : validLengths clcl = true
          · obtain ⟨hne, hT⟩ := (build_spec clcl hall15 (by omega)).1 hv
            rw [hv]
            simp only [Bool.not_true, Bool.false_eq_true, if_false]
            cases hbuild : build clcl with
            | err => exact absurd hbuild hne
            | single z =>
              rw [hbuild] at hT
              exact agree_lengths clcl _ hT h19 alphabet h2 h5000 b3 hb3
            | ok t =>
              rw [hbuild] at hT
              exact agree_lengths clcl _ hT h19 alphabet h2 h5000 b3 hb3
          · have hf : validLengths clcl = false := by
              cases hvv : validLengths clcl with
              | true => exact absurd hvv hv
              | false => rfl
            rw [(build_spec clcl hall15 (by omega)).2 hv, hf]
            simp only [Bool.not_false, if_true]
            exact agree_none

end CodeReadProof
