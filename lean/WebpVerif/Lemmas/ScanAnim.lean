import WebpVerif.Lemmas.OpenFile

/-!
The VP8X scan loop on chunk sequences that contain ANMF frames: frame count, loop duration
(sum of the 24-bit durations), lossy-ness, first occurrences.
-/
namespace ScanProof
open Container

/-- an ANMF payload: 12 bytes of geometry, 4 bytes duration+flags, the first sub-chunk's header, the rest -/
structure FrameBytes where
  geo : List Nat
  dur4 : List Nat
  sub : List Nat
  ssz : List Nat
  tail : List Nat

def FrameBytes.payload (f : FrameBytes) : List Nat := f.geo ++ (f.dur4 ++ (f.sub ++ (f.ssz ++ f.tail)))
def FrameBytes.Ok (f : FrameBytes) : Prop :=
  f.geo.length = 12 ∧ f.dur4.length = 4 ∧ f.sub.length = 4 ∧ f.ssz.length = 4 ∧ (∀ b ∈ f.dur4, b < 256) ∧
  f.payload.length + 1 < 2 ^ 32

/-- a raw chunk header read (any four name bytes, any four size bytes) -/
theorem header_raw (F pre cc z rest : List Nat) (hF : F = pre ++ (cc ++ (z ++ rest))) (p : Nat) (hp : p = pre.length)
    (hcc : cc.length = 4) (hz : z.length = 4) :
    readChunkHeader { data := F, pos := p } =
      .ok ((cc, le z, min (le z + le z % 2) (2 ^ 32 - 1)), { data := F, pos := p + 8 }) := by
  unfold readChunkHeader
  rw [read_at F pre cc (z ++ rest) hF p 4 hp hcc.symm]
  simp only
  unfold readLE
  rw [read_at F (pre ++ cc) z rest (by rw [hF]; simp only [List.append_assoc]) (p + 4) 4
    (by rw [List.length_append, hcc, hp]) hz.symm]

/-- one iteration of the scan loop on an ANMF chunk -/
theorem scanStep_frame (pre rest : List Nat) (f : FrameBytes) (hok : f.Ok) (s : Scan) (hpos : s.position = pre.length) :
    scanStep s { data := pre ++ (EncContainer.chunkBytes ANMF f.payload ++ rest), pos := pre.length } =
      .ok (some { position := pre.length + 8 + (f.payload.length + f.payload.length % 2),
                  chunks := s.chunks.orInsert ANMF (pre.length + 8, pre.length + 8 + f.payload.length),
                  numFrames := s.numFrames + 1,
                  loopDuration := (s.loopDuration + le f.dur4 % 2 ^ 24) % 2 ^ 64,
                  isLossy := if !s.isLossy then (f.sub == VP8 || f.sub == ALPH) else s.isLossy },
        { data := pre ++ (EncContainer.chunkBytes ANMF f.payload ++ rest),
          pos := pre.length + 8 + (f.payload.length + f.payload.length % 2) }) := by
  obtain ⟨h12, h4, hs4, hz4, hb, hlen⟩ := hok
  have hanmf : ANMF.length = 4 := by decide
  have hplen : f.payload.length = 24 + f.tail.length := by
    unfold FrameBytes.payload; simp only [List.length_append, h12, h4, hs4, hz4]; omega
  generalize hF : pre ++ (EncContainer.chunkBytes ANMF f.payload ++ rest) = F
  have hflat : F = pre ++ (ANMF ++ (EncContainer.le32 (f.payload.length % 2 ^ 32) ++ (f.geo ++ (f.dur4 ++ (f.sub ++ (f.ssz ++
      (f.tail ++ ((if f.payload.length % 2 = 1 then [0] else []) ++ rest)))))))) := by
    rw [← hF, EncContainer.chunkBytes_eq]; unfold FrameBytes.payload; simp only [List.append_assoc]
  unfold scanStep
  rw [← hF, header_at pre rest (ANMF, f.payload) ⟨hanmf, hlen⟩, hF]
  simp only
  have hknown : known.contains ANMF = true := by decide
  have hself : (ANMF == ANMF) = true := by decide
  rw [hknown, hself]
  simp only [if_true]
  rw [if_neg (by omega)]
  unfold seekRel
  simp only
  rw [if_neg (by omega)]
  simp only
  rw [show (((pre.length + 8 : Nat) : Int) + 12).toNat = pre.length + 8 + 12 by omega]
  unfold readLE
  rw [read_at F (pre ++ ANMF ++ EncContainer.le32 (f.payload.length % 2 ^ 32) ++ f.geo) f.dur4
    (f.sub ++ (f.ssz ++ (f.tail ++ ((if f.payload.length % 2 = 1 then [0] else []) ++ rest))))
    (by rw [hflat]; simp only [List.append_assoc]) (pre.length + 8 + 12) 4
    (by simp only [List.length_append, hanmf, EncContainer.le32_length, h12] <;> omega) h4.symm]
  simp only
  cases hlossy : s.isLossy with
  | false =>
    simp only [Bool.not_false, if_true]
    rw [header_raw F (pre ++ ANMF ++ EncContainer.le32 (f.payload.length % 2 ^ 32) ++ f.geo ++ f.dur4) f.sub f.ssz
      (f.tail ++ ((if f.payload.length % 2 = 1 then [0] else []) ++ rest))
      (by rw [hflat]; simp only [List.append_assoc]) (pre.length + 8 + 12 + 4)
      (by simp only [List.length_append, hanmf, EncContainer.le32_length, h12, h4] <;> omega) hs4 hz4]
    simp only
    rw [if_neg (by omega)]
    simp only [hpos]
    rw [show (((pre.length + 8 + 12 + 4 + 8 : Nat) : Int) + (((f.payload.length + f.payload.length % 2 : Nat) : Int) - 24)).toNat =
      pre.length + 8 + (f.payload.length + f.payload.length % 2) by omega]
  | true =>
    simp only [Bool.not_true, Bool.false_eq_true, if_false]
    rw [if_neg (by omega)]
    simp only [hpos]
    rw [show (((pre.length + 8 + 12 + 4 : Nat) : Int) + (((f.payload.length + f.payload.length % 2 : Nat) : Int) - 16)).toNat =
      pre.length + 8 + (f.payload.length + f.payload.length % 2) by omega]

/-- a top-level chunk of an animated file: an ordinary chunk or an ANMF frame -/
inductive Item where
  | plain (c : List Nat × List Nat)
  | frame (f : FrameBytes)

def Item.chunk : Item → List Nat × List Nat
  | .plain c => c
  | .frame f => (ANMF, f.payload)

def Item.Ok : Item → Prop
  | .plain c => EncContainer.ChunkOk c ∧ c.1 ≠ ANMF
  | .frame f => f.Ok

def chunksOf (items : List Item) : List (List Nat × List Nat) := items.map Item.chunk

def numFrames : List Item → Nat
  | [] => 0
  | .plain _ :: r => numFrames r
  | .frame _ :: r => numFrames r + 1

def durSum : List Item → Nat
  | [] => 0
  | .plain _ :: r => durSum r
  | .frame f :: r => le f.dur4 % 2 ^ 24 + durSum r

def anyLossy : List Item → Bool
  | [] => false
  | .plain _ :: r => anyLossy r
  | .frame f :: r => (f.sub == VP8 || f.sub == ALPH) || anyLossy r

theorem item_chunkOk (it : Item) (h : it.Ok) : EncContainer.ChunkOk it.chunk := by
  cases it with
  | plain c => exact h.1
  | frame f => exact ⟨show ANMF.length = 4 by decide, h.2.2.2.2.2⟩

/-- registering one chunk, then the first occurrences among the rest = first occurrences among all -/
theorem reg_step (c : List Nat × List Nat) (rest : List (List Nat × List Nat)) (pre : List Nat) (ch ch1 ch' : Chunks)
    (hplen : (pre ++ EncContainer.chunkBytes c.1 c.2).length = pre.length + 8 + (c.2.length + c.2.length % 2))
    (h1 : ∀ k ∈ known, ch1.get? k =
      (if known.contains c.1 then ch.orInsert c.1 (pre.length + 8, pre.length + 8 + c.2.length) else ch).get? k)
    (h2 : ∀ k ∈ known, ch'.get? k = (ch1.get? k).orElse
      (fun _ => firstRange k (pre ++ EncContainer.chunkBytes c.1 c.2).length rest)) :
    ∀ k ∈ known, ch'.get? k = (ch.get? k).orElse (fun _ => firstRange k pre.length (c :: rest)) := by
  intro k hk
  rw [h2 k hk, h1 k hk]
  simp only [firstRange]
  by_cases hck : c.1 = k
  · have hcont : known.contains c.1 = true := by rw [hck]; simpa using hk
    rw [hcont]
    simp only [if_true, hck]
    cases hg : ch.get? k with
    | none => rw [get_orInsert_new _ _ _ hg]; rfl
    | some v => rw [get_orInsert_old _ _ _ _ hg]; rfl
  · have hother : (if known.contains c.1 then ch.orInsert c.1 (pre.length + 8, pre.length + 8 + c.2.length) else ch).get? k
        = ch.get? k := by
      split
      · exact get_orInsert_other _ _ _ _ hck
      · rfl
    rw [hother, if_neg hck, hplen]
    have : pre.length + 8 + (c.2.length + c.2.length % 2) = pre.length + 8 + c.2.length + c.2.length % 2 := by omega
    rw [this]

/-- the scan loop over any sequence of chunks and frames -/
theorem scanLoop_items (maxPos : Nat) : ∀ (items : List Item) (pre : List Nat) (s : Scan) (fuel : Nat),
    (∀ it ∈ items, it.Ok) → pre.length + (layout (chunksOf items)).length < maxPos →
    items.length + 1 ≤ fuel → s.position = pre.length →
    ∃ s' r', scanLoop maxPos fuel s { data := pre ++ layout (chunksOf items), pos := pre.length } = .ok (s', r') ∧
      r'.data = pre ++ layout (chunksOf items) ∧
      s'.numFrames = s.numFrames + numFrames items ∧
      s'.loopDuration % 2 ^ 64 = (s.loopDuration + durSum items) % 2 ^ 64 ∧
      (0 < numFrames items → s'.loopDuration < 2 ^ 64) ∧ (numFrames items = 0 → s'.loopDuration = s.loopDuration) ∧
      s'.isLossy = (s.isLossy || anyLossy items) ∧
      ∀ k ∈ known, s'.chunks.get? k = (s.chunks.get? k).orElse (fun _ => firstRange k pre.length (chunksOf items)) := by
  intro items
  induction items with
  | nil =>
    intro pre s fuel _ hmax hfuel hpos
    obtain ⟨fuel', rfl⟩ : ∃ f, fuel = f + 1 := ⟨fuel - 1, by simp at hfuel; omega⟩
    refine ⟨s, { data := pre ++ layout (chunksOf []), pos := pre.length }, ?_, rfl, rfl, by simp [durSum], fun h => absurd h (by simp [numFrames]),
      fun _ => rfl, by simp [anyLossy], ?_⟩
    · unfold scanLoop
      simp only [chunksOf, List.map_nil, layout, List.flatMap_nil, List.append_nil, List.length_nil, Nat.add_zero] at hmax ⊢
      rw [if_pos (by omega)]
      have : scanStep s { data := pre, pos := pre.length } = .ok (none, { data := pre, pos := pre.length }) := by
        unfold scanStep readChunkHeader readExact
        simp only
        rw [if_neg (by omega)]
      rw [this]
    · intro k _
      simp only [chunksOf, List.map_nil, firstRange]
      cases s.chunks.get? k <;> rfl
  | cons it rest ih =>
    intro pre s fuel hall hmax hfuel hpos
    obtain ⟨fuel', rfl⟩ : ∃ f, fuel = f + 1 := ⟨fuel - 1, by simp at hfuel; omega⟩
    have hitok := hall it (List.mem_cons_self ..)
    have hcok := item_chunkOk it hitok
    have hlay : layout (chunksOf (it :: rest)) = EncContainer.chunkBytes it.chunk.1 it.chunk.2 ++ layout (chunksOf rest) := by
      simp [layout, chunksOf]
    have hcl := chunk_len it.chunk hcok
    rw [hlay] at hmax ⊢
    have hdata : pre ++ (EncContainer.chunkBytes it.chunk.1 it.chunk.2 ++ layout (chunksOf rest)) =
        (pre ++ EncContainer.chunkBytes it.chunk.1 it.chunk.2) ++ layout (chunksOf rest) := by rw [List.append_assoc]
    have hplen : (pre ++ EncContainer.chunkBytes it.chunk.1 it.chunk.2).length = pre.length + 8 + (it.chunk.2.length + it.chunk.2.length % 2) := by
      rw [List.length_append, hcl]; omega
    unfold scanLoop
    rw [if_pos (by rw [hpos]; simp only [List.length_append] at hmax; omega)]
    cases it with
    | plain c =>
      obtain ⟨hok, hna⟩ := hitok
      simp only [Item.chunk] at hplen hdata hmax ⊢
      rw [scanStep_at pre (layout (chunksOf rest)) c hok hna s hpos]
      simp only
      rw [hdata, ← hplen]
      obtain ⟨s', r', e1, e0, e2, e3, e4, e4b, e5, e6⟩ := ih (pre ++ EncContainer.chunkBytes c.1 c.2)
        { s with position := (pre ++ EncContainer.chunkBytes c.1 c.2).length,
                 chunks := if known.contains c.1 then s.chunks.orInsert c.1 (pre.length + 8, pre.length + 8 + c.2.length) else s.chunks }
        fuel' (fun c' hc' => hall c' (List.mem_cons_of_mem _ hc'))
        (by simp only [List.length_append] at hmax ⊢; omega) (by simp at hfuel ⊢; omega) rfl
      exact ⟨s', r', e1, e0, by simpa [numFrames] using e2, by simpa [durSum] using e3, by simpa [numFrames] using e4,
        by simpa [numFrames] using e4b, by simpa [anyLossy] using e5,
        reg_step c (chunksOf rest) pre s.chunks _ s'.chunks hplen (fun k _ => rfl) e6⟩
    | frame f =>
      simp only [Item.chunk] at hplen hdata hmax ⊢
      rw [scanStep_frame pre (layout (chunksOf rest)) f hitok s hpos]
      simp only
      rw [hdata, ← hplen]
      obtain ⟨s', r', e1, e0, e2, e3, e4, e4b, e5, e6⟩ := ih (pre ++ EncContainer.chunkBytes ANMF f.payload)
        { position := (pre ++ EncContainer.chunkBytes ANMF f.payload).length,
          chunks := s.chunks.orInsert ANMF (pre.length + 8, pre.length + 8 + f.payload.length),
          numFrames := s.numFrames + 1, loopDuration := (s.loopDuration + le f.dur4 % 2 ^ 24) % 2 ^ 64,
          isLossy := if !s.isLossy then (f.sub == VP8 || f.sub == ALPH) else s.isLossy }
        fuel' (fun c' hc' => hall c' (List.mem_cons_of_mem _ hc'))
        (by simp only [List.length_append] at hmax ⊢; omega) (by simp at hfuel ⊢; omega) rfl
      simp only at e2 e3 e4 e4b e5 e6
      refine ⟨s', r', e1, e0, by simp only [numFrames]; omega, ?_, ?_, fun h => absurd h (by simp [numFrames]), ?_,
        reg_step (ANMF, f.payload) (chunksOf rest) pre s.chunks
          (s.chunks.orInsert ANMF (pre.length + 8, pre.length + 8 + f.payload.length)) s'.chunks hplen
          (fun k _ => by rw [if_pos (show known.contains ANMF = true by decide)]) e6⟩
      · rw [e3]; simp only [durSum]; omega
      · intro _
        by_cases hz : numFrames rest = 0
        · rw [e4b hz]; exact Nat.mod_lt _ (Nat.two_pow_pos 64)
        · exact e4 (by omega)
      · rw [e5]; simp only [anyLossy]
        cases s.isLossy <;> simp

theorem header_any (F : List Nat) (p : Nat) (h : p + 8 ≤ F.length) :
    ∃ cc sz rd, readChunkHeader { data := F, pos := p } = .ok ((cc, sz, rd), { data := F, pos := p + 8 }) := by
  unfold readChunkHeader readLE readExact
  simp only
  rw [if_pos (by omega)]
  simp only
  rw [if_pos (by omega)]
  exact ⟨_, _, _, rfl⟩

/-- a chunk header read anywhere inside the data, with the values it returns -/
theorem header_explicit (F : List Nat) (p : Nat) (h : p + 8 ≤ F.length) :
    readChunkHeader { data := F, pos := p } =
      .ok (((F.drop p).take 4, le ((F.drop (p + 4)).take 4),
            min (le ((F.drop (p + 4)).take 4) + le ((F.drop (p + 4)).take 4) % 2) (2 ^ 32 - 1)), { data := F, pos := p + 4 + 4 }) := by
  unfold readChunkHeader readLE readExact
  simp only
  rw [if_pos (by omega)]
  simp only
  rw [if_pos (by omega)]

/-- the (at most two) sub-chunk names `read_data` registers for the first frame, whose ANMF
    payload is `D[s0, e0)`: the name at offset 16, and - if the frame has room for another
    header - the name found after the first sub-chunk's (rounded) payload -/
def frameSubNames (D : List Nat) (s0 e0 : Nat) : List (List Nat) :=
  let sz1 := le ((D.drop (s0 + 16 + 4)).take 4)
  let p2 := s0 + 16 + 8 + min (sz1 + sz1 % 2) (2 ^ 32 - 1)
  if p2 + 8 > e0 then [(D.drop (s0 + 16)).take 4] else [(D.drop (s0 + 16)).take 4, (D.drop p2).take 4]

theorem firstFrame_ok (D : List Nat) (s0 e0 p : Nat) (ch : Chunks) (h1 : s0 + 24 ≤ e0) (h2 : e0 ≤ D.length) :
    ∃ ch' r', firstFrameSubchunks s0 e0 ch { data := D, pos := p } = .ok (ch', r') ∧
      ∀ k, (∀ n ∈ frameSubNames D s0 e0, n ≠ k) → ch'.get? k = ch.get? k := by
  unfold firstFrameSubchunks
  simp only
  rw [header_explicit D (s0 + 16) (by omega)]
  simp only
  by_cases hend : s0 + 16 + 8 + min (le ((D.drop (s0 + 16 + 4)).take 4) + le ((D.drop (s0 + 16 + 4)).take 4) % 2) (2 ^ 32 - 1) + 8 > e0
  · rw [if_pos hend]
    refine ⟨_, _, rfl, fun k hk => ?_⟩
    apply get_orInsert_other
    apply hk
    unfold frameSubNames
    simp only
    rw [if_pos hend]
    exact List.mem_cons_self
  · rw [if_neg hend]
    rw [header_explicit D _ (by omega)]
    refine ⟨_, _, rfl, fun k hk => ?_⟩
    have m1 : (D.drop (s0 + 16)).take 4 ∈ frameSubNames D s0 e0 := by
      unfold frameSubNames; simp only; rw [if_neg hend]; exact List.mem_cons_self
    have m2 : (D.drop (s0 + 16 + 8 + min (le ((D.drop (s0 + 16 + 4)).take 4) + le ((D.drop (s0 + 16 + 4)).take 4) % 2) (2 ^ 32 - 1))).take 4
        ∈ frameSubNames D s0 e0 := by
      unfold frameSubNames; simp only; rw [if_neg hend]; exact List.mem_cons_of_mem _ List.mem_cons_self
    rw [get_orInsert_other _ _ _ _ (hk _ m2), get_orInsert_other _ _ _ _ (hk _ m1)]

/-- the first frame of an item list -/
theorem first_frame_split : ∀ items : List Item, 0 < numFrames items →
    ∃ ps f rs, items = ps ++ Item.frame f :: rs ∧ ∀ it ∈ ps, ∃ c, it = Item.plain c := by
  intro items
  induction items with
  | nil => intro h; simp [numFrames] at h
  | cons it rest ih =>
    intro h
    cases it with
    | frame f => exact ⟨[], f, rest, rfl, fun it hit => absurd hit (by simp)⟩
    | plain c =>
      obtain ⟨ps, f, rs, e1, e2⟩ := ih (by simpa [numFrames] using h)
      refine ⟨Item.plain c :: ps, f, rs, by rw [e1]; rfl, fun it hit => ?_⟩
      rcases List.mem_cons.mp hit with rfl | hit
      · exact ⟨c, rfl⟩
      · exact e2 it hit

theorem firstRange_skip (k : List Nat) : ∀ (ps : List (List Nat × List Nat)) (base : Nat) (rest : List (List Nat × List Nat)),
    (∀ c ∈ ps, c.1 ≠ k) → (∀ c ∈ ps, EncContainer.ChunkOk c) →
    firstRange k base (ps ++ rest) = firstRange k (base + (layout ps).length) rest := by
  intro ps
  induction ps with
  | nil => intro base rest _ _; simp [layout]
  | cons c ps ih =>
    intro base rest h1 h2
    have hlay : layout (c :: ps) = EncContainer.chunkBytes c.1 c.2 ++ layout ps := by simp [layout]
    have hcl := chunk_len c (h2 c (List.mem_cons_self ..))
    rw [List.cons_append]
    simp only [firstRange]
    rw [if_neg (h1 c (List.mem_cons_self ..)), ih _ _ (fun c' hc' => h1 c' (List.mem_cons_of_mem _ hc'))
      (fun c' hc' => h2 c' (List.mem_cons_of_mem _ hc')), hlay, List.length_append, hcl]
    congr 1; omega

/-- **Whole file, animated**: `WebPDecoder::new` on RIFF header + VP8X (animation bit set) + any
    sequence of chunks and ANMF frames (at least one frame, an ANIM chunk of 6 bytes somewhere,
    whatever the flags promise) reports the canvas, the alpha flag, the frame count, the loop
    duration as the sum of the frames' 24-bit durations, lossy-ness, and the ANIM fields. -/
theorem open_animated (flags r0 r1 r2 cw ch : Nat) (items : List Item)
    (hfl : flags < 256) (hr : r0 < 256 ∧ r1 < 256 ∧ r2 < 256)
    (hcw : 1 ≤ cw ∧ cw ≤ 2 ^ 24) (hch : 1 ≤ ch ∧ ch ≤ 2 ^ 24) (hprod : cw * ch < 2 ^ 32)
    (hall : ∀ it ∈ items, it.Ok)
    (hsize : 22 + (layout (chunksOf items)).length < 2 ^ 32)
    (hanim : flags / 2 % 2 = 1) (hframes : 0 < numFrames items)
    (hanimc : has ANIM (chunksOf items) = true) (hanim6 : ∀ c ∈ chunksOf items, c.1 = ANIM → c.2.length = 6)
    (hicc : flags / 32 % 2 = 1 → has ICCP (chunksOf items) = true) (hexif : flags / 8 % 2 = 1 → has EXIF (chunksOf items) = true)
    (hxmp : flags / 4 % 2 = 1 → has XMP (chunksOf items) = true) :
    ∃ info bs, openFile (extendedFile flags r0 r1 r2 cw ch (chunksOf items)) = .ok info ∧
      (∃ c ∈ chunksOf items, c.1 = ANIM ∧ c.2 = bs) ∧
      info.width = cw ∧ info.height = ch ∧ info.extended = true ∧ info.animation = true ∧
      info.hasAlpha = (flags / 16 % 2 == 1) ∧ info.numFrames = numFrames items ∧
      info.loopDuration = durSum items % 2 ^ 64 ∧
      info.isLossy = (anyLossy items || has VP8 (chunksOf items)) ∧
      info.loopCount = bs.getD 4 0 + 256 * bs.getD 5 0 ∧
      info.background = [bs.getD 2 0, bs.getD 1 0, bs.getD 0 0, bs.getD 3 0] ∧
      (∀ s0 e0, firstRange ANMF 30 (chunksOf items) = some (s0, e0) →
        ∀ k ∈ known, (∀ n ∈ frameSubNames (extendedFile flags r0 r1 r2 cw ch (chunksOf items)) s0 e0, n ≠ k) →
          info.chunks.get? k = firstRange k 30 (chunksOf items)) := by
  generalize hcs : chunksOf items = cs at *
  obtain ⟨l1, l2, l3⟩ := fourcc_len
  -- the file, flattened
  generalize hF : extendedFile flags r0 r1 r2 cw ch cs = F
  have hflat : F = RIFF ++ (EncContainer.le32 (22 + (layout cs).length) ++ (WEBP ++ (VP8X ++ (EncContainer.le32 10 ++
      ([flags] ++ ([r0, r1, r2] ++ (le24 (cw - 1) ++ (le24 (ch - 1) ++ layout cs)))))))) := by
    rw [← hF]; unfold extendedFile
    rw [EncContainer.chunkBytes_eq]
    simp [vp8xPayload, le24, List.append_assoc]
  have hlenF : F.length = 30 + (layout cs).length := by
    rw [hflat]; simp [l1, l2, l3, EncContainer.le32_length, le24]; omega
  unfold openFile readData
  -- RIFF header
  have s1 : readChunkHeader { data := F, pos := 0 } =
      .ok ((RIFF, 22 + (layout cs).length, min (22 + (layout cs).length + (22 + (layout cs).length) % 2) (2 ^ 32 - 1)),
        { data := F, pos := 8 }) := by
    unfold readChunkHeader
    rw [read_at F [] RIFF (EncContainer.le32 (22 + (layout cs).length) ++ (WEBP ++ (VP8X ++ (EncContainer.le32 10 ++
      ([flags] ++ ([r0, r1, r2] ++ (le24 (cw - 1) ++ (le24 (ch - 1) ++ layout cs)))))))) (by rw [hflat]; rfl) 0 4 rfl l1.symm]
    simp only
    unfold readLE
    rw [read_at F RIFF (EncContainer.le32 (22 + (layout cs).length)) (WEBP ++ (VP8X ++ (EncContainer.le32 10 ++
      ([flags] ++ ([r0, r1, r2] ++ (le24 (cw - 1) ++ (le24 (ch - 1) ++ layout cs))))))) hflat (0 + 4) 4 (by rw [l1]) rfl]
    simp only
    rw [le_le32 _ hsize]
  rw [s1]
  simp only [bne_self_eq_false, Bool.false_eq_true, if_false]
  rw [read_at F (RIFF ++ EncContainer.le32 (22 + (layout cs).length)) WEBP (VP8X ++ (EncContainer.le32 10 ++
      ([flags] ++ ([r0, r1, r2] ++ (le24 (cw - 1) ++ (le24 (ch - 1) ++ layout cs))))))
    (by rw [hflat]; simp only [List.append_assoc]) 8 4
    (by rw [List.length_append, l1, EncContainer.le32_length]) l2.symm]
  simp only [bne_self_eq_false, Bool.false_eq_true, if_false]
  -- VP8X chunk header
  have hpay : (vp8xPayload flags r0 r1 r2 cw ch).length = 10 := by simp [vp8xPayload, le24]
  rw [header_at_F F (RIFF ++ EncContainer.le32 (22 + (layout cs).length) ++ WEBP) (layout cs) (VP8X, vp8xPayload flags r0 r1 r2 cw ch)
    (by rw [← hF]; unfold extendedFile; simp only [List.append_assoc]) (8 + 4)
    (by simp only [List.length_append, l1, l2, EncContainer.le32_length]) ⟨l3, by rw [hpay]; decide⟩]
  obtain ⟨n1, n2, n3⟩ := fourcc_ne
  simp only [n1, n2, n3, Bool.false_eq_true, if_false, if_true, hpay]
  -- the VP8X payload
  unfold readU8
  rw [read_at F (RIFF ++ EncContainer.le32 (22 + (layout cs).length) ++ WEBP ++ VP8X ++ EncContainer.le32 10) [flags]
    ([r0, r1, r2] ++ (le24 (cw - 1) ++ (le24 (ch - 1) ++ layout cs)))
    (by rw [hflat]; simp only [List.append_assoc]) (8 + 4 + 8) 1
    (by simp only [List.length_append, l1, l2, l3, EncContainer.le32_length]) rfl]
  simp only
  unfold readLE
  rw [read_at F (RIFF ++ EncContainer.le32 (22 + (layout cs).length) ++ WEBP ++ VP8X ++ EncContainer.le32 10 ++ [flags]) [r0, r1, r2]
    (le24 (cw - 1) ++ (le24 (ch - 1) ++ layout cs))
    (by rw [hflat]; simp only [List.append_assoc]) (8 + 4 + 8 + 1) 3
    (by simp only [List.length_append, l1, l2, l3, EncContainer.le32_length, List.length_cons, List.length_nil]) rfl]
  simp only
  rw [read_at F (RIFF ++ EncContainer.le32 (22 + (layout cs).length) ++ WEBP ++ VP8X ++ EncContainer.le32 10 ++ [flags] ++ [r0, r1, r2])
    (le24 (cw - 1)) (le24 (ch - 1) ++ layout cs)
    (by rw [hflat]; simp only [List.append_assoc]) (8 + 4 + 8 + 1 + 3) 3
    (by simp only [List.length_append, l1, l2, l3, EncContainer.le32_length, List.length_cons, List.length_nil]) rfl]
  simp only
  rw [read_at F (RIFF ++ EncContainer.le32 (22 + (layout cs).length) ++ WEBP ++ VP8X ++ EncContainer.le32 10 ++ [flags] ++ [r0, r1, r2] ++ le24 (cw - 1))
    (le24 (ch - 1)) (layout cs)
    (by rw [hflat]; simp only [List.append_assoc]) (8 + 4 + 8 + 1 + 3 + 3) 3
    (by simp only [List.length_append, l1, l2, l3, EncContainer.le32_length, List.length_cons, List.length_nil, le24]) rfl]
  simp only
  rw [le_le24 _ (by omega), le_le24 _ (by omega)]
  have hle1 : le [flags] = flags := by simp [le]
  rw [hle1]
  have hcw' : cw - 1 + 1 = cw := by omega
  have hch' : ch - 1 + 1 = ch := by omega
  rw [hcw', hch', if_neg (by omega)]

  -- the scan loop over chunks and frames
  have hP : F = (RIFF ++ EncContainer.le32 (22 + (layout cs).length) ++ WEBP ++ VP8X ++ EncContainer.le32 10 ++ [flags] ++ [r0, r1, r2]
      ++ le24 (cw - 1) ++ le24 (ch - 1)) ++ layout cs := by rw [hflat]; simp only [List.append_assoc]
  have hP30 : (RIFF ++ EncContainer.le32 (22 + (layout cs).length) ++ WEBP ++ VP8X ++ EncContainer.le32 10 ++ [flags] ++ [r0, r1, r2]
      ++ le24 (cw - 1) ++ le24 (ch - 1)).length = 30 := by
    simp only [List.length_append, l1, l2, l3, EncContainer.le32_length, List.length_cons, List.length_nil, le24]
  have hnum : 8 + 4 + 8 + (10 + 10 % 2) = 30 := by decide
  have hallc : ∀ c ∈ cs, EncContainer.ChunkOk c := by
    intro c hc; rw [← hcs] at hc
    obtain ⟨it, hit, rfl⟩ := List.mem_map.mp hc
    exact item_chunkOk it (hall it hit)
  have hcl := chunks_len_le cs hallc
  have hilen : items.length = cs.length := by rw [← hcs]; simp [chunksOf]
  obtain ⟨s', r', e1, e0, e2, e3, e4, _, e5, e6⟩ := scanLoop_items (30 + (22 + (layout cs).length - 12)) items
    (RIFF ++ EncContainer.le32 (22 + (layout cs).length) ++ WEBP ++ VP8X ++ EncContainer.le32 10 ++ [flags] ++ [r0, r1, r2]
      ++ le24 (cw - 1) ++ le24 (ch - 1))
    { position := 30, chunks := [], numFrames := 0, loopDuration := 0, isLossy := false } (F.length + 1) hall
    (by rw [hP30, hcs]; omega) (by rw [hlenF, hilen]; omega) (by rw [hP30])
  rw [hcs, ← hP, hP30] at e1
  rw [hcs, ← hP] at e0
  rw [hnum, e1]
  simp only [Nat.zero_add, Bool.false_or] at e2 e3 e5 e6 ⊢
  have hld : s'.loopDuration = durSum items % 2 ^ 64 := by
    rw [← Nat.mod_eq_of_lt (e4 hframes)]; exact e3
  have hget : ∀ k ∈ known, s'.chunks.get? k = firstRange k 30 cs := by
    intro k hk
    rw [e6 k hk, hP30, hcs]
    rfl
  have hhas : ∀ k ∈ known, s'.chunks.has k = has k cs := by
    intro k hk; unfold Chunks.has has; rw [hget k hk]
  obtain ⟨k1, k2, k3, k4, k5, k6, k7⟩ := known_mem
  -- the first frame
  obtain ⟨ps, f, rs, hsplit, hplain⟩ := first_frame_split items hframes
  have hfok : f.Ok := hall (.frame f) (by rw [hsplit]; simp)
  have hpsok : ∀ c ∈ chunksOf ps, EncContainer.ChunkOk c ∧ c.1 ≠ ANMF := by
    intro c hc
    obtain ⟨it, hit, rfl⟩ := List.mem_map.mp hc
    obtain ⟨c', rfl⟩ := hplain it hit
    exact hall (.plain c') (by rw [hsplit]; simp [hit])
  have hcs2 : cs = chunksOf ps ++ (ANMF, f.payload) :: chunksOf rs := by
    rw [← hcs, hsplit]; simp [chunksOf, Item.chunk]
  have hanmfR : firstRange ANMF 30 cs = some (30 + (layout (chunksOf ps)).length + 8, 30 + (layout (chunksOf ps)).length + 8 + f.payload.length) := by
    rw [hcs2, firstRange_skip ANMF _ 30 _ (fun c hc => (hpsok c hc).2) (fun c hc => (hpsok c hc).1)]
    simp [firstRange]
  have hhasANMF : has ANMF cs = true := by unfold has; rw [hanmfR]; rfl
  rw [hhas _ k1, hhas _ k2, hhas _ k3, hhas _ k4, hhas _ k5, hhas _ k6, hhas _ k7]
  have a0 : (flags / 2 % 2 == 1) = true := by rw [hanim]; rfl
  have c1 : (flags / 32 % 2 == 1 && !has ICCP cs) = false := by
    by_cases h : flags / 32 % 2 = 1
    · simp [hicc h]
    · simp [h]
  have c2 : (flags / 8 % 2 == 1 && !has EXIF cs) = false := by
    by_cases h : flags / 8 % 2 = 1
    · simp [hexif h]
    · simp [h]
  have c3 : (flags / 4 % 2 == 1 && !has XMP cs) = false := by
    by_cases h : flags / 4 % 2 = 1
    · simp [hxmp h]
    · simp [h]
  simp only [a0, c1, c2, c3, hanimc, hhasANMF, Bool.not_true, Bool.or_self, Bool.and_false, Bool.false_and, Bool.false_eq_true,
    if_false, if_true]
  -- the ANIM chunk
  have hanimR : ∃ a b, firstRange ANIM 30 cs = some (a, b) := by
    unfold has at hanimc
    cases hq : firstRange ANIM 30 cs with
    | none => rw [hq] at hanimc; simp at hanimc
    | some ab => exact ⟨ab.1, ab.2, rfl⟩
  obtain ⟨a, b, hab⟩ := hanimR
  obtain ⟨pre30, hpre30, _⟩ : ∃ pre : List Nat, pre.length = 30 ∧ F = pre ++ layout cs := ⟨_, hP30, hP⟩
  rename_i hFpre
  rw [← hpre30] at hab
  obtain ⟨c, hc, ec1, ec2, ec3, ec4⟩ := firstRange_payload ANIM cs pre30 a b hallc hab
  rw [hpre30] at hab
  have hc6 : c.2.length = 6 := hanim6 c hc ec1
  unfold readChunk
  rw [hget _ k1, hab]
  simp only
  rw [if_neg (by omega)]
  have hrd : r'.data = F := e0
  unfold readExact
  simp only [hrd]
  rw [hFpre, if_pos ec3, ec4]
  simp only
  rw [if_neg (by omega)]
  simp only
  rw [hget _ k2, hanmfR]
  simp only
  have hpl : f.payload.length = 24 + f.tail.length := by
    obtain ⟨g1, g2, g3, g4, _, _⟩ := hfok
    unfold FrameBytes.payload; simp only [List.length_append, g1, g2, g3, g4]; omega
  have hlaycs : (layout cs).length = (layout (chunksOf ps)).length + (8 + f.payload.length + f.payload.length % 2) + (layout (chunksOf rs)).length := by
    rw [hcs2]
    have : layout (chunksOf ps ++ (ANMF, f.payload) :: chunksOf rs) =
        layout (chunksOf ps) ++ (EncContainer.chunkBytes ANMF f.payload ++ layout (chunksOf rs)) := by
      simp [layout]
    have hcl2 := chunk_len (ANMF, f.payload) ⟨show ANMF.length = 4 by decide, hfok.2.2.2.2.2⟩
    simp only at hcl2
    rw [this, List.length_append, List.length_append, hcl2]
    omega
  obtain ⟨ch', r'', hff, hprop⟩ := firstFrame_ok (pre30 ++ layout cs) (30 + (layout (chunksOf ps)).length + 8)
    (30 + (layout (chunksOf ps)).length + 8 + f.payload.length) (a + (b - a)) s'.chunks (by omega)
    (by rw [List.length_append, hpre30, hlaycs]; omega)
  rw [hff]
  simp only
  refine ⟨_, c.2, rfl, ⟨c, hc, ec1, rfl⟩, rfl, rfl, rfl, rfl, rfl, e2, hld, by simp only; rw [e5], rfl, rfl, ?_⟩
  intro s0 e0 hse k hk hnames
  obtain ⟨rfl, rfl⟩ : 30 + (layout (chunksOf ps)).length + 8 = s0 ∧ 30 + (layout (chunksOf ps)).length + 8 + f.payload.length = e0 := by
    injection hse with hse; injection hse with h1 h2; exact ⟨h1, h2⟩
  show ch'.get? k = _
  rw [hprop k hnames, hget k hk]

end ScanProof
