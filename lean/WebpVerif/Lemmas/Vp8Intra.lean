import WebpVerif.Model.Vp8Intra
import WebpVerif.Lemmas.LPred

/-!
`add_residue` (model `Vp8Intra.addResidue`): every sample of the 4x4 block becomes
`clamp(prediction + residue)`, every other sample of the workspace is left alone - for every
workspace, residue block and block position.
-/
namespace Vp8IntraProof
open Vp8Intra LTrProof

theorem foldl_set_distinct (pos : Nat → Nat) (f : Nat → Nat → Nat) (ws : Array Nat) :
    ∀ n, (∀ i j, i < n → j < n → pos i = pos j → i = j) →
      let out := (List.range n).foldl (fun ws k => ws.setIfInBounds (pos k) (f k (ws.getD (pos k) 0))) ws
      out.size = ws.size ∧
      (∀ k, k < n → pos k < ws.size → out.getD (pos k) 0 = f k (ws.getD (pos k) 0)) ∧
      (∀ q, (∀ k, k < n → pos k ≠ q) → out.getD q 0 = ws.getD q 0) := by
  intro n
  induction n with
  | zero => intro _; exact ⟨rfl, fun k hk => by omega, fun q _ => rfl⟩
  | succ n ih =>
    intro hinj
    obtain ⟨hs, ha, hb⟩ := ih (fun i j hi hj => hinj i j (by omega) (by omega))
    simp only [List.range_succ, List.foldl_append, List.foldl_cons, List.foldl_nil]
    generalize (List.range n).foldl (fun ws k => ws.setIfInBounds (pos k) (f k (ws.getD (pos k) 0))) ws = prev at hs ha hb
    have hprev : prev.getD (pos n) 0 = ws.getD (pos n) 0 := hb (pos n) (fun k hk e => by
      have := hinj k n (by omega) (by omega) e; omega)
    refine ⟨by rw [Array.size_setIfInBounds]; exact hs, ?_, ?_⟩
    · intro k hk hlt
      rw [getD_set]
      by_cases hkn : k = n
      · subst hkn
        rw [if_pos ⟨rfl, by omega⟩, hprev]
      · have hne : pos n ≠ pos k := fun e => hkn (hinj k n (by omega) (by omega) e.symm)
        rw [if_neg (fun h => hne h.1)]
        exact ha k (by omega) hlt
    · intro q hq
      rw [getD_set, if_neg (fun h => hq n (by omega) h.1)]
      exact hb q (fun k hk => hq k (by omega))

/-- position of cell `k` of the block -/
def cell (y0 x0 stride k : Nat) : Nat := (y0 + k / 4) * stride + x0 + k % 4

theorem cell_inj (y0 x0 stride : Nat) (hs : x0 + 4 ≤ stride) : ∀ i j, i < 16 → j < 16 → cell y0 x0 stride i = cell y0 x0 stride j → i = j := by
  intro i j hi hj e
  unfold cell at e
  have hi4 : i / 4 < 4 := by omega
  have hj4 : j / 4 < 4 := by omega
  have : i / 4 = j / 4 := by
    by_contra hne
    rcases Nat.lt_or_gt_of_ne hne with h | h
    · have : (y0 + i / 4 + 1) * stride ≤ (y0 + j / 4) * stride := Nat.mul_le_mul_right _ (by omega)
      rw [Nat.succ_mul] at this; omega
    · have : (y0 + j / 4 + 1) * stride ≤ (y0 + i / 4) * stride := Nat.mul_le_mul_right _ (by omega)
      rw [Nat.succ_mul] at this; omega
  rw [this] at e
  omega

/-- **`add_residue` is `clamp(prediction + residue)` on the block and the identity elsewhere** -/
theorem addResidue_spec (ws : Array Nat) (rb : Array Int) (y0 x0 stride : Nat) (hs : x0 + 4 ≤ stride) :
    (addResidue ws rb y0 x0 stride).size = ws.size ∧
    (∀ k, k < 16 → cell y0 x0 stride k < ws.size →
      (addResidue ws rb y0 x0 stride).getD (cell y0 x0 stride k) 0 = clampByte (rb.getD k 0 + ws.getD (cell y0 x0 stride k) 0)) ∧
    (∀ q, (∀ k, k < 16 → cell y0 x0 stride k ≠ q) → (addResidue ws rb y0 x0 stride).getD q 0 = ws.getD q 0) :=
  foldl_set_distinct (cell y0 x0 stride) (fun k old => clampByte (rb.getD k 0 + old)) ws 16 (cell_inj y0 x0 stride hs)

theorem clampByte_spec (v : Int) : (clampByte v : Int) = if v < 0 then 0 else if v > 255 then 255 else v := by
  unfold clampByte; split <;> (try split) <;> omega

end Vp8IntraProof
