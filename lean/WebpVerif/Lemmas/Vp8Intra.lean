import WebpVerif.Model.Vp8Intra
import WebpVerif.Lemmas.LPred

/-!
`add_residue` (model `Vp8Intra.addResidue`): every sample of the 4x4 block becomes
`clamp(prediction + residue)`, every other sample of the workspace is left alone - for every
workspace, residue block and block position.
-/
namespace Vp8IntraProof
open Vp8Intra LTrProof

theorem foldl_set_distinct (pos : Nat → Nat) (f : Nat → Nat → Nat) (ws : Array Nat) :
    ∀ n, (∀ i j, i < n → j < n → pos i = pos j → i = j) →
      let out := (List.range n).foldl (fun ws k => ws.setIfInBounds (pos k) (f k (ws.getD (pos k) 0))) ws
      out.size = ws.size ∧
      (∀ k, k < n → pos k < ws.size → out.getD (pos k) 0 = f k (ws.getD (pos k) 0)) ∧
      (∀ q, (∀ k, k < n → pos k ≠ q) → out.getD q 0 = ws.getD q 0) := by
  intro n
  induction n with
  | zero => intro _; exact ⟨rfl, fun k hk => by omega, fun q _ => rfl⟩
  | succ n ih =>
    intro hinj
    obtain ⟨hs, ha, hb⟩ := ih (fun i j hi hj => hinj i j (by omega) (by omega))
    simp only [List.range_succ, List.foldl_append, List.foldl_cons, List.foldl_nil]
    generalize (List.range n).foldl (fun ws k => ws.setIfInBounds (pos k) (f k (ws.getD (pos k) 0))) ws = prev at hs ha hb
    have hprev : prev.getD (pos n) 0 = ws.getD (pos n) 0 := hb (pos n) (fun k hk e => by
      have := hinj k n (by omega) (by omega) e; omega)
    refine ⟨by rw [Array.size_setIfInBounds]; exact hs, ?_, ?_⟩
    · intro k hk hlt
      rw [getD_set]
      by_cases hkn : k = n
      · subst hkn
        rw [if_pos ⟨rfl, by omega⟩, hprev]
      · have hne : pos n ≠ pos k := fun e => hkn (hinj k n (by omega) (by omega) e.symm)
        rw [if_neg (fun h => hne h.1)]
        exact ha k (by omega) hlt
    · intro q hq
      rw [getD_set, if_neg (fun h => hq n (by omega) h.1)]
      exact hb q (fun k hk => hq k (by omega))

/-- position of cell `k` of the block -/
def cell (y0 x0 stride k : Nat) : Nat := (y0 + k / 4) * stride + x0 + k % 4

theorem cell_inj (y0 x0 stride : Nat) (hs : x0 + 4 ≤ stride) : ∀ i j, i < 16 → j < 16 → cell y0 x0 stride i = cell y0 x0 stride j → i = j := by
  intro i j hi hj e
  unfold cell at e
  have hi4 : i / 4 < 4 := by omega
  have hj4 : j / 4 < 4 := by omega
  have : i / 4 = j / 4 := by
    by_contra hne
    rcases Nat.lt_or_gt_of_ne hne with h | h
    · have : (y0 + i / 4 + 1) * stride ≤ (y0 + j / 4) * stride := Nat.mul_le_mul_right _ (by omega)
      rw [Nat.succ_mul] at this; omega
    · have : (y0 + j / 4 + 1) * stride ≤ (y0 + i / 4) * stride := Nat.mul_le_mul_right _ (by omega)
      rw [Nat.succ_mul] at this; omega
  rw [this] at e
  omega

/-- **`add_residue` is `clamp(prediction + residue)` on the block and the identity elsewhere** -/
theorem addResidue_spec (ws : Array Nat) (rb : Array Int) (y0 x0 stride : Nat) (hs : x0 + 4 ≤ stride) :
    (addResidue ws rb y0 x0 stride).size = ws.size ∧
    (∀ k, k < 16 → cell y0 x0 stride k < ws.size →
      (addResidue ws rb y0 x0 stride).getD (cell y0 x0 stride k) 0 = clampByte (rb.getD k 0 + ws.getD (cell y0 x0 stride k) 0)) ∧
    (∀ q, (∀ k, k < 16 → cell y0 x0 stride k ≠ q) → (addResidue ws rb y0 x0 stride).getD q 0 = ws.getD q 0) :=
  foldl_set_distinct (cell y0 x0 stride) (fun k old => clampByte (rb.getD k 0 + old)) ws 16 (cell_inj y0 x0 stride hs)

theorem clampByte_spec (v : Int) : (clampByte v : Int) = if v < 0 then 0 else if v > 255 then 255 else v := by
  unfold clampByte; split <;> (try split) <;> omega


/-! ### a whole 16x16-predicted macroblock -/

/-- index of sample (r, c) of the macroblock in the 17 x 21 luma workspace -/
def at16 (r c : Nat) : Nat := (1 + r) * 21 + 1 + c

theorem cell_block (i k : Nat) (_hi : i < 16) (_hk : k < 16) :
    cell (1 + (i / 4) * 4) (1 + (i % 4) * 4) 21 k = at16 ((i / 4) * 4 + k / 4) ((i % 4) * 4 + k % 4) := by
  unfold cell at16; omega

theorem at16_inj (r c r' c' : Nat) (hc : c < 16) (hc' : c' < 16) (h : at16 r c = at16 r' c') : r = r' ∧ c = c' := by
  unfold at16 at h; omega

/-- after the residue of blocks `0 .. n-1` has been added -/
def After (res : Array Int) (P : Array Nat) (n : Nat) (ws : Array Nat) : Prop :=
  ws.size = P.size ∧
  (∀ r c, r < 16 → c < 16 → (r / 4) * 4 + c / 4 < n →
    ws.getD (at16 r c) 0 = clampByte (res.getD (16 * ((r / 4) * 4 + c / 4) + 4 * (r % 4) + c % 4) 0 + P.getD (at16 r c) 0)) ∧
  (∀ q, (∀ r c, r < 16 → c < 16 → (r / 4) * 4 + c / 4 < n → at16 r c ≠ q) → ws.getD q 0 = P.getD q 0)

theorem block_getD (res : Array Int) (i k : Nat) (hk : k < 16) (hres : 16 * i + 16 ≤ res.size) :
    (block res i).getD k 0 = res.getD (16 * i + k) 0 := by
  unfold block
  rw [Array.getD_eq_getD_getElem?, Array.getD_eq_getD_getElem?, Array.getElem?_extract]
  have h1 : k < min (16 * i + 16) res.size - 16 * i := by omega
  rw [if_pos h1]

theorem after_step (res : Array Int) (P ws : Array Nat) (n : Nat) (hn : n < 16) (hP : P.size = 357) (hres : res.size = 384)
    (h : After res P n ws) :
    After res P (n + 1) (addResidue ws (block res n) (1 + (n / 4) * 4) (1 + (n % 4) * 4) 21) := by
  obtain ⟨hs, hin, hout⟩ := h
  obtain ⟨a1, a2, a3⟩ := addResidue_spec ws (block res n) (1 + (n / 4) * 4) (1 + (n % 4) * 4) 21 (by omega)
  refine ⟨a1.trans hs, ?_, ?_⟩
  · intro r c hr hc hlt
    by_cases hb : (r / 4) * 4 + c / 4 = n
    · -- this block
      have hk : 4 * (r % 4) + c % 4 < 16 := by omega
      have hcell := cell_block n (4 * (r % 4) + c % 4) hn hk
      have e1 : n / 4 = r / 4 := by omega
      have e2 : n % 4 = c / 4 := by omega
      have x1 : (n / 4) * 4 + (4 * (r % 4) + c % 4) / 4 = r := by omega
      have x2 : (n % 4) * 4 + (4 * (r % 4) + c % 4) % 4 = c := by omega
      rw [x1, x2] at hcell
      have hlt' : cell (1 + (n / 4) * 4) (1 + (n % 4) * 4) 21 (4 * (r % 4) + c % 4) < ws.size := by
        rw [hcell, hs, hP]; unfold at16; omega
      have := a2 _ hk hlt'
      rw [hcell] at this
      rw [this, block_getD res n _ hk (by omega)]
      have hprev : ws.getD (at16 r c) 0 = P.getD (at16 r c) 0 := hout _ (fun r' c' hr' hc' hlt' e => by
        obtain ⟨e1, e2⟩ := at16_inj r' c' r c hc' hc e
        subst e1 e2; omega)
      rw [hprev, ← hb, Nat.add_assoc]
    · have hlt2 : (r / 4) * 4 + c / 4 < n := by omega
      have hne : ∀ k, k < 16 → cell (1 + (n / 4) * 4) (1 + (n % 4) * 4) 21 k ≠ at16 r c := by
        intro k hk e
        rw [cell_block n k hn hk] at e
        obtain ⟨e1, e2⟩ := at16_inj _ _ r c (by omega) hc e
        apply hb; subst e1 e2; omega
      rw [a3 _ hne]
      exact hin r c hr hc hlt2
  · intro q hq
    have hne : ∀ k, k < 16 → cell (1 + (n / 4) * 4) (1 + (n % 4) * 4) 21 k ≠ q := by
      intro k hk e
      rw [cell_block n k hn hk] at e
      exact hq ((n / 4) * 4 + k / 4) ((n % 4) * 4 + k % 4) (by omega) (by omega) (by omega) e
    rw [a3 _ hne]
    exact hout q (fun r c hr hc hlt => hq r c hr hc (by omega))


theorem after_all (res : Array Int) (P : Array Nat) (hP : P.size = 357) (hres : res.size = 384) :
    ∀ n, n ≤ 16 → After res P n ((List.range n).foldl (fun ws i => addResidue ws (block res i) (1 + (i / 4) * 4) (1 + (i % 4) * 4) 21) P) := by
  intro n
  induction n with
  | zero => intro _; exact ⟨rfl, fun r c _ _ h => by omega, fun q _ => rfl⟩
  | succ n ih =>
    intro hn
    rw [List.range_succ, List.foldl_append, List.foldl_cons, List.foldl_nil]
    exact after_step res P _ n (by omega) hP hres (ih (by omega))

theorem predict_size (kind : Nat) (a : Array Nat) (size x0 y0 stride : Nat) (above left : Bool) :
    (Vp8Pred.predict kind a size x0 y0 stride above left).size = a.size := by
  unfold Vp8Pred.predict; simp

/-- **a 16x16-predicted macroblock is reconstructed as `clamp(prediction + residue)`**, sample by
    sample, for every workspace with its border, every 16x16 mode and every residue; the border of
    the workspace is left as it was -/
theorem luma16_recon (mbx mby lumaMode : Nat) (hm : lumaMode ≠ 4) (bmodes : Array Nat) (res : Array Int) (ws : Array Nat)
    (hres : res.size = 384) (hws : ws.size = 357) :
    let P := match lumaMode with
      | 1 => Vp8Pred.predict 10 ws 16 1 1 21 true true
      | 2 => Vp8Pred.predict 11 ws 16 1 1 21 true true
      | 3 => Vp8Pred.predict 1 ws 16 1 1 21 true true
      | _ => Vp8Pred.predict 12 ws 16 1 1 21 (mby != 0) (mbx != 0)
    ∀ r c, r < 16 → c < 16 →
      (lumaRecon mbx mby lumaMode bmodes res ws).getD (at16 r c) 0 =
        clampByte (res.getD (16 * ((r / 4) * 4 + c / 4) + 4 * (r % 4) + c % 4) 0 + P.getD (at16 r c) 0) := by
  intro P r c hr hc
  have hP : P.size = 357 := by
    simp only [P]
    split <;> rw [predict_size] <;> exact hws
  have h := after_all res P hP hres 16 (by omega)
  have e : lumaRecon mbx mby lumaMode bmodes res ws =
      (List.range 16).foldl (fun ws i => addResidue ws (block res i) (1 + (i / 4) * 4) (1 + (i % 4) * 4) 21) P := by
    unfold lumaRecon
    rw [if_neg hm]
    rfl
  rw [e]
  exact h.2.1 r c hr hc (by omega)



/-! ### the chroma planes of a macroblock -/

/-- index of sample (r, c) of the macroblock in the 9 x 9 chroma workspace -/
def at8 (r c : Nat) : Nat := (1 + r) * 9 + 1 + c

theorem cell_block8 (i k : Nat) :
    cell (1 + (i / 2) * 4) (1 + (i % 2) * 4) 9 k = at8 ((i / 2) * 4 + k / 4) ((i % 2) * 4 + k % 4) := by
  unfold cell at8; omega

theorem at8_inj (r c r' c' : Nat) (hc : c < 8) (hc' : c' < 8) (h : at8 r c = at8 r' c') : r = r' ∧ c = c' := by
  unfold at8 at h; omega

def After8 (res : Array Int) (first : Nat) (P : Array Nat) (n : Nat) (ws : Array Nat) : Prop :=
  ws.size = P.size ∧
  (∀ r c, r < 8 → c < 8 → (r / 4) * 2 + c / 4 < n →
    ws.getD (at8 r c) 0 = clampByte (res.getD (16 * (first + ((r / 4) * 2 + c / 4)) + 4 * (r % 4) + c % 4) 0 + P.getD (at8 r c) 0)) ∧
  (∀ q, (∀ r c, r < 8 → c < 8 → (r / 4) * 2 + c / 4 < n → at8 r c ≠ q) → ws.getD q 0 = P.getD q 0)

theorem after8_step (res : Array Int) (first : Nat) (hf : first ≤ 20) (P ws : Array Nat) (n : Nat) (hn : n < 4) (hP : P.size = 81) (hres : res.size = 384)
    (h : After8 res first P n ws) :
    After8 res first P (n + 1) (addResidue ws (block res (first + n)) (1 + (n / 2) * 4) (1 + (n % 2) * 4) 9) := by
  obtain ⟨hs, hin, hout⟩ := h
  obtain ⟨a1, a2, a3⟩ := addResidue_spec ws (block res (first + n)) (1 + (n / 2) * 4) (1 + (n % 2) * 4) 9 (by omega)
  refine ⟨a1.trans hs, ?_, ?_⟩
  · intro r c hr hc hlt
    by_cases hb : (r / 4) * 2 + c / 4 = n
    · have hk : 4 * (r % 4) + c % 4 < 16 := by omega
      have hcell := cell_block8 n (4 * (r % 4) + c % 4)
      have x1 : (n / 2) * 4 + (4 * (r % 4) + c % 4) / 4 = r := by omega
      have x2 : (n % 2) * 4 + (4 * (r % 4) + c % 4) % 4 = c := by omega
      rw [x1, x2] at hcell
      have hlt' : cell (1 + (n / 2) * 4) (1 + (n % 2) * 4) 9 (4 * (r % 4) + c % 4) < ws.size := by
        rw [hcell, hs, hP]; unfold at8; omega
      have := a2 _ hk hlt'
      rw [hcell] at this
      rw [this, block_getD res (first + n) _ hk (by omega)]
      have hprev : ws.getD (at8 r c) 0 = P.getD (at8 r c) 0 := hout _ (fun r' c' hr' hc' hlt' e => by
        obtain ⟨e1, e2⟩ := at8_inj r' c' r c hc' hc e
        subst e1 e2; omega)
      rw [hprev, ← hb, Nat.add_assoc]
    · have hlt2 : (r / 4) * 2 + c / 4 < n := by omega
      have hne : ∀ k, k < 16 → cell (1 + (n / 2) * 4) (1 + (n % 2) * 4) 9 k ≠ at8 r c := by
        intro k hk e
        rw [cell_block8 n k] at e
        obtain ⟨e1, e2⟩ := at8_inj _ _ r c (by omega) hc e
        apply hb; subst e1 e2; omega
      rw [a3 _ hne]
      exact hin r c hr hc hlt2
  · intro q hq
    have hne : ∀ k, k < 16 → cell (1 + (n / 2) * 4) (1 + (n % 2) * 4) 9 k ≠ q := by
      intro k hk e
      rw [cell_block8 n k] at e
      exact hq ((n / 2) * 4 + k / 4) ((n % 2) * 4 + k % 4) (by omega) (by omega) (by omega) e
    rw [a3 _ hne]
    exact hout q (fun r c hr hc hlt => hq r c hr hc (by omega))

theorem after8_all (res : Array Int) (first : Nat) (hf : first ≤ 20) (P : Array Nat) (hP : P.size = 81) (hres : res.size = 384) :
    ∀ n, n ≤ 4 → After8 res first P n ((List.range n).foldl (fun ws i => addResidue ws (block res (first + i)) (1 + (i / 2) * 4) (1 + (i % 2) * 4) 9) P) := by
  intro n
  induction n with
  | zero => intro _; exact ⟨rfl, fun r c _ _ h => by omega, fun q _ => rfl⟩
  | succ n ih =>
    intro hn
    rw [List.range_succ, List.foldl_append, List.foldl_cons, List.foldl_nil]
    exact after8_step res first hf P _ n (by omega) hP hres (ih (by omega))

/-- **a chroma plane of a macroblock is reconstructed as `clamp(prediction + residue)`** sample by sample -/
theorem chroma_recon (mbx mby chromaMode first : Nat) (hf : first ≤ 20) (res : Array Int) (ws : Array Nat)
    (hres : res.size = 384) (hws : ws.size = 81) :
    let P := match chromaMode with
      | 1 => Vp8Pred.predict 10 ws 8 1 1 9 true true
      | 2 => Vp8Pred.predict 11 ws 8 1 1 9 true true
      | 3 => Vp8Pred.predict 1 ws 8 1 1 9 true true
      | _ => Vp8Pred.predict 12 ws 8 1 1 9 (mby != 0) (mbx != 0)
    ∀ r c, r < 8 → c < 8 →
      (chromaRecon mbx mby chromaMode first res ws).getD (at8 r c) 0 =
        clampByte (res.getD (16 * (first + ((r / 4) * 2 + c / 4)) + 4 * (r % 4) + c % 4) 0 + P.getD (at8 r c) 0) := by
  intro P r c hr hc
  have hP : P.size = 81 := by
    simp only [P]
    split <;> rw [predict_size] <;> exact hws
  have h := after8_all res first hf P hP hres 4 (by omega)
  have e : chromaRecon mbx mby chromaMode first res ws =
      (List.range 4).foldl (fun ws i => addResidue ws (block res (first + i)) (1 + (i / 2) * 4) (1 + (i % 2) * 4) 9) P := by
    unfold chromaRecon
    rfl
  rw [e]
  exact h.2.1 r c hr hc (by omega)


end Vp8IntraProof
