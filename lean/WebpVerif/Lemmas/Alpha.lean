import WebpVerif.Model.Alpha
import WebpVerif.Spec.AlphaSpec
import Mathlib.Tactic.ByContra

namespace Alpha
open AlphaSpec

theorem alphaAt_set (buf : Array Nat) (i j v : Nat) (h : i * 4 + 3 < buf.size) :
    alphaAt (buf.setIfInBounds (i * 4 + 3) v) j = if i = j then v else alphaAt buf j := by
  unfold alphaAt
  simp only [Array.getElem!_eq_getD, Array.getD_eq_getD_getElem?, Array.getElem?_setIfInBounds]
  by_cases hij : i = j
  · subst hij; simp [h]
  · have : ¬ (i * 4 = j * 4) := by omega
    simp [hij, this]

theorem reconstruct_length (w m : Nat) (d : List Nat) (n : Nat) : (reconstruct w m d n).length = n := by
  induction n with
  | zero => rfl
  | succ n ih => simp [reconstruct, ih]

theorem reconstruct_getD_stable (w m : Nat) (d : List Nat) (n i : Nat) (hi : i < n) :
    (reconstruct w m d (n + 1)).getD i 0 = (reconstruct w m d n).getD i 0 := by
  simp only [reconstruct, List.getD_eq_getElem?_getD]
  rw [List.getElem?_append_left (by rw [reconstruct_length]; exact hi)]

theorem reconstruct_lt (w m : Nat) (d : List Nat) (n i : Nat) (hi : i < n) :
    (reconstruct w m d n).getD i 0 < 256 := by
  induction n with
  | zero => omega
  | succ n ih =>
    by_cases h : i < n
    · rw [reconstruct_getD_stable w m d n i h]; exact ih h
    · have : i = n := by omega
      subst this
      simp only [reconstruct, List.getD_eq_getElem?_getD]
      rw [List.getElem?_append_right (by rw [reconstruct_length]; exact Nat.le_refl _), reconstruct_length]
      simp
      omega

theorem clamp_byte (v : Nat) (h : v < 256) : clamp255 ((v : Int) + v - v) = v := by
  unfold clamp255; omega

theorem clamp_id (v : Nat) (h : v < 256) : clamp255 (v : Int) = v := by
  unfold clamp255; omega

/-- the code's predictor on a buffer whose first `k` alphas are `prev` = the specification's -/
theorem predictor_eq (w : Nat) (hw : 0 < w) (f : Nat) (buf : Array Nat) (prev : List Nat) (k : Nat)
    (hprev : ∀ i, i < k → alphaAt buf i = prev.getD i 0) (hlt : ∀ i, i < k → prev.getD i 0 < 256) :
    predictor (k % w) (k / w) w f buf = pred w f prev k := by
  have hk : k / w * w + k % w = k := by rw [Nat.mul_comm]; exact Nat.div_add_mod k w
  have hxw : k % w < w := Nat.mod_lt _ hw
  generalize hx : k % w = x at *
  generalize hy : k / w = y at *
  unfold predictor pred
  simp only [hx, hy]
  -- the three neighbours, when they exist
  have hleft : 0 < x → alphaAt buf (y * w + x - 1) = prev.getD (k - 1) 0 := by
    intro h; have : y * w + x - 1 = k - 1 := by omega
    rw [this]; exact hprev _ (by omega)
  have habove : 0 < y → alphaAt buf ((y - 1) * w + x) = prev.getD (k - w) 0 := by
    intro h
    have hge : w ≤ y * w := Nat.le_mul_of_pos_left w h
    have hsub : (y - 1) * w = y * w - w := by rw [Nat.sub_mul, Nat.one_mul]
    have : (y - 1) * w + x = k - w := by omega
    rw [this]; exact hprev _ (by omega)
  have htl : 0 < y → 0 < x → alphaAt buf ((y - 1) * w + x - 1) = prev.getD (k - w - 1) 0 := by
    intro h h'
    have hge : w ≤ y * w := Nat.le_mul_of_pos_left w h
    have hsub : (y - 1) * w = y * w - w := by rw [Nat.sub_mul, Nat.one_mul]
    have : (y - 1) * w + x - 1 = k - w - 1 := by omega
    rw [this]; exact hprev _ (by omega)
  have hbyteL : 0 < x → prev.getD (k - 1) 0 < 256 := fun h => hlt _ (by omega)
  have hbyteA : 0 < y → prev.getD (k - w) 0 < 256 := by
    intro h
    have hge : w ≤ y * w := Nat.le_mul_of_pos_left w h
    exact hlt _ (by omega)
  rcases Nat.eq_zero_or_pos x with hx0 | hxp <;> rcases Nat.eq_zero_or_pos y with hy0 | hyp
  · -- (0, 0)
    subst hx0; subst hy0
    by_cases f0 : f = 0 <;> by_cases f1 : f = 1 <;> by_cases f2 : f = 2 <;> simp [f0, f1, f2, clamp255] <;> omega
  · -- left column, y > 0
    subst hx0
    have ha := habove hyp
    simp only [Nat.add_zero] at ha
    have hb := hbyteA hyp
    have hne : ¬ y = 0 := by omega
    by_cases f0 : f = 0 <;> by_cases f1 : f = 1 <;> by_cases f2 : f = 2 <;>
      simp [f0, f1, f2, hne, ha] <;> (simp only [List.getD_eq_getElem?_getD] at hb; exact clamp_id _ hb)
  · -- top row, x > 0
    subst hy0
    have hl := hleft hxp
    simp only [Nat.zero_mul, Nat.zero_add] at hl
    have hb := hbyteL hxp
    have hne : ¬ x = 0 := by omega
    by_cases f0 : f = 0 <;> by_cases f1 : f = 1 <;> by_cases f2 : f = 2 <;>
      simp [f0, f1, f2, hne, hl] <;> (simp only [List.getD_eq_getElem?_getD] at hb; exact clamp_id _ hb)
  · -- interior
    have hl := hleft hxp
    have ha := habove hyp
    have ht := htl hyp hxp
    have hnx : ¬ x = 0 := by omega
    have hny : ¬ y = 0 := by omega
    by_cases f0 : f = 0 <;> by_cases f1 : f = 1 <;> by_cases f2 : f = 2 <;>
      simp [f0, f1, f2, hnx, hny, hl, ha, ht, clamp255, AlphaSpec.clip]

/-- **The sequential in-place loop reconstructs the specified alpha plane**, for every width,
    every number of pixels, all four filters and all deltas: after `n` steps, alpha `i < n` of the
    interleaved buffer is the specification's value; nothing else of the state matters. -/
theorem unfilter_spec (w : Nat) (hw : 0 < w) (f : Nat) (data : Array Nat) (buf : Array Nat) (n : Nat)
    (hbuf : n * 4 ≤ buf.size) :
    (unfilterInto w f data n buf).size = buf.size ∧
    ∀ i, i < n → alphaAt (unfilterInto w f data n buf) i = (reconstruct w f data.toList n).getD i 0 := by
  induction n with
  | zero => exact ⟨rfl, fun i hi => by omega⟩
  | succ n ih =>
    obtain ⟨hsz, hget⟩ := ih (by omega)
    have hstep : unfilterInto w f data (n + 1) buf =
        (unfilterInto w f data n buf).setIfInBounds (n * 4 + 3)
          ((predictor (n % w) (n / w) w f (unfilterInto w f data n buf) + data[n]!) % 256) := by
      unfold unfilterInto
      rw [List.range_succ, List.foldl_append]; rfl
    have hpred := predictor_eq w hw f (unfilterInto w f data n buf) (reconstruct w f data.toList n) n hget
      (fun i hi => reconstruct_lt w f data.toList n i hi)
    refine ⟨by rw [hstep]; simp [hsz], ?_⟩
    intro i hi
    rw [hstep, alphaAt_set _ _ _ _ (by rw [hsz]; omega), hpred]
    by_cases hin : n = i
    · subst hin
      simp only [if_true, reconstruct, List.getD_eq_getElem?_getD]
      rw [List.getElem?_append_right (by rw [reconstruct_length]; exact Nat.le_refl _), reconstruct_length]
      simp [Array.getElem!_eq_getD, Array.getD_eq_getD_getElem?, List.getD_eq_getElem?_getD]
    · rw [if_neg hin, hget i (by omega), reconstruct_getD_stable w f data.toList n i (by omega)]

end Alpha
