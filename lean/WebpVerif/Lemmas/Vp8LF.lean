import WebpVerif.Spec.Vp8FilterOrder
import Mathlib.Tactic.Ring
namespace Vp8LFProof
open Vp8K Vp8LF LibwebpLF

theorem vEdge_loop (f : Edge → Edge) (buf : Array Nat) (w x0 y0 n : Nat) :
    vEdge f buf w x0 y0 n = filterLoop f buf (y0 * w + x0) 1 w n := by
  unfold vEdge filterLoop
  have : (fun b i => applyAt f b ((y0 + i) * w + x0) 1) = (fun b i => applyAt f b (y0 * w + x0 + i * w) 1) := by
    funext b i; rw [show (y0 + i) * w + x0 = y0 * w + x0 + i * w by ring]
  rw [this]

theorem hEdge_loop (f : Edge → Edge) (buf : Array Nat) (w x0 y0 n : Nat) :
    hEdge f buf w x0 y0 n = filterLoop f buf (y0 * w + x0) w 1 n := by
  unfold hEdge filterLoop
  have : (fun b i => applyAt f b (y0 * w + x0 + i) w) = (fun b i => applyAt f b (y0 * w + x0 + i * 1) w) := by
    funext b i; rw [Nat.mul_one]
  rw [this]

/-- **the loop-filter driver visits the edges as the reference decoder does** -/
theorem filterMb_is_doFilter (isSimple : Bool) (level il hev : Nat) (inner : Bool) (W CW mbx mby : Nat) (p : Planes) :
    filterMb isSimple level il hev inner W CW mbx mby p = doFilter isSimple level il hev inner W CW mbx mby p := by
  unfold filterMb doFilter mbEdgeLimit subEdgeLimit hFilter16 vFilter16 hFilter16i vFilter16i hFilter8 vFilter8 hFilter8i vFilter8i
  simp only [List.foldl, vEdge_loop, hEdge_loop]
  have e1 : (level + 2) * 2 + il = 2 * level + il + 4 := by ring
  have e2 : level * 2 + il = 2 * level + il := by ring
  have a1 : mby * 16 * W + (mbx * 16 + 4) = mby * 16 * W + mbx * 16 + 4 := by ring
  have a2 : mby * 16 * W + (mbx * 16 + 8) = mby * 16 * W + mbx * 16 + 4 + 4 := by ring
  have a3 : mby * 16 * W + (mbx * 16 + 12) = mby * 16 * W + mbx * 16 + 4 + 4 + 4 := by ring
  have b1 : (mby * 16 + 4) * W + mbx * 16 = mby * 16 * W + mbx * 16 + 4 * W := by ring
  have b2 : (mby * 16 + 8) * W + mbx * 16 = mby * 16 * W + mbx * 16 + 4 * W + 4 * W := by ring
  have b3 : (mby * 16 + 12) * W + mbx * 16 = mby * 16 * W + mbx * 16 + 4 * W + 4 * W + 4 * W := by ring
  have c1 : mby * 8 * CW + (mbx * 8 + 4) = mby * 8 * CW + mbx * 8 + 4 := by ring
  have c2 : (mby * 8 + 4) * CW + mbx * 8 = mby * 8 * CW + mbx * 8 + 4 * CW := by ring
  rw [e1, e2, a1, a2, a3, b1, b2, b3, c1, c2]
end Vp8LFProof
