import WebpVerif.Lemmas.EncTreeWrite

/-!
The whole output of `Enc.encodeFrame` as one list of `write_bits` fields: header, transform
section, five prefix codes, one field group per token.  (Stage 1 of the bit-level round trip.)
-/
namespace EncRT
open Enc EncHuff EncTree Prefix BitWriterProof

theorem writeFields_eq (w : BW) (ws : List (Nat × Nat)) : writeFields w ws = writeAll w ws := rfl

/-- the fields of the header, the transform section and the three "no" bits after it -/
def headFields (width height : Nat) (isAlpha usePredictor : Bool) : List (Nat × Nat) :=
  [(0x2f, 8), (width - 1, 14), (height - 1, 14), (if isAlpha then 1 else 0, 1), (0, 3), (0b101, 3)] ++
  ((if usePredictor then
      [(0b111001, 6), (0, 1)] ++ (singleFields 2 ++ (singleFields 0 ++ (singleFields 0 ++ (singleFields 0 ++ singleFields 0))))
    else []) ++ [(0, 1), (0, 1), (0, 1)])

theorem range4 {α : Type} (f : α → α) (w : α) : (List.range 4).foldl (fun w _ => f w) w = f (f (f (f w))) := by
  simp only [List.range_succ, List.range_zero, List.nil_append, List.foldl_append, List.foldl_cons, List.foldl_nil]

theorem writeHeader_fields (w : BW) (width height : Nat) (isAlpha usePredictor : Bool) :
    writeHeader w width height isAlpha usePredictor = writeAll w (headFields width height isAlpha usePredictor) := by
  unfold writeHeader headFields
  simp only [range4, writeSingle_fields]
  cases usePredictor
  · simp only [Bool.false_eq_true, if_false, List.nil_append, List.cons_append, writeAll_cons, writeAll_nil]
  · simp only [if_true, List.nil_append, List.cons_append, writeAll_cons, writeAll_nil, writeAll_append]

/-- what `write_huffman_tree(freqs)` writes -/
def treeF (freqs : List Nat) : List (Nat × Nat) :=
  match build freqs 15 with
  | .built lengths _ => treeFields freqs.length lengths.toList
  | _ => singleFields ((if freqs.findIdx (· > 0) < freqs.length then freqs.findIdx (· > 0) else 0) % 256)

/-- … and the code (lengths, code words) it returns -/
def treeLC (freqs : List Nat) : Array Nat × Array Nat :=
  match build freqs 15 with
  | .built lengths codes => (lengths, codes)
  | _ => (Array.replicate freqs.length 0, Array.replicate freqs.length 0)

theorem writeHuffmanTree_eq (w : BW) (freqs : List Nat) :
    writeHuffmanTree w freqs = (writeAll w (treeF freqs), treeLC freqs) := by
  unfold treeF treeLC
  cases h : build freqs 15 with
  | built lengths codes => rw [write_tree_fields w freqs lengths codes h]
  | single => unfold writeHuffmanTree; rw [h]; simp only [writeSingle_fields]
  | panic m => unfold writeHuffmanTree; rw [h]; simp only [writeSingle_fields]


/-! ### the five prefix codes -/

def isAlphaC (color : Nat) : Prop := color = 1 ∨ color = 3

instance (color : Nat) : Decidable (isAlphaC color) := by unfold isAlphaC; infer_instance

def treesF (color : Nat) (usePredictor : Bool) (f : Array Nat × Array Nat × Array Nat × Array Nat) : List (Nat × Nat) :=
  treeF f.2.1.toList ++
  ((if color ≥ 2 then treeF f.1.toList ++ treeF f.2.2.1.toList else singleFields 0 ++ singleFields 0) ++
  ((if color = 1 ∨ color = 3 then treeF f.2.2.2.toList else singleFields (if usePredictor then 0 else 255)) ++
  singleFields 1))

def tabsOf (color : Nat) (f : Array Nat × Array Nat × Array Nat × Array Nat) : Tabs :=
  let z := Array.replicate 256 0
  { l0 := if color ≥ 2 then (treeLC f.1.toList).1 else z
    c0 := if color ≥ 2 then (treeLC f.1.toList).2 else z
    l1 := (treeLC f.2.1.toList).1
    c1 := (treeLC f.2.1.toList).2
    l2 := if color ≥ 2 then (treeLC f.2.2.1.toList).1 else z
    c2 := if color ≥ 2 then (treeLC f.2.2.1.toList).2 else z
    l3 := if color = 1 ∨ color = 3 then (treeLC f.2.2.2.toList).1 else z
    c3 := if color = 1 ∨ color = 3 then (treeLC f.2.2.2.toList).2 else z }

theorem writeTrees_eq (w : BW) (color : Nat) (usePredictor : Bool) (f : Array Nat × Array Nat × Array Nat × Array Nat) :
    writeTrees w color usePredictor f = (writeAll w (treesF color usePredictor f), tabsOf color f) := by
  unfold writeTrees treesF tabsOf
  simp only [writeHuffmanTree_eq, writeSingle_fields]
  by_cases hc : color ≥ 2 <;> by_cases ha : color = 1 ∨ color = 3 <;>
    simp only [hc, ha, if_true, if_false, writeAll_append]

/-! ### the tokens -/

/-- the fields of one token as `write_bits` receives them: the literal's code words packed into
    one field, then the run -/
def tokFieldsP (color : Nat) (tb : Tabs) (t : List Nat × Nat) : List (Nat × Nat) :=
  litField color tb t.1 ::
  (if t.2 = 0 then []
   else if t.2 ≤ 4 then [(tb.c1[256 + t.2 - 1]!, tb.l1[256 + t.2 - 1]!)]
   else [(tb.c1[256 + (lengthToSymbol t.2).1]!, tb.l1[256 + (lengthToSymbol t.2).1]!),
         ((t.2 - 1) % 2 ^ (lengthToSymbol t.2).2, (lengthToSymbol t.2).2)])

theorem writeTok_fields (color : Nat) (tb : Tabs) (w : BW) (t : List Nat × Nat) :
    writeTok color tb w t = writeAll w (tokFieldsP color tb t) := by
  unfold writeTok tokFieldsP
  by_cases h0 : t.2 = 0
  · simp only [h0, if_true]; rfl
  · by_cases h4 : t.2 ≤ 4
    · simp only [h0, h4, if_true, if_false]; rfl
    · simp only [h0, h4, if_false]; rfl

theorem writeToks_fields (color : Nat) (tb : Tabs) : ∀ (toks : List (List Nat × Nat)) (w : BW),
    toks.foldl (writeTok color tb) w = writeAll w (toks.flatMap (tokFieldsP color tb)) := by
  intro toks
  induction toks with
  | nil => intro w; rfl
  | cons t rest ih =>
    intro w
    rw [List.foldl_cons, ih, writeTok_fields, List.flatMap_cons, writeAll_append]

/-- **the whole frame as one field list** -/
def frameFields (data : List Nat) (width height color : Nat) (usePredictor : Bool) : List (Nat × Nat) :=
  let px := residuals data width color usePredictor
  let toks := tokenize px px.length
  let f := toks.foldl (countTok (color ≥ 2) (color = 1 ∨ color = 3)) (initFreqs color)
  headFields width height (color = 1 ∨ color = 3) usePredictor ++
    (treesF color usePredictor f ++ toks.flatMap (tokFieldsP color (tabsOf color f)))

theorem encodeFrame_fields (data : List Nat) (width height color : Nat) (usePredictor : Bool)
    (hd : ¬ (width = 0 ∨ width > 16384 ∨ height = 0 ∨ height > 16384)) :
    encodeFrame data width height color usePredictor = some (output (frameFields data width height color usePredictor)) := by
  unfold encodeFrame
  rw [if_neg hd]
  simp only [writeHeader_fields, writeTrees_eq, writeToks_fields]
  have e : ∀ ws, output ws = (writeAll BW.empty ws).flush := fun _ => rfl
  rw [e]
  unfold frameFields
  simp only [writeAll_append]

end EncRT
