import WebpVerif.Model.Arith
import Mathlib.Tactic.IntervalCases

namespace Arith

/-- register invariant: what every `debug_assert!` and every shift amount needs -/
def Inv (s : State) : Prop := 128 ≤ s.range ∧ s.range ≤ 255 ∧ -8 ≤ s.bitCount ∧ s.bitCount ≤ 31

/-- the state may be handed to `decide`: a non-negative shift amount below 32 -/
def Ready (s : State) : Prop := 128 ≤ s.range ∧ s.range ≤ 255 ∧ 0 ≤ s.bitCount ∧ s.bitCount ≤ 31

theorem flag_split (r : Nat) (h : 1 ≤ r) : r - r / 2 = splitOf r 128 ∧ r - splitOf r 128 = r / 2 := by
  unfold splitOf; simp only [Nat.shiftRight_eq_div_pow]; omega

theorem splitOf_bounds (r p : Nat) (hr : 128 ≤ r) (hr2 : r ≤ 255) (hp : p < 256) :
    1 ≤ splitOf r p ∧ splitOf r p ≤ r - 1 := by
  unfold splitOf; simp only [Nat.shiftRight_eq_div_pow]
  have : (r - 1) * p ≤ (r - 1) * 255 := Nat.mul_le_mul (Nat.le_refl _) (by omega)
  omega

theorem normShift_spec (r : Nat) (h1 : 1 ≤ r) (h2 : r ≤ 255) :
    128 ≤ r <<< normShift r ∧ r <<< normShift r ≤ 255 ∧ normShift r ≤ 7 := by
  unfold normShift
  simp only [Nat.shiftLeft_eq]
  interval_cases r <;> simp

/-- one decision step keeps the register invariant, for any split strictly inside the range -/
theorem decide_inv (s : State) (split rt : Nat) (hs : Ready s)
    (h1 : 1 ≤ split) (h2 : split ≤ 255) (h3 : 1 ≤ rt) (h4 : rt ≤ 255) :
    Inv (decide s split rt).2 ∧ (decide s split rt).2.chunkIndex = s.chunkIndex := by
  obtain ⟨_, _, hb0, hb1⟩ := hs
  unfold decide Inv
  by_cases hv : s.value ≥ split <<< s.bitCount.toNat
  · obtain ⟨a, b, c⟩ := normShift_spec rt h3 h4
    simp only [hv, if_true]
    exact ⟨⟨a, b, by omega, by omega⟩, trivial⟩
  · obtain ⟨a, b, c⟩ := normShift_spec split h1 h2
    simp only [hv, if_false]
    exact ⟨⟨a, b, by omega, by omega⟩, trivial⟩

theorem fastLoad_ready (chunks : Array Nat) (s : State) (h : Inv s) : Ready (fastLoad chunks s) := by
  obtain ⟨a, b, c, d⟩ := h
  unfold fastLoad Ready
  split
  · exact ⟨a, b, by simp only; omega, by simp only; omega⟩
  · exact ⟨a, b, by omega, d⟩

theorem fastReadBit_inv (chunks : Array Nat) (s : State) (p : Nat) (hp : p < 256) (h : Inv s) :
    Inv (fastReadBit chunks s p).2 := by
  obtain ⟨r1, r2, r3, r4⟩ := fastLoad_ready chunks s h
  unfold fastReadBit
  obtain ⟨a, b⟩ := splitOf_bounds _ p r1 r2 hp
  exact (decide_inv _ _ _ ⟨r1, r2, r3, r4⟩ a (by omega) (by omega) (by omega)).1

theorem fastReadFlag_eq (chunks : Array Nat) (s : State) (h : Inv s) :
    fastReadFlag chunks s = fastReadBit chunks s 128 := by
  have hr := fastLoad_ready chunks s h
  unfold fastReadFlag fastReadBit
  obtain ⟨e1, e2⟩ := flag_split (fastLoad chunks s).range (by have := hr.1; omega)
  rw [e1, e2]

theorem fastReadFlag_inv (chunks : Array Nat) (s : State) (h : Inv s) :
    Inv (fastReadFlag chunks s).2 := by
  rw [fastReadFlag_eq chunks s h]; exact fastReadBit_inv chunks s 128 (by omega) h

/-- `chunk_index` grows by exactly the loads -/
theorem fastReadBit_index (chunks : Array Nat) (s : State) (p : Nat) (hp : p < 256) (h : Inv s) :
    (fastReadBit chunks s p).2.chunkIndex = if s.bitCount < 0 then s.chunkIndex + 1 else s.chunkIndex := by
  obtain ⟨r1, r2, r3, r4⟩ := fastLoad_ready chunks s h
  unfold fastReadBit
  obtain ⟨a, b⟩ := splitOf_bounds _ p r1 r2 hp
  rw [(decide_inv _ _ _ ⟨r1, r2, r3, r4⟩ a (by omega) (by omega) (by omega)).2]
  unfold fastLoad; split <;> rfl

/-- abbreviation: the decoder with its register replaced -/
def withState (d : Dec) (s : State) : Dec := { d with state := s }

@[simp] theorem withState_chunks (d : Dec) (s : State) : (withState d s).chunks = d.chunks := rfl
@[simp] theorem withState_state (d : Dec) (s : State) : (withState d s).state = s := rfl
@[simp] theorem withState_withState (d : Dec) (s t : State) : withState (withState d s) t = withState d t := rfl

/-- **Speculation is unobservable, one bit.**  If the fast path's result is committed
    (`chunk_index ≤ chunks.len()` afterwards) the cold path computes the same value and the
    same state. -/
theorem fast_agrees_bit (d : Dec) (p : Nat) (hp : p < 256) (h : Inv d.state)
    (hc : (fastReadBit d.chunks d.state p).2.chunkIndex ≤ d.chunks.size) :
    coldReadBit d p = ((fastReadBit d.chunks d.state p).1, withState d (fastReadBit d.chunks d.state p).2) := by
  rw [fastReadBit_index d.chunks d.state p hp h] at hc
  unfold coldReadBit
  by_cases hb : d.state.bitCount < 0
  · simp only [hb, if_true] at hc ⊢
    have hlt : d.state.chunkIndex < d.chunks.size := by omega
    have hget : d.chunks[d.state.chunkIndex]? = some d.chunks[d.state.chunkIndex] := by
      simp [hlt]
    rw [hget]
    unfold coldDecide fastReadBit fastLoad withState
    simp [hb, hget]
  · simp only [hb, if_false]
    unfold coldDecide fastReadBit fastLoad withState
    simp [hb]

theorem fastReadFlag_index_le (chunks : Array Nat) (s : State) (h : Inv s) :
    s.chunkIndex ≤ (fastReadFlag chunks s).2.chunkIndex := by
  rw [fastReadFlag_eq chunks s h, fastReadBit_index chunks s 128 (by omega) h]; split <;> omega

theorem fastReadBit_index_le (chunks : Array Nat) (s : State) (p : Nat) (hp : p < 256) (h : Inv s) :
    s.chunkIndex ≤ (fastReadBit chunks s p).2.chunkIndex := by
  rw [fastReadBit_index chunks s p hp h]; split <;> omega

theorem fastReadLiteral_inv (chunks : Array Nat) (n : Nat) (s : State) (v : Nat) (h : Inv s) :
    Inv (fastReadLiteral chunks n s v).2 ∧ s.chunkIndex ≤ (fastReadLiteral chunks n s v).2.chunkIndex := by
  induction n generalizing s v with
  | zero => exact ⟨h, Nat.le_refl _⟩
  | succ n ih =>
    unfold fastReadLiteral
    have h1 := fastReadFlag_inv chunks s h
    have h2 := fastReadFlag_index_le chunks s h
    obtain ⟨a, b⟩ := ih (fastReadFlag chunks s).2 (u8 (v <<< 1) + (fastReadFlag chunks s).1.toNat) h1
    exact ⟨a, Nat.le_trans h2 b⟩

theorem fast_agrees_flag (d : Dec) (h : Inv d.state)
    (hc : (fastReadFlag d.chunks d.state).2.chunkIndex ≤ d.chunks.size) :
    coldReadBit d 128 = ((fastReadFlag d.chunks d.state).1, withState d (fastReadFlag d.chunks d.state).2) := by
  rw [fastReadFlag_eq d.chunks d.state h] at hc ⊢
  exact fast_agrees_bit d 128 (by omega) h hc

/-- speculation is unobservable: literals -/
theorem fast_agrees_literal (n : Nat) (d : Dec) (v : Nat) (h : Inv d.state)
    (hc : (fastReadLiteral d.chunks n d.state v).2.chunkIndex ≤ d.chunks.size) :
    coldReadLiteral n d v =
      ((fastReadLiteral d.chunks n d.state v).1, withState d (fastReadLiteral d.chunks n d.state v).2) := by
  induction n generalizing d v with
  | zero => rfl
  | succ n ih =>
    unfold fastReadLiteral at hc ⊢
    unfold coldReadLiteral
    have h1 := fastReadFlag_inv d.chunks d.state h
    have hmono := (fastReadLiteral_inv d.chunks n (fastReadFlag d.chunks d.state).2
      (u8 (v <<< 1) + (fastReadFlag d.chunks d.state).1.toNat) h1).2
    have hc1 : (fastReadFlag d.chunks d.state).2.chunkIndex ≤ d.chunks.size := Nat.le_trans hmono hc
    rw [fast_agrees_flag d h hc1]
    simp only
    have := ih (withState d (fastReadFlag d.chunks d.state).2)
      (u8 (v <<< 1) + (fastReadFlag d.chunks d.state).1.toNat) h1 hc
    simpa using this

/-- speculation is unobservable: optional signed values -/
theorem fast_agrees_signed (d : Dec) (n : Nat) (h : Inv d.state)
    (hc : (fastReadSigned d.chunks d.state n).2.chunkIndex ≤ d.chunks.size) :
    coldReadSigned d n =
      ((fastReadSigned d.chunks d.state n).1, withState d (fastReadSigned d.chunks d.state n).2) := by
  unfold fastReadSigned at hc ⊢
  unfold coldReadSigned
  have h1 := fastReadFlag_inv d.chunks d.state h
  have m1 := fastReadFlag_index_le d.chunks d.state h
  by_cases hf : (fastReadFlag d.chunks d.state).1 = true
  · simp only [hf, Bool.not_true, Bool.false_eq_true, if_false] at hc ⊢
    obtain ⟨h2, m2⟩ := fastReadLiteral_inv d.chunks n (fastReadFlag d.chunks d.state).2 0 h1
    have m3 := fastReadFlag_index_le d.chunks _ h2
    have c1 : (fastReadFlag d.chunks d.state).2.chunkIndex ≤ d.chunks.size := by omega
    have c2 : (fastReadLiteral d.chunks n (fastReadFlag d.chunks d.state).2 0).2.chunkIndex ≤ d.chunks.size := by omega
    rw [fast_agrees_flag d h c1]
    simp only [hf, Bool.not_true, Bool.false_eq_true, if_false]
    have e2 := fast_agrees_literal n (withState d (fastReadFlag d.chunks d.state).2) 0 h1 (by simpa using c2)
    simp only [withState_chunks, withState_state, withState_withState] at e2
    rw [e2]
    simp only
    have e3 := fast_agrees_flag (withState d (fastReadLiteral d.chunks n (fastReadFlag d.chunks d.state).2 0).2) h2 (by simpa using hc)
    simp only [withState_chunks, withState_state, withState_withState] at e3
    rw [e3]
  · have hf' : (fastReadFlag d.chunks d.state).1 = false := by simpa using hf
    simp only [hf', Bool.not_false, if_true] at hc ⊢
    rw [fast_agrees_flag d h hc]
    simp [hf']

/-- the tree walk only increases the chunk index -/
theorem fastReadTree_mono (chunks : Array Nat) (tree : Array Node)
    (hall : ∀ (k : Nat) (nd : Node), tree[k]? = some nd → nd.prob < 256) (fuel : Nat) :
    ∀ (s0 : State) (nd : Node) (r : Nat × State), Inv s0 → nd.prob < 256 →
      fastReadTree chunks tree fuel s0 nd = some r → s0.chunkIndex ≤ r.2.chunkIndex := by
  induction fuel with
  | zero => intro s0 nd r _ _ hr; simp [fastReadTree] at hr
  | succ fuel ih =>
    intro s0 nd r hinv hpn hr
    unfold fastReadTree at hr
    have a := fastReadBit_inv chunks s0 nd.prob hpn hinv
    have b := fastReadBit_index_le chunks s0 nd.prob hpn hinv
    simp only at hr
    split at hr
    · simp only [Option.some.injEq] at hr; subst hr; exact b
    · rename_i nx hk
      exact Nat.le_trans b (ih _ _ _ a (hall _ nx hk) hr)

/-- speculation is unobservable: tree-coded values (every tree, every start node) -/
theorem fast_agrees_tree (tree : Array Node) (hall : ∀ (k : Nat) (nd : Node), tree[k]? = some nd → nd.prob < 256)
    (fuel : Nat) (d : Dec) (index : Nat) (node : Node)
    (hnode : tree[index]? = some node) (h : Inv d.state) (r : Nat × State)
    (hres : fastReadTree d.chunks tree fuel d.state node = some r)
    (hc : r.2.chunkIndex ≤ d.chunks.size) :
    coldReadTree tree fuel d index = some (r.1, withState d r.2) := by
  induction fuel generalizing d index node with
  | zero => simp [fastReadTree] at hres
  | succ fuel ih =>
    have hp : node.prob < 256 := hall index node hnode
    unfold fastReadTree at hres
    unfold coldReadTree
    rw [hnode]; simp only at hres ⊢
    have h1 := fastReadBit_inv d.chunks d.state node.prob hp h
    split at hres
    · rename_i hnx
      simp only [Option.some.injEq] at hres; subst hres
      simp only at hc
      rw [fast_agrees_bit d node.prob hp h hc]
      simp only
      have : ¬ (if (fastReadBit d.chunks d.state node.prob).1 = true then node.right else node.left) < tree.size := by
        intro hlt; simp [hlt] at hnx
      simp [this]
    · rename_i nx hnx
      have hlt : (if (fastReadBit d.chunks d.state node.prob).1 = true then node.right else node.left) < tree.size := by
        by_contra hge; simp [Nat.not_lt.mp hge] at hnx
      have hc1 : (fastReadBit d.chunks d.state node.prob).2.chunkIndex ≤ d.chunks.size :=
        Nat.le_trans (fastReadTree_mono d.chunks tree hall fuel _ nx r h1 (hall _ nx hnx) hres) hc
      rw [fast_agrees_bit d node.prob hp h hc1]
      simp only [hlt, if_true]
      have := ih (withState d (fastReadBit d.chunks d.state node.prob).2) _ nx hnx h1
        (by simpa using hres) (by simpa using hc)
      simpa using this

end Arith

namespace Arith

/-- well-formedness of the whole decoder (holds initially, preserved by every read) -/
def WF (d : Dec) : Prop :=
  Inv d.state ∧ d.state.chunkIndex ≤ d.chunks.size ∧
  (d.finalBytesRemaining = EOF → d.state.bitCount < 0 ∧ d.state.chunkIndex = d.chunks.size) ∧
  (d.finalBytesRemaining = EOF ∨ (-1 ≤ d.finalBytesRemaining ∧ d.finalBytesRemaining ≤ 3))

theorem coldDecide_wf (d : Dec) (p : Nat) (hp : p < 256) (hr : Ready d.state)
    (hidx : d.state.chunkIndex ≤ d.chunks.size)
    (hf : -1 ≤ d.finalBytesRemaining ∧ d.finalBytesRemaining ≤ 3) :
    WF (coldDecide d p).2 := by
  obtain ⟨r1, r2, r3, r4⟩ := hr
  obtain ⟨a, b⟩ := splitOf_bounds _ p r1 r2 hp
  obtain ⟨i1, i2⟩ := decide_inv d.state _ (d.state.range - splitOf d.state.range p) ⟨r1, r2, r3, r4⟩ a (by omega) (by omega) (by omega)
  unfold coldDecide WF
  refine ⟨i1, by simp only; omega, ?_, Or.inr hf⟩
  intro h; simp only [EOF] at h; omega

theorem loadFromFinalBytes_cases (d : Dec) :
    (loadFromFinalBytes d).chunks = d.chunks ∧ (loadFromFinalBytes d).state.chunkIndex = d.state.chunkIndex ∧
    (loadFromFinalBytes d).state.range = d.state.range ∧
    ((1 ≤ d.finalBytesRemaining ∧ (loadFromFinalBytes d).finalBytesRemaining = d.finalBytesRemaining - 1 ∧
        (loadFromFinalBytes d).state.bitCount = d.state.bitCount + 8) ∨
     (d.finalBytesRemaining = 0 ∧ (loadFromFinalBytes d).finalBytesRemaining = -1 ∧
        (loadFromFinalBytes d).state.bitCount = d.state.bitCount + 8) ∨
     (d.finalBytesRemaining < 0 ∧ (loadFromFinalBytes d).finalBytesRemaining = EOF ∧
        (loadFromFinalBytes d).state = d.state)) := by
  unfold loadFromFinalBytes
  by_cases h1 : d.finalBytesRemaining ≥ 1
  · rw [if_pos h1]; exact ⟨rfl, rfl, rfl, Or.inl ⟨h1, rfl, rfl⟩⟩
  · by_cases h0 : d.finalBytesRemaining = 0
    · rw [if_neg h1, if_pos h0]; exact ⟨rfl, rfl, rfl, Or.inr (Or.inl ⟨h0, rfl, rfl⟩)⟩
    · rw [if_neg h1, if_neg h0]; exact ⟨rfl, rfl, rfl, Or.inr (Or.inr ⟨by omega, rfl, rfl⟩)⟩

/-- every cold read keeps the decoder well-formed; in particular the shift amount handed to
    `split << bit_count` is in `0..=31` and both `debug_assert!`s hold -/
theorem coldReadBit_wf (d : Dec) (p : Nat) (hp : p < 256) (h : WF d) : WF (coldReadBit d p).2 := by
  obtain ⟨⟨a, b, c, e⟩, hidx, heof, hfb⟩ := h
  unfold coldReadBit
  by_cases hb : d.state.bitCount < 0
  · simp only [hb, if_true]
    cases hch : d.chunks[d.state.chunkIndex]? with
    | some v =>
      simp only
      have hlt : d.state.chunkIndex < d.chunks.size := by
        by_contra hge; simp [Nat.not_lt.mp hge] at hch
      have hne : d.finalBytesRemaining ≠ EOF := by
        intro he; have := (heof he).2; omega
      have hf : -1 ≤ d.finalBytesRemaining ∧ d.finalBytesRemaining ≤ 3 := by
        cases hfb with
        | inl h => exact absurd h hne
        | inr h => exact h
      apply coldDecide_wf _ p hp
      · exact ⟨a, b, by simp only; omega, by simp only; omega⟩
      · simp only; omega
      · exact hf
    | none =>
      simp only
      obtain ⟨e1, e2, e3, hcase⟩ := loadFromFinalBytes_cases d
      have hge : d.chunks.size ≤ d.state.chunkIndex := by
        by_contra hlt; simp [Nat.lt_of_not_le hlt] at hch
      rcases hcase with ⟨c1, c2, c3⟩ | ⟨c1, c2, c3⟩ | ⟨c1, c2, c3⟩
      · have hne : isPastEof (loadFromFinalBytes d) = false := by
          unfold isPastEof; rw [c2]; simp only [EOF, beq_eq_false_iff_ne]
          cases hfb with
          | inl h => simp only [EOF] at h; omega
          | inr h => omega
        simp only [hne, Bool.false_eq_true, if_false]
        apply coldDecide_wf _ p hp
        · exact ⟨by rw [e3]; exact a, by rw [e3]; exact b, by rw [c3]; omega, by rw [c3]; omega⟩
        · rw [e1, e2]; exact hidx
        · rw [c2]; cases hfb with
          | inl h => simp only [EOF] at h; omega
          | inr h => omega
      · have hne : isPastEof (loadFromFinalBytes d) = false := by
          unfold isPastEof; rw [c2]; simp [EOF]
        simp only [hne, Bool.false_eq_true, if_false]
        apply coldDecide_wf _ p hp
        · exact ⟨by rw [e3]; exact a, by rw [e3]; exact b, by rw [c3]; omega, by rw [c3]; omega⟩
        · rw [e1, e2]; exact hidx
        · rw [c2]; omega
      · have he : isPastEof (loadFromFinalBytes d) = true := by
          unfold isPastEof; rw [c2]; simp
        simp only [he, if_true]
        refine ⟨by rw [c3]; exact ⟨a, b, c, e⟩, by rw [e1, c3]; exact hidx, ?_, Or.inl c2⟩
        intro _; rw [c3, e1]; exact ⟨hb, by omega⟩
  · simp only [hb, if_false]
    have hne : d.finalBytesRemaining ≠ EOF := by
      intro he; have := (heof he).1; omega
    have hf : -1 ≤ d.finalBytesRemaining ∧ d.finalBytesRemaining ≤ 3 := by
      cases hfb with
      | inl h => exact absurd h hne
      | inr h => exact h
    exact coldDecide_wf d p hp ⟨a, b, by omega, e⟩ hidx hf

/-- exhaustion is sticky: once `check` would fail, every later read returns the default value
    and leaves the decoder untouched -/
theorem eof_sticky (d : Dec) (p : Nat) (h : WF d) (he : d.finalBytesRemaining = EOF) :
    coldReadBit d p = (false, d) := by
  obtain ⟨_, hidx, heof, _⟩ := h
  obtain ⟨hb, hi⟩ := heof he
  unfold coldReadBit
  simp only [hb, if_true]
  have hch : d.chunks[d.state.chunkIndex]? = none := by simp [hi]
  rw [hch]; simp only
  have : loadFromFinalBytes d = d := by
    unfold loadFromFinalBytes
    have h1 : ¬ d.finalBytesRemaining ≥ 1 := by rw [he]; simp [EOF]
    have h0 : ¬ d.finalBytesRemaining = 0 := by rw [he]; simp [EOF]
    simp only [h1, h0, if_false]
    cases d; simp only at he; simp [he]
  rw [this]
  simp [isPastEof, he]

theorem init_wf (data : List Nat) : WF (init data) := by
  unfold init WF
  have hlen : ∀ (l : List Nat) (acc : Array Nat), (splitChunks l acc).2.length ≤ 3 := by
    intro l
    induction l using List.rec with
    | nil => intro acc; simp [splitChunks]
    | cons a l ih =>
      intro acc
      match l with
      | [] => simp [splitChunks]
      | [b] => simp [splitChunks]
      | [b, c] => simp [splitChunks]
      | b :: c :: e :: rest =>
        unfold splitChunks
        -- recursion on the tail of the tail: use strong statement via length
        exact (by
          have : ∀ (n : Nat) (l : List Nat) (acc : Array Nat), l.length ≤ n → (splitChunks l acc).2.length ≤ 3 := by
            intro n
            induction n with
            | zero => intro l acc hl; have : l = [] := List.eq_nil_of_length_eq_zero (by omega); subst this; simp [splitChunks]
            | succ n ihn =>
              intro l acc hl
              match l with
              | [] => simp [splitChunks]
              | [_] => simp [splitChunks]
              | [_, _] => simp [splitChunks]
              | [_, _, _] => simp [splitChunks]
              | _ :: _ :: _ :: _ :: rest =>
                unfold splitChunks
                exact ihn rest _ (by simp at hl; omega)
          exact this rest.length rest _ (Nat.le_refl _))
  have := hlen data #[]
  refine ⟨⟨by simp [initState], by simp [initState], by simp [initState], by simp [initState]⟩, by simp [initState], ?_, ?_⟩
  · intro h; simp only [EOF] at h; omega
  · right; simp only; omega

end Arith
