import WebpVerif.Lemmas.EncFields

/-!
Stage 2 of the bit-level round trip: the contract of one prefix code between encoder and
specification decoder.  For every histogram `write_huffman_tree` serialises a code that
`Prefix.readCodeL` reads back, and every symbol with a non-zero count, written with the returned
(code word, length), is decoded by `Prefix.decodeSymbol` to itself.
-/
namespace EncRT
open Enc EncHuff EncTree Prefix BitWriterProof

/-- a code with the single symbol `s` in an alphabet of `n` -/
def oneHot (n s : Nat) : List Nat := (List.replicate n 0).set s 1

/-- **the contract of one prefix code**: `fields` is what the encoder writes for it, `lens` what
    the specification reads back, and every symbol in `used`, written as `(C[j], L[j])`, decodes
    to itself -/
structure CodeOK (alph : Nat) (fields : List (Nat × Nat)) (L C : Array Nat) (lens : List Nat) (used : Nat → Prop) : Prop where
  valid : Valid fields
  read : ∀ rest, readCodeL alph (fieldBits fields ++ rest) = some (lens, rest)
  sym : ∀ j, used j → C[j]! < 2 ^ L[j]! ∧ L[j]! ≤ 15 ∧
    ∀ rest, decodeSymbol lens (lsbBits C[j]! L[j]! ++ rest) = some (j, rest)

theorem findIdx_zeros (k : Nat) : (List.replicate k 0).findIdx (· ≠ 0) = k := by
  induction k with
  | zero => rfl
  | succ k ih => rw [List.replicate_succ, List.findIdx_cons, ih]; simp

theorem oneHot_filter (n s : Nat) (hs : s < n) : ((oneHot n s).filter (· ≠ 0)).length = 1 ∧ (oneHot n s).findIdx (· ≠ 0) = s := by
  unfold oneHot
  have hsplit : (List.replicate n 0).set s 1 = List.replicate s 0 ++ 1 :: List.replicate (n - s - 1) 0 := by
    apply List.ext_getElem
    · simp; omega
    · intro i h1 h2
      rw [List.getElem_set]
      by_cases hi : s = i
      · subst hi; simp
      · rw [if_neg hi]
        by_cases hlt : i < s
        · rw [List.getElem_append_left (by simpa using hlt)]; simp
        · rw [List.getElem_append_right (by simp; omega)]
          simp only [List.length_replicate]
          obtain ⟨k, hk⟩ : ∃ k, i - s = k + 1 := ⟨i - s - 1, by omega⟩
          rw [List.getElem_cons, dif_neg (by omega)]
          simp
  rw [hsplit]
  constructor
  · rw [List.filter_append, List.filter_cons]
    simp [List.filter_replicate]
  · rw [List.findIdx_append, findIdx_zeros]
    simp [List.findIdx_cons]

theorem decodeSymbol_oneHot (n s : Nat) (hs : s < n) (bits : List Nat) : decodeSymbol (oneHot n s) bits = some (s, bits) := by
  unfold decodeSymbol
  obtain ⟨h1, h2⟩ := oneHot_filter n s hs
  rw [if_pos h1, h2]

/-- `write_single_entry_huffman_tree(s)` is read back as the one-symbol code of `s` -/
theorem readCodeL_single (n s : Nat) (hs : s < n) (h256 : s < 256) (rest : List Nat) :
    readCodeL n (fieldBits (singleFields s) ++ rest) = some (oneHot n s, rest) := by
  unfold singleFields readCodeL
  by_cases h1 : s ≤ 1
  · rw [if_pos h1]
    simp only [fieldBits_cons, List.append_assoc]
    have e12 : lsbBits 1 2 = lsbBits 1 1 ++ lsbBits 0 1 := by decide
    rw [e12, List.append_assoc, readBitsL_field 1 1 _ (by decide)]
    simp only [if_true]
    rw [readBitsL_field 0 1 _ (by decide)]
    simp only
    rw [readBitsL_field 0 1 _ (by decide)]
    simp only [Nat.zero_ne_one, if_false]
    rw [readBitsL_field s 1 _ (by omega)]
    simp only
    rw [if_neg (by omega)]
    simp [oneHot, fieldBits]
  · rw [if_neg h1]
    simp only [fieldBits_cons, List.append_assoc]
    have e12 : lsbBits 1 2 = lsbBits 1 1 ++ lsbBits 0 1 := by decide
    rw [e12, List.append_assoc, readBitsL_field 1 1 _ (by decide)]
    simp only [if_true]
    rw [readBitsL_field 0 1 _ (by decide)]
    simp only
    rw [readBitsL_field 1 1 _ (by decide)]
    simp only [if_true]
    rw [readBitsL_field s 8 _ (by omega)]
    simp only
    rw [if_neg (by omega)]
    simp [oneHot, fieldBits]

/-- an explicitly written one-symbol code (`write_single_entry_huffman_tree(s)`, tables all zero) -/
theorem codeOK_single (n s : Nat) (hs : s < n) (h256 : s < 256) (k : Nat) :
    CodeOK n (singleFields s) (Array.replicate k 0) (Array.replicate k 0) (oneHot n s) (fun j => j = s) where
  valid := singleFields_valid s h256
  read := readCodeL_single n s hs h256
  sym := by
    intro j hj
    subst hj
    have e : (Array.replicate k 0)[j]! = 0 := by
      rw [Array.getElem!_eq_getD, Array.getD_eq_getD_getElem?]
      by_cases hjk : j < k
      · simp [hjk]
      · simp [hjk]
    rw [e]
    refine ⟨by decide, by decide, fun rest => ?_⟩
    show decodeSymbol (oneHot n j) ([] ++ rest) = _
    rw [List.nil_append, decodeSymbol_oneHot n j hs]


/-- every used symbol of a code built by `build_huffman_tree(…, 15)`, written with the returned
    code word and length, is decoded to itself by the specification's symbol decoder -/
theorem built_decodes (freqs : List Nat) (hn : freqs.length ≤ 5000) (hsum : freqs.sum < 2 ^ 32)
    (h2 : 2 ≤ (freqs.filter (· > 0)).length) (lengths codes : Array Nat) (hb : build freqs 15 = .built lengths codes)
    (j : Nat) (hj : j < freqs.length) (hpos : freqs[j]! > 0) :
    codes[j]! < 2 ^ lengths[j]! ∧ lengths[j]! ≤ 15 ∧
      ∀ rest, decodeSymbol lengths.toList (lsbBits codes[j]! lengths[j]! ++ rest) = some (j, rest) := by
  obtain ⟨lengths', codes', hb', hsz, hrange, hkraft, hcanon⟩ :=
    build_full_all freqs 15 (by decide) (by decide) h2 hsum (by have : (5000 : Nat) ≤ 2 ^ 15 := by decide
                                                                omega)
  rw [hb] at hb'
  injection hb' with e1 e2
  subst e1 e2
  obtain ⟨lengths'', codes'', hb'', _, hall15, hv⟩ := built_valid freqs hn hsum h2
  rw [hb] at hb''
  injection hb'' with e1 e2
  subst e1 e2
  have hr := (hrange j hj).2 hpos
  have hc := hcanon j hj (by omega)
  have hlen : lengths.toList.length ≤ 5000 := by simpa [hsz] using hn
  have hgd : lengths.toList.getD j 0 = lengths[j]! := by
    rw [List.getD_eq_getElem?_getD, Array.getElem!_eq_getD, Array.getD_eq_getD_getElem?, Array.getElem?_toList]
    rfl
  have hused : 2 ≤ (lengths.toList.filter (· ≠ 0)).length := by
    unfold validLengths at hv
    simp only [Bool.and_eq_true, Bool.or_eq_true, beq_iff_eq, decide_eq_true_eq] at hv
    rcases hv.2 with h1 | ⟨h2', _⟩
    · exfalso
      have : (lengths.toList.filter (· ≠ 0)).length = (freqs.filter (· > 0)).length := by
        apply used_corr _ _ (by simp [hsz])
        intro i h1' h2'
        rw [getElem!_toList _ _ h1']
        have e2 : freqs[i]! = freqs[i] := by
          rw [List.getElem!_eq_getElem?_getD, List.getElem?_eq_getElem h2']; rfl
        have := hrange i h2'
        rw [e2] at this
        constructor
        · intro hne
          by_cases hz : freqs[i] = 0
          · exact absurd (this.1 hz) hne
          · omega
        · intro hp
          have := (this.2 hp).1
          omega
      omega
    · exact h2'
  cases hcc : canonicalCode lengths.toList j with
  | none => rw [hcc] at hc; cases hc
  | some c =>
    rw [hcc, Option.map_some] at hc
    have hcode : codes[j]! = reverseBits c lengths[j]! := Option.some.inj hc
    rcases Huff.build_total lengths.toList hall15 hlen hv with ⟨t, ht⟩ | ⟨s', hs'⟩
    · obtain ⟨_, _, L, hL1, hL15, hmax, hend⟩ := Huff.build_good lengths.toList hall15 hlen t ht
      have hfit := Huff.code_fits lengths.toList L hend j c hcc (by rw [hgd]; exact hmax _ (by
        rw [← hgd]; exact Huff.getD_mem _ _ (by simp [hsz]; omega)))
      refine ⟨by rw [hcode]; exact reverseBits_lt _ _, hr.2, fun rest => ?_⟩
      unfold decodeSymbol
      rw [if_neg (by omega), hcode, lsb_reverse_eq_msb, ← hgd]
      exact decodeSym_canonical lengths.toList j c 15 hcc hfit (by rw [hgd]; omega) rest
    · exfalso
      unfold Huff.build at hs'
      simp only at hs'
      rw [if_neg (by omega), if_neg (by omega)] at hs'
      split at hs'
      · cases hs'
      · split at hs' <;> cases hs'

/-- with at most one used symbol, a used symbol is the first used one -/
theorem unique_pos : ∀ (l : List Nat) (j : Nat), j < l.length → l[j]! > 0 → (l.filter (· > 0)).length ≤ 1 →
    l.findIdx (· > 0) = j := by
  intro l
  induction l with
  | nil => intro j hj; simp at hj
  | cons a l ih =>
    intro j hj hpos hone
    by_cases ha : a > 0
    · have hf : l.filter (· > 0) = [] := by
        rw [List.filter_cons, if_pos (by simpa using ha)] at hone
        simp only [List.length_cons] at hone
        exact List.eq_nil_of_length_eq_zero (by omega)
      cases j with
      | zero => rw [List.findIdx_cons]; simp [ha]
      | succ k =>
        exfalso
        have hk : k < l.length := by simpa using hj
        have e : (a :: l)[k + 1]! = l[k] := by
          rw [List.getElem!_eq_getElem?_getD, List.getElem?_cons_succ, List.getElem?_eq_getElem hk]; rfl
        rw [e] at hpos
        have : l[k] ∈ l.filter (· > 0) := List.mem_filter.mpr ⟨List.getElem_mem _, by simpa using hpos⟩
        rw [hf] at this
        cases this
    · have ha0 : a = 0 := by omega
      subst ha0
      cases j with
      | zero => simp at hpos
      | succ k =>
        have hk : k < l.length := by simpa using hj
        have e : (0 :: l)[k + 1]! = l[k]! := by
          rw [List.getElem!_eq_getElem?_getD, List.getElem?_cons_succ, List.getElem!_eq_getElem?_getD]
        rw [e] at hpos
        rw [List.filter_cons, if_neg (by simp)] at hone
        rw [List.findIdx_cons]
        simp only [gt_iff_lt, Nat.lt_irrefl, decide_false, cond_false]
        rw [ih k hk hpos hone]

/-- **the contract holds for every histogram `write_huffman_tree` is called with** (at least one
    used symbol; if there is only one, it must be writable in 8 bits) -/
theorem codeOK_tree (freqs : List Nat) (hn : freqs.length ≤ 5000) (hsum : freqs.sum < 2 ^ 32)
    (hex : ∃ j, j < freqs.length ∧ freqs[j]! > 0)
    (h256 : (freqs.filter (· > 0)).length ≤ 1 → ∀ j, j < freqs.length → freqs[j]! > 0 → j < 256) :
    ∃ lens, CodeOK freqs.length (treeF freqs) (treeLC freqs).1 (treeLC freqs).2 lens (fun j => j < freqs.length ∧ freqs[j]! > 0) := by
  by_cases h2 : 2 ≤ (freqs.filter (· > 0)).length
  · obtain ⟨lengths, codes, hb, hsz, hall15, hv⟩ := built_valid freqs hn hsum h2
    have hlen : lengths.toList.length = freqs.length := by simpa using hsz
    have hpos : 1 ≤ freqs.length := by
      have := List.length_filter_le (· > 0) freqs
      omega
    have eF : treeF freqs = treeFields freqs.length lengths.toList := by unfold treeF; rw [hb]
    have eLC : treeLC freqs = (lengths, codes) := by unfold treeLC; rw [hb]
    refine ⟨lengths.toList, ?_, ?_, ?_⟩
    · rw [eF]; exact treeFields_valid _ _ (by omega) hall15
    · intro rest; rw [eF]; exact parse_back freqs.length lengths.toList hlen hpos hn hall15 hv rest
    · intro j ⟨hj, hp⟩
      rw [eLC]
      exact built_decodes freqs hn hsum h2 lengths codes hb j hj hp
  · have h1 : (freqs.filter (· > 0)).length ≤ 1 := by omega
    have hb : build freqs 15 = .single := by unfold build; rw [if_pos h1]
    obtain ⟨j0, hj0, hp0⟩ := hex
    have hidx := unique_pos freqs j0 hj0 hp0 h1
    have hj256 := h256 h1 j0 hj0 hp0
    have eF : treeF freqs = singleFields j0 := by
      unfold treeF; rw [hb]; simp only [hidx, hj0, if_true]; rw [Nat.mod_eq_of_lt hj256]
    have eLC : treeLC freqs = (Array.replicate freqs.length 0, Array.replicate freqs.length 0) := by unfold treeLC; rw [hb]
    have hs := codeOK_single freqs.length j0 hj0 hj256 freqs.length
    refine ⟨oneHot freqs.length j0, ?_, ?_, ?_⟩
    · rw [eF]; exact hs.valid
    · rw [eF]; exact hs.read
    · intro j ⟨hj, hp⟩
      rw [eLC]
      have : j = j0 := by rw [← hidx]; exact (unique_pos freqs j hj hp h1).symm
      exact hs.sym j this

end EncRT
