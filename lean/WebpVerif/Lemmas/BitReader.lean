import WebpVerif.Model.BitReader
import Mathlib.Tactic.ByContra
import Mathlib.Tactic.Linarith

namespace BitReader

/-! ### window algebra on naturals -/

theorem mod_mod_pow (T n m : Nat) (h : n ≤ m) : T % 2 ^ m % 2 ^ n = T % 2 ^ n :=
  Nat.mod_mod_of_dvd T (Nat.pow_dvd_pow 2 h)

theorem window_shift (T m k : Nat) (h : k ≤ m) : (T % 2 ^ m) >>> k = (T >>> k) % 2 ^ (m - k) := by
  apply Nat.eq_of_testBit_eq
  intro i
  simp only [Nat.testBit_shiftRight, Nat.testBit_mod_two_pow]
  by_cases hi : i < m - k
  · have : k + i < m := by omega
    simp [hi, this]
  · have : ¬ k + i < m := by omega
    simp [hi, this]

/-- OR-ing the 64-bit look-ahead (the stream from bit `n` on) over a valid window of `m ≥ n`
    bits gives the valid 64-bit window: the overlapping bits are equal, so OR is idempotent there -/
theorem merge_fast (T n m : Nat) (hnm : n ≤ m) (hm : m ≤ 64) :
    (T % 2 ^ m ||| ((T >>> n) % 2 ^ 64) <<< n) % 2 ^ 64 = T % 2 ^ 64 := by
  apply Nat.eq_of_testBit_eq
  intro i
  simp only [Nat.testBit_mod_two_pow, Nat.testBit_or, Nat.testBit_shiftLeft, Nat.testBit_shiftRight]
  by_cases hi : i < 64
  · by_cases hin : n ≤ i
    · have e : n + (i - n) = i := by omega
      have h2 : i - n < 64 := by omega
      simp only [hi, hin, h2, e, decide_true, Bool.true_and, ge_iff_le]
      cases hb : T.testBit i <;> simp
    · have him : i < m := by omega
      simp [hi, hin, him]
  · simp [hi]

/-- the byte-at-a-time step: OR-ing one byte at bit `n` extends a valid window to `max m (n+8)` -/
theorem merge_slow (T n m : Nat) (hnm : n ≤ m) :
    T % 2 ^ m ||| ((T >>> n) % 256) <<< n = T % 2 ^ (max m (n + 8)) := by
  apply Nat.eq_of_testBit_eq
  intro i
  have h256 : (256 : Nat) = 2 ^ 8 := rfl
  rw [h256]
  simp only [Nat.testBit_mod_two_pow, Nat.testBit_or, Nat.testBit_shiftLeft, Nat.testBit_shiftRight]
  by_cases hin : n ≤ i
  · have e : n + (i - n) = i := by omega
    by_cases h8 : i - n < 8
    · have : i < max m (n + 8) := by omega
      simp only [hin, h8, e, this, decide_true, Bool.true_and, ge_iff_le]
      cases hb : T.testBit i <;> simp
    · by_cases him : i < m
      · have : i < max m (n + 8) := by omega
        simp [hin, h8, him, this]
      · have : ¬ i < max m (n + 8) := by omega
        simp [hin, h8, him, this]
  · have him : i < m := by omega
    have : i < max m (n + 8) := by omega
    simp [hin, him, this]

/-! ### the stream as a number -/

theorem le64_cons (b : Nat) (bs : List Nat) : le64 (b :: bs) = b + 256 * le64 bs := rfl

/-- dropping `p` bytes = shifting the stream right by `8p` bits -/
theorem stream_drop (data : List Nat) (hb : ∀ b ∈ data, b < 256) (p : Nat) :
    le64 (data.drop p) = le64 data >>> (8 * p) := by
  induction p generalizing data with
  | zero => simp
  | succ p ih =>
    cases data with
    | nil => simp [le64]
    | cons b bs =>
      rw [List.drop_succ_cons, ih bs (fun x hx => hb x (List.mem_cons_of_mem _ hx)), le64_cons]
      have hb' : b < 256 := hb b (List.mem_cons_self ..)
      have : (b + 256 * le64 bs) >>> (8 * (p + 1)) = ((b + 256 * le64 bs) >>> 8) >>> (8 * p) := by
        rw [← Nat.shiftRight_add]; congr 1; omega
      rw [this, Nat.shiftRight_eq_div_pow (b + 256 * le64 bs) 8]
      have : (b + 256 * le64 bs) / 2 ^ 8 = le64 bs := by
        have h256 : (2 : Nat) ^ 8 = 256 := rfl
        rw [h256]; omega
      rw [this]

/-- the first 8 bytes = the low 64 bits -/
theorem le64_take8 (l : List Nat) (hb : ∀ b ∈ l, b < 256) : le64 (l.take 8) = le64 l % 2 ^ 64 := by
  have key : ∀ (k : Nat) (l : List Nat), (∀ b ∈ l, b < 256) → le64 (l.take k) = le64 l % 2 ^ (8 * k) := by
    intro k
    induction k with
    | zero => intro l _; simp [le64, Nat.mod_one]
    | succ k ih =>
      intro l hl
      cases l with
      | nil => simp [le64]
      | cons b bs =>
        rw [List.take_succ_cons, le64_cons, le64_cons, ih bs (fun x hx => hl x (List.mem_cons_of_mem _ hx))]
        have hb' : b < 256 := hl b (List.mem_cons_self ..)
        have e : 2 ^ (8 * (k + 1)) = 256 * 2 ^ (8 * k) := by
          rw [show 8 * (k + 1) = 8 + 8 * k by omega, Nat.pow_add]
        rw [e]
        generalize hM : 2 ^ (8 * k) = M
        have hMpos : 0 < M := by rw [← hM]; exact Nat.pow_pos (by omega)
        generalize hx : le64 bs = x
        have hdm := Nat.div_add_mod x M
        have hr : x % M < M := Nat.mod_lt _ hMpos
        have h1 : b + 256 * x = (b + 256 * (x % M)) + (256 * M) * (x / M) := by
          have : 256 * x = 256 * (M * (x / M) + x % M) := by rw [hdm]
          rw [this, Nat.mul_add, Nat.mul_assoc]; omega
        rw [h1, Nat.add_mul_mod_self_left]
        symm
        apply Nat.mod_eq_of_lt
        have : 256 * (x % M) + 256 ≤ 256 * M := by
          have : x % M + 1 ≤ M := hr
          calc 256 * (x % M) + 256 = 256 * (x % M + 1) := by rw [Nat.mul_add]
            _ ≤ 256 * M := Nat.mul_le_mul_left _ this
        omega
  have := key 8 l hb
  simpa using this

/-- byte `p` of the data = bits `8p..8p+8` of the stream -/
theorem byte_of_stream (data : List Nat) (hb : ∀ b ∈ data, b < 256) (p : Nat) :
    data.getD p 0 = (le64 data >>> (8 * p)) % 256 := by
  rw [← stream_drop data hb p]
  cases h : data.drop p with
  | nil =>
    have : data.length ≤ p := by
      by_contra hlt
      have : (data.drop p).length = data.length - p := List.length_drop
      rw [h] at this; simp at this; omega
    simp [List.getD_eq_getElem?_getD, List.getElem?_eq_none this, le64]
  | cons b bs =>
    have hlt : p < data.length := by
      by_contra hge
      have : data.drop p = [] := List.drop_of_length_le (by omega)
      rw [this] at h; cases h
    have hbp : data[p] = b := by
      have := List.getElem_drop (xs := data) (i := p) (j := 0) (h := by simp; omega)
      simp only [h, List.getElem_cons_zero, Nat.add_zero] at this
      exact this.symm
    have hb' : b < 256 := by rw [← hbp]; exact hb _ (List.getElem_mem hlt)
    rw [le64_cons, List.getD_eq_getElem?_getD, List.getElem?_eq_getElem hlt, Option.getD_some, hbp]
    omega

end BitReader

namespace BitReader

/-- the reservoir holds a valid window of the stream: its low `m ≥ nbits` bits are the stream bits
    starting at bit position `8·pos − nbits`, and nothing else is set.  Bits between `nbits` and
    `m` are "stale" look-ahead: real upcoming bits, which a later OR writes again unchanged. -/
def Inv (data : List Nat) (br : BR) : Prop :=
  br.nbits ≤ 8 * br.pos ∧ br.pos ≤ data.length ∧ br.nbits ≤ 63 ∧
  ∃ m, br.nbits ≤ m ∧ m ≤ 64 ∧ br.buffer = (le64 data >>> (8 * br.pos - br.nbits)) % 2 ^ m

theorem inv_init (data : List Nat) : Inv data init :=
  ⟨by simp [init], by simp [init], by simp [init], 0, by simp [init], by omega, by simp [init, Nat.mod_one]⟩

/-- both refill paths leave the same `nbits`: `nbits | 56 = nbits + 8·⌊(63 − nbits)/8⌋` -/
theorem or56 : ∀ n < 64, n ||| 56 = n + 8 * ((63 - n) / 8) := by decide +kernel

/-- closed form of the byte-at-a-time path -/
theorem fillSlow_shape (data : List Nat) (fuel : Nat) (br : BR) (hq : (63 - br.nbits) / 8 ≤ fuel) (hn : br.nbits ≤ 63) :
    (fillSlow data fuel br).pos = br.pos + min (data.length - br.pos) ((63 - br.nbits) / 8) ∧
    (fillSlow data fuel br).nbits = br.nbits + 8 * min (data.length - br.pos) ((63 - br.nbits) / 8) := by
  induction fuel generalizing br with
  | zero =>
    have : (63 - br.nbits) / 8 = 0 := by omega
    simp [fillSlow, this]
  | succ fuel ih =>
    unfold fillSlow
    by_cases hc : br.pos < data.length ∧ br.nbits < 56
    · rw [if_pos hc]
      obtain ⟨h1, h2⟩ := hc
      have := ih { buffer := br.buffer ||| (data.getD br.pos 0 <<< br.nbits), nbits := br.nbits + 8, pos := br.pos + 1 }
        (by simp only; omega) (by simp only; omega)
      simp only at this
      obtain ⟨a, b⟩ := this
      rw [a, b]
      have hq' : (63 - (br.nbits + 8)) / 8 + 1 = (63 - br.nbits) / 8 := by omega
      constructor <;> omega
    · rw [if_neg hc]
      have : min (data.length - br.pos) ((63 - br.nbits) / 8) = 0 := by
        by_cases h1 : br.pos < data.length
        · have : ¬ br.nbits < 56 := fun h => hc ⟨h1, h⟩
          omega
        · omega
      simp [this]

/-- **The position and bit count after `fill` do not depend on the schedule** -/
theorem fill_shape (data : List Nat) (expose : Nat → Nat) (br : BR) (hn : br.nbits ≤ 63) :
    (fill data expose br).pos = br.pos + min (data.length - br.pos) ((63 - br.nbits) / 8) ∧
    (fill data expose br).nbits = br.nbits + 8 * min (data.length - br.pos) ((63 - br.nbits) / 8) := by
  unfold fill
  simp only
  by_cases ha : min (expose br.pos) (data.length - br.pos) ≥ 8
  · rw [if_pos ha]
    simp only
    have : min (data.length - br.pos) ((63 - br.nbits) / 8) = (63 - br.nbits) / 8 := by omega
    rw [this, or56 br.nbits (by omega)]
    exact ⟨rfl, rfl⟩
  · rw [if_neg ha]
    exact fillSlow_shape data 8 br (by omega) hn

theorem fillSlow_inv (data : List Nat) (hb : ∀ b ∈ data, b < 256) (fuel : Nat) (br : BR) (h : Inv data br) :
    Inv data (fillSlow data fuel br) := by
  induction fuel generalizing br with
  | zero => exact h
  | succ fuel ih =>
    unfold fillSlow
    by_cases hc : br.pos < data.length ∧ br.nbits < 56
    · rw [if_pos hc]
      apply ih
      obtain ⟨h1, h2, h3, m, hm1, hm2, hbuf⟩ := h
      obtain ⟨c1, c2⟩ := hc
      refine ⟨by simp only; omega, by simp only; omega, by simp only; omega, max m (br.nbits + 8), by simp only; omega, by omega, ?_⟩
      simp only
      have hbyte := byte_of_stream data hb br.pos
      have hT : le64 data >>> (8 * br.pos) = (le64 data >>> (8 * br.pos - br.nbits)) >>> br.nbits := by
        rw [← Nat.shiftRight_add]; congr 1; omega
      rw [hbuf, hbyte, hT, merge_slow _ _ _ hm1]
      congr 2
      omega
    · rw [if_neg hc]; exact h

/-- `fill` keeps the window invariant on both paths, for every schedule -/
theorem fill_inv (data : List Nat) (hb : ∀ b ∈ data, b < 256) (expose : Nat → Nat) (br : BR) (h : Inv data br) :
    Inv data (fill data expose br) := by
  unfold fill
  simp only
  by_cases ha : min (expose br.pos) (data.length - br.pos) ≥ 8
  · rw [if_pos ha]
    obtain ⟨h1, h2, h3, m, hm1, hm2, hbuf⟩ := h
    have ho := or56 br.nbits (by omega)
    refine ⟨by simp only; omega, by simp only; omega, by simp only; omega, 64, by simp only; omega, Nat.le_refl _, ?_⟩
    simp only
    have hla : le64 ((data.drop br.pos).take 8) = (le64 data >>> (8 * br.pos)) % 2 ^ 64 := by
      rw [le64_take8 _ (fun b hb' => hb b (List.mem_of_mem_drop hb')), stream_drop data hb]
    have hT : le64 data >>> (8 * br.pos) = (le64 data >>> (8 * br.pos - br.nbits)) >>> br.nbits := by
      rw [← Nat.shiftRight_add]; congr 1; omega
    rw [hbuf, hla, hT, merge_fast _ _ _ hm1 hm2]
    congr 2
    rw [ho]; omega
  · rw [if_neg ha]; exact fillSlow_inv data hb 8 br h

theorem consume_inv (data : List Nat) (br br' : BR) (num : Nat) (h : Inv data br) (hc : consume br num = some br') :
    Inv data br' ∧ br'.pos = br.pos ∧ br'.nbits = br.nbits - num ∧ num ≤ br.nbits := by
  unfold consume at hc
  by_cases hlt : br.nbits < num
  · rw [if_pos hlt] at hc; cases hc
  · rw [if_neg hlt] at hc
    simp only [Option.some.injEq] at hc
    subst hc
    obtain ⟨h1, h2, h3, m, hm1, hm2, hbuf⟩ := h
    refine ⟨⟨by simp only; omega, h2, by simp only; omega, m - num, by simp only; omega, by omega, ?_⟩, rfl, rfl, by omega⟩
    simp only
    rw [hbuf, window_shift _ _ _ (by omega), ← Nat.shiftRight_add]
    congr 2
    omega

/-- what `peek` returns is the stream's bits at the current bit position: a function of
    `(pos, nbits)` alone -/
theorem peek_value (data : List Nat) (br : BR) (n : Nat) (h : Inv data br) (hn : n ≤ br.nbits) :
    peek br n = (le64 data >>> (8 * br.pos - br.nbits)) % 2 ^ n := by
  obtain ⟨_, _, _, m, hm1, _, hbuf⟩ := h
  unfold peek
  rw [hbuf, mod_mod_pow _ _ _ (by omega)]

/-- two readers over the same data agree on everything observable -/
def Same (a b : BR) : Prop := a.pos = b.pos ∧ a.nbits = b.nbits

theorem fill_same (data : List Nat) (e1 e2 : Nat → Nat) (a b : BR) (hab : Same a b) (ha : a.nbits ≤ 63) :
    Same (fill data e1 a) (fill data e2 b) := by
  obtain ⟨hp, hn⟩ := hab
  obtain ⟨a1, a2⟩ := fill_shape data e1 a ha
  obtain ⟨b1, b2⟩ := fill_shape data e2 b (by omega)
  exact ⟨by rw [a1, b1, hp, hn], by rw [a2, b2, hp, hn]⟩

theorem readBits_same (data : List Nat) (hb : ∀ b ∈ data, b < 256) (e1 e2 : Nat → Nat) (a b : BR) (n : Nat)
    (hab : Same a b) (ia : Inv data a) (ib : Inv data b) :
    (readBits data e1 a n = none ∧ readBits data e2 b n = none) ∨
    ∃ v a' b', readBits data e1 a n = some (v, a') ∧ readBits data e2 b n = some (v, b') ∧
      Same a' b' ∧ Inv data a' ∧ Inv data b' := by
  unfold readBits
  simp only
  -- the states after the optional fill
  have hab' : Same (if a.nbits < n then fill data e1 a else a) (if b.nbits < n then fill data e2 b else b) := by
    rw [← hab.2]
    by_cases h : a.nbits < n
    · rw [if_pos h, if_pos h]; exact fill_same data e1 e2 a b hab ia.2.2.1
    · rw [if_neg h, if_neg h]; exact hab
  have ia' : Inv data (if a.nbits < n then fill data e1 a else a) := by
    split
    · exact fill_inv data hb e1 a ia
    · exact ia
  have ib' : Inv data (if b.nbits < n then fill data e2 b else b) := by
    split
    · exact fill_inv data hb e2 b ib
    · exact ib
  generalize (if a.nbits < n then fill data e1 a else a) = A at *
  generalize (if b.nbits < n then fill data e2 b else b) = B at *
  by_cases hlt : A.nbits < n
  · left
    have hltb : B.nbits < n := by rw [← hab'.2]; exact hlt
    simp [consume, hlt, hltb]
  · right
    have hltb : ¬ B.nbits < n := by rw [← hab'.2]; exact hlt
    have ca : consume A n = some { A with buffer := A.buffer >>> n, nbits := A.nbits - n } := by
      unfold consume; rw [if_neg hlt]
    have cb : consume B n = some { B with buffer := B.buffer >>> n, nbits := B.nbits - n } := by
      unfold consume; rw [if_neg hltb]
    obtain ⟨ia2, pa, na, _⟩ := consume_inv data A _ n ia' ca
    obtain ⟨ib2, pb, nb, _⟩ := consume_inv data B _ n ib' cb
    refine ⟨peek A n, _, _, by rw [ca], ?_, ⟨by rw [pa, pb, hab'.1], by rw [na, nb, hab'.2]⟩, ia2, ib2⟩
    rw [cb]
    have : peek B n = peek A n := by
      rw [peek_value data A n ia' (by omega), peek_value data B n ib' (by omega), hab'.1, hab'.2]
    rw [this]

end BitReader
