import WebpVerif.Lemmas.EncDecode

/-!
Stage 5 of the bit-level round trip: the specification decoder on the header, the transform
section (incl. the predictor's sub-image) and the five prefix codes the encoder writes.
-/
namespace EncRT
open Enc EncTree Prefix VP8LP

/-- an image whose five codes all have a single symbol: every pixel is the same and costs no bits -/
def constImg (w n g r b a : Nat) (d4 : Dec) : Img :=
  { xsize := w, n := n, cacheBits := 0, prefixBits := 0, entropy := #[],
    groups := #[#[specDec (oneHot 280 g), specDec (oneHot 256 r), specDec (oneHot 256 b), specDec (oneHot 256 a), d4]] }

theorem step_const (w n g r b a : Nat) (d4 : Dec) (hg : g < 256) (hr : r < 256) (hb : b < 256) (ha : a < 256)
    (i : Nat) (rev : List Nat) (cache : Array Nat) (bits : List Nat) :
    step (constImg w n g r b a d4) i rev cache bits =
      some (i + 1, (a * 2 ^ 24 + r * 2 ^ 16 + g * 2 ^ 8 + b) :: rev, cache, bits) := by
  unfold step stepG
  have hgrp : (constImg w n g r b a d4).group i =
      #[specDec (oneHot 280 g), specDec (oneHot 256 r), specDec (oneHot 256 b), specDec (oneHot 256 a), d4] := rfl
  simp only [hgrp, gd0, gd1, gd2, gd3, specDec]
  rw [decodeSymbol_oneHot 280 g (by omega)]
  simp only [hg, if_true]
  rw [decodeSymbol_oneHot 256 r hr]
  simp only
  rw [decodeSymbol_oneHot 256 b hb]
  simp only
  rw [decodeSymbol_oneHot 256 a ha]
  simp only [cacheInsert, constImg, if_true]

theorem loop_const (w n g r b a : Nat) (d4 : Dec) (hg : g < 256) (hr : r < 256) (hb : b < 256) (ha : a < 256) :
    ∀ (k i : Nat) (rev : List Nat) (fuel : Nat) (cache : Array Nat) (bits : List Nat), i + k = n → k ≤ fuel →
      loop (constImg w n g r b a d4) fuel i rev cache bits =
        some (List.replicate k (a * 2 ^ 24 + r * 2 ^ 16 + g * 2 ^ 8 + b) ++ rev, bits) := by
  intro k
  induction k with
  | zero =>
    intro i rev fuel cache bits hi _
    unfold loop
    have hn : (constImg w n g r b a d4).n = n := rfl
    simp [hn, show i = n by omega]
  | succ k ih =>
    intro i rev fuel cache bits hi hf
    obtain ⟨f, rfl⟩ : ∃ f, fuel = f + 1 := ⟨fuel - 1, by omega⟩
    unfold loop
    have hn : (constImg w n g r b a d4).n = n := rfl
    rw [if_neg (by rw [hn]; omega)]
    simp only
    rw [step_const w n g r b a d4 hg hr hb ha]
    simp only
    rw [ih (i + 1) _ f cache bits (by omega) (by omega), List.replicate_succ', List.append_assoc]
    rfl

theorem readBitsL_lsb (v n : Nat) (rest : List Nat) (h : v < 2 ^ n) : readBitsL n (lsbBits v n ++ rest) = some (v, rest) :=
  readBitsL_field v n rest h

/-- the five one-symbol codes of a sub-image: green `g`, red/blue/alpha/distance 0 -/
def subFields (g : Nat) : List (Nat × Nat) :=
  singleFields g ++ (singleFields 0 ++ (singleFields 0 ++ (singleFields 0 ++ singleFields 0)))

theorem readGroup_singles (g : Nat) (hg : g < 256) (rest : List Nat) :
    readGroup specDec (alphabets 0) #[] (fieldBits (subFields g) ++ rest) =
      some (#[specDec (oneHot 280 g), specDec (oneHot 256 0), specDec (oneHot 256 0), specDec (oneHot 256 0), specDec (oneHot 40 0)], rest) := by
  unfold subFields alphabets
  simp only [fieldBits_append, List.append_assoc, if_true, Nat.add_zero]
  unfold readGroup
  rw [readCodeL_single 280 g (by omega) hg]
  simp only
  unfold readGroup
  rw [readCodeL_single 256 0 (by decide) (by decide)]
  simp only
  unfold readGroup
  rw [readCodeL_single 256 0 (by decide) (by decide)]
  simp only
  unfold readGroup
  rw [readCodeL_single 256 0 (by decide) (by decide)]
  simp only
  unfold readGroup
  rw [readCodeL_single 40 0 (by decide) (by decide)]
  simp only
  unfold readGroup
  rfl

/-- **the predictor's sub-image**: `xs × ys` pixels whose green channel is the mode, no bits each -/
theorem readSub_const (g : Nat) (hg : g < 256) (xs ys : Nat) (rest : List Nat) :
    readSub specDec xs ys (fieldBits ((0, 1) :: subFields g) ++ rest) = some (List.replicate (xs * ys) (g * 2 ^ 8), rest) := by
  unfold readSub readCacheBits
  rw [fieldBits_cons, List.append_assoc, readBitsL_lsb 0 1 _ (by decide)]
  simp only [Nat.zero_ne_one, if_false]
  unfold readPixels readGroups
  rw [readGroup_singles g hg]
  simp only
  unfold readGroups
  simp only [if_true]
  have hc := loop_const xs (xs * ys) g 0 0 0 (specDec (oneHot 40 0)) hg (by decide) (by decide) (by decide) (xs * ys) 0 []
    (xs * ys) (Array.replicate 0 0) rest (by omega) (Nat.le_refl _)
  unfold constImg at hc
  have e : #[].push #[specDec (oneHot 280 g), specDec (oneHot 256 0), specDec (oneHot 256 0), specDec (oneHot 256 0), specDec (oneHot 40 0)] =
      #[#[specDec (oneHot 280 g), specDec (oneHot 256 0), specDec (oneHot 256 0), specDec (oneHot 256 0), specDec (oneHot 40 0)]] := rfl
  rw [e, hc]
  simp


/-! ### the transform section -/

/-- the predictor data the encoder writes: every block uses mode 2 (top) -/
def predData (w h : Nat) : Array Nat := (List.replicate (VP8L.subSize w 9 * VP8L.subSize h 9) (2 * 2 ^ 8)).toArray

/-- the transforms of an encoded frame, last one first (the order `applyT` wants) -/
def encTs (w h : Nat) (pred : Bool) : List T :=
  if pred then [T.predictor 9 (predData w h), T.subtractGreen] else [T.subtractGreen]

def trFields (pred : Bool) : List (Nat × Nat) :=
  (0b101, 3) :: ((if pred then (0b111001, 6) :: (0, 1) :: subFields 2 else []) ++ [(0, 1)])

theorem readTransforms_enc (w h : Nat) (pred : Bool) (rest : List Nat) :
    readTransforms specDec h 5 w [] [] (fieldBits (trFields pred) ++ rest) = some (w, encTs w h pred, rest) := by
  unfold trFields
  rw [fieldBits_cons, List.append_assoc]
  have e5 : lsbBits 0b101 3 = lsbBits 1 1 ++ lsbBits 2 2 := by decide
  rw [e5, List.append_assoc]
  unfold readTransforms
  rw [readBitsL_lsb 1 1 _ (by decide)]
  simp only [Nat.one_ne_zero, if_false]
  rw [readBitsL_lsb 2 2 _ (by decide)]
  have hc : ([] : List Nat).contains 2 = false := rfl
  simp only [hc, Bool.false_eq_true, if_false, if_true, show ¬ ((2 : Nat) = 0 ∨ (2 : Nat) = 1) by decide]
  cases pred
  · simp only [Bool.false_eq_true, if_false, List.nil_append, fieldBits_cons]
    unfold readTransforms
    rw [List.append_assoc, readBitsL_lsb 0 1 _ (by decide)]
    simp only [if_true]
    rfl
  · simp only [if_true, List.cons_append, fieldBits_cons]
    have e57 : lsbBits 0b111001 6 = lsbBits 1 1 ++ (lsbBits 0 2 ++ lsbBits 7 3) := by decide
    rw [e57]
    simp only [List.append_assoc]
    unfold readTransforms
    rw [readBitsL_lsb 1 1 _ (by decide)]
    simp only [Nat.one_ne_zero, if_false]
    rw [readBitsL_lsb 0 2 _ (by decide)]
    have hc2 : ([2] : List Nat).contains 0 = false := rfl
    simp only [hc2, Bool.false_eq_true, if_false, true_or, if_true]
    rw [readBitsL_lsb 7 3 _ (by decide)]
    simp only
    have hsub := readSub_const 2 (by decide) (VP8L.subSize w (7 + 2)) (VP8L.subSize h (7 + 2)) (fieldBits [(0, 1)] ++ rest)
    rw [fieldBits_cons, List.append_assoc] at hsub
    rw [fieldBits_append, List.append_assoc, hsub]
    simp only
    unfold readTransforms
    rw [fieldBits_cons, List.append_assoc, readBitsL_lsb 0 1 _ (by decide)]
    simp only [if_true]
    rfl

/-! ### the five prefix codes of the main image -/

theorem readGroup_enc (F1 F0 F2 F3 : List (Nat × Nat)) (n1 n0 n2 n3 : List Nat)
    (h1 : ∀ rest, readCodeL 280 (fieldBits F1 ++ rest) = some (n1, rest))
    (h0 : ∀ rest, readCodeL 256 (fieldBits F0 ++ rest) = some (n0, rest))
    (h2 : ∀ rest, readCodeL 256 (fieldBits F2 ++ rest) = some (n2, rest))
    (h3 : ∀ rest, readCodeL 256 (fieldBits F3 ++ rest) = some (n3, rest)) (rest : List Nat) :
    readGroup specDec (alphabets 0) #[] (fieldBits (F1 ++ (F0 ++ (F2 ++ (F3 ++ singleFields 1)))) ++ rest) =
      some (#[specDec n1, specDec n0, specDec n2, specDec n3, specDec (oneHot 40 1)], rest) := by
  unfold alphabets
  simp only [fieldBits_append, List.append_assoc, if_true, Nat.add_zero]
  unfold readGroup
  rw [h1]
  simp only
  unfold readGroup
  rw [h0]
  simp only
  unfold readGroup
  rw [h2]
  simp only
  unfold readGroup
  rw [h3]
  simp only
  unfold readGroup
  rw [readCodeL_single 40 1 (by decide) (by decide)]
  simp only
  unfold readGroup
  rfl

/-- the main image: no colour cache, no meta prefix image, five codes, then the tokens -/
theorem readMain_enc (w h : Nat) (color : Nat) (tb : Tabs) (ls : Lens) (F1 F0 F2 F3 : List (Nat × Nat))
    (h1 : ∀ rest, readCodeL 280 (fieldBits F1 ++ rest) = some (ls.n1, rest))
    (h0 : ∀ rest, readCodeL 256 (fieldBits F0 ++ rest) = some (ls.n0, rest))
    (h2 : ∀ rest, readCodeL 256 (fieldBits F2 ++ rest) = some (ls.n2, rest))
    (h3 : ∀ rest, readCodeL 256 (fieldBits F3 ++ rest) = some (ls.n3, rest))
    (toks : List (List Nat × Nat)) (hok : ∀ t ∈ toks, TokOK color tb ls t) (hlen : (expandToks toks).length = w * h)
    (rest : List Nat) :
    readMain specDec w h (fieldBits [(0, 1), (0, 1)] ++ (fieldBits (F1 ++ (F0 ++ (F2 ++ (F3 ++ singleFields 1)))) ++
        ((toks.flatMap fun t => litBits tb t.1 ++ runBits tb t.2) ++ rest))) =
      some ((expandToks toks).map pack, rest) := by
  unfold readMain readCacheBits
  simp only [fieldBits_cons, List.append_assoc]
  rw [readBitsL_lsb 0 1 _ (by decide)]
  simp only [Nat.zero_ne_one, if_false]
  rw [readBitsL_lsb 0 1 _ (by decide)]
  simp only [Nat.zero_ne_one, if_false]
  unfold readPixels readGroups
  have hnil : fieldBits [] = [] := rfl
  rw [hnil, List.nil_append, readGroup_enc F1 F0 F2 F3 ls.n1 ls.n0 ls.n2 ls.n3 h1 h0 h2 h3]
  simp only
  unfold readGroups
  simp only [if_true]
  have hl := loop_tokens w (w * h) ls color tb toks 0 [] (w * h) rest hok (by omega) (by omega)
  unfold encImg at hl
  have e : #[].push #[specDec ls.n1, specDec ls.n0, specDec ls.n2, specDec ls.n3, specDec (oneHot 40 1)] =
      #[#[specDec ls.n1, specDec ls.n0, specDec ls.n2, specDec ls.n3, specDec (oneHot 40 1)]] := rfl
  rw [e]
  have e2 : Array.replicate 0 0 = (#[] : Array Nat) := rfl
  rw [e2, hl]
  simp

end EncRT
