import WebpVerif.Model.Enc
import WebpVerif.Model.BitReader
import Mathlib.Tactic.Ring
import Mathlib.Tactic.IntervalCases
import Mathlib.Data.List.Induction

/-!
The encoder's `BitWriter` (64-bit buffer, flushed 8 bytes at a time): the bytes it produces are
the little-endian bytes of the number whose binary digits are the written fields, LSB first - the
number the decoder's bit reader takes its windows from.
-/
namespace BitWriterProof
open Enc

/-- the number a byte list denotes, least significant byte first (= `BitReader.le64`) -/
def leVal (bs : List Nat) : Nat := BitReader.le64 bs

theorem leVal_nil : leVal [] = 0 := rfl
theorem leVal_cons (b : Nat) (bs : List Nat) : leVal (b :: bs) = b + 256 * leVal bs := rfl

theorem leVal_append (a b : List Nat) : leVal (a ++ b) = leVal a + 256 ^ a.length * leVal b := by
  induction a with
  | nil => simp [leVal_nil]
  | cons x a ih => rw [List.cons_append, leVal_cons, leVal_cons, ih, List.length_cons, Nat.pow_succ]; ring

theorem le8_length (v : Nat) : (le8 v).length = 8 := by simp [le8]

theorem leVal_le8 (v : Nat) (h : v < 2 ^ 64) : leVal (le8 v) = v := by
  unfold le8
  simp only [List.range, List.range.loop, List.map, leVal, BitReader.le64, List.foldr]
  omega

/-- the stream value and bit count after a sequence of `write_bits(bits, n)` calls -/
def streamStep (r : Nat × Nat) (w : Nat × Nat) : Nat × Nat := (r.1 + w.1 * 2 ^ r.2, r.2 + w.2)
def streamOf (ws : List (Nat × Nat)) : Nat × Nat := ws.foldl streamStep (0, 0)

/-- the writer holds the stream: flushed bytes are its low part, the buffer its top `nbits` bits -/
structure WInv (w : BW) (V T : Nat) : Prop where
  hn : w.nbits < 64
  hb : w.buffer < 2 ^ w.nbits
  hv : leVal w.out.toList + w.buffer * 2 ^ (8 * w.out.size) = V
  ht : T = 8 * w.out.size + w.nbits

theorem foldl_push_toList (l : List Nat) (a : Array Nat) : (l.foldl Array.push a).toList = a.toList ++ l := by
  induction l generalizing a with
  | nil => simp
  | cons x l ih => rw [List.foldl_cons, ih]; simp

theorem write_inv (w : BW) (V T bits n : Nat) (inv : WInv w V T) (hn : n ≤ 64) (hbits : bits < 2 ^ n) :
    WInv (w.write bits n) (V + bits * 2 ^ T) (T + n) := by
  obtain ⟨h1, h2, h3, h4⟩ := inv
  have hor : w.buffer ||| (bits <<< w.nbits) = bits * 2 ^ w.nbits + w.buffer := by
    rw [Nat.or_comm, ← Nat.shiftLeft_add_eq_or_of_lt h2, Nat.shiftLeft_eq]
  have hB : bits * 2 ^ w.nbits + w.buffer < 2 ^ (w.nbits + n) := by
    have : bits + 1 ≤ 2 ^ n := hbits
    have h5 : (bits + 1) * 2 ^ w.nbits ≤ 2 ^ n * 2 ^ w.nbits := Nat.mul_le_mul_right _ this
    rw [← Nat.pow_add, Nat.add_mul, Nat.add_comm n w.nbits] at h5
    omega
  unfold BW.write
  simp only [hor]
  by_cases hge : w.nbits + n ≥ 64
  · rw [if_pos hge]
    -- a full word leaves; the overflow `bits >> (64 - nbits)` stays
    have hsh : n - (w.nbits + n - 64) = 64 - w.nbits := by omega
    simp only [hsh]
    have hpow : (2:Nat) ^ 64 = 2 ^ w.nbits * 2 ^ (64 - w.nbits) := by rw [← Nat.pow_add]; congr 1; omega
    have hdivB : (bits * 2 ^ w.nbits + w.buffer) / 2 ^ 64 = bits / 2 ^ (64 - w.nbits) := by
      rw [hpow, ← Nat.div_div_eq_div_mul, Nat.mul_comm bits, Nat.mul_add_div (Nat.two_pow_pos _), Nat.div_eq_of_lt h2, Nat.add_zero]
    have hkeep : (if 64 - w.nbits ≥ 64 then 0 else bits >>> (64 - w.nbits)) = (bits * 2 ^ w.nbits + w.buffer) / 2 ^ 64 := by
      rw [hdivB]
      by_cases h0 : 64 - w.nbits ≥ 64
      · rw [if_pos h0]
        have : w.nbits = 0 := by omega
        rw [this]; simp only [Nat.sub_zero]
        exact (Nat.div_eq_of_lt (Nat.lt_of_lt_of_le hbits (Nat.pow_le_pow_right (by decide) hn))).symm
      · rw [if_neg h0, Nat.shiftRight_eq_div_pow]
    refine ⟨by simp only; omega, ?_, ?_, ?_⟩
    · simp only
      rw [hkeep]
      apply Nat.div_lt_of_lt_mul
      rw [← Nat.pow_add, show 64 + (w.nbits + n - 64) = w.nbits + n by omega]; exact hB
    · simp only
      rw [hkeep, foldl_push_toList, leVal_append, leVal_le8 _ (Nat.mod_lt _ (Nat.two_pow_pos 64))]
      have hsz : ((le8 ((bits * 2 ^ w.nbits + w.buffer) % 2 ^ 64)).foldl Array.push w.out).size = w.out.size + 8 := by
        rw [← Array.length_toList, foldl_push_toList, List.length_append, le8_length, Array.length_toList]
      rw [hsz, Array.length_toList]
      have hsplit := Nat.div_add_mod (bits * 2 ^ w.nbits + w.buffer) (2 ^ 64)
      have e1 : (256:Nat) ^ w.out.size = 2 ^ (8 * w.out.size) := by
        rw [show (256:Nat) = 2 ^ 8 by decide, ← Nat.pow_mul]
      have e2 : (2:Nat) ^ (8 * (w.out.size + 8)) = 2 ^ (8 * w.out.size) * 2 ^ 64 := by rw [← Nat.pow_add]; congr 1
      have e3 : (2:Nat) ^ T = 2 ^ (8 * w.out.size) * 2 ^ w.nbits := by rw [h4, ← Nat.pow_add]
      rw [e1, e2, e3, ← h3]
      generalize (bits * 2 ^ w.nbits + w.buffer) % 2 ^ 64 = lo at hsplit ⊢
      generalize (bits * 2 ^ w.nbits + w.buffer) / 2 ^ 64 = hi at hsplit ⊢
      have : leVal w.out.toList + 2 ^ (8 * w.out.size) * lo + hi * (2 ^ (8 * w.out.size) * 2 ^ 64) =
          leVal w.out.toList + 2 ^ (8 * w.out.size) * (2 ^ 64 * hi + lo) := by ring
      rw [this, hsplit]; ring
    · simp only
      rw [← Array.length_toList, foldl_push_toList, List.length_append, le8_length, Array.length_toList]; omega
  · rw [if_neg hge]
    have hlt : bits * 2 ^ w.nbits + w.buffer < 2 ^ 64 :=
      Nat.lt_of_lt_of_le hB (Nat.pow_le_pow_right (by decide) (by omega))
    refine ⟨by simp only; omega, ?_, ?_, by simp only; omega⟩
    · simp only; rw [Nat.mod_eq_of_lt hlt]; exact hB
    · simp only
      rw [Nat.mod_eq_of_lt hlt, ← h3]
      have e3 : (2:Nat) ^ T = 2 ^ (8 * w.out.size) * 2 ^ w.nbits := by rw [h4, ← Nat.pow_add]
      rw [e3]; ring

def Valid (ws : List (Nat × Nat)) : Prop := ∀ w ∈ ws, w.2 ≤ 64 ∧ w.1 < 2 ^ w.2

theorem writes_inv (ws : List (Nat × Nat)) (hv : Valid ws) : ∀ (w : BW) (V T : Nat), WInv w V T →
    WInv (ws.foldl (fun w x => w.write x.1 x.2) w) (ws.foldl streamStep (V, T)).1 (ws.foldl streamStep (V, T)).2 := by
  induction ws with
  | nil => intro w V T h; exact h
  | cons x ws ih =>
    intro w V T h
    simp only [List.foldl_cons]
    have hx := hv x (List.mem_cons_self ..)
    exact ih (fun y hy => hv y (List.mem_cons_of_mem _ hy)) _ _ _ (write_inv w V T x.1 x.2 h hx.1 hx.2)

theorem empty_inv : WInv BW.empty 0 0 := ⟨by decide, by decide, by simp [BW.empty, leVal_nil], by simp [BW.empty]⟩

theorem leVal_take_le8 (b k : Nat) (hk : k ≤ 8) (hb : b < 256 ^ k) : leVal ((le8 b).take k) = b := by
  unfold le8
  simp only [List.range, List.range.loop, List.map]
  interval_cases k <;> simp only [List.take, leVal, BitReader.le64, List.foldr] <;> omega

/-- `flush()`: pad to a byte boundary with zero bits, emit the remaining whole bytes -/
theorem flush_spec (w : BW) (V T : Nat) (inv : WInv w V T) :
    leVal w.flush.toList = V ∧ w.flush.size = (T + 7) / 8 := by
  -- the padded writer
  have key : ∀ (w' : BW) (T' : Nat), WInv w' V T' → w'.nbits % 8 = 0 → (T' + 7) / 8 = (T + 7) / 8 →
      leVal (((le8 w'.buffer).take (w'.nbits / 8)).foldl Array.push w'.out).toList = V ∧
      (((le8 w'.buffer).take (w'.nbits / 8)).foldl Array.push w'.out).size = (T + 7) / 8 := by
    intro w' T' inv' h8 hT
    obtain ⟨h1, h2, h3, h4⟩ := inv'
    have hk : w'.nbits / 8 ≤ 8 := by omega
    have hb : w'.buffer < 256 ^ (w'.nbits / 8) := by
      rw [show (256:Nat) = 2 ^ 8 by decide, ← Nat.pow_mul, show 8 * (w'.nbits / 8) = w'.nbits by omega]; exact h2
    have hlen : ((le8 w'.buffer).take (w'.nbits / 8)).length = w'.nbits / 8 := by
      rw [List.length_take, le8_length]; omega
    constructor
    · rw [foldl_push_toList, leVal_append, leVal_take_le8 _ _ hk hb, Array.length_toList, ← h3]
      rw [show (256:Nat) = 2 ^ 8 by decide, ← Nat.pow_mul]; ring
    · rw [← Array.length_toList, foldl_push_toList, List.length_append, hlen, Array.length_toList, ← hT, h4]; omega
  unfold BW.flush
  simp only
  by_cases hp : w.nbits % 8 ≠ 0
  · rw [if_pos hp]
    have hpad := write_inv w V T 0 (8 - w.nbits % 8) inv (by omega) (Nat.two_pow_pos _)
    rw [Nat.zero_mul, Nat.add_zero] at hpad
    have h4 := inv.ht
    have hn8 : (w.write 0 (8 - w.nbits % 8)).nbits % 8 = 0 := by
      have := hpad.ht; omega
    exact key _ _ hpad hn8 (by omega)
  · rw [if_neg hp]
    exact key w T inv (by omega) rfl

/-- the stream of a concatenation -/
theorem stream_append (a b : List (Nat × Nat)) (V T : Nat) :
    (a ++ b).foldl streamStep (V, T) = b.foldl streamStep (a.foldl streamStep (V, T)) := List.foldl_append ..

theorem stream_shift (b : List (Nat × Nat)) : ∀ (V T : Nat),
    b.foldl streamStep (V, T) = (V + (streamOf b).1 * 2 ^ T, T + (streamOf b).2) := by
  unfold streamOf
  induction b using List.reverseRecOn with
  | nil => intro V T; simp
  | append_singleton b x ih =>
    intro V T
    rw [List.foldl_append, List.foldl_append, ih V T]
    simp only [List.foldl_cons, List.foldl_nil, streamStep]
    rw [ih 0 0]
    simp only [Nat.zero_add, Nat.pow_zero, Nat.mul_one]
    rw [Nat.pow_add]
    refine Prod.ext ?_ ?_ <;> simp only <;> ring

theorem stream_lt (a : List (Nat × Nat)) (hv : Valid a) : (streamOf a).1 < 2 ^ (streamOf a).2 := by
  unfold streamOf
  induction a using List.reverseRecOn with
  | nil => simp
  | append_singleton a x ih =>
    rw [List.foldl_append]
    simp only [List.foldl_cons, List.foldl_nil, streamStep]
    have hx := (hv x (by simp)).2
    have iha := ih (fun y hy => hv y (by simp [hy]))
    have : (x.1 + 1) * 2 ^ (List.foldl streamStep (0, 0) a).2 ≤ 2 ^ x.2 * 2 ^ (List.foldl streamStep (0, 0) a).2 :=
      Nat.mul_le_mul_right _ hx
    rw [Nat.pow_add, Nat.mul_comm (2 ^ (List.foldl streamStep (0, 0) a).2)]
    rw [Nat.add_mul] at this
    omega

/-- **Every written field is readable where it was written**: the `n` bits at the field's bit
    offset of the stream value are the field -/
theorem field_window (pre post : List (Nat × Nat)) (bits n : Nat) (hv : Valid (pre ++ (bits, n) :: post)) :
    ((streamOf (pre ++ (bits, n) :: post)).1 >>> (streamOf pre).2) % 2 ^ n = bits := by
  have hpre : Valid pre := fun y hy => hv y (by simp [hy])
  have hx := (hv (bits, n) (by simp)).2
  simp only at hx
  unfold streamOf
  rw [stream_append, List.foldl_cons]
  have e : List.foldl streamStep (0, 0) pre = ((streamOf pre).1, (streamOf pre).2) := rfl
  rw [e]
  simp only [streamStep]
  rw [stream_shift post]
  simp only
  have hlt := stream_lt pre hpre
  rw [Nat.shiftRight_eq_div_pow, Nat.pow_add]
  have h1 : ((streamOf pre).1 + bits * 2 ^ (streamOf pre).2 + (streamOf post).1 * (2 ^ (streamOf pre).2 * 2 ^ n)) =
      (streamOf pre).1 + 2 ^ (streamOf pre).2 * (bits + 2 ^ n * (streamOf post).1) := by ring
  rw [h1, Nat.add_mul_div_left _ _ (Nat.two_pow_pos _), Nat.div_eq_of_lt hlt, Nat.zero_add, Nat.add_mul_mod_self_left,
    Nat.mod_eq_of_lt hx]

/-- the flushed output of a write sequence -/
def output (ws : List (Nat × Nat)) : Array Nat := (ws.foldl (fun w x => w.write x.1 x.2) BW.empty).flush

theorem output_spec (ws : List (Nat × Nat)) (hv : Valid ws) :
    leVal (output ws).toList = (streamOf ws).1 ∧ (output ws).size = ((streamOf ws).2 + 7) / 8 :=
  flush_spec _ _ _ (writes_inv ws hv BW.empty 0 0 empty_inv)

end BitWriterProof
