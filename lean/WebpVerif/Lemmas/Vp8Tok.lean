import WebpVerif.Model.Vp8Coef
import WebpVerif.Spec.Vp8Tokens
import WebpVerif.Lemmas.Arith
import WebpVerif.Lemmas.ArithRfc

/-!
One coefficient token: the model's tree walk over `DCT_TOKEN_TREE` (entered at node `skip`) plus
its category tables against libwebp's explicit bit tests (`Vp8Tokens.token`), for every
decoder state, probability vector and start node.
-/
namespace Vp8TokProof
open Arith Vp8Coef Vp8Tokens

/-- the token part of `Vp8Coef.stepAt`: the tree read and the value the token stands for -/
def readToken (d : Dec) (ps : List Nat) (skip : Bool) : Option (Tok × Dec) :=
  match readTreeFrom d (treeNodesFrom Gen.Tables.DCT_TOKEN_TREE ps).toArray (if skip then 1 else 0) with
  | none => none
  | some (token, d) =>
    if token = 11 then some (.eob, d)
    else if token = 0 then some (.zero, d)
    else if token ≤ 4 then some (.value token, d)
    else
      let r := readExtra (Gen.Tables.PROB_DCT_CAT.getD (token - 5) []) d 0
      some (.value (Gen.Tables.DCT_CAT_BASE.getD (token - 5) 0 + r.1), r.2)

/-- the bit source of the model: the cold path (what every public read equals, `readBool_cold`) -/
def cold (d : Dec) (p : Nat) : Bool × Dec := coldReadBit d p

theorem readBool_cold (d : Dec) (p : Nat) (hp : p < 256) (h : WF d) : readBool d p = cold d p := by
  unfold readBool commitIfValid cold
  by_cases hc : (fastReadBit d.chunks d.state p).2.chunkIndex ≤ d.chunks.size
  · simp only [hc, if_true]; rw [fast_agrees_bit d p hp h.1 hc]; rfl
  · simp only [hc, if_false]

theorem cold_wf (d : Dec) (p : Nat) (hp : p < 256) (h : WF d) : WF (cold d p).2 := coldReadBit_wf d p hp h

/-- the eleven nodes of the token tree for the probabilities `p0 … p10` -/
theorem token_nodes (p0 p1 p2 p3 p4 p5 p6 p7 p8 p9 p10 : Nat) :
    (treeNodesFrom Gen.Tables.DCT_TOKEN_TREE [p0, p1, p2, p3, p4, p5, p6, p7, p8, p9, p10]).toArray =
      #[⟨139, 1, p0⟩, ⟨128, 2, p1⟩, ⟨129, 3, p2⟩, ⟨4, 6, p3⟩, ⟨130, 5, p4⟩, ⟨131, 132, p5⟩, ⟨7, 8, p6⟩, ⟨133, 134, p7⟩,
        ⟨9, 10, p8⟩, ⟨135, 136, p9⟩, ⟨137, 138, p10⟩] := by
  rfl

/-- the extra bits with the cold bit source -/
def valueOf (token : Nat) (d : Dec) : Option (Tok × Dec) :=
  if token = 11 then some (.eob, d)
  else if token = 0 then some (.zero, d)
  else if token ≤ 4 then some (.value token, d)
  else
    let r := catBits cold (Gen.Tables.PROB_DCT_CAT.getD (token - 5) []) d 0
    some (.value (Gen.Tables.DCT_CAT_BASE.getD (token - 5) 0 + r.1), r.2)

def T (p0 p1 p2 p3 p4 p5 p6 p7 p8 p9 p10 : Nat) : Array Node :=
  #[⟨139, 1, p0⟩, ⟨128, 2, p1⟩, ⟨129, 3, p2⟩, ⟨4, 6, p3⟩, ⟨130, 5, p4⟩, ⟨131, 132, p5⟩, ⟨7, 8, p6⟩, ⟨133, 134, p7⟩,
        ⟨9, 10, p8⟩, ⟨135, 136, p9⟩, ⟨137, 138, p10⟩]

def pf (p0 p1 p2 p3 p4 p5 p6 p7 p8 p9 p10 : Nat) (k : Nat) : Nat := [p0, p1, p2, p3, p4, p5, p6, p7, p8, p9, p10].getD k 0

theorem cold_step (tree : Array Node) (fuel : Nat) (d : Dec) (k : Nat) (node : Node) (h : tree[k]? = some node) :
    coldReadTree tree (fuel + 1) d k =
      if (if (cold d node.prob).1 then node.right else node.left) < tree.size
      then coldReadTree tree fuel (cold d node.prob).2 (if (cold d node.prob).1 then node.right else node.left)
      else some (valueFromBranch (if (cold d node.prob).1 then node.right else node.left), (cold d node.prob).2) := by
  conv => lhs; unfold coldReadTree
  rw [h]
  rfl


theorem Tsize (p0 p1 p2 p3 p4 p5 p6 p7 p8 p9 p10 : Nat) : (T p0 p1 p2 p3 p4 p5 p6 p7 p8 p9 p10).size = 11 := rfl

theorem lt_size (p0 p1 p2 p3 p4 p5 p6 p7 p8 p9 p10 k : Nat) (hk : k < 11) : k < (T p0 p1 p2 p3 p4 p5 p6 p7 p8 p9 p10).size := by
  rw [Tsize]; exact hk

/-- all the table unfolding the leaves need -/
macro "tok_simp" : tactic => `(tactic|
  simp [T, pf, valueFromBranch, valueOf, kCat3456, catBits, getLargeValue, Gen.Tables.PROB_DCT_CAT, Gen.Tables.DCT_CAT_BASE,
    Gen.Libwebp.kCat3, Gen.Libwebp.kCat4, Gen.Libwebp.kCat5, Gen.Libwebp.kCat6, *])

/-- from node 3 on: `GetLargeValue` -/
theorem walk3 (p0 p1 p2 p3 p4 p5 p6 p7 p8 p9 p10 : Nat) (fuel : Nat) (d : Dec) :
    (coldReadTree (T p0 p1 p2 p3 p4 p5 p6 p7 p8 p9 p10) (fuel + 5) d 3).bind (fun r => valueOf r.1 r.2) =
      some (.value (getLargeValue cold (pf p0 p1 p2 p3 p4 p5 p6 p7 p8 p9 p10) d).1,
        (getLargeValue cold (pf p0 p1 p2 p3 p4 p5 p6 p7 p8 p9 p10) d).2) := by
  rw [cold_step _ (fuel + 4) d 3 ⟨4, 6, p3⟩ rfl]
  cases h3 : (cold d p3).1
  · -- node 4
    have e : (if false = true then (6 : Nat) else 4) = 4 := rfl
    simp only [e, lt_size p0 p1 p2 p3 p4 p5 p6 p7 p8 p9 p10 4 (by decide), if_true]
    rw [cold_step _ (fuel + 3) _ 4 ⟨130, 5, p4⟩ rfl]
    cases h4 : (cold (cold d p3).2 p4).1
    · tok_simp
    · have e5 : (if true = true then (5 : Nat) else 130) = 5 := rfl
      simp only [e5, lt_size p0 p1 p2 p3 p4 p5 p6 p7 p8 p9 p10 5 (by decide), if_true]
      rw [cold_step _ (fuel + 2) _ 5 ⟨131, 132, p5⟩ rfl]
      cases h5 : (cold (cold (cold d p3).2 p4).2 p5).1 <;> tok_simp
  · -- node 6
    have e : (if true = true then (6 : Nat) else 4) = 6 := rfl
    simp only [e, lt_size p0 p1 p2 p3 p4 p5 p6 p7 p8 p9 p10 6 (by decide), if_true]
    rw [cold_step _ (fuel + 3) _ 6 ⟨7, 8, p6⟩ rfl]
    cases h6 : (cold (cold d p3).2 p6).1
    · have e7 : (if false = true then (8 : Nat) else 7) = 7 := rfl
      simp only [e7, lt_size p0 p1 p2 p3 p4 p5 p6 p7 p8 p9 p10 7 (by decide), if_true]
      rw [cold_step _ (fuel + 2) _ 7 ⟨133, 134, p7⟩ rfl]
      cases h7 : (cold (cold (cold d p3).2 p6).2 p7).1 <;> tok_simp <;> omega
    · have e8 : (if true = true then (8 : Nat) else 7) = 8 := rfl
      simp only [e8, lt_size p0 p1 p2 p3 p4 p5 p6 p7 p8 p9 p10 8 (by decide), if_true]
      rw [cold_step _ (fuel + 2) _ 8 ⟨9, 10, p8⟩ rfl]
      cases h8 : (cold (cold (cold d p3).2 p6).2 p8).1
      · have e9 : (if false = true then (10 : Nat) else 9) = 9 := rfl
        simp only [e9, lt_size p0 p1 p2 p3 p4 p5 p6 p7 p8 p9 p10 9 (by decide), if_true]
        rw [cold_step _ (fuel + 1) _ 9 ⟨135, 136, p9⟩ rfl]
        cases h9 : (cold (cold (cold (cold d p3).2 p6).2 p8).2 p9).1 <;> tok_simp <;> omega
      · have e10 : (if true = true then (10 : Nat) else 9) = 10 := rfl
        simp only [e10, lt_size p0 p1 p2 p3 p4 p5 p6 p7 p8 p9 p10 10 (by decide), if_true]
        rw [cold_step _ (fuel + 1) _ 10 ⟨137, 138, p10⟩ rfl]
        cases h10 : (cold (cold (cold (cold d p3).2 p6).2 p8).2 p10).1 <;> tok_simp <;> omega


theorem pf_get (p0 p1 p2 p3 p4 p5 p6 p7 p8 p9 p10 : Nat) :
    pf p0 p1 p2 p3 p4 p5 p6 p7 p8 p9 p10 0 = p0 ∧ pf p0 p1 p2 p3 p4 p5 p6 p7 p8 p9 p10 1 = p1 ∧
    pf p0 p1 p2 p3 p4 p5 p6 p7 p8 p9 p10 2 = p2 := ⟨rfl, rfl, rfl⟩

/-- from node 1 on (no end-of-block test): zero, one, or a larger value -/
theorem walk1 (p0 p1 p2 p3 p4 p5 p6 p7 p8 p9 p10 : Nat) (fuel : Nat) (d : Dec) :
    (coldReadTree (T p0 p1 p2 p3 p4 p5 p6 p7 p8 p9 p10) (fuel + 7) d 1).bind (fun r => valueOf r.1 r.2) =
      some (token cold (pf p0 p1 p2 p3 p4 p5 p6 p7 p8 p9 p10) true d) := by
  obtain ⟨_, e1, e2⟩ := pf_get p0 p1 p2 p3 p4 p5 p6 p7 p8 p9 p10
  unfold token
  simp only [if_true, Bool.not_true, Bool.false_eq_true, if_false, e1, e2]
  rw [cold_step _ (fuel + 6) d 1 ⟨128, 2, p1⟩ rfl]
  cases h1 : (cold d p1).1
  · tok_simp
  · have e : (if true = true then (2 : Nat) else 128) = 2 := rfl
    simp only [e, lt_size p0 p1 p2 p3 p4 p5 p6 p7 p8 p9 p10 2 (by decide), if_true, Bool.not_true, Bool.false_eq_true, if_false]
    rw [cold_step _ (fuel + 5) _ 2 ⟨129, 3, p2⟩ rfl]
    cases h2 : (cold (cold d p1).2 p2).1
    · tok_simp
    · have e3 : (if true = true then (3 : Nat) else 129) = 3 := rfl
      simp only [e3, lt_size p0 p1 p2 p3 p4 p5 p6 p7 p8 p9 p10 3 (by decide), if_true, Bool.not_true, Bool.false_eq_true, if_false]
      exact walk3 p0 p1 p2 p3 p4 p5 p6 p7 p8 p9 p10 fuel _

/-- from the root: end of block, or as from node 1 -/
theorem walk0 (p0 p1 p2 p3 p4 p5 p6 p7 p8 p9 p10 : Nat) (fuel : Nat) (d : Dec) :
    (coldReadTree (T p0 p1 p2 p3 p4 p5 p6 p7 p8 p9 p10) (fuel + 8) d 0).bind (fun r => valueOf r.1 r.2) =
      some (token cold (pf p0 p1 p2 p3 p4 p5 p6 p7 p8 p9 p10) false d) := by
  obtain ⟨e0, _, _⟩ := pf_get p0 p1 p2 p3 p4 p5 p6 p7 p8 p9 p10
  rw [cold_step _ (fuel + 7) d 0 ⟨139, 1, p0⟩ rfl]
  cases h0 : (cold d p0).1
  · unfold token
    simp only [Bool.false_eq_true, if_false, e0, h0, Bool.not_false, if_true]
    tok_simp
  · have e : (if true = true then (1 : Nat) else 139) = 1 := rfl
    simp only [e, lt_size p0 p1 p2 p3 p4 p5 p6 p7 p8 p9 p10 1 (by decide), if_true]
    rw [walk1]
    unfold token
    simp only [Bool.false_eq_true, if_false, e0, h0, Bool.not_true, if_true]


/-! ### from the cold walk to the public reads -/

theorem coldReadTree_wf (tree : Array Node) (hall : ∀ (k : Nat) (nd : Node), tree[k]? = some nd → nd.prob < 256) :
    ∀ (fuel : Nat) (d : Dec) (k v : Nat) (d' : Dec), WF d → coldReadTree tree fuel d k = some (v, d') → WF d' := by
  intro fuel
  induction fuel with
  | zero => intro d k v d' _ h; simp [coldReadTree] at h
  | succ fuel ih =>
    intro d k v d' hwf h
    unfold coldReadTree at h
    cases hk : tree[k]? with
    | none => rw [hk] at h; cases h
    | some node =>
      rw [hk] at h
      simp only at h
      have hw := coldReadBit_wf d node.prob (hall k node hk) hwf
      generalize (if (coldReadBit d node.prob).1 = true then node.right else node.left) = t at h
      by_cases ht : t < tree.size
      · rw [if_pos ht] at h; exact ih _ _ _ _ hw h
      · rw [if_neg ht] at h; injection h with h; injection h with _ h2; rw [← h2]; exact hw

/-- two bit sources that agree on an invariant set of states -/
def BitsAgree {S : Type} (b1 b2 : S → Nat → Bool × S) (I : S → Prop) : Prop :=
  ∀ s p, I s → p < 256 → b1 s p = b2 s p ∧ I (b2 s p).2

theorem catBits_congr {S : Type} (b1 b2 : S → Nat → Bool × S) (I : S → Prop) (h : BitsAgree b1 b2 I) :
    ∀ (ts : List Nat) (s : S) (v : Nat), (∀ t ∈ ts, t < 256) → I s →
      catBits b1 ts s v = catBits b2 ts s v ∧ I (catBits b2 ts s v).2 := by
  intro ts
  induction ts with
  | nil => intro s v _ hs; exact ⟨rfl, hs⟩
  | cons t ts ih =>
    intro s v ht hs
    unfold catBits
    by_cases h0 : t = 0
    · rw [if_pos h0, if_pos h0]; exact ⟨rfl, hs⟩
    · rw [if_neg h0, if_neg h0]
      simp only
      obtain ⟨e, hi⟩ := h s t hs (ht t List.mem_cons_self)
      rw [e]
      exact ih _ _ (fun t' ht' => ht t' (List.mem_cons_of_mem _ ht')) hi

theorem kcat_lt : ∀ cat, ∀ t ∈ kCat3456 cat, t < 256 := by
  intro cat t ht
  unfold kCat3456 at ht
  split at ht <;> revert t <;> decide

theorem getLargeValue_congr {S : Type} (b1 b2 : S → Nat → Bool × S) (I : S → Prop) (h : BitsAgree b1 b2 I)
    (p : Nat → Nat) (hp : ∀ k, p k < 256) (s : S) (hs : I s) :
    getLargeValue b1 p s = getLargeValue b2 p s ∧ I (getLargeValue b2 p s).2 := by
  unfold getLargeValue
  obtain ⟨e3, i3⟩ := h s (p 3) hs (hp 3)
  simp only [e3]
  cases hb3 : (b2 s (p 3)).1
  · simp only [Bool.not_false, if_true]
    obtain ⟨e4, i4⟩ := h _ (p 4) i3 (hp 4)
    simp only [e4]
    cases hb4 : (b2 (b2 s (p 3)).2 (p 4)).1
    · simp only [Bool.not_false, if_true]; exact ⟨by first | rfl | trivial, i4⟩
    · simp only [Bool.not_true, Bool.false_eq_true, if_false]
      obtain ⟨e5, i5⟩ := h _ (p 5) i4 (hp 5)
      simp only [e5]; exact ⟨by first | rfl | trivial, i5⟩
  · simp only [Bool.not_true, Bool.false_eq_true, if_false]
    obtain ⟨e6, i6⟩ := h _ (p 6) i3 (hp 6)
    simp only [e6]
    cases hb6 : (b2 (b2 s (p 3)).2 (p 6)).1
    · simp only [Bool.not_false, if_true]
      obtain ⟨e7, i7⟩ := h _ (p 7) i6 (hp 7)
      simp only [e7]
      cases hb7 : (b2 (b2 (b2 s (p 3)).2 (p 6)).2 (p 7)).1
      · simp only [Bool.not_false, if_true]
        obtain ⟨e, i⟩ := h _ 159 i7 (by decide)
        simp only [e]; exact ⟨by first | rfl | trivial, i⟩
      · simp only [Bool.not_true, Bool.false_eq_true, if_false]
        obtain ⟨ea, ia⟩ := h _ 165 i7 (by decide)
        simp only [ea]
        obtain ⟨eb, ib⟩ := h _ 145 ia (by decide)
        simp only [eb]; exact ⟨by first | rfl | trivial, ib⟩
    · simp only [Bool.not_true, Bool.false_eq_true, if_false]
      obtain ⟨e8, i8⟩ := h _ (p 8) i6 (hp 8)
      simp only [e8]
      obtain ⟨e9, i9⟩ := h _ (p (9 + (b2 (b2 (b2 s (p 3)).2 (p 6)).2 (p 8)).1.toNat)) i8 (hp _)
      simp only [e9]
      refine ⟨?_, ?_⟩
      · rw [(catBits_congr b1 b2 I h (kCat3456 _) _ 0 (kcat_lt _) i9).1]
      · exact (catBits_congr b1 b2 I h (kCat3456 _) _ 0 (kcat_lt _) i9).2

theorem token_congr {S : Type} (b1 b2 : S → Nat → Bool × S) (I : S → Prop) (h : BitsAgree b1 b2 I)
    (p : Nat → Nat) (hp : ∀ k, p k < 256) (az : Bool) (s : S) (hs : I s) :
    token b1 p az s = token b2 p az s := by
  unfold token
  have key : ∀ s, I s →
      (let r1 := b1 s (p 1)
       if !r1.1 then (Tok.zero, r1.2) else
         let r2 := b1 r1.2 (p 2)
         if !r2.1 then (Tok.value 1, r2.2) else
           let rv := getLargeValue b1 p r2.2
           (Tok.value rv.1, rv.2)) =
      (let r1 := b2 s (p 1)
       if !r1.1 then (Tok.zero, r1.2) else
         let r2 := b2 r1.2 (p 2)
         if !r2.1 then (Tok.value 1, r2.2) else
           let rv := getLargeValue b2 p r2.2
           (Tok.value rv.1, rv.2)) := by
    intro s hs
    obtain ⟨e1, i1⟩ := h s (p 1) hs (hp 1)
    simp only [e1]
    cases hb1 : (b2 s (p 1)).1
    · rfl
    · simp only [Bool.not_true, Bool.false_eq_true, if_false]
      obtain ⟨e2, i2⟩ := h _ (p 2) i1 (hp 2)
      simp only [e2]
      cases hb2 : (b2 (b2 s (p 1)).2 (p 2)).1
      · rfl
      · simp only [Bool.not_true, Bool.false_eq_true, if_false]
        rw [(getLargeValue_congr b1 b2 I h p hp _ i2).1]
  cases az
  · simp only [Bool.false_eq_true, if_false]
    obtain ⟨e0, i0⟩ := h s (p 0) hs (hp 0)
    simp only [e0]
    cases hb0 : (b2 s (p 0)).1
    · rfl
    · simp only [Bool.not_true, Bool.false_eq_true, if_false]
      exact key _ i0
  · simp only [if_true, Bool.not_true, Bool.false_eq_true, if_false]
    exact key s hs


/-! ### assembly -/

def pub (d : Dec) (p : Nat) : Bool × Dec := readBool d p

theorem pub_cold_agree : BitsAgree pub cold WF := by
  intro d p hwf hp
  exact ⟨readBool_cold d p hp hwf, cold_wf d p hp hwf⟩

theorem readExtra_catBits : ∀ (ts : List Nat) (d : Dec) (v : Nat), readExtra ts d v = catBits pub ts d v := by
  intro ts
  induction ts with
  | nil => intro d v; rfl
  | cons t ts ih =>
    intro d v
    unfold readExtra catBits
    by_cases h0 : t = 0
    · rw [if_pos h0, if_pos h0]
    · rw [if_neg h0, if_neg h0]
      exact ih _ _

theorem cat_probs_lt (k : Nat) : ∀ t ∈ Gen.Tables.PROB_DCT_CAT.getD k [], t < 256 := by
  by_cases hk : k < 6
  · revert k; decide
  · intro t ht
    rw [List.getD_eq_getElem?_getD, List.getElem?_eq_none (by
      have : Gen.Tables.PROB_DCT_CAT.length = 6 := by decide
      omega)] at ht
    cases ht

/-- the model's value mapping with the public reads = with the cold reads, on well-formed states -/
theorem valueOf_pub (token : Nat) (d : Dec) (hwf : WF d) :
    (if token = 11 then some (Tok.eob, d)
     else if token = 0 then some (Tok.zero, d)
     else if token ≤ 4 then some (Tok.value token, d)
     else
       let r := readExtra (Gen.Tables.PROB_DCT_CAT.getD (token - 5) []) d 0
       some (Tok.value (Gen.Tables.DCT_CAT_BASE.getD (token - 5) 0 + r.1), r.2)) = valueOf token d := by
  unfold valueOf
  rw [readExtra_catBits, (catBits_congr pub cold WF pub_cold_agree _ d 0 (cat_probs_lt _) hwf).1]

theorem treeGood_token (p0 p1 p2 p3 p4 p5 p6 p7 p8 p9 p10 : Nat)
    (hp : ∀ p ∈ [p0, p1, p2, p3, p4, p5, p6, p7, p8, p9, p10], p < 256) :
    ArithRfc.treeGood Gen.Tables.DCT_TOKEN_TREE [p0, p1, p2, p3, p4, p5, p6, p7, p8, p9, p10] = true := by
  unfold ArithRfc.treeGood
  simp only [Bool.and_eq_true, beq_iff_eq, decide_eq_true_eq, List.all_eq_true]
  refine ⟨⟨⟨⟨⟨by decide, by show (11 : Nat) ≤ 11; decide⟩, by decide⟩, by decide⟩, by decide⟩, ?_⟩
  intro p hpm
  simpa using hp p hpm

/-- **one coefficient token = libwebp's bit tests**: for every well-formed decoder state, every
    probability vector and both entry points, the model's tree read plus category decoding returns
    what `GetCoeffs` / `GetLargeValue` compute with the same public bit reads -/
theorem readToken_is_reference (d : Dec) (hwf : WF d) (ps : List Nat) (hl : ps.length = 11) (hp : ∀ p ∈ ps, p < 256) (skip : Bool) :
    readToken d ps skip = some (token pub (fun k => ps.getD k 0) skip d) := by
  obtain ⟨p0, p1, p2, p3, p4, p5, p6, p7, p8, p9, p10, rfl⟩ :
      ∃ p0 p1 p2 p3 p4 p5 p6 p7 p8 p9 p10, ps = [p0, p1, p2, p3, p4, p5, p6, p7, p8, p9, p10] := by
    match ps, hl with
    | [a0, a1, a2, a3, a4, a5, a6, a7, a8, a9, a10], _ => exact ⟨a0, a1, a2, a3, a4, a5, a6, a7, a8, a9, a10, rfl⟩
  have hpf : ∀ k, pf p0 p1 p2 p3 p4 p5 p6 p7 p8 p9 p10 k < 256 := by
    intro k
    unfold pf
    rw [List.getD_eq_getElem?_getD]
    cases hk : [p0, p1, p2, p3, p4, p5, p6, p7, p8, p9, p10][k]? with
    | none => simp
    | some v => simp; exact hp v (List.mem_of_getElem? hk)
  -- the tree walk is the cold walk
  have f := ArithRfc.treeFacts _ _ (treeGood_token p0 p1 p2 p3 p4 p5 p6 p7 p8 p9 p10 hp)
  have hT : ArithRfc.nodesOf Gen.Tables.DCT_TOKEN_TREE [p0, p1, p2, p3, p4, p5, p6, p7, p8, p9, p10] =
      T p0 p1 p2 p3 p4 p5 p6 p7 p8 p9 p10 := token_nodes p0 p1 p2 p3 p4 p5 p6 p7 p8 p9 p10
  have hall : ∀ (k : Nat) (nd : Node), (T p0 p1 p2 p3 p4 p5 p6 p7 p8 p9 p10)[k]? = some nd → nd.prob < 256 := by
    intro k nd hk
    have hk' : k < 11 := by
      have := (Array.getElem?_eq_some_iff.mp hk).1
      rw [Tsize] at this; exact this
    have hlen : Gen.Tables.DCT_TOKEN_TREE.length / 2 = 11 := by decide
    rw [← hT, f.node k (by rw [hlen]; exact hk')] at hk
    injection hk with hk
    rw [← hk]
    exact f.prob k (by rw [hlen]; exact hk')
  have hwalk : ∀ start, start < 11 →
      readTreeFrom d (T p0 p1 p2 p3 p4 p5 p6 p7 p8 p9 p10) start = coldReadTree (T p0 p1 p2 p3 p4 p5 p6 p7 p8 p9 p10) 12 d start := by
    intro start hs
    have hlen : Gen.Tables.DCT_TOKEN_TREE.length / 2 = 11 := by decide
    have hnode := f.node start (by rw [hlen]; exact hs)
    rw [hT] at hnode
    obtain ⟨r, hfast⟩ := ArithRfc.fast_tree_total _ _ f d.chunks 11 12 start d.state _ (by rw [hlen]; omega) (by omega)
      (by rw [hlen]; exact hs) (by rw [hT]; exact hnode)
    rw [hT] at hfast
    unfold readTreeFrom commitIfValid
    rw [hnode, Tsize]
    simp only [hfast]
    by_cases hc : r.2.chunkIndex ≤ d.chunks.size
    · simp only [hc, if_true]
      rw [fast_agrees_tree _ hall 12 d start _ hnode hwf.1 r hfast hc]; rfl
    · simp only [hc, if_false]
  unfold readToken
  rw [token_nodes]
  show (match readTreeFrom d (T p0 p1 p2 p3 p4 p5 p6 p7 p8 p9 p10) (if skip = true then 1 else 0) with
    | none => none
    | some (token, d) => _) = _
  have hstart : (if skip = true then 1 else 0) < 11 := by split <;> decide
  rw [hwalk _ hstart]
  -- the value mapping on the state the walk leaves
  have hbind : ∀ (o : Option (Nat × Dec)), (∀ v d', o = some (v, d') → WF d') →
      (match o with
       | none => none
       | some (token, d) =>
         if token = 11 then some (Tok.eob, d)
         else if token = 0 then some (Tok.zero, d)
         else if token ≤ 4 then some (Tok.value token, d)
         else
           let r := readExtra (Gen.Tables.PROB_DCT_CAT.getD (token - 5) []) d 0
           some (Tok.value (Gen.Tables.DCT_CAT_BASE.getD (token - 5) 0 + r.1), r.2)) = o.bind (fun r => valueOf r.1 r.2) := by
    intro o ho
    cases o with
    | none => rfl
    | some r =>
      obtain ⟨v, d'⟩ := r
      exact valueOf_pub v d' (ho v d' rfl)
  rw [hbind _ (fun v d' h => coldReadTree_wf _ hall 12 d _ v d' hwf h)]
  have hspec : token pub (fun k => [p0, p1, p2, p3, p4, p5, p6, p7, p8, p9, p10].getD k 0) skip d =
      token cold (pf p0 p1 p2 p3 p4 p5 p6 p7 p8 p9 p10) skip d :=
    token_congr pub cold WF pub_cold_agree _ hpf skip d hwf
  rw [hspec]
  cases skip
  · exact walk0 p0 p1 p2 p3 p4 p5 p6 p7 p8 p9 p10 4 d
  · exact walk1 p0 p1 p2 p3 p4 p5 p6 p7 p8 p9 p10 5 d


/-! ### the loop body of `read_coefficients` in terms of the token -/

/-- what `read_coefficients` does with a token at position `i`: stop, note a zero, or read the
    sign, dequantise and store at the zigzag position -/
def applyTok (dcq acq : Int) (i : Nat) (s : St) : Tok × Dec → St ⊕ St
  | (.eob, d) => .inl { s with d := d }
  | (.zero, d) => .inr { s with d := d, skip := true, has := true, complexity := 0 }
  | (.value v, d) =>
    .inr { d := (readFlag d).2,
           block := s.block.setIfInBounds (Gen.Tables.ZIGZAG.getD i 0)
             ((if (readFlag d).1 then -(v : Int) else v) * (if Gen.Tables.ZIGZAG.getD i 0 > 0 then acq else dcq)),
           complexity := if v = 0 then 0 else if v = 1 then 1 else 2, skip := false, has := true }

theorem stepAt_eq (probs : Nat → Nat → List Nat) (dcq acq : Int) (i : Nat) (s : St) :
    stepAt probs dcq acq i s =
      (readToken s.d (probs (Gen.Tables.COEFF_BANDS.getD i 0) s.complexity) s.skip).map (applyTok dcq acq i s) := by
  unfold stepAt readToken
  simp only
  cases readTreeFrom s.d (treeNodesFrom Gen.Tables.DCT_TOKEN_TREE (probs (Gen.Tables.COEFF_BANDS.getD i 0) s.complexity)).toArray
      (if s.skip = true then 1 else 0) with
  | none => rfl
  | some r =>
    obtain ⟨token, d⟩ := r
    simp only
    by_cases h11 : token = 11
    · rw [if_pos h11, if_pos h11]; rfl
    · rw [if_neg h11, if_neg h11]
      by_cases h0 : token = 0
      · rw [if_pos h0, if_pos h0]; rfl
      · rw [if_neg h0, if_neg h0]
        by_cases h4 : token ≤ 4
        · rw [if_pos h4]; simp only [h4, if_true]; rfl
        · rw [if_neg h4]; simp only [h4, if_false]; rfl

/-- **the loop body of `read_coefficients` with libwebp's token decoding**: on every well-formed
    decoder state and for every probability table, position and context -/
theorem stepAt_is_reference (probs : Nat → Nat → List Nat)
    (hprobs : ∀ band ctx, (probs band ctx).length = 11 ∧ ∀ p ∈ probs band ctx, p < 256)
    (dcq acq : Int) (i : Nat) (s : St) (hwf : WF s.d) :
    stepAt probs dcq acq i s =
      some (applyTok dcq acq i s
        (token pub (fun k => (probs (Gen.Tables.COEFF_BANDS.getD i 0) s.complexity).getD k 0) s.skip s.d)) := by
  rw [stepAt_eq, readToken_is_reference s.d hwf _ (hprobs _ _).1 (hprobs _ _).2]
  rfl

end Vp8TokProof
