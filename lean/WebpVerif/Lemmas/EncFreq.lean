import WebpVerif.Lemmas.EncCodes

/-!
Stage 3 of the bit-level round trip: what the encoder's frequency counting guarantees - every
symbol that will be written has a non-zero count (so it gets a code word), the histograms keep
their sizes and their sums stay far below 2^32.
-/
namespace EncRT
open Enc

theorem addAt_get (a : Array Nat) (i j : Nat) : (addAt a i)[j]! = if i = j ∧ j < a.size then a[j]! + 1 else a[j]! := by
  unfold addAt
  rw [Array.getElem!_eq_getD, Array.getD_eq_getD_getElem?, Array.getElem!_eq_getD, Array.getD_eq_getD_getElem?]
  by_cases hj : j < a.size
  · rw [Array.getElem?_eq_getElem (by simpa using hj), Array.getElem?_eq_getElem hj, Array.getElem_modify]
    by_cases hij : i = j <;> simp [hij, hj]
  · rw [Array.getElem?_eq_none (by simpa using hj), Array.getElem?_eq_none (by omega)]
    simp [hj]

theorem addAt_size (a : Array Nat) (i : Nat) : (addAt a i).size = a.size := by unfold addAt; exact Array.size_modify

theorem addAt_ge (a : Array Nat) (i j : Nat) : a[j]! ≤ (addAt a i)[j]! := by
  rw [addAt_get]; split <;> omega

theorem addAt_pos (a : Array Nat) (i : Nat) (hi : i < a.size) : 0 < (addAt a i)[i]! := by
  rw [addAt_get, if_pos ⟨rfl, hi⟩]; omega

theorem sum_modify_le : ∀ (l : List Nat) (i : Nat), (l.modify i (· + 1)).sum ≤ l.sum + 1 := by
  intro l
  induction l with
  | nil => intro i; simp
  | cons a l ih =>
    intro i
    rw [List.modify_cons]
    by_cases hi : i = 0
    · rw [if_pos hi]; simp only [List.sum_cons]; omega
    · rw [if_neg hi]; simp only [List.sum_cons]; have := ih (i - 1); omega

theorem addAt_sum (a : Array Nat) (i : Nat) : (addAt a i).toList.sum ≤ a.toList.sum + 1 := by
  unfold addAt; rw [Array.toList_modify]; exact sum_modify_le _ _

/-- the shape of the four histograms: sizes 256 / 280 / 256 / 256 and bounded sums -/
structure Shape (f : Array Nat × Array Nat × Array Nat × Array Nat) (B : Nat) : Prop where
  s0 : f.1.size = 256
  s1 : f.2.1.size = 280
  s2 : f.2.2.1.size = 256
  s3 : f.2.2.2.size = 256
  b0 : f.1.toList.sum ≤ B
  b1 : f.2.1.toList.sum ≤ B
  b2 : f.2.2.1.toList.sum ≤ B
  b3 : f.2.2.2.toList.sum ≤ B

theorem sum_replicate_zero (n : Nat) : (Array.replicate n 0).toList.sum = 0 := by
  rw [Array.toList_replicate]
  induction n with
  | zero => rfl
  | succ n ih => rw [List.replicate_succ, List.sum_cons, ih]

theorem initFreqs_shape (color : Nat) : Shape (initFreqs color) 1 := by
  unfold initFreqs
  constructor
  · simp only; split <;> simp only [addAt_size, Array.size_replicate]
  · exact Array.size_replicate ..
  · simp only; split <;> simp only [addAt_size, Array.size_replicate]
  · simp only; split <;> simp only [addAt_size, Array.size_replicate]
  · simp only; split
    · have := addAt_sum (Array.replicate 256 0) 0; rw [sum_replicate_zero] at this; omega
    · rw [sum_replicate_zero]; omega
  · show (Array.replicate 280 0).toList.sum ≤ 1
    rw [sum_replicate_zero]; omega
  · simp only; split
    · have := addAt_sum (Array.replicate 256 0) 0; rw [sum_replicate_zero] at this; omega
    · rw [sum_replicate_zero]; omega
  · simp only; split
    · have := addAt_sum (Array.replicate 256 0) 0; rw [sum_replicate_zero] at this; omega
    · rw [sum_replicate_zero]; omega

theorem countTok_shape (isColor isAlpha : Bool) (f : Array Nat × Array Nat × Array Nat × Array Nat) (t : List Nat × Nat) (B : Nat)
    (h : Shape f B) : Shape (countTok isColor isAlpha f t) (B + 2) := by
  obtain ⟨s0, s1, s2, s3, b0, b1, b2, b3⟩ := h
  unfold countTok
  constructor
  · simp only; split <;> simp [addAt_size, s0]
  · simp only; split <;> simp [addAt_size, s1]
  · simp only; split <;> simp [addAt_size, s2]
  · simp only; split <;> simp [addAt_size, s3]
  · simp only; split
    · have := addAt_sum f.1 (t.1.getD 0 0); omega
    · omega
  · simp only; split
    · have h1 := addAt_sum f.2.1 (t.1.getD 1 0)
      have h2 := addAt_sum (addAt f.2.1 (t.1.getD 1 0)) (runSymbol t.2)
      omega
    · have h1 := addAt_sum f.2.1 (t.1.getD 1 0); omega
  · simp only; split
    · have := addAt_sum f.2.2.1 (t.1.getD 2 0); omega
    · omega
  · simp only; split
    · have := addAt_sum f.2.2.2 (t.1.getD 3 0); omega
    · omega

theorem countToks_shape (isColor isAlpha : Bool) : ∀ (toks : List (List Nat × Nat)) (f : Array Nat × Array Nat × Array Nat × Array Nat) (B : Nat),
    Shape f B → Shape (toks.foldl (countTok isColor isAlpha) f) (B + 2 * toks.length) := by
  intro toks
  induction toks with
  | nil => intro f B h; simpa using h
  | cons t rest ih =>
    intro f B h
    rw [List.foldl_cons, List.length_cons]
    have := ih _ _ (countTok_shape isColor isAlpha f t B h)
    have e : B + 2 + 2 * rest.length = B + 2 * (rest.length + 1) := by omega
    rw [e] at this
    exact this

/-- counts never decrease -/
def Le4 (f g : Array Nat × Array Nat × Array Nat × Array Nat) : Prop :=
  ∀ j : Nat, f.1[j]! ≤ g.1[j]! ∧ f.2.1[j]! ≤ g.2.1[j]! ∧ f.2.2.1[j]! ≤ g.2.2.1[j]! ∧ f.2.2.2[j]! ≤ g.2.2.2[j]!

theorem countTok_le (isColor isAlpha : Bool) (f : Array Nat × Array Nat × Array Nat × Array Nat) (t : List Nat × Nat) :
    Le4 f (countTok isColor isAlpha f t) := by
  intro j
  unfold countTok
  refine ⟨?_, ?_, ?_, ?_⟩
  · simp only; split
    · exact addAt_ge _ _ _
    · exact Nat.le_refl _
  · simp only; split
    · exact Nat.le_trans (addAt_ge _ _ _) (addAt_ge _ _ _)
    · exact addAt_ge _ _ _
  · simp only; split
    · exact addAt_ge _ _ _
    · exact Nat.le_refl _
  · simp only; split
    · exact addAt_ge _ _ _
    · exact Nat.le_refl _

theorem countToks_le (isColor isAlpha : Bool) : ∀ (toks : List (List Nat × Nat)) (f : Array Nat × Array Nat × Array Nat × Array Nat),
    Le4 f (toks.foldl (countTok isColor isAlpha) f) := by
  intro toks
  induction toks with
  | nil => intro f j; exact ⟨Nat.le_refl _, Nat.le_refl _, Nat.le_refl _, Nat.le_refl _⟩
  | cons t rest ih =>
    intro f j
    rw [List.foldl_cons]
    have h1 := countTok_le isColor isAlpha f t j
    have h2 := ih (countTok isColor isAlpha f t) j
    exact ⟨Nat.le_trans h1.1 h2.1, Nat.le_trans h1.2.1 h2.2.1, Nat.le_trans h1.2.2.1 h2.2.2.1, Nat.le_trans h1.2.2.2 h2.2.2.2⟩

/-- what one token contributes: each symbol it will be written with is counted -/
def Counted (isColor isAlpha : Bool) (t : List Nat × Nat) (g : Array Nat × Array Nat × Array Nat × Array Nat) : Prop :=
  0 < g.2.1[t.1.getD 1 0]! ∧ (t.2 > 0 → 0 < g.2.1[runSymbol t.2]!) ∧
  (isColor = true → 0 < g.1[t.1.getD 0 0]! ∧ 0 < g.2.2.1[t.1.getD 2 0]!) ∧
  (isAlpha = true → 0 < g.2.2.2[t.1.getD 3 0]!)

/-- a token whose symbols are inside the alphabets -/
def TokIn (t : List Nat × Nat) : Prop :=
  t.1.getD 0 0 < 256 ∧ t.1.getD 1 0 < 256 ∧ t.1.getD 2 0 < 256 ∧ t.1.getD 3 0 < 256 ∧ runSymbol t.2 < 280

theorem countTok_counted (isColor isAlpha : Bool) (f : Array Nat × Array Nat × Array Nat × Array Nat) (t : List Nat × Nat) (B : Nat)
    (h : Shape f B) (hin : TokIn t) : Counted isColor isAlpha t (countTok isColor isAlpha f t) := by
  obtain ⟨s0, s1, s2, s3, _, _, _, _⟩ := h
  obtain ⟨i0, i1, i2, i3, ir⟩ := hin
  unfold countTok
  refine ⟨?_, ?_, ?_, ?_⟩
  · simp only; split
    · exact Nat.lt_of_lt_of_le (addAt_pos _ _ (by omega)) (addAt_ge _ _ _)
    · exact addAt_pos _ _ (by omega)
  · intro hr
    simp only [hr, if_true]
    exact addAt_pos _ _ (by rw [addAt_size]; omega)
  · intro hc
    simp only [hc, if_true]
    exact ⟨addAt_pos _ _ (by omega), addAt_pos _ _ (by omega)⟩
  · intro ha
    simp only [ha, if_true]
    exact addAt_pos _ _ (by omega)

theorem counted_mono (isColor isAlpha : Bool) (t : List Nat × Nat) (g g' : Array Nat × Array Nat × Array Nat × Array Nat)
    (h : Counted isColor isAlpha t g) (hle : Le4 g g') : Counted isColor isAlpha t g' := by
  obtain ⟨h1, h2, h3, h4⟩ := h
  refine ⟨Nat.lt_of_lt_of_le h1 (hle _).2.1, fun hr => Nat.lt_of_lt_of_le (h2 hr) (hle _).2.1,
    fun hc => ⟨Nat.lt_of_lt_of_le (h3 hc).1 (hle _).1, Nat.lt_of_lt_of_le (h3 hc).2 (hle _).2.2.1⟩,
    fun ha => Nat.lt_of_lt_of_le (h4 ha) (hle _).2.2.2⟩

/-- **every token's symbols are counted in the final histograms** -/
theorem countToks_counted (isColor isAlpha : Bool) : ∀ (toks : List (List Nat × Nat)) (f : Array Nat × Array Nat × Array Nat × Array Nat) (B : Nat),
    Shape f B → (∀ t ∈ toks, TokIn t) → ∀ t ∈ toks, Counted isColor isAlpha t (toks.foldl (countTok isColor isAlpha) f) := by
  intro toks
  induction toks with
  | nil => intro f B _ _ t ht; cases ht
  | cons t0 rest ih =>
    intro f B hs hin t ht
    rw [List.foldl_cons]
    rcases List.mem_cons.mp ht with rfl | hm
    · exact counted_mono _ _ _ _ _ (countTok_counted isColor isAlpha f t B hs (hin t List.mem_cons_self)) (countToks_le _ _ _ _)
    · exact ih _ _ (countTok_shape isColor isAlpha f t0 B hs) (fun t' ht' => hin t' (List.mem_cons_of_mem _ ht')) t hm

end EncRT
