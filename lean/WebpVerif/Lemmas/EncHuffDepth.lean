import WebpVerif.Lemmas.EncHuffHeap
import WebpVerif.Lemmas.EncHuffLimit

/-!
The tree `build_huffman_tree` builds by always merging the two least frequent items is too shallow
for the `depth as u8` cast to wrap: every node weighs at least as much as its nephews, so the
weight grows like the Fibonacci numbers along every path, and a total below 2^32 leaves room for
depth 46 at most.
-/
namespace EncHuff

/-- weight of a tree: the sum of the frequencies of its leaves -/
def wt (fr : List Nat) : Tree → Nat
  | .leaf i => fr.getD i 0
  | .node l r => wt fr l + wt fr r

def height : Tree → Nat
  | .leaf _ => 0
  | .node l r => 1 + max (height l) (height r)

/-- weight of the heavier child (0 for a leaf) -/
def childMax (fr : List Nat) : Tree → Nat
  | .leaf _ => 0
  | .node l r => max (wt fr l) (wt fr r)

/-- every node weighs at least as much as the children of its sibling -/
def Bal (fr : List Nat) : Tree → Prop
  | .leaf _ => True
  | .node a b => Bal fr a ∧ Bal fr b ∧ childMax fr a ≤ wt fr b ∧ childMax fr b ≤ wt fr a

def PosLeaves (fr : List Nat) : Tree → Prop
  | .leaf i => 1 ≤ fr.getD i 0
  | .node l r => PosLeaves fr l ∧ PosLeaves fr r

/-- 1, 2, 3, 5, 8, … -/
def fibPair : Nat → Nat × Nat
  | 0 => (1, 2)
  | n + 1 => ((fibPair n).2, (fibPair n).1 + (fibPair n).2)

def g (n : Nat) : Nat := (fibPair n).1

theorem g_succ_succ (n : Nat) : g (n + 2) = g (n + 1) + g n := by
  unfold g
  simp only [fibPair]
  omega

theorem g_zero : g 0 = 1 := rfl
theorem g_one : g 1 = 2 := rfl

theorem g_mono_succ (n : Nat) : g n ≤ g (n + 1) := by
  cases n with
  | zero => decide
  | succ n => rw [g_succ_succ]; omega

theorem g_mono (a b : Nat) (h : a ≤ b) : g a ≤ g b := by
  induction b with
  | zero => have : a = 0 := by omega
            subst this; exact Nat.le_refl _
  | succ b ih =>
    by_cases hab : a = b + 1
    · rw [hab]
    · exact Nat.le_trans (ih (by omega)) (g_mono_succ b)

theorem g47 : 2 ^ 32 ≤ g 47 := by decide

/-- weight at least Fibonacci of the height; and the heavier child at least Fibonacci of height − 1 -/
theorem bal_weight (fr : List Nat) : ∀ t : Tree, Bal fr t → PosLeaves fr t →
    g (height t) ≤ wt fr t ∧ (1 ≤ height t → g (height t - 1) ≤ childMax fr t) := by
  intro t
  induction t with
  | leaf i => intro _ hp; exact ⟨hp, fun h => by simp [height] at h⟩
  | node a b iha ihb =>
    intro hb hp
    obtain ⟨ba, bb, c1, c2⟩ := hb
    obtain ⟨pa, pb⟩ := hp
    obtain ⟨a1, a2⟩ := iha ba pa
    obtain ⟨b1, b2⟩ := ihb bb pb
    have hh : height (.node a b) = 1 + max (height a) (height b) := rfl
    have hw : wt fr (.node a b) = wt fr a + wt fr b := rfl
    have hc : childMax fr (.node a b) = max (wt fr a) (wt fr b) := rfl
    have second : g (height (.node a b) - 1) ≤ childMax fr (.node a b) := by
      rw [hh, hc, Nat.add_sub_cancel_left]
      rcases Nat.le_total (height a) (height b) with h | h
      · rw [Nat.max_eq_right h]; exact Nat.le_trans b1 (Nat.le_max_right _ _)
      · rw [Nat.max_eq_left h]; exact Nat.le_trans a1 (Nat.le_max_left _ _)
    refine ⟨?_, fun _ => second⟩
    rw [hh, hw]
    rcases Nat.le_total (height b) (height a) with h | h
    · rw [Nat.max_eq_left h]
      by_cases h0 : height a = 0
      · have hb0 : height b = 0 := by omega
        rw [h0] at a1 ⊢; rw [hb0] at b1
        have : g 0 = 1 := rfl
        have : g (1 + 0) = 2 := rfl
        omega
      · obtain ⟨m, hm⟩ : ∃ m, height a = m + 1 := ⟨height a - 1, by omega⟩
        have := a2 (by omega)
        rw [hm, Nat.add_sub_cancel] at this
        rw [hm, show 1 + (m + 1) = m + 2 by omega, g_succ_succ]
        rw [hm] at a1
        omega
    · rw [Nat.max_eq_right h]
      by_cases h0 : height b = 0
      · have ha0 : height a = 0 := by omega
        rw [h0] at b1 ⊢; rw [ha0] at a1
        have : g 0 = 1 := rfl
        have : g (1 + 0) = 2 := rfl
        omega
      · obtain ⟨m, hm⟩ : ∃ m, height b = m + 1 := ⟨height b - 1, by omega⟩
        have := b2 (by omega)
        rw [hm, Nat.add_sub_cancel] at this
        rw [hm, show 1 + (m + 1) = m + 2 by omega, g_succ_succ]
        rw [hm] at b1
        omega

theorem height_bound (fr : List Nat) (t : Tree) (hb : Bal fr t) (hp : PosLeaves fr t) (hw : wt fr t < 2 ^ 32) :
    height t ≤ 46 := by
  obtain ⟨h1, _⟩ := bal_weight fr t hb hp
  rcases Nat.lt_or_ge (height t) 47 with h | h
  · omega
  · have := g_mono 47 (height t) h
    have := g47
    omega

theorem depths_le_height (t : Tree) : ∀ d0, ∀ p ∈ depths t d0, p.2 ≤ d0 + height t := by
  induction t with
  | leaf s => intro d0 p hp; simp [depths] at hp; subst hp; simp [height]
  | node l r ihl ihr =>
    intro d0 p hp
    simp only [depths, List.mem_append] at hp
    have hh : height (.node l r) = 1 + max (height l) (height r) := rfl
    rcases hp with h | h
    · have := ihl (d0 + 1) p h
      have := Nat.le_max_left (height l) (height r)
      omega
    · have := ihr (d0 + 1) p h
      have := Nat.le_max_right (height l) (height r)
      omega

/-! ### the merge loop keeps every tree balanced -/

structure Q (fr : List Nat) (M : Nat) (it : Item) : Prop where
  fw : it.freq = wt fr it.tree
  bal : Bal fr it.tree
  cm : childMax fr it.tree ≤ M
  ge : M ≤ it.freq
  pos : PosLeaves fr it.tree

theorem mem_index (h : Heap) (it : Item) (hm : it ∈ h.toList) : ∃ j, j < h.size ∧ h[j]! = it := by
  obtain ⟨j, hj, e⟩ := List.mem_iff_getElem.mp hm
  refine ⟨j, by simpa using hj, ?_⟩
  rw [Array.getElem!_eq_getD, Array.getD_eq_getD_getElem?, ← Array.getElem?_toList, List.getElem?_eq_getElem hj, e]
  rfl

theorem mergeLoop_bal (fr : List Nat) : ∀ fuel (h : Heap) (M : Nat), 1 ≤ h.size → h.size ≤ fuel + 1 → MinHeap h →
    (∀ it ∈ h.toList, Q fr M it) → ∃ M', ∀ it ∈ (mergeLoop h fuel).toList, Q fr M' it := by
  intro fuel
  induction fuel with
  | zero => intro h M _ _ _ hq; unfold mergeLoop; exact ⟨M, hq⟩
  | succ fuel ih =>
    intro h M h1 h2 mh hq
    unfold mergeLoop
    by_cases hgt : h.size > 1
    · rw [if_pos hgt]
      obtain ⟨a, h', hp⟩ := pop_some h (by omega)
      rw [hp]
      simp only
      obtain ⟨p1, p2⟩ := pop_spec h a h' hp
      obtain ⟨mh', hamin⟩ := pop_heap h a h' mh hp
      obtain ⟨tl, htl⟩ := getElem!_zero_toList h' (by omega)
      have hbmem' : h'[0]! ∈ h'.toList := by rw [htl]; exact List.mem_cons_self
      have hbmem : h'[0]! ∈ h.toList := p1.subset (List.mem_cons_of_mem _ hbmem')
      have hamem : a ∈ h.toList := p1.subset List.mem_cons_self
      have qa := hq a hamem
      have qb := hq _ hbmem
      have hab : a.freq ≤ h'[0]!.freq := by
        obtain ⟨j, hj, e⟩ := mem_index h _ hbmem
        have := hamin j hj
        unfold fq at this
        rw [e] at this
        exact this
      have hbmin : ∀ x ∈ h'.toList, h'[0]!.freq ≤ x.freq := by
        intro x hx
        obtain ⟨j, hj, e⟩ := mem_index h' x hx
        have := root_min h' mh' j hj
        unfold fq at this
        rw [e] at this
        exact this
      have hset := set!_zero_toList h' { freq := a.freq + h'[0]!.freq, tree := .node a.tree h'[0]!.tree } tl htl
      have hperm := replaceTop_perm h' { freq := a.freq + h'[0]!.freq, tree := .node a.tree h'[0]!.tree }
      rw [hset] at hperm
      obtain ⟨mh'', hsz⟩ := replaceTop_heap h' { freq := a.freq + h'[0]!.freq, tree := .node a.tree h'[0]!.tree } (by omega) mh'
      apply ih _ h'[0]!.freq (by rw [hsz]; omega) (by rw [hsz]; omega) mh''
      intro it hit
      rcases List.mem_cons.mp (hperm.subset hit) with rfl | hit'
      · -- the merged item
        refine { fw := ?_, bal := ?_, cm := ?_, ge := ?_, pos := ⟨qa.pos, qb.pos⟩ }
        · show a.freq + h'[0]!.freq = wt fr a.tree + wt fr h'[0]!.tree
          rw [qa.fw, qb.fw]
        · refine ⟨qa.bal, qb.bal, ?_, ?_⟩
          · rw [← qb.fw]; exact Nat.le_trans qa.cm qb.ge
          · rw [← qa.fw]; exact Nat.le_trans qb.cm qa.ge
        · show max (wt fr a.tree) (wt fr h'[0]!.tree) ≤ h'[0]!.freq
          rw [← qa.fw, ← qb.fw]
          exact Nat.max_le.mpr ⟨hab, Nat.le_refl _⟩
        · show h'[0]!.freq ≤ a.freq + h'[0]!.freq
          omega
      · -- an item that stays
        have hmem' : it ∈ h'.toList := by rw [htl]; exact List.mem_cons_of_mem _ hit'
        have qi := hq it (p1.subset (List.mem_cons_of_mem _ hmem'))
        exact { fw := qi.fw, bal := qi.bal, cm := Nat.le_trans qi.cm qb.ge, ge := hbmin it hmem', pos := qi.pos }
    · rw [if_neg hgt]
      exact ⟨M, hq⟩

/-! ### the tree of `treeLengths` -/

theorem wt_leaves (fr : List Nat) : ∀ t : Tree, wt fr t = ((leaves t).map fun i => fr.getD i 0).sum := by
  intro t
  induction t with
  | leaf i => simp [wt, leaves]
  | node l r ihl ihr => simp [wt, leaves, ihl, ihr]

theorem used_sum_le (fr : List Nat) : ∀ l : List (Nat × Nat), (∀ p ∈ l, fr.getD p.1 0 = p.2) →
    ((l.filterMap (fun (p : Nat × Nat) => if p.2 > 0 then some p.1 else none)).map fun i => fr.getD i 0).sum ≤ (l.map Prod.snd).sum := by
  intro l
  induction l with
  | nil => intro _; simp
  | cons x l ih =>
    intro h
    have hx := h x List.mem_cons_self
    have := ih (fun p hp => h p (List.mem_cons_of_mem _ hp))
    by_cases hpos : x.2 > 0
    · simp only [List.filterMap_cons, hpos, if_true, List.map_cons, List.sum_cons, hx]
      omega
    · simp only [List.filterMap_cons, hpos, if_false, List.map_cons, List.sum_cons]
      omega

theorem zip_range_get (freqs : List Nat) : ∀ p ∈ (List.range freqs.length).zip freqs, freqs.getD p.1 0 = p.2 := by
  intro p hp
  rw [zip_range] at hp
  obtain ⟨i, hi, rfl⟩ := List.mem_map.mp hp
  have hi' : i < freqs.length := List.mem_range.mp hi
  simp only
  rw [List.getD_eq_getElem?_getD, List.getElem?_eq_getElem hi']
  simp [hi']

/-- **Phases 1-2, with the balance of the tree**: the tree whose leaf depths `treeLengths` records
    weighs at most the sum of the frequencies and is at most 46 deep when that sum is below 2^32 -/
theorem treeLengths_spec2 (freqs : List Nat) (h1 : 1 ≤ (itemsOf freqs).length) :
    ∃ t : Tree, (leaves t).Perm (usedIdx freqs) ∧ treeLengths freqs = setLengths freqs.length (depths t 0) ∧
      (freqs.sum < 2 ^ 32 → ∀ p ∈ depths t 0, p.2 < 256) := by
  unfold treeLengths
  simp only
  have hitems : (itemsOf freqs).toArray.size = (itemsOf freqs).length := by simp
  have hrs : (rebuild (itemsOf freqs).toArray).size = (itemsOf freqs).length := by
    rw [← Array.length_toList, (rebuild_perm _).length_eq]
  obtain ⟨m1, m2⟩ := mergeLoop_spec (itemsOf freqs).toArray.size (rebuild (itemsOf freqs).toArray)
    (by rw [hrs]; exact h1) (by rw [hrs]; simp)
  -- every initial item is a positive leaf
  have hq0 : ∀ it ∈ (rebuild (itemsOf freqs).toArray).toList, Q freqs 0 it := by
    intro it hit
    have hit' : it ∈ itemsOf freqs := by
      have := (rebuild_perm (itemsOf freqs).toArray).subset hit
      simpa using this
    unfold itemsOf at hit'
    obtain ⟨p, hp, he⟩ := List.mem_filterMap.mp hit'
    by_cases hpos : p.2 > 0
    · rw [if_pos hpos] at he
      injection he with he
      subst he
      have hg := zip_range_get freqs p hp
      exact { fw := by show p.2 = freqs.getD p.1 0; rw [hg], bal := trivial, cm := Nat.le_refl _, ge := Nat.zero_le _,
              pos := by show 1 ≤ freqs.getD p.1 0; rw [hg]; exact hpos }
    · rw [if_neg hpos] at he; cases he
  obtain ⟨M', hq⟩ := mergeLoop_bal freqs (itemsOf freqs).toArray.size (rebuild (itemsOf freqs).toArray) 0
    (by rw [hrs]; exact h1) (by rw [hrs]; simp) (rebuild_heap _).1 hq0
  have hroot : ∃ root, (mergeLoop (rebuild (itemsOf freqs).toArray) (itemsOf freqs).toArray.size)[0]? = some root ∧
      (mergeLoop (rebuild (itemsOf freqs).toArray) (itemsOf freqs).toArray.size).toList = [root] := by
    generalize mergeLoop (rebuild (itemsOf freqs).toArray) (itemsOf freqs).toArray.size = hfin at m1
    match hq' : hfin.toList, m1 with
    | [r], _ =>
      refine ⟨r, ?_, rfl⟩
      rw [← Array.getElem?_toList, hq']; rfl
    | [], hsz => rw [← Array.length_toList, hq'] at hsz; simp at hsz
    | _ :: _ :: _, hsz => rw [← Array.length_toList, hq'] at hsz; simp at hsz
  obtain ⟨root, hr1, hr2⟩ := hroot
  have hperm : (leaves root.tree).Perm (usedIdx freqs) := by
    rw [hr2] at m2
    have e1 : heapLeaves [root] = leaves root.tree := by simp [heapLeaves]
    rw [e1] at m2
    refine m2.trans ((heapLeaves_perm (rebuild_perm _)).trans ?_)
    have : (itemsOf freqs).toArray.toList = itemsOf freqs := by simp
    rw [this]
    exact List.Perm.of_eq (items_leaves _)
  refine ⟨root.tree, hperm, ?_, ?_⟩
  · show (match (mergeLoop (rebuild (itemsOf freqs).toArray) (itemsOf freqs).toArray.size)[0]? with
      | some root => setLengths freqs.length (depths root.tree 0)
      | none => Array.replicate freqs.length 0) = _
    rw [hr1]
  · intro hsum p hp
    have qr := hq root (by rw [hr2]; exact List.mem_cons_self)
    have hw : wt freqs root.tree ≤ freqs.sum := by
      rw [wt_leaves, (hperm.map _).sum_nat]
      unfold usedIdx
      have := used_sum_le freqs _ (zip_range_get freqs)
      rw [List.map_snd_zip (by simp)] at this
      exact this
    have hh := height_bound freqs root.tree qr.bal qr.pos (by omega)
    have := depths_le_height root.tree 0 p hp
    omega

/-- **The property for every histogram whose frequencies sum to less than 2^32** - no bound on the
    number of used symbols -/
theorem build_full_all (freqs : List Nat) (limit : Nat) (h1 : 1 ≤ limit) (h15 : limit ≤ 15)
    (h2 : 2 ≤ (freqs.filter (· > 0)).length) (hsum : freqs.sum < 2 ^ 32)
    (hspace : freqs.length ≤ 2 ^ limit) :
    ∃ lengths codes, build freqs limit = .built lengths codes ∧ lengths.size = freqs.length ∧
      (∀ i, i < freqs.length → (freqs[i]! = 0 → lengths[i]! = 0) ∧ (freqs[i]! > 0 → 1 ≤ lengths[i]! ∧ lengths[i]! ≤ limit)) ∧
      Prefix.kraft lengths.toList limit = 2 ^ limit ∧
      (∀ i, i < freqs.length → lengths[i]! ≠ 0 →
        some codes[i]! = (Prefix.canonicalCode lengths.toList i).map fun c => Prefix.reverseBits c lengths[i]!) := by
  have hcnt := used_count freqs
  obtain ⟨t, hperm, hlen, hd⟩ := treeLengths_spec2 freqs (by rw [itemsOf_length, hcnt]; omega)
  have hdepth := hd hsum
  by_cases hmax : (treeLengths freqs).foldl max 0 > limit
  · exact build_limited freqs limit h1 h15 h2 t hperm hlen hdepth hspace hmax
  · exact build_unlimited freqs limit (by omega) h2 t hperm hlen hdepth (by omega)

end EncHuff
