import WebpVerif.Model.Vp8Coef

/-!
Range facts about the model of `read_coefficients`: the extra bits of a category token fit eleven
bits, every absolute token value is at most 2114, and therefore every dequantised coefficient is
bounded by 2114 times the quantiser - far inside i16 for the token arithmetic and inside i32 for
the stored product (no overflow in a checked build), for every partition, probability table and
quantiser.
-/
namespace Vp8CoefProof
open Vp8Coef Arith

/-- the number of extra bits actually read: the probabilities before the first zero -/
def extraLen : List Nat → Nat
  | [] => 0
  | t :: ts => if t = 0 then 0 else extraLen ts + 1

theorem readExtra_bound : ∀ (ts : List Nat) (d : Dec) (extra : Nat),
    (readExtra ts d extra).1 < (extra + 1) * 2 ^ extraLen ts := by
  intro ts
  induction ts with
  | nil => intro d extra; simp [readExtra, extraLen]
  | cons t ts ih =>
    intro d extra
    unfold readExtra extraLen
    by_cases h0 : t = 0
    · rw [if_pos h0, if_pos h0]; simp
    · rw [if_neg h0, if_neg h0]
      simp only
      have := ih (readBool d t).2 (extra + extra + (readBool d t).1.toNat)
      have hb : (readBool d t).1.toNat ≤ 1 := by cases (readBool d t).1 <;> simp
      rw [Nat.pow_succ]
      calc (readExtra ts (readBool d t).2 (extra + extra + (readBool d t).1.toNat)).1
          < (extra + extra + (readBool d t).1.toNat + 1) * 2 ^ extraLen ts := this
        _ ≤ (2 * (extra + 1)) * 2 ^ extraLen ts := Nat.mul_le_mul_right _ (by omega)
        _ = (extra + 1) * (2 ^ extraLen ts * 2) := by
          rw [Nat.mul_comm 2 (extra + 1), Nat.mul_assoc, Nat.mul_comm 2]

/-- category k reads at most 11 extra bits and base + 2^bits ≤ 2115 -/
theorem cat_value : ∀ k, k < 6 →
    Gen.Tables.DCT_CAT_BASE.getD k 0 + 2 ^ extraLen (Gen.Tables.PROB_DCT_CAT.getD k []) ≤ 2115 := by
  decide

/-- the absolute value a token stands for is at most 2114 (the i16 token arithmetic cannot overflow) -/
theorem abs_le (token : Nat) (d : Dec) :
    (if token ≤ 4 then (token, d) else
      (Gen.Tables.DCT_CAT_BASE.getD (token - 5) 0 + (readExtra (Gen.Tables.PROB_DCT_CAT.getD (token - 5) []) d 0).1,
       (readExtra (Gen.Tables.PROB_DCT_CAT.getD (token - 5) []) d 0).2)).1 ≤ 2114 := by
  by_cases h4 : token ≤ 4
  · rw [if_pos h4]; simp only; omega
  · rw [if_neg h4]
    simp only
    by_cases h10 : token ≤ 10
    · have h1 := readExtra_bound (Gen.Tables.PROB_DCT_CAT.getD (token - 5) []) d 0
      have h2 := cat_value (token - 5) (by omega)
      omega
    · have e1 : Gen.Tables.PROB_DCT_CAT.getD (token - 5) [] = [] := by
        rw [List.getD_eq_getElem?_getD, List.getElem?_eq_none (by
          have : Gen.Tables.PROB_DCT_CAT.length = 6 := by decide
          omega)]
        rfl
      have e2 : Gen.Tables.DCT_CAT_BASE.getD (token - 5) 0 = 0 := by
        rw [List.getD_eq_getElem?_getD, List.getElem?_eq_none (by
          have : Gen.Tables.DCT_CAT_BASE.length = 6 := by decide
          omega)]
        rfl
      rw [e1, e2]
      simp [readExtra]

/-- every entry of the block is at most 2114 quantiser steps -/
def Bounded (Q : Nat) (block : Array Int) : Prop := ∀ z : Nat, (block[z]?.getD 0).natAbs ≤ 2114 * Q

theorem mul_bound (v : Nat) (hv : v ≤ 2114) (sgn : Bool) (q : Int) (Q : Nat) (hq : q.natAbs ≤ Q) :
    ((if sgn then -(v : Int) else (v : Int)) * q).natAbs ≤ 2114 * Q := by
  rw [Int.natAbs_mul]
  have : (if sgn then -(v : Int) else (v : Int)).natAbs = v := by cases sgn <;> simp
  rw [this]
  exact Nat.mul_le_mul hv hq

theorem step_bounded (probs : Nat → Nat → List Nat) (dcq acq : Int) (Q : Nat) (hd : dcq.natAbs ≤ Q) (ha : acq.natAbs ≤ Q)
    (i : Nat) (s : St) (hb : Bounded Q s.block) :
    ∀ r, stepAt probs dcq acq i s = some r → match r with | .inl s' => Bounded Q s'.block | .inr s' => Bounded Q s'.block := by
  intro r hr
  unfold stepAt at hr
  simp only at hr
  cases ht : readTreeFrom s.d (treeNodesFrom Gen.Tables.DCT_TOKEN_TREE (probs (Gen.Tables.COEFF_BANDS.getD i 0) s.complexity)).toArray
      (if s.skip then 1 else 0) with
  | none => rw [ht] at hr; cases hr
  | some tr =>
    obtain ⟨token, d⟩ := tr
    rw [ht] at hr
    simp only at hr
    by_cases h11 : token = 11
    · rw [if_pos h11] at hr
      injection hr with hr; subst hr; exact hb
    · rw [if_neg h11] at hr
      by_cases h0 : token = 0
      · rw [if_pos h0] at hr
        injection hr with hr; subst hr; exact hb
      · rw [if_neg h0] at hr
        injection hr with hr
        subst hr
        simp only
        have habs := abs_le token d
        generalize (if token ≤ 4 then (token, d) else
          (Gen.Tables.DCT_CAT_BASE.getD (token - 5) 0 + (readExtra (Gen.Tables.PROB_DCT_CAT.getD (token - 5) []) d 0).1,
           (readExtra (Gen.Tables.PROB_DCT_CAT.getD (token - 5) []) d 0).2)) = pr at habs ⊢
        intro z
        rw [Array.getElem?_setIfInBounds]
        by_cases hz : Gen.Tables.ZIGZAG.getD i 0 = z
        · rw [if_pos hz]
          by_cases hz2 : Gen.Tables.ZIGZAG.getD i 0 < s.block.size
          · rw [if_pos hz2]
            simp only [Option.getD_some]
            by_cases hzz : Gen.Tables.ZIGZAG.getD i 0 > 0
            · rw [if_pos hzz]; exact mul_bound _ habs _ acq Q ha
            · rw [if_neg hzz]; exact mul_bound _ habs _ dcq Q hd
          · rw [if_neg hz2]; simp
        · rw [if_neg hz]; exact hb z

theorem loop_bounded (probs : Nat → Nat → List Nat) (dcq acq : Int) (Q : Nat) (hd : dcq.natAbs ≤ Q) (ha : acq.natAbs ≤ Q) :
    ∀ (n i : Nat) (s s' : St), Bounded Q s.block → loop probs dcq acq n i s = some s' → Bounded Q s'.block := by
  intro n
  induction n with
  | zero => intro i s s' hb h; unfold loop at h; injection h with h; subst h; exact hb
  | succ n ih =>
    intro i s s' hb h
    unfold loop at h
    cases hs : stepAt probs dcq acq i s with
    | none => rw [hs] at h; cases h
    | some r =>
      rw [hs] at h
      have hr := step_bounded probs dcq acq Q hd ha i s hb r hs
      cases r with
      | inl s1 => simp only at h hr; injection h with h; subst h; exact hr
      | inr s1 => simp only at h hr; exact ih _ _ _ hr h

/-- **no coefficient overflows**: whatever the partition, the probabilities and the starting
    context, every value `read_coefficients` leaves in the block is at most 2114 quantiser steps -
    with i16 quantisers below 2^15 that is below 2^27, inside i32; and the token value itself
    (base + extra bits ≤ 2114) is inside i16 -/
theorem coefficients_bounded (d : Dec) (probs : Nat → Nat → List Nat) (plane complexity : Nat) (dcq acq : Int) (Q : Nat)
    (hd : dcq.natAbs ≤ Q) (ha : acq.natAbs ≤ Q) (d' : Dec) (block : Array Int) (r : Option Bool)
    (h : readCoefficients d probs plane complexity dcq acq = some (d', block, r)) :
    ∀ z : Nat, (block[z]?.getD 0).natAbs ≤ 2114 * Q := by
  unfold readCoefficients at h
  simp only at h
  cases hl : loop probs dcq acq (16 - (if plane = 0 then 1 else 0)) (if plane = 0 then 1 else 0)
      { d := d, block := Array.replicate 16 0, complexity := complexity, skip := false, has := false } with
  | none => rw [hl] at h; cases h
  | some s =>
    rw [hl] at h
    injection h with h
    injection h with _ h; injection h with h _
    rw [← h]
    apply loop_bounded probs dcq acq Q hd ha _ _ _ s _ hl
    intro z
    simp only
    rw [Array.getElem?_replicate]
    split <;> simp

end Vp8CoefProof
