import WebpVerif.Model.Container
import WebpVerif.Lemmas.Riff

/-!
Parse-after-print for the VP8X scan loop of `read_data`: scanning any sequence of well-formed
chunks (other than ANMF) registers, for every known fourcc, the payload range of its FIRST
occurrence - whatever the order, whatever unknown chunks sit in between, with odd sizes padded.
-/
namespace ScanProof
open Container

/-- payload range of the first chunk named `k` in a chunk sequence laid out from `base` -/
def firstRange (k : List Nat) : Nat → List (List Nat × List Nat) → Option (Nat × Nat)
  | _, [] => none
  | base, c :: rest =>
    if c.1 = k then some (base + 8, base + 8 + c.2.length)
    else firstRange k (base + 8 + c.2.length + c.2.length % 2) rest

theorem le_le32 (n : Nat) (h : n < 2 ^ 32) : le (EncContainer.le32 n) = n := by
  unfold le EncContainer.le32; simp only [List.foldr]; omega

theorem drop_take_append (pre a rest : List Nat) : ((pre ++ (a ++ rest)).drop pre.length).take a.length = a := by
  rw [List.drop_append_of_le_length (Nat.le_refl _)]
  simp

theorem readExact_at (pre a rest : List Nat) :
    readExact a.length { data := pre ++ (a ++ rest), pos := pre.length } =
      .ok (a, { data := pre ++ (a ++ rest), pos := pre.length + a.length }) := by
  unfold readExact
  simp only
  rw [if_pos (by simp), drop_take_append]

/-- reading the header of a chunk that starts at the reader's position -/
theorem header_at (pre rest : List Nat) (c : List Nat × List Nat) (hok : EncContainer.ChunkOk c) :
    readChunkHeader { data := pre ++ (EncContainer.chunkBytes c.1 c.2 ++ rest), pos := pre.length } =
      .ok ((c.1, c.2.length, c.2.length + c.2.length % 2),
        { data := pre ++ (EncContainer.chunkBytes c.1 c.2 ++ rest), pos := pre.length + 8 }) := by
  obtain ⟨hn, hl⟩ := hok
  have hbytes : pre ++ (EncContainer.chunkBytes c.1 c.2 ++ rest) =
      pre ++ (c.1 ++ (EncContainer.le32 (c.2.length % 2 ^ 32) ++ (c.2 ++ ((if c.2.length % 2 = 1 then [0] else []) ++ rest)))) := by
    rw [EncContainer.chunkBytes_eq]; simp [List.append_assoc]
  unfold readChunkHeader
  rw [hbytes]
  have h1 := readExact_at pre c.1 (EncContainer.le32 (c.2.length % 2 ^ 32) ++ (c.2 ++ ((if c.2.length % 2 = 1 then [0] else []) ++ rest)))
  rw [hn] at h1
  rw [h1]
  simp only
  have h2 := readExact_at (pre ++ c.1) (EncContainer.le32 (c.2.length % 2 ^ 32)) (c.2 ++ ((if c.2.length % 2 = 1 then [0] else []) ++ rest))
  simp only [List.append_assoc, List.length_append, hn, EncContainer.le32_length] at h2
  unfold readLE
  rw [h2]
  simp only
  rw [le_le32 _ (Nat.mod_lt _ (by decide)), Nat.mod_eq_of_lt (by omega)]
  have : min (c.2.length + c.2.length % 2) (2 ^ 32 - 1) = c.2.length + c.2.length % 2 := by omega
  rw [this]

theorem chunk_len (c : List Nat × List Nat) (hok : EncContainer.ChunkOk c) :
    (EncContainer.chunkBytes c.1 c.2).length = 8 + c.2.length + c.2.length % 2 := by
  rw [EncContainer.chunkBytes_length _ _ hok.1 hok.2]; unfold EncContainer.chunkSize
  have := hok.2
  split <;> omega

/-- one iteration of the scan loop on a non-ANMF chunk -/
theorem scanStep_at (pre rest : List Nat) (c : List Nat × List Nat) (hok : EncContainer.ChunkOk c) (hna : c.1 ≠ ANMF)
    (s : Scan) (hpos : s.position = pre.length) :
    scanStep s { data := pre ++ (EncContainer.chunkBytes c.1 c.2 ++ rest), pos := pre.length } =
      .ok (some { s with position := pre.length + 8 + (c.2.length + c.2.length % 2),
                         chunks := if known.contains c.1 then s.chunks.orInsert c.1 (pre.length + 8, pre.length + 8 + c.2.length)
                                   else s.chunks },
        { data := pre ++ (EncContainer.chunkBytes c.1 c.2 ++ rest), pos := pre.length + 8 + (c.2.length + c.2.length % 2) }) := by
  unfold scanStep
  rw [header_at pre rest c hok]
  simp only
  have hne : (c.1 == ANMF) = false := by simpa using hna
  rw [hne]
  simp only [Bool.false_eq_true, if_false]
  unfold seekRel
  simp only
  rw [if_neg (by omega)]
  simp only [hpos]
  congr 3

theorem get_orInsert_new (ch : Chunks) (k : List Nat) (v : Nat × Nat) (h : ch.get? k = none) :
    (ch.orInsert k v).get? k = some v := by
  unfold Chunks.orInsert
  rw [h]
  simp only [Option.isSome_none, Bool.false_eq_true, if_false]
  unfold Chunks.get? at h ⊢
  rw [List.find?_append]
  cases hf : List.find? (fun x => x.1 == k) ch with
  | some x => rw [hf] at h; simp at h
  | none => simp

theorem get_orInsert_old (ch : Chunks) (k : List Nat) (v v' : Nat × Nat) (h : ch.get? k = some v) :
    (ch.orInsert k v').get? k = some v := by
  unfold Chunks.orInsert; rw [h]; simp [h]

theorem get_orInsert_other (ch : Chunks) (k k' : List Nat) (v' : Nat × Nat) (hne : k' ≠ k) :
    (ch.orInsert k' v').get? k = ch.get? k := by
  unfold Chunks.orInsert
  split
  · rfl
  · unfold Chunks.get?
    rw [List.find?_append]
    cases h : List.find? (fun x => x.1 == k) ch with
    | some x => simp
    | none => simp [hne]

def layout (cs : List (List Nat × List Nat)) : List Nat := cs.flatMap fun c => EncContainer.chunkBytes c.1 c.2

/-- the scan loop over a chunk sequence: first occurrences win, earlier registrations are kept -/
theorem scanLoop_spec (maxPos : Nat) : ∀ (cs : List (List Nat × List Nat)) (pre : List Nat) (s : Scan) (fuel : Nat),
    (∀ c ∈ cs, EncContainer.ChunkOk c ∧ c.1 ≠ ANMF) → pre.length + (layout cs).length < maxPos →
    cs.length + 1 ≤ fuel → s.position = pre.length →
    ∃ s' r', scanLoop maxPos fuel s { data := pre ++ layout cs, pos := pre.length } = .ok (s', r') ∧
      s'.numFrames = s.numFrames ∧ s'.isLossy = s.isLossy ∧ s'.loopDuration = s.loopDuration ∧
      ∀ k ∈ known, s'.chunks.get? k = (s.chunks.get? k).orElse (fun _ => firstRange k pre.length cs) := by
  intro cs
  induction cs with
  | nil =>
    intro pre s fuel _ hmax hfuel hpos
    obtain ⟨fuel', rfl⟩ : ∃ f, fuel = f + 1 := ⟨fuel - 1, by simp at hfuel; omega⟩
    refine ⟨s, { data := pre ++ layout [], pos := pre.length }, ?_, rfl, rfl, rfl, ?_⟩
    · unfold scanLoop
      simp only [layout, List.flatMap_nil, List.append_nil, List.length_nil, Nat.add_zero] at hmax ⊢
      rw [if_pos (by omega)]
      have : scanStep s { data := pre, pos := pre.length } = .ok (none, { data := pre, pos := pre.length }) := by
        unfold scanStep readChunkHeader readExact
        simp only
        rw [if_neg (by omega)]
      rw [this]
    · intro k _
      simp only [firstRange]
      cases s.chunks.get? k <;> rfl
  | cons c rest ih =>
    intro pre s fuel hall hmax hfuel hpos
    obtain ⟨fuel', rfl⟩ : ∃ f, fuel = f + 1 := ⟨fuel - 1, by simp at hfuel; omega⟩
    obtain ⟨hok, hna⟩ := hall c (List.mem_cons_self ..)
    have hlay : layout (c :: rest) = EncContainer.chunkBytes c.1 c.2 ++ layout rest := by simp [layout]
    have hcl := chunk_len c hok
    rw [hlay] at hmax ⊢
    unfold scanLoop
    rw [if_pos (by rw [hpos]; simp only [List.length_append] at hmax; omega)]
    rw [scanStep_at pre (layout rest) c hok hna s hpos]
    simp only
    -- the next iteration starts right after this chunk
    have hdata : pre ++ (EncContainer.chunkBytes c.1 c.2 ++ layout rest) = (pre ++ EncContainer.chunkBytes c.1 c.2) ++ layout rest := by
      rw [List.append_assoc]
    have hplen : (pre ++ EncContainer.chunkBytes c.1 c.2).length = pre.length + 8 + (c.2.length + c.2.length % 2) := by
      rw [List.length_append, hcl]; omega
    rw [hdata, ← hplen]
    obtain ⟨s', r', e1, e2, e3, e4, e5⟩ := ih (pre ++ EncContainer.chunkBytes c.1 c.2)
      { s with position := (pre ++ EncContainer.chunkBytes c.1 c.2).length,
               chunks := if known.contains c.1 then s.chunks.orInsert c.1 (pre.length + 8, pre.length + 8 + c.2.length) else s.chunks }
      fuel' (fun c' hc' => hall c' (List.mem_cons_of_mem _ hc'))
      (by simp only [List.length_append] at hmax ⊢; omega) (by simp at hfuel ⊢; omega) rfl
    refine ⟨s', r', e1, e2, e3, e4, ?_⟩
    intro k hk
    rw [e5 k hk]
    simp only [firstRange]
    by_cases hck : c.1 = k
    · have hcont : known.contains c.1 = true := by rw [hck]; simpa using hk
      rw [hcont]
      simp only [if_true, hck]
      cases hg : s.chunks.get? k with
      | none => rw [get_orInsert_new _ _ _ hg]; rfl
      | some v => rw [get_orInsert_old _ _ _ _ hg]; rfl
    · have hother : (if known.contains c.1 then s.chunks.orInsert c.1 (pre.length + 8, pre.length + 8 + c.2.length) else s.chunks).get? k
          = s.chunks.get? k := by
        split
        · exact get_orInsert_other _ _ _ _ hck
        · rfl
      rw [hother, if_neg hck, hplen]
      have : pre.length + 8 + (c.2.length + c.2.length % 2) = pre.length + 8 + c.2.length + c.2.length % 2 := by omega
      rw [this]

/-! ### the bytes of a registered range are the chunk's payload -/

theorem firstRange_payload (k : List Nat) : ∀ (cs : List (List Nat × List Nat)) (pre : List Nat) (a b : Nat),
    (∀ c ∈ cs, EncContainer.ChunkOk c) → firstRange k pre.length cs = some (a, b) →
    ∃ c ∈ cs, c.1 = k ∧ b - a = c.2.length ∧ a + (b - a) ≤ (pre ++ layout cs).length ∧
      ((pre ++ layout cs).drop a).take (b - a) = c.2 := by
  intro cs
  induction cs with
  | nil => intro pre a b _ h; simp [firstRange] at h
  | cons c rest ih =>
    intro pre a b hall h
    have hok := hall c (List.mem_cons_self ..)
    have hlay : layout (c :: rest) = EncContainer.chunkBytes c.1 c.2 ++ layout rest := by simp [layout]
    have hcl := chunk_len c hok
    simp only [firstRange] at h
    by_cases hck : c.1 = k
    · rw [if_pos hck] at h
      obtain ⟨rfl, rfl⟩ := Prod.mk.inj (Option.some.inj h)
      refine ⟨c, List.mem_cons_self .., hck, by omega, ?_, ?_⟩
      · rw [hlay]; simp only [List.length_append, hcl]; omega
      · rw [hlay, EncContainer.chunkBytes_eq]
        have e : pre ++ ((c.1 ++ EncContainer.le32 (c.2.length % 2 ^ 32) ++ c.2 ++ (if c.2.length % 2 = 1 then [0] else [])) ++ layout rest)
            = (pre ++ c.1 ++ EncContainer.le32 (c.2.length % 2 ^ 32)) ++ (c.2 ++ ((if c.2.length % 2 = 1 then [0] else []) ++ layout rest)) := by
          simp [List.append_assoc]
        rw [e]
        have hl : (pre ++ c.1 ++ EncContainer.le32 (c.2.length % 2 ^ 32)).length = pre.length + 8 := by
          simp [hok.1, EncContainer.le32_length]
        rw [← hl, show (pre ++ c.1 ++ EncContainer.le32 (c.2.length % 2 ^ 32)).length + c.2.length
              - (pre ++ c.1 ++ EncContainer.le32 (c.2.length % 2 ^ 32)).length = c.2.length by omega]
        exact drop_take_append _ _ _
    · rw [if_neg hck] at h
      have hplen : (pre ++ EncContainer.chunkBytes c.1 c.2).length = pre.length + 8 + c.2.length + c.2.length % 2 := by
        rw [List.length_append, hcl]; omega
      rw [← hplen] at h
      obtain ⟨c', hc', e1, e2, e3, e4⟩ := ih (pre ++ EncContainer.chunkBytes c.1 c.2) a b
        (fun c' hc' => hall c' (List.mem_cons_of_mem _ hc')) h
      refine ⟨c', List.mem_cons_of_mem _ hc', e1, e2, ?_, ?_⟩
      · rw [hlay, ← List.append_assoc]; exact e3
      · rw [hlay, ← List.append_assoc]; exact e4

end ScanProof
