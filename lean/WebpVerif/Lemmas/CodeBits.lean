import WebpVerif.Lemmas.EncHuffCodes
import WebpVerif.Lemmas.PrefixFree

/-!
The code word the encoder writes (the canonical code word bit-reversed, emitted LSB first) is,
read in stream order, the canonical code word MSB first - the order `Prefix.decodeSym` consumes.
-/
namespace Prefix
open EncHuff

/-- the low `n` bits of `v` in stream order (LSB first) -/
def lsbBits (v n : Nat) : List Nat := (List.range n).map fun k => v / 2 ^ k % 2

theorem lsbBits_succ (v n : Nat) : lsbBits v (n + 1) = lsbBits (v % 2 ^ n) n ++ [v / 2 ^ n % 2] := by
  unfold lsbBits
  rw [List.range_succ, List.map_append, List.map_singleton]
  congr 1
  apply List.map_congr_left
  intro k hk
  have hk' : k < n := List.mem_range.mp hk
  obtain ⟨j, rfl⟩ : ∃ j, n = k + (j + 1) := ⟨n - k - 1, by omega⟩
  rw [Nat.pow_add, Nat.mod_mul_right_div_self, Nat.pow_succ, Nat.mod_mul_left_mod]

theorem msbBits_snoc (c n : Nat) : msbBits c (n + 1) = msbBits (c / 2) n ++ [c % 2] := by
  unfold msbBits
  rw [List.range_succ, List.map_append, List.map_singleton]
  have e0 : n + 1 - 1 - n = 0 := by omega
  rw [e0, Nat.pow_zero, Nat.div_one]
  congr 1
  apply List.map_congr_left
  intro k hk
  have hk' : k < n := List.mem_range.mp hk
  have e : n + 1 - 1 - k = (n - 1 - k) + 1 := by omega
  rw [e, Nat.pow_succ, Nat.mul_comm, ← Nat.div_div_eq_div_mul]

theorem bitSum_rec (c n : Nat) : bitSum c (n + 1) (n + 1) = (c % 2) * 2 ^ n + bitSum (c / 2) n n := by
  unfold bitSum
  rw [List.range_succ_eq_map, List.map_cons, List.sum_cons, List.map_map]
  have e0 : n + 1 - 1 - 0 = n := by omega
  rw [e0, Nat.pow_zero, Nat.div_one]
  congr 2
  apply List.map_congr_left
  intro k _
  simp only [Function.comp]
  have e : n + 1 - 1 - (k + 1) = n - 1 - k := by omega
  rw [e, Nat.pow_succ, Nat.mul_comm (2 ^ k) 2, ← Nat.div_div_eq_div_mul]

theorem bitSum_lt : ∀ (n c : Nat), bitSum c n n < 2 ^ n := by
  intro n
  induction n with
  | zero => intro c; simp [bitSum]
  | succ n ih =>
    intro c
    rw [bitSum_rec, Nat.pow_succ]
    have := ih (c / 2)
    have h2 : c % 2 < 2 := Nat.mod_lt _ (by decide)
    have : c % 2 * 2 ^ n ≤ 1 * 2 ^ n := Nat.mul_le_mul_right _ (by omega)
    omega

/-- **stream order**: the `len` bits of the bit-reversed code word, LSB first, are the bits of
    the code word, MSB first -/
theorem lsb_reverse_eq_msb : ∀ (len c : Nat), lsbBits (reverseBits c len) len = msbBits c len := by
  intro len
  induction len with
  | zero => intro c; rfl
  | succ n ih =>
    intro c
    rw [reverseBits_eq, lsbBits_succ, msbBits_snoc, bitSum_rec]
    have hlt := bitSum_lt n (c / 2)
    have h2 : c % 2 < 2 := Nat.mod_lt _ (by decide)
    have e1 : (c % 2 * 2 ^ n + bitSum (c / 2) n n) % 2 ^ n = bitSum (c / 2) n n := by
      rw [Nat.mul_comm, Nat.mul_add_mod, Nat.mod_eq_of_lt hlt]
    have e2 : (c % 2 * 2 ^ n + bitSum (c / 2) n n) / 2 ^ n % 2 = c % 2 := by
      rw [Nat.mul_comm, Nat.mul_add_div (Nat.two_pow_pos n), Nat.div_eq_of_lt hlt, Nat.add_zero, Nat.mod_mod]
    rw [e1, e2, ← reverseBits_eq, ih]

end Prefix
