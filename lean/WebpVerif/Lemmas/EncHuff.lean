import WebpVerif.Model.EncHuff
import WebpVerif.Spec.Prefix
import Mathlib.Tactic.Ring
import Mathlib.Tactic.Linarith

namespace EncHuff

/-- scaled Kraft sum of a list of `(symbol, depth)` pairs -/
def kraftOf (ds : List (Nat × Nat)) (L : Nat) : Nat := (ds.map fun p => 2 ^ (L - p.2)).sum

theorem kraftOf_append (a b : List (Nat × Nat)) (L : Nat) : kraftOf (a ++ b) L = kraftOf a L + kraftOf b L := by
  unfold kraftOf; simp

/-- **Any binary tree is Kraft-complete**: the leaves under a node at depth `d` fill exactly the
    code space `2^(L − d)` of that node, for every `L` at least the maximal leaf depth.
    Independent of how the tree was built (so it survives any tie-breaking of the heap). -/
theorem depths_kraft (t : Tree) (d L : Nat) (h : ∀ p ∈ depths t d, p.2 ≤ L) :
    kraftOf (depths t d) L = 2 ^ (L - d) := by
  induction t generalizing d with
  | leaf s => simp [depths, kraftOf]
  | node l r ihl ihr =>
    unfold depths at h ⊢
    rw [kraftOf_append, ihl (d + 1) (fun p hp => h p (List.mem_append_left _ hp)),
      ihr (d + 1) (fun p hp => h p (List.mem_append_right _ hp))]
    -- some leaf lies below depth d+1, hence d+1 ≤ L
    have hne : ∃ p, p ∈ depths l (d + 1) := by
      cases l with
      | leaf s => exact ⟨(s, d + 1), by simp [depths]⟩
      | node a b =>
        have : ∀ (t : Tree) (k : Nat), ∃ p, p ∈ depths t k := by
          intro t
          induction t with
          | leaf s => intro k; exact ⟨(s, k), by simp [depths]⟩
          | node a b iha _ => intro k; obtain ⟨p, hp⟩ := iha (k + 1); exact ⟨p, by simp [depths, hp]⟩
        exact this _ _
    have hge : ∀ (t : Tree) (k : Nat), ∀ p ∈ depths t k, k ≤ p.2 := by
      intro t
      induction t with
      | leaf s => intro k p hp; simp [depths] at hp; subst hp; exact Nat.le_refl _
      | node a b iha ihb =>
        intro k p hp
        simp only [depths, List.mem_append] at hp
        rcases hp with hp | hp
        · have := iha (k + 1) p hp; omega
        · have := ihb (k + 1) p hp; omega
    obtain ⟨p, hp⟩ := hne
    have h1 := hge l (d + 1) p hp
    have h2 := h p (List.mem_append_left _ hp)
    have : L - d = (L - (d + 1)) + 1 := by omega
    rw [this, Nat.pow_succ]; omega

/-- every leaf of a non-trivial tree lies at depth ≥ 1 below the root -/
theorem depths_pos (l r : Tree) : ∀ p ∈ depths (.node l r) 0, 1 ≤ p.2 := by
  have hge : ∀ (t : Tree) (k : Nat), ∀ p ∈ depths t k, k ≤ p.2 := by
    intro t
    induction t with
    | leaf s => intro k p hp; simp [depths] at hp; subst hp; exact Nat.le_refl _
    | node a b iha ihb =>
      intro k p hp
      simp only [depths, List.mem_append] at hp
      rcases hp with hp | hp
      · have := iha (k + 1) p hp; omega
      · have := ihb (k + 1) p hp; omega
  intro p hp
  simp only [depths, List.mem_append] at hp
  rcases hp with hp | hp
  · exact hge l 1 p hp
  · exact hge r 1 p hp

/-- `total` as a function of the level counts: one move of the limiting loop (take a leaf from
    level `i < limit` and one from level `limit`, put two at level `i + 1`) lowers the scaled
    Kraft sum by exactly one -/
theorem move_lowers_by_one (limit i : Nat) (hi : i + 1 ≤ limit) :
    2 ^ (limit - i) + 2 ^ (limit - limit) = 2 * 2 ^ (limit - (i + 1)) + 1 := by
  have : limit - i = (limit - (i + 1)) + 1 := by omega
  rw [this, Nat.pow_succ, Nat.sub_self]; omega

end EncHuff
