import WebpVerif.Lemmas.HuffBuild

/-!
`HuffmanTree` against the specification, assembled: whenever `build_implicit` (model) accepts a
length vector, the vector is a valid code of the specification and `read_symbol` (model) returns
exactly what the specification's canonical symbol decoder returns.
-/
namespace Huff
open Prefix

theorem blCount_zero_above (ls : List Nat) (L k : Nat) (hall : ∀ l ∈ ls, l ≤ L) (hk : L < k) : blCount ls k = 0 := by
  unfold blCount
  rw [List.length_eq_zero_iff, List.filter_eq_nil_iff]
  intro l hl
  have := hall l hl
  simp; omega

theorem blockEnd_extend (ls : List Nat) (L : Nat) (hall : ∀ l ∈ ls, l ≤ L) (hend : blockEnd ls L = 2 ^ L) :
    ∀ d, blockEnd ls (L + d) = 2 ^ (L + d) := by
  intro d
  induction d with
  | zero => exact hend
  | succ d ih =>
    have e : blockEnd ls (L + (d + 1)) = nextCode ls (L + d + 1) + (if L + d + 1 = 0 then 0 else blCount ls (L + d + 1)) := rfl
    rw [e, if_neg (by omega), blCount_zero_above ls L _ hall (by omega), nextCode_succ, ih, Nat.add_zero, ← Nat.add_assoc, Nat.pow_succ]

/-- the scaled Kraft sum at 15 of a code that is complete at its longest length -/
theorem kraft15_of_complete (ls : List Nat) (L : Nat) (hL : L ≤ 15) (hall : ∀ l ∈ ls, l ≤ L) (hend : blockEnd ls L = 2 ^ L) :
    kraft ls 15 = 2 ^ 15 := by
  have h15 := blockEnd_extend ls L hall hend (15 - L)
  rw [show L + (15 - L) = 15 by omega] at h15
  have hall15 : ∀ l ∈ ls.toArray.toList, l ≤ 15 := fun l hl => by have := hall l (by simpa using hl); omega
  have h2 : nextCode ls 16 = 2 * kraft ls 15 := by
    have := EncHuff.nc_kraft ls.toArray 15
    rw [EncHuff.nc_nextCode, EncHuff.kraftUpTo_kk, ← EncHuff.kraft_kk _ _ hall15] at this
    simpa using this
  have h1 : nextCode ls 16 = blockEnd ls 15 * 2 := rfl
  omega

/-- **HuffmanTree = specification** (model level), two or more used symbols.  For every length
    vector (lengths ≤ 15, at most 5000 symbols) that `build_implicit` accepts with a table: it is
    a valid code of the specification, and on every string of at least 15 bits `read_symbol`
    returns the symbol, and leaves the rest, that the specification's decoder returns. -/
theorem build_ok_spec (ls : List Nat) (hall : ∀ l ∈ ls, l ≤ 15) (hn : ls.length ≤ 5000) (t : HT) (ht : build ls = .ok t) :
    validLengths ls = true ∧
    ∀ bits : List Nat, (∀ b ∈ bits, b < 2) → 15 ≤ bits.length → readSym (build ls) bits = decodeSymbol ls bits := by
  obtain ⟨hgood, hnum, L, hL1, hL15, hmax, hend⟩ := build_good ls hall hn t ht
  have hkraft := kraft15_of_complete ls L hL15 hmax hend
  constructor
  · unfold validLengths
    have h1 : ls.all (· ≤ 15) = true := by rw [List.all_eq_true]; intro l hl; simpa using hall l hl
    have h2 : ((ls.filter (· ≠ 0)).length == 1) = false := by
      rw [beq_eq_false_iff_ne]; omega
    rw [h1, h2, hkraft]
    have h3 : decide ((ls.filter (· ≠ 0)).length ≥ 2) = true := decide_eq_true hnum
    rw [h3]
    rfl
  · intro bits hb hlen
    rw [ht]
    unfold decodeSymbol
    rw [if_neg (by omega)]
    exact readSym_good t ls hgood hall L hL1 hL15 hend bits hb (by omega)

/-- ... and exactly one used symbol: no bits are read -/
theorem build_single_spec (ls : List Nat) (hall : ∀ l ∈ ls, l ≤ 15) (s : Nat) (hs : build ls = .single s) :
    validLengths ls = true ∧ ∀ bits : List Nat, readSym (build ls) bits = decodeSymbol ls bits := by
  have hnum : (ls.filter (· ≠ 0)).length = 1 ∧ s = ls.findIdx (· ≠ 0) := by
    unfold build at hs
    simp only at hs
    by_cases h0 : (ls.filter (· ≠ 0)).length = 0
    · rw [if_pos h0] at hs; cases hs
    · rw [if_neg h0] at hs
      by_cases h1 : (ls.filter (· ≠ 0)).length = 1
      · rw [if_pos h1] at hs
        injection hs with hs
        exact ⟨h1, hs.symm⟩
      · rw [if_neg h1] at hs
        split at hs
        · cases hs
        · split at hs <;> cases hs
  constructor
  · unfold validLengths
    have h1 : ls.all (· ≤ 15) = true := by rw [List.all_eq_true]; intro l hl; simpa using hall l hl
    rw [h1, hnum.1]
    rfl
  · intro bits
    rw [hs]
    unfold decodeSymbol readSym
    rw [if_pos hnum.1, hnum.2]

end Huff
