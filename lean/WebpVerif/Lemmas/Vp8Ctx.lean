import WebpVerif.Model.Vp8Ctx

/-!
The context bookkeeping of VP8 coefficient decoding (`Vp8Ctx.run`: the `top` / `left` flag arrays
updated block by block, reset per row, zeroed for skipped macroblocks) passes to every
`read_coefficients` call exactly the context RFC 6386 section 13.3 defines geometrically.
Part 1: the block loops inside one macroblock.
-/
namespace Vp8Ctx

theorem upd_same (f : Flags) (k : Nat) (v : Bool) : upd f k v k = v := by unfold upd; rw [if_pos rfl]
theorem upd_other (f : Flags) (k i : Nat) (v : Bool) (h : i ≠ k) : upd f k v i = f i := by unfold upd; rw [if_neg h]

/-- the `x` loop of one block row -/
theorem rowLoop_spec (mbx mby kind base y : Nat) (nz : Nat → Bool) (G : Call → Prop) (T : Nat → Bool) :
    ∀ (k x : Nat) (t : Flags) (l : Bool) (out : List Call),
      (∀ c ∈ out, G c) →
      (∀ x', x ≤ x' → x' < x + k → t (base + x') = T x') →
      (∀ x', x ≤ x' → x' < x + k → G ⟨mbx, mby, kind, x', y, b2n (T x') + b2n (if x' = x then l else nz (x' - 1))⟩) →
      (∀ c ∈ (rowLoop mbx mby kind base y nz k x t l out).2.2, G c) ∧
      (rowLoop mbx mby kind base y nz k x t l out).2.1 = (if k = 0 then l else nz (x + k - 1)) ∧
      (∀ i, (rowLoop mbx mby kind base y nz k x t l out).1 i =
        if base + x ≤ i ∧ i < base + x + k then nz (i - base) else t i) := by
  intro k
  induction k with
  | zero =>
    intro x t l out ho _ _
    refine ⟨ho, rfl, fun i => ?_⟩
    rw [if_neg (by omega)]; rfl
  | succ k ih =>
    intro x t l out ho ht hg
    rw [rowLoop]
    have hcall := hg x (Nat.le_refl _) (by omega)
    rw [if_pos rfl, ← ht x (Nat.le_refl _) (by omega)] at hcall
    obtain ⟨i1, i2, i3⟩ := ih (x + 1) (upd t (base + x) (nz x)) (nz x)
      (⟨mbx, mby, kind, x, y, b2n (t (base + x)) + b2n l⟩ :: out)
      (fun c hc => by
        rcases List.mem_cons.mp hc with rfl | hc
        · exact hcall
        · exact ho c hc)
      (fun x' h1 h2 => by rw [upd_other _ _ _ _ (by omega)]; exact ht x' (by omega) (by omega))
      (fun x' h1 h2 => by
        have := hg x' (by omega) (by omega)
        rw [if_neg (by omega)] at this
        by_cases hx : x' = x + 1
        · rw [if_pos hx]; rw [hx] at this ⊢; simpa using this
        · rw [if_neg hx]; exact this)
    refine ⟨i1, ?_, fun i => ?_⟩
    · rw [i2]
      by_cases hk : k = 0
      · rw [if_pos hk, if_neg (by omega), hk]; simp
      · rw [if_neg hk, if_neg (by omega)]; congr 1; omega
    · rw [i3 i]
      by_cases hc : base + (x + 1) ≤ i ∧ i < base + (x + 1) + k
      · rw [if_pos hc, if_pos ⟨by omega, by omega⟩]
      · rw [if_neg hc]
        by_cases hi : i = base + x
        · rw [hi, upd_same, if_pos ⟨by omega, by omega⟩]; congr 1; omega
        · rw [upd_other _ _ _ _ hi, if_neg (by omega)]

/-- the block grid of one plane inside a macroblock -/
theorem gridLoop_spec (mbx mby kind base n : Nat) (hn : 1 ≤ n) (nz : Nat → Nat → Bool) (G : Call → Prop)
    (T0 L0 : Nat → Bool)
    (hG : ∀ x y, x < n → y < n → G ⟨mbx, mby, kind, x, y,
      b2n (if y = 0 then T0 x else nz x (y - 1)) + b2n (if x = 0 then L0 y else nz (x - 1) y)⟩) :
    ∀ (k y : Nat) (t lf : Flags) (out : List Call), y + k = n →
      (∀ c ∈ out, G c) →
      (∀ x, x < n → t (base + x) = if y = 0 then T0 x else nz x (y - 1)) →
      (∀ y', y ≤ y' → y' < n → lf (base + y') = L0 y') →
      (∀ c ∈ (gridLoop mbx mby kind base n nz k y t lf out).2.2, G c) ∧
      (∀ i, (gridLoop mbx mby kind base n nz k y t lf out).1 i =
        if base ≤ i ∧ i < base + n then (if n = y then t i else nz (i - base) (n - 1)) else t i) ∧
      (∀ i, (gridLoop mbx mby kind base n nz k y t lf out).2.1 i =
        if base + y ≤ i ∧ i < base + n then nz (n - 1) (i - base) else lf i) := by
  intro k
  induction k with
  | zero =>
    intro y t lf out hy ho _ _
    have : n = y := by omega
    refine ⟨ho, fun i => ?_, fun i => ?_⟩
    · rw [if_pos this]; simp [gridLoop]
    · rw [if_neg (by omega)]; rfl
  | succ k ih =>
    intro y t lf out hy ho ht hl
    rw [gridLoop]
    obtain ⟨r1, r2, r3⟩ := rowLoop_spec mbx mby kind base y (fun x => nz x y) G (fun x => if y = 0 then T0 x else nz x (y - 1))
      n 0 t (lf (base + y)) out ho (fun x' _ h2 => ht x' (by omega))
      (fun x' _ h2 => by
        have := hG x' y (by omega) (by omega)
        rw [hl y (Nat.le_refl _) (by omega)]
        exact this)
    generalize rowLoop mbx mby kind base y (fun x => nz x y) n 0 t (lf (base + y)) out = rr at r1 r2 r3
    obtain ⟨t', l', out'⟩ := rr
    simp only at r1 r2 r3 ⊢
    rw [if_neg (by omega)] at r2
    obtain ⟨i1, i2, i3⟩ := ih (y + 1) t' (upd lf (base + y) l') out' (by omega) r1
      (fun x hx => by
        rw [r3 (base + x), if_pos ⟨by omega, by omega⟩, if_neg (by omega)]
        simp)
      (fun y' h1 h2 => by rw [upd_other _ _ _ _ (by omega)]; exact hl y' (by omega) h2)
    refine ⟨i1, fun i => ?_, fun i => ?_⟩
    · rw [i2 i]
      have hny : n ≠ y := by omega
      by_cases hb : base ≤ i ∧ i < base + n
      · rw [if_pos hb, if_pos hb, if_neg hny]
        by_cases hny1 : n = y + 1
        · rw [if_pos hny1, r3 i, if_pos ⟨by omega, by omega⟩]
          congr 1; omega
        · rw [if_neg hny1]
      · rw [if_neg hb, if_neg hb, r3 i, if_neg (by omega)]
    · rw [i3 i]
      by_cases hb : base + (y + 1) ≤ i ∧ i < base + n
      · rw [if_pos hb, if_pos ⟨by omega, hb.2⟩]
      · rw [if_neg hb]
        by_cases hi : i = base + y
        · rw [hi, upd_same, if_pos ⟨by omega, by omega⟩, r2]
          congr 1 <;> omega
        · rw [upd_other _ _ _ _ hi, if_neg (by omega)]

/-! ### Part 2: macroblocks, rows, the frame -/

/-- macroblock rows completed in column `c` when the decoder stands before macroblock (mbx, mby) -/
def doneRows (mbx mby c : Nat) : Nat := if c < mbx then mby + 1 else mby

structure FInv (f : Frame) (mbx mby : Nat) (s : St) : Prop where
  t0 : ∀ c, c < f.W → s.top c 0 = lastAbove f c (doneRows mbx mby c)
  tY : ∀ c x, c < f.W → x < 4 → s.top c (1 + x) =
    if doneRows mbx mby c = 0 then false else nzY f (4 * c + x) (4 * doneRows mbx mby c - 1)
  tU : ∀ c x, c < f.W → x < 2 → s.top c (5 + x) =
    if doneRows mbx mby c = 0 then false else nzU f (2 * c + x) (2 * doneRows mbx mby c - 1)
  tV : ∀ c x, c < f.W → x < 2 → s.top c (7 + x) =
    if doneRows mbx mby c = 0 then false else nzV f (2 * c + x) (2 * doneRows mbx mby c - 1)
  l0 : s.left 0 = lastLeft f mby mbx
  lY : ∀ y, y < 4 → s.left (1 + y) = if mbx = 0 then false else nzY f (4 * mbx - 1) (4 * mby + y)
  lU : ∀ y, y < 2 → s.left (5 + y) = if mbx = 0 then false else nzU f (2 * mbx - 1) (2 * mby + y)
  lV : ∀ y, y < 2 → s.left (7 + y) = if mbx = 0 then false else nzV f (2 * mbx - 1) (2 * mby + y)
  out : ∀ c ∈ s.out, c.ctx = specCtx f c

theorem b2n_false : b2n false = 0 := rfl

theorem nb_eq (nz : Nat → Nat → Bool) (bx by' : Nat) (T L : Bool)
    (hT : T = if by' = 0 then false else nz bx (by' - 1)) (hL : L = if bx = 0 then false else nz (bx - 1) by') :
    nb nz bx by' = b2n T + b2n L := by
  unfold nb
  rw [hT, hL]
  by_cases h1 : bx = 0 <;> by_cases h2 : by' = 0 <;> simp [h1, h2, b2n_false] <;> omega

theorem mbStep_inv (f : Frame) (mbx mby : Nat) (hx : mbx < f.W) (s : St) (inv : FInv f mbx mby s) :
    FInv f (mbx + 1) mby (mbStep f mbx mby s) := by
  have hdr : ∀ c, c ≠ mbx → doneRows (mbx + 1) mby c = doneRows mbx mby c := by
    intro c hc; unfold doneRows
    by_cases h : c < mbx
    · rw [if_pos h, if_pos (by omega)]
    · rw [if_neg h, if_neg (by omega)]
  have hdm : doneRows (mbx + 1) mby mbx = mby + 1 := by unfold doneRows; rw [if_pos (by omega)]
  have hd0 : doneRows mbx mby mbx = mby := by unfold doneRows; rw [if_neg (by omega)]
  have inMB4 : ∀ x y, x < 4 → y < 4 → (4 * mbx + x) / 4 = mbx ∧ (4 * mby + y) / 4 = mby := fun x y h1 h2 => ⟨by omega, by omega⟩
  have inMB2 : ∀ x y, x < 2 → y < 2 → (2 * mbx + x) / 2 = mbx ∧ (2 * mby + y) / 2 = mby := fun x y h1 h2 => ⟨by omega, by omega⟩
  unfold mbStep
  simp only
  by_cases hsk : f.skipped mbx mby = true
  · -- a macroblock without coefficients
    rw [if_pos hsk]
    have hy2 : y2val f mbx mby = false := by unfold y2val; rw [if_pos hsk]
    have hzY : ∀ x y, x < 4 → y < 4 → nzY f (4 * mbx + x) (4 * mby + y) = false := by
      intro x y h1 h2; unfold nzY; rw [(inMB4 x y h1 h2).1, (inMB4 x y h1 h2).2, if_pos hsk]
    have hzU : ∀ x y, x < 2 → y < 2 → nzU f (2 * mbx + x) (2 * mby + y) = false := by
      intro x y h1 h2; unfold nzU; rw [(inMB2 x y h1 h2).1, (inMB2 x y h1 h2).2, if_pos hsk]
    have hzV : ∀ x y, x < 2 → y < 2 → nzV f (2 * mbx + x) (2 * mby + y) = false := by
      intro x y h1 h2; unfold nzV; rw [(inMB2 x y h1 h2).1, (inMB2 x y h1 h2).2, if_pos hsk]
    by_cases hh : f.hasY2 mbx mby = true
    · simp only [hh, if_true]
      refine { t0 := ?_, tY := ?_, tU := ?_, tV := ?_, l0 := ?_, lY := ?_, lU := ?_, lV := ?_, out := inv.out }
      · intro c hc
        by_cases hcm : c = mbx
        · subst hcm
          simp only [if_true]
          rw [if_neg (by omega), upd_same, hdm, lastAbove, if_pos hh, hy2]
        · simp only [hcm, if_false]; rw [hdr c hcm]; exact inv.t0 c hc
      · intro c x hc hx4
        by_cases hcm : c = mbx
        · subst hcm
          simp only [if_true]
          rw [if_pos (by omega), hdm, if_neg (by omega), show 4 * (mby + 1) - 1 = 4 * mby + 3 by omega, hzY x 3 hx4 (by omega)]
        · simp only [hcm, if_false]; rw [hdr c hcm]; exact inv.tY c x hc hx4
      · intro c x hc hx2
        by_cases hcm : c = mbx
        · subst hcm
          simp only [if_true]
          rw [if_pos (by omega), hdm, if_neg (by omega), show 2 * (mby + 1) - 1 = 2 * mby + 1 by omega, hzU x 1 hx2 (by omega)]
        · simp only [hcm, if_false]; rw [hdr c hcm]; exact inv.tU c x hc hx2
      · intro c x hc hx2
        by_cases hcm : c = mbx
        · subst hcm
          simp only [if_true]
          rw [if_pos (by omega), hdm, if_neg (by omega), show 2 * (mby + 1) - 1 = 2 * mby + 1 by omega, hzV x 1 hx2 (by omega)]
        · simp only [hcm, if_false]; rw [hdr c hcm]; exact inv.tV c x hc hx2
      · simp only
        rw [if_neg (by omega), upd_same, lastLeft, if_pos hh, hy2]
      · intro y hy4
        simp only
        rw [if_pos (by omega), if_neg (by omega), show 4 * (mbx + 1) - 1 = 4 * mbx + 3 by omega, hzY 3 y (by omega) hy4]
      · intro y hy2'
        simp only
        rw [if_pos (by omega), if_neg (by omega), show 2 * (mbx + 1) - 1 = 2 * mbx + 1 by omega, hzU 1 y (by omega) hy2']
      · intro y hy2'
        simp only
        rw [if_pos (by omega), if_neg (by omega), show 2 * (mbx + 1) - 1 = 2 * mbx + 1 by omega, hzV 1 y (by omega) hy2']
    · simp only [hh, Bool.false_eq_true, if_false]
      refine { t0 := ?_, tY := ?_, tU := ?_, tV := ?_, l0 := ?_, lY := ?_, lU := ?_, lV := ?_, out := inv.out }
      · intro c hc
        by_cases hcm : c = mbx
        · subst hcm
          simp only [if_true]
          rw [if_neg (by omega), hdm, lastAbove, if_neg hh, inv.t0 c hc, hd0]
        · simp only [hcm, if_false]; rw [hdr c hcm]; exact inv.t0 c hc
      · intro c x hc hx4
        by_cases hcm : c = mbx
        · subst hcm
          simp only [if_true]
          rw [if_pos (by omega), hdm, if_neg (by omega), show 4 * (mby + 1) - 1 = 4 * mby + 3 by omega, hzY x 3 hx4 (by omega)]
        · simp only [hcm, if_false]; rw [hdr c hcm]; exact inv.tY c x hc hx4
      · intro c x hc hx2
        by_cases hcm : c = mbx
        · subst hcm
          simp only [if_true]
          rw [if_pos (by omega), hdm, if_neg (by omega), show 2 * (mby + 1) - 1 = 2 * mby + 1 by omega, hzU x 1 hx2 (by omega)]
        · simp only [hcm, if_false]; rw [hdr c hcm]; exact inv.tU c x hc hx2
      · intro c x hc hx2
        by_cases hcm : c = mbx
        · subst hcm
          simp only [if_true]
          rw [if_pos (by omega), hdm, if_neg (by omega), show 2 * (mby + 1) - 1 = 2 * mby + 1 by omega, hzV x 1 hx2 (by omega)]
        · simp only [hcm, if_false]; rw [hdr c hcm]; exact inv.tV c x hc hx2
      · simp only
        rw [if_neg (by omega), lastLeft, if_neg hh, inv.l0]
      · intro y hy4
        simp only
        rw [if_pos (by omega), if_neg (by omega), show 4 * (mbx + 1) - 1 = 4 * mbx + 3 by omega, hzY 3 y (by omega) hy4]
      · intro y hy2'
        simp only
        rw [if_pos (by omega), if_neg (by omega), show 2 * (mbx + 1) - 1 = 2 * mbx + 1 by omega, hzU 1 y (by omega) hy2']
      · intro y hy2'
        simp only
        rw [if_pos (by omega), if_neg (by omega), show 2 * (mbx + 1) - 1 = 2 * mbx + 1 by omega, hzV 1 y (by omega) hy2']
  · -- a macroblock with coefficients
    rw [if_neg hsk]
    have hnsk : f.skipped mbx mby = false := by simpa using hsk
    have eY : ∀ x y, x < 4 → y < 4 → nzY f (4 * mbx + x) (4 * mby + y) = f.nY (4 * mbx + x) (4 * mby + y) := by
      intro x y h1 h2; unfold nzY; rw [(inMB4 x y h1 h2).1, (inMB4 x y h1 h2).2, hnsk]; rfl
    have eU : ∀ x y, x < 2 → y < 2 → nzU f (2 * mbx + x) (2 * mby + y) = f.nU (2 * mbx + x) (2 * mby + y) := by
      intro x y h1 h2; unfold nzU; rw [(inMB2 x y h1 h2).1, (inMB2 x y h1 h2).2, hnsk]; rfl
    have eV : ∀ x y, x < 2 → y < 2 → nzV f (2 * mbx + x) (2 * mby + y) = f.nV (2 * mbx + x) (2 * mby + y) := by
      intro x y h1 h2; unfold nzV; rw [(inMB2 x y h1 h2).1, (inMB2 x y h1 h2).2, hnsk]; rfl
    have hy2 : y2val f mbx mby = f.nY2 mbx mby := by unfold y2val; rw [hnsk]; rfl
    -- stage 0: the Y2 block
    have st0 : ∃ t0 lf0 out0,
        (if f.hasY2 mbx mby = true then
          (upd (s.top mbx) 0 (f.nY2 mbx mby), upd s.left 0 (f.nY2 mbx mby),
            (⟨mbx, mby, 0, 0, 0, b2n (s.top mbx 0) + b2n (s.left 0)⟩ : Call) :: s.out)
         else (s.top mbx, s.left, s.out)) = (t0, lf0, out0) ∧
        t0 0 = lastAbove f mbx (mby + 1) ∧ lf0 0 = lastLeft f mby (mbx + 1) ∧
        (∀ i, i ≠ 0 → t0 i = s.top mbx i) ∧ (∀ i, i ≠ 0 → lf0 i = s.left i) ∧
        (∀ c ∈ out0, c.ctx = specCtx f c) := by
      by_cases hh : f.hasY2 mbx mby = true
      · refine ⟨_, _, _, by rw [if_pos hh], ?_, ?_, fun i hi => upd_other _ _ _ _ hi, fun i hi => upd_other _ _ _ _ hi, ?_⟩
        · rw [upd_same, lastAbove, if_pos hh, hy2]
        · rw [upd_same, lastLeft, if_pos hh, hy2]
        · intro c hc
          rcases List.mem_cons.mp hc with rfl | hc
          · show b2n (s.top mbx 0) + b2n (s.left 0) = b2n (lastAbove f mbx mby) + b2n (lastLeft f mby mbx)
            rw [inv.t0 mbx hx, hd0, inv.l0]
          · exact inv.out c hc
      · refine ⟨_, _, _, by rw [if_neg hh], ?_, ?_, fun i _ => rfl, fun i _ => rfl, inv.out⟩
        · rw [lastAbove, if_neg hh, inv.t0 mbx hx, hd0]
        · rw [lastLeft, if_neg hh, inv.l0]
    obtain ⟨t0, lf0, out0, he0, a1, a2, a3, a4, a5⟩ := st0
    rw [he0]
    simp only
    -- stage 1: the sixteen luma blocks
    obtain ⟨g1, g2, g3⟩ := gridLoop_spec mbx mby 1 1 4 (by omega) (fun x y => f.nY (4 * mbx + x) (4 * mby + y))
      (fun c => c.ctx = specCtx f c)
      (fun x => if mby = 0 then false else nzY f (4 * mbx + x) (4 * mby - 1))
      (fun y => if mbx = 0 then false else nzY f (4 * mbx - 1) (4 * mby + y))
      (by
        intro x y h1 h2
        show _ = nb (nzY f) (4 * mbx + x) (4 * mby + y)
        rw [nb_eq (nzY f) (4 * mbx + x) (4 * mby + y) _ _ ?_ ?_]
        · by_cases hy0 : y = 0
          · subst hy0
            by_cases hm : mby = 0
            · rw [if_pos rfl, if_pos hm, if_pos (by omega)]
            · rw [if_pos rfl, if_neg hm, if_neg (by omega), Nat.add_zero]
          · rw [if_neg hy0, if_neg (by omega), ← eY x (y - 1) h1 (by omega)]
            congr 1; omega
        · by_cases hx0 : x = 0
          · subst hx0
            by_cases hm : mbx = 0
            · rw [if_pos rfl, if_pos hm, if_pos (by omega)]
            · rw [if_pos rfl, if_neg hm, if_neg (by omega), Nat.add_zero]
          · rw [if_neg hx0, if_neg (by omega), ← eY (x - 1) y (by omega) h2]
            congr 1; omega)
      4 0 t0 lf0 out0 rfl a5
      (fun x h1 => by rw [a3 _ (by omega), inv.tY mbx x hx h1, hd0, if_pos rfl])
      (fun y' _ h2 => by rw [a4 _ (by omega), inv.lY y' h2])
    generalize gridLoop mbx mby 1 1 4 (fun x y => f.nY (4 * mbx + x) (4 * mby + y)) 4 0 t0 lf0 out0 = r1 at g1 g2 g3
    obtain ⟨t1, lf1, out1⟩ := r1
    simp only at g1 g2 g3 ⊢
    -- stage 2: the four U blocks
    obtain ⟨u1, u2, u3⟩ := gridLoop_spec mbx mby 2 5 2 (by omega) (fun x y => f.nU (2 * mbx + x) (2 * mby + y))
      (fun c => c.ctx = specCtx f c)
      (fun x => if mby = 0 then false else nzU f (2 * mbx + x) (2 * mby - 1))
      (fun y => if mbx = 0 then false else nzU f (2 * mbx - 1) (2 * mby + y))
      (by
        intro x y h1 h2
        show _ = nb (nzU f) (2 * mbx + x) (2 * mby + y)
        rw [nb_eq (nzU f) (2 * mbx + x) (2 * mby + y) _ _ ?_ ?_]
        · by_cases hy0 : y = 0
          · subst hy0
            by_cases hm : mby = 0
            · rw [if_pos rfl, if_pos hm, if_pos (by omega)]
            · rw [if_pos rfl, if_neg hm, if_neg (by omega), Nat.add_zero]
          · rw [if_neg hy0, if_neg (by omega), ← eU x (y - 1) h1 (by omega)]
            congr 1; omega
        · by_cases hx0 : x = 0
          · subst hx0
            by_cases hm : mbx = 0
            · rw [if_pos rfl, if_pos hm, if_pos (by omega)]
            · rw [if_pos rfl, if_neg hm, if_neg (by omega), Nat.add_zero]
          · rw [if_neg hx0, if_neg (by omega), ← eU (x - 1) y (by omega) h2]
            congr 1; omega)
      2 0 t1 lf1 out1 rfl g1
      (fun x h1 => by rw [g2 (5 + x), if_neg (by omega), a3 _ (by omega), inv.tU mbx x hx h1, hd0, if_pos rfl])
      (fun y' _ h2 => by rw [g3 (5 + y'), if_neg (by omega), a4 _ (by omega), inv.lU y' h2])
    generalize gridLoop mbx mby 2 5 2 (fun x y => f.nU (2 * mbx + x) (2 * mby + y)) 2 0 t1 lf1 out1 = r2 at u1 u2 u3
    obtain ⟨t2, lf2, out2⟩ := r2
    simp only at u1 u2 u3 ⊢
    -- stage 3: the four V blocks
    obtain ⟨v1, v2, v3⟩ := gridLoop_spec mbx mby 3 7 2 (by omega) (fun x y => f.nV (2 * mbx + x) (2 * mby + y))
      (fun c => c.ctx = specCtx f c)
      (fun x => if mby = 0 then false else nzV f (2 * mbx + x) (2 * mby - 1))
      (fun y => if mbx = 0 then false else nzV f (2 * mbx - 1) (2 * mby + y))
      (by
        intro x y h1 h2
        show _ = nb (nzV f) (2 * mbx + x) (2 * mby + y)
        rw [nb_eq (nzV f) (2 * mbx + x) (2 * mby + y) _ _ ?_ ?_]
        · by_cases hy0 : y = 0
          · subst hy0
            by_cases hm : mby = 0
            · rw [if_pos rfl, if_pos hm, if_pos (by omega)]
            · rw [if_pos rfl, if_neg hm, if_neg (by omega), Nat.add_zero]
          · rw [if_neg hy0, if_neg (by omega), ← eV x (y - 1) h1 (by omega)]
            congr 1; omega
        · by_cases hx0 : x = 0
          · subst hx0
            by_cases hm : mbx = 0
            · rw [if_pos rfl, if_pos hm, if_pos (by omega)]
            · rw [if_pos rfl, if_neg hm, if_neg (by omega), Nat.add_zero]
          · rw [if_neg hx0, if_neg (by omega), ← eV (x - 1) y (by omega) h2]
            congr 1; omega)
      2 0 t2 lf2 out2 rfl u1
      (fun x h1 => by rw [u2 (7 + x), if_neg (by omega), g2 (7 + x), if_neg (by omega), a3 _ (by omega), inv.tV mbx x hx h1, hd0, if_pos rfl])
      (fun y' _ h2 => by rw [u3 (7 + y'), if_neg (by omega), g3 (7 + y'), if_neg (by omega), a4 _ (by omega), inv.lV y' h2])
    generalize gridLoop mbx mby 3 7 2 (fun x y => f.nV (2 * mbx + x) (2 * mby + y)) 2 0 t2 lf2 out2 = r3 at v1 v2 v3
    obtain ⟨t3, lf3, out3⟩ := r3
    simp only at v1 v2 v3 ⊢
    -- the flags after the macroblock
    have T0 : t3 0 = lastAbove f mbx (mby + 1) := by
      rw [v2 0, if_neg (by omega), u2 0, if_neg (by omega), g2 0, if_neg (by omega), a1]
    have TY : ∀ x, x < 4 → t3 (1 + x) = nzY f (4 * mbx + x) (4 * mby + 3) := by
      intro x h1
      rw [v2, if_neg (by omega), u2, if_neg (by omega), g2, if_pos ⟨by omega, by omega⟩, if_neg (by omega), eY x 3 h1 (by omega)]
      congr 2; omega
    have TU : ∀ x, x < 2 → t3 (5 + x) = nzU f (2 * mbx + x) (2 * mby + 1) := by
      intro x h1
      rw [v2, if_neg (by omega), u2, if_pos ⟨by omega, by omega⟩, if_neg (by omega), eU x 1 h1 (by omega)]
      congr 2; omega
    have TV : ∀ x, x < 2 → t3 (7 + x) = nzV f (2 * mbx + x) (2 * mby + 1) := by
      intro x h1
      rw [v2, if_pos ⟨by omega, by omega⟩, if_neg (by omega), eV x 1 h1 (by omega)]
      congr 2; omega
    have L0' : lf3 0 = lastLeft f mby (mbx + 1) := by
      rw [v3 0, if_neg (by omega), u3 0, if_neg (by omega), g3 0, if_neg (by omega), a2]
    have LY : ∀ y, y < 4 → lf3 (1 + y) = nzY f (4 * mbx + 3) (4 * mby + y) := by
      intro y h1
      rw [v3, if_neg (by omega), u3, if_neg (by omega), g3, if_pos ⟨by omega, by omega⟩, eY 3 y (by omega) h1]
      congr 2; omega
    have LU : ∀ y, y < 2 → lf3 (5 + y) = nzU f (2 * mbx + 1) (2 * mby + y) := by
      intro y h1
      rw [v3, if_neg (by omega), u3, if_pos ⟨by omega, by omega⟩, eU 1 y (by omega) h1]
      congr 2; omega
    have LV : ∀ y, y < 2 → lf3 (7 + y) = nzV f (2 * mbx + 1) (2 * mby + y) := by
      intro y h1
      rw [v3, if_pos ⟨by omega, by omega⟩, eV 1 y (by omega) h1]
      congr 2; omega
    refine { t0 := ?_, tY := ?_, tU := ?_, tV := ?_, l0 := L0', lY := ?_, lU := ?_, lV := ?_, out := v1 }
    · intro c hc
      by_cases hcm : c = mbx
      · subst hcm; simp only [if_true]; rw [hdm]; exact T0
      · simp only [hcm, if_false]; rw [hdr c hcm]; exact inv.t0 c hc
    · intro c x hc hx4
      by_cases hcm : c = mbx
      · subst hcm; simp only [if_true]
        rw [hdm, if_neg (by omega), show 4 * (mby + 1) - 1 = 4 * mby + 3 by omega]; exact TY x hx4
      · simp only [hcm, if_false]; rw [hdr c hcm]; exact inv.tY c x hc hx4
    · intro c x hc hx2
      by_cases hcm : c = mbx
      · subst hcm; simp only [if_true]
        rw [hdm, if_neg (by omega), show 2 * (mby + 1) - 1 = 2 * mby + 1 by omega]; exact TU x hx2
      · simp only [hcm, if_false]; rw [hdr c hcm]; exact inv.tU c x hc hx2
    · intro c x hc hx2
      by_cases hcm : c = mbx
      · subst hcm; simp only [if_true]
        rw [hdm, if_neg (by omega), show 2 * (mby + 1) - 1 = 2 * mby + 1 by omega]; exact TV x hx2
      · simp only [hcm, if_false]; rw [hdr c hcm]; exact inv.tV c x hc hx2
    · intro y hy4
      simp only
      rw [if_neg (by omega), show 4 * (mbx + 1) - 1 = 4 * mbx + 3 by omega]; exact LY y hy4
    · intro y hy2'
      simp only
      rw [if_neg (by omega), show 2 * (mbx + 1) - 1 = 2 * mbx + 1 by omega]; exact LU y hy2'
    · intro y hy2'
      simp only
      rw [if_neg (by omega), show 2 * (mbx + 1) - 1 = 2 * mbx + 1 by omega]; exact LV y hy2'

theorem rowMbs_inv (f : Frame) (mby : Nat) : ∀ (k mbx : Nat) (s : St), mbx + k = f.W → FInv f mbx mby s →
    FInv f f.W mby (rowMbs f mby k mbx s) := by
  intro k
  induction k with
  | zero => intro mbx s h inv; have : mbx = f.W := by omega
            subst this; exact inv
  | succ k ih =>
    intro mbx s h inv
    rw [rowMbs]
    exact ih (mbx + 1) _ (by omega) (mbStep_inv f mbx mby (by omega) s inv)

/-- the end of a row is the start of the next once `left` is cleared -/
theorem next_row (f : Frame) (mby : Nat) (s : St) (inv : FInv f f.W mby s) :
    FInv f 0 (mby + 1) { s with left := fun _ => false } := by
  have hd : ∀ c, c < f.W → doneRows 0 (mby + 1) c = doneRows f.W mby c := by
    intro c hc; unfold doneRows; rw [if_neg (by omega), if_pos hc]
  refine { t0 := fun c hc => by rw [hd c hc]; exact inv.t0 c hc,
           tY := fun c x hc hx => by rw [hd c hc]; exact inv.tY c x hc hx,
           tU := fun c x hc hx => by rw [hd c hc]; exact inv.tU c x hc hx,
           tV := fun c x hc hx => by rw [hd c hc]; exact inv.tV c x hc hx,
           l0 := rfl, lY := fun y _ => by rw [if_pos rfl], lU := fun y _ => by rw [if_pos rfl],
           lV := fun y _ => by rw [if_pos rfl], out := inv.out }

theorem rows_inv (f : Frame) : ∀ (k mby : Nat) (s : St), FInv f 0 mby { s with left := fun _ => false } →
    ∀ c ∈ (rows f k mby s).out, c.ctx = specCtx f c := by
  intro k
  induction k with
  | zero => intro mby s inv c hc; exact inv.out c hc
  | succ k ih =>
    intro mby s inv
    rw [rows]
    have h1 := rowMbs_inv f mby f.W 0 _ (by omega) inv
    exact ih (mby + 1) _ (next_row f mby _ h1)

/-- **The context bookkeeping is the RFC rule**: every `read_coefficients` call of a frame gets
    the context the specification defines from the neighbouring blocks -/
theorem run_spec (f : Frame) : ∀ c ∈ run f, c.ctx = specCtx f c := by
  intro c hc
  unfold run at hc
  rw [List.mem_reverse] at hc
  refine rows_inv f f.H 0 _ ?_ c hc
  have hd : ∀ c, doneRows 0 0 c = 0 := fun c => by unfold doneRows; rw [if_neg (by omega)]
  refine { t0 := fun c _ => by rw [hd]; rfl,
           tY := fun c x _ _ => by rw [hd, if_pos rfl],
           tU := fun c x _ _ => by rw [hd, if_pos rfl],
           tV := fun c x _ _ => by rw [hd, if_pos rfl],
           l0 := rfl, lY := fun y _ => by rw [if_pos rfl], lU := fun y _ => by rw [if_pos rfl],
           lV := fun y _ => by rw [if_pos rfl], out := fun c hc => by cases hc }

end Vp8Ctx
