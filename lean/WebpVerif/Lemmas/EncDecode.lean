import WebpVerif.Lemmas.EncFreq
import WebpVerif.Lemmas.EncLen
import WebpVerif.Spec.LosslessP

/-!
Stage 4 of the bit-level round trip: the specification's pixel loop (`VP8LP.loop`) run on the
bits the encoder writes for its tokens returns the token expansion.
-/
namespace EncRT
open Enc EncTree Prefix VP8LP

theorem lsbBits_getElem? (v n i : Nat) : (lsbBits v n)[i]? = if i < n then some (v / 2 ^ i % 2) else none := by
  unfold lsbBits
  rw [List.getElem?_map]
  by_cases h : i < n
  · rw [List.getElem?_range h, if_pos h]; rfl
  · rw [if_neg h, List.getElem?_eq_none (by simpa using h)]; rfl

theorem lsbBits_or_shift (a b n m : Nat) (ha : a < 2 ^ n) :
    lsbBits (a ||| (b <<< n)) (n + m) = lsbBits a n ++ lsbBits b m := by
  apply List.ext_getElem?
  intro i
  have hl : (lsbBits a n).length = n := by simp [lsbBits]
  rw [lsbBits_getElem?]
  by_cases hin : i < n
  · rw [List.getElem?_append_left (by rw [hl]; exact hin), lsbBits_getElem?, if_pos hin, if_pos (by omega)]
    rw [← Nat.toNat_testBit, ← Nat.toNat_testBit, Nat.testBit_or, Nat.testBit_shiftLeft]
    have : decide (i ≥ n) = false := by simp; omega
    simp [this]
  · rw [List.getElem?_append_right (by rw [hl]; omega), lsbBits_getElem?, hl]
    by_cases him : i < n + m
    · rw [if_pos him, if_pos (by omega)]
      rw [← Nat.toNat_testBit, ← Nat.toNat_testBit, Nat.testBit_or, Nat.testBit_shiftLeft]
      have h0 : a.testBit i = false := Nat.testBit_lt_two_pow (Nat.lt_of_lt_of_le ha (Nat.pow_le_pow_right (by decide) (by omega)))
      have : decide (i ≥ n) = true := by simp; omega
      simp [h0, this]
    · rw [if_neg him, if_neg (by omega)]

theorem or_shift_lt (a b n m : Nat) (ha : a < 2 ^ n) (hb : b < 2 ^ m) : a ||| (b <<< n) < 2 ^ (n + m) := by
  apply Nat.or_lt_two_pow
  · exact Nat.lt_of_lt_of_le ha (Nat.pow_le_pow_right (by decide) (by omega))
  · rw [Nat.shiftLeft_eq, Nat.pow_add, Nat.mul_comm]
    exact Nat.mul_lt_mul_of_pos_left hb (Nat.two_pow_pos n)

/-- the decoding contract of one symbol `j` of a code: its code word fits its length and the
    specification's symbol decoder returns `j` for it -/
def SymOK (L C : Array Nat) (lens : List Nat) (j : Nat) : Prop :=
  C[j]! < 2 ^ L[j]! ∧ L[j]! ≤ 15 ∧ ∀ rest, decodeSymbol lens (lsbBits C[j]! L[j]! ++ rest) = some (j, rest)

/-- the four pixel codes as the decoder reads them -/
structure Lens where
  n0 : List Nat
  n1 : List Nat
  n2 : List Nat
  n3 : List Nat

/-- what the round trip needs to know about one token -/
structure TokOK (color : Nat) (tb : Tabs) (ls : Lens) (t : List Nat × Nat) : Prop where
  g : SymOK tb.l1 tb.c1 ls.n1 (t.1.getD 1 0)
  r : SymOK tb.l0 tb.c0 ls.n0 (t.1.getD 0 0)
  b : SymOK tb.l2 tb.c2 ls.n2 (t.1.getD 2 0)
  a : SymOK tb.l3 tb.c3 ls.n3 (t.1.getD 3 0)
  run : t.2 > 0 → SymOK tb.l1 tb.c1 ls.n1 (runSymbol t.2)
  grey : color < 2 → tb.l0[t.1.getD 0 0]! = 0 ∧ tb.c0[t.1.getD 0 0]! = 0 ∧ tb.l2[t.1.getD 2 0]! = 0 ∧ tb.c2[t.1.getD 2 0]! = 0
  opq : color = 0 ∨ color = 2 → tb.l3[t.1.getD 3 0]! = 0 ∧ tb.c3[t.1.getD 3 0]! = 0
  g256 : t.1.getD 1 0 < 256
  r4096 : t.2 ≤ 4096

/-- the bits of a literal: green, red, blue, alpha code words -/
def litBits (tb : Tabs) (p : List Nat) : List Nat :=
  lsbBits tb.c1[p.getD 1 0]! tb.l1[p.getD 1 0]! ++ (lsbBits tb.c0[p.getD 0 0]! tb.l0[p.getD 0 0]! ++
    (lsbBits tb.c2[p.getD 2 0]! tb.l2[p.getD 2 0]! ++ lsbBits tb.c3[p.getD 3 0]! tb.l3[p.getD 3 0]!))

theorem lsbBits_zero_len (v : Nat) : lsbBits v 0 = [] := rfl

theorem litField_bits (color : Nat) (hc : color ≤ 3) (tb : Tabs) (ls : Lens) (t : List Nat × Nat) (h : TokOK color tb ls t) :
    lsbBits (litField color tb t.1).1 (litField color tb t.1).2 = litBits tb t.1 := by
  unfold litBits
  obtain ⟨hg, hr, hb, ha, _, hgrey, hop, _, _⟩ := h
  obtain rfl | rfl | rfl | rfl : color = 0 ∨ color = 1 ∨ color = 2 ∨ color = 3 := by omega
  · obtain ⟨e1, e2, e3, e4⟩ := hgrey (by decide)
    obtain ⟨e5, e6⟩ := hop (Or.inl rfl)
    rw [e1, e3, e5, lsbBits_zero_len, lsbBits_zero_len, lsbBits_zero_len]
    simp only [litField, List.append_nil]
  · obtain ⟨e1, e2, e3, e4⟩ := hgrey (by decide)
    rw [e1, e3, lsbBits_zero_len, lsbBits_zero_len]
    simp only [litField, List.nil_append]
    exact lsbBits_or_shift _ _ _ _ hg.1
  · obtain ⟨e5, e6⟩ := hop (Or.inr rfl)
    rw [e5, lsbBits_zero_len]
    simp only [litField, List.append_nil]
    rw [lsbBits_or_shift _ _ _ _ (or_shift_lt _ _ _ _ hg.1 hr.1), lsbBits_or_shift _ _ _ _ hg.1, List.append_assoc]
  · simp only [litField]
    rw [lsbBits_or_shift _ _ _ _ (or_shift_lt _ _ _ _ (or_shift_lt _ _ _ _ hg.1 hr.1) hb.1),
      lsbBits_or_shift _ _ _ _ (or_shift_lt _ _ _ _ hg.1 hr.1), lsbBits_or_shift _ _ _ _ hg.1]
    simp only [List.append_assoc]

/-- the bits of the run part of a token -/
def runBits (tb : Tabs) (run : Nat) : List Nat :=
  if run = 0 then []
  else if run ≤ 4 then lsbBits tb.c1[256 + run - 1]! tb.l1[256 + run - 1]!
  else lsbBits tb.c1[256 + (lengthToSymbol run).1]! tb.l1[256 + (lengthToSymbol run).1]! ++
    lsbBits ((run - 1) % 2 ^ (lengthToSymbol run).2) (lengthToSymbol run).2

theorem tokFields_bits (color : Nat) (hc : color ≤ 3) (tb : Tabs) (ls : Lens) (t : List Nat × Nat) (h : TokOK color tb ls t) :
    fieldBits (tokFieldsP color tb t) = litBits tb t.1 ++ runBits tb t.2 := by
  unfold tokFieldsP runBits
  rw [fieldBits_cons, litField_bits color hc tb ls t h]
  congr 1
  by_cases h0 : t.2 = 0
  · simp only [h0, if_true]; rfl
  · by_cases h4 : t.2 ≤ 4
    · simp only [h0, h4, if_true, if_false, fieldBits_cons]; simp [fieldBits]
    · simp only [h0, h4, if_false, fieldBits_cons]; simp [fieldBits]

theorem toksFields_bits (color : Nat) (hc : color ≤ 3) (tb : Tabs) (ls : Lens) : ∀ (toks : List (List Nat × Nat)),
    (∀ t ∈ toks, TokOK color tb ls t) →
    fieldBits (toks.flatMap (tokFieldsP color tb)) = toks.flatMap fun t => litBits tb t.1 ++ runBits tb t.2 := by
  intro toks
  induction toks with
  | nil => intro _; rfl
  | cons t rest ih =>
    intro h
    rw [List.flatMap_cons, fieldBits_append, tokFields_bits color hc tb ls t (h t List.mem_cons_self),
      ih (fun t' ht' => h t' (List.mem_cons_of_mem _ ht')), List.flatMap_cons]


/-! ### the pixel loop of the specification on the encoder's token bits -/

/-- a residual pixel `[r, g, b, a]` as the ARGB number the decoder assembles -/
def pack (p : List Nat) : Nat := p.getD 3 0 * 2 ^ 24 + p.getD 0 0 * 2 ^ 16 + p.getD 1 0 * 2 ^ 8 + p.getD 2 0

/-- the pixel sequence a token list stands for -/
def expandToks : List (List Nat × Nat) → List (List Nat)
  | [] => []
  | (p, run) :: rest => p :: (List.replicate run p ++ expandToks rest)

/-- the entropy-coded image the encoder produces, as the decoder sees it: one group, no colour
    cache, no meta prefix image, distance code = the single symbol 1 -/
def encImg (w n : Nat) (ls : Lens) : Img :=
  { xsize := w, n := n, cacheBits := 0, prefixBits := 0, entropy := #[],
    groups := #[#[specDec ls.n1, specDec ls.n0, specDec ls.n2, specDec ls.n3, specDec (oneHot 40 1)]] }

theorem group_enc (w n : Nat) (ls : Lens) (i : Nat) :
    (encImg w n ls).group i = #[specDec ls.n1, specDec ls.n0, specDec ls.n2, specDec ls.n3, specDec (oneHot 40 1)] := rfl

theorem gd0 (a b c d e : Dec) : (#[a, b, c, d, e] : Array Dec).getD 0 noDec = a := rfl
theorem gd1 (a b c d e : Dec) : (#[a, b, c, d, e] : Array Dec).getD 1 noDec = b := rfl
theorem gd2 (a b c d e : Dec) : (#[a, b, c, d, e] : Array Dec).getD 2 noDec = c := rfl
theorem gd3 (a b c d e : Dec) : (#[a, b, c, d, e] : Array Dec).getD 3 noDec = d := rfl
theorem gd4 (a b c d e : Dec) : (#[a, b, c, d, e] : Array Dec).getD 4 noDec = e := rfl

theorem step_lit (w n : Nat) (ls : Lens) (color : Nat) (tb : Tabs) (t : List Nat × Nat) (h : TokOK color tb ls t)
    (i : Nat) (rev : List Nat) (cache : Array Nat) (rest : List Nat) :
    step (encImg w n ls) i rev cache (litBits tb t.1 ++ rest) = some (i + 1, pack t.1 :: rev, cache, rest) := by
  unfold step stepG
  simp only [group_enc, gd0, gd1, gd2, gd3, specDec]
  unfold litBits
  simp only [List.append_assoc]
  rw [h.g.2.2]
  simp only [h.g256, if_true]
  rw [h.r.2.2]
  simp only
  rw [h.b.2.2]
  simp only
  rw [h.a.2.2]
  simp only [cacheInsert, encImg, if_true, pack]

theorem dist2 (w : Nat) : VP8L.distanceOf w 2 = 1 := by
  unfold VP8L.distanceOf
  have e : Gen.Libwebp.kCodeToPlane[1]?.getD 0 = 7 := by decide
  simp [e]

theorem copyBack_one (p : Nat) : ∀ (len : Nat) (rev : List Nat) (cache : Array Nat),
    copyBack 0 1 len (p :: rev) cache = (List.replicate len p ++ p :: rev, cache) := by
  intro len
  induction len with
  | zero => intro rev cache; rfl
  | succ len ih =>
    intro rev cache
    unfold copyBack
    have e : (p :: rev).getD (1 - 1) 0 = p := rfl
    simp only [e, cacheInsert, if_true]
    rw [ih]
    congr 1
    rw [List.replicate_succ', List.append_assoc]
    rfl

/-- the run part of a token: a backward reference of that length with distance 1 -/
theorem step_run (w n : Nat) (ls : Lens) (color : Nat) (tb : Tabs) (t : List Nat × Nat) (h : TokOK color tb ls t)
    (hrun : t.2 > 0) (i : Nat) (hi : 1 ≤ i) (hn : i + t.2 ≤ n) (p : Nat) (rev : List Nat) (cache : Array Nat) (rest : List Nat) :
    step (encImg w n ls) i (p :: rev) cache (runBits tb t.2 ++ rest) =
      some (i + t.2, List.replicate t.2 p ++ p :: rev, cache, rest) := by
  have hs := (h.run hrun).2.2
  have hd : decodeSymbol (oneHot 40 1) rest = some (1, rest) := decodeSymbol_oneHot 40 1 (by decide) rest
  have hpv1 : prefixValue 1 rest = some (2, rest) := by unfold prefixValue; simp
  unfold step stepG
  simp only [group_enc, gd0, gd4, specDec]
  unfold runBits
  rw [if_neg (by omega)]
  by_cases h4 : t.2 ≤ 4
  · rw [if_pos h4]
    have e : 256 + t.2 - 1 = runSymbol t.2 := by unfold runSymbol; rw [if_pos h4]
    rw [e, hs]
    have hr : runSymbol t.2 = 256 + t.2 - 1 := e.symm
    have hlt : ¬ runSymbol t.2 < 256 := by omega
    have hlt2 : runSymbol t.2 < 256 + 24 := by omega
    simp only [hlt, hlt2, if_true, if_false]
    have hpv : prefixValue (runSymbol t.2 - 256) rest = some (t.2, rest) := by
      unfold prefixValue; rw [if_pos (by omega)]; congr 2; omega
    rw [hpv]
    simp only
    rw [hd]
    simp only
    rw [hpv1]
    simp only [dist2]
    have hcb : (encImg w n ls).cacheBits = 0 := rfl
    rw [if_neg (by simp only [encImg]; omega), hcb, copyBack_one]
  · rw [if_neg h4]
    obtain ⟨s24, s4, sx, sv⟩ := EncLen.length_symbol_inv t.2 (by have := h.r4096; omega) (by omega)
    have e : 256 + (lengthToSymbol t.2).1 = runSymbol t.2 := by unfold runSymbol; rw [if_neg h4]
    rw [e, List.append_assoc, hs]
    have hlt : ¬ runSymbol t.2 < 256 := by omega
    have hlt2 : runSymbol t.2 < 256 + 24 := by omega
    simp only [hlt, hlt2, if_true, if_false]
    have hsub : runSymbol t.2 - 256 = (lengthToSymbol t.2).1 := by omega
    have hx : (lengthToSymbol t.2).2 = ((lengthToSymbol t.2).1 - 2) / 2 := by
      rw [← sx]; unfold LK.copyExtraBits; rw [if_neg (by omega)]
    have hpv : prefixValue (runSymbol t.2 - 256) (lsbBits ((t.2 - 1) % 2 ^ (lengthToSymbol t.2).2) (lengthToSymbol t.2).2 ++ rest) = some (t.2, rest) := by
      unfold prefixValue
      rw [hsub, if_neg (by omega), ← hx, readBitsL_field _ _ _ (Nat.mod_lt _ (Nat.two_pow_pos _))]
      simp only
      unfold LK.copyValue at sv
      rw [if_neg (by omega), ← hx] at sv
      rw [sv]
    rw [hpv]
    simp only
    rw [hd]
    simp only
    rw [hpv1]
    simp only [dist2]
    have hcb : (encImg w n ls).cacheBits = 0 := rfl
    rw [if_neg (by simp only [encImg]; omega), hcb, copyBack_one]

theorem loop_tokens (w n : Nat) (ls : Lens) (color : Nat) (tb : Tabs) : ∀ (toks : List (List Nat × Nat)) (i : Nat) (rev : List Nat)
    (fuel : Nat) (rest : List Nat), (∀ t ∈ toks, TokOK color tb ls t) → i + (expandToks toks).length = n → n - i ≤ fuel →
    loop (encImg w n ls) fuel i rev #[] ((toks.flatMap fun t => litBits tb t.1 ++ runBits tb t.2) ++ rest) =
      some (((expandToks toks).map pack).reverse ++ rev, rest) := by
  intro toks
  induction toks with
  | nil =>
    intro i rev fuel rest _ hlen _
    simp only [expandToks, List.length_nil, Nat.add_zero] at hlen
    unfold loop
    simp [encImg, hlen, expandToks]
  | cons t toks ih =>
    intro i rev fuel rest hok hlen hfuel
    obtain ⟨p, run⟩ := t
    have htok := hok (p, run) List.mem_cons_self
    have hoks : ∀ t ∈ toks, TokOK color tb ls t := fun t' ht' => hok t' (List.mem_cons_of_mem _ ht')
    simp only [expandToks, List.length_cons, List.length_append, List.length_replicate] at hlen
    obtain ⟨f, rfl⟩ : ∃ f, fuel = f + 1 := ⟨fuel - 1, by omega⟩
    unfold loop
    have hn : (encImg w n ls).n = n := rfl
    rw [if_neg (by rw [hn]; omega)]
    simp only [List.flatMap_cons, List.append_assoc]
    rw [step_lit w n ls color tb (p, run) htok]
    simp only
    by_cases hr : run = 0
    · subst hr
      have e : runBits tb 0 = [] := by unfold runBits; rw [if_pos rfl]
      rw [e, List.nil_append, ih (i + 1) (pack p :: rev) f rest hoks (by omega) (by omega)]
      simp [expandToks]
    · obtain ⟨f', rfl⟩ : ∃ f', f = f' + 1 := ⟨f - 1, by omega⟩
      unfold loop
      rw [if_neg (by rw [hn]; omega)]
      simp only
      rw [step_run w n ls color tb (p, run) htok (by show run > 0; omega) (i + 1) (by omega) (by show i + 1 + run ≤ n; omega)]
      simp only
      rw [ih (i + 1 + run) _ f' rest hoks (by omega) (by omega)]
      simp only [expandToks, List.map_cons, List.map_append, List.map_replicate, List.reverse_cons, List.reverse_append,
        List.reverse_replicate, List.append_assoc, List.singleton_append]

end EncRT
