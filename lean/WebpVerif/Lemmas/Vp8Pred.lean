import WebpVerif.Model.Vp8Pred
import WebpVerif.Spec.Vp8PredSpec
import Mathlib.Tactic.IntervalCases

/-!
The model of the intra predictors of vp8.rs (`Vp8Pred`, tied to the real functions on random
workspaces through hook 5cd911b) against the reference predictors transcribed from libwebp's
`dsp/dec.c` (`Vp8PredSpec`): for every neighbourhood and every pixel of the block.
-/
namespace Vp8PredProof
open Vp8Pred

/-- the neighbourhood in the reference's notation -/
def refN (n : Nb) : Vp8PredSpec.N :=
  { X := n.p, A := n.t 0, B := n.t 1, C := n.t 2, D := n.t 3, E := n.t 4, F := n.t 5, G := n.t 6, H := n.t 7,
    I := n.l 0, J := n.l 1, K := n.l 2, L := n.l 3 }

/-- the reference predictor for the hook's numbering of the sub-block modes -/
def ref4 (kind : Nat) (n : Vp8PredSpec.N) (x y : Nat) : Nat :=
  match kind with
  | 0 => Vp8PredSpec.DC4 n x y
  | 2 => Vp8PredSpec.VE4 n x y
  | 3 => Vp8PredSpec.HE4 n x y
  | 4 => Vp8PredSpec.LD4 n x y
  | 5 => Vp8PredSpec.RD4 n x y
  | 6 => Vp8PredSpec.VR4 n x y
  | 7 => Vp8PredSpec.VL4 n x y
  | 8 => Vp8PredSpec.HD4 n x y
  | _ => Vp8PredSpec.HU4 n x y

theorem bdc_ref (n : Nb) (r c : Nat) : bdc n r c = Vp8PredSpec.DC4 (refN n) c r := by
  unfold bdc Vp8PredSpec.DC4 refN
  simp only
  omega

theorem bve_ref (n : Nb) (r c : Nat) (hc : c < 4) : bve n r c = Vp8PredSpec.VE4 (refN n) c r := by
  interval_cases c <;> rfl

theorem bhe_ref (n : Nb) (r c : Nat) (hr : r < 4) : bhe n r c = Vp8PredSpec.HE4 (refN n) c r := by
  interval_cases r <;> rfl

theorem bld_ref (n : Nb) (r c : Nat) (hr : r < 4) (hc : c < 4) : bld n r c = Vp8PredSpec.LD4 (refN n) c r := by
  interval_cases r <;> interval_cases c <;> rfl

theorem avg3_comm (a b c : Nat) : avg3 a b c = Vp8PredSpec.AVG3 c b a := by
  unfold avg3 Vp8PredSpec.AVG3; omega

theorem brd_ref (n : Nb) (r c : Nat) (hr : r < 4) (hc : c < 4) : brd n r c = Vp8PredSpec.RD4 (refN n) c r := by
  interval_cases r <;> interval_cases c <;> exact avg3_comm _ _ _

theorem bvr_ref (n : Nb) (r c : Nat) (hr : r < 4) (hc : c < 4) : bvr n r c = Vp8PredSpec.VR4 (refN n) c r := by
  interval_cases r <;> interval_cases c <;> rfl

theorem bvl_ref (n : Nb) (r c : Nat) (hr : r < 4) (hc : c < 4) : bvl n r c = Vp8PredSpec.VL4 (refN n) c r := by
  interval_cases r <;> interval_cases c <;> rfl

theorem bhd_ref (n : Nb) (r c : Nat) (hr : r < 4) (hc : c < 4) : bhd n r c = Vp8PredSpec.HD4 (refN n) c r := by
  interval_cases r <;> interval_cases c <;> rfl

theorem bhu_ref (n : Nb) (r c : Nat) (hr : r < 4) (hc : c < 4) : bhu n r c = Vp8PredSpec.HU4 (refN n) c r := by
  interval_cases r <;> interval_cases c <;> rfl

/-- every sub-block predictor, every neighbourhood, every pixel -/
theorem block4_ref (kind : Nat) (hk : kind = 0 ∨ (2 ≤ kind ∧ kind ≤ 9)) (n : Nb) (r c : Nat) (hr : r < 4) (hc : c < 4) :
    block4 kind n r c = ref4 kind (refN n) c r := by
  rcases hk with rfl | ⟨h2, h9⟩
  · exact bdc_ref n r c
  · interval_cases kind
    · exact bve_ref n r c hc
    · exact bhe_ref n r c hr
    · exact bld_ref n r c hr hc
    · exact brd_ref n r c hr hc
    · exact bvr_ref n r c hr hc
    · exact bvl_ref n r c hr hc
    · exact bhd_ref n r c hr hc
    · exact bhu_ref n r c hr hc


/-! ### on the workspace -/

theorem idx_div (q s m : Nat) (hm : m < s) : (q * s + m) / s = q ∧ (q * s + m) % s = m := by
  have hs : 0 < s := by omega
  constructor
  · rw [Nat.add_comm, Nat.add_mul_div_right _ _ hs, Nat.div_eq_of_lt hm, Nat.zero_add]
  · rw [Nat.add_comm, Nat.add_mul_mod_self_right, Nat.mod_eq_of_lt hm]

theorem predict_get (kind : Nat) (a : Array Nat) (size x0 y0 stride : Nat) (ab lf : Bool) (i : Nat) (hi : i < a.size) :
    (predict kind a size x0 y0 stride ab lf)[i]! =
      (((List.range a.size).map fun i =>
        let row := i / stride
        let col := i % stride
        if kind = 1 then
          if y0 ≤ row ∧ row < y0 + size ∧ x0 ≤ col ∧ col < x0 + size then
            tmVal a[row * stride + x0 - 1]! a[(y0 - 1) * stride + col]! a[(y0 - 1) * stride + x0 - 1]!
          else a[i]!
        else if kind = 10 then
          if y0 ≤ row ∧ row < y0 + size ∧ (row + 1) * stride ≤ a.size ∧ 1 ≤ col ∧ col - 1 < stride * y0 - x0 then a[x0 + (col - 1)]!
          else a[i]!
        else if kind = 11 then
          if y0 ≤ row ∧ row < y0 + size ∧ (row + 1) * stride ≤ a.size ∧ x0 ≤ col then a[row * stride + x0 - 1]!
          else a[i]!
        else if kind ≥ 12 then
          if 1 ≤ row ∧ row < 1 + size ∧ 1 ≤ col ∧ col < 1 + size then dcVal a size stride ab lf else a[i]!
        else
          if y0 ≤ row ∧ row < y0 + 4 ∧ x0 ≤ col ∧ col < x0 + 4 then block4 kind (nbOf a x0 y0 stride) (row - y0) (col - x0)
          else a[i]!)[i]'(by simpa using hi)) := by
  unfold predict
  rw [Array.getElem!_eq_getD, Array.getD_eq_getD_getElem?, List.getElem?_toArray, List.getElem?_eq_getElem (by simpa using hi)]
  rfl

/-- the block index `(y0 + r) * stride + x0 + c` lies in row `y0 + r`, column `x0 + c`, inside the workspace -/
theorem block_index (a : Array Nat) (x0 y0 stride n r c : Nat) (hs : x0 + n ≤ stride) (hsz : (y0 + n) * stride ≤ a.size)
    (hr : r < n) (hc : c < n) :
    ((y0 + r) * stride + x0 + c) / stride = y0 + r ∧ ((y0 + r) * stride + x0 + c) % stride = x0 + c ∧
      (y0 + r) * stride + x0 + c < a.size := by
  have h := idx_div (y0 + r) stride (x0 + c) (by omega)
  rw [← Nat.add_assoc] at h
  refine ⟨h.1, h.2, ?_⟩
  have h1 : (y0 + r + 1) * stride ≤ (y0 + n) * stride := Nat.mul_le_mul_right _ (by omega)
  have h2 : (y0 + r + 1) * stride = (y0 + r) * stride + stride := by rw [Nat.add_mul, Nat.one_mul]
  omega

/-- **the sub-block predictors on the workspace**: every pixel of the 4x4 block receives the
    reference predictor's value for the neighbourhood read from the workspace -/
theorem predict_subblock (kind : Nat) (hk : kind = 0 ∨ (2 ≤ kind ∧ kind ≤ 9)) (a : Array Nat) (size x0 y0 stride : Nat) (ab lf : Bool)
    (hs : x0 + 4 ≤ stride) (hsz : (y0 + 4) * stride ≤ a.size) (r c : Nat) (hr : r < 4) (hc : c < 4) :
    (predict kind a size x0 y0 stride ab lf)[(y0 + r) * stride + x0 + c]! = ref4 kind (refN (nbOf a x0 y0 stride)) c r := by
  obtain ⟨hd, hm, hi⟩ := block_index a x0 y0 stride 4 r c hs hsz hr hc
  rw [predict_get kind a size x0 y0 stride ab lf _ hi, List.getElem_map, List.getElem_range]
  simp only [hd, hm]
  have k1 : kind ≠ 1 := by omega
  have k10 : kind ≠ 10 := by omega
  have k11 : kind ≠ 11 := by omega
  have k12 : ¬ kind ≥ 12 := by omega
  rw [if_neg k1, if_neg k10, if_neg k11, if_neg k12, if_pos ⟨by omega, by omega, by omega, by omega⟩]
  rw [show y0 + r - y0 = r by omega, show x0 + c - x0 = c by omega]
  exact block4_ref kind hk _ r c hr hc

theorem tmVal_clip (l t p : Nat) : tmVal l t p = Vp8PredSpec.clip1 ((t : Int) + l - p) := by
  unfold tmVal Vp8PredSpec.clip1
  split
  · omega
  · split <;> omega

/-- **TrueMotion of any size** (4x4 sub-blocks, 8x8 chroma, 16x16 luma) -/
theorem predict_tm (kind : Nat) (hk : kind = 1) (a : Array Nat) (size x0 y0 stride : Nat) (ab lf : Bool) (hx : 1 ≤ x0) (hy : 1 ≤ y0)
    (hs : x0 + size ≤ stride) (hsz : (y0 + size) * stride ≤ a.size) (r c : Nat) (hr : r < size) (hc : c < size) :
    (predict kind a size x0 y0 stride ab lf)[(y0 + r) * stride + x0 + c]! =
      Vp8PredSpec.TM a[(y0 - 1) * stride + x0 - 1]! (fun x => a[(y0 - 1) * stride + x0 + x]!)
        (fun y => a[(y0 + y) * stride + x0 - 1]!) c r := by
  obtain ⟨hd, hm, hi⟩ := block_index a x0 y0 stride size r c hs hsz hr hc
  rw [predict_get kind a size x0 y0 stride ab lf _ hi, List.getElem_map, List.getElem_range]
  simp only [hd, hm]
  rw [if_pos hk]
  split
  · rw [tmVal_clip]
    unfold Vp8PredSpec.TM
    simp only
    rw [Nat.add_assoc ((y0 - 1) * stride) x0 c]
  · rename_i h
    exact absurd ⟨by omega, by omega, by omega, by omega⟩ h

/-- **vertical prediction** as the decoder calls it (`x0 = y0 = 1`): the row above, copied down -/
theorem predict_v (kind : Nat) (hk : kind = 10) (a : Array Nat) (size stride : Nat) (ab lf : Bool)
    (hs : 1 + size ≤ stride) (hsz : (1 + size) * stride ≤ a.size) (r c : Nat) (hr : r < size) (hc : c < size) :
    (predict kind a size 1 1 stride ab lf)[(1 + r) * stride + 1 + c]! = a[1 + c]! := by
  obtain ⟨hd, hm, hi⟩ := block_index a 1 1 stride size r c hs hsz hr hc
  rw [predict_get kind a size 1 1 stride ab lf _ hi, List.getElem_map, List.getElem_range]
  simp only [hd, hm]
  have h1 : (1 + r + 1) * stride ≤ (1 + size) * stride := Nat.mul_le_mul_right _ (by omega)
  have k1 : kind ≠ 1 := by omega
  rw [if_neg k1, if_pos hk]
  split
  · congr 2; omega
  · rename_i h
    exact absurd ⟨by omega, by omega, by omega, by omega, by omega⟩ h

/-- **horizontal prediction**: the pixel to the left of the row -/
theorem predict_h (kind : Nat) (hk : kind = 11) (a : Array Nat) (size stride : Nat) (ab lf : Bool)
    (hs : 1 + size ≤ stride) (hsz : (1 + size) * stride ≤ a.size) (r c : Nat) (hr : r < size) (hc : c < size) :
    (predict kind a size 1 1 stride ab lf)[(1 + r) * stride + 1 + c]! = a[(1 + r) * stride]! := by
  obtain ⟨hd, hm, hi⟩ := block_index a 1 1 stride size r c hs hsz hr hc
  rw [predict_get kind a size 1 1 stride ab lf _ hi, List.getElem_map, List.getElem_range]
  simp only [hd, hm]
  have h1 : (1 + r + 1) * stride ≤ (1 + size) * stride := Nat.mul_le_mul_right _ (by omega)
  have k1 : kind ≠ 1 := by omega
  have k10 : kind ≠ 10 := by omega
  rw [if_neg k1, if_neg k10, if_pos hk]
  split
  · congr 2
  · rename_i h
    exact absurd ⟨by omega, by omega, by omega, by omega⟩ h


theorem sum_range_le (f : Nat → Nat) (B : Nat) (h : ∀ k, f k ≤ B) : ∀ n, ((List.range n).map f).sum ≤ n * B := by
  intro n
  induction n with
  | zero => simp
  | succ n ih =>
    rw [List.range_succ, List.map_append, List.sum_append, List.map_singleton, List.sum_singleton, Nat.succ_mul]
    have := h n
    omega

/-- **the DC value** of the 16x16 and 8x8 predictors for each of the four availability cases -/
theorem dcVal_ref (a : Array Nat) (hbytes : ∀ i : Nat, a[i]! < 256) (size : Nat) (h816 : size = 8 ∨ size = 16) (stride : Nat)
    (ab lf : Bool) :
    dcVal a size stride ab lf = Vp8PredSpec.DC size (fun x => a[1 + x]!) (fun y => a[(y + 1) * stride]!) ab lf := by
  unfold dcVal Vp8PredSpec.DC
  have hA := sum_range_le (fun x => a[1 + x]!) 255 (fun k => by have := hbytes (1 + k); omega) size
  have hL := sum_range_le (fun y => a[(y + 1) * stride]!) 255 (fun k => by have := hbytes ((k + 1) * stride); omega) size
  generalize ((List.range size).map fun x => a[1 + x]!).sum = sA at hA ⊢
  generalize ((List.range size).map fun y => a[(y + 1) * stride]!).sum = sL at hL ⊢
  rcases h816 with rfl | rfl <;> cases ab <;> cases lf <;> simp <;> omega

theorem predict_dc (kind : Nat) (hk : kind ≥ 12) (a : Array Nat) (size x0 y0 stride : Nat) (ab lf : Bool)
    (hs : 1 + size ≤ stride) (hsz : (1 + size) * stride ≤ a.size) (r c : Nat) (hr : r < size) (hc : c < size) :
    (predict kind a size x0 y0 stride ab lf)[(1 + r) * stride + 1 + c]! = dcVal a size stride ab lf := by
  obtain ⟨hd, hm, hi⟩ := block_index a 1 1 stride size r c hs hsz hr hc
  rw [predict_get kind a size x0 y0 stride ab lf _ hi, List.getElem_map, List.getElem_range]
  simp only [hd, hm]
  rw [if_neg (by omega), if_neg (by omega), if_neg (by omega), if_pos hk]
  split
  · rfl
  · rename_i h
    exact absurd ⟨by omega, by omega, by omega, by omega⟩ h

end Vp8PredProof
