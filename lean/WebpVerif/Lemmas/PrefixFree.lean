import WebpVerif.Spec.Prefix

/-!
Canonical codes are prefix-free and `Prefix.decodeSym` inverts them: reading the bits of the
canonical code word of a symbol (followed by anything) returns that symbol and the rest.
-/
namespace Prefix

theorem findSym_none (p : Nat → Bool) : ∀ n, (∀ t, t < n → p t = false) → findSym p n = none := by
  intro n
  induction n with
  | zero => intro _; rfl
  | succ n ih =>
    intro h
    rw [findSym, ih (fun t ht => h t (by omega)), h n (by omega)]
    rfl

theorem findSym_some (p : Nat → Bool) (s : Nat) : ∀ n, s < n → p s = true →
    (∀ t, t < n → p t = true → t = s) → findSym p n = some s := by
  intro n
  induction n with
  | zero => intro h; omega
  | succ n ih =>
    intro hs hp huniq
    rw [findSym]
    by_cases hsn : s < n
    · rw [ih hsn hp (fun t ht hpt => huniq t (by omega) hpt)]
    · have hsn' : s = n := by omega
      subst hsn'
      rw [findSym_none p s (fun t ht => by
        cases hpt : p t with
        | false => rfl
        | true => have := huniq t (by omega) hpt; omega)]
      simp only [hp, if_true]

/-- number of earlier symbols with the same length -/
def rank (ls : List Nat) (s len : Nat) : Nat := ((ls.take s).filter (· == len)).length

theorem canonical_some (ls : List Nat) (s c : Nat) (h : canonicalCode ls s = some c) :
    s < ls.length ∧ ls.getD s 0 ≠ 0 ∧ c = nextCode ls (ls.getD s 0) + rank ls s (ls.getD s 0) := by
  unfold canonicalCode at h
  cases hg : ls[s]? with
  | none => rw [hg] at h; simp at h
  | some l =>
    rw [hg] at h
    have hlt : s < ls.length := by
      rcases Nat.lt_or_ge s ls.length with h1 | h1
      · exact h1
      · rw [List.getElem?_eq_none h1] at hg; simp at hg
    have hd : ls.getD s 0 = l := by rw [List.getD_eq_getElem?_getD, hg]; rfl
    cases l with
    | zero => simp at h
    | succ m =>
      simp only [Option.some.injEq] at h
      refine ⟨hlt, by rw [hd]; omega, ?_⟩
      rw [hd, ← h]; rfl

theorem rank_mono : ∀ (l : List Nat) (t s len : Nat), t < s → s ≤ l.length → l.getD t 0 = len →
    rank l t len + 1 ≤ rank l s len := by
  intro l
  induction l with
  | nil => intro t s len h1 h2 _; simp at h2; omega
  | cons a l ih =>
    intro t s len h1 h2 h3
    obtain ⟨s', rfl⟩ : ∃ s', s = s' + 1 := ⟨s - 1, by omega⟩
    cases t with
    | zero =>
      have ha : a = len := by simpa using h3
      subst ha
      simp [rank, List.take_succ_cons, List.filter_cons]
    | succ t' =>
      have h3' : l.getD t' 0 = len := by simpa using h3
      have := ih t' s' len (by omega) (by simp at h2; omega) h3'
      unfold rank at this ⊢
      simp only [List.take_succ_cons, List.filter_cons]
      by_cases ha : (a == len) = true
      · simp only [ha, if_true, List.length_cons]; omega
      · simp only [ha]; exact this

theorem rank_lt_blCount (l : List Nat) (s : Nat) (hs : s < l.length) :
    rank l s (l.getD s 0) < blCount l (l.getD s 0) := by
  have := rank_mono l s l.length (l.getD s 0) hs (Nat.le_refl _) rfl
  unfold rank at this
  rw [List.take_length] at this
  unfold rank blCount
  omega

theorem nextCode_mono (ls : List Nat) (len : Nat) (h1 : 1 ≤ len) : ∀ d,
    (nextCode ls len + blCount ls len) * 2 ^ (d + 1) ≤ nextCode ls (len + d + 1) := by
  intro d
  induction d with
  | zero =>
    show _ ≤ (nextCode ls len + (if len = 0 then 0 else blCount ls len)) * 2
    rw [if_neg (by omega)]; omega
  | succ d ih =>
    have e : nextCode ls (len + (d + 1) + 1) =
        (nextCode ls (len + d + 1) + (if len + d + 1 = 0 then 0 else blCount ls (len + d + 1))) * 2 := rfl
    rw [e, if_neg (by omega), Nat.pow_succ]
    have : (nextCode ls len + blCount ls len) * (2 ^ (d + 1) * 2) = (nextCode ls len + blCount ls len) * 2 ^ (d + 1) * 2 := by
      rw [Nat.mul_assoc]
    rw [this]
    have h2 : nextCode ls (len + d + 1) ≤ nextCode ls (len + d + 1) + blCount ls (len + d + 1) := Nat.le_add_right _ _
    exact Nat.mul_le_mul_right 2 (Nat.le_trans ih h2)

/-- **separation**: a symbol that precedes another in (length, index) order owns the code space
    strictly below it -/
theorem sep (ls : List Nat) (t s ct cs : Nat) (ht : canonicalCode ls t = some ct) (hs : canonicalCode ls s = some cs)
    (hord : ls.getD t 0 < ls.getD s 0 ∨ (ls.getD t 0 = ls.getD s 0 ∧ t < s)) :
    (ct + 1) * 2 ^ (ls.getD s 0 - ls.getD t 0) ≤ cs := by
  obtain ⟨t1, t2, t3⟩ := canonical_some ls t ct ht
  obtain ⟨s1, s2, s3⟩ := canonical_some ls s cs hs
  rcases hord with hlt | ⟨heq, hts⟩
  · obtain ⟨d, hd⟩ : ∃ d, ls.getD s 0 = ls.getD t 0 + d + 1 := ⟨ls.getD s 0 - ls.getD t 0 - 1, by omega⟩
    have hr := rank_lt_blCount ls t t1
    have hm := nextCode_mono ls (ls.getD t 0) (by omega) d
    rw [← hd] at hm
    have e : ls.getD s 0 - ls.getD t 0 = d + 1 := by omega
    rw [e]
    have h1 : ct + 1 ≤ nextCode ls (ls.getD t 0) + blCount ls (ls.getD t 0) := by omega
    calc (ct + 1) * 2 ^ (d + 1) ≤ (nextCode ls (ls.getD t 0) + blCount ls (ls.getD t 0)) * 2 ^ (d + 1) :=
          Nat.mul_le_mul_right _ h1
      _ ≤ nextCode ls (ls.getD s 0) := hm
      _ ≤ cs := by omega
  · have hr := rank_mono ls t s (ls.getD s 0) hts (by omega) heq
    rw [heq, Nat.sub_self, Nat.pow_zero, Nat.mul_one]
    rw [heq] at t3
    omega

/-- no other symbol's code word is a prefix of (or equal to) the code word of `s` -/
theorem prefix_free (ls : List Nat) (t s ct cs : Nat) (ht : canonicalCode ls t = some ct) (hs : canonicalCode ls s = some cs)
    (hle : ls.getD t 0 ≤ ls.getD s 0) (hpre : ct = cs / 2 ^ (ls.getD s 0 - ls.getD t 0)) : t = s := by
  rcases Nat.lt_trichotomy t s with h | h | h
  · -- t before s
    have := sep ls t s ct cs ht hs (by omega)
    have hdm := Nat.div_add_mod cs (2 ^ (ls.getD s 0 - ls.getD t 0))
    have hml := Nat.mod_lt cs (Nat.two_pow_pos (ls.getD s 0 - ls.getD t 0))
    rw [hpre, Nat.add_mul, Nat.one_mul] at this
    rw [Nat.mul_comm] at hdm
    omega
  · exact h
  · by_cases heq : ls.getD t 0 = ls.getD s 0
    · have := sep ls s t cs ct hs ht (Or.inr ⟨heq.symm, h⟩)
      rw [heq, Nat.sub_self, Nat.pow_zero, Nat.mul_one] at this
      rw [heq, Nat.sub_self, Nat.pow_zero, Nat.div_one] at hpre
      omega
    · have := sep ls t s ct cs ht hs (Or.inl (by omega))
      have hdm := Nat.div_add_mod cs (2 ^ (ls.getD s 0 - ls.getD t 0))
      have hml := Nat.mod_lt cs (Nat.two_pow_pos (ls.getD s 0 - ls.getD t 0))
      rw [hpre, Nat.add_mul, Nat.one_mul] at this
      rw [Nat.mul_comm] at hdm
      omega

theorem symbolOf_none (ls : List Nat) (s cs k : Nat) (hs : canonicalCode ls s = some cs) (hk : k < ls.getD s 0) (hk1 : 1 ≤ k) :
    symbolOf ls k (cs / 2 ^ (ls.getD s 0 - k)) = none := by
  unfold symbolOf
  apply findSym_none
  intro t _
  cases hp : (ls.getD t 0 == k && canonicalCode ls t == some (cs / 2 ^ (ls.getD s 0 - k))) with
  | false => rfl
  | true =>
    simp only [Bool.and_eq_true, beq_iff_eq] at hp
    have := prefix_free ls t s _ cs hp.2 hs (by omega) (by rw [hp.1])
    subst this
    omega

theorem symbolOf_self (ls : List Nat) (s cs : Nat) (hs : canonicalCode ls s = some cs) :
    symbolOf ls (ls.getD s 0) cs = some s := by
  unfold symbolOf
  apply findSym_some _ s _ (canonical_some ls s cs hs).1
  · simp [hs]
  · intro t _ hp
    simp only [Bool.and_eq_true, beq_iff_eq] at hp
    exact prefix_free ls t s cs cs hp.2 hs (by omega) (by rw [hp.1, Nat.sub_self, Nat.pow_zero, Nat.div_one])

theorem msbBits_succ (c len : Nat) : msbBits c (len + 1) = (c / 2 ^ len % 2) :: msbBits (c % 2 ^ len) len := by
  unfold msbBits
  rw [List.range_succ_eq_map, List.map_cons, List.map_map]
  congr 1
  apply List.map_congr_left
  intro k hk
  have hk' : k < len := List.mem_range.mp hk
  simp only [Function.comp]
  have e1 : len + 1 - 1 - (k + 1) = len - 1 - k := by omega
  rw [e1]
  -- (c % 2^len) / 2^(len-1-k) % 2 = c / 2^(len-1-k) % 2
  obtain ⟨j, hj⟩ : ∃ j, len = (len - 1 - k) + (j + 1) := ⟨k, by omega⟩
  generalize len - 1 - k = m at hj ⊢
  subst hj
  rw [Nat.pow_add, Nat.mod_mul_right_div_self, Nat.pow_succ, Nat.mod_mul_left_mod]

/-- the decoding loop on the bits of the code word of `s`: after `k` bits the accumulated value
    is the top `k` bits of the code word -/
theorem decodeSym_run (ls : List Nat) (s cs : Nat) (hs : canonicalCode ls s = some cs) (rest : List Nat) :
    ∀ (j k fuel : Nat), k + j = ls.getD s 0 → 1 ≤ j → j ≤ fuel →
      decodeSym ls fuel k (cs / 2 ^ j) (msbBits (cs % 2 ^ j) j ++ rest) = some (s, rest) := by
  intro j
  induction j with
  | zero => intro k fuel _ h; omega
  | succ j ih =>
    intro k fuel hk _ hf
    obtain ⟨fuel', rfl⟩ : ∃ f, fuel = f + 1 := ⟨fuel - 1, by omega⟩
    rw [msbBits_succ, List.cons_append, decodeSym]
    have hb : cs % 2 ^ (j + 1) / 2 ^ j % 2 = cs / 2 ^ j % 2 := by
      rw [Nat.pow_succ, Nat.mod_mul_right_div_self, Nat.mod_mod]
    have hacc : 2 * (cs / 2 ^ (j + 1)) + cs % 2 ^ (j + 1) / 2 ^ j % 2 = cs / 2 ^ j := by
      rw [hb, Nat.pow_succ, ← Nat.div_div_eq_div_mul]
      exact Nat.div_add_mod (cs / 2 ^ j) 2
    simp only [hacc]
    have hmm : cs % 2 ^ (j + 1) % 2 ^ j = cs % 2 ^ j := by
      rw [Nat.pow_succ, Nat.mod_mul_right_mod]
    rw [hmm]
    by_cases hj : j = 0
    · subst hj
      have hk' : k + 1 = ls.getD s 0 := by omega
      rw [hk', Nat.pow_zero, Nat.div_one, symbolOf_self ls s cs hs]
      simp [msbBits]
    · have hnone := symbolOf_none ls s cs (k + 1) hs (by omega) (by omega)
      have e : ls.getD s 0 - (k + 1) = j := by omega
      rw [e] at hnone
      rw [hnone]
      exact ih (k + 1) fuel' (by omega) (by omega) (by omega)

/-- **`decodeSym` inverts the canonical code**: for any lengths, a symbol whose canonical code
    word fits its length, and any continuation of the stream -/
theorem decodeSym_canonical (ls : List Nat) (s cs fuel : Nat) (hs : canonicalCode ls s = some cs)
    (hfit : cs < 2 ^ ls.getD s 0) (hf : ls.getD s 0 ≤ fuel) (rest : List Nat) :
    decodeSym ls fuel 0 0 (msbBits cs (ls.getD s 0) ++ rest) = some (s, rest) := by
  have h := decodeSym_run ls s cs hs rest (ls.getD s 0) 0 fuel (by omega) (by have := (canonical_some ls s cs hs).2.1; omega) hf
  rw [Nat.div_eq_of_lt hfit, Nat.mod_eq_of_lt hfit] at h
  exact h

/-! ### the table-driven variant used for execution is the same function -/

theorem findSym_congr (p q : Nat → Bool) : ∀ n, (∀ t, t < n → p t = q t) → findSym p n = findSym q n := by
  intro n
  induction n with
  | zero => intro _; rfl
  | succ n ih =>
    intro h
    rw [findSym, findSym, ih (fun t ht => h t (by omega)), h n (by omega)]

theorem symbolOfT_eq (ls : List Nat) (len code : Nat) :
    symbolOfT ls.toArray (codeTable ls) len code = symbolOf ls len code := by
  unfold symbolOfT symbolOf
  rw [List.size_toArray]
  apply findSym_congr
  intro t ht
  have e1 : ls.toArray.getD t 0 = ls.getD t 0 := by
    simp [Array.getD_eq_getD_getElem?, List.getD_eq_getElem?_getD]
  have e2 : (codeTable ls).getD t none = canonicalCode ls t := by
    unfold codeTable
    simp [Array.getD_eq_getD_getElem?, ht]
  rw [e1, e2]

theorem decodeSymT_eq (ls : List Nat) : ∀ (fuel len code : Nat) (bits : List Nat),
    decodeSymT ls.toArray (codeTable ls) fuel len code bits = decodeSym ls fuel len code bits := by
  intro fuel
  induction fuel with
  | zero => intro _ _ _; rfl
  | succ fuel ih =>
    intro len code bits
    cases bits with
    | nil => rfl
    | cons b rest =>
      rw [decodeSymT, decodeSym, symbolOfT_eq]
      cases symbolOf ls (len + 1) (2 * code + b) with
      | some s => rfl
      | none => exact ih _ _ _

end Prefix
